/-
  SimVerif.Lemmas.SocksNeg — the negotiation machine of the SOCKS proxy model: what each
  member function does with malformed input (closes this connection, nothing else), the
  decision table for well-formed requests, reply codes, command counters over all histories,
  and segmentation independence of the composed exact-size reads.
-/
import SimVerif.Lemmas.SocksCount

namespace SimVerif.Socks

/-! ### helpers -/

theorem out_get_neg (c : Conn) (hs : c.Sized) (i : Int) (h0 : 0 ≤ i) (h1 : i < 65536) :
    c.outBuf.get i = .ok (c.outBuf.byte i.toNat) :=
  Buf.get_ok _ _ h0 (by rw [hs.out]; omega)

theorem exactRead_ok_neg (c : Conn) (cnt : List Int) (hs : c.Sized) (off : Nat) (n : Int) (k : Kind) (h0 : 0 ≤ n) (h : off + n ≤ 65536) :
    exactRead c cnt off n k = .ok (c, cnt, [.read .client n.toNat (.exact off n.toNat 0 k)]) := by
  unfold exactRead
  have hin : c.outBuf.inb (off : Int) n = true := by
    simp [Buf.inb, hs.out]; omega
  have hm : min n.toNat 65536 = n.toNat := by omega
  simp [hin, hm]

theorem out_readN0_neg (c : Conn) (hs : c.Sized) (n : Nat) (hn : n ≤ 65536) : c.outBuf.readN 0 n = .ok (c.outPrefix n) := by
  rw [Buf.readN_ok _ _ _ (by omega) (by omega) (by rw [hs.out]; omega)]
  simp [Conn.outPrefix]

theorem in_write0_neg (c : Conn) (hs : c.Sized) (bytes : Bytes) (h : bytes.length ≤ 65536) :
    c.inBuf.write 0 bytes = .ok (c.inBuf.store 0 bytes) :=
  Buf.write_ok _ _ _ (by omega) (by rw [hs.inn]; omega)

theorem writeFrom_client_neg (c : Conn) (cnt : List Int) (bytes : Bytes) (k : Kind) (h : bytes.length ≤ c.inBuf.cap) :
    writeFrom { c with inBuf := c.inBuf.store 0 bytes } cnt .client bytes.length k
      = .ok ({ c with inBuf := c.inBuf.store 0 bytes }, cnt, [.write .client bytes (.write .client bytes.length k)]) := by
  unfold writeFrom
  simp only
  rw [Buf.store_readN _ _ h]

def fmtBytes (c : Conn) (addr port response : Nat) : Bytes :=
  if c.ver = 5 then [u8 c.ver.toNat, u8 response, 0, 1] ++ addr4 addr ++ port2 port
  else [0, u8 response] ++ port2 port ++ addr4 addr

theorem fmtBytes_eq (c : Conn) (addr port response : Nat) : fmtBytes c addr port response = replyMsg c.ver response addr port := by
  unfold fmtBytes replyMsg
  split
  · rename_i h; rw [h]; rfl
  · rfl

theorem fmtBytes_len (c : Conn) (addr port response : Nat) : (fmtBytes c addr port response).length ≤ 10 := by
  unfold fmtBytes; split <;> simp [addr4, port2]

theorem formatResponse_ok_neg (c : Conn) (hs : c.Sized) (addr port response : Nat) :
    formatResponse c addr port response
      = .ok ({ c with inBuf := c.inBuf.store 0 (fmtBytes c addr port response) }, (fmtBytes c addr port response).length) := by
  have := in_write0_neg c hs (fmtBytes c addr port response) (by have := fmtBytes_len c addr port response; omega)
  unfold fmtBytes at this ⊢
  unfold formatResponse
  simp only [this]

theorem sx_eq_small (b k : UInt8) (hk : k.toNat < 128) : sx b = (k.toNat : Int) ↔ b = k := by
  constructor
  · intro h
    apply UInt8.toNat_inj.mp
    unfold sx at h
    have := UInt8.toNat_lt b
    split at h <;> omega
  · rintro rfl; simp [sx, hk]

theorem sx_1 : sx 1 = 1 := by decide

theorem sx_2 : sx 2 = 2 := by decide

theorem sx_3 : sx 3 = 3 := by decide

theorem sx_eq_1 (b : UInt8) : sx b = 1 ↔ b = 1 := sx_eq_small b 1 (by decide)

theorem sx_eq_2 (b : UInt8) : sx b = 2 ↔ b = 2 := sx_eq_small b 2 (by decide)

theorem sx_eq_3 (b : UInt8) : sx b = 3 ↔ b = 3 := sx_eq_small b 3 (by decide)

theorem sx_eq_4 (b : UInt8) : sx b = 4 ↔ b = 4 := sx_eq_small b 4 (by decide)

theorem dom_good_aux (c : Conn) (cnt : List Int) (n : Nat) (hs : c.Sized) :
    onRequestDomainName {} c cnt .ok n
      = .ok (c, cnt, [.resolve ((List.range (c.outBuf.byte 4).toNat).map (fun j => c.outBuf.byte (5 + j)))
                        (be16 (c.outBuf.byte (5 + (c.outBuf.byte 4).toNat)) (c.outBuf.byte (6 + (c.outBuf.byte 4).toNat))) .resolve]) := by
  unfold onRequestDomainName
  have hlt := UInt8.toNat_lt (c.outBuf.byte 4)
  rw [out_get_neg c hs 4 (by omega) (by omega)]
  simp only [ne_eq, not_true_eq_false, if_false, if_true]
  rw [out_get_neg c hs _ (by simp [ux]; omega) (by simp [ux]; omega), out_get_neg c hs _ (by simp [ux]; omega) (by simp [ux]; omega)]
  simp only
  rw [Buf.readN_ok _ _ _ (by omega) (by simp [ux]) (by rw [hs.out]; simp [ux]; omega)]
  have e1 : (7 + ux (c.outBuf.byte (4:Int).toNat) - 2).toNat = 5 + (c.outBuf.byte 4).toNat := by simp [ux]; omega
  have e2 : (7 + ux (c.outBuf.byte (4:Int).toNat) - 1).toNat = 6 + (c.outBuf.byte 4).toNat := by simp [ux]; omega
  rw [e1, e2]
  simp [ux]

/-! ### malformed input closes -/

/-- an error (end of file, reset, …) on any read of the negotiation closes the connection -/
theorem exactDone_error_closes (c : Conn) (cnt : List Int) (k : Kind) (ec : Ec) (total : Nat)
    (hk : k = .hs1 ∨ k = .hs2 ∨ k = .req1 ∨ k = .dom) (hec : ec ≠ .ok) :
    exactDone {} c cnt k ec total = .ok (c, cnt, closeActs) := by
  rcases hk with rfl | rfl | rfl | rfl <;>
    simp [exactDone, onHandshake1, onHandshake2, onRequest1, onRequestDomainName, closeConnection, hec]

/-- greeting: short, or a version byte that is neither 4 nor 5 -/
theorem hs1_bad_closes (c : Conn) (cnt : List Int) (n : Nat) (hs : c.Sized)
    (h : n ≠ 2 ∨ (c.outBuf.byte 0 ≠ 4 ∧ c.outBuf.byte 0 ≠ 5)) :
    onHandshake1 {} c cnt .ok n = .ok (c, cnt, closeActs) := by
  unfold onHandshake1
  rw [out_get_neg c hs 0 (by omega) (by omega)]
  by_cases hn : n = 2
  · have h' := h.resolve_left (by simp [hn])
    simp [hn, closeConnection, h']
  · simp [hn, closeConnection]

/-- greeting accepted: read exactly NMETHODS further bytes (as an unsigned byte) -/
theorem hs1_good (c : Conn) (cnt : List Int) (hs : c.Sized) (h : c.outBuf.byte 0 = 4 ∨ c.outBuf.byte 0 = 5) :
    onHandshake1 {} c cnt .ok 2
      = .ok (c, cnt, [.read .client (c.outBuf.byte 1).toNat (.exact 0 (c.outBuf.byte 1).toNat 0 .hs2)]) := by
  unfold onHandshake1
  rw [out_get_neg c hs 0 (by omega) (by omega), out_get_neg c hs 1 (by omega) (by omega)]
  have hlt := UInt8.toNat_lt (c.outBuf.byte 1)
  have h' : ¬ (c.outBuf.byte 0 ≠ 4 ∧ c.outBuf.byte 0 ≠ 5) := by
    rcases h with h | h <;> simp [h]
  have := exactRead_ok_neg c cnt hs 0 (ux (c.outBuf.byte 1)) .hs2 (by simp [ux]) (by simp [ux]; omega)
  simp [ux] at this
  simp [h', ux, this]

/-- method list without "no authentication" (0) -/
theorem hs2_no_noauth_closes (c : Conn) (cnt : List Int) (n : Nat) (hs : c.Sized) (hn : n ≤ 65536)
    (h : (0 : UInt8) ∉ c.outPrefix n) : onHandshake2 c cnt .ok n = .ok (c, cnt, closeActs) := by
  unfold onHandshake2
  rw [out_readN0_neg c hs n hn]
  have : (c.outPrefix n).count 0 = 0 := List.count_eq_zero.mpr h
  simp [this, closeConnection]

/-- method list offering "no authentication": reply `05 00`, nothing else -/
theorem hs2_good (c : Conn) (cnt : List Int) (n : Nat) (hs : c.Sized) (hn : n ≤ 65536)
    (h : (0 : UInt8) ∈ c.outPrefix n) :
    ∃ c', onHandshake2 c cnt .ok n = .ok (c', cnt, [.write .client [5, 0] (.write .client 2 .hs3)])
      ∧ c'.outBuf = c.outBuf ∧ c'.Sized := by
  unfold onHandshake2
  rw [out_readN0_neg c hs n hn]
  have : (c.outPrefix n).count 0 ≠ 0 := fun e => List.count_eq_zero.mp e h
  rw [in_write0_neg c hs _ (by simp)]
  have := writeFrom_client_neg c cnt [5, 0] .hs3 (by rw [hs.inn]; simp)
  simp at this
  refine ⟨{ c with inBuf := c.inBuf.store 0 [5, 0] }, ?_, rfl, ⟨hs.out, hs.inn, hs.udp⟩⟩
  simp [*]

theorem hs3_bad_closes (c : Conn) (cnt : List Int) (ec : Ec) (n : Nat) (h : ec ≠ .ok ∨ n ≠ 2) :
    onHandshake3 c cnt ec n = .ok (c, cnt, closeActs) := by
  unfold onHandshake3
  simp [h, closeConnection]

/-- **malformed request**: error, short read, wrong version, unknown command, non-zero reserved
    byte, unknown or unsupported address type, BIND by host name, SOCKS4 user id: the connection
    is closed and nothing else happens (the counters may have counted the command byte) -/
theorem req1_malformed_closes (c : Conn) (cnt : List Int) (ec : Ec) (n : Nat) (hs : c.Sized) (hc : cnt.length = 3)
    (h : ec ≠ .ok ∨ n ≠ expectedLen c.ver ∨ ¬ validReq c.ver (c.outPrefix (expectedLen c.ver))) :
    ∃ c' cnt', onRequest1 {} c cnt ec n = .ok (c', cnt', closeActs) ∧ cnt'.length = 3 := by
  unfold onRequest1
  have he : (if c.ver = 4 then 9 else 10) = expectedLen c.ver := rfl
  simp only [he]
  by_cases h0 : ec ≠ .ok ∨ n ≠ expectedLen c.ver
  · simp only [h0, if_true, closeConnection]; exact ⟨_, _, rfl, hc⟩
  · simp only [h0, if_false]
    have hv := h.resolve_left (fun a => h0 (Or.inl a)) |>.resolve_left (fun a => h0 (Or.inr a))
    rw [out_readN0_neg c hs _ (by have := expectedLen_le_neg c.ver; omega)]
    simp only [guard_bump_neg cnt hc, if_true]
    generalize hH : c.outPrefix (expectedLen c.ver) = H at hv ⊢
    have hl : H.length = expectedLen c.ver := by rw [← hH, outPrefix_length_neg]
    have hcl := cntAfter_length cnt (sx (H.getD 1 0)); rw [hc] at hcl
    generalize cntAfter cnt (sx (H.getD 1 0)) = cnt2 at hcl ⊢
    generalize ({ c with command := sx (H.getD 1 0) } : Conn) = c2
    unfold validReq at hv; simp only at hv
    unfold expectedLen at hl
    simp only [closeConnection]
    by_cases h4 : c.ver = 4
    · simp only [h4, if_true] at hv hl ⊢
      repeat' split
      all_goals first | exact ⟨_, _, rfl, hcl⟩ | skip
      all_goals (exfalso; apply hv; simp_all [sx_eq_1, sx_eq_2, sx_eq_4])
    · simp only [h4, if_false] at hv hl ⊢
      repeat' split
      all_goals first | exact ⟨_, _, rfl, hcl⟩ | skip
      all_goals (exfalso; apply hv; simp_all [sx_eq_1, sx_eq_2, sx_eq_3])

/-- **well-formed request**: exactly the action of the decision table -/
theorem req1_valid (c : Conn) (cnt : List Int) (hs : c.Sized) (hc : cnt.length = 3)
    (h : validReq c.ver (c.outPrefix (expectedLen c.ver))) :
    ∃ c' cnt' a, onRequest1 {} c cnt .ok (expectedLen c.ver) = .ok (c', cnt', [a]) ∧ cnt'.length = 3
      ∧ (match decision c.ver (c.outPrefix (expectedLen c.ver)) with
         | .connect ad pt => a = .connect ad pt .connect
         | .bind ad pt => a = .bindSock ad pt .bound
         | .udp ad pt => a = .udpOpen (.udpBound ad pt)
         | .name len =>
           if len ≤ 3 then
             a = .resolve ((List.range len).map (fun j => c.outBuf.byte (5 + j)))
                   (be16 (c.outBuf.byte (5 + len)) (c.outBuf.byte (6 + len))) .resolve
           else a = .read .client (len - 3) (.exact 10 (len - 3) 0 .dom)) := by
  unfold onRequest1
  have he : (if c.ver = 4 then 9 else 10) = expectedLen c.ver := rfl
  simp only [he]
  simp only [ne_eq, not_true_eq_false, or_self, if_false]
  rw [out_readN0_neg c hs _ (by have := expectedLen_le_neg c.ver; omega)]
  simp only [guard_bump_neg cnt hc, if_true]
  have hb4 : (c.outPrefix (expectedLen c.ver)).getD 4 0 = c.outBuf.byte 4 :=
    outPrefix_getD_neg c _ 4 (by unfold expectedLen; split <;> omega)
  generalize hH : c.outPrefix (expectedLen c.ver) = H at h hb4 ⊢
  have hl : H.length = expectedLen c.ver := by rw [← hH, outPrefix_length_neg]
  have hcl := cntAfter_length cnt (sx (H.getD 1 0)); rw [hc] at hcl
  generalize cntAfter cnt (sx (H.getD 1 0)) = cnt2 at hcl ⊢
  have hs2 : ({ c with command := sx (H.getD 1 0) } : Conn).Sized := ⟨hs.out, hs.inn, hs.udp⟩
  have ho2 : ({ c with command := sx (H.getD 1 0) } : Conn).outBuf = c.outBuf := rfl
  generalize ({ c with command := sx (H.getD 1 0) } : Conn) = c2 at hs2 ho2 ⊢
  unfold validReq at h; simp only at h
  unfold decision; simp only
  unfold expectedLen at hl
  generalize H.getD 0 0 = b0 at *
  generalize H.getD 1 0 = b1 at *
  generalize H.getD 2 0 = b2 at *
  generalize H.getD 3 0 = b3 at *
  generalize H.getD 4 0 = b4 at *
  generalize H.getD 5 0 = b5 at *
  generalize H.getD 6 0 = b6 at *
  generalize H.getD 7 0 = b7 at *
  generalize H.getD 8 0 = b8 at *
  generalize H.getD 9 0 = b9 at *
  by_cases h4 : c.ver = 4
  · simp only [h4, if_true] at h hl ⊢
    obtain ⟨_, h0, h1, h8⟩ := h
    have s0 : sx b0 = 4 := (sx_eq_4 _).mpr h0
    rcases h1 with h1 | h1
    · have s1 : sx b1 = 1 := (sx_eq_1 _).mpr h1
      simp [s0, h8, h1, openForwardConnection, sx_1]
      exact ⟨_, _, ⟨rfl, rfl⟩, hcl⟩
    · have s1 : sx b1 = 2 := (sx_eq_2 _).mpr h1
      simp [s0, h8, h1, bindConnection, sx_2]
      exact ⟨_, _, ⟨rfl, rfl⟩, hcl⟩
  · simp only [h4, if_false] at h hl ⊢
    obtain ⟨_, h0, h1, h2, h3⟩ := h
    have hn4 : b3 = 1 ∨ b3 = 3 := by rcases h3 with h3 | h3; exact .inl h3; exact .inr h3.1
    rcases h3 with h3 | ⟨h3, h12⟩
    · rcases h1 with h1 | h1 | h1
      · have s1 : sx b1 = 1 := (sx_eq_1 _).mpr h1
        simp [h0, h2, h3, h1, openForwardConnection, sx_1]
        exact ⟨_, _, ⟨rfl, rfl⟩, hcl⟩
      · have s1 : sx b1 = 2 := (sx_eq_2 _).mpr h1
        simp [h0, h2, h3, h1, bindConnection, sx_2]
        exact ⟨_, _, ⟨rfl, rfl⟩, hcl⟩
      · have s1 : sx b1 = 3 := (sx_eq_3 _).mpr h1
        simp [h0, h2, h3, h1, udpAssociate, sx_3]
        exact ⟨_, _, ⟨rfl, rfl⟩, hcl⟩
    · have s12 : sx b1 ≠ 2 := fun e => h12 ((sx_eq_2 _).mp e)
      have s1 : sx b1 = 1 ∨ sx b1 = 3 := by
        rcases h1 with h1 | h1 | h1
        · exact .inl ((sx_eq_1 _).mpr h1)
        · exact absurd h1 h12
        · exact .inr ((sx_eq_3 _).mpr h1)
      have s1' : ¬ (¬ sx b1 = 1 ∧ ¬ sx b1 = 2 ∧ ¬ sx b1 = 3) := by rcases s1 with s1 | s1 <;> simp [s1]
      rw [if_neg (by simp [h0]), if_neg s1', if_neg (by simp [h2]), if_neg (by simp [h3]), if_neg (by rw [h3]; decide), if_pos h3, if_neg s12, if_neg (show ¬ b3 = 1 by rw [h3]; decide)]
      simp only [true_and]
      have hlt := UInt8.toNat_lt b4
      by_cases h5 : ux b4 - 3 ≤ 0
      · have h5' : b4.toNat ≤ 3 := by simp [ux] at h5; omega
        simp only [h5, h5', if_true]
        rw [dom_good_aux c2 cnt2 0 hs2, ho2, ← hb4]
        exact ⟨_, _, _, rfl, hcl, rfl⟩
      · have h5' : ¬ b4.toNat ≤ 3 := by simp [ux] at h5; omega
        simp only [h5, h5', if_false]
        rw [exactRead_ok_neg c2 cnt2 hs2 10 _ .dom (by omega) (by simp [ux]; omega)]
        refine ⟨_, _, _, rfl, hcl, ?_⟩
        have : (ux b4 - 3).toNat = b4.toNat - 3 := by simp [ux]; omega
        rw [this]

/-- the rest of a host name arrived: look it up (name = bytes 5 … 5+len, port follows) -/
theorem dom_good (c : Conn) (cnt : List Int) (n : Nat) (hs : c.Sized) :
    onRequestDomainName {} c cnt .ok n
      = .ok (c, cnt, [.resolve ((List.range (c.outBuf.byte 4).toNat).map (fun j => c.outBuf.byte (5 + j)))
                        (be16 (c.outBuf.byte (5 + (c.outBuf.byte 4).toNat)) (c.outBuf.byte (6 + (c.outBuf.byte 4).toNat))) .resolve]) :=
  dom_good_aux c cnt n hs

/-! ### counters -/

/-- `on_request1` counts the command byte iff it is 1, 2 or 3; nothing else touches the counters -/
theorem req1_counts (c : Conn) (cnt : List Int) (ec : Ec) (n : Nat) (c' : Conn) (cnt' : List Int) (a : List Act)
    (hc : cnt.length = 3) (h : onRequest1 {} c cnt ec n = .ok (c', cnt', a)) :
    cnt' = (if ec = .ok ∧ n = expectedLen c.ver then
              (let k := sx (c.outBuf.byte 1)
               if 1 ≤ k ∧ k ≤ 3 then cnt.set (k - 1).toNat (cnt.getD (k - 1).toNat 0 + 1) else cnt)
            else cnt) := by
  obtain ⟨_, _, h3⟩ := onRequest1_out c cnt ec n c' cnt' a hc h
  rw [h3]; rfl

/-- over all histories: the counters are the numbers of connections that received a request
    with command byte 1 (CONNECT), 2 (BIND), 3 (UDP ASSOCIATE) -/
theorem counters_run (ver : Int) (flags : Nat) (ls : List SLbl) (s : SS)
    (h : (SS.init ver flags).run {} ls = .ok s) :
    s.cnt = [s.countCmd 1, s.countCmd 2, s.countCmd 3] := by
  exact (SInv_run _ _ ls (SInv_init ver flags) h).cnt

/-! ### reply codes -/

/-- connect / accept outcome → reply: success 0 (v5) / 90 (v4) then relay; failure 5 / 91 then close -/
theorem reply_connected (c : Conn) (cnt : List Int) (ec : Ec) (rem : Option (Nat × Nat)) (hs : c.Sized)
    (hab : ec ≠ .aborted ∧ ec ≠ .badDesc) :
    ∃ c', onConnected c cnt ec rem
        = .ok (c', cnt, [.write .client (replyMsg c.ver (connCode c.ver ec) (rem.getD (0, 0)).1 (rem.getD (0, 0)).2)
                          (.write .client (replyMsg c.ver (connCode c.ver ec) (rem.getD (0, 0)).1 (rem.getD (0, 0)).2).length
                             (if ec = .ok then .relayStart else .closeAfter))])
      ∧ c'.outBuf = c.outBuf ∧ c'.Sized := by
  unfold onConnected
  simp only [hab.1, hab.2, or_self, if_false]
  rw [formatResponse_ok_neg c hs]
  simp only
  rw [writeFrom_client_neg c cnt _ _ (by have := fmtBytes_len c (rem.getD (0, 0)).1 (rem.getD (0, 0)).2 (if ec ≠ .ok then (if c.ver = 4 then 91 else 5) else (if c.ver = 4 then 90 else 0)); rw [hs.inn]; omega)]
  refine ⟨{ c with inBuf := c.inBuf.store 0 (fmtBytes c (rem.getD (0, 0)).1 (rem.getD (0, 0)).2 (if ec ≠ .ok then (if c.ver = 4 then 91 else 5) else (if c.ver = 4 then 90 else 0))) }, ?_, rfl, ⟨hs.out, hs.inn, hs.udp⟩⟩
  rw [fmtBytes_eq]
  have : (if ec ≠ .ok then (if c.ver = 4 then 91 else 5) else (if c.ver = 4 then 90 else 0)) = connCode c.ver ec := by
    unfold connCode; by_cases h : ec = .ok <;> simp [h]
  rw [this]
  by_cases h : ec = .ok <;> simp [h]

/-- unresolvable host name → reply code 4 (host unreachable), then close -/
theorem reply_unresolvable (c : Conn) (cnt : List Int) (ec : Ec) (ips : List (Nat × Nat)) (hs : c.Sized)
    (h : ec ≠ .ok ∨ ips = []) :
    ∃ c', onRequestDomainLookup c cnt ec ips
        = .ok (c', cnt, [.write .client [u8 c.ver.toNat, 4, 0, 1, 0, 0, 0, 0, 0, 0] (.write .client 10 .closeAfter)]) := by
  have hw := in_write0_neg c hs [u8 c.ver.toNat, 4, 0, 1, 0, 0, 0, 0, 0, 0] (by simp)
  have hf := writeFrom_client_neg c cnt [u8 c.ver.toNat, 4, 0, 1, 0, 0, 0, 0, 0, 0] .closeAfter (by rw [hs.inn]; simp)
  simp only [List.length_cons, List.length_nil] at hf
  refine ⟨{ c with inBuf := c.inBuf.store 0 [u8 c.ver.toNat, 4, 0, 1, 0, 0, 0, 0, 0, 0] }, ?_⟩
  unfold onRequestDomainLookup
  split
  · rename_i a pt rest
    rcases h with h | h
    · exact absurd rfl h
    · cases h
  · rw [hw]; exact hf

/-- resolvable host name → connect to the first address -/
theorem lookup_connects (c : Conn) (cnt : List Int) (a pt : Nat) (rest : List (Nat × Nat)) :
    onRequestDomainLookup c cnt .ok ((a, pt) :: rest) = .ok (c, cnt, [.connect a pt .connect]) := by
  rfl

/-- BIND socket outcome → first reply: success 0 / 90 then accept; failure 1 / 91 then close -/
theorem reply_bound (c : Conn) (cnt : List Int) (ec : Ec) (loc : Nat × Nat) (hs : c.Sized) :
    ∃ c', bindConnection2 c cnt ec loc
        = .ok (c', cnt, [.write .client (replyMsg c.ver (bindCode c.ver ec) loc.1 loc.2)
                          (.write .client (replyMsg c.ver (bindCode c.ver ec) loc.1 loc.2).length
                             (if ec = .ok then .startAccept else .closeAfter))])
      ∧ c'.Sized := by
  unfold bindConnection2
  simp only
  rw [formatResponse_ok_neg c hs]
  simp only
  rw [writeFrom_client_neg c cnt _ _ (by have := fmtBytes_len c loc.1 loc.2 (if ec ≠ .ok then (if c.ver = 4 then 91 else 1) else (if c.ver = 4 then 90 else 0)); rw [hs.inn]; omega)]
  refine ⟨{ c with inBuf := c.inBuf.store 0 (fmtBytes c loc.1 loc.2 (if ec ≠ .ok then (if c.ver = 4 then 91 else 1) else (if c.ver = 4 then 90 else 0))) }, ?_, ⟨hs.out, hs.inn, hs.udp⟩⟩
  rw [fmtBytes_eq]
  have : (if ec ≠ .ok then (if c.ver = 4 then 91 else 1) else (if c.ver = 4 then 90 else 0)) = bindCode c.ver ec := by
    unfold bindCode; by_cases h : ec = .ok <;> simp [h]
  rw [this]
  by_cases h : ec = .ok <;> simp [h]

/-- the handler of a failure reply closes the connection -/
theorem closeAfter_closes (c : Conn) (cnt : List Int) (s : Sock) (len : Nat) (ec : Ec) (n : Nat) :
    complete {} c cnt (.write s len .closeAfter) (.wr ec n) = .ok (c, cnt, closeActs) := by
  rfl

/-! ### segmentation independence of composed reads -/

/-- store the successive chunks of a composed read -/
def feedExact (c : Conn) (off need got : Nat) : List Bytes → Except Fault (Conn × Nat)
  | [] => .ok (c, got)
  | d :: rest =>
    match exactStep c off need got .ok d with
    | .error e => .error e
    | .ok (c', total, _) => feedExact c' off need total rest

/-- as first stated (without `hne`) the fusion law is false for ZERO chunks when the region starts
    beyond the bytes stored so far: `exactStep` of the empty chunk pads the model buffer with the
    zeros that never-written bytes read as, `feedExact … []` does not touch it -/
theorem exact_fusion_nil_counterexample :
    (feedExact { ver := 5 } 0 10 2 []).toOption.map (fun (x : Conn × Nat) => x.1.outBuf.data)
      ≠ (match exactStep { ver := 5 } 0 10 2 .ok ([] : List Bytes).flatten with
         | .error e => (.error e : Except Fault (Conn × Nat))
         | .ok (c', total, _) => .ok (c', total)).toOption.map (fun (x : Conn × Nat) => x.1.outBuf.data) := by
  decide

theorem exactStep_ok_neg (c : Conn) (off need got : Nat) (ec : Ec) (data : Bytes) (h : off + got + data.length ≤ c.outBuf.cap) :
    exactStep c off need got ec data
      = .ok ({ c with outBuf := c.outBuf.store (off + got) data }, got + data.length,
             decide (ec ≠ .ok ∨ data.length = 0 ∨ got + data.length ≥ need)) := by
  unfold exactStep
  rw [Buf.write_ok _ _ _ (by omega) (by omega), Int.toNat_natCast]

/-- however the bytes of a composed read are cut into read completions (at least one), the
    connection state and the byte count the handler finally sees are those of a single completion
    carrying all of them -/
theorem exact_fusion (c : Conn) (off need got : Nat) (chunks : List Bytes) (hne : chunks ≠ [])
    (h : off + got + chunks.flatten.length ≤ c.outBuf.cap) :
    feedExact c off need got chunks
      = (match exactStep c off need got .ok chunks.flatten with
         | .error e => .error e
         | .ok (c', total, _) => .ok (c', total)) := by
  induction chunks generalizing c got with
  | nil => exact absurd rfl hne
  | cons d rest ih =>
    simp only [List.flatten_cons, List.length_append] at h
    rw [feedExact, exactStep_ok_neg c off need got .ok d (by omega)]
    simp only
    cases rest with
    | nil => rw [feedExact, exactStep_ok_neg c off need got .ok _ (by simp; omega)]; simp
    | cons r rs =>
      rw [ih _ _ (by simp) (by simp only [Buf.store_cap]; omega)]
      rw [exactStep_ok_neg _ off need _ .ok _ (by simp only [Buf.store_cap]; omega)]
      rw [exactStep_ok_neg c off need got .ok _ (by simp only [List.flatten_cons, List.length_append] at h ⊢; omega)]
      simp only [List.flatten_cons, List.length_append]
      rw [← Nat.add_assoc off got, Buf.store_store]
      simp [Nat.add_assoc]

/-- the composed read ends exactly when the region is full (or on a zero-byte completion) -/
theorem exact_done_iff (c : Conn) (off need got : Nat) (d : Bytes) (c' : Conn) (total : Nat) (done : Bool)
    (h : exactStep c off need got .ok d = .ok (c', total, done)) :
    total = got + d.length ∧ (done = true ↔ (d.length = 0 ∨ got + d.length ≥ need)) := by
  unfold exactStep at h
  split at h
  · cases h
  · simp only [Except.ok.injEq, Prod.mk.injEq] at h
    obtain ⟨_, h2, h3⟩ := h
    subst h2 h3
    simp

end SimVerif.Socks
