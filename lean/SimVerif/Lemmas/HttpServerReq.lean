/-
  SimVerif.Lemmas.HttpServerReq — the reference `specStream` on a stream that is a
  concatenation of well-formed requests (SimVerif/HttpSpec.lean: `RawRequest`, `render`,
  `WellFormed`, `canon`), and what the handlers answer.
-/
import SimVerif.HttpServerSys
import SimVerif.Lemmas.HttpServerBasic
import SimVerif.Lemmas.HttpParse

namespace SimVerif.HttpServer

open SimVerif.Http

/-- the blank line that ends the rendered request is its FIRST blank line (no CR LF CR LF
    inside the method or the target — `WellFormed` allows CR and LF there) -/
def Framed (r : RawRequest) : Prop := firstBlank (render r) = some (render r).length

instance (r : RawRequest) : Decidable (Framed r) := by unfold Framed; infer_instance

/-- lines, each followed by CR LF -/
def joinLines : List Bytes → Bytes
  | [] => []
  | l :: ls => l ++ CRLF ++ joinLines ls

theorem win_drop_take (bs : Bytes) (k n a b : Nat) (h : a + b ≤ n) :
    ((win bs k n).drop a).take b = win bs (k + a) b := by
  unfold win
  rw [List.drop_take, List.take_take, List.drop_drop, Nat.min_eq_left (by omega)]

theorem joinLines_noBlank : ∀ (ls : List Bytes), (∀ l ∈ ls, l ≠ [] ∧ hasCRLF l = false) →
    ∀ k, k + 2 < (joinLines ls).length → win (joinLines ls ++ CRLF) k 4 ≠ CRLFCRLF := by
  intro ls
  induction ls with
  | nil => intro _ k hk; simp [joinLines] at hk
  | cons l ls ih =>
    intro hl k hk hw
    obtain ⟨hne, hcr⟩ := hl l (by simp)
    have hjl : (joinLines (l :: ls)).length = l.length + 2 + (joinLines ls).length := by
      simp [joinLines, CRLF]; omega
    have hS : joinLines (l :: ls) ++ CRLF = l ++ CRLF ++ (joinLines ls ++ CRLF) := by
      simp [joinLines]
    rw [hS] at hw
    by_cases h1 : k < l.length
    · have := win_drop_take (l ++ CRLF ++ (joinLines ls ++ CRLF)) k 4 0 2 (by omega)
      rw [hw] at this
      exact noMatch_crlf l hcr _ k h1 this.symm
    · by_cases h2 : k = l.length
      · subst h2
        have := win_drop_take (l ++ CRLF ++ (joinLines ls ++ CRLF)) l.length 4 2 2 (by omega)
        rw [hw, show l.length + 2 = (l ++ CRLF).length + 0 by simp [CRLF], win_append_right] at this
        cases ls with
        | nil => simp [joinLines, CRLF] at hk
        | cons l' ls' =>
          obtain ⟨hne', hcr'⟩ := hl l' (by simp)
          have hS' : joinLines (l' :: ls') ++ CRLF = l' ++ CRLF ++ (joinLines ls' ++ CRLF) := by
            simp [joinLines]
          rw [hS'] at this
          have hpos : 0 < l'.length := by
            cases l' with
            | nil => exact absurd rfl hne'
            | cons _ _ => simp
          exact noMatch_crlf l' hcr' _ 0 hpos this.symm
      · by_cases h3 : k = l.length + 1
        · subst h3
          have := win_drop_take (l ++ CRLF ++ (joinLines ls ++ CRLF)) (l.length + 1) 4 0 1 (by omega)
          rw [hw] at this
          have e : l ++ CRLF ++ (joinLines ls ++ CRLF) = (l ++ [13]) ++ (10 :: (joinLines ls ++ CRLF)) := by
            simp [CRLF]
          rw [e, show l.length + 1 + 0 = (l ++ [13]).length + 0 by simp, win_append_right] at this
          simp [win, CRLFCRLF] at this
        · rw [show k = (l ++ CRLF).length + (k - (l.length + 2)) by simp [CRLF]; omega,
            win_append_right] at hw
          exact ih (fun x hx => hl x (by simp [hx])) (k - (l.length + 2)) (by omega) hw

theorem joinLines_end : ∀ (ls : List Bytes), ls ≠ [] → ∃ mid, joinLines ls = mid ++ CRLF := by
  intro ls
  induction ls with
  | nil => intro h; exact absurd rfl h
  | cons l ls ih =>
    intro _
    cases ls with
    | nil => exact ⟨l, by simp [joinLines]⟩
    | cons l' ls' =>
      obtain ⟨mid, hm⟩ := ih (by simp)
      exact ⟨l ++ CRLF ++ mid, by rw [joinLines, hm]; simp⟩

theorem renderHeaders_join (hs : List (Bytes × Bytes)) :
    renderHeaders hs = joinLines (hs.map (fun h => h.1 ++ [58] ++ h.2)) := by
  induction hs with
  | nil => rfl
  | cons h t ih =>
    obtain ⟨n, v⟩ := h
    simp [renderHeaders, joinLines, ih]

/-- a sufficient structural condition -/
theorem framed_of_noCRLF (r : RawRequest) (hwf : WellFormed r)
    (hm : hasCRLF r.method = false) (ht : hasCRLF r.target = false) : Framed r := by
  obtain ⟨method, target, version, hs⟩ := r
  obtain ⟨_, _, hv, hh⟩ := hwf
  simp only at hm ht hv hh
  let lines : List Bytes := (method ++ [32] ++ target ++ [32] ++ version) :: hs.map (fun h => h.1 ++ [58] ++ h.2)
  have hrender : render ⟨method, target, version, hs⟩ = joinLines lines ++ CRLF := by
    simp [render, lines, joinLines, renderHeaders_join]
  have hsp : ∀ (a b : Bytes) (c : UInt8), c ≠ 13 → c ≠ 10 → hasCRLF a = false → hasCRLF b = false →
      hasCRLF (a ++ [c] ++ b) = false := by
    intro a b c h13 h10 ha hb
    rw [List.append_assoc]
    apply hasCRLF_append _ _ ha
    · rw [List.singleton_append, hasCRLF_cons_ne _ _ h13]; exact hb
    · simp [h10]
  have hlines : ∀ l ∈ lines, l ≠ [] ∧ hasCRLF l = false := by
    intro l hl
    simp only [lines, List.mem_cons, List.mem_map] at hl
    rcases hl with rfl | ⟨h, hmem, rfl⟩
    · refine ⟨by simp, ?_⟩
      exact hsp _ _ 32 (by decide) (by decide) (hsp _ _ 32 (by decide) (by decide) hm ht) hv
    · obtain ⟨_, h1, h2⟩ := hh h hmem
      exact ⟨by simp, hsp _ _ 58 (by decide) (by decide) h1 h2⟩
  obtain ⟨mid, hmid⟩ := joinLines_end lines (by simp [lines])
  have hnb := joinLines_noBlank lines hlines
  unfold Framed
  rw [hrender, firstBlank_eq_some]
  refine ⟨mid.length, by rw [hmid]; simp [CRLF], ?_⟩
  rw [hmid] at hnb ⊢
  have hl4 : (CRLFCRLF : Bytes).length = 4 := rfl
  apply find_eq_some _ 0 _ CRLFCRLF mid.length (by simp) (by omega)
  · simp [CRLF, CRLFCRLF]
  · have e : mid ++ CRLF ++ CRLF = mid ++ (CRLFCRLF ++ []) := by simp [CRLF, CRLFCRLF]
    rw [e, show mid.length = mid.length + 0 by rfl, win_append_right, win_prefix]
  · intro k _ hk
    rw [hl4]
    exact hnb k (by simp [CRLF]; omega)

/-- what a sequence of requests calls for -/
def expectedOut (cfg : Srv) : List RawRequest → Out
  | [] => ⟨[], .waiting⟩
  | r :: rs =>
    match answer cfg (canon r) with
    | .stall => ⟨[], .stalled⟩
    | .fail => ⟨[], .closed (!cfg.closing)⟩
    | .ub => ⟨[], .ub⟩
    | .respond x close =>
      if !close && cfg.keepAlive then (expectedOut cfg rs).cons x
      else ⟨[x], .closed (!cfg.closing)⟩

/-- the next step of a stream that starts with a rendered well-formed request -/
theorem reqStep_render (cfg : Srv) (r : RawRequest) (hwf : WellFormed r) (hfr : Framed r) (rest : Bytes) :
    reqStep cfg (render r ++ rest) =
      match answer cfg (canon r) with
      | .stall => .stall rest
      | .fail => .fail
      | .ub => .ub
      | .respond x c => .respond x c rest := by
  have hfa := firstBlank_append (render r) rest _ hfr
  have hd : (render r ++ rest).drop (render r).length = rest := by simp
  unfold reqStep
  rw [hfa]
  simp only
  rw [parseRequest_append (render r) rest _ (Nat.le_refl _), C15_roundtrip r hwf]
  simp only
  rw [hd]
  cases answer cfg (canon r) <;> rfl

theorem specStream_requests_aux (cfg : Srv) (rs : List RawRequest) (tail : Bytes)
    (h : ∀ r ∈ rs, WellFormed r ∧ Framed r) (ht : firstBlank tail = none) :
    specStream cfg ((rs.map render).flatten ++ tail) = expectedOut cfg rs := by
  induction rs with
  | nil =>
    have : reqStep cfg tail = .more := by unfold reqStep; rw [ht]
    simp only [List.map_nil, List.flatten_nil, List.nil_append, expectedOut]
    rw [specStream_eq, this]
  | cons r rs ih =>
    obtain ⟨hwf, hfr⟩ := h r (by simp)
    have ih' := ih (fun x hx => h x (by simp [hx]))
    simp only [List.map_cons, List.flatten_cons, List.append_assoc]
    rw [specStream_eq, reqStep_render cfg r hwf hfr, expectedOut]
    cases answer cfg (canon r) <;> simp only
    rw [ih']

theorem specStream_requests (cfg : Srv) (rs : List RawRequest) (h : ∀ r ∈ rs, WellFormed r ∧ Framed r) :
    specStream cfg (rs.map render).flatten = expectedOut cfg rs := by
  have := specStream_requests_aux cfg rs [] h (by decide)
  simpa using this

/-- a trailing incomplete request (no blank line in `tail`, and none straddling) changes nothing -/
theorem specStream_requests_partial (cfg : Srv) (rs : List RawRequest) (tail : Bytes)
    (h : ∀ r ∈ rs, WellFormed r ∧ Framed r) (ht : firstBlank tail = none) :
    specStream cfg ((rs.map render).flatten ++ tail) = expectedOut cfg rs := by
  exact specStream_requests_aux cfg rs tail h ht

/-! ### what the handlers answer -/

theorem int32_id (i : Int) (h0 : 0 ≤ i) (h1 : i < 2147483648) : int32 i = i := by
  unfold int32
  rw [Int.emod_eq_of_lt (by omega) (by omega)]
  omega

theorem genContent_some (start len : Int) (body : Bytes) (h : genContent start len = some body) :
    0 ≤ len ∧ len ≤ 4194304 ∧ body = (List.range len.toNat).map (genByte start) ∧
      body.length = len.toNat := by
  unfold genContent at h
  split at h
  · simp at h
  · simp at h
    subst h
    simp
    omega

theorem genContent_int32 (start len : Int) (body : Bytes) (h : genContent start len = some body) :
    int32 len = (body.length : Int) := by
  obtain ⟨h0, h1, _, h3⟩ := genContent_some start len body h
  rw [int32_id len h0 (by omega), h3]
  omega

theorem contentHandler_ok (size : Int) (hdrs : HMap) (r : Bytes) (h : contentHandler size hdrs = .ok r) :
    ∃ code msg extra body, r = sendResponse code msg (body.length : Int) extra ++ body := by
  unfold contentHandler at h
  split at h
  · split at h
    · simp at h
    · rename_i body hb
      simp at h
      subst h
      rw [genContent_int32 _ _ _ hb]
      exact ⟨_, _, _, _, rfl⟩
  · dsimp only at h
    split at h
    · simp at h
    · split at h
      · simp at h
      · split at h
        · simp at h
        · split at h
          · simp at h
          · split at h
            · simp at h
            · rename_i body hb
              simp at h
              subst h
              rw [genContent_int32 _ _ _ hb]
              exact ⟨_, _, _, _, rfl⟩

theorem findHandler_mem (path : Bytes) (l : List (Bytes × Handler)) (h : Handler)
    (hf : findHandler path l = some h) : ∃ p, (p, h) ∈ l := by
  induction l with
  | nil => simp [findHandler] at hf
  | cons e t ih =>
    obtain ⟨k, h'⟩ := e
    unfold findHandler at hf
    split at hf
    · simp at hf
      subst hf
      exact ⟨k, by simp⟩
    · obtain ⟨p, hp⟩ := ih hf
      exact ⟨p, by simp [hp]⟩

/-- every response is `send_response(code, msg, len, extra)` followed by exactly `len` body bytes -/
theorem answer_content_length (cfg : Srv) (req : Request) (r : Bytes) (c : Bool)
    (hfix : ∀ p b, (p, Handler.fixed b) ∈ cfg.handlers → b.length < 2147483648)
    (h : answer cfg req = .respond r c) :
    ∃ code msg extra body, r = sendResponse code msg (body.length : Int) extra ++ body := by
  unfold answer at h
  split at h
  · split at h
    · simp at h
    · simp at h
      refine ⟨404, str "Not Found", [], [], ?_⟩
      simp [← h.1]
  · rename_i hd hfh
    obtain ⟨p, hp⟩ := findHandler_mem _ _ _ hfh
    split at h
    · simp at h
    · simp at h
    · rename_i x hx
      simp at h
      obtain ⟨rfl, _⟩ := h
      cases hd with
      | content size => exact contentHandler_ok size _ _ hx
      | redirect target =>
        simp [Handler.run] at hx
        exact ⟨301, str "Moved Permanently", str "Location: " ++ target ++ CRLF, [], by simp [← hx]⟩
      | fixed body =>
        simp only [Handler.run] at hx
        have hb := hfix p body hp
        rw [int32_id _ (by omega) (by omega)] at hx
        simp at hx
        exact ⟨_, _, _, _, hx.symm⟩

theorem isDigit_facts (d : UInt8) (h : isDigit d = true) :
    d ≠ 61 ∧ d ≠ 45 ∧ d ≠ 43 ∧ isSpace d = false := by
  simp [isDigit, UInt8.le_iff_toNat_le] at h
  refine ⟨?_, ?_, ?_, ?_⟩
  · rintro rfl; simp at h
  · rintro rfl; simp at h
  · rintro rfl; simp at h
  · simp [isSpace, UInt8.le_iff_toNat_le, ← UInt8.toNat_inj]
    omega

theorem dropWhile_ne_append (c : UInt8) (pre post : Bytes) (h : c ∉ pre) :
    (pre ++ c :: post).dropWhile (· != c) = c :: post := by
  induction pre with
  | nil => simp
  | cons a t ih =>
    simp at h
    simp [Ne.symm h.1, ih h.2]

theorem afterFirst_append (c : UInt8) (pre post : Bytes) (h : c ∉ pre) :
    afterFirst c (pre ++ c :: post) = post := by
  unfold afterFirst
  rw [if_pos (by simp), dropWhile_ne_append c pre post h]
  rfl

theorem beforeFirst_append (c : UInt8) (pre post : Bytes) (h : c ∉ pre) :
    beforeFirst c (pre ++ c :: post) = pre := by
  unfold beforeFirst
  induction pre with
  | nil => simp
  | cons a t ih =>
    simp at h
    simp [Ne.symm h.1, ih h.2]

theorem takeWhile_all (ds : Bytes) (h : ∀ d ∈ ds, isDigit d = true) : ds.takeWhile isDigit = ds := by
  induction ds with
  | nil => rfl
  | cons a t ih =>
    rw [List.takeWhile_cons, h a (by simp)]
    simp [ih (fun d hd => h d (by simp [hd]))]

theorem stoll_digits (ds : Bytes) (hne : ds ≠ []) (h : ∀ d ∈ ds, isDigit d = true)
    (hv : digitsVal ds ≤ 9223372036854775807) : stoll ds = some (digitsVal ds : Int) := by
  cases ds with
  | nil => exact absurd rfl hne
  | cons d t =>
    obtain ⟨_, h45, h43, hsp⟩ := isDigit_facts d (h d (by simp))
    unfold stoll
    rw [List.dropWhile_cons, hsp]
    simp only [Bool.false_eq_true, if_false]
    split
    · rename_i heq; simp at heq; exact absurd heq.1 h45
    · rename_i heq; simp at heq; exact absurd heq.1 h43
    · rw [takeWhile_all _ h]
      simp [inI64]
      omega


/-- ranged content: `Range: bytes=<a>-<b>` (decimal digit strings, a ≤ b, at most 4 MiB) is
    answered 206 with bytes a..b of the generator and content-length b - a + 1. The
    Content-Range header carries the LENGTH of the range where HTTP wants the total size. -/
theorem contentHandler_range (size : Int) (hdrs : HMap) (da db : Bytes)
    (hda : da ≠ [] ∧ ∀ d ∈ da, isDigit d = true) (hdb : db ≠ [] ∧ ∀ d ∈ db, isDigit d = true)
    (hr : mapLookup (str "range") hdrs = some (str "bytes=" ++ da ++ [45] ++ db))
    (hle : digitsVal da ≤ digitsVal db) (hsz : digitsVal db - digitsVal da < 4194304)
    (hbig : digitsVal db < 9223372036854775807) :
    contentHandler size hdrs = .ok
      (sendResponse 206 (str "Partial Content") ((digitsVal db - digitsVal da + 1 : Nat) : Int)
          (str "Content-Range: bytes " ++ decI (digitsVal da) ++ [45] ++ decI (digitsVal db) ++ [47]
            ++ decI ((digitsVal db - digitsVal da + 1 : Nat) : Int) ++ CRLF)
        ++ (List.range (digitsVal db - digitsVal da + 1)).map (genByte (digitsVal da))) := by
  have h45 : (45 : UInt8) ∉ da := fun hm => (isDigit_facts 45 (hda.2 45 hm)).2.1 rfl
  have h1 : afterFirst 61 (str "bytes=" ++ da ++ [45] ++ db) = da ++ 45 :: db := by
    have : str "bytes=" ++ da ++ [45] ++ db = [98, 121, 116, 101, 115] ++ 61 :: (da ++ 45 :: db) := by
      have : str "bytes=" = [98, 121, 116, 101, 115, 61] := by decide
      rw [this]; simp
    rw [this, afterFirst_append _ _ _ (by decide)]
  have h2 := beforeFirst_append 45 da db h45
  have h3 := afterFirst_append 45 da db h45
  have h4 := stoll_digits da hda.1 hda.2 (by omega)
  have h5 := stoll_digits db hdb.1 hdb.2 (by omega)
  have hlen : ((digitsVal db : Int) + 1 - (digitsVal da : Int)) = ((digitsVal db - digitsVal da + 1 : Nat) : Int) := by
    omega
  have hg : genContent (digitsVal da : Int) ((digitsVal db - digitsVal da + 1 : Nat) : Int)
      = some ((List.range (digitsVal db - digitsVal da + 1)).map (genByte (digitsVal da))) := by
    unfold genContent
    rw [if_neg (by omega)]
    simp
  unfold contentHandler
  rw [hr]
  simp only
  rw [h1, h2, h3, h4, h5]
  simp only
  rw [if_neg (by omega)]
  rw [hlen]
  rw [if_neg (by simp [inI64]; omega)]
  rw [hg]
  simp only
  rw [int32_id _ (by omega) (by omega)]
  rw [show ((digitsVal db : Int) + 1 - 1) = (digitsVal db : Int) by omega]

/-- unranged content: 200 with the whole `size` bytes -/
theorem contentHandler_whole (size : Nat) (hdrs : HMap) (hs : size ≤ 4194304)
    (hr : mapLookup (str "range") hdrs = none) :
    contentHandler size hdrs = .ok
      (sendResponse 200 (str "OK") (size : Int) [] ++ (List.range size).map (genByte 0)) := by
  have hg : genContent 0 (size : Int) = some ((List.range size).map (genByte 0)) := by
    unfold genContent
    rw [if_neg (by omega)]
    simp
  unfold contentHandler
  rw [hr]
  simp only
  rw [hg]
  simp only
  rw [int32_id _ (by omega) (by omega)]

end SimVerif.HttpServer
