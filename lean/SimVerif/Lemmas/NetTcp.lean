/-
  SimVerif.Lemmas.NetTcp — projection lemmas for the TCP / acceptor mechanism functions of
  SimVerif/Tcp.lean that touch the registry or the forwarder table: what each does to the
  (is open, bound endpoint, forwarder) view of every object, to the registries and to the
  forwarder table. Everything else of a TCP object (windows, queues, handlers, channels) is
  invisible to the registry: `TFrame`.
-/
import SimVerif.Lemmas.NetBasic
import SimVerif.Lemmas.NetInv

namespace SimVerif

/-- `n'` differs from `n` only in what the registry cannot see of TCP objects -/
structure TFrame (n n' : NetSt) : Prop where
  tv   : ∀ x, n'.tv x = n.tv x
  reg  : n'.reg = n.reg
  fwds : n'.fwds = n.fwds
  udps : n'.udps = n.udps
  cfg  : n'.cfg = n.cfg

theorem TFrame.refl (n : NetSt) : TFrame n n := ⟨fun _ => rfl, rfl, rfl, rfl, rfl⟩
theorem TFrame.trans {a b c : NetSt} (h1 : TFrame a b) (h2 : TFrame b c) : TFrame a c :=
  ⟨fun x => (h2.tv x).trans (h1.tv x), h2.reg.trans h1.reg, h2.fwds.trans h1.fwds,
   h2.udps.trans h1.udps, h2.cfg.trans h1.cfg⟩

theorem TFrame.udp? {n n' : NetSt} (h : TFrame n n') (x : String) : n'.udp? x = n.udp? x := by
  unfold NetSt.udp?; rw [h.udps]
theorem TFrame.fwdTarget {n n' : NetSt} (h : TFrame n n') (g : Nat) : n'.fwdTarget g = n.fwdTarget g :=
  fwdTarget_congr _ _ h.fwds g

theorem tv_setTcp (n : NetSt) (k x : String) (v : TcpSock) :
    (n.setTcp k v).tv x = if x = k then some v.view else n.tv x := by
  unfold NetSt.tv; rw [tcp?_setTcp]; split <;> rfl

theorem TFrame.setTcp (n : NetSt) (name : String) (s s' : TcpSock) (h : n.tcp? name = some s)
    (hv : s'.view = s.view) : TFrame n (n.setTcp name s') := by
  refine ⟨fun x => ?_, rfl, rfl, rfl, rfl⟩
  rw [tv_setTcp]
  by_cases hx : x = name
  · subst hx; simp [NetSt.tv, h, hv]
  · simp [hx]

theorem TFrame.setChan (n : NetSt) (c : Nat) (ch : Chan) : TFrame n (n.setChan c ch) :=
  ⟨fun _ => rfl, rfl, rfl, rfl, rfl⟩
theorem TFrame.chans (n : NetSt) (cs : List Chan) : TFrame n { n with chans := cs } :=
  ⟨fun _ => rfl, rfl, rfl, rfl, rfl⟩

theorem tcpSendPacket_frame (n : NetSt) (now : Int) (name : String) (p : Pkt) :
    TFrame n (n.tcpSendPacket now name p).1 := by
  unfold NetSt.tcpSendPacket
  cases h : n.tcp? name with
  | none => exact TFrame.refl n
  | some s =>
    dsimp only
    cases hc : s.chan.bind n.chan? with
    | none => exact TFrame.refl n
    | some ch =>
      dsimp only
      exact (TFrame.setChan n _ _).trans (TFrame.setTcp _ name s _ (by simpa using h) rfl)

/-! ### `tcpClose` -/

/-- what `close(ec)` leaves of a TCP object, as far as the registry can see -/
def NetSt.tcpCloseCore (n : NetSt) (name : String) : NetSt :=
  match n.tcp? name with
  | none => n
  | some s =>
    let n := if !s.bound.isDefault then { n with reg := { n.reg with tcp := simUnbind n.reg.tcp name s.bound } } else n
    let n := match s.fwd with | some f => n.setFwd f none | none => n
    let s := { s with chan := none, bound := {}, isOpen := false, fwd := none,
                      mss := 1475, cwnd := 2950, inFlight := 0, outstanding := [],
                      inq := [], reorder := [], resend := [], recvNull := false,
                      nextIn := 0, nextOut := 0, lastDrop := 0 }
    n.setTcp name s.cancel.1

theorem TcpSock.cancel_view (s : TcpSock) : s.cancel.1.view = s.view := by
  unfold TcpSock.cancel TcpSock.abortRecv TcpSock.abortSend
  dsimp only
  split <;> rfl

def NetSt.tcpCloseStage1 (n : NetSt) (now : Int) (name : String) (s0 : TcpSock) : NetSt × List NEff :=
  match s0.chan.bind n.chan? with
  | none => (n, [])
  | some ch =>
    let hops := ch.hops (ch.remoteIdx s0.bound)
    if !hops.isEmpty && s0.connectH.isNone then
      let p : Pkt := { id := s0.nextOut, ty := .err, ec := .eof, len := 0, ovh := 40, hops := hops,
                       src := s0.bound.toString }
      let n := n.setTcp name { s0 with nextOut := s0.nextOut + 1 }
      n.tcpSendPacket now name p
    else (n, [])

def NetSt.tcpCloseStage2 (r : NetSt × List NEff) (name : String) : NetSt × List NEff :=
  match r.1.tcp? name with
  | none => (r.1, r.2)
  | some s =>
    let n := if !s.bound.isDefault then { r.1 with reg := { r.1.reg with tcp := simUnbind r.1.reg.tcp name s.bound } } else r.1
    let n := match s.fwd with | some f => n.setFwd f none | none => n
    let s := { s with chan := none, bound := {}, isOpen := false, fwd := none,
                      mss := 1475, cwnd := 2950, inFlight := 0, outstanding := [],
                      inq := [], reorder := [], resend := [], recvNull := false,
                      nextIn := 0, nextOut := 0, lastDrop := 0 }
    (n.setTcp name s.cancel.1, r.2 ++ s.cancel.2)

theorem tcpClose_unfold (n : NetSt) (now : Int) (name : String) :
    n.tcpClose now name = match n.tcp? name with
      | none => (n, [])
      | some s0 => NetSt.tcpCloseStage2 (n.tcpCloseStage1 now name s0) name := by
  unfold NetSt.tcpClose
  cases n.tcp? name <;> rfl

theorem tcpCloseStage1_frame (n : NetSt) (now : Int) (name : String) (s0 : TcpSock)
    (h : n.tcp? name = some s0) : TFrame n (n.tcpCloseStage1 now name s0).1 := by
  unfold NetSt.tcpCloseStage1
  cases s0.chan.bind n.chan? with
  | none => exact TFrame.refl n
  | some ch =>
    dsimp only
    split
    · exact (TFrame.setTcp n name s0 { s0 with nextOut := s0.nextOut + 1 } h rfl).trans (tcpSendPacket_frame _ _ _ _)
    · exact TFrame.refl n

theorem tcpCloseStage2_fst (r : NetSt × List NEff) (name : String) :
    (NetSt.tcpCloseStage2 r name).1 = r.1.tcpCloseCore name := by
  unfold NetSt.tcpCloseStage2 NetSt.tcpCloseCore
  cases r.1.tcp? name <;> rfl

/-- `close(ec)` = the end-of-stream packet (invisible to the registry), then the core -/
theorem tcpClose_nf (n : NetSt) (now : Int) (name : String) :
    ∃ n1, TFrame n n1 ∧ (n.tcpClose now name).1 = n1.tcpCloseCore name := by
  rw [tcpClose_unfold]
  cases h : n.tcp? name with
  | none => exact ⟨n, TFrame.refl n, by simp [NetSt.tcpCloseCore, h]⟩
  | some s0 => exact ⟨_, tcpCloseStage1_frame n now name s0 h, tcpCloseStage2_fst _ _⟩

/-- everything the registry can see of what `close(ec)` does -/
structure CloseEff (n n' : NetSt) (name : String) : Prop where
  tv   : ∀ x, n'.tv x = if x = name then (n.tv name).map (fun _ => (false, ({} : Ep), (none : Option Nat))) else n.tv x
  regT : n'.reg.tcp = match n.tv name with
          | some v => if v.2.1.isDefault then n.reg.tcp else simUnbind n.reg.tcp name v.2.1
          | none => n.reg.tcp
  regU : n'.reg.udp = n.reg.udp
  port : n'.reg.nextPort = n.reg.nextPort
  cfg  : n'.cfg = n.cfg
  udps : n'.udps = n.udps
  flen : n'.fwds.length = n.fwds.length
  ft   : ∀ g, n'.fwdTarget g = if (n.tv name).bind (·.2.2) = some g then none else n.fwdTarget g

def TcpSock.closedCore (s : TcpSock) : TcpSock :=
  ({ s with chan := none, bound := {}, isOpen := false, fwd := none,
            mss := 1475, cwnd := 2950, inFlight := 0, outstanding := [],
            inq := [], reorder := [], resend := [], recvNull := false,
            nextIn := 0, nextOut := 0, lastDrop := 0 } : TcpSock).cancel.1

theorem TcpSock.closedCore_view (s : TcpSock) : s.closedCore.view = (false, ({} : Ep), (none : Option Nat)) := by
  unfold TcpSock.closedCore; rw [TcpSock.cancel_view]; rfl

theorem tcpCloseCore_some (n : NetSt) (name : String) (s : TcpSock) (h : n.tcp? name = some s) :
    ∃ s' : TcpSock, s'.view = (false, ({} : Ep), (none : Option Nat)) ∧ n.tcpCloseCore name =
      ({ n with reg := { n.reg with tcp := if s.bound.isDefault then n.reg.tcp else simUnbind n.reg.tcp name s.bound },
                fwds := match s.fwd with | some f => (n.setFwd f none).fwds | none => n.fwds }).setTcp name s' := by
  refine ⟨s.closedCore, s.closedCore_view, ?_⟩
  unfold NetSt.tcpCloseCore
  simp only [h]
  cases s.fwd <;> cases s.bound.isDefault <;> rfl

theorem tcpCloseCore_eff (n : NetSt) (name : String) : CloseEff n (n.tcpCloseCore name) name := by
  cases h : n.tcp? name with
  | none =>
    have hv : n.tv name = none := by simp [NetSt.tv, h]
    have : n.tcpCloseCore name = n := by simp [NetSt.tcpCloseCore, h]
    rw [this]
    refine ⟨fun x => ?_, by simp [hv], rfl, rfl, rfl, rfl, rfl, fun g => by simp [hv]⟩
    by_cases hx : x = name <;> simp [hx, hv]
  | some s =>
    have hv : n.tv name = some (s.isOpen, s.bound, s.fwd) := by simp [NetSt.tv, h, TcpSock.view]
    obtain ⟨s', hs', he⟩ := tcpCloseCore_some n name s h
    rw [he]
    refine ⟨fun x => ?_, ?_, rfl, rfl, rfl, rfl, ?_, fun g => ?_⟩
    · rw [tv_setTcp, hs']
      by_cases hx : x = name
      · simp [hx, hv]
      · simp only [hx, if_false]; rfl
    · rw [hv]; rfl
    · cases s.fwd <;> simp [NetSt.setFwd]
    · rw [hv, fwdTarget_congr _ _ (fwds_setTcp _ _ _)]
      cases hf : s.fwd with
      | none => simp [NetSt.fwdTarget]
      | some f =>
        have := fwdTarget_setFwd_none n f g
        simp only [NetSt.fwdTarget] at this ⊢
        simp only [Option.bind_some, Option.some.injEq]
        rw [this]
        by_cases hg : g = f <;> simp [hg, eq_comm]

theorem CloseEff.of_frame {n n1 n' : NetSt} {name : String} (hf : TFrame n n1) (h : CloseEff n1 n' name) :
    CloseEff n n' name := by
  refine ⟨fun x => ?_, ?_, ?_, ?_, ?_, ?_, ?_, fun g => ?_⟩
  · rw [h.tv, hf.tv, hf.tv]
  · rw [h.regT, hf.tv, hf.reg]
  · rw [h.regU, hf.reg]
  · rw [h.port, hf.reg]
  · rw [h.cfg, hf.cfg]
  · rw [h.udps, hf.udps]
  · rw [h.flen, hf.fwds]
  · rw [h.ft, hf.tv, hf.fwdTarget]

theorem tcpClose_eff (n : NetSt) (now : Int) (name : String) : CloseEff n (n.tcpClose now name).1 name := by
  obtain ⟨n1, hf, he⟩ := tcpClose_nf n now name
  rw [he]
  exact CloseEff.of_frame hf (tcpCloseCore_eff n1 name)

/-! ### `tcpOpen` -/

/-- the part of `open(protocol, ec)` after the `close(ec)`: a fresh forwarder, open -/
def NetSt.tcpOpen2 (m : NetSt) (name : String) (v4 : Bool) : NetSt :=
  match m.tcp? name with
  | none => m
  | some s => (m.newFwd name).1.setTcp name { s with isOpen := true, isV4 := v4, fwd := some m.fwds.length }

theorem tcpOpen_nf (n : NetSt) (now : Int) (name : String) (v4 : Bool) :
    (n.tcpOpen now name v4).1 = (n.tcpClose now name).1.tcpOpen2 name v4 := by
  unfold NetSt.tcpOpen NetSt.tcpOpen2
  generalize n.tcpClose now name = r
  obtain ⟨m, e⟩ := r
  dsimp only
  cases m.tcp? name <;> rfl

structure OpenEff (m m' : NetSt) (name : String) : Prop where
  tv   : ∀ x, m'.tv x = if x = name then (m.tv name).map (fun v => (true, v.2.1, some m.fwds.length)) else m.tv x
  reg  : m'.reg = m.reg
  cfg  : m'.cfg = m.cfg
  udps : m'.udps = m.udps
  flen : m'.fwds.length = m.fwds.length + (if (m.tv name).isSome then 1 else 0)
  ft   : ∀ g, m'.fwdTarget g = if (m.tv name).isSome ∧ g = m.fwds.length then some name else m.fwdTarget g

theorem tcpOpen2_eff (m : NetSt) (name : String) (v4 : Bool) : OpenEff m (m.tcpOpen2 name v4) name := by
  unfold NetSt.tcpOpen2
  cases h : m.tcp? name with
  | none =>
    have hv : m.tv name = none := by simp [NetSt.tv, h]
    refine ⟨fun x => ?_, rfl, rfl, rfl, by simp [hv], fun g => by simp [hv]⟩
    by_cases hx : x = name <;> simp [hx, hv]
  | some s =>
    have hv : m.tv name = some (s.isOpen, s.bound, s.fwd) := by simp [NetSt.tv, h, TcpSock.view]
    dsimp only
    refine ⟨fun x => ?_, rfl, rfl, rfl, ?_, fun g => ?_⟩
    · rw [tv_setTcp]
      by_cases hx : x = name
      · simp [hx, hv, TcpSock.view]
      · simp only [hx, if_false]; rfl
    · simp [hv]
    · rw [fwdTarget_congr _ _ (fwds_setTcp _ _ _), fwdTarget_newFwd]; simp [hv]

/-! ### `tcpBind` -/

def NetSt.tcpBindPre (n : NetSt) (name : String) (ep : Ep) (s : TcpSock) (ep1 : Ep) : Prop :=
  n.tcp? name = some s ∧ s.isOpen = true ∧ ep.isV4 = s.isV4 ∧ s.bound.isDefault = true
  ∧ ioResolve (n.cfg.ipsOf s.node) ep = .ok ep1

theorem tcpBind_pre (n : NetSt) (name : String) (ep : Ep) (s : TcpSock) (ep1 : Ep)
    (h : n.tcpBindPre name ep s ep1) :
    n.tcpBind name ep =
      match simBind n.reg.tcp n.reg.nextPort name ep1 with
      | (tbl, np, .error e) => ({ n with reg := { n.reg with tcp := tbl, nextPort := np } }, e)
      | (tbl, np, .ok ep2) =>
        (({ n with reg := { n.reg with tcp := tbl, nextPort := np } }).setTcp name { s with bound := ep2 }, .ok) := by
  obtain ⟨h1, h2, h3, h4, h5⟩ := h
  unfold NetSt.tcpBind
  simp only [h1, h2, h3, h4, h5]
  simp only [Bool.not_true, Bool.false_eq_true, if_false, bne_self_eq_false]
  rcases hs : simBind n.reg.tcp n.reg.nextPort name ep1 with ⟨tbl, np, r⟩
  cases r <;> rfl

theorem tcpBind_nopre (n : NetSt) (name : String) (ep : Ep)
    (h : ¬ ∃ s ep1, n.tcpBindPre name ep s ep1) : (n.tcpBind name ep).1 = n := by
  unfold NetSt.tcpBind
  cases h1 : n.tcp? name with
  | none => rfl
  | some s =>
    dsimp only
    split
    · rfl
    · split
      · rfl
      · split
        · rfl
        · cases h5 : ioResolve (n.cfg.ipsOf s.node) ep with
          | error e => rfl
          | ok ep1 =>
            exfalso; apply h
            refine ⟨s, ep1, h1, ?_, ?_, ?_, h5⟩ <;> simp_all

/-! ### `tcpMove`, `tcpDestroy`, `accClose`, `accListen` -/

theorem tcpMove_none (n : NetSt) (src dst : String) (h : n.tcp? src = none) : n.tcpMove src dst = n := by
  simp [NetSt.tcpMove, h]

theorem tcpMove_some (n : NetSt) (src dst : String) (s : TcpSock) (h : n.tcp? src = some s) :
    ∃ s' : TcpSock, s'.view = (false, ({} : Ep), (none : Option Nat)) ∧ n.tcpMove src dst =
      (({ n with reg := { n.reg with tcp := if s.bound.isDefault then n.reg.tcp else
                            n.reg.tcp.map (fun (e : Ep × String) => if e.1 == s.bound && e.2 == src then (e.1, dst) else e) },
                 fwds := match s.fwd with | some f => (n.setFwd f (some dst)).fwds | none => n.fwds }).setTcp dst s).setTcp src s' := by
  refine ⟨{ node := s.node, isV4 := s.isV4, mss := s.mss, cwnd := s.cwnd, inFlight := s.inFlight,
            nextOut := s.nextOut, nextIn := s.nextIn, lastDrop := s.lastDrop, recvNull := s.recvNull }, rfl, ?_⟩
  unfold NetSt.tcpMove
  simp only [h]
  cases s.fwd <;> cases s.bound.isDefault <;> rfl

theorem accListen_frame (n : NetSt) (name : String) (qs : Int) : TFrame n (n.accListen name qs).1 := by
  unfold NetSt.accListen
  cases h : n.tcp? name with
  | none => exact TFrame.refl n
  | some s =>
    dsimp only
    split
    · exact TFrame.refl n
    · split
      · exact TFrame.refl n
      · cases s.acc with
        | none => exact TFrame.refl n
        | some a => exact TFrame.setTcp n name s _ h rfl

theorem TcpSock.abortAccept_view (s : TcpSock) : s.abortAccept.1.view = s.view := by
  unfold TcpSock.abortAccept
  cases s.acc with
  | none => rfl
  | some a => dsimp only; cases a.acceptOp <;> rfl


theorem abortAccept_some (s : TcpSock) (a : AccState) (ha : s.acc = some a) :
    s.abortAccept.1 = { s with acc := some { a with acceptOp := none } } := by
  unfold TcpSock.abortAccept
  simp only [ha]
  cases ho : a.acceptOp with
  | none =>
    simp only
    cases s; cases a; simp_all
  | some op => rfl

/-- `check_accept_queue()` on a closed acceptor only empties its queue and aborts its accept:
    the result is the same object with other `acc` contents -/
theorem accCheckQueue_closed (m : NetSt) (now : Int) (name : String) (s0 : TcpSock)
    (h : m.tcp? name = some s0) (hc : s0.isOpen = false) :
    (m.accCheckQueue now name).1 = m ∨
    ∃ a' : AccState, (m.accCheckQueue now name).1 = m.setTcp name { s0 with acc := some a' } := by
  unfold NetSt.accCheckQueue
  simp only [h]
  cases ha : s0.acc with
  | none => exact Or.inl rfl
  | some a0 =>
    right
    simp only [hc, Bool.not_false, if_true]
    rw [abortAccept_some _ { a0 with conns := [] } rfl]
    simp only [tcp?_setTcp, if_true]
    exact ⟨_, rfl⟩

theorem CloseEff.then_frame {n m m' : NetSt} {name : String} (e : CloseEff n m name) (f : TFrame m m') :
    CloseEff n m' name := by
  refine ⟨fun x => ?_, ?_, ?_, ?_, ?_, ?_, ?_, fun g => ?_⟩
  · rw [f.tv, e.tv]
  · rw [f.reg, e.regT]
  · rw [f.reg, e.regU]
  · rw [f.reg, e.port]
  · rw [f.cfg, e.cfg]
  · rw [f.udps, e.udps]
  · rw [f.fwds, e.flen]
  · rw [f.fwdTarget, e.ft]

/-- `acceptor::close(ec)`: forget the backlog limit and the pending accept (invisible to the
    registry), `socket::close`, then `check_accept_queue()` on the closed acceptor (invisible) -/
theorem accClose_eff (n : NetSt) (now : Int) (name : String) : CloseEff n (n.accClose now name).1 name := by
  unfold NetSt.accClose
  cases h : n.tcp? name with
  | none =>
    have hv : n.tv name = none := by simp [NetSt.tv, h]
    refine ⟨fun x => ?_, by simp [hv], rfl, rfl, rfl, rfl, rfl, fun g => by simp [hv]⟩
    by_cases hx : x = name <;> simp [hx, hv]
  | some s =>
    dsimp only
    have hv1 : ((match s.acc with | some a => { s with acc := some { a with queueLimit := -1 } } | none => s : TcpSock).abortAccept.1).view = s.view := by
      rw [TcpSock.abortAccept_view]; cases s.acc <;> rfl
    have f1 := TFrame.setTcp n name s _ h hv1
    have e1 := CloseEff.of_frame f1 (tcpClose_eff _ now name)
    generalize ((n.setTcp name (match s.acc with | some a => { s with acc := some { a with queueLimit := -1 } } | none => s : TcpSock).abortAccept.1).tcpClose now name) = r at e1
    obtain ⟨m, e2⟩ := r
    dsimp only at e1 ⊢
    -- the acceptor is closed now
    have hcl : ∀ s', m.tcp? name = some s' → s'.isOpen = false := by
      intro s' hs'
      have := e1.tv name
      simp only [NetSt.tv, hs', if_true, Option.map_some, h, TcpSock.view] at this
      exact (Prod.mk.inj (Option.some.inj this)).1
    have f2 : TFrame m (m.accCheckQueue now name).1 := by
      cases hm : m.tcp? name with
      | none => unfold NetSt.accCheckQueue; simp only [hm]; exact TFrame.refl m
      | some s' =>
        rcases accCheckQueue_closed m now name s' hm (hcl s' hm) with e | ⟨a', e⟩
        · rw [e]; exact TFrame.refl m
        · rw [e]; exact TFrame.setTcp m name s' _ hm rfl
    exact e1.then_frame f2


/-- the destructor: what `close` does, then the object is gone -/
structure DestroyEff (n n' : NetSt) (name : String) : Prop where
  tv   : ∀ x, n'.tv x = if x = name then none else n.tv x
  regT : n'.reg.tcp = match n.tv name with
          | some v => if v.2.1.isDefault then n.reg.tcp else simUnbind n.reg.tcp name v.2.1
          | none => n.reg.tcp
  regU : n'.reg.udp = n.reg.udp
  port : n'.reg.nextPort = n.reg.nextPort
  cfg  : n'.cfg = n.cfg
  udps : n'.udps = n.udps
  flen : n'.fwds.length = n.fwds.length
  ft   : ∀ g, n'.fwdTarget g = if (n.tv name).bind (·.2.2) = some g then none else n.fwdTarget g

theorem DestroyEff.of_close {n m : NetSt} {name : String} (h : CloseEff n m name) :
    DestroyEff n { m with tcps := m.tcps.filter (fun e => e.1 != name) } name := by
  refine ⟨fun x => ?_, h.regT, h.regU, h.port, h.cfg, h.udps, h.flen, h.ft⟩
  have : ({ m with tcps := m.tcps.filter (fun e => e.1 != name) } : NetSt).tv x
      = ((m.tcps.filter (fun e => e.1 != name)).lookup x).map TcpSock.view := rfl
  rw [this, lookup_filter_ne]
  by_cases hx : x = name
  · simp [hx]
  · have := h.tv x
    simp only [hx, if_false] at this ⊢
    exact this

theorem tcpDestroy_eff (n : NetSt) (now : Int) (name : String) : DestroyEff n (n.tcpDestroy now name).1 name := by
  unfold NetSt.tcpDestroy
  cases h : n.tcp? name with
  | none =>
    have hv : n.tv name = none := by simp [NetSt.tv, h]
    refine ⟨fun x => ?_, by simp [hv], rfl, rfl, rfl, rfl, rfl, fun g => by simp [hv]⟩
    by_cases hx : x = name <;> simp [hx, hv]
  | some t =>
    dsimp only
    split
    · exact DestroyEff.of_close (accClose_eff n now name)
    · exact DestroyEff.of_close (CloseEff.of_frame (TFrame.setTcp n name t { t with chan := none } h rfl) (tcpClose_eff _ now name))

/-! ### `tcpAttach` -/

def NetSt.tcpAttach2 (m : NetSt) (peer : String) (bindEp : Ep) (cid : Nat) : NetSt :=
  match m.tcp? peer, m.chan? cid with
  | some p, some ch =>
    let mss := m.cfg.pathMtu bindEp.addr ch.ep0.addr
    let m := m.setTcp peer { p with bound := bindEp, chan := some cid, mss := mss, cwnd := mss * 2 }
    let h1 := match p.fwd with
      | some f => ch.hops1.dropLast ++ [fwdHop f]
      | none => ch.hops1
    m.setChan cid { ch with hops1 := h1 }
  | _, _ => m

theorem tcpAttach_nf (n : NetSt) (now : Int) (peer : String) (bindEp : Ep) (cid : Nat) :
    (n.tcpAttach now peer bindEp cid).1 = match n.tcp? peer with
      | none => n
      | some p0 => (n.tcpOpen now peer p0.isV4).1.tcpAttach2 peer bindEp cid := by
  unfold NetSt.tcpAttach NetSt.tcpAttach2
  cases n.tcp? peer with
  | none => rfl
  | some p0 =>
    dsimp only
    generalize n.tcpOpen now peer p0.isV4 = r
    obtain ⟨m, e⟩ := r
    dsimp only
    cases m.tcp? peer <;> cases m.chan? cid <;> rfl

structure AttachEff (m m' : NetSt) (peer : String) (bindEp : Ep) (cid : Nat) : Prop where
  tv   : ∀ x, m'.tv x = if x = peer ∧ (m.chan? cid).isSome then (m.tv peer).map (fun v => (v.1, bindEp, v.2.2)) else m.tv x
  reg  : m'.reg = m.reg
  cfg  : m'.cfg = m.cfg
  udps : m'.udps = m.udps
  fwds : m'.fwds = m.fwds

theorem tcpAttach2_eff (m : NetSt) (peer : String) (bindEp : Ep) (cid : Nat) :
    AttachEff m (m.tcpAttach2 peer bindEp cid) peer bindEp cid := by
  unfold NetSt.tcpAttach2
  cases hp : m.tcp? peer with
  | none =>
    have hv : m.tv peer = none := by simp [NetSt.tv, hp]
    refine ⟨fun x => ?_, rfl, rfl, rfl, rfl⟩
    by_cases hx : x = peer <;> simp [hx, hv]
  | some p =>
    have hv : m.tv peer = some (p.isOpen, p.bound, p.fwd) := by simp [NetSt.tv, hp, TcpSock.view]
    cases hc : m.chan? cid with
    | none => exact ⟨fun x => by simp [hc], rfl, rfl, rfl, rfl⟩
    | some ch =>
      dsimp only
      refine ⟨fun x => ?_, rfl, rfl, rfl, rfl⟩
      have : ∀ (a : NetSt) c ch', (a.setChan c ch').tv x = a.tv x := fun _ _ _ => rfl
      rw [this, tv_setTcp]
      by_cases hx : x = peer
      · simp [hx, hv, hc, TcpSock.view]
      · simp [hx]

/-! ### `internalConnect`, `tcpConnect` -/

theorem internalConnect_frame (n : NetSt) (name : String) (target : Ep) :
    TFrame n (n.internalConnect name target).1 := by
  unfold NetSt.internalConnect
  cases n.tcp? name with
  | none => exact TFrame.refl n
  | some s =>
    dsimp only
    cases n.reg.tcp.lookup target with
    | none => exact TFrame.refl n
    | some rname =>
      dsimp only
      cases n.tcp? rname with
      | none => exact TFrame.refl n
      | some r =>
        dsimp only
        split
        · exact TFrame.refl n
        · exact TFrame.chans n _

/-- the implicit bind of `async_connect`: an unbound socket is bound to the wildcard of the
    target's family, ephemeral port -/
def NetSt.tcpConnectBind (n : NetSt) (name : String) (s : TcpSock) (target : Ep) : NetSt × Ec :=
  if s.bound.addr == "0.0.0.0" then
    let anyEp : Ep := { addr := if target.isV4 then "0.0.0.0" else "::", port := 0 }
    match ioResolve (n.cfg.ipsOf s.node) anyEp with
    | .error e => (n, e)
    | .ok ep1 =>
      let (tbl, np, r) := simBind n.reg.tcp n.reg.nextPort name ep1
      let n := { n with reg := { n.reg with tcp := tbl, nextPort := np } }
      match r with
      | .error e => (n, e)
      | .ok ep2 => (n.setTcp name { s with bound := ep2 }, .ok)
  else (n, .ok)

/-- … and what follows it -/
def NetSt.tcpConnectRest (n : NetSt) (name : String) (target : Ep) (h : Nat) (e0 : List NEff) (ecb : Ec) :
    NetSt × List NEff :=
  if ecb != .ok then (n, e0 ++ [.post { h := h, ec := ecb }]) else
  match n.tcp? name with
  | none => (n, e0)
  | some s =>
    if s.bound.isV4 != target.isV4 then (n, e0 ++ [.post { h := h, ec := .afNoSupport }])
    else
      let (n, e1, cid) := n.internalConnect name target
      let mss := n.cfg.pathMtu s.bound.addr target.addr
      match n.tcp? name with
      | none => (n, e0)
      | some s =>
        let s := { s with mss := mss, cwnd := mss * 2 }
        match cid with
        | none =>
          (n.setTcp name { s with chan := none },
            e0 ++ e1 ++ [.armAfter name 0 50000000 (.tcpConnectRefused name h)])
        | some c => (n.setTcp name { s with chan := some c, connectH := some h }, e0 ++ e1)

theorem tcpConnect_unfold (n : NetSt) (now : Int) (name : String) (target : Ep) (h : Nat) :
    n.tcpConnect now name target h = match n.tcp? name with
      | none => (n, [])
      | some s0 =>
        let r0 := if !s0.isOpen then n.tcpOpen now name target.isV4 else (n, [])
        match r0.1.tcp? name with
        | none => (r0.1, r0.2)
        | some s =>
          let rb := r0.1.tcpConnectBind name s target
          rb.1.tcpConnectRest name target h r0.2 rb.2 := by
  unfold NetSt.tcpConnect
  cases n.tcp? name with
  | none => rfl
  | some s0 =>
    dsimp only
    generalize (if (!s0.isOpen) = true then n.tcpOpen now name target.isV4 else (n, [])) = r0
    obtain ⟨m, e0⟩ := r0
    dsimp only
    cases m.tcp? name with
    | none => rfl
    | some s => rfl

theorem tcpConnectRest_frame (n : NetSt) (name : String) (target : Ep) (h : Nat) (e0 : List NEff) (ecb : Ec) :
    TFrame n (n.tcpConnectRest name target h e0 ecb).1 := by
  unfold NetSt.tcpConnectRest
  split
  · exact TFrame.refl n
  · cases n.tcp? name with
    | none => exact TFrame.refl n
    | some s =>
      dsimp only
      split
      · exact TFrame.refl n
      · have hf := internalConnect_frame n name target
        generalize n.internalConnect name target = r at hf
        obtain ⟨m, e1, cid⟩ := r
        dsimp only at hf ⊢
        cases hm : m.tcp? name with
        | none => exact hf
        | some s2 =>
          dsimp only
          cases cid with
          | none => exact hf.trans (TFrame.setTcp m name s2 _ hm rfl)
          | some c => exact hf.trans (TFrame.setTcp m name s2 _ hm rfl)

/-! ### move construction, as the registry sees it -/

structure MoveEff (n n' : NetSt) (src dst : String) (v : Bool × Ep × Option Nat) : Prop where
  tv   : ∀ x, n'.tv x = if x = src then some (false, ({} : Ep), (none : Option Nat)) else if x = dst then some v else n.tv x
  regT : n'.reg.tcp = if v.2.1.isDefault then n.reg.tcp else rebind n.reg.tcp v.2.1 src dst
  regU : n'.reg.udp = n.reg.udp
  port : n'.reg.nextPort = n.reg.nextPort
  cfg  : n'.cfg = n.cfg
  udps : n'.udps = n.udps
  flen : n'.fwds.length = n.fwds.length
  ft   : ∀ g, n'.fwdTarget g = match v.2.2 with
          | some f => if g = f ∧ f < n.fwds.length then some dst else n.fwdTarget g
          | none => n.fwdTarget g

theorem fwdTarget_setFwd_some' (n : NetSt) (f g : Nat) (t : String) :
    (n.setFwd f (some t)).fwdTarget g = if g = f ∧ f < n.fwds.length then some t else n.fwdTarget g := by
  by_cases hf : f < n.fwds.length
  · rw [fwdTarget_setFwd_some n f g t hf]; simp [hf]
  · have h1 : (n.setFwd f (some t)).fwdTarget g = n.fwdTarget g := by
      unfold NetSt.fwdTarget NetSt.setFwd
      simp only [List.getElem?_mapIdx]
      cases hg : n.fwds[g]? with
      | none => simp
      | some v =>
        have := (List.getElem?_eq_some_iff.mp hg).1
        have hne : g ≠ f := by omega
        simp [hne]
    rw [h1]; simp [hf]

theorem tcpMove_eff (n : NetSt) (src dst : String) (s : TcpSock) (h : n.tcp? src = some s) :
    MoveEff n (n.tcpMove src dst) src dst s.view := by
  obtain ⟨s', hs', he⟩ := tcpMove_some n src dst s h
  rw [he]
  refine ⟨fun x => ?_, rfl, rfl, rfl, rfl, rfl, ?_, fun g => ?_⟩
  · rw [tv_setTcp, tv_setTcp, hs']
    by_cases hx : x = src
    · simp [hx]
    · by_cases hxd : x = dst
      · simp [hx, hxd]
      · simp only [hx, hxd, if_false]; rfl
  · simp only [fwds_setTcp]; cases s.fwd <;> simp
  · rw [fwdTarget_congr _ _ (fwds_setTcp _ _ _), fwdTarget_congr _ _ (fwds_setTcp _ _ _)]
    simp only [TcpSock.view]
    cases hf : s.fwd with
    | none => rfl
    | some f =>
      have := fwdTarget_setFwd_some' n f g dst
      simp only [NetSt.fwdTarget] at this ⊢
      exact this

end SimVerif
