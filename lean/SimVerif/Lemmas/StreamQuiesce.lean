/-
  SimVerif.Lemmas.StreamQuiesce — the quiescence invariant of the open stream system
  (SimVerif/StreamSys.lean, SimVerif/StreamQuiesce.lean) and its preservation by every label
  under the drop side condition `TS.dropOk`.

  Layers: list helpers; socket-level descriptions ("lifts") of the mechanism functions of
  SimVerif/Tcp.lean on an attached socket; the pure invariant `QPure` (the writer's window
  account against the bag, where every segment is, the reader's reorder buffer and pending
  read) with one preservation lemma per kind of event; the system invariant `QLive` and its
  preservation by `TS.step`.
  The pure list/account lemmas (`Prog.sumSizes`, `Prog.keys`, `Prog.ids`, …) and the reader-side
  lemmas (`Prog.RCore`, …) of Lemmas/TcpProgress.lean are reused.
-/
import SimVerif.StreamQuiesce
import SimVerif.Lemmas.TcpSysInv
import SimVerif.Lemmas.TcpGhost
import SimVerif.Lemmas.TcpProgress

namespace SimVerif
open Prog (sumSizes keys ids)

/-! ### lists -/

theorem q_mem_eraseIdx {l : List Pkt} (h : (ids l).Nodup) : ∀ {i : Nat} {p : Pkt}, l[i]? = some p →
    ∀ q, q ∈ l.eraseIdx i ↔ q ∈ l ∧ q.id ≠ p.id := by
  induction l with
  | nil => intro i p hp; simp at hp
  | cons x xs ih =>
    intro i p hp q
    simp only [ids, List.map_cons, List.nodup_cons] at h
    cases i with
    | zero =>
      simp only [List.getElem?_cons_zero, Option.some.injEq] at hp
      subst hp
      simp only [List.eraseIdx_cons_zero, List.mem_cons]
      constructor
      · intro hq
        refine ⟨Or.inr hq, ?_⟩
        intro he; apply h.1; rw [← he]; exact List.mem_map_of_mem hq
      · rintro ⟨hq | hq, hne⟩
        · subst hq; exact absurd rfl hne
        · exact hq
    | succ j =>
      simp only [List.getElem?_cons_succ] at hp
      simp only [List.eraseIdx_cons_succ, List.mem_cons]
      rw [ih h.2 hp q]
      have hpm : p ∈ xs := List.mem_of_getElem? hp
      constructor
      · rintro (hq | ⟨hq, hne⟩)
        · subst hq
          refine ⟨Or.inl rfl, ?_⟩
          intro he; apply h.1; rw [he]; exact List.mem_map_of_mem hpm
        · exact ⟨Or.inr hq, hne⟩
      · rintro ⟨hq | hq, hne⟩
        · exact Or.inl hq
        · exact Or.inr ⟨hq, hne⟩

theorem q_mem_ids_eraseIdx {l : List Pkt} (h : (ids l).Nodup) {i : Nat} {p : Pkt} (hp : l[i]? = some p)
    (k : Nat) : k ∈ ids (l.eraseIdx i) ↔ k ∈ ids l ∧ k ≠ p.id := by
  simp only [Prog.mem_ids]
  constructor
  · rintro ⟨q, hq, rfl⟩
    have := (q_mem_eraseIdx h hp q).mp hq
    exact ⟨⟨q, this.1, rfl⟩, this.2⟩
  · rintro ⟨⟨q, hq, rfl⟩, hne⟩
    exact ⟨q, (q_mem_eraseIdx h hp q).mpr ⟨hq, hne⟩, rfl⟩

theorem q_ids_eraseIdx_nodup {l : List Pkt} (h : (ids l).Nodup) (i : Nat) : (ids (l.eraseIdx i)).Nodup :=
  List.Nodup.sublist (List.Sublist.map _ (List.eraseIdx_sublist l i)) h

theorem q_lookup_isSome_mem {α : Type} (l : List (Nat × α)) (k : Nat) (h : (l.lookup k).isSome = true) :
    k ∈ l.map (·.1) := by
  cases hl : l.lookup k with
  | none => rw [hl] at h; cases h
  | some v => exact List.mem_map.mpr ⟨(k, v), mem_of_lookup l k v hl, rfl⟩

theorem q_lookup_none_of_not_mem {α : Type} (l : List (Nat × α)) (k : Nat) (h : k ∉ l.map (·.1)) :
    l.lookup k = none := by
  cases hl : l.lookup k with
  | none => rfl
  | some v => exact absurd (q_lookup_isSome_mem l k (by simp [hl])) h

/-! ### transit -/

theorem inTransit_fields (p : Pkt) (tr : Option (List String × String)) :
    (p.inTransit tr).id = p.id ∧ (p.inTransit tr).ty = p.ty ∧ (p.inTransit tr).payload = p.payload
    ∧ (p.inTransit tr).hasDrop = p.hasDrop := by
  cases tr with
  | none => exact ⟨rfl, rfl, rfl, rfl⟩
  | some x => obtain ⟨a, b⟩ := x; exact ⟨rfl, rfl, rfl, rfl⟩

/-! ### network-state updates -/

/-- `n'` is `n` with socket `name` replaced by `t'`; every other socket is untouched and
    channels neither appear nor disappear -/
structure NUpd (n n' : NetSt) (name : String) (t' : TcpSock) : Prop where
  same : n'.tcp? name = some t'
  other : ∀ k, k ≠ name → n'.tcp? k = n.tcp? k
  chans : ∀ cid, (n'.chan? cid).isSome = (n.chan? cid).isSome

theorem NUpd.setTcp (n : NetSt) (name : String) (t' : TcpSock) : NUpd n (n.setTcp name t') name t' :=
  ⟨tcp?_setTcp_same _ _ _, fun _ hk => tcp?_setTcp_other _ _ _ _ hk, fun _ => rfl⟩

theorem NUpd.setChanTcp (n : NetSt) (name : String) (t' : TcpSock) (cid : Nat) (ch : Chan) :
    NUpd n ((n.setChan cid ch).setTcp name t') name t' :=
  ⟨tcp?_setTcp_same _ _ _, fun k hk => by rw [tcp?_setTcp_other _ _ _ _ hk]; rfl,
   fun c => by rw [chan?_setTcp]; exact chan?_setChan_isSome _ _ _ _⟩

theorem NUpd.trans {n n' n'' : NetSt} {name : String} {t' t'' : TcpSock} (h1 : NUpd n n' name t')
    (h2 : NUpd n' n'' name t'') : NUpd n n'' name t'' :=
  ⟨h2.same, fun k hk => (h2.other k hk).trans (h1.other k hk), fun c => (h2.chans c).trans (h1.chans c)⟩

/-- the socket is attached to an existing channel -/
def ChanOk (n : NetSt) (t : TcpSock) : Prop := ∃ cid, t.chan = some cid ∧ (n.chan? cid).isSome = true

theorem ChanOk.upd {n n' : NetSt} {name : String} {t t' u : TcpSock} (h : ChanOk n t) (hu : NUpd n n' name u)
    (hc : t'.chan = t.chan) : ChanOk n' t' := by
  obtain ⟨cid, h1, h2⟩ := h
  exact ⟨cid, hc.trans h1, (hu.chans cid).trans h2⟩

/-! ### the mechanism functions on an attached socket -/

/-- `send_packet` on the socket alone -/
def qSendPkt (t : TcpSock) (p : Pkt) : TcpSock :=
  { t with inFlight := t.inFlight + p.payload.length,
           outstanding := t.outstanding.filter (fun e => e.1 != p.id) ++ [(p.id, p.payload.length)] }

theorem q_sendPacket {n : NetSt} {name : String} {t : TcpSock} (hs : n.tcp? name = some t) (hc : ChanOk n t)
    (now : Int) (p : Pkt) :
    ∃ b, NUpd n (n.tcpSendPacket now name p).1 name (qSendPkt t p)
      ∧ s5_fwdsOf (n.tcpSendPacket now name p).2 = [{ p with bc := b }] := by
  obtain ⟨cid, hcid, hch⟩ := hc
  cases hch' : n.chan? cid with
  | none => rw [hch'] at hch; cases hch
  | some ch =>
    have hb : t.chan.bind n.chan? = some ch := by rw [hcid]; exact hch'
    unfold NetSt.tcpSendPacket
    simp only [hs, hb]
    refine ⟨if ch.selfIdx t.bound = 0 then ch.sent0 else ch.sent1, NUpd.setChanTcp _ _ _ _ _, ?_⟩
    rw [s5_fwdsOf_append, fwdsOf_if_pcapTcp]
    rfl

def qSegPkt (t : TcpSock) (hops : List String) (seg : List UInt8) : Pkt :=
  { id := t.nextOut, ty := .payload, len := seg.length, ovh := 40, hops := hops, src := t.bound.toString,
    payload := seg, hasDrop := true, dropFwd := t.fwd }

theorem q_sendSeg {n : NetSt} {name : String} {t : TcpSock} (hs : n.tcp? name = some t) (hc : ChanOk n t)
    (now : Int) (hops : List String) (seg : List UInt8) :
    ∃ b, NUpd n (n.tcpSendSeg now name hops seg).1 name (qSendPkt { t with nextOut := t.nextOut + 1 } (qSegPkt t hops seg))
      ∧ s5_fwdsOf (n.tcpSendSeg now name hops seg).2 = [{ qSegPkt t hops seg with bc := b }] := by
  unfold NetSt.tcpSendSeg
  simp only [hs]
  have hu := NUpd.setTcp n name { t with nextOut := t.nextOut + 1 }
  obtain ⟨b, h1, h2⟩ := q_sendPacket (t := { t with nextOut := t.nextOut + 1 }) hu.same (hc.upd hu rfl) now
    (qSegPkt t hops seg)
  exact ⟨b, hu.trans h1, h2⟩

theorem q_windowFull {n : NetSt} {name : String} {t : TcpSock} (hs : n.tcp? name = some t) :
    n.tcpWindowFull name = decide (t.inFlight + t.mss > t.cwnd) := by
  unfold NetSt.tcpWindowFull; simp only [hs]

/-- `write_some_impl` refuses with `would_block` only when the handshake is pending or the
    window is full -/
theorem q_writePrep_block {n : NetSt} {name : String} {t : TcpSock} (hs : n.tcp? name = some t)
    (bufs : List (List UInt8)) (h : n.tcpWritePrep name bufs = .error .wouldBlock) :
    t.connectH.isSome = true ∨ t.inFlight + t.mss > t.cwnd := by
  unfold NetSt.tcpWritePrep at h
  simp only [hs] at h
  split at h
  · cases h
  · split at h
    · cases h
    · split at h
      · rename_i hc; exact Or.inl hc
      · split at h
        · cases h
        · split at h
          · rename_i hw; exact Or.inr hw
          · cases h

theorem q_writeFinish {n : NetSt} {name : String} {t : TcpSock} (hs : n.tcp? name = some t) (op : WriteOp)
    (r : Except Ec Nat) :
    ∃ sh, NUpd n (n.tcpWriteFinish name op r).1 name { t with sendH := sh }
      ∧ (sh.isSome = true → r = .error .wouldBlock)
      ∧ s5_fwdsOf (n.tcpWriteFinish name op r).2 = [] := by
  unfold NetSt.tcpWriteFinish
  simp only [hs]
  split
  · exact ⟨some op, NUpd.setTcp _ _ _, fun _ => rfl, rfl⟩
  · exact ⟨none, NUpd.setTcp _ _ _, (by intro h; cases h), rfl⟩
  · exact ⟨none, NUpd.setTcp _ _ _, (by intro h; cases h), rfl⟩

theorem q_asyncWrite {n : NetSt} {name : String} {t : TcpSock} (hs : n.tcp? name = some t) (op : WriteOp) :
    NUpd n (n.tcpAsyncWrite name op).1 name { t with sendH := some op }
      ∧ s5_fwdsOf (n.tcpAsyncWrite name op).2 = [] := by
  unfold NetSt.tcpAsyncWrite TcpSock.abortSend
  simp only [hs]
  refine ⟨NUpd.setTcp _ _ _, ?_⟩
  rw [s5_fwdsOf_append]
  cases t.sendH <;> rfl

/-- an ACK on the socket alone -/
def qAckSock (t : TcpSock) (k : Nat) : TcpSock :=
  { t with outstanding := t.outstanding.filter (fun e => e.1 != k),
           inFlight := t.inFlight - ((t.outstanding.lookup k).getD 0 : Nat) }

theorem q_incomingAck (tp : TParams) {n : NetSt} {name : String} {t : TcpSock} (hs : n.tcp? name = some t)
    (now : Int) (p : Pkt) (hty : p.ty = .ack) :
    ∃ wb acked, n.tcpIncoming tp now name p
      = (n.setTcp name (qAckSock t p.id), [.tcpResend name, .tcpAckPost name wb acked]) := by
  unfold NetSt.tcpIncoming
  simp only [hs, hty]
  exact ⟨_, _, rfl⟩

theorem q_resendOne {n : NetSt} {name : String} {t : TcpSock} (hs : n.tcp? name = some t) (hc : ChanOk n t)
    (now : Int) :
    n.tcpResendOne now name
      = match t.resend with
        | [] => none
        | p :: rest =>
          if t.inFlight + p.payload.length ≤ t.cwnd then
            some ((n.setTcp name { t with resend := rest }).tcpSendPacket now name p)
          else none := by
  obtain ⟨cid, hcid, _⟩ := hc
  unfold NetSt.tcpResendOne; simp only [hs, hcid]
  cases t.resend <;> simp

theorem q_ackPost (tp : TParams) {n : NetSt} {name : String} {t : TcpSock} (hs : n.tcp? name = some t)
    (wb : Bool) (acked : Nat) :
    n.tcpAckPost tp name wb acked
      = (n.setTcp name { t with cwnd := t.cwnd + t.mss * acked / t.cwnd },
         if tp.wakeWriterFixed then decide (t.inFlight + (t.mss : Int) ≤ ((t.cwnd + t.mss * acked / t.cwnd : Nat) : Int))
         else !wb && decide (t.inFlight + (t.mss : Int) ≤ ((t.cwnd + t.mss * acked / t.cwnd : Nat) : Int))) := by
  unfold NetSt.tcpAckPost; simp only [hs]

/-- `packet_dropped` on the socket alone (in-flight release in place; `rearmDrop` arbitrary) -/
def qDropBase (t : TcpSock) (p' : Pkt) : TcpSock :=
  { t with inFlight := t.inFlight - ((t.outstanding.lookup p'.id).getD 0 : Nat),
           outstanding := t.outstanding.filter (fun e => e.1 != p'.id),
           resend := t.resend ++ [p'] }

theorem q_packetDropped (tp : TParams) (h1 : tp.releaseOnDrop = true) {n : NetSt} {name : String} {t : TcpSock}
    (hs : n.tcp? name = some t) (hc : ChanOk n t) (p : Pkt) :
    ∃ p' t', n.tcpPacketDropped tp name p = n.setTcp name t'
      ∧ p'.id = p.id ∧ p'.ty = p.ty ∧ p'.payload = p.payload
      ∧ (t' = qDropBase t p' ∨ ∃ cw ld, t.mss ≤ cw ∧ t' = { qDropBase t p' with cwnd := cw, lastDrop := ld }) := by
  obtain ⟨cid, hcid, hch⟩ := hc
  cases hch' : n.chan? cid with
  | none => rw [hch'] at hch; cases hch
  | some ch =>
    have hb : t.chan.bind n.chan? = some ch := by rw [hcid]; exact hch'
    have key : ∀ (c : Prop) [Decidable c] (A B : TcpSock),
        (if c then n.setTcp name A else n.setTcp name B) = n.setTcp name (if c then A else B) := by
      intro c _ A B; split <;> rfl
    unfold NetSt.tcpPacketDropped
    simp only [hs, hb, h1, if_true]
    rw [key]
    refine ⟨{ p with hops := ch.hops (ch.remoteIdx t.bound), hasDrop := tp.rearmDrop, dropFwd := if tp.rearmDrop then t.fwd else none }, _, rfl, rfl, rfl, rfl, ?_⟩
    by_cases hcond : (decide (t.lastDrop > 0) && decide (p.id < t.lastDrop + if t.mss = 0 then 0 else t.cwnd / t.mss)) = true
    · rw [if_pos hcond]; exact Or.inl rfl
    · rw [if_neg hcond]
      refine Or.inr ⟨_, _, ?_, rfl⟩
      split <;> omega

/-! ### the reader: what has arrived -/

/-- segment `k` has reached the reader: already released into the incoming queue, or parked in
    the reorder buffer -/
def Arrived (sb : TcpSock) (k : Nat) : Prop := k < sb.nextIn ∨ k ∈ sb.reorder.map (·.1)

theorem q_drain : ∀ (f nx : Nat) (ro : List (Nat × Pkt)) (q : List Pkt),
    nx ≤ (drainReorder f nx ro q).1
    ∧ (∀ k, k ∈ ro.map (·.1) → k ∈ (drainReorder f nx ro q).2.1.map (·.1) ∨ k < (drainReorder f nx ro q).1)
    ∧ (ro.length < f → (drainReorder f nx ro q).2.1.lookup (drainReorder f nx ro q).1 = none) := by
  intro f
  induction f with
  | zero => intro nx ro q; exact ⟨Nat.le_refl _, fun k hk => Or.inl hk, fun h => by omega⟩
  | succ f ih =>
    intro nx ro q
    unfold drainReorder
    split
    · rename_i hl
      exact ⟨Nat.le_refl _, fun k hk => Or.inl hk, fun _ => hl⟩
    · rename_i p hl
      obtain ⟨h1, h2, h3⟩ := ih (nx + 1) (ro.filter (fun e => e.1 != nx)) (q ++ [p])
      refine ⟨by omega, ?_, ?_⟩
      · intro k hk
        by_cases hkn : k = nx
        · right; omega
        · apply h2
          obtain ⟨e, he, rfl⟩ := List.mem_map.mp hk
          exact List.mem_map.mpr ⟨e, List.mem_filter.mpr ⟨he, by simpa using hkn⟩, rfl⟩
      · intro hlen
        apply h3
        have hm := mem_of_lookup ro nx p hl
        have : (ro.filter (fun e => e.1 != nx)).length < ro.length :=
          List.length_filter_lt_length_iff_exists.mpr ⟨(nx, p), hm, by simp⟩
        omega

theorem q_drain_mem : ∀ (f nx : Nat) (ro : List (Nat × Pkt)) (q : List Pkt),
    ∀ x ∈ (drainReorder f nx ro q).2.2, x ∈ q ∨ ∃ e ∈ ro, e.2 = x := by
  intro f
  induction f with
  | zero => intro nx ro q x hx; exact Or.inl hx
  | succ f ih =>
    intro nx ro q x hx
    unfold drainReorder at hx
    split at hx
    · exact Or.inl hx
    · rename_i p hl
      rcases ih _ _ _ x hx with h | ⟨e, he, rfl⟩
      · rw [List.mem_append] at h
        rcases h with h | h
        · exact Or.inl h
        · simp at h; exact Or.inr ⟨(nx, p), mem_of_lookup ro nx p hl, h.symm⟩
      · exact Or.inr ⟨e, (List.mem_filter.mp he).1, rfl⟩

/-- no end-of-stream / error packet among them (both sockets stay open) -/
def NoErr (l : List Pkt) : Prop := ∀ q ∈ l, q.ty ≠ .err

theorem q_readSome_chan (t : TcpSock) (hc : Bool) (caps : List Nat) (h : NoErr t.inq) :
    (t.readSome hc caps).1.chan = t.chan := by
  unfold TcpSock.readSome
  split
  · rfl
  · split
    · rfl
    · split
      · rfl
      · split
        · rfl
        · rename_i p rest hq
          split
          · rename_i hty
            exact absurd (by simpa using hty) (h p (by rw [hq]; simp))
          · rfl

theorem q_asyncReadImpl_chan (t : TcpSock) (op : ReadOp) (h : NoErr t.inq) :
    (t.asyncReadImpl op).1.chan = t.chan := by
  have := q_readSome_chan t t.chan.isSome op.caps h
  unfold TcpSock.asyncReadImpl
  generalize t.readSome t.chan.isSome op.caps = r at this ⊢
  obtain ⟨s1, res⟩ := r
  dsimp only at this ⊢
  cases res with
  | ok d => exact this
  | error e => cases e <;> first | exact this | rfl

theorem q_asyncWaitReadImpl_chan (t : TcpSock) (h : Nat) : (t.asyncWaitReadImpl h).1.chan = t.chan := by
  unfold TcpSock.asyncWaitReadImpl
  split
  · rfl
  · split <;> rfl

theorem q_maybeWakeupReader_chan (tp : TParams) (t : TcpSock) (h : NoErr t.inq) :
    (t.maybeWakeupReader tp).1.chan = t.chan := by
  unfold TcpSock.maybeWakeupReader
  dsimp only
  generalize (if tp.wakeReaderFixed = true then t.inq.isEmpty else t.inq.length != 1) = skip
  split
  · rfl
  · split
    · split
      · exact q_asyncWaitReadImpl_chan _ _
      · rfl
    · split
      · exact q_asyncReadImpl_chan _ _ h
      · rfl

/-- `incoming_packet` for a payload / error packet on an attached socket: an ACK with the
    packet's number goes out; the number has arrived (and everything that had arrived still
    has); the reorder buffer never holds the next expected number; with the reader wake-up
    repair nothing is left stranded -/
theorem q_incomingData (tp : TParams) {n : NetSt} {name : String} {t : TcpSock} (hs : n.tcp? name = some t)
    (hc : ChanOk n t) (now : Int) (p : Pkt) (hty : p.ty = .payload ∨ p.ty = .err)
    (hdr : t.reorder.lookup t.nextIn = none) :
    ∃ t' ack e2, n.tcpIncoming tp now name p = (n.setTcp name t', [.forward ack] ++ e2)
      ∧ s5_fwdsOf e2 = [] ∧ ack.id = p.id ∧ ack.ty = .ack
      ∧ (NoErr t.inq → (∀ e ∈ t.reorder, e.2.ty ≠ .err) → p.ty ≠ .err → t'.chan = t.chan)
      ∧ Arrived t' p.id ∧ (∀ k, Arrived t k → Arrived t' k)
      ∧ t'.reorder.lookup t'.nextIn = none
      ∧ (tp.wakeReaderFixed = true → Prog.PktOk p → Prog.RCore t → Prog.RCore t') := by
  obtain ⟨cid, hcid, hch⟩ := hc
  cases hch' : n.chan? cid with
  | none => rw [hch'] at hch; cases hch
  | some ch =>
    have hb : t.chan.bind n.chan? = some ch := by rw [hcid]; exact hch'
    have key : ∃ t' ack e2, (match t.chan.bind n.chan? with
          | none => (n, ([] : List NEff))
          | some ch =>
            let ack : Pkt := { id := p.id, ty := .ack, len := 0, ovh := 20, hops := ch.hops (ch.remoteIdx t.bound),
                               src := "0.0.0.0:0" }
            if p.id != t.nextIn then
              let ro := if (t.reorder.lookup p.id).isSome then t.reorder else t.reorder ++ [(p.id, p)]
              (n.setTcp name { t with reorder := ro }, [.forward ack])
            else
              let (nx, ro, q) := drainReorder (t.reorder.length + 1) (t.nextIn + 1) t.reorder (t.inq ++ [p])
              let s := { t with nextIn := nx, reorder := ro, inq := q }
              let (s, e2) := s.maybeWakeupReader tp
              (n.setTcp name s, [.forward ack] ++ e2)) = (n.setTcp name t', [.forward ack] ++ e2)
        ∧ s5_fwdsOf e2 = [] ∧ ack.id = p.id ∧ ack.ty = .ack
      ∧ (NoErr t.inq → (∀ e ∈ t.reorder, e.2.ty ≠ .err) → p.ty ≠ .err → t'.chan = t.chan)
        ∧ Arrived t' p.id ∧ (∀ k, Arrived t k → Arrived t' k)
        ∧ t'.reorder.lookup t'.nextIn = none
        ∧ (tp.wakeReaderFixed = true → Prog.PktOk p → Prog.RCore t → Prog.RCore t') := by
      rw [hb]
      dsimp only
      split
      · rename_i hne
        have hne' : p.id ≠ t.nextIn := by simpa using hne
        refine ⟨_, _, [], rfl, rfl, rfl, rfl, (fun _ _ _ => rfl), ?_, ?_, ?_, ?_⟩
        · right
          show p.id ∈ (if (t.reorder.lookup p.id).isSome = true then t.reorder else t.reorder ++ [(p.id, p)]).map (·.1)
          split
          · rename_i hsome; exact q_lookup_isSome_mem _ _ hsome
          · simp
        · intro k hk
          rcases hk with hk | hk
          · exact Or.inl hk
          · right
            show k ∈ (if (t.reorder.lookup p.id).isSome = true then t.reorder else t.reorder ++ [(p.id, p)]).map (·.1)
            split
            · exact hk
            · simp only [List.map_append, List.mem_append]; exact Or.inl hk
        · show (if (t.reorder.lookup p.id).isSome = true then t.reorder else t.reorder ++ [(p.id, p)]).lookup t.nextIn = none
          split
          · exact hdr
          · rw [List.lookup_append, hdr]
            have : (t.nextIn == p.id) = false := by simpa using (Ne.symm hne')
            simp [List.lookup, this]
        · intro _ hpk hrc
          refine { hrc with wfr := ?_ }
          intro e he
          change e ∈ (if (t.reorder.lookup p.id).isSome = true then t.reorder else t.reorder ++ [(p.id, p)]) at he
          split at he
          · exact hrc.wfr e he
          · rw [List.mem_append] at he
            rcases he with he | he
            · exact hrc.wfr e he
            · simp at he; subst he; exact hpk
      · rename_i heq
        have hid : p.id = t.nextIn := by simpa using heq
        obtain ⟨d1, d2, d3⟩ := q_drain (t.reorder.length + 1) (t.nextIn + 1) t.reorder (t.inq ++ [p])
        have hm := s5_maybeWakeupReader_spec tp { t with nextIn := (drainReorder (t.reorder.length + 1) (t.nextIn + 1) t.reorder (t.inq ++ [p])).1, reorder := (drainReorder (t.reorder.length + 1) (t.nextIn + 1) t.reorder (t.inq ++ [p])).2.1, inq := (drainReorder (t.reorder.length + 1) (t.nextIn + 1) t.reorder (t.inq ++ [p])).2.2 }
        refine ⟨_, _, _, rfl, hm.2.2.2, rfl, rfl, ?_, ?_, ?_, ?_, ?_⟩
        · intro hq hro hpe
          rw [q_maybeWakeupReader_chan]
          intro x hx
          rcases q_drain_mem _ _ _ _ x hx with h | ⟨e, he, rfl⟩
          · rw [List.mem_append] at h
            rcases h with h | h
            · exact hq x h
            · simp at h; subst h; exact hpe
          · exact hro e he
        · left; rw [hm.1]; show p.id < (drainReorder (t.reorder.length + 1) (t.nextIn + 1) t.reorder (t.inq ++ [p])).1; omega
        · intro k hk
          rcases hk with hk | hk
          · left; rw [hm.1]; show k < (drainReorder (t.reorder.length + 1) (t.nextIn + 1) t.reorder (t.inq ++ [p])).1; omega
          · rcases d2 k hk with h | h
            · right; rw [hm.2.1]; exact h
            · left; rw [hm.1]; exact h
        · rw [hm.1, hm.2.1]; exact d3 (by omega)
        · intro hF hpk hrc
          apply Prog.maybeWakeupReader_spec tp hF
          obtain ⟨w1, w2, _⟩ := Prog.drainReorder_wf (t.reorder.length + 1) (t.nextIn + 1) t.reorder (t.inq ++ [p]) hrc.wfr
            (fun x hx => by
              rw [List.mem_append] at hx; rcases hx with hx | hx
              · exact hrc.wfq x hx
              · simp at hx; subst hx; exact hpk)
          exact ⟨hrc.conn, hrc.c1, hrc.c2, w2, w1⟩
    have heq : n.tcpIncoming tp now name p = (match t.chan.bind n.chan? with
          | none => (n, ([] : List NEff))
          | some ch =>
            let ack : Pkt := { id := p.id, ty := .ack, len := 0, ovh := 20, hops := ch.hops (ch.remoteIdx t.bound),
                               src := "0.0.0.0:0" }
            if p.id != t.nextIn then
              let ro := if (t.reorder.lookup p.id).isSome then t.reorder else t.reorder ++ [(p.id, p)]
              (n.setTcp name { t with reorder := ro }, [.forward ack])
            else
              let (nx, ro, q) := drainReorder (t.reorder.length + 1) (t.nextIn + 1) t.reorder (t.inq ++ [p])
              let s := { t with nextIn := nx, reorder := ro, inq := q }
              let (s, e2) := s.maybeWakeupReader tp
              (n.setTcp name s, [.forward ack] ++ e2)) := by
      unfold NetSt.tcpIncoming
      rw [hs]
      rcases hty with h | h <;> simp only [h] <;> rfl
    rw [heq]
    exact key

/-- what a read-side API call does to the reader's socket -/
structure RdStep (t t' : TcpSock) : Prop where
  nextIn : t'.nextIn = t.nextIn
  reorder : t'.reorder = t.reorder
  chan : NoErr t.inq → t'.chan = t.chan
  rcore : Prog.RCore t → Prog.RCore t'

theorem q_readNb {n : NetSt} {name : String} {t : TcpSock} (hs : n.tcp? name = some t) (caps : List Nat) :
    ∃ t', (n.tcpReadNb name caps).1 = n.setTcp name t' ∧ RdStep t t' := by
  unfold NetSt.tcpReadNb
  simp only [hs]
  refine ⟨_, rfl, (s5_readSome_spec t t.chan.isSome caps).1, (s5_readSome_spec t t.chan.isSome caps).2.1,
    q_readSome_chan t _ caps, ?_⟩
  intro hc
  obtain ⟨a1, a2, a3, a4, a5, a6, a7, _⟩ := Prog.readSome_spec t t.chan.isSome caps hc.wfq hc.conn
  refine ⟨⟨a1, ?_, ?_, a6, by rw [a5]; exact hc.wfr⟩, ?_⟩
  · rw [a2, a3, a4]; exact hc.c1
  · rw [a2, a3, a4]; exact hc.c2
  · rw [a2, a3]; exact fun hh => a7 (hc.pend hh)

theorem q_abortRecv_chan (t : TcpSock) : t.abortRecv.1.chan = t.chan := by
  unfold TcpSock.abortRecv; rfl

theorem q_asyncRead {n : NetSt} {name : String} {t : TcpSock} (hs : n.tcp? name = some t) (op : ReadOp) :
    ∃ t', (n.tcpAsyncRead name op).1 = n.setTcp name t' ∧ RdStep t t'
      ∧ s5_fwdsOf (n.tcpAsyncRead name op).2 = [] := by
  unfold NetSt.tcpAsyncRead
  simp only [hs]
  have ha := s5_abortRecv_spec t
  have hi := s5_asyncReadImpl_spec t.abortRecv.1 op
  refine ⟨_, rfl, ⟨hi.1.trans ha.1, hi.2.1.trans ha.2.1, ?_, ?_⟩, ?_⟩
  · intro hq
    rw [q_asyncReadImpl_chan _ _ (by rw [ha.2.2.1]; exact hq), q_abortRecv_chan]
  · intro hc
    obtain ⟨a1, a2, a3, _⟩ := Prog.abortRecv_spec t hc.toRPre
    exact (Prog.asyncReadImpl_spec _ op a1 a2 a3).1
  · rw [s5_fwdsOf_append, ha.2.2.2.2.2.2, hi.2.2.2]; rfl

theorem q_waitRead {n : NetSt} {name : String} {t : TcpSock} (hs : n.tcp? name = some t) (h : Nat) :
    ∃ t', (n.tcpWaitRead name h).1 = n.setTcp name t' ∧ RdStep t t'
      ∧ s5_fwdsOf (n.tcpWaitRead name h).2 = [] := by
  unfold NetSt.tcpWaitRead
  simp only [hs]
  have ha := s5_abortRecv_spec t
  have hi := s5_asyncWaitReadImpl_spec t.abortRecv.1 h
  refine ⟨_, rfl, ⟨hi.1.trans ha.1, hi.2.1.trans ha.2.1, ?_, ?_⟩, ?_⟩
  · intro _
    rw [q_asyncWaitReadImpl_chan, q_abortRecv_chan]
  · intro hc
    obtain ⟨a1, a2, a3, _⟩ := Prog.abortRecv_spec t hc.toRPre
    exact (Prog.asyncWaitReadImpl_spec _ h a1 a2 a3).1
  · rw [s5_fwdsOf_append, ha.2.2.2.2.2.2, hi.2.2.2]; rfl

/-! ### the pure invariant: window account, where every segment is, the reader -/

/-- `sa` the writer's socket, `sb` the reader's, `bag` the packets in the network (both sockets
    open: the bag holds the writer's payload segments and the reader's ACKs only) -/
structure QPure (R : Prop) (sa sb : TcpSock) (bag : List Pkt) : Prop where
  mssPos : 0 < sa.mss
  floor : sa.mss ≤ sa.cwnd
  connA : sa.connectH = none
  /-- the in-flight account is the sum of the recorded sizes … -/
  acct : sa.inFlight = sumSizes sa.outstanding
  keysND : (keys sa.outstanding).Nodup
  /-- … recorded for exactly the numbers in the network: as a segment or as its ACK -/
  live : ∀ k, k ∈ keys sa.outstanding ↔ k ∈ ids bag
  bagND : (ids bag).Nodup
  resND : (ids sa.resend).Nodup
  disj : ∀ k, k ∈ ids sa.resend → k ∉ ids bag
  fresh : ∀ k, k ∈ ids bag ∨ k ∈ ids sa.resend → k < sa.nextOut
  /-- every segment created is in the network, waits for retransmission, or has arrived -/
  whereK : ∀ k, k < sa.nextOut → k ∈ ids bag ∨ k ∈ ids sa.resend ∨ Arrived sb k
  acked : ∀ p ∈ bag, p.ty = .ack → Arrived sb p.id
  drained : sb.reorder.lookup sb.nextIn = none
  /-- (`R`: the reader wake-up repair is in place) no read is pending while anything is queued -/
  rd : R → Prog.RCore sb

theorem QPure.congrA {R : Prop} {sa sa' sb : TcpSock} {bag : List Pkt} (h : QPure R sa sb bag)
    (h1 : sa'.mss = sa.mss) (h2 : sa'.mss ≤ sa'.cwnd) (h3 : sa'.inFlight = sa.inFlight)
    (h4 : sa'.outstanding = sa.outstanding) (h5 : sa'.resend = sa.resend) (h6 : sa'.nextOut = sa.nextOut)
    (h7 : sa'.connectH = sa.connectH) : QPure R sa' sb bag := by
  constructor
  · rw [h1]; exact h.mssPos
  · exact h2
  · rw [h7]; exact h.connA
  · rw [h3, h4]; exact h.acct
  · rw [h4]; exact h.keysND
  · rw [h4]; exact h.live
  · exact h.bagND
  · rw [h5]; exact h.resND
  · rw [h5]; exact h.disj
  · rw [h5, h6]; exact h.fresh
  · rw [h5, h6]; exact h.whereK
  · exact h.acked
  · exact h.drained
  · exact h.rd

theorem QPure.rdB {R : Prop} {sa sb sb' : TcpSock} {bag : List Pkt} (h : QPure R sa sb bag)
    (h1 : sb'.nextIn = sb.nextIn) (h2 : sb'.reorder = sb.reorder) (h3 : R → Prog.RCore sb') : QPure R sa sb' bag := by
  have harr : ∀ k, Arrived sb k → Arrived sb' k := by
    intro k hk; unfold Arrived at hk ⊢; rw [h1, h2]; exact hk
  refine { h with whereK := ?_, acked := ?_, drained := ?_, rd := h3 }
  · intro k hk
    rcases h.whereK k hk with a | a | a
    · exact Or.inl a
    · exact Or.inr (Or.inl a)
    · exact Or.inr (Or.inr (harr k a))
  · intro p hp hty; exact harr _ (h.acked p hp hty)
  · rw [h1, h2]; exact h.drained

/-- a packet with a number that is nowhere in the network goes out (new segment or head of the
    retransmission list) -/
theorem QPure.send {R : Prop} {sa sb : TcpSock} {bag : List Pkt} (h : QPure R sa sb bag) (t1 : TcpSock) (p p' : Pkt)
    (e1 : t1.mss = sa.mss) (e2 : t1.cwnd = sa.cwnd) (e3 : t1.inFlight = sa.inFlight)
    (e4 : t1.outstanding = sa.outstanding) (e5 : t1.connectH = sa.connectH)
    (hres : ∀ k, k ∈ ids t1.resend → k ∈ ids sa.resend) (hresND : (ids t1.resend).Nodup)
    (hid1 : p.id ∉ ids bag) (hid3 : p.id ∉ ids t1.resend) (hid4 : p.id < t1.nextOut)
    (hnext : sa.nextOut ≤ t1.nextOut)
    (hw : ∀ k, k < t1.nextOut → k = p.id ∨ k ∈ ids bag ∨ k ∈ ids t1.resend ∨ Arrived sb k)
    (hp' : p'.id = p.id) (hty : p'.ty = .payload) :
    QPure R (qSendPkt t1 p) sb (bag ++ [p']) := by
  have hk : p.id ∉ keys sa.outstanding := by rw [h.live]; exact hid1
  have hf : sa.outstanding.filter (fun e => e.1 != p.id) = sa.outstanding := Prog.filter_of_not_mem _ _ hk
  have hids : ids (bag ++ [p']) = ids bag ++ [p.id] := by simp [ids, hp']
  constructor
  · show 0 < t1.mss; rw [e1]; exact h.mssPos
  · show t1.mss ≤ t1.cwnd; rw [e1, e2]; exact h.floor
  · show t1.connectH = none; rw [e5]; exact h.connA
  · show t1.inFlight + _ = sumSizes (_ ++ _)
    rw [e3, e4, hf, Prog.sumSizes_append, h.acct]; simp [sumSizes]
  · show (keys (_ ++ _)).Nodup
    rw [e4, hf]; simp only [keys, List.map_append, List.map_cons, List.map_nil]
    rw [List.nodup_append]; refine ⟨h.keysND, by simp, ?_⟩
    intro a ha b hb; simp at hb; subst hb; intro hab; subst hab; exact hk ha
  · intro k; show k ∈ keys (_ ++ _) ↔ _
    rw [e4, hf, hids]; simp only [keys, List.map_append, List.mem_append]
    have := h.live k; simp only [keys] at this; rw [this]; simp
  · rw [hids, List.nodup_append]; refine ⟨h.bagND, by simp, ?_⟩
    intro a ha b hb; simp at hb; subst hb; intro hab; subst hab; exact hid1 ha
  · exact hresND
  · intro k hk; show k ∉ ids (bag ++ [p'])
    rw [hids, List.mem_append]
    intro hh; rcases hh with hh | hh
    · exact h.disj k (hres k hk) hh
    · simp at hh; subst hh; exact hid3 hk
  · intro k hk; show k < t1.nextOut
    rw [hids, List.mem_append] at hk
    rcases hk with (hk | hk) | hk
    · have := h.fresh k (Or.inl hk); omega
    · simp at hk; subst hk; exact hid4
    · have := h.fresh k (Or.inr (hres k hk)); omega
  · intro k hk
    rw [hids, List.mem_append]
    rcases hw k hk with a | a | a | a
    · left; right; simp [a]
    · left; left; exact a
    · right; left; exact a
    · right; right; exact a
  · intro q hq hqt
    rw [List.mem_append] at hq
    rcases hq with hq | hq
    · exact h.acked q hq hqt
    · simp at hq; subst hq; rw [hty] at hqt; cases hqt
  · exact h.drained
  · exact h.rd

/-- an ACK reaches the writer -/
theorem QPure.ack {R : Prop} {sa sb : TcpSock} {bag : List Pkt} (h : QPure R sa sb bag) {i : Nat} {p : Pkt}
    (hp : bag[i]? = some p) (hty : p.ty = .ack) : QPure R (qAckSock sa p.id) sb (bag.eraseIdx i) := by
  have hmem := q_mem_ids_eraseIdx h.bagND hp
  have hpm : p ∈ bag := List.mem_of_getElem? hp
  constructor
  · exact h.mssPos
  · exact h.floor
  · exact h.connA
  · show sa.inFlight - _ = sumSizes (List.filter _ _); rw [Prog.sum_filter _ _ h.keysND, h.acct]
  · show (keys (List.filter _ _)).Nodup; rw [Prog.keys_filter]; exact Prog.nodup_filter h.keysND _
  · intro k; show k ∈ keys (List.filter _ _) ↔ _
    rw [Prog.mem_keys_filter, h.live k, hmem k]; exact And.comm
  · exact q_ids_eraseIdx_nodup h.bagND i
  · exact h.resND
  · intro k hk hh; exact h.disj k hk ((hmem k).mp hh).1
  · intro k hk
    rcases hk with hk | hk
    · exact h.fresh k (Or.inl ((hmem k).mp hk).1)
    · exact h.fresh k (Or.inr hk)
  · intro k hk
    rcases h.whereK k hk with a | a | a
    · by_cases hkp : k = p.id
      · subst hkp; exact Or.inr (Or.inr (h.acked p hpm hty))
      · exact Or.inl ((hmem k).mpr ⟨a, hkp⟩)
    · exact Or.inr (Or.inl a)
    · exact Or.inr (Or.inr a)
  · intro q hq hqt; exact h.acked q (List.mem_of_mem_eraseIdx hq) hqt
  · exact h.drained
  · exact h.rd

/-- a segment reaches the reader, which acknowledges it -/
theorem QPure.data {R : Prop} {sa sb sb' : TcpSock} {bag : List Pkt} (h : QPure R sa sb bag) {i : Nat} {p : Pkt}
    (hp : bag[i]? = some p) (ack : Pkt) (hid : ack.id = p.id) (hty : ack.ty = .ack)
    (harr : Arrived sb' p.id) (hmono : ∀ k, Arrived sb k → Arrived sb' k)
    (hdr : sb'.reorder.lookup sb'.nextIn = none) (hrd : R → Prog.RCore sb') :
    QPure R sa sb' (bag.eraseIdx i ++ [ack]) := by
  have hmem := q_mem_ids_eraseIdx h.bagND hp
  have hpm : p.id ∈ ids bag := Prog.mem_ids.mpr ⟨p, List.mem_of_getElem? hp, rfl⟩
  have hids : ids (bag.eraseIdx i ++ [ack]) = ids (bag.eraseIdx i) ++ [p.id] := by simp [ids, hid]
  have hset : ∀ k, k ∈ ids (bag.eraseIdx i ++ [ack]) ↔ k ∈ ids bag := by
    intro k
    rw [hids, List.mem_append, hmem k]
    by_cases hkp : k = p.id
    · subst hkp; simp [hpm]
    · simp [hkp]
  refine { h with live := ?_, bagND := ?_, disj := ?_, fresh := ?_, whereK := ?_, acked := ?_, drained := hdr, rd := hrd }
  · intro k; rw [hset k]; exact h.live k
  · rw [hids, List.nodup_append]
    refine ⟨q_ids_eraseIdx_nodup h.bagND i, by simp, ?_⟩
    intro a ha b hb; simp at hb; subst hb; intro hab; subst hab
    exact ((hmem _).mp ha).2 rfl
  · intro k hk; rw [hset k]; exact h.disj k hk
  · intro k hk; rw [hset k] at hk; exact h.fresh k hk
  · intro k hk
    rw [hset k]
    rcases h.whereK k hk with a | a | a
    · exact Or.inl a
    · exact Or.inr (Or.inl a)
    · exact Or.inr (Or.inr (hmono k a))
  · intro q hq hqt
    rw [List.mem_append] at hq
    rcases hq with hq | hq
    · exact hmono _ (h.acked q (List.mem_of_mem_eraseIdx hq) hqt)
    · simp at hq; subst hq; rw [hid]; exact harr

/-- a hop hands a segment back -/
theorem QPure.drop {R : Prop} {sa sb : TcpSock} {bag : List Pkt} (h : QPure R sa sb bag) {i : Nat} {p : Pkt}
    (hp : bag[i]? = some p) (p' : Pkt) (hid : p'.id = p.id) (cw ld : Nat) (hcw : sa.mss ≤ cw) :
    QPure R { qDropBase sa p' with cwnd := cw, lastDrop := ld } sb (bag.eraseIdx i) := by
  have hmem := q_mem_ids_eraseIdx h.bagND hp
  have hpm : p.id ∈ ids bag := Prog.mem_ids.mpr ⟨p, List.mem_of_getElem? hp, rfl⟩
  have hkr : p.id ∉ ids sa.resend := fun hh => h.disj _ hh hpm
  have hrs : ids (sa.resend ++ [p']) = ids sa.resend ++ [p.id] := by simp [ids, hid]
  constructor
  · exact h.mssPos
  · exact hcw
  · exact h.connA
  · show sa.inFlight - _ = sumSizes (List.filter _ _); rw [hid, Prog.sum_filter _ _ h.keysND, h.acct]
  · show (keys (List.filter _ _)).Nodup; rw [Prog.keys_filter]; exact Prog.nodup_filter h.keysND _
  · intro k; show k ∈ keys (List.filter _ _) ↔ _
    rw [hid, Prog.mem_keys_filter, h.live k, hmem k]; exact And.comm
  · exact q_ids_eraseIdx_nodup h.bagND i
  · show (ids (sa.resend ++ [p'])).Nodup
    rw [hrs, List.nodup_append]; refine ⟨h.resND, by simp, ?_⟩
    intro a ha b hb; simp at hb; subst hb; intro hab; subst hab; exact hkr ha
  · intro k hk hh
    change k ∈ ids (sa.resend ++ [p']) at hk
    rw [hrs, List.mem_append] at hk
    have := (hmem k).mp hh
    rcases hk with hk | hk
    · exact h.disj k hk this.1
    · simp at hk; exact this.2 hk
  · intro k hk; show k < sa.nextOut
    rcases hk with hk | hk
    · exact h.fresh k (Or.inl ((hmem k).mp hk).1)
    · change k ∈ ids (sa.resend ++ [p']) at hk
      rw [hrs, List.mem_append] at hk
      rcases hk with hk | hk
      · exact h.fresh k (Or.inr hk)
      · simp at hk; subst hk; exact h.fresh _ (Or.inl hpm)
  · intro k hk
    show k ∈ ids (bag.eraseIdx i) ∨ k ∈ ids (sa.resend ++ [p']) ∨ Arrived sb k
    rw [hrs, List.mem_append]
    rcases h.whereK k hk with a | a | a
    · by_cases hkp : k = p.id
      · right; left; right; simp [hkp]
      · exact Or.inl ((hmem k).mpr ⟨a, hkp⟩)
    · exact Or.inr (Or.inl (Or.inl a))
    · exact Or.inr (Or.inr a)
  · intro q hq hqt; exact h.acked q (List.mem_of_mem_eraseIdx hq) hqt
  · exact h.drained
  · exact h.rd

/-! ### the system invariant -/

structure QAt (c : TcpCfg) (net : NetSt) (bag : List Pkt) (sa sb : TcpSock) : Prop where
  ne : c.a ≠ c.b
  hsa : net.tcp? c.a = some sa
  hsb : net.tcp? c.b = some sb
  ca : ChanOk net sa
  cb : ChanOk net sb
  pure : QPure (c.tp.wakeReaderFixed = true) sa sb bag

/-- the window is full: `write_some_impl` refuses -/
def Full (sa : TcpSock) : Prop := sa.inFlight + sa.mss > sa.cwnd

/-- segments waiting for retransmission never wait alone: something of the connection is in
    the network, or the loop in progress will send -/
def JOk (sa : TcpSock) (bag : List Pkt) (ctl : TCtl) : Prop :=
  sa.resend ≠ [] → bag ≠ [] ∨ ctl.willSend = true

/-- outside the ACK path a parked write has a reason -/
def WOk (sa : TcpSock) (ctl : TCtl) : Prop :=
  ctl.inAck = false → sa.sendH.isSome = true → Full sa ∨ sa.resend ≠ []

def QL (c : TcpCfg) (net : NetSt) (bag : List Pkt) (ctl : TCtl) : Prop :=
  ∃ sa sb, QAt c net bag sa sb ∧ JOk sa bag ctl ∧ (c.tp.wakeWriterFixed = true → WOk sa ctl)

/-- the quiescence invariant while both sockets are open -/
def QLive (c : TcpCfg) (s : TS) : Prop := QL c s.net s.bag s.ctl

theorem QAt.updA {c : TcpCfg} {n n' : NetSt} {bag bag' : List Pkt} {sa sa' sb : TcpSock}
    (h : QAt c n bag sa sb) (hu : NUpd n n' c.a sa') (hc : sa'.chan = sa.chan)
    (hp : QPure (c.tp.wakeReaderFixed = true) sa' sb bag') :
    QAt c n' bag' sa' sb :=
  ⟨h.ne, hu.same, (hu.other c.b (Ne.symm h.ne)).trans h.hsb, h.ca.upd hu hc, h.cb.upd hu rfl, hp⟩

theorem QAt.updB {c : TcpCfg} {n n' : NetSt} {bag bag' : List Pkt} {sa sb sb' : TcpSock}
    (h : QAt c n bag sa sb) (hu : NUpd n n' c.b sb') (hc : sb'.chan = sb.chan)
    (hp : QPure (c.tp.wakeReaderFixed = true) sa sb' bag') :
    QAt c n' bag' sa sb' :=
  ⟨h.ne, (hu.other c.a h.ne).trans h.hsa, hu.same, h.ca.upd hu rfl, h.cb.upd hu hc, hp⟩

theorem QPure.empty_zero {R : Prop} {sa sb : TcpSock} {bag : List Pkt} (h : QPure R sa sb bag) (hb : bag = []) :
    sa.inFlight = 0 := by
  have ho : sa.outstanding = [] := by
    cases hx : sa.outstanding with
    | nil => rfl
    | cons e es =>
      have := (h.live e.1).mp (by rw [hx]; simp [keys])
      rw [hb] at this; simp [ids] at this
  rw [h.acct, ho]; rfl

theorem QPure.empty_notFull {R : Prop} {sa sb : TcpSock} {bag : List Pkt} (h : QPure R sa sb bag) (hb : bag = []) :
    ¬ Full sa := by
  have h0 := h.empty_zero hb
  have hf := h.floor
  unfold Full; omega

/-! #### the writer's synchronous sections -/

theorem QLive.finish {c : TcpCfg} {s : TS} {sa sb : TcpSock} (h : QAt c s.net s.bag sa sb)
    (hJ : sa.resend ≠ [] → s.bag ≠ []) (op : WriteOp) (r : Except Ec Nat)
    (hr : r = .error .wouldBlock → Full sa ∨ sa.resend ≠ []) : QLive c (s.finish c op r) := by
  obtain ⟨sh, hu, hsh, hfw⟩ := q_writeFinish h.hsa op r
  show QL c (s.net.tcpWriteFinish c.a op r).1 (s.bag ++ s5_fwdsOf (s.net.tcpWriteFinish c.a op r).2) .idle
  rw [hfw, List.append_nil]
  refine ⟨{ sa with sendH := sh }, sb, h.updA hu rfl (h.pure.congrA rfl h.pure.floor rfl rfl rfl rfl rfl), ?_, ?_⟩
  · intro hne; exact Or.inl (hJ hne)
  · intro _ _ hs; exact hr (hsh hs)

theorem QAt.sendSeg {c : TcpCfg} {net : NetSt} {bag : List Pkt} {sa sb : TcpSock} (h : QAt c net bag sa sb)
    (t : Int) (hops : List String) (seg : List UInt8) :
    ∃ sa', QAt c (net.tcpSendSeg t c.a hops seg).1 (bag ++ s5_fwdsOf (net.tcpSendSeg t c.a hops seg).2) sa' sb
      ∧ sa'.sendH = sa.sendH ∧ sa'.resend = sa.resend ∧ sa.inFlight ≤ sa'.inFlight ∧ sa'.mss = sa.mss
      ∧ sa'.cwnd = sa.cwnd ∧ bag ++ s5_fwdsOf (net.tcpSendSeg t c.a hops seg).2 ≠ [] := by
  obtain ⟨b, hu, hfw⟩ := q_sendSeg h.hsa h.ca t hops seg
  rw [hfw]
  refine ⟨_, h.updA hu rfl ?_, rfl, rfl, ?_, rfl, rfl, by simp⟩
  · apply h.pure.send { sa with nextOut := sa.nextOut + 1 } (qSegPkt sa hops seg) _ rfl rfl rfl rfl rfl
      (fun k hk => hk) h.pure.resND
    · intro hh; have := h.pure.fresh _ (Or.inl hh); simp [qSegPkt] at this
    · intro hh; have := h.pure.fresh _ (Or.inr hh); simp [qSegPkt] at this
    · show sa.nextOut < sa.nextOut + 1; omega
    · show sa.nextOut ≤ sa.nextOut + 1; omega
    · intro k hk
      have hk' : k < sa.nextOut + 1 := hk
      by_cases hkn : k = sa.nextOut
      · exact Or.inl hkn
      · exact Or.inr (h.pure.whereK k (by omega))
    · rfl
    · rfl
  · show sa.inFlight ≤ sa.inFlight + _; omega

theorem QLive.startWrite {c : TcpCfg} {s : TS} {sa sb : TcpSock} (h : QAt c s.net s.bag sa sb)
    (hJ : sa.resend ≠ [] → s.bag ≠ []) (hW : sa.sendH = none) (t : Int) (op : WriteOp) :
    QLive c (s.startWrite c t op) := by
  unfold TS.startWrite
  split
  · rename_i e he
    apply QLive.finish h hJ
    intro hr
    cases hr
    rcases q_writePrep_block h.hsa _ he with hc | hf
    · rw [h.pure.connA] at hc; cases hc
    · exact Or.inl hf
  · apply QLive.finish h hJ
    intro hr; cases hr
  · rename_i hops seg rest _
    obtain ⟨sa', hq, h1, _, _, _, _, hne⟩ := h.sendSeg t hops seg
    show QL c (s.net.tcpSendSeg t c.a hops seg).1 (s.bag ++ s5_fwdsOf (s.net.tcpSendSeg t c.a hops seg).2)
      (.segs op hops rest seg.length)
    refine ⟨sa', sb, hq, fun _ => Or.inl hne, ?_⟩
    intro _ _ hs; rw [h1, hW] at hs; cases hs

theorem QLive.wake {c : TcpCfg} {s : TS} {sa sb : TcpSock} (h : QAt c s.net s.bag sa sb)
    (hJ : sa.resend ≠ [] → s.bag ≠ []) (t : Int) : QLive c (s.wake c t) := by
  unfold TS.wake
  simp only [h.hsa]
  split
  · rename_i op _
    exact QLive.startWrite (s := { s with net := s.net.setTcp c.a { sa with sendH := none } })
      (h.updA (NUpd.setTcp _ _ _) rfl (h.pure.congrA rfl h.pure.floor rfl rfl rfl rfl rfl)) hJ rfl t op
  · rename_i hn
    exact ⟨sa, sb, h, fun hne => Or.inl (hJ hne), fun _ _ hs => by rw [hn] at hs; cases hs⟩

theorem QLive.runCtl {c : TcpCfg} {s : TS} (h : QLive c s)
    (hres : ∀ sa, s.net.tcp? c.a = some sa → ∀ p ∈ sa.resend, p.ty = .payload ∧ p.payload.length ≤ sa.mss)
    (t : Int) : QLive c (s.runCtl c t) := by
  obtain ⟨sa, sb, hq, hJ, hW⟩ := h
  unfold TS.runCtl
  split
  · exact ⟨sa, sb, hq, hJ, hW⟩
  · -- one iteration of the retransmission loop
    rename_i n wb acked hcs
    cases hrs : sa.resend with
    | nil =>
      have : s.net.tcpResendOne t c.a = none := by rw [q_resendOne hq.hsa hq.ca, hrs]
      simp only [this]
      exact ⟨sa, sb, hq, fun hne => absurd hrs hne, fun _ hi => by simp [TCtl.inAck] at hi⟩
    | cons p rest =>
      by_cases hfit : sa.inFlight + p.payload.length ≤ sa.cwnd
      · have hro : s.net.tcpResendOne t c.a
            = some ((s.net.setTcp c.a { sa with resend := rest }).tcpSendPacket t c.a p) := by
          rw [q_resendOne hq.hsa hq.ca, hrs]; simp only [hfit, if_true]
        simp only [hro]
        have hu1 := NUpd.setTcp s.net c.a { sa with resend := rest }
        obtain ⟨b, hu2, hfw⟩ := q_sendPacket (t := { sa with resend := rest }) hu1.same (hq.ca.upd hu1 rfl) t p
        show QL c ((s.net.setTcp c.a { sa with resend := rest }).tcpSendPacket t c.a p).1
          (s.bag ++ s5_fwdsOf ((s.net.setTcp c.a { sa with resend := rest }).tcpSendPacket t c.a p).2) (.resend n wb acked)
        rw [hfw]
        have hpm : p ∈ sa.resend := by rw [hrs]; simp
        have hnd := hq.pure.resND
        rw [hrs] at hnd
        simp only [ids, List.map_cons, List.nodup_cons] at hnd
        refine ⟨_, sb, hq.updA (hu1.trans hu2) rfl ?_, fun _ => Or.inl (by simp), fun _ hi => by simp [TCtl.inAck] at hi⟩
        apply hq.pure.send { sa with resend := rest } p _ rfl rfl rfl rfl rfl
        · intro k hk; show k ∈ ids sa.resend; rw [hrs]; simp only [ids, List.map_cons, List.mem_cons]; exact Or.inr hk
        · exact hnd.2
        · exact hq.pure.disj _ (Prog.mem_ids.mpr ⟨p, hpm, rfl⟩)
        · exact hnd.1
        · exact hq.pure.fresh _ (Or.inr (Prog.mem_ids.mpr ⟨p, hpm, rfl⟩))
        · exact Nat.le_refl _
        · intro k hk
          rcases hq.pure.whereK k hk with a | a | a
          · exact Or.inr (Or.inl a)
          · rw [hrs] at a
            simp only [ids, List.map_cons, List.mem_cons] at a
            rcases a with a | a
            · exact Or.inl a
            · exact Or.inr (Or.inr (Or.inl a))
          · exact Or.inr (Or.inr (Or.inr a))
        · rfl
        · exact (hres sa hq.hsa p hpm).1
      · have hro : s.net.tcpResendOne t c.a = none := by
          rw [q_resendOne hq.hsa hq.ca, hrs]; simp only [hfit, if_false]
        simp only [hro]
        refine ⟨sa, sb, hq, ?_, fun _ hi => by simp [TCtl.inAck] at hi⟩
        intro _
        left
        intro hb
        have h0 := hq.pure.empty_zero hb
        have hl := (hres sa hq.hsa p (by rw [hrs]; simp)).2
        have hf := hq.pure.floor
        omega
  · -- window growth, writer wake-up
    rename_i wb acked hcs
    have hJs : sa.resend ≠ [] → s.bag ≠ [] := by
      intro hne
      rcases hJ hne with hb | hw
      · exact hb
      · rw [hcs] at hw; simp [TCtl.willSend] at hw
    dsimp only
    rw [q_ackPost c.tp hq.hsa wb acked]
    have hq' : QAt c (s.net.setTcp c.a { sa with cwnd := sa.cwnd + sa.mss * acked / sa.cwnd }) s.bag
        { sa with cwnd := sa.cwnd + sa.mss * acked / sa.cwnd } sb :=
      hq.updA (NUpd.setTcp _ _ _) rfl (hq.pure.congrA rfl (Nat.le_trans hq.pure.floor (Nat.le_add_right _ _)) rfl rfl rfl rfl rfl)
    generalize hwk : (if c.tp.wakeWriterFixed = true
        then decide (sa.inFlight + (sa.mss : Int) ≤ ((sa.cwnd + sa.mss * acked / sa.cwnd : Nat) : Int))
        else !wb && decide (sa.inFlight + (sa.mss : Int) ≤ ((sa.cwnd + sa.mss * acked / sa.cwnd : Nat) : Int))) = wk
    cases wk with
    | true =>
      simp only [if_true]
      exact QLive.wake (s := { s with net := s.net.setTcp c.a { sa with cwnd := sa.cwnd + sa.mss * acked / sa.cwnd }, ctl := .idle }) hq' hJs t
    | false =>
      simp only [Bool.false_eq_true, if_false]
      refine ⟨_, sb, hq', fun hne => Or.inl (hJs hne), ?_⟩
      intro hF _ _
      left
      rw [hF] at hwk
      simp only [if_true, decide_eq_false_iff_not] at hwk
      show sa.inFlight + (sa.mss : Int) > ((sa.cwnd + sa.mss * acked / sa.cwnd : Nat) : Int)
      omega
  · -- segmentation loop
    rename_i op hops rest acc hcs
    rw [hcs] at hJ hW
    split
    · rename_i hfull
      apply QLive.finish hq _ op _ (by intro hr; cases hr)
      intro hne hb
      rw [q_windowFull hq.hsa] at hfull
      exact hq.pure.empty_notFull hb (by unfold Full; simpa using hfull)
    · split
      · apply QLive.finish hq _ op _ (by intro hr; cases hr)
        intro hne
        rcases hJ hne with hb | hw
        · exact hb
        · simp [TCtl.willSend] at hw
      · rename_i seg rest'
        obtain ⟨sa', hq', h1, h2, h3, h4, h5, hne⟩ := hq.sendSeg t hops seg
        show QL c (s.net.tcpSendSeg t c.a hops seg).1 (s.bag ++ s5_fwdsOf (s.net.tcpSendSeg t c.a hops seg).2)
          (.segs op hops rest' (acc + seg.length))
        refine ⟨sa', sb, hq', fun _ => Or.inl hne, ?_⟩
        intro hF _ hs
        rw [h1] at hs
        rcases hW hF rfl hs with hf | hr
        · left; unfold Full at hf ⊢; rw [h4, h5]; omega
        · right; rw [h2]; exact hr

/-! #### what the stream invariant `TInv` contributes while both sockets are open -/

theorem TCore.q_bag {c : TcpCfg} {net : NetSt} {bag : List Pkt} {segs : List (List UInt8)} {w d : List UInt8}
    {e : Option Nat} {m : Nat} (h : TCore c net bag segs w d e false m) (hm : 0 < m) (p : Pkt) (hp : p ∈ bag) :
    (p.ty = .payload ∧ p.payload ≠ [] ∧ p.payload.length ≤ m) ∨ p.ty = .ack := by
  rcases h.bag p hp with (⟨h1, h2⟩ | ⟨_, h2, _⟩) | ⟨h1, _⟩
  · left
    have := h.segsB hm _ (List.mem_of_getElem? h2)
    exact ⟨h1, this.1, this.2⟩
  · cases h2
  · exact Or.inr h1

theorem TCore.q_resend {c : TcpCfg} {net : NetSt} {bag : List Pkt} {segs : List (List UInt8)} {w d : List UInt8}
    {e : Option Nat} {m : Nat} (h : TCore c net bag segs w d e false m) (sa : TcpSock)
    (hsa : net.tcp? c.a = some sa) :
    sa.mss = m ∧ (0 < m → ∀ p ∈ sa.resend, p.ty = .payload ∧ p.payload.length ≤ m) := by
  obtain ⟨sa', hsa', hao⟩ := h.exA
  rw [hsa] at hsa'; cases hsa'
  refine ⟨(hao.live rfl).2, ?_⟩
  intro hm p hp
  obtain ⟨h1, h2⟩ := hao.resend p hp
  exact ⟨h1, (h.segsB hm _ (List.mem_of_getElem? h2)).2⟩

theorem TCore.q_noErr {c : TcpCfg} {net : NetSt} {bag : List Pkt} {segs : List (List UInt8)} {w d : List UInt8}
    {e : Option Nat} {m : Nat} (h : TCore c net bag segs w d e false m) (sb : TcpSock)
    (hsb : net.tcp? c.b = some sb) : NoErr sb.inq ∧ ∀ x ∈ sb.reorder, x.2.ty ≠ .err := by
  obtain ⟨sb', hsb', hq⟩ := h.exB
  rw [hsb] at hsb'; cases hsb'
  constructor
  · intro p hp
    rcases (hq.qok p hp).2 with ⟨h1, _⟩ | ⟨_, h2, _⟩
    · rw [h1]; simp
    · cases h2
  · intro x hx
    rcases (hq.ro x hx).2 with ⟨h1, _⟩ | ⟨_, h2, _⟩
    · rw [h1]; simp
    · cases h2

theorem QLive.note {c : TcpCfg} {s : TS} (h : QLive c s) (ev : Option RdEv) : QLive c (s.note ev) := by
  obtain ⟨h1, h2, _, _, _, _, h7, _⟩ := TS.note_rest s ev
  unfold QLive
  rw [h1, h2, h7]
  exact h

/-- `closed` only ever goes from false to true -/
theorem TS.step_closed (c : TcpCfg) (s : TS) (l : TLbl) (h : (s.step c l).closed = false) : s.closed = false := by
  have hn : ∀ (s : TS) ev, (s.note ev).closed = s.closed := fun s ev => (TS.note_rest s ev).2.2.2.2.1
  have hf : ∀ (s : TS) op r, (s.finish c op r).closed = s.closed := fun s op r => rfl
  have hs : ∀ (s : TS) t op, (s.startWrite c t op).closed = s.closed := by
    intro s t op
    unfold TS.startWrite
    split
    · exact hf _ _ _
    · exact hf _ _ _
    · rfl
  have hw : ∀ (s : TS) t, (s.wake c t).closed = s.closed := by
    intro s t
    unfold TS.wake
    split
    · split
      · exact hs _ _ _
      · rfl
    · rfl
  have key : (s.step c l).closed = s.closed ∨ (s.step c l).closed = true := by
    cases l with
    | write t op =>
      simp only [TS.step]
      split
      · exact Or.inl (hw _ _)
      · exact Or.inl rfl
    | run t =>
      left
      simp only [TS.step, TS.runCtl]
      split
      · rfl
      · split <;> rfl
      · split
        · exact hw _ _
        · rfl
      · split
        · exact hf _ _ _
        · split
          · exact hf _ _ _
          · rfl
    | deliver t i tr =>
      left
      simp only [TS.step]
      split
      · rfl
      · split
        · split <;> rfl
        · exact hn _ _
        · exact hn _ _
        · rfl
    | drop i tr =>
      left
      simp only [TS.step]
      split
      · rfl
      · split <;> rfl
    | read op => left; simp only [TS.step]; exact hn _ _
    | readNb caps => left; simp only [TS.step]; exact hn _ _
    | waitRead hh => left; simp only [TS.step]; exact hn _ _
    | closeA t =>
      simp only [TS.step]
      split
      · exact Or.inr rfl
      · exact Or.inl rfl
  rcases key with k | k
  · rw [← k]; exact h
  · rw [k] at h; cases h

/-! #### every label -/

theorem QLive.step {c : TcpCfg} {s : TS}
    (hD : c.tp.releaseOnDrop = true) (hT : TInv c s) (hcl : s.closed = false) (h : QLive c s) (l : TLbl)
    (hl : s.dropOk l) (hcl' : (s.step c l).closed = false) : QLive c (s.step c l) := by
  obtain ⟨sa, sb, hq, hJ, hW⟩ := h
  have hcore := hT.core
  rw [hcl] at hcore
  have hmss := hcore.q_resend sa hq.hsa
  have hm0 : 0 < s.mss0 := by rw [← hmss.1]; exact hq.pure.mssPos
  have hres : ∀ sa', s.net.tcp? c.a = some sa' → ∀ p ∈ sa'.resend, p.ty = .payload ∧ p.payload.length ≤ sa'.mss := by
    intro sa' hsa' p hp
    rw [hq.hsa] at hsa'; cases hsa'
    rw [hmss.1]; exact hmss.2 hm0 p hp
  have hnoerr := hcore.q_noErr sb hq.hsb
  cases l with
  | write t op =>
    simp only [TS.step]
    split
    · rename_i hidle
      obtain ⟨hu, hfw⟩ := q_asyncWrite hq.hsa op
      have hq' : QAt c (s.net.tcpAsyncWrite c.a op).1 (s.bag ++ s5_fwdsOf (s.net.tcpAsyncWrite c.a op).2)
          { sa with sendH := some op } sb := by
        rw [hfw, List.append_nil]
        exact hq.updA hu rfl (hq.pure.congrA rfl hq.pure.floor rfl rfl rfl rfl rfl)
      apply QLive.wake (s := ({ s with net := (s.net.tcpAsyncWrite c.a op).1 } : TS).emit (s.net.tcpAsyncWrite c.a op).2) hq'
      intro hne
      have : s.bag ≠ [] := by
        rcases hJ hne with hb | hw
        · exact hb
        · rw [hidle] at hw; simp [TCtl.willSend] at hw
      show s.bag ++ _ ≠ []
      simp [this]
    · exact ⟨sa, sb, hq, hJ, hW⟩
  | run t => exact QLive.runCtl ⟨sa, sb, hq, hJ, hW⟩ hres t
  | deliver t i tr =>
    simp only [TS.step]
    split
    · exact ⟨sa, sb, hq, hJ, hW⟩
    · rename_i p0 hp
      have hmem : p0 ∈ s.bag := List.mem_of_getElem? hp
      have hkind := hcore.q_bag hm0 p0 hmem
      obtain ⟨f1, f2, f3, _⟩ := inTransit_fields p0 tr
      generalize p0.inTransit tr = p at f1 f2 f3 ⊢
      rw [← f2, ← f3] at hkind
      split
      · -- an ACK reaches the writer
        rename_i hty
        split
        · rename_i hidle
          obtain ⟨wb, acked, hinc⟩ := q_incomingAck c.tp hq.hsa t p hty
          rw [hinc]
          simp only [tcp?_setTcp_same, Option.map_some, Option.getD_some, ackPostOf, TS.emit, s5_fwdsOf, List.append_nil]
          show QL c (s.net.setTcp c.a (qAckSock sa p.id)) (s.bag.eraseIdx i) (.resend sa.resend.length wb acked)
          rw [f1]
          refine ⟨qAckSock sa p0.id, sb, hq.updA (NUpd.setTcp _ _ _) rfl (hq.pure.ack hp (by rw [← f2]; exact hty)), ?_, ?_⟩
          · intro hne
            right
            have hne' : sa.resend ≠ [] := hne
            cases hx : sa.resend with
            | nil => exact absurd hx hne'
            | cons y ys => rfl
          · intro _ hi; simp [TCtl.inAck] at hi
        · exact ⟨sa, sb, hq, hJ, hW⟩
      · -- a segment reaches the reader
        rename_i hty
        have hpk : Prog.PktOk p := by
          rcases hkind with ⟨_, h2, _⟩ | h1
          · right; exact ⟨by rw [hty]; simp, h2⟩
          · rw [hty] at h1; cases h1
        obtain ⟨t', ack, e2, heq, he2, hid, haty, hch, harr, hmono, hdr, hrc⟩ :=
          q_incomingData c.tp hq.hsb hq.cb t p (Or.inl hty) hq.pure.drained
        apply QLive.note
        rw [heq]
        show QL c (s.net.setTcp c.b t') (s.bag.eraseIdx i ++ s5_fwdsOf ([NEff.forward ack] ++ e2)) s.ctl
        rw [s5_fwdsOf_append, he2, List.append_nil]
        refine ⟨sa, t', hq.updB (NUpd.setTcp _ _ _) (hch hnoerr.1 hnoerr.2 (by rw [hty]; simp)) ?_, ?_, hW⟩
        · exact hq.pure.data hp ack (by rw [hid, f1]) haty (by rw [← f1]; exact harr) hmono hdr
            (fun hR => hrc hR hpk (hq.pure.rd hR))
        · intro _; left; simp [s5_fwdsOf]
      · rename_i hty
        exfalso
        rcases hkind with ⟨h1, _⟩ | h1 <;> rw [hty] at h1 <;> cases h1
      · rename_i hn1 hn2 hn3
        exfalso
        rcases hkind with ⟨h1, _⟩ | h1
        · exact hn2 h1
        · exact hn1 h1
  | drop i tr =>
    simp only [TS.step]
    split
    · exact ⟨sa, sb, hq, hJ, hW⟩
    · rename_i p0 hp
      obtain ⟨f1, _, _, f4⟩ := inTransit_fields p0 tr
      generalize p0.inTransit tr = p at f1 f4 ⊢
      split
      · rename_i hdrop
        obtain ⟨p', t', heq, hid, _, _, hcase⟩ := q_packetDropped c.tp hD hq.hsa hq.ca p
        rw [heq]
        show QL c (s.net.setTcp c.a t') (s.bag.eraseIdx i) s.ctl
        have hJ' : s.bag.eraseIdx i ≠ [] ∨ s.ctl.willSend = true := by
          simp only [TS.dropOk, hp] at hl
          exact hl (by rw [← f4]; exact hdrop)
        rcases hcase with rfl | ⟨cw, ld, hcw, rfl⟩
        · refine ⟨_, sb, hq.updA (NUpd.setTcp _ _ _) rfl
            (hq.pure.drop hp p' (hid.trans f1) sa.cwnd sa.lastDrop hq.pure.floor), fun _ => hJ', ?_⟩
          intro _ _ _; right
          show sa.resend ++ [p'] ≠ []; simp
        · refine ⟨_, sb, hq.updA (NUpd.setTcp _ _ _) rfl
            (hq.pure.drop hp p' (hid.trans f1) cw ld hcw), fun _ => hJ', ?_⟩
          intro _ _ _; right
          show sa.resend ++ [p'] ≠ []; simp
      · exact ⟨sa, sb, hq, hJ, hW⟩
  | read op =>
    simp only [TS.step]
    obtain ⟨t', heq, hrd, hfw⟩ := q_asyncRead hq.hsb op
    apply QLive.note
    show QL c (s.net.tcpAsyncRead c.b op).1 (s.bag ++ s5_fwdsOf (s.net.tcpAsyncRead c.b op).2) s.ctl
    rw [heq, hfw, List.append_nil]
    exact ⟨sa, t', hq.updB (NUpd.setTcp _ _ _) (hrd.chan hnoerr.1)
      (hq.pure.rdB hrd.nextIn hrd.reorder (fun hR => hrd.rcore (hq.pure.rd hR))), hJ, hW⟩
  | readNb caps =>
    simp only [TS.step]
    obtain ⟨t', heq, hrd⟩ := q_readNb hq.hsb caps
    apply QLive.note
    show QL c (s.net.tcpReadNb c.b caps).1 s.bag s.ctl
    rw [heq]
    exact ⟨sa, t', hq.updB (NUpd.setTcp _ _ _) (hrd.chan hnoerr.1)
      (hq.pure.rdB hrd.nextIn hrd.reorder (fun hR => hrd.rcore (hq.pure.rd hR))), hJ, hW⟩
  | waitRead hh =>
    simp only [TS.step]
    obtain ⟨t', heq, hrd, hfw⟩ := q_waitRead hq.hsb hh
    apply QLive.note
    show QL c (s.net.tcpWaitRead c.b hh).1 (s.bag ++ s5_fwdsOf (s.net.tcpWaitRead c.b hh).2) s.ctl
    rw [heq, hfw, List.append_nil]
    exact ⟨sa, t', hq.updB (NUpd.setTcp _ _ _) (hrd.chan hnoerr.1)
      (hq.pure.rdB hrd.nextIn hrd.reorder (fun hR => hrd.rcore (hq.pure.rd hR))), hJ, hW⟩
  | closeA t =>
    cases hctl : s.ctl with
    | idle =>
      have : (s.step c (.closeA t)).closed = true := by simp only [TS.step, hctl]; rfl
      rw [this] at hcl'; cases hcl'
    | resend a b d =>
      have : s.step c (.closeA t) = s := by simp only [TS.step, hctl]
      rw [this]; exact ⟨sa, sb, hq, hJ, hW⟩
    | segs a b d e =>
      have : s.step c (.closeA t) = s := by simp only [TS.step, hctl]
      rw [this]; exact ⟨sa, sb, hq, hJ, hW⟩

/-- the invariant along a history that satisfies the drop side condition -/
theorem QLive.run {c : TcpCfg}
    (hD : c.tp.releaseOnDrop = true) (ls : List TLbl) : ∀ {s : TS}, TInv c s → (s.closed = false → QLive c s) →
      TS.okRun c s ls → (TS.run c s ls).closed = false → QLive c (TS.run c s ls) := by
  induction ls with
  | nil => intro s _ h _ hc; exact h hc
  | cons l rest ih =>
    intro s hT h hok hc
    apply ih (hT.step l) _ hok.2 hc
    intro hc1
    have hc0 := TS.step_closed c s l hc1
    exact QLive.step hD hT hc0 (h hc0) l hok.1 hc1

theorem QLive.init {c : TcpCfg} {n : NetSt} (h : TcpStartQ c n) : QLive c (TS.init c n) := by
  obtain ⟨sa, hsa, a1, a2, a3, a4, a5, a6, a7⟩ := h.qa
  obtain ⟨sb, hsb, b1, b2, b3, b4⟩ := h.qb
  obtain ⟨sa', hsa', c1, c2, _⟩ := h.sa
  obtain ⟨sb', hsb', d1, d2, d3⟩ := h.sb
  rw [hsa] at hsa'; cases hsa'
  rw [hsb] at hsb'; cases hsb'
  refine ⟨sa, sb, ⟨h.ne, hsa, hsb, a7, b4, ?_⟩, fun hne => absurd c2 hne, fun _ _ hs => by rw [a2] at hs; cases hs⟩
  constructor
  · exact a5
  · exact a6
  · exact a1
  · rw [a3, a4]; rfl
  · rw [a4]; simp [keys]
  · intro k; rw [a4]; simp [keys, ids, TS.init]
  · simp [ids, TS.init]
  · rw [c2]; simp [ids]
  · intro k hk; rw [c2] at hk; simp [ids] at hk
  · intro k hk; rw [c2] at hk; simp [ids, TS.init] at hk
  · intro k hk; rw [c1] at hk; omega
  · intro p hp; simp [TS.init] at hp
  · rw [d2]; rfl
  · intro _
    exact ⟨⟨b1, (by intro hh; rw [b2] at hh; cases hh), (by intro hh; rw [b3] at hh; cases hh),
      (by intro p hp; rw [d3] at hp; cases hp), (by intro e he; rw [d2] at he; cases he)⟩, fun _ => d3⟩

/-- every reachable state of a history satisfying the side condition, both sockets open -/
theorem QLive.reach {c : TcpCfg} {n : NetSt}
    (hD : c.tp.releaseOnDrop = true) (h : TcpStartQ c n) (ls : List TLbl) (hok : TS.okRun c (TS.init c n) ls)
    (hc : (TS.run c (TS.init c n) ls).closed = false) : QLive c (TS.run c (TS.init c n) ls) :=
  QLive.run hD ls (TInv.init h.toTcpStart) (fun _ => QLive.init h) hok hc

/-! ### start states -/

/-- `TcpStartQ` from decidable projections (for concrete states) -/
theorem tcpStartQ_of_check (c : TcpCfg) (n : NetSt) (h : TcpStart c n)
    (ha : (n.tcp? c.a).map (fun s => (s.connectH, s.sendH.isSome, s.inFlight, s.outstanding.length,
            decide (0 < s.mss ∧ s.mss ≤ s.cwnd), (s.chan.bind n.chan?).isSome))
          = some (none, false, 0, 0, true, true))
    (hb : (n.tcp? c.b).map (fun s => (s.connectH, s.recvH.isSome, s.waitRecvH.isSome, (s.chan.bind n.chan?).isSome))
          = some (none, false, false, true)) : TcpStartQ c n := by
  have hch : ∀ (s : TcpSock), (s.chan.bind n.chan?).isSome = true → ∃ cid, s.chan = some cid ∧ (n.chan? cid).isSome = true := by
    intro s hs
    cases hc : s.chan with
    | none => rw [hc] at hs; cases hs
    | some cid => rw [hc] at hs; exact ⟨cid, rfl, hs⟩
  refine { h with qa := ?_, qb := ?_ }
  · cases hs : n.tcp? c.a with
    | none => rw [hs] at ha; cases ha
    | some s =>
      rw [hs] at ha
      simp only [Option.map_some, Option.some.injEq, Prod.mk.injEq, decide_eq_true_eq] at ha
      obtain ⟨a1, a2, a3, a4, a5, a6⟩ := ha
      refine ⟨s, rfl, a1, ?_, a3, List.eq_nil_of_length_eq_zero a4, a5.1, a5.2, hch s a6⟩
      cases hh : s.sendH with
      | none => rfl
      | some x => rw [hh] at a2; cases a2
  · cases hs : n.tcp? c.b with
    | none => rw [hs] at hb; cases hb
    | some s =>
      rw [hs] at hb
      simp only [Option.map_some, Option.some.injEq, Prod.mk.injEq] at hb
      obtain ⟨b1, b2, b3, b4⟩ := hb
      refine ⟨s, rfl, b1, ?_, ?_, hch s b4⟩
      · cases hh : s.recvH with
        | none => rfl
        | some x => rw [hh] at b2; cases b2
      · cases hh : s.waitRecvH with
        | none => rfl
        | some x => rw [hh] at b3; cases b3

/-- the explicitly built established state is a quiescence start state in both directions,
    whatever the routes and endpoints, provided the configured path MTUs are positive -/
theorem established_startQ (cfg : NetCfg) (c : TcpCfg) (epA epB : Ep) (hopsAB hopsBA : List String)
    (h : c.a ≠ c.b) (hA : 0 < cfg.pathMtu epA.addr epB.addr) (hB : 0 < cfg.pathMtu epB.addr epA.addr) :
    TcpStartQ c (established cfg c epA epB hopsAB hopsBA)
    ∧ TcpStartQ { a := c.b, b := c.a, tp := c.tp } (established cfg c epA epB hopsAB hopsBA) := by
  have hs := established_start cfg c epA epB hopsAB hopsBA h
  have hba : (c.b == c.a) = false := by simpa using (Ne.symm h)
  constructor
  · apply tcpStartQ_of_check _ _ hs.1
    · simp [established, NetSt.tcp?, NetSt.chan?, hA]; omega
    · simp [established, NetSt.tcp?, NetSt.chan?, List.lookup, hba]
  · apply tcpStartQ_of_check _ _ hs.2
    · simp [established, NetSt.tcp?, NetSt.chan?, List.lookup, hba, hB]; omega
    · simp [established, NetSt.tcp?, NetSt.chan?]

end SimVerif
