/-
  C12 helper lemmas about the network state: closing detaches the forwarder, opening creates a
  fresh one, null-channel guards, and frame lemmas (an operation on object `a` leaves every
  other object, forwarder, channel and registry entry alone).
-/
import SimVerif.Lemmas.HandlersUdpSys
import SimVerif.Lemmas.HandlersTcpSys

namespace SimVerif

/-- **UDP frame**: what an operation on UDP socket `a` (whose forwarder is `fw`) may change -/
structure UdpFrame (a : String) (fw : Option Nat) (n n' : NetSt) : Prop where
  udp    : ∀ b, b ≠ a → n'.udp? b = n.udp? b
  tcps   : n'.tcps = n.tcps
  chans  : n'.chans = n.chans
  cfg    : n'.cfg = n.cfg
  regt   : n'.reg.tcp = n.reg.tcp
  regu   : n'.reg.udp.filter (fun e => e.2 != a) = n.reg.udp.filter (fun e => e.2 != a)
  fwd    : ∀ g, g < n.fwds.length → some g ≠ fw → n'.fwdTarget g = n.fwdTarget g
  fwdlen : n.fwds.length ≤ n'.fwds.length

/-- **TCP frame**: what an operation on TCP socket / acceptor `a` (forwarder `fw`, channel `ch`)
    may change -/
structure TcpFrame (a : String) (fw ch : Option Nat) (n n' : NetSt) : Prop where
  tcp     : ∀ b, b ≠ a → n'.tcp? b = n.tcp? b
  udps    : n'.udps = n.udps
  cfg     : n'.cfg = n.cfg
  regu    : n'.reg.udp = n.reg.udp
  regt    : n'.reg.tcp.filter (fun e => e.2 != a) = n.reg.tcp.filter (fun e => e.2 != a)
  fwd     : ∀ g, g < n.fwds.length → some g ≠ fw → n'.fwdTarget g = n.fwdTarget g
  fwdlen  : n.fwds.length ≤ n'.fwds.length
  chan    : ∀ c, c < n.chans.length → some c ≠ ch → n'.chan? c = n.chan? c
  chanlen : n.chans.length ≤ n'.chans.length

namespace HL

/-! ### registry tables -/

theorem simBind_filter (tbl : List (Ep × String)) (np : Nat) (name : String) (ep : Ep) :
    (simBind tbl np name ep).1.filter (fun e => e.2 != name) = tbl.filter (fun e => e.2 != name) := by
  unfold simBind
  splits <;> simp [List.filter_append]

theorem simUnbind_filter (tbl : List (Ep × String)) (name : String) (ep : Ep) :
    (simUnbind tbl name ep).filter (fun e => e.2 != name) = tbl.filter (fun e => e.2 != name) := by
  unfold simUnbind
  rw [List.filter_filter]
  apply List.filter_congr
  intro e _
  by_cases h : e.2 = name <;> simp [h]

/-! ### null channel (repaired behaviour: guarded) -/

theorem tcpPacketDropped_null (tp : TParams) (n : NetSt) (name : String) (p : Pkt) (s : TcpSock)
    (hs : n.tcp? name = some s) (hc : s.chan = none) : n.tcpPacketDropped tp name p = n := by
  unfold NetSt.tcpPacketDropped; rw [hs]; simp [hc]

theorem tcpSendPacket_null (n : NetSt) (now : Int) (name : String) (p : Pkt) (s : TcpSock)
    (hs : n.tcp? name = some s) (hc : s.chan = none) : n.tcpSendPacket now name p = (n, []) := by
  unfold NetSt.tcpSendPacket; rw [hs]; simp [hc]

theorem tcpResendOne_null (n : NetSt) (now : Int) (name : String) (s : TcpSock)
    (hs : n.tcp? name = some s) (hc : s.chan = none) : n.tcpResendOne now name = none := by
  unfold NetSt.tcpResendOne; rw [hs]; dsimp only
  split
  · rfl
  · simp [hc]

theorem tcpIncoming_null (tp : TParams) (n : NetSt) (now : Int) (name : String) (p : Pkt) (s : TcpSock)
    (hs : n.tcp? name = some s) (hc : s.chan = none) (hp : p.ty = .payload ∨ p.ty = .err) :
    n.tcpIncoming tp now name p = (n, []) := by
  unfold NetSt.tcpIncoming; rw [hs]; dsimp only
  rcases hp with hp | hp <;> rw [hp] <;> simp [hc]

theorem tcpWritePrep_null (n : NetSt) (name : String) (bufs : List (List UInt8)) (s : TcpSock)
    (hs : n.tcp? name = some s) (hc : s.chan = none) :
    n.tcpWritePrep name bufs = .error (if s.isOpen then .notConn else .badDesc) := by
  unfold NetSt.tcpWritePrep; rw [hs]; dsimp only
  cases s.isOpen <;> simp [hc]

/-! ### forwarders -/

theorem fwdTarget_of_fwds_eq {n n' : NetSt} (h : n'.fwds = n.fwds) (g : Nat) : n'.fwdTarget g = n.fwdTarget g := by
  unfold NetSt.fwdTarget; rw [h]

theorem udpClose_fwds (n : NetSt) (a : String) (u : UdpSock) (h : n.udp? a = some u) :
    (n.udpClose a).1.fwds = (match u.fwd with | some f => n.setFwd f none | none => n).fwds := by
  unfold NetSt.udpClose; rw [h]; dsimp only
  cases u.fwd <;> (dsimp only; split <;> rfl)

theorem udpClose_detached (n : NetSt) (a : String) (u : UdpSock) (f : Nat) (h : n.udp? a = some u)
    (hf : u.fwd = some f) : (n.udpClose a).1.fwdTarget f = none := by
  have := udpClose_fwds n a u h
  rw [hf] at this
  rw [fwdTarget_of_fwds_eq this]
  exact setFwd_none_fwdTarget_same n f

theorem udpClose_fwd_other (n : NetSt) (a : String) (u : UdpSock) (g : Nat) (h : n.udp? a = some u)
    (hg : some g ≠ u.fwd) : (n.udpClose a).1.fwdTarget g = n.fwdTarget g := by
  have := udpClose_fwds n a u h
  rw [fwdTarget_of_fwds_eq this]
  cases hf : u.fwd with
  | none => rfl
  | some f =>
    dsimp only
    exact setFwd_fwdTarget_other n f g none (fun e => hg (by rw [hf, e]))

theorem udpClose_fwds_length (n : NetSt) (a : String) : (n.udpClose a).1.fwds.length = n.fwds.length := by
  cases h : n.udp? a with
  | none => unfold NetSt.udpClose; rw [h]
  | some u => rw [udpClose_fwds n a u h]; cases u.fwd <;> simp

/-! ### UDP frame -/

theorem _root_.SimVerif.UdpFrame.refl (a : String) (fw : Option Nat) (n : NetSt) : UdpFrame a fw n n :=
  ⟨fun _ _ => rfl, rfl, rfl, rfl, rfl, rfl, fun _ _ _ => rfl, Nat.le_refl _⟩

theorem _root_.SimVerif.UdpFrame.setUdp {a : String} {fw : Option Nat} {n n' : NetSt} (u : UdpSock) (h : UdpFrame a fw n n') :
    UdpFrame a fw n (n'.setUdp a u) :=
  ⟨fun b hb => by rw [setUdp_udp_other _ _ _ _ hb]; exact h.udp b hb, h.tcps, h.chans, h.cfg, h.regt, h.regu,
    h.fwd, h.fwdlen⟩

theorem uframe_udpBind (n : NetSt) (a : String) (ep : Ep) (fw : Option Nat) : UdpFrame a fw n (n.udpBind a ep).1 := by
  unfold NetSt.udpBind
  split
  · exact UdpFrame.refl a fw n
  · split
    · exact UdpFrame.refl a fw n
    · split
      · exact UdpFrame.refl a fw n
      · split
        · exact UdpFrame.refl a fw n
        · split
          · exact UdpFrame.refl a fw n
          · dsimp only
            have hreg : ∀ ep1, UdpFrame a fw n { n with reg := { n.reg with
                udp := (simBind n.reg.udp n.reg.nextPort a ep1).1,
                nextPort := (simBind n.reg.udp n.reg.nextPort a ep1).2.1 } } := fun ep1 =>
              ⟨fun _ _ => rfl, rfl, rfl, rfl, rfl, simBind_filter _ _ _ _, fun _ _ _ => rfl, Nat.le_refl _⟩
            split
            · exact hreg _
            · exact (hreg _).setUdp _

theorem uframe_udpClose (n : NetSt) (a : String) (u : UdpSock) (h : n.udp? a = some u) :
    UdpFrame a u.fwd n (n.udpClose a).1 := by
  refine ⟨?_, ?_, ?_, ?_, ?_, ?_, fun g _ hg => udpClose_fwd_other n a u g h hg,
    by rw [udpClose_fwds_length]; exact Nat.le_refl _⟩
  all_goals (unfold NetSt.udpClose; rw [h]; dsimp only)
  · intro b hb
    rw [setUdp_udp_other _ _ _ _ hb]
    splits <;> rfl
  · splits <;> rfl
  · splits <;> rfl
  · splits <;> rfl
  · splits <;> rfl
  · splits <;> first | rfl | exact simUnbind_filter _ _ _

theorem uframe_udpOpen (n : NetSt) (a : String) (v4 : Bool) (u : UdpSock) (h : n.udp? a = some u) :
    UdpFrame a u.fwd n (n.udpOpen a v4).1 := by
  have hc := uframe_udpClose n a u h
  obtain ⟨hs, _⟩ := udpClose_some n a u h
  unfold NetSt.udpOpen
  dsimp only
  rw [hs]; dsimp only
  refine ⟨fun b hb => ?_, hc.tcps, hc.chans, hc.cfg, hc.regt, hc.regu, fun g hg hne => ?_, ?_⟩
  · rw [setUdp_udp_other _ _ _ _ hb]; exact hc.udp b hb
  · rw [setUdp_fwdTarget, newFwd_fwdTarget]
    have : g ≠ (n.udpClose a).1.fwds.length := by rw [udpClose_fwds_length]; omega
    simp only [this, if_false]
    exact hc.fwd g hg hne
  · show n.fwds.length ≤ ((n.udpClose a).1.newFwd a).1.fwds.length
    rw [newFwd_length, udpClose_fwds_length]; omega

theorem uframe_setUdp_only (n : NetSt) (a : String) (u : UdpSock) (fw : Option Nat) : UdpFrame a fw n (n.setUdp a u) :=
  (UdpFrame.refl a fw n).setUdp u

theorem uframe_udpSendTo (n : NetSt) (now : Int) (a : String) (dst : Ep) (pl : List UInt8) (fw : Option Nat) :
    UdpFrame a fw n (n.udpSendTo now a dst pl).1 := by
  unfold NetSt.udpSendTo
  split
  · exact UdpFrame.refl a fw n
  · rename_i u0 hu0
    dsimp only
    have hb : ∀ r : NetSt × Ec, r = (if ((u0.abortSend a).1).bound.isDefault = true
        then (n.setUdp a (u0.abortSend a).1).udpBind a {} else (n.setUdp a (u0.abortSend a).1, Ec.ok)) →
        UdpFrame a fw n r.1 := by
      intro r hr
      split at hr
      · subst hr
        have h1 := uframe_setUdp_only n a (u0.abortSend a).1 fw
        have h2 := uframe_udpBind (n.setUdp a (u0.abortSend a).1) a {} fw
        exact ⟨fun b hb => by rw [h2.udp b hb, h1.udp b hb], by rw [h2.tcps, h1.tcps], by rw [h2.chans, h1.chans],
          by rw [h2.cfg, h1.cfg], by rw [h2.regt, h1.regt], by rw [h2.regu, h1.regu],
          fun g hg hne => by rw [h2.fwd g (by rw [setUdp_fwds]; exact hg) hne, h1.fwd g hg hne],
          Nat.le_trans h1.fwdlen h2.fwdlen⟩
      · subst hr; exact uframe_setUdp_only n a _ fw
    generalize (if ((u0.abortSend a).1).bound.isDefault = true
        then (n.setUdp a (u0.abortSend a).1).udpBind a {} else (n.setUdp a (u0.abortSend a).1, Ec.ok)) = r at hb
    have hr := hb r rfl
    splits <;> first | exact hr | exact hr.setUdp _

/-- every label of the one-UDP-socket system leaves every other object alone -/
theorem uframe_label (n : NetSt) (a : String) (l : ULbl) (u : UdpSock) (h : n.udp? a = some u) :
    UdpFrame a u.fwd n (l.eff a n).1 := by
  cases l with
  | recv op => simp only [ULbl.eff, NetSt.udpAsyncRecv, h]; exact uframe_setUdp_only _ _ _ _
  | waitRead hd => simp only [ULbl.eff, NetSt.udpWaitRead, h]; exact uframe_setUdp_only _ _ _ _
  | waitWrite now hd =>
    simp only [ULbl.eff, NetSt.udpWaitWrite, h]
    split <;> exact uframe_setUdp_only _ _ _ _
  | recvNb caps => simp only [ULbl.eff, NetSt.udpRecvNb, h]; exact uframe_setUdp_only _ _ _ _
  | sendTo now dst pl => exact uframe_udpSendTo n now a dst pl u.fwd
  | cancel => simp only [ULbl.eff, NetSt.udpCancel, h]; exact uframe_setUdp_only _ _ _ _
  | close => exact uframe_udpClose n a u h
  | reopen v4 => exact uframe_udpOpen n a v4 u h
  | bind ep => exact uframe_udpBind n a ep u.fwd
  | incoming p => simp only [ULbl.eff, h]; exact uframe_setUdp_only _ _ _ _
  | sendTimer ab =>
    simp only [ULbl.eff, NetSt.udpSendWaitFired, h]
    splits <;> first | exact UdpFrame.refl _ _ _ | exact uframe_setUdp_only _ _ _ _

/-! ### TCP frame -/

theorem _root_.SimVerif.TcpFrame.refl (a : String) (fw ch : Option Nat) (n : NetSt) : TcpFrame a fw ch n n :=
  ⟨fun _ _ => rfl, rfl, rfl, rfl, rfl, fun _ _ _ => rfl, Nat.le_refl _, fun _ _ _ => rfl, Nat.le_refl _⟩

theorem _root_.SimVerif.TcpFrame.setTcp {a : String} {fw ch : Option Nat} {n n' : NetSt} (t : TcpSock)
    (h : TcpFrame a fw ch n n') : TcpFrame a fw ch n (n'.setTcp a t) :=
  ⟨fun b hb => by rw [setTcp_tcp_other _ _ _ _ hb]; exact h.tcp b hb, h.udps, h.cfg, h.regu, h.regt,
    h.fwd, h.fwdlen, h.chan, h.chanlen⟩

theorem _root_.SimVerif.TcpFrame.trans {a : String} {fw ch : Option Nat} {n n1 n2 : NetSt}
    (h1 : TcpFrame a fw ch n n1) (h2 : TcpFrame a fw ch n1 n2) : TcpFrame a fw ch n n2 :=
  ⟨fun b hb => by rw [h2.tcp b hb, h1.tcp b hb], by rw [h2.udps, h1.udps], by rw [h2.cfg, h1.cfg],
    by rw [h2.regu, h1.regu], by rw [h2.regt, h1.regt],
    fun g hg hne => by rw [h2.fwd g (Nat.lt_of_lt_of_le hg h1.fwdlen) hne, h1.fwd g hg hne],
    Nat.le_trans h1.fwdlen h2.fwdlen,
    fun c hc hne => by rw [h2.chan c (Nat.lt_of_lt_of_le hc h1.chanlen) hne, h1.chan c hc hne],
    Nat.le_trans h1.chanlen h2.chanlen⟩

/-- a step that changes less may be used where more is allowed -/
theorem _root_.SimVerif.TcpFrame.mono {a : String} {fw ch fw' ch' : Option Nat} {n n' : NetSt}
    (h : TcpFrame a fw ch n n') (hf : fw = none ∨ fw = fw') (hc : ch = none ∨ ch = ch') : TcpFrame a fw' ch' n n' :=
  ⟨h.tcp, h.udps, h.cfg, h.regu, h.regt,
    fun g hg hne => h.fwd g hg (by rcases hf with hf | hf <;> subst hf <;> first | exact hne | exact (fun e => by cases e)),
    h.fwdlen,
    fun c hcl hne => h.chan c hcl (by rcases hc with hc | hc <;> subst hc <;> first | exact hne | exact (fun e => by cases e)),
    h.chanlen⟩

theorem setChan_chan_other (n : NetSt) (c c' : Nat) (x : Chan) (h : c' ≠ c) : (n.setChan c x).chan? c' = n.chan? c' := by
  unfold NetSt.chan? NetSt.setChan
  simp only [List.getElem?_mapIdx]
  cases hc : n.chans[c']? with
  | none => rfl
  | some y => simp [h]

theorem tframe_tcpSendPacket (n : NetSt) (now : Int) (name : String) (p : Pkt) (s : TcpSock) (fw : Option Nat)
    (hs : n.tcp? name = some s) : TcpFrame name fw s.chan n (n.tcpSendPacket now name p).1 := by
  unfold NetSt.tcpSendPacket
  rw [hs]; dsimp only
  split
  · exact TcpFrame.refl _ _ _ _
  · rename_i ch hch
    dsimp only
    refine TcpFrame.setTcp _ ?_
    refine ⟨fun _ _ => rfl, rfl, rfl, rfl, rfl, fun _ _ _ => rfl, Nat.le_refl _, fun c _ hne => ?_,
      by rw [setChan_length]; exact Nat.le_refl _⟩
    cases hsc : s.chan with
    | none => rw [hsc] at hch; cases hch
    | some cid =>
      rw [hsc] at hne
      exact setChan_chan_other n _ c _ (fun e => hne (by rw [e]; rfl))

theorem tframe_tcpCloseEof (n : NetSt) (now : Int) (name : String) (s0 : TcpSock) (fw : Option Nat)
    (hs : n.tcp? name = some s0) : TcpFrame name fw s0.chan n (tcpCloseEof n now name s0).1 := by
  unfold tcpCloseEof
  splits <;> first
    | exact TcpFrame.refl _ _ _ _
    | exact ((TcpFrame.refl name fw s0.chan n).setTcp _).trans
        (tframe_tcpSendPacket (n.setTcp name { s0 with nextOut := s0.nextOut + 1 }) now name _
          { s0 with nextOut := s0.nextOut + 1 } fw (setTcp_tcp_same _ _ _))

theorem tframe_tcpCloseFin (n : NetSt) (name : String) (e0 : List NEff) (s : TcpSock) (ch : Option Nat)
    (hs : n.tcp? name = some s) : TcpFrame name s.fwd ch n (tcpCloseFin n name e0).1 := by
  unfold tcpCloseFin
  rw [hs]; dsimp only
  refine TcpFrame.setTcp _ ?_
  refine ⟨fun b _ => ?_, ?_, ?_, ?_, ?_, fun g _ hne => ?_, ?_, fun c _ _ => ?_, ?_⟩
  · splits <;> rfl
  · splits <;> rfl
  · splits <;> rfl
  · splits <;> rfl
  · splits <;> first | rfl | exact simUnbind_filter _ _ _
  · cases hf : s.fwd with
    | none => dsimp only; split <;> rfl
    | some f =>
      dsimp only
      rw [hf] at hne
      rw [setFwd_fwdTarget_other _ f g none (fun e => hne (by rw [e]))]
      split <;> rfl
  · cases hf : s.fwd with
    | none => dsimp only; split <;> exact Nat.le_refl _
    | some f => dsimp only; rw [setFwd_length]; split <;> exact Nat.le_refl _
  · splits <;> rfl
  · splits <;> exact Nat.le_refl _

theorem tframe_tcpClose (n : NetSt) (now : Int) (name : String) (s : TcpSock) (hs : n.tcp? name = some s) :
    TcpFrame name s.fwd s.chan n (n.tcpClose now name).1 := by
  rw [tcpClose_eq, hs]; dsimp only
  obtain ⟨t', ht', _, _, _, _, _, a6, _, _, _, _⟩ := tcpCloseEof_slots n now name s hs name s hs
  have h2 := tframe_tcpCloseFin (tcpCloseEof n now name s).1 name (tcpCloseEof n now name s).2 t' s.chan ht'
  rw [a6] at h2
  exact (tframe_tcpCloseEof n now name s s.fwd hs).trans h2

theorem tcpCloseEof_fwds (n : NetSt) (now : Int) (name : String) (s0 : TcpSock) :
    (tcpCloseEof n now name s0).1.fwds = n.fwds := by
  unfold tcpCloseEof
  splits <;> first
    | rfl
    | (unfold NetSt.tcpSendPacket; splits <;> rfl)

theorem tcpClose_fwds (n : NetSt) (now : Int) (name : String) (s : TcpSock) (hs : n.tcp? name = some s) :
    (n.tcpClose now name).1.fwds = (match s.fwd with | some f => n.setFwd f none | none => n).fwds := by
  rw [tcpClose_eq, hs]; dsimp only
  obtain ⟨t', ht', _, _, _, _, _, a6, _, _, _, _⟩ := tcpCloseEof_slots n now name s hs name s hs
  unfold tcpCloseFin
  rw [ht']; dsimp only
  rw [a6]
  cases s.fwd with
  | none => dsimp only; split <;> exact tcpCloseEof_fwds n now name s
  | some f =>
    dsimp only
    have := tcpCloseEof_fwds n now name s
    unfold NetSt.setFwd
    split <;> (dsimp only; rw [this]; rfl)

theorem tcpClose_fwds_length (n : NetSt) (now : Int) (name : String) :
    (n.tcpClose now name).1.fwds.length = n.fwds.length := by
  cases hs : n.tcp? name with
  | none => rw [tcpClose_eq, hs]
  | some s => rw [tcpClose_fwds n now name s hs]; cases s.fwd <;> simp

/-- **`close()` detaches the forwarder** the socket had -/
theorem tcpClose_detached (n : NetSt) (now : Int) (name : String) (s : TcpSock) (f : Nat)
    (hs : n.tcp? name = some s) (hf : s.fwd = some f) : (n.tcpClose now name).1.fwdTarget f = none := by
  have := tcpClose_fwds n now name s hs
  rw [hf] at this
  rw [fwdTarget_of_fwds_eq this]
  exact setFwd_none_fwdTarget_same n f

theorem tframe_tcpOpen (n : NetSt) (now : Int) (name : String) (v4 : Bool) (s : TcpSock) (hs : n.tcp? name = some s) :
    TcpFrame name s.fwd s.chan n (n.tcpOpen now name v4).1 := by
  have hc := tframe_tcpClose n now name s hs
  obtain ⟨_, s1, hs1, _⟩ := tcpClose_some n now name s hs
  unfold NetSt.tcpOpen
  dsimp only
  rw [hs1]; dsimp only
  refine hc.trans (TcpFrame.setTcp _ ?_)
  refine ⟨fun _ _ => rfl, rfl, rfl, rfl, rfl, fun g hg _ => ?_, by rw [newFwd_length]; omega, fun _ _ _ => rfl,
    Nat.le_refl _⟩
  rw [newFwd_fwdTarget]
  have : g ≠ (n.tcpClose now name).1.fwds.length := by omega
  simp [this]

theorem tframe_tcpBind (n : NetSt) (name : String) (ep : Ep) (fw ch : Option Nat) :
    TcpFrame name fw ch n (n.tcpBind name ep).1 := by
  unfold NetSt.tcpBind
  split
  · exact TcpFrame.refl _ _ _ _
  · split
    · exact TcpFrame.refl _ _ _ _
    · split
      · exact TcpFrame.refl _ _ _ _
      · split
        · exact TcpFrame.refl _ _ _ _
        · split
          · exact TcpFrame.refl _ _ _ _
          · dsimp only
            have hreg : ∀ ep1, TcpFrame name fw ch n { n with reg := { n.reg with
                tcp := (simBind n.reg.tcp n.reg.nextPort name ep1).1,
                nextPort := (simBind n.reg.tcp n.reg.nextPort name ep1).2.1 } } := fun ep1 =>
              ⟨fun _ _ => rfl, rfl, rfl, rfl, simBind_filter _ _ _ _, fun _ _ _ => rfl, Nat.le_refl _,
                fun _ _ _ => rfl, Nat.le_refl _⟩
            split
            · exact hreg _
            · exact (hreg _).setTcp _

theorem tframe_setTcp_only (n : NetSt) (a : String) (t : TcpSock) (fw ch : Option Nat) :
    TcpFrame a fw ch n (n.setTcp a t) := (TcpFrame.refl a fw ch n).setTcp t

/-- the per-socket operations of a TCP socket / acceptor `a` that only replace the object -/
theorem tframe_simple (tp : TParams) (n : NetSt) (a : String) (fw ch : Option Nat) (rop : ReadOp) (wop : WriteOp)
    (h : Nat) (caps : List Nat) (qs : Int) (r : Except Ec Nat) :
    TcpFrame a fw ch n (n.tcpCancel a).1 ∧ TcpFrame a fw ch n (n.tcpAsyncRead a rop).1
    ∧ TcpFrame a fw ch n (n.tcpWaitRead a h).1 ∧ TcpFrame a fw ch n (n.tcpAsyncWrite a wop).1
    ∧ TcpFrame a fw ch n (n.tcpReadNb a caps).1 ∧ TcpFrame a fw ch n (n.accCancel a).1
    ∧ TcpFrame a fw ch n (n.accListen a qs).1 ∧ TcpFrame a fw ch n (n.tcpWriteFinish a wop r).1
    ∧ TcpFrame a fw ch n (n.tcpAckPost tp a true h).1 := by
  refine ⟨?_, ?_, ?_, ?_, ?_, ?_, ?_, ?_, ?_⟩
  · unfold NetSt.tcpCancel; split <;> first | exact TcpFrame.refl _ _ _ _ | exact tframe_setTcp_only _ _ _ _ _
  · unfold NetSt.tcpAsyncRead; split <;> first | exact TcpFrame.refl _ _ _ _ | exact tframe_setTcp_only _ _ _ _ _
  · unfold NetSt.tcpWaitRead; split <;> first | exact TcpFrame.refl _ _ _ _ | exact tframe_setTcp_only _ _ _ _ _
  · unfold NetSt.tcpAsyncWrite; split <;> first | exact TcpFrame.refl _ _ _ _ | exact tframe_setTcp_only _ _ _ _ _
  · unfold NetSt.tcpReadNb; split <;> first | exact TcpFrame.refl _ _ _ _ | exact tframe_setTcp_only _ _ _ _ _
  · unfold NetSt.accCancel; split <;> first | exact TcpFrame.refl _ _ _ _ | exact tframe_setTcp_only _ _ _ _ _
  · unfold NetSt.accListen; splits <;> first | exact TcpFrame.refl _ _ _ _ | exact tframe_setTcp_only _ _ _ _ _
  · unfold NetSt.tcpWriteFinish; splits <;> first | exact TcpFrame.refl _ _ _ _ | exact tframe_setTcp_only _ _ _ _ _
  · unfold NetSt.tcpAckPost; split <;> first | exact TcpFrame.refl _ _ _ _ | exact tframe_setTcp_only _ _ _ _ _

theorem tframe_accClose (n : NetSt) (now : Int) (name : String) (s : TcpSock) (a : AccState)
    (hs : n.tcp? name = some s) (ha : s.acc = some a) :
    TcpFrame name s.fwd s.chan n (n.accClose now name).1 := by
  obtain ⟨_, s', _, _, _, _, _, _, _, _, _, s1, heq, e1, e2, _⟩ := accClose_posts n now name s a hs ha
  rw [heq]
  refine TcpFrame.setTcp _ ?_
  have h2 := tframe_tcpClose (n.setTcp name s1) now name s1 (setTcp_tcp_same _ _ _)
  rw [e1, e2] at h2
  exact (tframe_setTcp_only n name s1 s.fwd s.chan).trans h2

/-- **`close()` of an acceptor detaches its forwarder** -/
theorem accClose_detached (n : NetSt) (now : Int) (name : String) (s : TcpSock) (a : AccState) (f : Nat)
    (hs : n.tcp? name = some s) (ha : s.acc = some a) (hf : s.fwd = some f) :
    (n.accClose now name).1.fwdTarget f = none := by
  obtain ⟨_, s', _, _, _, _, _, _, _, _, _, s1, heq, e1, _, _⟩ := accClose_posts n now name s a hs ha
  rw [heq, setTcp_fwdTarget]
  have := tcpClose_detached (n.setTcp name s1) now name s1 f (setTcp_tcp_same _ _ _) (by rw [e1, hf])
  exact this

/-- **`async_connect`** touches the connecting socket, its registry entries, and *appends* one
    channel: every other object, every existing channel other than the socket's own and every
    forwarder other than its own stay as they are. -/
theorem tframe_tcpConnect (n : NetSt) (now : Int) (name : String) (target : Ep) (h : Nat) (s0 : TcpSock)
    (hs0 : n.tcp? name = some s0) :
    TcpFrame name s0.fwd s0.chan n (n.tcpConnect now name target h).1 := by
  rw [tcpConnect_eq, hs0]; dsimp only
  have hA : TcpFrame name s0.fwd s0.chan n
      (if (!s0.isOpen) = true then n.tcpOpen now name target.isV4 else (n, [])).1 := by
    split
    · exact tframe_tcpOpen n now name target.isV4 s0 hs0
    · exact TcpFrame.refl _ _ _ _
  generalize (if (!s0.isOpen) = true then n.tcpOpen now name target.isV4 else (n, [])) = x at hA
  split
  · exact hA
  · rename_i s hs
    have hB : TcpFrame name s0.fwd s0.chan x.1 (tcpConnectBind x.1 name s target).1 := by
      unfold tcpConnectBind
      split
      · dsimp only
        split
        · exact TcpFrame.refl _ _ _ _
        · try dsimp only
          have hreg : ∀ ep1, TcpFrame name s0.fwd s0.chan x.1 { x.1 with reg := { x.1.reg with
              tcp := (simBind x.1.reg.tcp x.1.reg.nextPort name ep1).1,
              nextPort := (simBind x.1.reg.tcp x.1.reg.nextPort name ep1).2.1 } } := fun ep1 =>
            ⟨fun _ _ => rfl, rfl, rfl, rfl, simBind_filter _ _ _ _, fun _ _ _ => rfl, Nat.le_refl _,
              fun _ _ _ => rfl, Nat.le_refl _⟩
          split
          · exact hreg _
          · exact (hreg _).setTcp _
      · exact TcpFrame.refl _ _ _ _
    refine (hA.trans hB).trans ?_
    generalize (tcpConnectBind x.1 name s target) = y
    unfold tcpConnectFin
    split
    · exact TcpFrame.refl _ _ _ _
    · split
      · exact TcpFrame.refl _ _ _ _
      · split
        · exact TcpFrame.refl _ _ _ _
        · dsimp only
          have hI : TcpFrame name s0.fwd s0.chan y.1 (y.1.internalConnect name target).1 := by
            unfold NetSt.internalConnect
            splits <;> first
              | exact TcpFrame.refl _ _ _ _
              | (refine ⟨fun _ _ => rfl, rfl, rfl, rfl, rfl, fun _ _ _ => rfl, Nat.le_refl _, fun c hc _ => ?_, by simp⟩
                 unfold NetSt.chan?
                 dsimp only
                 rw [List.getElem?_append_left hc])
          splits <;> first | exact hI | exact hI.setTcp _

end HL

end SimVerif
