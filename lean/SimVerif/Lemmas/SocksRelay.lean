/-
  SimVerif.Lemmas.SocksRelay — the relay loops and the UDP ASSOCIATE relay of the SOCKS proxy
  model: over all histories the bytes handed to the target's socket are exactly the bytes read
  from the client (and vice versa), chunk by chunk, whatever the segmentation; UDP datagrams
  are forwarded with exactly the header stripped and replies are wrapped in a header naming
  their source; wrap/unwrap round trip.
-/
import SimVerif.SocksSpec

namespace SimVerif.Socks

/-- what was stored at the start of an array is what is read back from there -/
theorem store_readN (b : Buf) (d : Bytes) (h : d.length ≤ b.cap) :
    (b.store 0 d).readN 0 d.length = .ok d := by
  sorry

/-- **relay transparency over all histories** (any interleaving of completions, any
    segmentation, any errors): for every connection, the bytes handed to `async_write` on the
    target's socket are the bytes the relay read from the client, in order, and the bytes the
    relay wrote to the client are the bytes it read from the target -/
theorem relay_run (ver : Int) (flags : Nat) (ls : List SLbl) (s : SS)
    (h : (SS.init ver flags).run {} ls = .ok s) :
    ∀ cs ∈ s.conns, toServer cs.acts = fromClient cs.hist ∧ toClientRelay cs.acts = fromServer cs.hist := by
  sorry

/-- the relay only ever writes to the target what `on_client_receive` forwards: before the
    relay started nothing is written to the target -/
theorem no_relay_no_server_write (ver : Int) (flags : Nat) (ls : List SLbl) (s : SS)
    (h : (SS.init ver flags).run {} ls = .ok s) :
    ∀ cs ∈ s.conns, fromClient cs.hist = [] → toServer cs.acts = [] := by
  sorry

/-! ### UDP ASSOCIATE -/

theorem udp_unwrap_wrap (t : UTarget) (d : Bytes) (ht : t.WF) : udpUnwrap (udpWrap t d) = some (t, d) := by
  sorry

/-- a client datagram with an IPv4 header: forwarded to that address with exactly the header stripped -/
theorem udp_forward_ip (c : Conn) (cnt : List Int) (dg : Bytes) (a pt : Nat) (payload : Bytes)
    (hs : c.Sized) (hl : dg.length ≤ 1500) (hu : udpUnwrap dg = some (.ip a pt, payload)) :
    ∃ c', complete {} c cnt .udpRecv (.dgram .ok dg c.assoc)
        = .ok (c', cnt, [.udpSend payload a pt, .udpRecv .udpRecv]) ∧ c'.Sized := by
  sorry

/-- … with a host-name header: sent to the address already known for that name, else looked up
    (the datagram is kept for the lookup's completion) — header stripped in both cases -/
theorem udp_forward_name (c : Conn) (cnt : List Int) (dg : Bytes) (host : Bytes) (pt : Nat) (payload : Bytes)
    (hs : c.Sized) (hl : dg.length ≤ 1500) (hu : udpUnwrap dg = some (.name host pt, payload)) :
    ∃ c', complete {} c cnt .udpRecv (.dgram .ok dg c.assoc)
        = .ok (c', cnt, [match c.nameMap.find? (fun e => e.2 == host) with
                         | some (a, _) => .udpSend payload a pt
                         | none => .udpResolve host pt (.udpResolve payload host),
                         .udpRecv .udpRecv]) ∧ c'.Sized := by
  sorry

/-- a client datagram whose header does not fit it (or of an unknown address type) is ignored;
    the relay keeps receiving -/
theorem udp_truncated_ignored (c : Conn) (cnt : List Int) (dg : Bytes)
    (hs : c.Sized) (hl : dg.length ≤ 1500) (hu : udpUnwrap dg = none) :
    ∃ c', complete {} c cnt .udpRecv (.dgram .ok dg c.assoc) = .ok (c', cnt, [.udpRecv .udpRecv]) ∧ c'.Sized := by
  sorry

/-- a datagram from anybody else goes to the client wrapped in a header naming its source (by
    the host name the client used for that address, if any) -/
theorem udp_reply_wrapped (c : Conn) (cnt : List Int) (dg : Bytes) (src : Nat × Nat)
    (hs : c.Sized) (hl : dg.length ≤ 1500) (hsrc : src ≠ c.assoc) (hfix : ¬ (c.assoc.2 = 0 ∧ src.1 = c.assoc.1)) :
    ∃ c', complete {} c cnt .udpRecv (.dgram .ok dg src)
        = .ok (c', cnt, [.udpSend (udpWrap (match (c.nameMap.find? (fun e => e.1 == src.1)).map Prod.snd with
                                            | some host => .name host src.2
                                            | none => .ip src.1 src.2) dg) c.assoc.1 c.assoc.2,
                         .udpRecv .udpRecv]) ∧ c'.Sized := by
  sorry

/-- the lookup's completion sends the kept payload, unchanged, to the first address -/
theorem udp_resolved_sends (c : Conn) (cnt : List Int) (payload host : Bytes) (a pt : Nat) (rest : List (Nat × Nat))
    (hp : payload ≠ []) :
    ∃ c', complete {} c cnt (.udpResolve payload host) (.ips .ok ((a, pt) :: rest)) = .ok (c', cnt, [.udpSend payload a pt]) := by
  sorry

end SimVerif.Socks
