/-
  SimVerif.Lemmas.SocksRelay — the relay loops and the UDP ASSOCIATE relay of the SOCKS proxy
  model: over all histories the bytes handed to the target's socket are exactly the bytes read
  from the client (and vice versa), chunk by chunk, whatever the segmentation; UDP datagrams
  are forwarded with exactly the header stripped and replies are wrapped in a header naming
  their source; wrap/unwrap round trip.
-/
import SimVerif.Lemmas.SocksQuiet

namespace SimVerif.Socks
open Relay

/-- what was stored at the start of an array is what is read back from there -/
theorem store_readN (b : Buf) (d : Bytes) (h : d.length ≤ b.cap) :
    (b.store 0 d).readN 0 d.length = .ok d := by
  rw [store_readN_gen b d 0 d.length (by omega) (by omega) (by omega) h]
  simp

namespace Relay

theorem write_ok {b b' : Buf} {d : Bytes} (h : b.write 0 d = .ok b') : d.length ≤ b.cap ∧ b' = b.store 0 d := by
  unfold Buf.write at h
  split at h
  · rename_i hin
    cases h
    simp [Buf.inb] at hin
    exact ⟨by omega, rfl⟩
  · cases h

/-- one completion: the relay writes exactly what the completion read for the relay -/
theorem complete_relay (c : Conn) (cnt : List Int) (op : POp) (r : Res) (c' : Conn) (cnt' : List Int) (acts : List Act)
    (h : complete {} c cnt op r = .ok (c', cnt', acts)) :
    toServer acts = fromClient [(op, r)] ∧ toClientRelay acts = fromServer [(op, r)] := by
  have fin : ∀ {o : Out}, Quiet o → o = .ok (c', cnt', acts) →
      fromClient [(op, r)] = [] → fromServer [(op, r)] = [] →
      toServer acts = fromClient [(op, r)] ∧ toClientRelay acts = fromServer [(op, r)] := by
    intro o hq ho h1 h2; rw [h1, h2]; exact hq _ _ _ ho
  cases op with
  | readSome s k =>
    cases r with
    | rd ec d =>
      simp only [complete] at h
      cases s with
      | client =>
        dsimp only at h
        split at h
        · cases h
        · rename_i ob hw
          obtain ⟨hlen, rfl⟩ := write_ok hw
          by_cases hk : k = .cliRecv
          · subst hk
            dsimp only at h
            unfold onClientReceive at h
            by_cases hec : ec = .ok
            · subst hec
              simp only [reduceCtorEq, or_self, if_false, ne_eq, not_true_eq_false] at h
              unfold writeFrom at h
              dsimp only at h
              rw [store_readN _ _ hlen] at h
              cases h
              simp [toServer, toClientRelay, fromClient, fromServer]
            · have h1 : fromClient [(POp.readSome .client .cliRecv, Res.rd ec d)] = [] := by
                cases ec <;> first | rfl | exact absurd rfl hec
              refine fin (o := _) ?_ h h1 rfl
              split
              · exact quiet_ok quietActs_nil
              · first | exact quiet_close _ _ | (rw [if_pos hec]; exact quiet_close _ _)
          · refine fin (o := _) ?_ h (by cases k <;> first | rfl | exact absurd rfl hk) rfl
            cases k <;> first | exact quiet_ok quietActs_nil | exact quiet_waitForEof _ _ _ | exact absurd rfl hk
      | server =>
        dsimp only at h
        split at h
        · cases h
        · rename_i ib hw
          obtain ⟨hlen, rfl⟩ := write_ok hw
          by_cases hk : k = .srvRecv
          · subst hk
            dsimp only at h
            unfold onServerReceive at h
            by_cases hec : ec = .ok
            · subst hec
              simp only [ne_eq, not_true_eq_false, if_false] at h
              unfold writeFrom at h
              dsimp only at h
              rw [store_readN _ _ hlen] at h
              cases h
              simp [toServer, toClientRelay, fromClient, fromServer]
            · have h1 : fromServer [(POp.readSome .server .srvRecv, Res.rd ec d)] = [] := by
                cases ec <;> first | rfl | exact absurd rfl hec
              refine fin (o := _) ?_ h rfl h1
              rw [if_pos hec]; exact quiet_close _ _
          · refine fin (o := _) ?_ h rfl (by cases k <;> first | rfl | exact absurd rfl hk)
            cases k <;> first | exact quiet_ok quietActs_nil | exact absurd rfl hk
    | _ => simp only [complete] at h; exact fin (quiet_ok quietActs_nil) h (by cases s <;> cases k <;> rfl) (by cases s <;> cases k <;> rfl)
  | write s len k =>
    cases r <;> simp only [complete] at h
    case wr ec n =>
      refine fin (o := _) ?_ h rfl rfl
      cases k <;> first
        | exact quiet_ok quietActs_nil | exact quiet_onHandshake3 _ _ _ _ | exact quiet_close _ _
        | exact quiet_startAccept _ _ _ | exact quiet_waitForEof _ _ _ | exact quiet_relayStart _ _ _
        | exact quiet_onClientForward _ _ _ | exact quiet_onServerForward _ _ _
    all_goals exact fin (quiet_ok quietActs_nil) h rfl rfl
  | udpRecv =>
    cases r <;> simp only [complete] at h
    case dgram ec data src =>
      refine fin (o := _) ?_ h rfl rfl
      split
      · exact quiet_error _
      · exact quiet_onReadUdp _ _ _ _ _ _
    all_goals exact fin (quiet_ok quietActs_nil) h rfl rfl
  | _ =>
    cases r <;> simp only [complete] at h <;> refine fin (o := _) ?_ h rfl rfl <;> first
      | exact quiet_ok quietActs_nil | exact quiet_onExactChunk _ _ _ _ _ _ _ _ _
      | exact quiet_onRequestDomainLookup _ _ _ _ | exact quiet_onConnected _ _ _ _
      | exact quiet_bindConnection2 _ _ _ _ | exact quiet_udpAssociate2 _ _ _ _ _ _ _
      | exact quiet_udpResolved _ _ _ _ _ _

/-- per-connection relay invariant -/
def RelayOk (cs : CS) : Prop := toServer cs.acts = fromClient cs.hist ∧ toClientRelay cs.acts = fromServer cs.hist

theorem relay_step (s s' : SS) (l : SLbl) (hs : ∀ cs ∈ s.conns, RelayOk cs) (h : s.step {} l = .ok s') :
    ∀ cs ∈ s'.conns, RelayOk cs := by
  cases l with
  | accept =>
    simp only [SS.step] at h
    split at h
    · cases h
    · rename_i c1 cnt1 acts1 hst
      cases h
      intro cs hcs
      simp only [List.mem_append, List.mem_singleton] at hcs
      rcases hcs with hcs | rfl
      · exact hs cs hcs
      · have := quiet_start _ _ _ _ _ hst
        exact ⟨this.1, this.2⟩
  | complete ci i r =>
    simp only [SS.step] at h
    split at h
    · cases h; exact hs
    · rename_i cs0 hci
      split at h
      · cases h; exact hs
      · rename_i e hi
        split at h
        · cases h; exact hs
        · split at h
          · cases h
          · rename_i c1 cnt1 acts1 hco
            cases h
            intro cs hcs
            rcases List.mem_or_eq_of_mem_set hcs with hcs | rfl
            · exact hs cs hcs
            · have h0 : RelayOk cs0 := hs cs0 (List.mem_of_getElem? hci)
              have h1 := complete_relay _ _ _ _ _ _ _ hco
              unfold RelayOk at *
              dsimp only
              unfold toServer toClientRelay fromClient fromServer at *
              simp only [List.flatMap_append]
              rw [h0.1, h0.2, h1.1, h1.2]
              exact ⟨rfl, rfl⟩

theorem relay_run_gen (ls : List SLbl) (s s' : SS) (hs : ∀ cs ∈ s.conns, RelayOk cs) (h : s.run {} ls = .ok s') :
    ∀ cs ∈ s'.conns, RelayOk cs := by
  induction ls generalizing s with
  | nil => simp only [SS.run] at h; cases h; exact hs
  | cons l rest ih =>
    simp only [SS.run] at h
    split at h
    · cases h
    · rename_i s1 h1
      exact ih s1 (relay_step s s1 l hs h1) h

end Relay

/-- **relay transparency over all histories** (any interleaving of completions, any
    segmentation, any errors): for every connection, the bytes handed to `async_write` on the
    target's socket are the bytes the relay read from the client, in order, and the bytes the
    relay wrote to the client are the bytes it read from the target -/
theorem relay_run (ver : Int) (flags : Nat) (ls : List SLbl) (s : SS)
    (h : (SS.init ver flags).run {} ls = .ok s) :
    ∀ cs ∈ s.conns, toServer cs.acts = fromClient cs.hist ∧ toClientRelay cs.acts = fromServer cs.hist :=
  relay_run_gen ls _ s (by intro cs hcs; cases hcs) h

/-- the relay only ever writes to the target what `on_client_receive` forwards: before the
    relay started nothing is written to the target -/
theorem no_relay_no_server_write (ver : Int) (flags : Nat) (ls : List SLbl) (s : SS)
    (h : (SS.init ver flags).run {} ls = .ok s) :
    ∀ cs ∈ s.conns, fromClient cs.hist = [] → toServer cs.acts = [] := by
  intro cs hcs h0
  rw [(relay_run ver flags ls s h cs hcs).1, h0]

/-! ### UDP ASSOCIATE -/

namespace Relay

theorem u8_toNat (n : Nat) : (u8 n).toNat = n % 256 := by
  simp [u8]

theorem be16_port2 (p : Nat) (hp : p < 65536) : be16 (u8 (p / 256)) (u8 p) = p := by
  simp only [be16, u8_toNat]; omega

theorem be32_addr4 (a : Nat) (ha : a < 4294967296) :
    be32 (u8 (a / 16777216)) (u8 (a / 65536)) (u8 (a / 256)) (u8 a) = a := by
  simp only [be32, u8_toNat]; omega

end Relay

theorem udp_unwrap_wrap (t : UTarget) (d : Bytes) (ht : t.WF) : udpUnwrap (udpWrap t d) = some (t, d) := by
  cases t with
  | ip a p =>
    obtain ⟨ha, hp⟩ := ht
    simp [udpWrap, udpUnwrap, addr4, port2, be16_port2 p hp, be32_addr4 a ha]
  | name h p =>
    obtain ⟨hh, hp⟩ := ht
    have hl : (u8 h.length).toNat = h.length := by rw [u8_toNat]; omega
    simp [udpWrap, udpUnwrap, port2, hl, be16_port2 p hp]

namespace Relay

theorem sized_udpStore (c : Conn) (hs : c.Sized) (dg : Bytes) : Conn.Sized { c with udpBuf := c.udpBuf.store 0 dg } :=
  ⟨hs.out, hs.inn, hs.udp⟩

/-- the receive completion stores the datagram at the start of `m_udp_buffer` and calls `on_read_udp` -/
theorem complete_udpRecv (p : Params) (c : Conn) (cnt : List Int) (ec : Ec) (dg : Bytes) (src : Nat × Nat)
    (hs : c.Sized) (hl : dg.length ≤ 1500) :
    complete p c cnt .udpRecv (.dgram ec dg src)
      = onReadUdp p { c with udpBuf := c.udpBuf.store 0 dg } cnt ec dg.length src := by
  have hin : c.udpBuf.inb 0 dg.length = true := by
    simp only [Buf.inb, hs.udp]; simp; omega
  simp only [complete, Buf.write, hin, if_true]
  rfl

theorem get_inb (b : Buf) (i : Int) (h0 : 0 ≤ i) (h1 : i < b.cap) : b.get i = .ok (b.byte i.toNat) := by
  have hin : b.inb i 1 = true := by
    simp only [Buf.inb, Bool.and_eq_true, decide_eq_true_eq]; omega
  simp only [Buf.get, hin, if_true]

theorem store_byteD (b : Buf) (d : Bytes) (j : Nat) (hj : j < d.length) : (b.store 0 d).byte j = d.getD j 0 := by
  rw [store_byte b d j hj]; simp [List.getD_eq_getElem?_getD, hj]

/-- the connection's datagram array holds `dg` at its start -/
structure UdpHolds (C : Conn) (dg : Bytes) : Prop where
  cap : C.udpBuf.cap = 1500
  len : dg.length ≤ 1500
  byte : ∀ j, j < dg.length → C.udpBuf.byte j = dg.getD j 0
  read : ∀ (off n : Int) (o m : Nat), off = o → n = m → o + m ≤ dg.length →
    C.udpBuf.readN off n = .ok ((dg.drop o).take m)

theorem UdpHolds.get {C : Conn} {dg : Bytes} (h : UdpHolds C dg) (i : Int) (j : Nat) (hi : i = j) (hj : j < dg.length) :
    C.udpBuf.get i = .ok (dg.getD j 0) := by
  have := h.len
  rw [get_inb _ _ (by omega) (by rw [h.cap]; omega), hi, Int.toNat_natCast, h.byte j hj]

theorem UdpHolds.get' {C : Conn} {dg : Bytes} (h : UdpHolds C dg) (i : Int) (j : Nat) (hi : i = j) (hj : j < 1500) :
    C.udpBuf.get i = .ok (C.udpBuf.byte j) := by
  rw [get_inb _ _ (by omega) (by rw [h.cap]; omega), hi, Int.toNat_natCast]

theorem udpHolds_store (c : Conn) (hs : c.Sized) (dg : Bytes) (hl : dg.length ≤ 1500) :
    UdpHolds { c with udpBuf := c.udpBuf.store 0 dg } dg where
  cap := hs.udp
  len := hl
  byte := fun j hj => store_byteD _ _ j hj
  read := by
    intro off n o m ho hm hle
    subst ho hm
    have := store_readN_gen c.udpBuf dg o m (by omega) (by omega) (by omega) (by rw [hs.udp]; exact hl)
    simpa using this

theorem assoc_fix (C : Conn) :
    (if C.assoc.2 = 0 ∧ C.assoc.1 = C.assoc.1 then { C with assoc := (C.assoc.1, C.assoc.2) } else C) = C := by
  split <;> rfl

theorem onReadUdp_ip (C : Conn) (cnt : List Int) (dg : Bytes) (hh : UdpHolds C dg) (a pt : Nat) (payload : Bytes)
    (hu : udpUnwrap dg = some (.ip a pt, payload)) :
    onReadUdp {} C cnt .ok dg.length C.assoc = .ok (C, cnt, [.udpSend payload a pt, .udpRecv .udpRecv]) := by
  unfold udpUnwrap at hu
  split at hu
  · rename_i x0 x1 x2 a b c d ph pl rest
    simp only [Option.some.injEq, Prod.mk.injEq, UTarget.ip.injEq] at hu
    obtain ⟨⟨rfl, rfl⟩, rfl⟩ := hu
    have hn : (x0 :: x1 :: x2 :: 1 :: a :: b :: c :: d :: ph :: pl :: rest).length = rest.length + 10 := by simp
    have h3 := hh.get 3 3 rfl (by rw [hn]; omega)
    have h4 := hh.get 4 4 rfl (by rw [hn]; omega)
    have r1 := hh.read 4 6 4 6 rfl rfl (by rw [hn]; omega)
    have r2 := hh.read 10 (((rest.length + 10 : Nat) : Int) - 10) 10 rest.length rfl (by omega) (by rw [hn]; omega)
    unfold onReadUdp
    dsimp only
    rw [assoc_fix, hn]
    simp at h3 h4 r1 r2
    have s1 : sx 1 = 1 := by decide
    simp [h3, h4, r1, r2, s1]
  · split at hu <;> simp at hu
  · simp at hu

theorem onReadUdp_name (C : Conn) (cnt : List Int) (dg : Bytes) (hh : UdpHolds C dg) (host : Bytes) (pt : Nat) (payload : Bytes)
    (hu : udpUnwrap dg = some (.name host pt, payload)) :
    onReadUdp {} C cnt .ok dg.length C.assoc
      = .ok (C, cnt, [match C.nameMap.find? (fun e => e.2 == host) with
                      | some (a, _) => .udpSend payload a pt
                      | none => .udpResolve host pt (.udpResolve payload host),
                      .udpRecv .udpRecv]) := by
  unfold udpUnwrap at hu
  split at hu
  · simp at hu
  · rename_i x0 x1 x2 l rest
    split at hu
    · rename_i hlr
      simp only [Option.some.injEq, Prod.mk.injEq, UTarget.name.injEq] at hu
      obtain ⟨⟨rfl, rfl⟩, rfl⟩ := hu
      have hn : (x0 :: x1 :: x2 :: 3 :: l :: rest).length = rest.length + 5 := by simp
      have h3 := hh.get 3 3 rfl (by rw [hn]; omega)
      have h4 := hh.get 4 4 rfl (by rw [hn]; omega)
      have r1 := hh.read 5 (ux l) 5 l.toNat rfl rfl (by rw [hn]; omega)
      have g1 := hh.get (5 + ux l) (l.toNat + 5) (by simp only [ux]; omega) (by rw [hn]; omega)
      have g2 := hh.get (6 + ux l) (l.toNat + 6) (by simp only [ux]; omega) (by rw [hn]; omega)
      have r2 := hh.read (7 + ux l) (((rest.length + 5 : Nat) : Int) - 7 - ux l) (l.toNat + 7) (rest.length - l.toNat - 2)
        (by simp only [ux]; omega) (by simp only [ux]; omega) (by rw [hn]; omega)
      have ht : List.take (rest.length - l.toNat - 2) (rest.drop (l.toNat + 2)) = rest.drop (l.toNat + 2) :=
        List.take_of_length_le (by simp; omega)
      have hc : ¬ (rest.length + 5 < 5 ∨ (rest.length : Int) + 5 < 7 + ux l) := by simp only [ux]; omega
      unfold onReadUdp
      dsimp only
      rw [assoc_fix, hn]
      simp [ht] at h3 h4 r1 r2 g1 g2
      have s3 : sx 3 = 3 := by decide
      simp [h3, h4, r1, r2, g1, g2, s3]
      rw [if_neg hc]
      split <;> rename_i hf <;> simp only [hf]
    · simp at hu
  · simp at hu

theorem sx_eq_one (t : UInt8) : sx t = 1 ↔ t = 1 := by
  constructor
  · intro h; unfold sx at h
    have := UInt8.toNat_lt t
    apply UInt8.toNat_inj.mp
    split at h <;> simp <;> omega
  · rintro rfl; rfl

theorem sx_eq_three (t : UInt8) : sx t = 3 ↔ t = 3 := by
  constructor
  · intro h; unfold sx at h
    have := UInt8.toNat_lt t
    apply UInt8.toNat_inj.mp
    split at h <;> simp <;> omega
  · rintro rfl; rfl

theorem unwrap_ip_some : ∀ (dg : Bytes), 10 ≤ dg.length → dg.getD 3 0 = 1 → udpUnwrap dg ≠ none
  | x0 :: x1 :: x2 :: t :: a :: b :: c :: d :: ph :: pl :: rest, _, h => by
    simp at h; subst h; simp [udpUnwrap]
  | [], hl, _ | [_], hl, _ | [_, _], hl, _ | [_, _, _], hl, _ | [_, _, _, _], hl, _ | [_, _, _, _, _], hl, _
  | [_, _, _, _, _, _], hl, _ | [_, _, _, _, _, _, _], hl, _ | [_, _, _, _, _, _, _, _], hl, _
  | [_, _, _, _, _, _, _, _, _], hl, _ => absurd hl (by simp)

theorem unwrap_name_some : ∀ (dg : Bytes), 5 ≤ dg.length → dg.getD 3 0 = 3 → 7 + (dg.getD 4 0).toNat ≤ dg.length →
    udpUnwrap dg ≠ none
  | x0 :: x1 :: x2 :: t :: l :: rest, _, h, h2 => by
    simp at h h2; subst h; simp [udpUnwrap]; omega
  | [], hl, _, _ | [_], hl, _, _ | [_, _], hl, _, _ | [_, _, _], hl, _, _ | [_, _, _, _], hl, _, _ => absurd hl (by simp)

theorem onReadUdp_trunc (C : Conn) (cnt : List Int) (dg : Bytes) (hh : UdpHolds C dg) (hu : udpUnwrap dg = none) :
    onReadUdp {} C cnt .ok dg.length C.assoc = .ok (C, cnt, [.udpRecv .udpRecv]) := by
  have g3 := hh.get' 3 3 rfl (by omega)
  have g4 := hh.get' 4 4 rfl (by omega)
  unfold onReadUdp
  dsimp only
  rw [assoc_fix]
  simp only [g3, g4, ne_eq, not_true_eq_false, if_false, if_true, true_and, ge_iff_le]
  have k3 : (if 4 ≤ dg.length then sx (C.udpBuf.byte 3) else -1) = 3 →
      (dg.length < 5 ∨ (dg.length : Int) < 7 + ux (C.udpBuf.byte 4)) := by
    intro h
    split at h
    · rename_i h4
      rw [hh.byte 3 (by omega), sx_eq_three] at h
      apply Classical.byContradiction
      intro hc
      have h5 : 5 ≤ dg.length := by omega
      rw [hh.byte 4 (by omega)] at hc
      simp only [ux] at hc
      exact unwrap_name_some dg h5 h (by omega) hu
    · omega
  have k1 : (if 4 ≤ dg.length then sx (C.udpBuf.byte 3) else -1) = 1 → dg.length < 10 := by
    intro h
    split at h
    · rw [hh.byte 3 (by omega), sx_eq_one] at h
      apply Classical.byContradiction
      intro hc
      exact unwrap_ip_some dg (by omega) h hu
    · omega
  generalize (if 4 ≤ dg.length then sx (C.udpBuf.byte 3) else -1) = atyp at k3 k1 ⊢
  by_cases h3 : atyp = 3
  · rw [if_pos ⟨h3, k3 h3⟩]
  · by_cases h1 : atyp = 1
    · rw [if_neg (fun h => h3 h.1), if_pos ⟨h1, k1 h1⟩]
    · rw [if_neg (fun h => h3 h.1), if_neg (fun h => h1 h.1), if_neg h3, if_neg h1]

theorem wrapHeader_eq (src : Nat × Nat) (name : Option Bytes) (dg : Bytes) :
    wrapHeader src name ++ dg
      = udpWrap (match name with | some host => .name host src.2 | none => .ip src.1 src.2) dg := by
  cases name <;> simp [wrapHeader, udpWrap]

theorem onReadUdp_reply (C : Conn) (cnt : List Int) (dg : Bytes) (hh : UdpHolds C dg) (src : Nat × Nat)
    (hsrc : src ≠ C.assoc) (hfix : ¬ (C.assoc.2 = 0 ∧ src.1 = C.assoc.1)) :
    onReadUdp {} C cnt .ok dg.length src
      = .ok (C, cnt, [.udpSend (udpWrap (match (C.nameMap.find? (fun e => e.1 == src.1)).map Prod.snd with
                                            | some host => .name host src.2
                                            | none => .ip src.1 src.2) dg) C.assoc.1 C.assoc.2,
                         .udpRecv .udpRecv]) := by
  have r := hh.read 0 dg.length 0 dg.length rfl rfl (by omega)
  simp only [List.drop_zero, List.take_length] at r
  unfold onReadUdp
  dsimp only
  rw [if_neg hfix, if_neg hsrc, r]
  simp only [ne_eq, not_true_eq_false, if_false, wrapHeader_eq]
  rfl

end Relay

/-- a client datagram with an IPv4 header: forwarded to that address with exactly the header stripped -/
theorem udp_forward_ip (c : Conn) (cnt : List Int) (dg : Bytes) (a pt : Nat) (payload : Bytes)
    (hs : c.Sized) (hl : dg.length ≤ 1500) (hu : udpUnwrap dg = some (.ip a pt, payload)) :
    ∃ c', complete {} c cnt .udpRecv (.dgram .ok dg c.assoc)
        = .ok (c', cnt, [.udpSend payload a pt, .udpRecv .udpRecv]) ∧ c'.Sized := by
  refine ⟨{ c with udpBuf := c.udpBuf.store 0 dg }, ?_, sized_udpStore c hs dg⟩
  rw [complete_udpRecv _ _ _ _ _ _ hs hl]
  exact onReadUdp_ip _ cnt dg (udpHolds_store c hs dg hl) a pt payload hu

/-- … with a host-name header: sent to the address already known for that name, else looked up
    (the datagram is kept for the lookup's completion) — header stripped in both cases -/
theorem udp_forward_name (c : Conn) (cnt : List Int) (dg : Bytes) (host : Bytes) (pt : Nat) (payload : Bytes)
    (hs : c.Sized) (hl : dg.length ≤ 1500) (hu : udpUnwrap dg = some (.name host pt, payload)) :
    ∃ c', complete {} c cnt .udpRecv (.dgram .ok dg c.assoc)
        = .ok (c', cnt, [match c.nameMap.find? (fun e => e.2 == host) with
                         | some (a, _) => .udpSend payload a pt
                         | none => .udpResolve host pt (.udpResolve payload host),
                         .udpRecv .udpRecv]) ∧ c'.Sized := by
  refine ⟨{ c with udpBuf := c.udpBuf.store 0 dg }, ?_, sized_udpStore c hs dg⟩
  rw [complete_udpRecv _ _ _ _ _ _ hs hl]
  exact onReadUdp_name _ cnt dg (udpHolds_store c hs dg hl) host pt payload hu

/-- a client datagram whose header does not fit it (or of an unknown address type) is ignored;
    the relay keeps receiving -/
theorem udp_truncated_ignored (c : Conn) (cnt : List Int) (dg : Bytes)
    (hs : c.Sized) (hl : dg.length ≤ 1500) (hu : udpUnwrap dg = none) :
    ∃ c', complete {} c cnt .udpRecv (.dgram .ok dg c.assoc) = .ok (c', cnt, [.udpRecv .udpRecv]) ∧ c'.Sized := by
  refine ⟨{ c with udpBuf := c.udpBuf.store 0 dg }, ?_, sized_udpStore c hs dg⟩
  rw [complete_udpRecv _ _ _ _ _ _ hs hl]
  exact onReadUdp_trunc _ cnt dg (udpHolds_store c hs dg hl) hu

/-- a datagram from anybody else goes to the client wrapped in a header naming its source (by
    the host name the client used for that address, if any) -/
theorem udp_reply_wrapped (c : Conn) (cnt : List Int) (dg : Bytes) (src : Nat × Nat)
    (hs : c.Sized) (hl : dg.length ≤ 1500) (hsrc : src ≠ c.assoc) (hfix : ¬ (c.assoc.2 = 0 ∧ src.1 = c.assoc.1)) :
    ∃ c', complete {} c cnt .udpRecv (.dgram .ok dg src)
        = .ok (c', cnt, [.udpSend (udpWrap (match (c.nameMap.find? (fun e => e.1 == src.1)).map Prod.snd with
                                            | some host => .name host src.2
                                            | none => .ip src.1 src.2) dg) c.assoc.1 c.assoc.2,
                         .udpRecv .udpRecv]) ∧ c'.Sized := by
  refine ⟨{ c with udpBuf := c.udpBuf.store 0 dg }, ?_, sized_udpStore c hs dg⟩
  rw [complete_udpRecv _ _ _ _ _ _ hs hl]
  exact onReadUdp_reply _ cnt dg (udpHolds_store c hs dg hl) src hsrc hfix

/-- the lookup's completion sends the kept payload, unchanged, to the first address -/
theorem udp_resolved_sends (c : Conn) (cnt : List Int) (payload host : Bytes) (a pt : Nat) (rest : List (Nat × Nat))
    (hp : payload ≠ []) :
    ∃ c', complete {} c cnt (.udpResolve payload host) (.ips .ok ((a, pt) :: rest)) = .ok (c', cnt, [.udpSend payload a pt]) := by
  have he : payload.isEmpty = false := by cases payload <;> simp_all
  refine ⟨{ c with nameMap := mapInsert c.nameMap a host }, ?_⟩
  simp [complete, udpResolved, he]

end SimVerif.Socks
