/-
  SimVerif.Lemmas.TcpBasic — generic lemmas about `NetSt` accessors and the pure helper
  functions of SimVerif/Tcp.lean (`cutBuf`, `takeQueued`, `drainReorder`).
-/
import SimVerif.StreamSys
import SimVerif.Lemmas.TcpMtu

namespace SimVerif

/-! ### association lists -/

theorem s5_lookup_map_set {α : Type} (l : List (String × α)) (k k' : String) (v : α) :
    (l.map (fun e => if e.1 == k then (k, v) else e)).lookup k'
      = if k' = k then (l.lookup k).map (fun _ => v) else l.lookup k' := by
  induction l with
  | nil => simp
  | cons e rest ih =>
    obtain ⟨ek, ev⟩ := e
    simp only [List.map_cons, List.lookup_cons]
    grind

/-! ### effect lists -/

@[simp] theorem fwdsOf_nil : s5_fwdsOf [] = [] := rfl
@[simp] theorem s5_fwdsOf_append (a b : List NEff) : s5_fwdsOf (a ++ b) = s5_fwdsOf a ++ s5_fwdsOf b := by
  induction a with
  | nil => rfl
  | cons e r ih => cases e <;> simp [s5_fwdsOf, ih]

@[simp] theorem fwdsOf_post (c : Compl) (r : List NEff) : s5_fwdsOf (.post c :: r) = s5_fwdsOf r := rfl
@[simp] theorem fwdsOf_forward (p : Pkt) (r : List NEff) : s5_fwdsOf (.forward p :: r) = p :: s5_fwdsOf r := rfl


/-! ### cutBuf -/
theorem cutBuf_flatten (mss : Nat) : ∀ (f : Nat) (b : List UInt8), b.length < f → (cutBuf mss f b).flatten = b := by
  intro f
  induction f with
  | zero => intro b h; omega
  | succ f ih =>
    intro b h
    unfold cutBuf
    split
    · rename_i he; simp at he; simp [he]
    · rename_i he
      have hne : b ≠ [] := by simpa using he
      have hl : 0 < b.length := List.length_pos_iff.mpr hne
      dsimp only
      rw [List.flatten_cons, ih]
      · simp
      · have : 0 < (if mss = 0 then 1 else mss) := by split <;> omega
        simp only [List.length_drop]; omega

/-! ### takeQueued -/
def bytesOf (q : List Pkt) : List UInt8 := (q.map (·.payload)).flatten

@[simp] theorem bytesOf_nil : bytesOf [] = [] := rfl
@[simp] theorem bytesOf_cons (p : Pkt) (q : List Pkt) : bytesOf (p :: q) = p.payload ++ bytesOf q := by simp [bytesOf]
@[simp] theorem bytesOf_append (a b : List Pkt) : bytesOf (a ++ b) = bytesOf a ++ bytesOf b := by simp [bytesOf]

theorem takeQueued_zero (cap : Nat) (q : List Pkt) : takeQueued 0 cap q = ([], q) := by
  simp [takeQueued]
theorem takeQueued_cap0 (f : Nat) (q : List Pkt) : takeQueued f 0 q = ([], q) := by
  cases f <;> simp [takeQueued]
theorem takeQueued_nil (f cap : Nat) : takeQueued f cap [] = ([], []) := by
  cases f <;> cases cap <;> simp [takeQueued]
theorem takeQueued_cons (f cap : Nat) (p : Pkt) (rest : List Pkt) :
    takeQueued (f + 1) (cap + 1) (p :: rest) =
      if p.ty == .err then ([], p :: rest)
      else if p.payload.length ≤ cap + 1 then
        (p.payload ++ (takeQueued f (cap + 1 - p.payload.length) rest).1, (takeQueued f (cap + 1 - p.payload.length) rest).2)
      else (p.payload.take (cap + 1), { p with payload := p.payload.drop (cap + 1) } :: rest) := by
  simp [takeQueued]

/-- what `takeQueued` leaves: related to the original queue -/
def TqRel (q' q : List Pkt) : Prop :=
  (q'.map (·.id)).Sublist (q.map (·.id))
  ∧ ∀ p' ∈ q', ∃ p ∈ q, p'.id = p.id ∧ p'.ty = p.ty ∧ (p'.ty = .err → p'.payload = p.payload)

theorem TqRel.refl (q : List Pkt) : TqRel q q :=
  ⟨List.Sublist.refl _, fun p' hp => ⟨p', hp, rfl, rfl, fun _ => rfl⟩⟩

theorem takeQueued_spec : ∀ (f cap : Nat) (q : List Pkt),
    (takeQueued f cap q).1 ++ bytesOf (takeQueued f cap q).2 = bytesOf q
    ∧ TqRel (takeQueued f cap q).2 q := by
  intro f
  induction f with
  | zero => intro cap q; rw [takeQueued_zero]; exact ⟨by simp, TqRel.refl q⟩
  | succ f ih =>
    intro cap q
    cases cap with
    | zero => rw [takeQueued_cap0]; exact ⟨by simp, TqRel.refl q⟩
    | succ cap =>
      cases q with
      | nil => rw [takeQueued_nil]; exact ⟨by simp, TqRel.refl _⟩
      | cons p rest =>
        rw [takeQueued_cons]
        split
        · exact ⟨by simp, TqRel.refl _⟩
        · split
          · obtain ⟨h1, h2, h3⟩ := ih (cap + 1 - p.payload.length) rest
            refine ⟨?_, ?_, ?_⟩
            · simp [List.append_assoc, h1]
            · exact List.Sublist.trans h2 (by simp)
            · intro p' hp
              obtain ⟨x, hx, hh⟩ := h3 p' hp
              exact ⟨x, List.mem_cons_of_mem _ hx, hh⟩
          · rename_i hty _
            refine ⟨?_, ?_, ?_⟩
            · simp only [bytesOf_cons]; rw [← List.append_assoc, List.take_append_drop]
            · simp
            · intro p' hp
              simp only [List.mem_cons] at hp
              rcases hp with rfl | hp
              · refine ⟨p, by simp, rfl, rfl, ?_⟩
                intro he; simp at hty; exact absurd he hty
              · exact ⟨p', by simp [hp], rfl, rfl, fun _ => rfl⟩
theorem cutBuf_bound (mss : Nat) (hm : 0 < mss) : ∀ (f : Nat) (b : List UInt8), ∀ x ∈ cutBuf mss f b, x ≠ [] ∧ x.length ≤ mss := by
  intro f
  induction f with
  | zero => intro b x hx; simp [cutBuf] at hx
  | succ f ih =>
    intro b x hx
    unfold cutBuf at hx
    split at hx
    · simp at hx
    · rename_i he
      have hne : b ≠ [] := by simpa using he
      have hl : 0 < b.length := List.length_pos_iff.mpr hne
      have hk : (if mss = 0 then 1 else mss) = mss := by split <;> omega
      dsimp only at hx
      rw [hk] at hx
      simp only [List.mem_cons] at hx
      rcases hx with rfl | hx
      · constructor
        · intro h0; have := congrArg List.length h0; simp at this; rcases this with h | h
          · omega
          · exact hne h
        · simp; omega
      · exact ih _ x hx

/-- bytes queued before the first error packet -/
def availBytes (q : List Pkt) : List UInt8 := bytesOf (q.takeWhile (fun p => p.ty != .err))

theorem takeQueued_is_take : ∀ (f cap : Nat) (q : List Pkt), q.length < f →
    (takeQueued f cap q).1 = (availBytes q).take cap
    ∧ availBytes (takeQueued f cap q).2 = (availBytes q).drop cap
    ∧ (takeQueued f cap q).2.dropWhile (fun p => p.ty != .err) = q.dropWhile (fun p => p.ty != .err) := by
  intro f
  induction f with
  | zero => intro cap q h; omega
  | succ f ih =>
    intro cap q hlen
    cases cap with
    | zero => rw [takeQueued_cap0]; simp
    | succ cap =>
      cases q with
      | nil => rw [takeQueued_nil]; simp [availBytes]
      | cons p rest =>
        rw [takeQueued_cons]
        by_cases hty : (p.ty == .err) = true
        · have : (p.ty != .err) = false := by simp [bne, hty]
          simp [hty, availBytes, this]
        · have hne : (p.ty != .err) = true := by simp [bne, hty]
          simp only [hty, Bool.false_eq_true, if_false]
          by_cases hfit : p.payload.length ≤ cap + 1
          · simp only [hfit, if_true]
            obtain ⟨h1, h2, h3⟩ := ih (cap + 1 - p.payload.length) rest (by simp at hlen; omega)
            refine ⟨?_, ?_, ?_⟩
            · simp only [availBytes, List.takeWhile_cons, hne, if_true, bytesOf_cons]
              rw [h1, List.take_append]
              simp [availBytes, List.take_of_length_le hfit]
            · simp only [availBytes, List.takeWhile_cons, hne, if_true, bytesOf_cons] at h2 ⊢
              rw [h2, List.drop_append]
              simp [List.drop_of_length_le hfit]
            · simp only [List.dropWhile_cons, hne, if_true]; exact h3
          · simp only [hfit, if_false]
            have hgt : cap + 1 < p.payload.length := by omega
            refine ⟨?_, ?_, ?_⟩
            · simp only [availBytes, List.takeWhile_cons, hne, if_true, bytesOf_cons]
              rw [List.take_append_of_le_length (by omega)]
            · simp only [availBytes, List.takeWhile_cons, hne, if_true, bytesOf_cons]
              rw [List.drop_append_of_le_length (by omega)]
            · simp [hne]


end SimVerif
