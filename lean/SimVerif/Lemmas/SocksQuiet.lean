/-
  SimVerif.Lemmas.SocksQuiet — helper lemmas for SocksRelay: what is read back from a stored
  array; every member function except the two relay receive handlers performs no relay write
  (`Quiet`). Everything lives in the namespace `SimVerif.Socks.Relay` (helper names stay out of
  the way of the other lemma files).
-/
import SimVerif.SocksSpec

namespace SimVerif.Socks.Relay

/-! ### checked memory: store then read -/

theorem store_cap (b : Buf) (o : Nat) (d : Bytes) : (b.store o d).cap = b.cap := rfl

theorem store_byte (b : Buf) (d : Bytes) (j : Nat) (hj : j < d.length) :
    (b.store 0 d).byte j = d[j] := by
  simp [Buf.store, Buf.byte, List.getD_eq_getElem?_getD, List.getElem?_append_left, hj]

theorem store_readN_gen (b : Buf) (d : Bytes) (off n : Int) (h0 : 0 ≤ off) (hn : 0 ≤ n)
    (hle : off + n ≤ d.length) (hc : d.length ≤ b.cap) :
    (b.store 0 d).readN off n = .ok ((d.drop off.toNat).take n.toNat) := by
  have hin : (b.store 0 d).inb off n = true := by
    simp [Buf.inb, store_cap]; refine ⟨⟨h0, hn⟩, ?_⟩; exact decide_eq_true (by omega)
  unfold Buf.readN
  rw [if_pos hin]
  congr 1
  apply List.ext_getElem
  · simp; omega
  · intro i h1 h2
    simp at h1
    simp
    rw [store_byte _ _ _ (by omega)]


/-! ### member functions that write nothing to the relay -/

/-- the actions contain no relay write -/
def QuietActs (acts : List Act) : Prop := toServer acts = [] ∧ toClientRelay acts = []

def Quiet (o : Out) : Prop := ∀ c' cnt' acts, o = .ok (c', cnt', acts) → QuietActs acts

theorem quietActs_nil : QuietActs [] := ⟨rfl, rfl⟩

theorem quietActs_append {a b : List Act} (ha : QuietActs a) (hb : QuietActs b) : QuietActs (a ++ b) := by
  unfold QuietActs toServer toClientRelay at *
  simp [List.flatMap_append, ha.1, ha.2, hb.1, hb.2]

theorem quiet_error (e : Fault) : Quiet (.error e) := by intro _ _ _ h; cases h

theorem quiet_ok {c : Conn} {cnt : List Int} {acts : List Act} (h : QuietActs acts) : Quiet (.ok (c, cnt, acts)) := by
  intro _ _ _ h'; cases h'; exact h

theorem quiet_close (c : Conn) (cnt : List Int) : Quiet (closeConnection c cnt) := by
  apply quiet_ok; constructor <;> rfl

theorem quiet_exactRead (c : Conn) (cnt : List Int) (off : Nat) (n : Int) (k : Kind) : Quiet (exactRead c cnt off n k) := by
  unfold exactRead; split
  · apply quiet_ok; constructor <;> rfl
  · exact quiet_error _

theorem quiet_writeClient (c : Conn) (cnt : List Int) (len : Int) (k : Kind) (hk : k ≠ .srvFwd) :
    Quiet (writeFrom c cnt .client len k) := by
  unfold writeFrom; split
  · exact quiet_error _
  · apply quiet_ok; constructor
    · rfl
    · cases k <;> first | rfl | exact absurd rfl hk


syntax "quiet_tac" : tactic
macro_rules
  | `(tactic| quiet_tac) => `(tactic|
    (repeat' (first
      | exact quiet_error _
      | exact quiet_close _ _
      | exact quiet_exactRead _ _ _ _ _
      | (apply quiet_writeClient; decide)
      | (apply quiet_writeClient; split <;> decide)
      | (apply quiet_ok; constructor <;> rfl)
      | split)))

theorem quiet_start (c : Conn) (cnt : List Int) : Quiet (start c cnt) := by
  unfold start; quiet_tac

theorem quiet_onHandshake1 (p : Params) (c : Conn) (cnt : List Int) (ec : Ec) (n : Nat) : Quiet (onHandshake1 p c cnt ec n) := by
  unfold onHandshake1; quiet_tac

theorem quiet_onHandshake2 (c : Conn) (cnt : List Int) (ec : Ec) (n : Nat) : Quiet (onHandshake2 c cnt ec n) := by
  unfold onHandshake2; quiet_tac

theorem quiet_onHandshake3 (c : Conn) (cnt : List Int) (ec : Ec) (n : Nat) : Quiet (onHandshake3 c cnt ec n) := by
  unfold onHandshake3; quiet_tac

theorem quiet_onRequestDomainName (p : Params) (c : Conn) (cnt : List Int) (ec : Ec) (n : Nat) :
    Quiet (onRequestDomainName p c cnt ec n) := by
  unfold onRequestDomainName; dsimp only; quiet_tac

theorem quiet_onRequest1 (p : Params) (c : Conn) (cnt : List Int) (ec : Ec) (n : Nat) : Quiet (onRequest1 p c cnt ec n) := by
  unfold onRequest1 openForwardConnection bindConnection udpAssociate; dsimp only
  by_cases hv : c.ver = 4 <;> simp only [hv, if_true, if_false] <;> repeat' (first
      | exact quiet_error _
      | exact quiet_close _ _
      | exact quiet_exactRead _ _ _ _ _
      | exact quiet_onRequestDomainName _ _ _ _ _
      | (apply quiet_ok; constructor <;> rfl)
      | split)

theorem quiet_onRequestDomainLookup (c : Conn) (cnt : List Int) (ec : Ec) (ips : List (Nat × Nat)) :
    Quiet (onRequestDomainLookup c cnt ec ips) := by
  unfold onRequestDomainLookup openForwardConnection; quiet_tac

theorem quiet_bindConnection2 (c : Conn) (cnt : List Int) (ec : Ec) (loc : Nat × Nat) : Quiet (bindConnection2 c cnt ec loc) := by
  unfold bindConnection2; dsimp only; quiet_tac

theorem quiet_waitForEof (c : Conn) (cnt : List Int) (ec : Ec) : Quiet (waitForEof c cnt ec) := by
  unfold waitForEof; quiet_tac

theorem quiet_startAccept (c : Conn) (cnt : List Int) (ec : Ec) : Quiet (startAccept c cnt ec) := by
  unfold startAccept; quiet_tac

theorem quiet_onConnected (c : Conn) (cnt : List Int) (ec : Ec) (r : Option (Nat × Nat)) : Quiet (onConnected c cnt ec r) := by
  unfold onConnected; dsimp only; quiet_tac

theorem quiet_relayStart (c : Conn) (cnt : List Int) (ec : Ec) : Quiet (relayStart c cnt ec) := by
  unfold relayStart; quiet_tac

theorem quiet_onClientForward (c : Conn) (cnt : List Int) (ec : Ec) : Quiet (onClientForward c cnt ec) := by
  unfold onClientForward; quiet_tac

theorem quiet_onServerForward (c : Conn) (cnt : List Int) (ec : Ec) : Quiet (onServerForward c cnt ec) := by
  unfold onServerForward; quiet_tac

theorem quiet_onReadUdp (p : Params) (c : Conn) (cnt : List Int) (ec : Ec) (n : Nat) (src : Nat × Nat) :
    Quiet (onReadUdp p c cnt ec n src) := by
  unfold onReadUdp; dsimp only; quiet_tac

theorem quietActs_sends (payload : Bytes) (ips : List (Nat × Nat)) :
    QuietActs (ips.map (fun t => Act.udpSend payload t.1 t.2)) := by
  induction ips with
  | nil => exact quietActs_nil
  | cons x xs ih => exact quietActs_append (a := [_]) (by constructor <;> rfl) ih

theorem quiet_udpResolved (c : Conn) (cnt : List Int) (payload host : Bytes) (ec : Ec) (ips : List (Nat × Nat)) :
    Quiet (udpResolved c cnt payload host ec ips) := by
  unfold udpResolved
  repeat' (first
      | exact quiet_ok (quietActs_sends _ _)
      | (apply quiet_ok; constructor <;> rfl)
      | split)

theorem quiet_exactDone (p : Params) (c : Conn) (cnt : List Int) (k : Kind) (ec : Ec) (t : Nat) : Quiet (exactDone p c cnt k ec t) := by
  unfold exactDone
  split
  · exact quiet_onHandshake1 _ _ _ _ _
  · exact quiet_onHandshake2 _ _ _ _
  · exact quiet_onRequest1 _ _ _ _ _
  · exact quiet_onRequestDomainName _ _ _ _ _
  · exact quiet_ok quietActs_nil

theorem quiet_onExactChunk (p : Params) (c : Conn) (cnt : List Int) (off need got : Nat) (k : Kind) (ec : Ec) (d : Bytes) :
    Quiet (onExactChunk p c cnt off need got k ec d) := by
  unfold onExactChunk
  split
  · exact quiet_error _
  · split
    · exact quiet_exactDone _ _ _ _ _ _
    · apply quiet_ok; constructor <;> rfl

theorem fhr_quiet (c : Conn) (port response : Nat) (c1 : Conn) (len : Nat) (a1 : List Act)
    (h : formatHostnameResponse c port response = .ok (c1, len, a1)) : QuietActs a1 := by
  unfold formatHostnameResponse at h
  by_cases hv : c.ver ≠ 5
  · rw [if_pos hv] at h; cases h; constructor <;> rfl
  · rw [if_neg hv] at h; dsimp only at h
    split at h
    · cases h
    · cases h; exact quietActs_nil

theorem quiet_udpAssociate2 (c : Conn) (cnt : List Int) (addr port : Nat) (ec : Ec) (loc : Nat × Nat) (cli : Nat) :
    Quiet (udpAssociate2 c cnt addr port ec loc cli) := by
  unfold udpAssociate2; dsimp only
  split
  · exact quiet_error _
  · rename_i c1 len a1 heq
    have ha1 : QuietActs a1 := by
      split at heq
      · exact fhr_quiet _ _ _ _ _ _ heq
      · split at heq
        · cases heq
        · cases heq; exact quietActs_nil
    split
    · exact quiet_error _
    · rename_i c2 cnt2 a2 heq2
      have ha2 : QuietActs a2 := quiet_writeClient _ _ _ _ (by split <;> decide) _ _ _ heq2
      apply quiet_ok
      refine quietActs_append (quietActs_append ?_ ha1) ha2
      split
      · constructor <;> rfl
      · exact quietActs_nil

end SimVerif.Socks.Relay
