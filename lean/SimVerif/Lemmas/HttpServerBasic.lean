/-
  SimVerif.Lemmas.HttpServerBasic — the reference functions `firstBlank`, `reqStep`,
  `specStream` (SimVerif/HttpServerSys.lean) under extension of the stream and change of the
  irrelevant parts of the configuration.
-/
import SimVerif.HttpServerSys
import SimVerif.Lemmas.HttpBasic
import SimVerif.Lemmas.HttpPrefix

namespace SimVerif.HttpServer

open SimVerif.Http

theorem win_append_left (b rest : Bytes) (k n : Nat) (h : k + n ≤ b.length) :
    win (b ++ rest) k n = win b k n := by
  unfold win
  rw [List.drop_append_of_le_length (by omega), List.take_append_of_le_length (by simp; omega)]

theorem firstBlank_eq_some (b : Bytes) (n : Nat) :
    firstBlank b = some n ↔ ∃ p, n = p + 4 ∧ find b 0 (b.length : Int) CRLFCRLF = .ok (some p) := by
  unfold firstBlank findRequestLen
  rcases find_spec b 0 (b.length : Int) CRLFCRLF (by omega) with ⟨hf, _⟩ | ⟨p, hf, _, _, _, _⟩
  · rw [hf]; simp
  · rw [hf]
    simp only
    rw [if_neg (by omega)]
    constructor
    · intro h
      simp at h
      exact ⟨p, by omega, rfl⟩
    · rintro ⟨q, hq, he⟩
      simp at he
      subst he
      simp; omega

theorem firstBlank_eq_none (b : Bytes) :
    firstBlank b = none ↔ find b 0 (b.length : Int) CRLFCRLF = .ok none := by
  unfold firstBlank findRequestLen
  rcases find_spec b 0 (b.length : Int) CRLFCRLF (by omega) with ⟨hf, _⟩ | ⟨p, hf, _, _, _, _⟩
  · rw [hf]; simp
  · rw [hf]
    simp only
    rw [if_neg (by omega)]
    simp

/-- a blank line found in a prefix of the stream is the first blank line of the stream -/
theorem firstBlank_append (b rest : Bytes) (n : Nat) (h : firstBlank b = some n) :
    firstBlank (b ++ rest) = some n := by
  rw [firstBlank_eq_some] at h ⊢
  obtain ⟨p, hn, hf⟩ := h
  refine ⟨p, hn, ?_⟩
  rcases find_spec b 0 (b.length : Int) CRLFCRLF (by omega) with ⟨hf', _⟩ | ⟨q, hq, _, hq2, hq3, hq4⟩
  · rw [hf] at hf'; simp at hf'
  · rw [hf] at hq
    simp at hq
    subst hq
    have hl : (CRLFCRLF : Bytes).length = 4 := rfl
    rw [hl] at hq2 hq3 hq4
    apply find_eq_some (b ++ rest) 0 _ CRLFCRLF p (by simp) (by omega)
    · simp; omega
    · rw [hl, win_append_left b rest p 4 (by omega)]; exact hq3
    · intro k hk1 hk2
      rw [hl, win_append_left b rest k 4 (by omega)]
      exact hq4 k hk1 hk2

theorem answer_congr (a b : Srv) (h : a.sameCfg b) (req : Request) : answer a req = answer b req := by
  obtain ⟨_, _, hh, hs⟩ := h
  unfold answer
  rw [hh, hs]

theorem reqStep_congr (a b : Srv) (h : a.sameCfg b) (x : Bytes) : reqStep a x = reqStep b x := by
  unfold reqStep
  split
  · rfl
  · split
    · rfl
    · rfl
    · rw [answer_congr a b h]

theorem parseRequest_append (b rest : Bytes) (n : Nat) (hn : n ≤ b.length) :
    parseRequest (b ++ rest) n = parseRequest b n := by
  rw [← parseRequest_take (b ++ rest) n (by simp; omega), ← parseRequest_take b n hn]
  rw [List.take_append_of_le_length hn]

/-- the next request of a stream does not depend on what follows it -/
theorem reqStep_append (cfg : Srv) (b y : Bytes) :
    reqStep cfg (b ++ y) =
      match reqStep cfg b with
      | .more => reqStep cfg (b ++ y)
      | .fail => .fail
      | .stall x => .stall (x ++ y)
      | .respond r c x => .respond r c (x ++ y)
      | .ub => .ub := by
  cases hfb : firstBlank b with
  | none =>
    have : reqStep cfg b = .more := by unfold reqStep; rw [hfb]
    rw [this]
  | some n =>
    have hb := firstBlank_bounds b n hfb
    have hfa := firstBlank_append b y n hfb
    have hd : (b ++ y).drop n = b.drop n ++ y := by
      rw [List.drop_append_of_le_length hb.2]
    unfold reqStep
    rw [hfb, hfa]
    simp only
    rw [parseRequest_append b y n hb.2]
    cases parseRequest b n with
    | oob => rfl
    | parseFailed => rfl
    | ok req =>
      simp only
      cases answer cfg req <;> simp [hd]

/-- one unfolding of the reference -/
theorem specStream_eq (cfg : Srv) (b : Bytes) :
    specStream cfg b =
      match reqStep cfg b with
      | .more => ⟨[], .waiting⟩
      | .fail => ⟨[], .closed (!cfg.closing)⟩
      | .stall _ => ⟨[], .stalled⟩
      | .ub => ⟨[], .ub⟩
      | .respond r close rest =>
        if !close && cfg.keepAlive then (specStream cfg rest).cons r
        else ⟨[r], .closed (!cfg.closing)⟩ := by
  rw [specStream]
  split <;> rename_i h <;> rw [h]

end SimVerif.HttpServer
