/-
  C04 / C12 helper lemmas about UDP sockets (SimVerif/Net.lean): what the abort functions
  post (as explicit expressions of the handler slots), that no API function invokes a
  handler inline, that completing functions empty the slot they complete, and the
  conservation law "handler ids in slots + completions produced = ids before + new id".
-/
import SimVerif.Lemmas.HandlersBasic

namespace SimVerif

/-! ### vocabulary -/

/-- what `abort_recv_handlers()` posts: one `operation_aborted` for an outstanding receive,
    then one for an outstanding wait-for-read -/
def udpAbortRecvEffs (u : UdpSock) : List NEff :=
  (match u.recvH with
    | some op => [NEff.post { h := op.h, ec := .aborted, extra := "n=0" ++ (if op.withEp then " ep=0.0.0.0:0" else "") ++ " data=-" }]
    | none => [])
  ++ (match u.waitRecvH with
    | some h => [NEff.post { h := h, ec := .aborted }]
    | none => [])

/-- what `abort_send_handlers()` posts: one `operation_aborted` for a deferred wait-for-write -/
def udpAbortSendEffs (u : UdpSock) : List NEff :=
  match u.waitSendH with
  | some h => [NEff.post { h := h, ec := .aborted }]
  | none => []

/-- the handler ids a UDP socket holds in its three slots, in the order the aborts visit them -/
def UdpSock.slotIds (u : UdpSock) : List Nat :=
  (u.recvH.map (·.h)).toList ++ u.waitRecvH.toList ++ u.waitSendH.toList

/-- all three handler slots empty -/
def UdpSock.idle (u : UdpSock) : Prop := u.recvH = none ∧ u.waitRecvH = none ∧ u.waitSendH = none

namespace HL

/-! ### the abort functions as explicit expressions -/

theorem udp_abortRecv_eq (u : UdpSock) :
    u.abortRecv = ({ u with recvH := none, waitRecvH := none }, udpAbortRecvEffs u) := rfl

theorem udp_abortSend_eq (name : String) (u : UdpSock) :
    u.abortSend name = ({ u with waitSendH := none }, udpAbortSendEffs u ++ [.cancelTimer name 0]) := rfl

theorem udp_cancel_eq (name : String) (u : UdpSock) :
    u.cancel name = ({ u with recvH := none, waitRecvH := none, waitSendH := none },
      udpAbortRecvEffs u ++ (udpAbortSendEffs u ++ [.cancelTimer name 0]) ++ [.cancelTimer name 0]) := rfl

theorem postsOf_udpAbortRecvEffs (u : UdpSock) :
    (h4_postsOf (udpAbortRecvEffs u)).map (·.h) = (u.recvH.map (·.h)).toList ++ u.waitRecvH.toList
    ∧ (∀ c ∈ h4_postsOf (udpAbortRecvEffs u), c.ec = .aborted)
    ∧ noInvoke (udpAbortRecvEffs u) := by
  unfold udpAbortRecvEffs
  cases u.recvH <;> cases u.waitRecvH <;> simp [h4_postsOf, NEff.isInvoke]

theorem postsOf_udpAbortSendEffs (u : UdpSock) :
    (h4_postsOf (udpAbortSendEffs u)).map (·.h) = u.waitSendH.toList
    ∧ (∀ c ∈ h4_postsOf (udpAbortSendEffs u), c.ec = .aborted)
    ∧ noInvoke (udpAbortSendEffs u) := by
  unfold udpAbortSendEffs
  cases u.waitSendH <;> simp [h4_postsOf, NEff.isInvoke]

theorem effIds_udpAbortRecvEffs (u : UdpSock) :
    effIds (udpAbortRecvEffs u) = (u.recvH.map (·.h)).toList ++ u.waitRecvH.toList := by
  rw [effIds_noInvoke (postsOf_udpAbortRecvEffs u).2.2, (postsOf_udpAbortRecvEffs u).1]

theorem effIds_udpAbortSendEffs (u : UdpSock) : effIds (udpAbortSendEffs u) = u.waitSendH.toList := by
  rw [effIds_noInvoke (postsOf_udpAbortSendEffs u).2.2, (postsOf_udpAbortSendEffs u).1]

/-! ### never inline -/

theorem ni_udp_abortRecv (u : UdpSock) : noInvoke u.abortRecv.2 := (postsOf_udpAbortRecvEffs u).2.2

theorem ni_udp_abortSend (name : String) (u : UdpSock) : noInvoke (u.abortSend name).2 := by
  rw [udp_abortSend_eq]; simp [(postsOf_udpAbortSendEffs u).2.2, NEff.isInvoke]

theorem ni_udp_cancel (name : String) (u : UdpSock) : noInvoke (u.cancel name).2 := by
  rw [udp_cancel_eq]
  simp [(postsOf_udpAbortSendEffs u).2.2, (postsOf_udpAbortRecvEffs u).2.2, NEff.isInvoke]

theorem ni_udp_asyncReceive (u : UdpSock) (op : RecvOp) : noInvoke (u.asyncReceive op).2 := by
  unfold UdpSock.asyncReceive; dsimp only; split <;> simp [NEff.isInvoke]

theorem ni_udp_asyncWaitReceive (u : UdpSock) (h : Nat) : noInvoke (u.asyncWaitReceive h).2 := by
  unfold UdpSock.asyncWaitReceive; (repeat' split) <;> simp [NEff.isInvoke]

theorem ni_udp_maybeWakeup (u : UdpSock) : noInvoke u.maybeWakeup.2 := by
  unfold UdpSock.maybeWakeup
  (repeat' split) <;> simp [ni_udp_asyncReceive, ni_udp_asyncWaitReceive]

theorem ni_udp_incoming (u : UdpSock) (p : Pkt) : noInvoke (u.incoming p).2 := by
  unfold UdpSock.incoming; split <;> simp [ni_udp_maybeWakeup]

theorem ni_udpClose (n : NetSt) (name : String) : noInvoke (n.udpClose name).2 := by
  unfold NetSt.udpClose; split
  · simp
  · exact ni_udp_cancel _ _

theorem ni_udpOpen (n : NetSt) (name : String) (v4 : Bool) : noInvoke (n.udpOpen name v4).2 := by
  unfold NetSt.udpOpen; dsimp only; split <;> exact ni_udpClose _ _

theorem ni_udpCancel (n : NetSt) (name : String) : noInvoke (n.udpCancel name).2 := by
  unfold NetSt.udpCancel; split
  · simp
  · exact ni_udp_cancel _ _

theorem ni_udpAsyncRecv (n : NetSt) (name : String) (op : RecvOp) : noInvoke (n.udpAsyncRecv name op).2 := by
  unfold NetSt.udpAsyncRecv; split
  · simp
  · simp [ni_udp_abortRecv, ni_udp_asyncReceive]

theorem ni_udpWaitRead (n : NetSt) (name : String) (h : Nat) : noInvoke (n.udpWaitRead name h).2 := by
  unfold NetSt.udpWaitRead; split
  · simp
  · simp [ni_udp_abortRecv, ni_udp_asyncWaitReceive]

theorem ni_udpWaitWrite (n : NetSt) (now : Int) (name : String) (h : Nat) :
    noInvoke (n.udpWaitWrite now name h).2 := by
  unfold NetSt.udpWaitWrite; split
  · simp
  · dsimp only; split <;> simp [ni_udp_abortSend, NEff.isInvoke]

theorem ni_udpRecvNb (n : NetSt) (name : String) (caps : List Nat) : noInvoke (n.udpRecvNb name caps).2.1 := by
  unfold NetSt.udpRecvNb; split
  · simp
  · simp [ni_udp_abortRecv]

theorem ni_udpSendTo (n : NetSt) (now : Int) (name : String) (dst : Ep) (payload : List UInt8) :
    noInvoke (n.udpSendTo now name dst payload).2.1 := by
  unfold NetSt.udpSendTo; split
  · simp
  · dsimp only
    (repeat' split) <;> simp [ni_udp_abortSend, NEff.isInvoke]

/-! ### completing functions take the handler out of its slot -/

/-- `async_receive_from_impl`: either the operation is parked (slot = the new operation,
    nothing posted) or it completes: exactly one post, for this handler, slot empty. -/
theorem udp_asyncReceive_cases (u : UdpSock) (op : RecvOp) :
    ((u.asyncReceive op).1.recvH = some op ∧ (u.asyncReceive op).2 = [])
    ∨ ((u.asyncReceive op).1.recvH = none ∧ ∃ c, (u.asyncReceive op).2 = [.post c] ∧ c.h = op.h) := by
  unfold UdpSock.asyncReceive; dsimp only; split <;> simp

theorem udp_asyncReceive_other (u : UdpSock) (op : RecvOp) :
    (u.asyncReceive op).1.waitRecvH = u.waitRecvH ∧ (u.asyncReceive op).1.waitSendH = u.waitSendH := by
  unfold UdpSock.asyncReceive UdpSock.receiveFrom; dsimp only
  (repeat' split) <;> simp_all

/-- `async_wait_receive_impl`: parked (nothing posted) or exactly one post for this handler
    and the slot as it was. -/
theorem udp_asyncWaitReceive_cases (u : UdpSock) (h : Nat) :
    ((u.asyncWaitReceive h).1.waitRecvH = some h ∧ (u.asyncWaitReceive h).2 = [])
    ∨ ((u.asyncWaitReceive h).1 = u ∧ ∃ c, (u.asyncWaitReceive h).2 = [.post c] ∧ c.h = h) := by
  unfold UdpSock.asyncWaitReceive; (repeat' split) <;> simp

theorem udp_asyncWaitReceive_other (u : UdpSock) (h : Nat) :
    (u.asyncWaitReceive h).1.recvH = u.recvH ∧ (u.asyncWaitReceive h).1.waitSendH = u.waitSendH := by
  unfold UdpSock.asyncWaitReceive; (repeat' split) <;> simp

/-! ### conservation of handler ids -/

theorem udp_conserve_abortRecv (u : UdpSock) :
    (u.abortRecv.1.slotIds ++ effIds u.abortRecv.2).Perm u.slotIds := by
  rw [udp_abortRecv_eq]; dsimp only
  rw [effIds_udpAbortRecvEffs]
  unfold UdpSock.slotIds; dsimp only
  simp only [Option.map_none, Option.toList_none, List.nil_append]
  exact List.perm_append_comm

theorem udp_conserve_abortSend (name : String) (u : UdpSock) :
    ((u.abortSend name).1.slotIds ++ effIds (u.abortSend name).2).Perm u.slotIds := by
  rw [udp_abortSend_eq]; dsimp only
  rw [effIds_append, effIds_udpAbortSendEffs]
  unfold UdpSock.slotIds; dsimp only
  simp [effIds]

theorem udp_conserve_cancel (name : String) (u : UdpSock) :
    ((u.cancel name).1.slotIds ++ effIds (u.cancel name).2).Perm u.slotIds := by
  rw [udp_cancel_eq]; dsimp only
  simp only [effIds_append, effIds_udpAbortSendEffs, effIds_udpAbortRecvEffs]
  unfold UdpSock.slotIds; dsimp only
  simp [effIds]

theorem udp_cancel_idle (name : String) (u : UdpSock) : (u.cancel name).1.idle := by
  rw [udp_cancel_eq]; exact ⟨rfl, rfl, rfl⟩

theorem udp_conserve_asyncReceive (u : UdpSock) (op : RecvOp) (hfree : u.recvH = none) :
    ((u.asyncReceive op).1.slotIds ++ effIds (u.asyncReceive op).2).Perm (u.slotIds ++ [op.h]) := by
  have h2 := udp_asyncReceive_other u op
  unfold UdpSock.slotIds
  rw [h2.1, h2.2, hfree]
  rcases udp_asyncReceive_cases u op with ⟨h1, he⟩ | ⟨h1, c, he, hc⟩
  · rw [h1, he]
    simp only [Option.map_some, Option.toList_some, Option.map_none, Option.toList_none, effIds,
      List.append_nil, List.nil_append]
    perm_count
  · rw [h1, he]
    simp only [Option.map_none, Option.toList_none, effIds, List.nil_append, hc]
    exact List.Perm.refl _

theorem udp_conserve_asyncWaitReceive (u : UdpSock) (h : Nat) (hfree : u.waitRecvH = none) :
    ((u.asyncWaitReceive h).1.slotIds ++ effIds (u.asyncWaitReceive h).2).Perm (u.slotIds ++ [h]) := by
  have h2 := udp_asyncWaitReceive_other u h
  rcases udp_asyncWaitReceive_cases u h with ⟨h1, he⟩ | ⟨h1, c, he, hc⟩
  · unfold UdpSock.slotIds
    rw [h2.1, h2.2, hfree, h1, he]
    simp only [Option.toList_some, Option.toList_none, effIds, List.append_nil, List.nil_append]
    rw [List.append_assoc, List.append_assoc]
    exact List.Perm.append_left _ List.perm_append_comm
  · rw [h1, he]
    simp only [effIds, hc]
    exact List.Perm.refl _

theorem udp_conserve_maybeWakeup (u : UdpSock) :
    (u.maybeWakeup.1.slotIds ++ effIds u.maybeWakeup.2).Perm u.slotIds := by
  unfold UdpSock.maybeWakeup
  split
  · simp
  · split
    · split
      · rename_i h hw
        have := udp_conserve_asyncWaitReceive { u with waitRecvH := none } h rfl
        refine this.trans ?_
        unfold UdpSock.slotIds; dsimp only; rw [hw]
        simp only [Option.toList_some, Option.toList_none, List.append_nil]
        rw [List.append_assoc, List.append_assoc]
        exact List.Perm.append_left _ List.perm_append_comm
      · simp
    · split
      · rename_i op hr
        have := udp_conserve_asyncReceive { u with recvH := none } op rfl
        refine this.trans ?_
        unfold UdpSock.slotIds; dsimp only; rw [hr]
        simp only [Option.map_some, Option.toList_some, Option.map_none, Option.toList_none,
          List.nil_append]
        exact List.perm_append_comm
      · simp

theorem udp_conserve_incoming (u : UdpSock) (p : Pkt) :
    ((u.incoming p).1.slotIds ++ effIds (u.incoming p).2).Perm u.slotIds := by
  unfold UdpSock.incoming
  split
  · simp
  · exact udp_conserve_maybeWakeup _

/-- ids held by socket `name` of a network state (none if there is no such socket) -/
def udpIds (n : NetSt) (name : String) : List Nat :=
  match n.udp? name with
  | some u => u.slotIds
  | none => []

theorem udpIds_setUdp (n : NetSt) (name : String) (u : UdpSock) : udpIds (n.setUdp name u) name = u.slotIds := by
  simp [udpIds]

/-! ### the API functions on the socket `name` of a network state -/

/-- `close()`: the effects are the aborts of the three slots, in slot order, and the socket is
    left closed, unbound, detached, with all slots empty. -/
theorem udpClose_some (n : NetSt) (name : String) (u : UdpSock) (h : n.udp? name = some u) :
    (n.udpClose name).1.udp? name = some { u with bound := {}, isOpen := false, fwd := none, queue := [],
                                                  queueSize := 0, recvH := none, waitRecvH := none,
                                                  waitSendH := none }
    ∧ (n.udpClose name).2
        = udpAbortRecvEffs u ++ (udpAbortSendEffs u ++ [.cancelTimer name 0]) ++ [.cancelTimer name 0] := by
  unfold NetSt.udpClose
  rw [h]; dsimp only
  rw [udp_cancel_eq]
  exact ⟨by simp, rfl⟩

theorem udpCancel_some (n : NetSt) (name : String) (u : UdpSock) (h : n.udp? name = some u) :
    (n.udpCancel name).1.udp? name = some { u with recvH := none, waitRecvH := none, waitSendH := none }
    ∧ (n.udpCancel name).2
        = udpAbortRecvEffs u ++ (udpAbortSendEffs u ++ [.cancelTimer name 0]) ++ [.cancelTimer name 0] := by
  unfold NetSt.udpCancel
  rw [h]; dsimp only
  rw [udp_cancel_eq]
  exact ⟨by simp, rfl⟩

theorem udpOpen_some (n : NetSt) (name : String) (v4 : Bool) (u : UdpSock) (h : n.udp? name = some u) :
    (n.udpOpen name v4).1.udp? name = some { u with bound := {}, isOpen := true, isV4 := v4,
                                                    fwd := some (n.udpClose name).1.fwds.length, queue := [],
                                                    queueSize := 0, recvH := none, waitRecvH := none,
                                                    waitSendH := none }
    ∧ (n.udpOpen name v4).2 = (n.udpClose name).2 := by
  unfold NetSt.udpOpen
  dsimp only
  have hc := (udpClose_some n name u h).1
  rw [hc]; dsimp only
  exact ⟨by simp [NetSt.newFwd], rfl⟩

theorem udpBind_slots (n : NetSt) (name : String) (ep : Ep) (u : UdpSock) (h : n.udp? name = some u) :
    ∃ u', (n.udpBind name ep).1.udp? name = some u' ∧ u'.recvH = u.recvH ∧ u'.waitRecvH = u.waitRecvH
      ∧ u'.waitSendH = u.waitSendH := by
  unfold NetSt.udpBind
  rw [h]; dsimp only
  (repeat' split) <;> first
    | exact ⟨u, h, rfl, rfl, rfl⟩
    | exact ⟨u, by simpa [NetSt.udp?] using h, rfl, rfl, rfl⟩
    | exact ⟨_, setUdp_udp_same _ _ _, rfl, rfl, rfl⟩

theorem udpIds_of_some {n : NetSt} {name : String} {u : UdpSock} (h : n.udp? name = some u) :
    udpIds n name = u.slotIds := by simp [udpIds, h]

theorem slotIds_congr {u u' : UdpSock} (h1 : u'.recvH = u.recvH) (h2 : u'.waitRecvH = u.waitRecvH)
    (h3 : u'.waitSendH = u.waitSendH) : u'.slotIds = u.slotIds := by
  unfold UdpSock.slotIds; rw [h1, h2, h3]

theorem udp_conserve_udpClose (n : NetSt) (name : String) (u : UdpSock) (h : n.udp? name = some u) :
    (udpIds (n.udpClose name).1 name ++ effIds (n.udpClose name).2).Perm u.slotIds := by
  obtain ⟨h1, h2⟩ := udpClose_some n name u h
  rw [udpIds_of_some h1, h2]
  simp only [effIds_append, effIds_udpAbortSendEffs, effIds_udpAbortRecvEffs]
  unfold UdpSock.slotIds; dsimp only
  simp [effIds]

theorem udp_conserve_udpCancel (n : NetSt) (name : String) (u : UdpSock) (h : n.udp? name = some u) :
    (udpIds (n.udpCancel name).1 name ++ effIds (n.udpCancel name).2).Perm u.slotIds := by
  obtain ⟨h1, h2⟩ := udpCancel_some n name u h
  rw [udpIds_of_some h1, h2]
  simp only [effIds_append, effIds_udpAbortSendEffs, effIds_udpAbortRecvEffs]
  unfold UdpSock.slotIds; dsimp only
  simp [effIds]

theorem udp_conserve_udpOpen (n : NetSt) (name : String) (v4 : Bool) (u : UdpSock) (h : n.udp? name = some u) :
    (udpIds (n.udpOpen name v4).1 name ++ effIds (n.udpOpen name v4).2).Perm u.slotIds := by
  obtain ⟨h1, h2⟩ := udpOpen_some n name v4 u h
  rw [udpIds_of_some h1, h2, (udpClose_some n name u h).2]
  simp only [effIds_append, effIds_udpAbortSendEffs, effIds_udpAbortRecvEffs]
  unfold UdpSock.slotIds; dsimp only
  simp [effIds]

theorem udp_conserve_udpAsyncRecv (n : NetSt) (name : String) (op : RecvOp) (u : UdpSock)
    (h : n.udp? name = some u) :
    (udpIds (n.udpAsyncRecv name op).1 name ++ effIds (n.udpAsyncRecv name op).2).Perm (u.slotIds ++ [op.h]) := by
  unfold NetSt.udpAsyncRecv
  rw [h]; dsimp only
  rw [udpIds_setUdp, effIds_append]
  have h1 := udp_conserve_abortRecv u
  have h2 := udp_conserve_asyncReceive u.abortRecv.1 op rfl
  perm_omega h1 h2

theorem udp_conserve_udpWaitRead (n : NetSt) (name : String) (hd : Nat) (u : UdpSock)
    (h : n.udp? name = some u) :
    (udpIds (n.udpWaitRead name hd).1 name ++ effIds (n.udpWaitRead name hd).2).Perm (u.slotIds ++ [hd]) := by
  unfold NetSt.udpWaitRead
  rw [h]; dsimp only
  rw [udpIds_setUdp, effIds_append]
  have h1 := udp_conserve_abortRecv u
  have h2 := udp_conserve_asyncWaitReceive u.abortRecv.1 hd rfl
  perm_omega h1 h2

theorem udp_conserve_udpWaitWrite (n : NetSt) (now : Int) (name : String) (hd : Nat) (u : UdpSock)
    (h : n.udp? name = some u) :
    (udpIds (n.udpWaitWrite now name hd).1 name ++ effIds (n.udpWaitWrite now name hd).2).Perm
      (u.slotIds ++ [hd]) := by
  unfold NetSt.udpWaitWrite
  rw [h]; dsimp only
  have h1 := udp_conserve_abortSend name u
  rw [udp_abortSend_eq] at h1 ⊢
  dsimp only at h1 ⊢
  split
  · rw [udpIds_setUdp]
    simp only [effIds_append, effIds, List.append_nil] at h1 ⊢
    unfold UdpSock.slotIds at h1 ⊢
    dsimp only at h1 ⊢
    simp only [Option.toList_none, Option.toList_some, List.append_nil] at h1 ⊢
    perm_omega h1
  · rw [udpIds_setUdp]
    simp only [effIds_append, effIds, List.append_nil] at h1 ⊢
    perm_omega h1

theorem udp_conserve_udpRecvNb (n : NetSt) (name : String) (caps : List Nat) (u : UdpSock)
    (h : n.udp? name = some u) :
    (udpIds (n.udpRecvNb name caps).1 name ++ effIds (n.udpRecvNb name caps).2.1).Perm u.slotIds := by
  unfold NetSt.udpRecvNb
  rw [h]; dsimp only
  rw [udpIds_setUdp]
  have h1 := udp_conserve_abortRecv u
  have : (u.abortRecv.1.receiveFrom caps).1.slotIds = u.abortRecv.1.slotIds := by
    apply slotIds_congr <;> (unfold UdpSock.receiveFrom; (repeat' split) <;> rfl)
  rw [this]; exact h1

theorem udp_conserve_udpSendWaitFired (n : NetSt) (name : String) (ab : Bool) (u : UdpSock)
    (h : n.udp? name = some u) :
    (udpIds (n.udpSendWaitFired name ab).1 name ++ effIds (n.udpSendWaitFired name ab).2).Perm u.slotIds := by
  unfold NetSt.udpSendWaitFired
  rw [h]; dsimp only
  split
  · simp [udpIds_of_some h]
  · split
    · simp [udpIds_of_some h]
    · rename_i hd hw
      rw [udpIds_setUdp]
      unfold UdpSock.slotIds; dsimp only; rw [hw]
      simp [effIds]

theorem udpSendTo_effIds (n : NetSt) (now : Int) (name : String) (dst : Ep) (pl : List UInt8)
    (u : UdpSock) (h : n.udp? name = some u) :
    effIds (n.udpSendTo now name dst pl).2.1 = u.waitSendH.toList := by
  unfold NetSt.udpSendTo
  rw [h]; dsimp only
  rw [udp_abortSend_eq]; dsimp only
  (repeat' split) <;> simp [effIds_append, effIds, effIds_udpAbortSendEffs]

theorem udpSendTo_slots (n : NetSt) (now : Int) (name : String) (dst : Ep) (pl : List UInt8)
    (u : UdpSock) (h : n.udp? name = some u) :
    ∃ u', (n.udpSendTo now name dst pl).1.udp? name = some u' ∧ u'.recvH = u.recvH
      ∧ u'.waitRecvH = u.waitRecvH ∧ u'.waitSendH = none := by
  unfold NetSt.udpSendTo
  rw [h]; dsimp only
  rw [udp_abortSend_eq]; dsimp only
  -- the state after the optional implicit bind
  have key : ∀ (r : NetSt × Ec) (u1 : UdpSock), r.1.udp? name = some u1 → u1.recvH = u.recvH →
      u1.waitRecvH = u.waitRecvH → u1.waitSendH = none →
      ∃ u', (if (r.2 != Ec.ok) = true then (r.1, udpAbortSendEffs u ++ [NEff.cancelTimer name 0], r.2, 0)
        else match r.1.udp? name with
          | none => (r.1, udpAbortSendEffs u ++ [NEff.cancelTimer name 0], Ec.other, 0)
          | some u_1 =>
            if pl.length = 0 then (r.1, udpAbortSendEffs u ++ [NEff.cancelTimer name 0], Ec.invalid, 0)
            else if pl.length > 65535 then (r.1, udpAbortSendEffs u ++ [NEff.cancelTimer name 0], Ec.msgSize, 0)
            else if (u_1.df && decide (pl.length > r.1.cfg.pathMtu u_1.bound.addr dst.addr)) = true then
              (r.1, udpAbortSendEffs u ++ [NEff.cancelTimer name 0], Ec.ok, pl.length)
            else if u_1.nextSend - now > u_1.sendQueueTime then
              (r.1, udpAbortSendEffs u ++ [NEff.cancelTimer name 0], Ec.wouldBlock, 0)
            else match r.1.udpRoute u_1.bound dst with
              | none => (r.1, udpAbortSendEffs u ++ [NEff.cancelTimer name 0], Ec.ok, pl.length)
              | some hops =>
                (r.1.setUdp name { u_1 with nextSend := (if now ≤ u_1.nextSend then u_1.nextSend else now) + 10 * (↑pl.length + 28) },
                  udpAbortSendEffs u ++ [NEff.cancelTimer name 0] ++
                    (if r.1.cfg.pcap = true then [NEff.pcapUdp now u_1.bound dst pl] else []) ++
                    [NEff.forward { id := 0, ty := PType.payload, len := pl.length, ovh := 28, hops := hops,
                                    src := u_1.bound.toString, payload := pl }],
                  Ec.ok, pl.length)).1.udp? name = some u'
        ∧ u'.recvH = u.recvH ∧ u'.waitRecvH = u.waitRecvH ∧ u'.waitSendH = none := by
    intro r u1 h1 ha hb hc
    split
    · exact ⟨u1, h1, ha, hb, hc⟩
    · rw [h1]; dsimp only
      (repeat' split) <;> first
        | exact ⟨u1, h1, ha, hb, hc⟩
        | exact ⟨_, setUdp_udp_same _ _ _, ha, hb, hc⟩
  by_cases hd : u.bound.isDefault = true
  · simp only [hd, if_true]
    obtain ⟨u1, hu1, a, b, c⟩ := udpBind_slots (n.setUdp name { u with waitSendH := none }) name {}
      { u with waitSendH := none } (setUdp_udp_same _ _ _)
    exact key _ u1 hu1 a b c
  · simp only [hd]
    exact key (n.setUdp name { u with waitSendH := none }, Ec.ok) _ (setUdp_udp_same _ _ _) rfl rfl rfl

theorem udp_conserve_udpSendTo (n : NetSt) (now : Int) (name : String) (dst : Ep) (pl : List UInt8)
    (u : UdpSock) (h : n.udp? name = some u) :
    (udpIds (n.udpSendTo now name dst pl).1 name ++ effIds (n.udpSendTo now name dst pl).2.1).Perm u.slotIds := by
  obtain ⟨u', hu', a, b, c⟩ := udpSendTo_slots n now name dst pl u h
  rw [udpIds_of_some hu', udpSendTo_effIds n now name dst pl u h]
  unfold UdpSock.slotIds; rw [a, b, c]
  simp

end HL

end SimVerif
