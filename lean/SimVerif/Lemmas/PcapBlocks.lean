/-
  SimVerif.Lemmas.PcapBlocks — the shape of the effect list of EVERY TCP function that can reach
  `send_packet` (C19): a sequence of blocks, each of which is
    * a non-packet effect (completion, timer, control), or
    * a packet forwarded directly (`forward_packet`): SYN, SYN-ACK, ACK, RST — never captured, or
    * a `send_packet` block: the capture record iff capturing, immediately followed by the
      packet it describes (same payload, the packet stamped with the record's sequence number).
-/
import SimVerif.Lemmas.PcapSites
import SimVerif.Lemmas.HandlersTcpFns

namespace SimVerif

/-- neither a packet nor a TCP capture record -/
def NEff.plain : NEff → Bool
  | .forward _ => false
  | .pcapTcp .. => false
  | _ => true

/-- a packet of one of the `forward_packet` call sites of the TCP code -/
def directPkt (p : Pkt) : Prop :=
  p.ty = .syn ∨ p.ty = .synack ∨ p.ty = .ack ∨ (p.ty = .err ∧ p.ec = .reset)

inductive CapBlocks (pcap : Bool) (now : Int) : List NEff → Prop
  | nil : CapBlocks pcap now []
  | plain (e : NEff) (r : List NEff) : e.plain = true → CapBlocks pcap now r → CapBlocks pcap now (e :: r)
  | direct (p : Pkt) (r : List NEff) : directPkt p → CapBlocks pcap now r → CapBlocks pcap now (.forward p :: r)
  | sent (src dst : Ep) (seq : Nat) (p : Pkt) (r : List NEff) :
      CapBlocks pcap now r → CapBlocks pcap now (sendEffs pcap now src dst seq p ++ r)

theorem CapBlocks.append {pcap : Bool} {now : Int} {a b : List NEff}
    (ha : CapBlocks pcap now a) (hb : CapBlocks pcap now b) : CapBlocks pcap now (a ++ b) := by
  induction ha with
  | nil => exact hb
  | plain e r he _ ih => exact CapBlocks.plain e _ he ih
  | direct p r hp _ ih => exact CapBlocks.direct p _ hp ih
  | sent src dst seq p r _ ih => rw [List.append_assoc]; exact CapBlocks.sent src dst seq p _ ih

theorem CapBlocks.of_plain {pcap : Bool} {now : Int} {l : List NEff} (h : ∀ e ∈ l, e.plain = true) :
    CapBlocks pcap now l := by
  induction l with
  | nil => exact CapBlocks.nil
  | cons e r ih =>
    exact CapBlocks.plain e r (h e (List.mem_cons_self ..)) (ih (fun x hx => h x (List.mem_cons_of_mem _ hx)))

theorem CapBlocks.one_sent (pcap : Bool) (now : Int) (src dst : Ep) (seq : Nat) (p : Pkt) :
    CapBlocks pcap now (sendEffs pcap now src dst seq p) := by
  have := CapBlocks.sent (pcap := pcap) (now := now) src dst seq p [] CapBlocks.nil
  rwa [List.append_nil] at this

theorem CapBlocks.one_direct (pcap : Bool) (now : Int) (p : Pkt) (h : directPkt p) :
    CapBlocks pcap now [.forward p] := CapBlocks.direct p [] h CapBlocks.nil

/-- what the shape says about records: none when not capturing; when capturing, each record is
    immediately followed by a packet with the record's payload and sequence number, and every
    packet not preceded by its record is a SYN / SYN-ACK / ACK / RST -/
def RecThenPkt (pcap : Bool) (now : Int) : List NEff → Prop
  | [] => True
  | .pcapTcp t _ _ seq pl :: rest =>
    (match rest with
     | .forward p :: _ => pcap = true ∧ t = now ∧ seq = p.bc ∧ pl = p.payload
     | _ => False) ∧ RecThenPkt pcap now rest
  | _ :: rest => RecThenPkt pcap now rest

theorem CapBlocks.recThenPkt {pcap : Bool} {now : Int} {l : List NEff} (h : CapBlocks pcap now l) :
    RecThenPkt pcap now l := by
  induction h with
  | nil => trivial
  | plain e r he _ ih => cases e <;> first | exact ih | cases he
  | direct p r _ _ ih => exact ih
  | sent src dst seq p r _ ih =>
    cases pcap with
    | false => exact ih
    | true => exact ⟨⟨rfl, rfl, rfl, rfl⟩, ih⟩

/-- when capturing, a packet that is not immediately preceded by a record (`prev = false`) is a
    SYN / SYN-ACK / ACK / RST -/
def BarePkts (pcap : Bool) : Bool → List NEff → Prop
  | _, [] => True
  | _, .pcapTcp _ _ _ _ _ :: rest => BarePkts pcap true rest
  | prev, .forward p :: rest => (pcap = true → prev = false → directPkt p) ∧ BarePkts pcap false rest
  | _, _ :: rest => BarePkts pcap false rest

theorem CapBlocks.barePkts {pcap : Bool} {now : Int} {l : List NEff} (h : CapBlocks pcap now l) :
    BarePkts pcap false l := by
  induction h with
  | nil => trivial
  | plain e r he _ ih => cases e <;> first | exact ih | cases he
  | direct p r hp _ ih => exact ⟨fun _ _ => hp, ih⟩
  | sent src dst seq p r _ ih =>
    cases pcap with
    | false => exact ⟨fun h => (by cases h), ih⟩
    | true => exact ⟨fun _ h => (by cases h), ih⟩

theorem CapBlocks.no_record_when_off {now : Int} {l : List NEff} (h : CapBlocks false now l) : capsTcp l = [] := by
  induction h with
  | nil => rfl
  | plain e r he _ ih => cases e <;> first | exact ih | cases he
  | direct p r _ _ ih => exact ih
  | sent src dst seq p r _ ih => exact ih

/-- number of records = number of packets sent through `send_packet` ≤ number of packets -/
theorem CapBlocks.records_le_packets {pcap : Bool} {now : Int} {l : List NEff} (h : CapBlocks pcap now l) :
    (capsTcp l).length ≤ (s5_fwdsOf l).length := by
  induction h with
  | nil => exact Nat.le_refl _
  | plain e r he _ ih => cases e <;> first | exact ih | cases he
  | direct p r _ _ ih => exact Nat.le_succ_of_le ih
  | sent src dst seq p r _ ih =>
    rw [capsTcp_append, s5_fwdsOf_append, capsTcp_sendEffs, fwdsOf_sendEffs]
    cases pcap <;> simp <;> omega

/-! ### the functions -/

theorem plain_abortRecv (s : TcpSock) : ∀ e ∈ s.abortRecv.2, e.plain = true := by
  unfold TcpSock.abortRecv
  cases s.recvH <;> cases s.waitRecvH <;> simp [NEff.plain]

theorem plain_abortSend (s : TcpSock) : ∀ e ∈ s.abortSend.2, e.plain = true := by
  unfold TcpSock.abortSend
  cases s.sendH <;> simp [NEff.plain]

theorem plain_cancel (s : TcpSock) : ∀ e ∈ s.cancel.2, e.plain = true := by
  unfold TcpSock.cancel
  have h1 := plain_abortRecv s
  generalize s.abortRecv = r1 at h1 ⊢
  obtain ⟨s1, e1⟩ := r1
  dsimp only at h1 ⊢
  have h2 := plain_abortSend s1
  generalize s1.abortSend = r2 at h2 ⊢
  obtain ⟨s2, e2⟩ := r2
  dsimp only at h2 ⊢
  split
  · intro e he
    simp only [List.mem_append, List.mem_singleton] at he
    rcases he with (he | he) | rfl
    · exact h1 e he
    · exact h2 e he
    · rfl
  · intro e he
    simp only [List.mem_append] at he
    rcases he with he | he
    · exact h1 e he
    · exact h2 e he

theorem plain_abortAccept (s : TcpSock) : ∀ e ∈ s.abortAccept.2, e.plain = true := by
  unfold TcpSock.abortAccept
  split
  · simp
  · split
    · simp
    · rename_i op _
      intro e he
      simp only [List.mem_singleton] at he
      subst he
      cases op <;> rfl

theorem capBlocks_sendPacket (n : NetSt) (pc : Bool) (hpc : n.cfg.pcap = pc) (now : Int) (name : String) (p : Pkt) :
    CapBlocks pc now (n.tcpSendPacket now name p).2 := by
  subst hpc
  by_cases hd : Detached n name
  · rw [hd.sendPacket now p]; exact CapBlocks.nil
  · unfold Detached at hd
    cases hs : n.tcp? name with
    | none => rw [hs] at hd; exact absurd rfl hd
    | some s =>
      rw [hs] at hd
      simp only [Option.bind_some] at hd
      cases hc : s.chan with
      | none => rw [hc] at hd; exact absurd rfl hd
      | some cid =>
        rw [hc] at hd
        simp only [Option.bind_some] at hd
        cases hch : n.chan? cid with
        | none => exact absurd hch hd
        | some ch =>
          rw [tcpSendPacket_conn n now name p s cid ch hs hc hch]
          exact CapBlocks.one_sent _ _ _ _ _ _

theorem capBlocks_sendSeg (n : NetSt) (pc : Bool) (hpc : n.cfg.pcap = pc) (now : Int) (name : String)
    (hops : List String) (seg : List UInt8) : CapBlocks pc now (n.tcpSendSeg now name hops seg).2 := by
  cases hs : n.tcp? name with
  | none => rw [tcpSendSeg_none n now name hops seg hs]; exact CapBlocks.nil
  | some s =>
    rw [tcpSendSeg_eq n now name hops seg s hs]
    exact capBlocks_sendPacket _ pc (by exact hpc) now name _

theorem capBlocks_resendOne (n : NetSt) (pc : Bool) (hpc : n.cfg.pcap = pc) (now : Int) (name : String)
    (r : NetSt × List NEff) (h : n.tcpResendOne now name = some r) : CapBlocks pc now r.2 := by
  cases hs : n.tcp? name with
  | none => unfold NetSt.tcpResendOne at h; rw [hs] at h; cases h
  | some s =>
    rw [tcpResendOne_eq n now name s hs] at h
    split at h
    · cases h
    · split at h
      · cases h
      · split at h
        · cases h; exact capBlocks_sendPacket _ pc (by exact hpc) now name _
        · cases h

theorem capBlocks_close (n : NetSt) (pc : Bool) (hpc : n.cfg.pcap = pc) (now : Int) (name : String) :
    CapBlocks pc now (n.tcpClose now name).2 := by
  cases hs : n.tcp? name with
  | none => rw [tcpClose_none n now name hs]; exact CapBlocks.nil
  | some s0 =>
    rw [tcpClose_eq n now name s0 hs]
    obtain ⟨⟨s1, hs1⟩, _⟩ := closeHead_spec n now name s0 hs
    have hh : CapBlocks pc now (closeHead n now name s0).2 := by
      unfold closeHead
      split
      · exact CapBlocks.nil
      · dsimp only
        split
        · exact capBlocks_sendPacket _ pc (by exact hpc) now name _
        · exact CapBlocks.nil
    unfold closeTail
    simp only [hs1]
    generalize hx : ({ s1 with chan := none, bound := {}, isOpen := false, fwd := none, mss := 1475, cwnd := 2950, inFlight := 0, outstanding := [], inq := [], reorder := [], resend := [], recvNull := false, nextIn := 0, nextOut := 0, lastDrop := 0 } : TcpSock) = sx
    have hq := plain_cancel sx
    generalize sx.cancel = r at hq ⊢
    obtain ⟨s', e1⟩ := r
    exact hh.append (CapBlocks.of_plain hq)

/-! the configuration (hence the capture switch) is never touched -/

theorem tcpSendPacket_cfg (n : NetSt) (now : Int) (name : String) (p : Pkt) :
    (n.tcpSendPacket now name p).1.cfg = n.cfg := by
  unfold NetSt.tcpSendPacket
  split
  · rfl
  · split <;> rfl

theorem closeHead_cfg (n : NetSt) (now : Int) (name : String) (s0 : TcpSock) :
    (closeHead n now name s0).1.cfg = n.cfg := by
  unfold closeHead
  split
  · rfl
  · dsimp only
    split
    · exact tcpSendPacket_cfg _ now name _
    · rfl

theorem tcpClose_cfg (n : NetSt) (now : Int) (name : String) : (n.tcpClose now name).1.cfg = n.cfg := by
  cases hs : n.tcp? name with
  | none => rw [tcpClose_none n now name hs]
  | some s0 =>
    rw [tcpClose_eq n now name s0 hs]
    obtain ⟨⟨s1, hs1⟩, _⟩ := closeHead_spec n now name s0 hs
    obtain ⟨n2, s', e1, he, _, _, _, hcfg, _⟩ := closeTail_eq (closeHead n now name s0).1 name (closeHead n now name s0).2 s1 hs1
    rw [he]
    show n2.cfg = _
    rw [hcfg, closeHead_cfg]

theorem tcpOpen_effs (n : NetSt) (now : Int) (name : String) (v4 : Bool) :
    (n.tcpOpen now name v4).2 = (n.tcpClose now name).2 ∧ (n.tcpOpen now name v4).1.cfg = n.cfg := by
  unfold NetSt.tcpOpen
  have hc := tcpClose_cfg n now name
  generalize n.tcpClose now name = r at hc ⊢
  obtain ⟨n1, e⟩ := r
  dsimp only at hc ⊢
  split
  · exact ⟨rfl, hc⟩
  · exact ⟨rfl, hc⟩

theorem capBlocks_open (n : NetSt) (pc : Bool) (hpc : n.cfg.pcap = pc) (now : Int) (name : String) (v4 : Bool) :
    CapBlocks pc now (n.tcpOpen now name v4).2 := by
  rw [(tcpOpen_effs n now name v4).1]; exact capBlocks_close n pc hpc now name

theorem capBlocks_attach (n : NetSt) (pc : Bool) (hpc : n.cfg.pcap = pc) (now : Int) (peer : String) (ep : Ep) (cid : Nat) :
    CapBlocks pc now (n.tcpAttach now peer ep cid).2 := by
  unfold NetSt.tcpAttach
  split
  · exact CapBlocks.nil
  · rename_i p0 _
    have h := capBlocks_open n pc hpc now peer p0.isV4
    generalize n.tcpOpen now peer p0.isV4 = r at h ⊢
    obtain ⟨n1, e0⟩ := r
    dsimp only at h ⊢
    split <;> exact h

theorem capBlocks_internalConnect (pc : Bool) (now : Int) (n : NetSt) (name : String) (target : Ep) :
    CapBlocks pc now (n.internalConnect name target).2.1 := by
  unfold NetSt.internalConnect
  splits
  all_goals first
    | exact CapBlocks.nil
    | exact CapBlocks.one_direct _ _ _ (Or.inl rfl)

theorem capBlocks_connectFin (pc : Bool) (now : Int) (n : NetSt) (name : String) (target : Ep) (h : Nat)
    (e0 : List NEff) (ecb : Ec) (h0 : CapBlocks pc now e0) :
    CapBlocks pc now (tcpConnectFin n name target h e0 ecb).2 := by
  unfold tcpConnectFin
  split
  · exact h0.append (CapBlocks.of_plain (by simp [NEff.plain]))
  · split
    · exact h0
    · split
      · exact h0.append (CapBlocks.of_plain (by simp [NEff.plain]))
      · have h1 := capBlocks_internalConnect pc now n name target
        generalize n.internalConnect name target = r at h1 ⊢
        obtain ⟨n1, e1, cid⟩ := r
        dsimp only at h1 ⊢
        split
        · exact h0
        · split
          · exact (h0.append h1).append (CapBlocks.of_plain (by simp [NEff.plain]))
          · exact h0.append h1

/-- `async_connect`: a closed socket is opened first (`open` → `close`: nothing to announce),
    then the SYN goes out directly -/
theorem capBlocks_connect (n : NetSt) (pc : Bool) (hpc : n.cfg.pcap = pc) (now : Int) (name : String) (target : Ep) (h : Nat) :
    CapBlocks pc now (n.tcpConnect now name target h).2 := by
  rw [HL.tcpConnect_eq]
  split
  · exact CapBlocks.nil
  · rename_i s0 _
    have hA : CapBlocks pc now (if (!s0.isOpen) = true then n.tcpOpen now name target.isV4 else (n, [])).2 := by
      split
      · exact capBlocks_open n pc hpc _ _ _
      · exact CapBlocks.nil
    generalize (if (!s0.isOpen) = true then n.tcpOpen now name target.isV4 else (n, [])) = a at hA
    dsimp only
    split
    · exact hA
    · exact capBlocks_connectFin _ now _ name target h _ _ hA

theorem capBlocks_rsts (pc : Bool) (now : Int) (n : NetSt) (src : String) (l : List Nat) :
    CapBlocks pc now (l.filterMap (fun c => (n.chan? c).map (fun ch =>
      NEff.forward { id := 0, ty := .err, ec := .reset, len := 0, ovh := 28, hops := ch.hops0, src := src }))) := by
  induction l with
  | nil => exact CapBlocks.nil
  | cons c r ih =>
    rw [List.filterMap_cons]
    cases n.chan? c with
    | none => exact ih
    | some ch => exact CapBlocks.direct _ _ (Or.inr (Or.inr (Or.inr ⟨rfl, rfl⟩))) ih

theorem capBlocks_accResetClosed (pc : Bool) (now : Int) (n : NetSt) (name : String) (s0 : TcpSock) (a0 : AccState) :
    CapBlocks pc now (accResetClosed n name s0 a0).2 ∧ (accResetClosed n name s0 a0).1.cfg = n.cfg := by
  unfold accResetClosed
  split
  · dsimp only
    have h := plain_abortAccept { s0 with acc := some { a0 with conns := [] } }
    generalize TcpSock.abortAccept { s0 with acc := some { a0 with conns := [] } } = r at h ⊢
    obtain ⟨s, ea⟩ := r
    exact ⟨(capBlocks_rsts pc now n _ _).append (CapBlocks.of_plain h), rfl⟩
  · exact ⟨CapBlocks.nil, rfl⟩

theorem capBlocks_accTryAccept (n : NetSt) (pc : Bool) (hpc : n.cfg.pcap = pc) (now : Int) (name : String) :
    CapBlocks pc now (accTryAccept n now name).2 := by
  unfold accTryAccept
  cases hs : n.tcp? name with
  | none => exact CapBlocks.nil
  | some s =>
    dsimp only
    cases ha : s.acc with
    | none => exact CapBlocks.nil
    | some a =>
      dsimp only
      cases hop : a.acceptOp with
      | none => exact CapBlocks.nil
      | some op =>
        cases hcs : a.conns with
        | nil => exact CapBlocks.nil
        | cons c rest =>
          cases op with
          | into hh pn w =>
            have h1 := capBlocks_attach (n.setTcp name { s with acc := some { a with conns := rest, acceptOp := none } }) pc (by exact hpc) now pn s.bound c
            dsimp only
            generalize (n.setTcp name { s with acc := some { a with conns := rest, acceptOp := none } }).tcpAttach now pn s.bound c = r at h1 ⊢
            obtain ⟨n1, e1⟩ := r
            dsimp only at h1 ⊢
            split
            · exact h1
            · exact h1.append (CapBlocks.direct _ _ (Or.inr (Or.inl rfl)) (CapBlocks.of_plain (by simp [NEff.plain])))
          | fresh hh nn =>
            have h1 := capBlocks_attach (n.setTcp name { s with acc := some { a with conns := rest, acceptOp := none } }) pc (by exact hpc) now nn s.bound c
            dsimp only
            generalize (n.setTcp name { s with acc := some { a with conns := rest, acceptOp := none } }).tcpAttach now nn s.bound c = r at h1 ⊢
            obtain ⟨n1, e1⟩ := r
            dsimp only at h1 ⊢
            split
            · exact h1
            · exact h1.append (CapBlocks.direct _ _ (Or.inr (Or.inl rfl)) (CapBlocks.of_plain (by simp [NEff.plain])))

/-- `check_accept_queue()`: the RSTs of a closed acceptor and the SYN-ACK go out directly; only
    the `close()` of the socket accepted into may announce an end of stream through
    `send_packet` -/
theorem capBlocks_accCheckQueue (n : NetSt) (pc : Bool) (hpc : n.cfg.pcap = pc) (now : Int) (name : String) :
    CapBlocks pc now (n.accCheckQueue now name).2 := by
  rw [HL.accCheckQueue_eq]
  split
  · exact CapBlocks.nil
  · rename_i s0 _
    split
    · exact CapBlocks.nil
    · rename_i a0 _
      dsimp only
      obtain ⟨h1, h2⟩ := capBlocks_accResetClosed pc now n name s0 a0
      exact h1.append (capBlocks_accTryAccept _ pc (by rw [h2]; exact hpc) now name)

theorem capBlocks_accIncoming (n : NetSt) (pc : Bool) (hpc : n.cfg.pcap = pc) (now : Int) (name : String) (p : Pkt) :
    CapBlocks pc now (n.accIncoming now name p).2 := by
  unfold NetSt.accIncoming
  split
  · split
    · exact capBlocks_accCheckQueue _ pc (by exact hpc) now name
    · exact CapBlocks.nil
  · dsimp only
    exact CapBlocks.of_plain (plain_abortAccept _)
  · exact CapBlocks.nil

theorem capBlocks_accAcceptPrep (n : NetSt) (pc : Bool) (hpc : n.cfg.pcap = pc) (now : Int) (name : String) (op : AcceptOp) :
    CapBlocks pc now (accAcceptPrep n now name op).2 ∧ (accAcceptPrep n now name op).1.cfg = n.cfg := by
  unfold accAcceptPrep
  splits
  all_goals first
    | exact ⟨CapBlocks.nil, rfl⟩
    | exact ⟨capBlocks_close _ pc hpc _ _, tcpClose_cfg _ _ _⟩

theorem capBlocks_accAsyncAccept (n : NetSt) (pc : Bool) (hpc : n.cfg.pcap = pc) (now : Int) (name : String) (op : AcceptOp) :
    CapBlocks pc now (n.accAsyncAccept now name op).2 := by
  rw [HL.accAsyncAccept_eq]
  obtain ⟨h0, hc⟩ := capBlocks_accAcceptPrep n pc hpc now name op
  split
  · exact h0
  · rename_i s _
    split
    · exact h0.append (CapBlocks.of_plain (plain_abortAccept s))
    · rename_i a _
      dsimp only
      exact (h0.append (CapBlocks.of_plain (plain_abortAccept s))).append
        (capBlocks_accCheckQueue _ pc (by show (accAcceptPrep n now name op).1.cfg.pcap = pc; rw [hc]; exact hpc) now name)

theorem capBlocks_accClose (n : NetSt) (pc : Bool) (hpc : n.cfg.pcap = pc) (now : Int) (name : String) :
    CapBlocks pc now (n.accClose now name).2 := by
  unfold NetSt.accClose
  split
  · exact CapBlocks.nil
  · rename_i s _
    dsimp only
    have key : ∀ sx : TcpSock, CapBlocks pc now (sx.abortAccept.2 ++ ((n.setTcp name sx.abortAccept.1).tcpClose now name).2
        ++ (((n.setTcp name sx.abortAccept.1).tcpClose now name).1.accCheckQueue now name).2) := by
      intro sx
      have h1 := plain_abortAccept sx
      have h2 := capBlocks_close (n.setTcp name sx.abortAccept.1) pc hpc now name
      have hc := tcpClose_cfg (n.setTcp name sx.abortAccept.1) now name
      have h3 := capBlocks_accCheckQueue ((n.setTcp name sx.abortAccept.1).tcpClose now name).1 pc
        (by rw [hc]; exact hpc) now name
      exact ((CapBlocks.of_plain h1).append h2).append h3
    exact key _

theorem capBlocks_tcpIncoming (pc : Bool) (tp : TParams) (n : NetSt) (now : Int) (name : String) (p : Pkt) :
    CapBlocks pc now (n.tcpIncoming tp now name p).2 := by
  have hw : ∀ s : TcpSock, ∀ e ∈ (s.maybeWakeupReader tp).2, e.plain = true := by
    intro s
    unfold TcpSock.maybeWakeupReader TcpSock.asyncWaitReadImpl TcpSock.asyncReadImpl
    dsimp only
    splits <;> simp [NEff.plain]
  unfold NetSt.tcpIncoming
  split
  · exact CapBlocks.nil
  · rename_i s hs
    split
    · exact CapBlocks.nil
    · exact CapBlocks.nil
    · exact CapBlocks.of_plain (by simp [NEff.plain])
    · split
      · exact CapBlocks.nil
      · exact CapBlocks.of_plain (by simp [NEff.plain])
    · split
      · exact CapBlocks.nil
      · dsimp only
        split
        · exact CapBlocks.one_direct _ _ _ (Or.inr (Or.inr (Or.inl rfl)))
        · generalize drainReorder (s.reorder.length + 1) (s.nextIn + 1) s.reorder (s.inq ++ [p]) = d
          obtain ⟨nx, ro, q⟩ := d
          dsimp only
          have h2 := hw { s with nextIn := nx, reorder := ro, inq := q }
          generalize TcpSock.maybeWakeupReader tp { s with nextIn := nx, reorder := ro, inq := q } = r at h2
          obtain ⟨s2, e2⟩ := r
          exact CapBlocks.direct _ _ (Or.inr (Or.inr (Or.inl rfl))) (CapBlocks.of_plain h2)

end SimVerif
