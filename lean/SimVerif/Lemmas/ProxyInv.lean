/-
  SimVerif.Lemmas.ProxyInv — the invariant of the open proxy system `PS` (SimVerif/HttpProxySys.lean)
  and its preservation by every event the environment may deliver.
-/
import SimVerif.HttpProxySys
import SimVerif.Lemmas.ProxyMem
import SimVerif.Lemmas.ProxyScan
import SimVerif.Lemmas.HttpParse

namespace SimVerif.HttpProxy

open SimVerif.Http

structure PSInv (s : PS) : Prop where
  no_ub     : s.ub = false
  nCin_le   : s.p.nCin ≤ BUF
  nSout_le  : s.p.nSout ≤ BUF
  read_at   : ∀ off cap ses, s.clientRead = some (off, cap, ses) →
                off = s.p.nCin ∧ cap = BUF - s.p.nCin ∧ s.p.nCin < BUF ∧ ses = s.p.session
  idle_zero : s.clientRead = none → s.p.nCin = 0
  acc_idle  : s.accepting = true → s.clientRead = none
  ses_res   : ∀ ses, s.resolving = some ses → ses = s.p.session
  ses_conn  : ∀ ses, s.connectingOp = some ses → ses = s.p.session
  ses_sw    : ∀ w ses, s.serverWrite = some (w, ses) → ses = s.p.session
  ses_sr    : ∀ ses, s.serverRead = some ses → ses = s.p.session
  ses_cw    : ∀ k ses, s.clientWrite = some (k, ses) → ses = s.p.session
  fifo      : s.toOrigin ++ view s.p.sout s.p.nSout = s.queued
  write_buf : ∀ w ses, s.serverWrite = some (w, ses) →
                s.p.writing = true ∧ w.length ≤ s.p.nSout ∧ w = (view s.p.sout s.p.nSout).take w.length
  scanned   : ∃ l, scan (s.fromClient.length + 1) s.fromClient = (l, some (view s.p.cin s.p.nCin)) ∧ s.queued = outs l
  relay     : s.toClient = s.fromOrigin
  live      : s.p.close = false → (s.accepting = true ∨ s.clientRead.isSome = true)
  stopped   : s.p.close = true → s.accepting = false

theorem scan_nil : scan 1 [] = ([], some []) := by
  simp [scan, findRequestLen, find, findLoop, CRLFCRLF]

theorem PSInv_init (port : Nat) : PSInv (PS.init port) := by
  constructor <;> simp [PS.init, PS.apply, PS.acts, PS.act, construct, view, padTo, scan_nil, outs, BUF]


@[simp] theorem PS.acts_nil (s : PS) : s.acts [] = s := rfl
@[simp] theorem PS.acts_cons (s : PS) (a : Act) (l : List Act) : s.acts (a :: l) = (s.act a).acts l := rfl
theorem PS.acts_append (s : PS) (l1 l2 : List Act) : s.acts (l1 ++ l2) = (s.acts l1).acts l2 := by
  simp [PS.acts, List.foldl_append]

/-- `close_connection()` re-establishes the invariant from almost nothing -/
theorem PSInv_closeConnection (s : PS) (p' : Px) (hub : s.ub = false) (hst : p'.close = true → s.accepting = false) :
    PSInv (s.apply (closeConnection p')) := by
  by_cases hc : p'.close = true
  · have ha := hst hc
    constructor <;> simp [PS.apply, PS.act, closeConnection, hc, ha, hub, scan_nil, outs, BUF]
  · have hc' : p'.close = false := by simpa using hc
    constructor <;> simp [PS.apply, PS.act, closeConnection, hc', hub, scan_nil, outs, BUF]

theorem stale_false (p : Px) (ec : Ec) (h : ec ≠ .aborted) : stale p p.session ec = false := by
  simp [stale, h]

theorem PSInv_accepted (lit : Bytes → Option Bool) (s : PS) (h : PSInv s) (ec : Ec) (hok : s.ok (.accepted ec)) :
    PSInv (s.step lit (.accepted ec)) := by
  obtain ⟨hacc, hna⟩ := hok
  have hcr := h.acc_idle hacc
  have hz := h.idle_zero hcr
  simp only [PS.step, onAccept, hna, if_false]
  by_cases hec : ec = .ok
  · subst hec
    simp only [ne_eq, not_true_eq_false, if_false]
    obtain ⟨h1, h2, h3, h4, h5, h6, h7, h8, h9, h10, h11, h12, h13, h14, h15, h16, h17⟩ := h
    constructor
    case read_at =>
      intro off cap ses hh
      simp only [PS.apply, PS.acts_cons, PS.acts_nil, PS.act, Option.some.injEq, Prod.mk.injEq] at hh
      obtain ⟨rfl, rfl, rfl⟩ := hh
      simp [PS.apply, PS.act, hz, BUF]
    all_goals (simp only [PS.apply, PS.acts_cons, PS.acts_nil, PS.act]; first | assumption | simp)
  · simp only [ne_eq, hec, not_false_eq_true, if_true]
    exact PSInv_closeConnection _ _ h.no_ub (by simp)


theorem PSInv_clientErr (lit : Bytes → Option Bool) (s : PS) (h : PSInv s) (ec : Ec) (hok : s.ok (.clientErr ec)) :
    PSInv (s.step lit (.clientErr ec)) := by
  obtain ⟨hsome, hne, hna⟩ := hok
  match hcr : s.clientRead with
  | none => simp [hcr] at hsome
  | some (off, cap, ses) =>
    obtain ⟨rfl, -, hlt, rfl⟩ := h.read_at off cap ses hcr
    simp only [PS.step, hcr, onReadRequest]
    rw [memWrite_ok _ _ _ (by simp; omega)]
    simp only [stale_false _ _ hna, Bool.false_eq_true, if_false, ne_eq, hne, not_false_eq_true, if_true]
    exact PSInv_closeConnection _ _ h.no_ub (by simpa using h.stopped)


theorem resp503Lookup_len : (sendResponse 503 MSG_RESOURCE).length ≤ BUF := by decide
theorem resp503Connect_len : (sendResponse 503 MSG_SERVICE).length ≤ BUF := by decide

theorem error_eq (p : Px) (code : Nat) (msg : Bytes) (h : (sendResponse code msg).length ≤ BUF) :
    error p code msg = ({ p with inb := written p.inb 0 (sendResponse code msg) },
                        [.writeClient (sendResponse code msg) .closeConn p.session]) := by
  unfold error
  simp only []
  rw [memWrite_ok _ _ _ (by simpa using h)]

/-- closes the goals of an invariant clause that the event did not touch -/
macro "inv_rest" : tactic =>
  `(tactic| all_goals (simp only [PS.apply, PS.acts_cons, PS.acts_nil, PS.act]; first | assumption | simp))

theorem PSInv_lookup (lit : Bytes → Option Bool) (s : PS) (h : PSInv s) (ec : Ec) (ips : List (Bytes × Nat × Bool))
    (hok : s.ok (.lookup ec ips)) : PSInv (s.step lit (.lookup ec ips)) := by
  obtain ⟨hsome, hna⟩ := hok
  match hr : s.resolving with
  | none => simp [hr] at hsome
  | some ses =>
    obtain rfl := h.ses_res ses hr
    simp only [PS.step, hr, onDomainLookup, stale_false _ _ hna, Bool.false_eq_true, if_false]
    obtain ⟨h1, h2, h3, h4, h5, h6, h7, h8, h9, h10, h11, h12, h13, h14, h15, h16, h17⟩ := h
    have hfail : PSInv (({ s with resolving := none }).apply (error { s.p with connecting := false } 503 MSG_RESOURCE)) := by
      rw [error_eq _ _ _ resp503Lookup_len]
      constructor
      case ses_cw =>
        intro k ses hh
        simp only [PS.apply, PS.acts_cons, PS.acts_nil, PS.act, Option.some.injEq, Prod.mk.injEq] at hh
        simp [PS.apply, PS.act, hh.2]
      inv_rest
    match ips with
    | [] => exact hfail
    | (a, port, v4) :: rest =>
      simp only []
      by_cases hec : ec = .ok
      · subst hec
        simp only [ne_eq, not_true_eq_false, if_false, openForward]
        constructor
        case ses_conn =>
          intro ses hh
          simp only [PS.apply, PS.acts_cons, PS.acts_nil, PS.act, Option.some.injEq] at hh
          simp [PS.apply, PS.act, hh]
        inv_rest
      · simp only [ne_eq, hec, not_false_eq_true, if_true]
        exact hfail


theorem wssb_writing (p : Px) (h : p.writing = true) : writeServerSendBuffer p = (p, []) := by
  simp [writeServerSendBuffer, h]

theorem wssb_idle (p : Px) (hw : p.writing = false) (h : p.nSout ≤ BUF) :
    writeServerSendBuffer p = ({ p with writing := true }, [.writeServer (view p.sout p.nSout) p.session]) := by
  simp [writeServerSendBuffer, hw, memRead_zero _ _ h]

theorem PSInv_connected (lit : Bytes → Option Bool) (s : PS) (h : PSInv s) (ec : Ec)
    (hok : s.ok (.connected ec)) : PSInv (s.step lit (.connected ec)) := by
  obtain ⟨hsome, hna⟩ := hok
  match hr : s.connectingOp with
  | none => simp [hr] at hsome
  | some ses =>
    obtain rfl := h.ses_conn ses hr
    simp only [PS.step, hr, onConnected, stale_false _ _ hna, Bool.false_eq_true, if_false]
    obtain ⟨h1, h2, h3, h4, h5, h6, h7, h8, h9, h10, h11, h12, h13, h14, h15, h16, h17⟩ := h
    by_cases hec : ec = .ok
    · subst hec
      simp only [ne_eq, not_true_eq_false, if_false]
      by_cases hw : s.p.writing = true
      · rw [wssb_writing _ (by simpa using hw)]
        simp only [List.nil_append]
        constructor
        case ses_sr =>
          intro ses hh
          simp only [PS.apply, PS.acts_cons, PS.acts_nil, PS.act, Option.some.injEq] at hh
          simp [PS.apply, PS.act, hh]
        inv_rest
      · have hw' : s.p.writing = false := by simpa using hw
        rw [wssb_idle _ (by simpa using hw') (by simpa using h3)]
        simp only [List.cons_append, List.nil_append]
        constructor
        case ses_sr =>
          intro ses hh
          simp only [PS.apply, PS.acts_cons, PS.acts_nil, PS.act, Option.some.injEq] at hh
          simp [PS.apply, PS.act, hh]
        case ses_sw =>
          intro w ses hh
          simp only [PS.apply, PS.acts_cons, PS.acts_nil, PS.act, Option.some.injEq, Prod.mk.injEq] at hh
          simp [PS.apply, PS.act, hh.2]
        case write_buf =>
          intro w ses hh
          simp only [PS.apply, PS.acts_cons, PS.acts_nil, PS.act, Option.some.injEq, Prod.mk.injEq] at hh
          obtain ⟨rfl, rfl⟩ := hh
          simp [PS.apply, PS.act]
          exact (List.take_of_length_le (by simp)).symm
        inv_rest
    · simp only [ne_eq, hec, not_false_eq_true, if_true]
      rw [error_eq _ _ _ resp503Connect_len]
      constructor
      case ses_cw =>
        intro k ses hh
        simp only [PS.apply, PS.acts_cons, PS.acts_nil, PS.act, Option.some.injEq, Prod.mk.injEq] at hh
        simp [PS.apply, PS.act, hh.2]
      inv_rest


theorem PSInv_serverWriteErr (lit : Bytes → Option Bool) (s : PS) (h : PSInv s) (ec : Ec)
    (hok : s.ok (.serverWriteErr ec)) : PSInv (s.step lit (.serverWriteErr ec)) := by
  obtain ⟨hsome, hne, hna⟩ := hok
  match hr : s.serverWrite with
  | none => simp [hr] at hsome
  | some (w, ses) =>
    obtain rfl := h.ses_sw w ses hr
    simp only [PS.step, hr, onServerWrite, stale_false _ _ hna, Bool.false_eq_true, if_false, ne_eq, hne,
      not_false_eq_true, if_true]
    exact PSInv_closeConnection _ _ h.no_ub (by simpa using h.stopped)

theorem PSInv_serverErr (lit : Bytes → Option Bool) (s : PS) (h : PSInv s) (ec : Ec)
    (hok : s.ok (.serverErr ec)) : PSInv (s.step lit (.serverErr ec)) := by
  obtain ⟨hsome, hne, hna⟩ := hok
  match hr : s.serverRead with
  | none => simp [hr] at hsome
  | some ses =>
    obtain rfl := h.ses_sr ses hr
    simp only [PS.step, hr, onServerReceive]
    rw [memWrite_ok _ _ _ (by simp)]
    simp only [stale_false _ _ hna, Bool.false_eq_true, if_false, ne_eq, hne, not_false_eq_true, if_true]
    exact PSInv_closeConnection _ _ h.no_ub (by simpa using h.stopped)

theorem PSInv_errWritten (lit : Bytes → Option Bool) (s : PS) (h : PSInv s) (ec : Ec)
    (hok : s.ok (.errWritten ec)) : PSInv (s.step lit (.errWritten ec)) := by
  obtain ⟨⟨ses, hr⟩, hna⟩ := hok
  obtain rfl := h.ses_cw _ ses hr
  simp only [PS.step, hr, onErrorWritten, stale_false _ _ hna, Bool.false_eq_true, if_false]
  exact PSInv_closeConnection _ _ h.no_ub (by simpa using h.stopped)

theorem PSInv_clientWritten (lit : Bytes → Option Bool) (s : PS) (h : PSInv s) (ec : Ec)
    (hok : s.ok (.clientWritten ec)) : PSInv (s.step lit (.clientWritten ec)) := by
  obtain ⟨⟨ses, hr⟩, hna⟩ := hok
  obtain rfl := h.ses_cw _ ses hr
  simp only [PS.step, hr, onServerForward, stale_false _ _ hna, Bool.false_eq_true, if_false]
  by_cases hec : ec = .ok
  · subst hec
    simp only [ne_eq, not_true_eq_false, if_false]
    obtain ⟨h1, h2, h3, h4, h5, h6, h7, h8, h9, h10, h11, h12, h13, h14, h15, h16, h17⟩ := h
    constructor
    case ses_sr =>
      intro ses hh
      simp only [PS.apply, PS.acts_cons, PS.acts_nil, PS.act, Option.some.injEq] at hh
      simp [PS.apply, PS.act, hh]
    inv_rest
  · simp only [ne_eq, hec, not_false_eq_true, if_true]
    exact PSInv_closeConnection _ _ h.no_ub (by simpa using h.stopped)

theorem PSInv_stop (lit : Bytes → Option Bool) (s : PS) (h : PSInv s) : PSInv (s.step lit .stop) := by
  simp only [PS.step, stop]
  obtain ⟨h1, h2, h3, h4, h5, h6, h7, h8, h9, h10, h11, h12, h13, h14, h15, h16, h17⟩ := h
  constructor
  inv_rest

theorem PSInv_serverData (lit : Bytes → Option Bool) (s : PS) (h : PSInv s) (d : Bytes)
    (hok : s.ok (.serverData d)) : PSInv (s.step lit (.serverData d)) := by
  obtain ⟨hsome, hpos, hle⟩ := hok
  match hr : s.serverRead with
  | none => simp [hr] at hsome
  | some ses =>
    obtain rfl := h.ses_sr ses hr
    simp only [PS.step, hr, onServerReceive]
    rw [memWrite_ok _ _ _ (by simpa using hle)]
    simp only [stale_false _ _ (by decide : Ec.ok ≠ Ec.aborted), Bool.false_eq_true, if_false, ne_eq, not_true_eq_false]
    rw [memRead_zero _ _ hle, view_written_zero]
    obtain ⟨h1, h2, h3, h4, h5, h6, h7, h8, h9, h10, h11, h12, h13, h14, h15, h16, h17⟩ := h
    constructor
    case ses_cw =>
      intro k ses hh
      simp only [PS.apply, PS.acts_cons, PS.acts_nil, PS.act, Option.some.injEq, Prod.mk.injEq] at hh
      simp [PS.apply, PS.act, hh.2]
    case relay => simp [PS.apply, PS.act, h15]
    inv_rest


/-- the arithmetic of `on_server_write(success, n)` when `n` bytes of the buffer were accepted -/
theorem onServerWrite_ok (p : Px) (n : Nat) (hn : n ≤ p.nSout) (hb : p.nSout ≤ BUF) :
    onServerWrite p p.session .ok n =
      (let p2 : Px := { p with writing := false, sout := written p.sout 0 ((view p.sout p.nSout).drop n), nSout := p.nSout - n }
       if p2.nSout > 0 then writeServerSendBuffer p2 else (p2, [])) := by
  unfold onServerWrite
  simp only [stale_false _ _ (by decide : Ec.ok ≠ Ec.aborted), Bool.false_eq_true, if_false, ne_eq, not_true_eq_false]
  have h1 : ¬ n > p.nSout := by omega
  simp only [h1, if_false]
  rw [memRead_ok _ _ _ (by omega)]
  have h2 : n + (p.nSout - n) = p.nSout := by omega
  rw [h2]
  simp only []
  rw [memWrite_ok _ _ _ (by simp; omega)]

theorem view_after_write (p : Px) (n : Nat) (hn : n ≤ p.nSout) :
    view (written p.sout 0 ((view p.sout p.nSout).drop n)) (p.nSout - n) = (view p.sout p.nSout).drop n := by
  have := view_written_zero p.sout ((view p.sout p.nSout).drop n)
  simpa using this

theorem PSInv_serverWritten (lit : Bytes → Option Bool) (s : PS) (h : PSInv s) (n : Nat)
    (hok : s.ok (.serverWritten n)) : PSInv (s.step lit (.serverWritten n)) := by
  obtain ⟨w, ses, hr, hnw, -⟩ := hok
  obtain rfl := h.ses_sw w ses hr
  obtain ⟨hwr, hwl, hwv⟩ := h.write_buf w _ hr
  have hn : n ≤ s.p.nSout := by omega
  simp only [PS.step, hr]
  rw [onServerWrite_ok _ _ hn h.nSout_le]
  have hv := view_after_write s.p n hn
  have hfifo : s.toOrigin ++ w.take n ++ (view s.p.sout s.p.nSout).drop n = s.queued := by
    have : w.take n = (view s.p.sout s.p.nSout).take n := by
      rw [hwv, List.take_take, Nat.min_eq_left hnw]
    rw [this, List.append_assoc, List.take_append_drop]
    exact h.fifo
  obtain ⟨h1, h2, h3, h4, h5, h6, h7, h8, h9, h10, h11, h12, h13, h14, h15, h16, h17⟩ := h
  simp only []
  by_cases hpos : s.p.nSout - n > 0
  · simp only [hpos, if_true]
    rw [wssb_idle _ (by simp) (by simp; omega)]
    constructor
    case nSout_le => simp [PS.apply, PS.act]; omega
    case ses_sw =>
      intro w ses hh
      simp only [PS.apply, PS.acts_cons, PS.acts_nil, PS.act, Option.some.injEq, Prod.mk.injEq] at hh
      simp [PS.apply, PS.act, hh.2]
    case write_buf =>
      intro w ses hh
      simp only [PS.apply, PS.acts_cons, PS.acts_nil, PS.act, Option.some.injEq, Prod.mk.injEq] at hh
      obtain ⟨rfl, rfl⟩ := hh
      simp [PS.apply, PS.act]
      exact (List.take_of_length_le (by simp)).symm
    case fifo => simp only [PS.apply, PS.acts_cons, PS.acts_nil, PS.act]; rw [hv]; exact hfifo
    case scanned =>
      obtain ⟨l, hl1, hl2⟩ := h14
      exact ⟨l, by simpa [PS.apply, PS.act] using hl1, by simpa [PS.apply, PS.act] using hl2⟩
    inv_rest
  · simp only [hpos, if_false]
    constructor
    case nSout_le => simp [PS.apply, PS.act]; omega
    case fifo => simp only [PS.apply, PS.acts_nil]; rw [hv]; exact hfifo
    case scanned =>
      obtain ⟨l, hl1, hl2⟩ := h14
      exact ⟨l, by simpa [PS.apply, PS.act] using hl1, by simpa [PS.apply, PS.act] using hl2⟩
    inv_rest


/-! ### `on_read_request` -/

/-- the clauses of the invariant that speak about the origin side and the bookkeeping only -/
structure SrvInv (s : PS) : Prop where
  no_ub     : s.ub = false
  nSout_le  : s.p.nSout ≤ BUF
  ses_res   : ∀ ses, s.resolving = some ses → ses = s.p.session
  ses_conn  : ∀ ses, s.connectingOp = some ses → ses = s.p.session
  ses_sw    : ∀ w ses, s.serverWrite = some (w, ses) → ses = s.p.session
  ses_sr    : ∀ ses, s.serverRead = some ses → ses = s.p.session
  ses_cw    : ∀ k ses, s.clientWrite = some (k, ses) → ses = s.p.session
  fifo      : s.toOrigin ++ view s.p.sout s.p.nSout = s.queued
  write_buf : ∀ w ses, s.serverWrite = some (w, ses) →
                s.p.writing = true ∧ w.length ≤ s.p.nSout ∧ w = (view s.p.sout s.p.nSout).take w.length
  relay     : s.toClient = s.fromOrigin
  stopped   : s.p.close = true → s.accepting = false

theorem PSInv.srv {s : PS} (h : PSInv s) : SrvInv s :=
  ⟨h.no_ub, h.nSout_le, h.ses_res, h.ses_conn, h.ses_sw, h.ses_sr, h.ses_cw, h.fifo, h.write_buf, h.relay, h.stopped⟩

/-- the origin-side clauses do not depend on the client buffer -/
theorem SrvInv.setCin {s : PS} (h : SrvInv s) (c : Bytes) (k : Nat) :
    SrvInv { s with p := { s.p with cin := c, nCin := k } } :=
  ⟨h.no_ub, h.nSout_le, h.ses_res, h.ses_conn, h.ses_sw, h.ses_sr, h.ses_cw, h.fifo, h.write_buf, h.relay, h.stopped⟩

/-- closes the goals of an origin-side clause that the event did not touch -/
macro "srv_rest" : tactic =>
  `(tactic| all_goals (simp only [PS.acts_cons, PS.acts_nil, PS.act]; first | assumption | simp))

/-- what `forward_request` does, when it does not throw: the rewritten request is appended to the
    server-out queue, nothing else of the session's logs changes -/
theorem forward_inv (lit : Bytes → Option Bool) (s : PS) (h : SrvInv s) (req : Request) (p1 : Px) (a : List Act)
    (hf : forwardRequest lit s.p req = .ok (p1, a)) :
    ∃ rw, rewrite req = .ok rw ∧
      SrvInv (({ s with p := p1 }).acts a) ∧
      (({ s with p := p1 }).acts a).queued = s.queued ++ rw.out ∧
      (({ s with p := p1 }).acts a).p = p1 ∧
      p1.cin = s.p.cin ∧ p1.nCin = s.p.nCin ∧ p1.close = s.p.close ∧ p1.session = s.p.session ∧
      (({ s with p := p1 }).acts a).clientRead = s.clientRead ∧
      (({ s with p := p1 }).acts a).accepting = s.accepting ∧
      (({ s with p := p1 }).acts a).fromClient = s.fromClient ∧
      (({ s with p := p1 }).acts a).sessions = s.sessions := by
  unfold forwardRequest at hf
  match hrw : rewrite req with
  | .error _ => simp [hrw] at hf
  | .ok rw =>
    refine ⟨rw, rfl, ?_⟩
    simp only [hrw] at hf
    by_cases hbig : s.p.nSout + rw.out.length > BUF
    · simp [hbig] at hf
    · simp only [hbig, if_false] at hf
      rw [memWrite_ok _ _ _ (by omega)] at hf
      simp only [] at hf
      have hv := view_written s.p.sout s.p.nSout rw.out
      obtain ⟨h1, h2, h3, h4, h5, h6, h7, h8, h9, h10, h11⟩ := h
      have hfifo : s.toOrigin ++ view (written s.p.sout s.p.nSout rw.out) (s.p.nSout + rw.out.length) = s.queued ++ rw.out := by
        rw [hv, ← List.append_assoc, h8]
      have hwb : ∀ w ses, s.serverWrite = some (w, ses) →
          s.p.writing = true ∧ w.length ≤ s.p.nSout + rw.out.length ∧
            w = (view (written s.p.sout s.p.nSout rw.out) (s.p.nSout + rw.out.length)).take w.length := by
        intro w ses hh
        obtain ⟨ha, hb, hc⟩ := h9 w ses hh
        refine ⟨ha, by omega, ?_⟩
        rw [hv, List.take_append_of_le_length (by simpa using hb)]
        exact hc
      by_cases hconn : s.p.connecting = true
      · simp only [hconn, if_true, Except.ok.injEq, Prod.mk.injEq] at hf
        obtain ⟨rfl, rfl⟩ := hf
        refine ⟨?_, by simp [PS.act], by simp [PS.act], rfl, rfl, rfl, rfl, by simp [PS.act], by simp [PS.act], by simp [PS.act], by simp [PS.act]⟩
        constructor
        case nSout_le => simp [PS.act]; omega
        case fifo => simpa [PS.act] using hfifo
        case write_buf => simpa [PS.act] using hwb
        srv_rest
      · have hconn' : s.p.connecting = false := by simpa using hconn
        simp only [hconn', Bool.false_eq_true, if_false] at hf
        by_cases hopen : s.p.srvOpen = true
        · simp only [hopen, Bool.not_true, Bool.false_eq_true, if_false] at hf
          by_cases hw : s.p.writing = true
          · rw [wssb_writing _ (by simpa using hw)] at hf
            simp only [Except.ok.injEq, Prod.mk.injEq] at hf
            obtain ⟨rfl, rfl⟩ := hf
            refine ⟨?_, by simp [PS.act], by simp [PS.act], rfl, rfl, rfl, rfl, by simp [PS.act], by simp [PS.act], by simp [PS.act], by simp [PS.act]⟩
            constructor
            case nSout_le => simp [PS.act]; omega
            case fifo => simpa [PS.act] using hfifo
            case write_buf => simpa [PS.act] using hwb
            srv_rest
          · have hw' : s.p.writing = false := by simpa using hw
            rw [wssb_idle _ (by simpa using hw') (by simp; omega)] at hf
            simp only [Except.ok.injEq, Prod.mk.injEq] at hf
            obtain ⟨rfl, rfl⟩ := hf
            refine ⟨?_, by simp [PS.act], by simp [PS.act], rfl, rfl, rfl, rfl, by simp [PS.act], by simp [PS.act], by simp [PS.act], by simp [PS.act]⟩
            constructor
            case nSout_le => simp [PS.act]; omega
            case fifo => simpa [PS.act] using hfifo
            case ses_sw =>
              intro w ses hh
              simp only [PS.acts_cons, PS.acts_nil, PS.act, Option.some.injEq, Prod.mk.injEq] at hh
              simp [PS.act, hh.2]
            case write_buf =>
              intro w ses hh
              simp only [PS.acts_cons, PS.acts_nil, PS.act, Option.some.injEq, Prod.mk.injEq] at hh
              obtain ⟨rfl, rfl⟩ := hh
              simp [PS.act]
              exact (List.take_of_length_le (by simp)).symm
            srv_rest
        · have hopen' : s.p.srvOpen = false := by simpa using hopen
          simp only [hopen', Bool.not_false, if_true] at hf
          match hl : lit rw.host with
          | none =>
            simp only [hl, Except.ok.injEq, Prod.mk.injEq] at hf
            obtain ⟨rfl, rfl⟩ := hf
            refine ⟨?_, by simp [PS.act], by simp [PS.act], rfl, rfl, rfl, rfl, by simp [PS.act], by simp [PS.act], by simp [PS.act], by simp [PS.act]⟩
            constructor
            case nSout_le => simp [PS.act]; omega
            case fifo => simpa [PS.act] using hfifo
            case write_buf => simpa [PS.act] using hwb
            case ses_res =>
              intro ses hh
              simp only [PS.acts_cons, PS.acts_nil, PS.act, Option.some.injEq] at hh
              simp [PS.act, hh]
            srv_rest
          | some v4 =>
            simp only [hl, openForward, Except.ok.injEq, Prod.mk.injEq] at hf
            obtain ⟨rfl, rfl⟩ := hf
            refine ⟨?_, by simp [PS.act], by simp [PS.act], rfl, rfl, rfl, rfl, by simp [PS.act], by simp [PS.act], by simp [PS.act], by simp [PS.act]⟩
            constructor
            case nSout_le => simp [PS.act]; omega
            case fifo => simpa [PS.act] using hfifo
            case ses_conn =>
              intro ses hh
              simp only [PS.acts_cons, PS.acts_nil, PS.act, Option.some.injEq] at hh
              simp [PS.act, hh]
            srv_rest


theorem requestLoop_acc (lit : Bytes → Option Bool) : ∀ (f : Nat) (p : Px) (acts : List Act),
    requestLoop lit f p acts = ((requestLoop lit f p []).1, acts ++ (requestLoop lit f p []).2) := by
  intro f
  induction f with
  | zero => intro p acts; simp [requestLoop]
  | succ f ih =>
    intro p acts
    unfold requestLoop
    split
    · simp
    · split
      · simp
      · split
        · split <;> simp
        · split
          · simp
          · simp
          · split
            · simp
            · split
              · simp
              · rw [ih _ (acts ++ _), ih _ ([] ++ _)]
                simp

/-- bookkeeping never looks at the proxy's own state -/
theorem PS.act_setP (s : PS) (q : Px) (a : Act) : ({ s with p := q }).act a = { (s.act a) with p := q } := by
  cases a <;> first | rfl | (rename_i k _; cases k <;> rfl)

theorem PS.acts_setP (s : PS) (q : Px) (l : List Act) : ({ s with p := q }).acts l = { (s.acts l) with p := q } := by
  induction l generalizing s with
  | nil => rfl
  | cons a l ih => simp only [PS.acts_cons, PS.act_setP, ih]


/-- the invariant inside `on_read_request`: the read is not outstanding, the bytes received so far
    are `fromClient`, of which the buffer still holds `view cin nCin` unparsed -/
structure LoopInv (s : PS) : Prop where
  srv : SrvInv s
  nCin_le : s.p.nCin ≤ BUF
  cr_none : s.clientRead = none
  acc_false : s.accepting = false
  scanned : ∃ l, s.queued = outs l ∧
      scan (s.fromClient.length + 1) s.fromClient =
        (l ++ (scan (s.p.nCin + 1) (view s.p.cin s.p.nCin)).1, (scan (s.p.nCin + 1) (view s.p.cin s.p.nCin)).2)

theorem outs_append (l : List Rewritten) (rw : Rewritten) : outs (l ++ [rw]) = outs l ++ rw.out := by
  simp [outs]

theorem loop_inv (lit : Bytes → Option Bool) : ∀ (f : Nat) (s : PS), LoopInv s → s.p.nCin + 1 ≤ f →
    PSInv (s.apply (requestLoop lit f s.p [])) := by
  intro f
  induction f with
  | zero => intro s _ h; omega
  | succ f ih =>
    intro s hL hf
    obtain ⟨hsrv, hle, hcr, hacc, l, hq, hscan⟩ := hL
    unfold requestLoop
    rw [memRead_zero _ _ hle]
    simp only []
    generalize hpend : view s.p.cin s.p.nCin = pend at hscan ⊢
    have hlen : pend.length = s.p.nCin := by rw [← hpend]; simp
    have hcast : ((s.p.nCin : Nat) : Int) = ((pend.length : Nat) : Int) := by rw [hlen]
    rw [hcast]
    rw [← hlen] at hscan
    rcases findRequestLen_cases pend with hm | ⟨n, hn, h4, hnle⟩
    · -- no complete request
      rw [hm]
      simp only [show ((-1 : Int) < 0) by omega, if_true]
      have hsc := scan_step_more pend hm
      rw [hsc] at hscan
      by_cases hfull : s.p.nCin = BUF
      · simp only [hfull, if_true, List.nil_append]
        exact PSInv_closeConnection _ _ hsrv.no_ub (by simp [hacc])
      · simp only [hfull, if_false, List.nil_append]
        obtain ⟨h1, h2, h3, h4', h5, h6, h7, h8, h9, h10, h11⟩ := hsrv
        constructor
        case read_at =>
          intro off cap ses hh
          simp only [PS.apply, PS.acts_cons, PS.acts_nil, PS.act, Option.some.injEq, Prod.mk.injEq] at hh
          obtain ⟨rfl, rfl, rfl⟩ := hh
          simp [PS.apply, PS.act]; omega
        case scanned =>
          refine ⟨l, ?_, ?_⟩
          · simp only [PS.apply, PS.acts_cons, PS.acts_nil, PS.act]
            rw [hpend]
            simpa using hscan
          · simpa [PS.apply, PS.act] using hq
        case live => simp [PS.apply, PS.act]
        case acc_idle => simp [PS.apply, PS.act, hacc]
        case idle_zero => simp [PS.apply, PS.act]
        inv_rest
    · -- a complete request of `n` bytes
      rw [hn]
      simp only [show ¬ ((n : Int) < 0) by omega, if_false, Int.toNat_natCast]
      match hp : parseRequest pend n with
      | .oob => exact absurd hp (parseRequest_ne_oob pend n hnle)
      | .parseFailed =>
        simp only [List.nil_append]
        exact PSInv_closeConnection _ _ hsrv.no_ub (by simp [hacc])
      | .ok req =>
        simp only []
        match hfw : forwardRequest lit s.p req with
        | .error _ =>
          simp only [List.nil_append]
          exact PSInv_closeConnection _ _ hsrv.no_ub (by simp [hacc])
        | .ok (p1, a) =>
          simp only []
          obtain ⟨rw, hrw, hsrv1, hq1, hp1, hcin, hncin, hclose, hses, hcr1, hacc1, hfc1, -⟩ := forward_inv lit s hsrv req p1 a hfw
          have hdl : (pend.drop n).length ≤ BUF := by simp; omega
          rw [memWrite_ok _ _ _ (by simpa using hdl)]
          simp only [List.nil_append]
          rw [requestLoop_acc]
          -- the state after this request: bookkeeping of `a`, the request popped off the buffer
          let s1 : PS := { (({ s with p := p1 }).acts a) with
                            p := { p1 with cin := written p1.cin 0 (pend.drop n), nCin := p1.nCin - n } }
          have hs1 : s.apply ((requestLoop lit f { p1 with cin := written p1.cin 0 (pend.drop n), nCin := p1.nCin - n } []).1,
                              a ++ (requestLoop lit f { p1 with cin := written p1.cin 0 (pend.drop n), nCin := p1.nCin - n } []).2)
                       = s1.apply (requestLoop lit f s1.p []) := by
            simp only [PS.apply, PS.acts_append, PS.acts_setP, s1]
          rw [hs1]
          apply ih
          · refine ⟨?_, ?_, ?_, ?_, ?_⟩
            · have := hsrv1.setCin (written p1.cin 0 (pend.drop n)) (p1.nCin - n)
              simpa [s1, hp1] using this
            · simp [s1]; omega
            · simpa [s1] using hcr1.trans hcr
            · simpa [s1] using hacc1.trans hacc
            · refine ⟨l ++ [rw], ?_, ?_⟩
              · simp only [s1]
                rw [hq1, hq, outs_append]
              · have hsreq := scan_step_req pend n req rw hn hp hrw
                rw [hsreq] at hscan
                have hv : view (written p1.cin 0 (pend.drop n)) (p1.nCin - n) = pend.drop n := by
                  have := view_written_zero p1.cin (pend.drop n)
                  have hl2 : (pend.drop n).length = p1.nCin - n := by simp; omega
                  rw [hl2] at this
                  exact this
                simp only [s1, hfc1, hv]
                have hl3 : p1.nCin - n = (pend.drop n).length := by simp; omega
                rw [hl3, hscan]
                simp
          · simp [s1]; omega


theorem PSInv_clientData (lit : Bytes → Option Bool) (s : PS) (h : PSInv s) (d : Bytes)
    (hok : s.ok (.clientData d)) : PSInv (s.step lit (.clientData d)) := by
  obtain ⟨off, cap, ses, hcr, hpos, hdc⟩ := hok
  obtain ⟨rfl, rfl, hlt, rfl⟩ := h.read_at off cap ses hcr
  have hfit : s.p.nCin + d.length ≤ BUF := by omega
  simp only [PS.step, hcr, onReadRequest]
  rw [memWrite_ok _ _ _ hfit]
  simp only [stale_false _ _ (by decide : Ec.ok ≠ Ec.aborted), Bool.false_eq_true, if_false, ne_eq, not_true_eq_false]
  let p' : Px := { s.p with cin := written s.p.cin s.p.nCin d, nCin := s.p.nCin + d.length }
  let s0 : PS := { s with clientRead := none, fromClient := s.fromClient ++ d, p := p' }
  have hs0 : ({ s with clientRead := none, fromClient := s.fromClient ++ d } : PS).apply (requestLoop lit (p'.nCin + 1) p' [])
      = s0.apply (requestLoop lit (s0.p.nCin + 1) s0.p []) := by
    simp only [PS.apply, s0]
  show PSInv (({ s with clientRead := none, fromClient := s.fromClient ++ d } : PS).apply (requestLoop lit (p'.nCin + 1) p' []))
  rw [hs0]
  apply loop_inv
  · have hacc : s.accepting = false := by
      cases ha : s.accepting with
      | false => rfl
      | true => have := h.acc_idle ha; rw [hcr] at this; cases this
    refine ⟨?_, ?_, ?_, ?_, ?_⟩
    · exact ⟨h.no_ub, h.nSout_le, h.ses_res, h.ses_conn, h.ses_sw, h.ses_sr, h.ses_cw, h.fifo, h.write_buf, h.relay, h.stopped⟩
    · simpa [s0, p'] using hfit
    · rfl
    · exact hacc
    · obtain ⟨l, hl1, hl2⟩ := h.scanned
      refine ⟨l, hl2, ?_⟩
      have hv : view (written s.p.cin s.p.nCin d) (s.p.nCin + d.length) = view s.p.cin s.p.nCin ++ d := view_written _ _ _
      have hsa := scan_append s.fromClient d (view s.p.cin s.p.nCin) l hl1
      simp only [s0, p', hv]
      have hl3 : s.p.nCin + d.length = (view s.p.cin s.p.nCin ++ d).length := by simp
      rw [hl3]
      exact hsa
  · exact Nat.le_refl _

/-- every event the environment may deliver preserves the invariant -/
theorem PSInv_step (lit : Bytes → Option Bool) (s : PS) (h : PSInv s) (e : Ev) (hok : s.ok e) :
    PSInv (s.step lit e) := by
  cases e with
  | accepted ec => exact PSInv_accepted lit s h ec hok
  | clientData d => exact PSInv_clientData lit s h d hok
  | clientErr ec => exact PSInv_clientErr lit s h ec hok
  | lookup ec ips => exact PSInv_lookup lit s h ec ips hok
  | connected ec => exact PSInv_connected lit s h ec hok
  | serverWritten n => exact PSInv_serverWritten lit s h n hok
  | serverWriteErr ec => exact PSInv_serverWriteErr lit s h ec hok
  | serverData d => exact PSInv_serverData lit s h d hok
  | serverErr ec => exact PSInv_serverErr lit s h ec hok
  | clientWritten ec => exact PSInv_clientWritten lit s h ec hok
  | errWritten ec => exact PSInv_errWritten lit s h ec hok
  | stop => exact PSInv_stop lit s h

theorem PSInv_run (lit : Bytes → Option Bool) : ∀ (es : List Ev) (s : PS), PSInv s → PS.okRun lit s es →
    PSInv (s.run lit es) := by
  intro es
  induction es with
  | nil => intro s h _; exact h
  | cons e rest ih =>
    intro s h hok
    exact ih _ (PSInv_step lit s h e hok.1) hok.2


/-! ### what ends a session, and what `stop()` changes -/

theorem closeConnection_sessions (s : PS) (p' : Px) :
    (s.apply (closeConnection p')).sessions = s.sessions + 1 ∧
    (s.apply (closeConnection p')).clientRead = none ∧
    (s.apply (closeConnection p')).accepting = (if p'.close = true then s.accepting else true) := by
  by_cases hc : p'.close = true <;> simp [PS.apply, PS.act, closeConnection, hc]

/-- a request that does not parse, or is not an `http://` absolute URI, closes the client connection:
    if the reading of the pending bytes ends in `none`, the loop ends in `close_connection()` -/
theorem loop_closes (lit : Bytes → Option Bool) : ∀ (f : Nat) (s : PS), LoopInv s → s.p.nCin + 1 ≤ f →
    (scan (s.p.nCin + 1) (view s.p.cin s.p.nCin)).2 = none →
    (s.apply (requestLoop lit f s.p [])).sessions = s.sessions + 1 ∧
    (s.apply (requestLoop lit f s.p [])).clientRead = none := by
  intro f
  induction f with
  | zero => intro s _ h; omega
  | succ f ih =>
    intro s hL hf hnone
    obtain ⟨hsrv, hle, hcr, hacc, l, hq, hscan⟩ := hL
    unfold requestLoop
    rw [memRead_zero _ _ hle]
    simp only []
    generalize hpend : view s.p.cin s.p.nCin = pend at hscan hnone ⊢
    have hlen : pend.length = s.p.nCin := by rw [← hpend]; simp
    have hcast : ((s.p.nCin : Nat) : Int) = ((pend.length : Nat) : Int) := by rw [hlen]
    rw [hcast]
    rw [← hlen] at hscan hnone
    rcases findRequestLen_cases pend with hm | ⟨n, hn, h4, hnle⟩
    · rw [scan_step_more pend hm] at hnone
      simp at hnone
    · rw [hn]
      simp only [show ¬ ((n : Int) < 0) by omega, if_false, Int.toNat_natCast]
      match hp : parseRequest pend n with
      | .oob => exact absurd hp (parseRequest_ne_oob pend n hnle)
      | .parseFailed =>
        simp only [List.nil_append]
        have := closeConnection_sessions s s.p
        exact ⟨this.1, this.2.1⟩
      | .ok req =>
        simp only []
        match hfw : forwardRequest lit s.p req with
        | .error _ =>
          simp only [List.nil_append]
          have := closeConnection_sessions s s.p
          exact ⟨this.1, this.2.1⟩
        | .ok (p1, a) =>
          simp only []
          obtain ⟨rw, hrw, hsrv1, hq1, hp1, hcin, hncin, hclose, hses, hcr1, hacc1, hfc1, hss1⟩ := forward_inv lit s hsrv req p1 a hfw
          have hdl : (pend.drop n).length ≤ BUF := by simp; omega
          rw [memWrite_ok _ _ _ (by simpa using hdl)]
          simp only [List.nil_append]
          rw [requestLoop_acc]
          let s1 : PS := { (({ s with p := p1 }).acts a) with
                            p := { p1 with cin := written p1.cin 0 (pend.drop n), nCin := p1.nCin - n } }
          have hs1 : s.apply ((requestLoop lit f { p1 with cin := written p1.cin 0 (pend.drop n), nCin := p1.nCin - n } []).1,
                              a ++ (requestLoop lit f { p1 with cin := written p1.cin 0 (pend.drop n), nCin := p1.nCin - n } []).2)
                       = s1.apply (requestLoop lit f s1.p []) := by
            simp only [PS.apply, PS.acts_append, PS.acts_setP, s1]
          rw [hs1]
          have hv : view (written p1.cin 0 (pend.drop n)) (p1.nCin - n) = pend.drop n := by
            have := view_written_zero p1.cin (pend.drop n)
            have hl2 : (pend.drop n).length = p1.nCin - n := by simp; omega
            rw [hl2] at this
            exact this
          have hl3 : p1.nCin - n = (pend.drop n).length := by simp; omega
          have hsreq := scan_step_req pend n req rw hn hp hrw
          have hss : s1.sessions = s.sessions := by simpa [s1] using hss1
          rw [← hss]
          apply ih
          · refine ⟨?_, ?_, ?_, ?_, ?_⟩
            · have := hsrv1.setCin (written p1.cin 0 (pend.drop n)) (p1.nCin - n)
              simpa [s1, hp1] using this
            · simp [s1]; omega
            · simpa [s1] using hcr1.trans hcr
            · simpa [s1] using hacc1.trans hacc
            · refine ⟨l ++ [rw], ?_, ?_⟩
              · simp only [s1]
                rw [hq1, hq, outs_append]
              · rw [hsreq] at hscan
                simp only [s1, hfc1, hv]
                rw [hl3, hscan]
                simp
          · simp [s1]; omega
          · simp only [s1, hv]
            rw [hl3]
            rw [hsreq] at hnone
            exact hnone

theorem forwardRequest_close (lit : Bytes → Option Bool) (p : Px) (req : Request) (p1 : Px) (a : List Act)
    (hh : forwardRequest lit p req = .ok (p1, a)) : p1.close = p.close := by
  unfold forwardRequest at hh
  split at hh
  · cases hh
  · split at hh
    · cases hh
    · split at hh
      · simp only [Except.ok.injEq, Prod.mk.injEq] at hh; rw [← hh.1]
      · simp only [] at hh
        split at hh
        · simp only [Except.ok.injEq, Prod.mk.injEq] at hh; rw [← hh.1]
        · split at hh
          · split at hh
            · simp only [Except.ok.injEq, Prod.mk.injEq] at hh; rw [← hh.1]
            · simp only [openForward, Except.ok.injEq, Prod.mk.injEq] at hh; rw [← hh.1]
          · simp only [writeServerSendBuffer, Except.ok.injEq, Prod.mk.injEq] at hh
            rw [← hh.1]
            split
            · rfl
            · split <;> rfl

theorem requestLoop_close (lit : Bytes → Option Bool) : ∀ (f : Nat) (p : Px) (acts : List Act),
    (requestLoop lit f p acts).1.close = p.close := by
  intro f
  induction f with
  | zero => intro p acts; simp [requestLoop]
  | succ f ih =>
    intro p acts
    unfold requestLoop
    split
    · rfl
    · split
      · rfl
      · split
        · split <;> simp [closeConnection]
        · split
          · rfl
          · simp [closeConnection]
          · split
            · simp [closeConnection]
            · rename_i hfw
              have hc := forwardRequest_close lit _ _ _ _ hfw
              split
              · exact hc
              · rw [ih]
                exact hc

end SimVerif.HttpProxy
