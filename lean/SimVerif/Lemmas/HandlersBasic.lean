/-
  Vocabulary and helper lemmas for C04 / C12: which effects carry a user completion, the
  association-list update `setAssoc`, and the projection lemmas of the `NetSt` setters.
  Helper lemmas live in the namespace `SimVerif.HL` (handlers / lifetimes).
-/
import SimVerif.HandlerSys
import SimVerif.Resolver

namespace SimVerif

/-! ### effects that carry a user completion -/

/-- the handler is called inline (from an internal callback) -/
def NEff.isInvoke : NEff → Bool
  | .invoke _ => true
  | _ => false

/-- the completions an effect list posts (in order) -/
def h4_postsOf : List NEff → List Compl
  | [] => []
  | .post c :: rest => c :: h4_postsOf rest
  | _ :: rest => h4_postsOf rest

/-- the completions an effect list invokes inline (in order) -/
def invokesOf : List NEff → List Compl
  | [] => []
  | .invoke c :: rest => c :: invokesOf rest
  | _ :: rest => invokesOf rest

/-- handler ids of every completion (posted or invoked inline) an effect list produces -/
def effIds : List NEff → List Nat
  | [] => []
  | .post c :: rest => c.h :: effIds rest
  | .invoke c :: rest => c.h :: effIds rest
  | _ :: rest => effIds rest

/-- **No completion handler is called inline**: the effect list contains no `.invoke`. -/
def noInvoke (l : List NEff) : Prop := l.all (fun e => !e.isInvoke) = true

/-- an effect that is neither a posted nor an inline completion -/
def NEff.isSilent : NEff → Bool
  | .post _ => false
  | .invoke _ => false
  | _ => true

/-- an effect list that produces no completion at all -/
def silent (l : List NEff) : Prop := l.all NEff.isSilent = true

def REff.isInvoke : REff → Bool
  | .invoke _ _ _ => true
  | _ => false

def noInvokeR (l : List REff) : Prop := l.all (fun e => !e.isInvoke) = true

/-- split every `match` / `if` of the goal, looking through `let`s -/
macro "splits" : tactic => `(tactic| repeat' (first | split | (dsimp only; split)))

/-- `l₁ ~ l₂` for concatenations of the same pieces: compare element counts -/
macro "perm_count" : tactic =>
  `(tactic| (refine List.perm_iff_count.mpr ?_; intro z;
             (simp only [List.count_append, List.count_cons, List.count_nil, List.cons_append,
               List.nil_append, List.append_nil] <;> omega)))

syntax "perm_omega_aux" ident (ppSpace colGt term:max)* : tactic
macro_rules
  | `(tactic| perm_omega_aux $_z:ident) =>
    `(tactic| (simp only [List.count_append, List.count_cons, List.count_nil, List.cons_append,
                 List.nil_append, List.append_nil] at * <;> omega))
  | `(tactic| perm_omega_aux $z:ident $h $hs*) =>
    `(tactic| (have := List.perm_iff_count.mp $h $z; perm_omega_aux $z $hs*))

/-- `l₁ ~ l₂` from permutation facts `hs` about the same pieces: compare element counts -/
syntax "perm_omega" (ppSpace colGt term:max)* : tactic
macro_rules
  | `(tactic| perm_omega) => `(tactic| perm_count)
  | `(tactic| perm_omega $h $hs*) =>
    `(tactic| (refine List.perm_iff_count.mpr ?_; intro z; perm_omega_aux z $h $hs*))

namespace HL

@[simp] theorem noInvoke_nil : noInvoke [] := by simp [noInvoke]
@[simp] theorem noInvoke_append (a b : List NEff) : noInvoke (a ++ b) ↔ noInvoke a ∧ noInvoke b := by
  simp [noInvoke, List.all_append]
@[simp] theorem noInvoke_cons (e : NEff) (l : List NEff) :
    noInvoke (e :: l) ↔ e.isInvoke = false ∧ noInvoke l := by
  simp [noInvoke]

@[simp] theorem silent_nil : silent [] := by simp [silent]
@[simp] theorem silent_append (a b : List NEff) : silent (a ++ b) ↔ silent a ∧ silent b := by
  simp [silent, List.all_append]
@[simp] theorem silent_cons (e : NEff) (l : List NEff) :
    silent (e :: l) ↔ e.isSilent = true ∧ silent l := by
  simp [silent]

theorem silent_noInvoke {l : List NEff} (h : silent l) : noInvoke l := by
  induction l with
  | nil => simp
  | cons e rest ih =>
    simp only [silent_cons, noInvoke_cons] at h ⊢
    refine ⟨?_, ih h.2⟩
    cases e <;> simp_all [NEff.isSilent, NEff.isInvoke]

@[simp] theorem postsOf_nil : h4_postsOf [] = [] := rfl
@[simp] theorem invokesOf_nil : invokesOf [] = [] := rfl
@[simp] theorem effIds_nil : effIds [] = [] := rfl

theorem postsOf_append (a b : List NEff) : h4_postsOf (a ++ b) = h4_postsOf a ++ h4_postsOf b := by
  induction a with
  | nil => rfl
  | cons e rest ih => cases e <;> simp [h4_postsOf, ih]

theorem invokesOf_append (a b : List NEff) : invokesOf (a ++ b) = invokesOf a ++ invokesOf b := by
  induction a with
  | nil => rfl
  | cons e rest ih => cases e <;> simp [invokesOf, ih]

theorem effIds_append (a b : List NEff) : effIds (a ++ b) = effIds a ++ effIds b := by
  induction a with
  | nil => rfl
  | cons e rest ih => cases e <;> simp [effIds, ih]

theorem postsOf_silent {l : List NEff} (h : silent l) : h4_postsOf l = [] := by
  induction l with
  | nil => rfl
  | cons e rest ih =>
    simp only [silent_cons] at h
    cases e <;> simp_all [NEff.isSilent, h4_postsOf]

theorem effIds_silent {l : List NEff} (h : silent l) : effIds l = [] := by
  induction l with
  | nil => rfl
  | cons e rest ih =>
    simp only [silent_cons] at h
    cases e <;> simp_all [NEff.isSilent, effIds]

theorem invokesOf_noInvoke {l : List NEff} (h : noInvoke l) : invokesOf l = [] := by
  induction l with
  | nil => rfl
  | cons e rest ih =>
    simp only [noInvoke_cons] at h
    cases e <;> simp_all [NEff.isInvoke, invokesOf]

/-- without inline invocations every completion id is the id of a posted completion -/
theorem effIds_noInvoke {l : List NEff} (h : noInvoke l) : effIds l = (h4_postsOf l).map (·.h) := by
  induction l with
  | nil => rfl
  | cons e rest ih =>
    simp only [noInvoke_cons] at h
    cases e <;> simp_all [NEff.isInvoke, effIds, h4_postsOf]

/-! ### `setAssoc` -/

theorem lookup_map_upd_same {α : Type} (l : List (String × α)) (k : String) (v : α) :
    (l.map (fun e => if e.1 == k then (k, v) else e)).lookup k = (l.lookup k).map (fun _ => v) := by
  induction l with
  | nil => rfl
  | cons e rest ih =>
    obtain ⟨k', v'⟩ := e
    by_cases hk : k' = k
    · subst hk; simp [List.lookup]
    · have hk2 : (k == k') = false := by simp; exact fun h => hk h.symm
      have hk3 : (k' == k) = false := by simp [hk]
      simp only [List.map_cons, hk3, Bool.false_eq_true, if_false, List.lookup, hk2]
      exact ih

theorem lookup_map_upd_other {α : Type} (l : List (String × α)) (k k' : String) (v : α) (hne : k' ≠ k) :
    (l.map (fun e => if e.1 == k then (k, v) else e)).lookup k' = l.lookup k' := by
  induction l with
  | nil => rfl
  | cons e rest ih =>
    obtain ⟨k2, v2⟩ := e
    by_cases hk : k2 = k
    · subst hk
      have h1 : (k' == k2) = false := by simp [hne]
      simp only [List.map_cons, beq_self_eq_true, if_true, List.lookup, h1]
      exact ih
    · have hk3 : (k2 == k) = false := by simp [hk]
      simp only [List.map_cons, hk3, Bool.false_eq_true, if_false, List.lookup]
      rw [ih]

theorem lookup_append_single {α : Type} (l : List (String × α)) (k k' : String) (v : α) :
    (l ++ [(k, v)]).lookup k' = match l.lookup k' with
      | some x => some x
      | none => if k' == k then some v else none := by
  induction l with
  | nil => simp [List.lookup]; split <;> simp_all
  | cons e rest ih =>
    obtain ⟨k2, v2⟩ := e
    simp only [List.cons_append, List.lookup]
    split
    · rfl
    · exact ih

theorem lookup_setAssoc_same {α : Type} (l : List (String × α)) (k : String) (v : α) :
    (setAssoc l k v).lookup k = some v := by
  unfold setAssoc
  split
  · rename_i h
    rw [lookup_map_upd_same]
    cases hl : l.lookup k with
    | none => simp [hl] at h
    | some x => rfl
  · rename_i h
    rw [lookup_append_single]
    cases hl : l.lookup k with
    | none => simp
    | some x => simp [hl] at h

theorem lookup_setAssoc_other {α : Type} (l : List (String × α)) (k k' : String) (v : α) (hne : k' ≠ k) :
    (setAssoc l k v).lookup k' = l.lookup k' := by
  unfold setAssoc
  split
  · exact lookup_map_upd_other l k k' v hne
  · rw [lookup_append_single]
    have : (k' == k) = false := by simp [hne]
    cases hl : l.lookup k' <;> simp [this]

/-! ### projections of the `NetSt` setters -/

@[simp] theorem setUdp_udp_same (n : NetSt) (a : String) (u : UdpSock) : (n.setUdp a u).udp? a = some u :=
  lookup_setAssoc_same _ _ _
@[simp] theorem setUdp_udp_other (n : NetSt) (a b : String) (u : UdpSock) (h : b ≠ a) :
    (n.setUdp a u).udp? b = n.udp? b := lookup_setAssoc_other _ _ _ _ h
@[simp] theorem setUdp_tcp (n : NetSt) (a b : String) (u : UdpSock) : (n.setUdp a u).tcp? b = n.tcp? b := rfl
@[simp] theorem setUdp_tcps (n : NetSt) (a : String) (u : UdpSock) : (n.setUdp a u).tcps = n.tcps := rfl
@[simp] theorem setUdp_fwds (n : NetSt) (a : String) (u : UdpSock) : (n.setUdp a u).fwds = n.fwds := rfl
@[simp] theorem setUdp_reg (n : NetSt) (a : String) (u : UdpSock) : (n.setUdp a u).reg = n.reg := rfl
@[simp] theorem setUdp_chans (n : NetSt) (a : String) (u : UdpSock) : (n.setUdp a u).chans = n.chans := rfl
@[simp] theorem setUdp_cfg (n : NetSt) (a : String) (u : UdpSock) : (n.setUdp a u).cfg = n.cfg := rfl
@[simp] theorem setUdp_fwdTarget (n : NetSt) (a : String) (u : UdpSock) (f : Nat) :
    (n.setUdp a u).fwdTarget f = n.fwdTarget f := rfl
@[simp] theorem setUdp_chan (n : NetSt) (a : String) (u : UdpSock) (c : Nat) :
    (n.setUdp a u).chan? c = n.chan? c := rfl

@[simp] theorem setTcp_tcp_same (n : NetSt) (a : String) (t : TcpSock) : (n.setTcp a t).tcp? a = some t :=
  lookup_setAssoc_same _ _ _
@[simp] theorem setTcp_tcp_other (n : NetSt) (a b : String) (t : TcpSock) (h : b ≠ a) :
    (n.setTcp a t).tcp? b = n.tcp? b := lookup_setAssoc_other _ _ _ _ h
@[simp] theorem setTcp_udp (n : NetSt) (a b : String) (t : TcpSock) : (n.setTcp a t).udp? b = n.udp? b := rfl
@[simp] theorem setTcp_udps (n : NetSt) (a : String) (t : TcpSock) : (n.setTcp a t).udps = n.udps := rfl
@[simp] theorem setTcp_fwds (n : NetSt) (a : String) (t : TcpSock) : (n.setTcp a t).fwds = n.fwds := rfl
@[simp] theorem setTcp_reg (n : NetSt) (a : String) (t : TcpSock) : (n.setTcp a t).reg = n.reg := rfl
@[simp] theorem setTcp_chans (n : NetSt) (a : String) (t : TcpSock) : (n.setTcp a t).chans = n.chans := rfl
@[simp] theorem setTcp_cfg (n : NetSt) (a : String) (t : TcpSock) : (n.setTcp a t).cfg = n.cfg := rfl
@[simp] theorem setTcp_fwdTarget (n : NetSt) (a : String) (t : TcpSock) (f : Nat) :
    (n.setTcp a t).fwdTarget f = n.fwdTarget f := rfl
@[simp] theorem setTcp_chan (n : NetSt) (a : String) (t : TcpSock) (c : Nat) :
    (n.setTcp a t).chan? c = n.chan? c := rfl

@[simp] theorem setFwd_udp (n : NetSt) (f : Nat) (t : Option String) (b : String) :
    (n.setFwd f t).udp? b = n.udp? b := rfl
@[simp] theorem setFwd_tcp (n : NetSt) (f : Nat) (t : Option String) (b : String) :
    (n.setFwd f t).tcp? b = n.tcp? b := rfl
@[simp] theorem setFwd_reg (n : NetSt) (f : Nat) (t : Option String) : (n.setFwd f t).reg = n.reg := rfl
@[simp] theorem setFwd_chans (n : NetSt) (f : Nat) (t : Option String) : (n.setFwd f t).chans = n.chans := rfl
@[simp] theorem setFwd_cfg (n : NetSt) (f : Nat) (t : Option String) : (n.setFwd f t).cfg = n.cfg := rfl
@[simp] theorem setFwd_chan (n : NetSt) (f : Nat) (t : Option String) (c : Nat) :
    (n.setFwd f t).chan? c = n.chan? c := rfl
@[simp] theorem setFwd_length (n : NetSt) (f : Nat) (t : Option String) :
    (n.setFwd f t).fwds.length = n.fwds.length := by simp [NetSt.setFwd]

theorem setFwd_fwdTarget (n : NetSt) (f g : Nat) (t : Option String) :
    (n.setFwd f t).fwdTarget g = if g = f ∧ g < n.fwds.length then t else n.fwdTarget g := by
  unfold NetSt.fwdTarget NetSt.setFwd
  simp only [List.getElem?_mapIdx]
  by_cases hg : g < n.fwds.length
  · rw [List.getElem?_eq_getElem hg]
    by_cases hgf : g = f
    · subst hgf; simp [hg]
    · simp [hgf]
  · rw [List.getElem?_eq_none (by omega)]
    simp [hg]

theorem setFwd_fwdTarget_other (n : NetSt) (f g : Nat) (t : Option String) (h : g ≠ f) :
    (n.setFwd f t).fwdTarget g = n.fwdTarget g := by
  rw [setFwd_fwdTarget]; simp [h]

/-- detaching never makes a forwarder point anywhere new -/
theorem setFwd_none_fwdTarget_same (n : NetSt) (f : Nat) : (n.setFwd f none).fwdTarget f = none := by
  rw [setFwd_fwdTarget]
  split
  · rfl
  · rename_i h
    unfold NetSt.fwdTarget
    rw [List.getElem?_eq_none (by omega)]; rfl

@[simp] theorem newFwd_udp (n : NetSt) (a b : String) : (n.newFwd a).1.udp? b = n.udp? b := rfl
@[simp] theorem newFwd_tcp (n : NetSt) (a b : String) : (n.newFwd a).1.tcp? b = n.tcp? b := rfl
@[simp] theorem newFwd_reg (n : NetSt) (a : String) : (n.newFwd a).1.reg = n.reg := rfl
@[simp] theorem newFwd_chans (n : NetSt) (a : String) : (n.newFwd a).1.chans = n.chans := rfl
@[simp] theorem newFwd_cfg (n : NetSt) (a : String) : (n.newFwd a).1.cfg = n.cfg := rfl
@[simp] theorem newFwd_id (n : NetSt) (a : String) : (n.newFwd a).2 = n.fwds.length := rfl
@[simp] theorem newFwd_length (n : NetSt) (a : String) : (n.newFwd a).1.fwds.length = n.fwds.length + 1 := by
  simp [NetSt.newFwd]

theorem newFwd_fwdTarget (n : NetSt) (a : String) (g : Nat) :
    (n.newFwd a).1.fwdTarget g = if g = n.fwds.length then some a else n.fwdTarget g := by
  unfold NetSt.fwdTarget NetSt.newFwd
  dsimp only
  by_cases hg : g < n.fwds.length
  · rw [List.getElem?_append_left hg]
    have : g ≠ n.fwds.length := by omega
    simp [this]
  · by_cases hg2 : g = n.fwds.length
    · subst hg2; simp
    · rw [List.getElem?_eq_none (by simp; omega), List.getElem?_eq_none (by omega)]
      simp [hg2]

@[simp] theorem setChan_udp (n : NetSt) (c : Nat) (ch : Chan) (b : String) : (n.setChan c ch).udp? b = n.udp? b := rfl
@[simp] theorem setChan_tcp (n : NetSt) (c : Nat) (ch : Chan) (b : String) : (n.setChan c ch).tcp? b = n.tcp? b := rfl
@[simp] theorem setChan_reg (n : NetSt) (c : Nat) (ch : Chan) : (n.setChan c ch).reg = n.reg := rfl
@[simp] theorem setChan_fwds (n : NetSt) (c : Nat) (ch : Chan) : (n.setChan c ch).fwds = n.fwds := rfl
@[simp] theorem setChan_cfg (n : NetSt) (c : Nat) (ch : Chan) : (n.setChan c ch).cfg = n.cfg := rfl
@[simp] theorem setChan_fwdTarget (n : NetSt) (c : Nat) (ch : Chan) (f : Nat) :
    (n.setChan c ch).fwdTarget f = n.fwdTarget f := rfl

end HL

end SimVerif
