/-
  SimVerif.Lemmas.HttpServerCb — elementary facts about the callbacks of the HTTP test server
  model: `close_connection`, `on_write`, `read`, and what `m_close` (stopping) implies.
-/
import SimVerif.HttpServerSys
import SimVerif.Lemmas.HttpServerBasic

namespace SimVerif.HttpServer

open SimVerif.Http

theorem closeConnection_eq (s : Srv) : s.closeConnection = ({ s with buf := [], used := 0 }, closeActs s) := by
  unfold Srv.closeConnection closeActs
  simp only [Bool.false_eq_true, ↓reduceIte]
  split <;> rfl

theorem onWrite_keep (s : Srv) (close : Bool) :
    (s.onWrite .ok close = (s, [.postOnRead]) ↔ (s.keepAlive = true ∧ close = false)) := by
  unfold Srv.onWrite
  rw [closeConnection_eq]
  cases close <;> cases hk : s.keepAlive <;> simp [closeActs] <;> split <;> simp

theorem onWrite_close (s : Srv) (close : Bool) (h : ¬(s.keepAlive = true ∧ close = false)) :
    s.onWrite .ok close = ({ s with buf := [], used := 0 }, closeActs s) := by
  unfold Srv.onWrite
  rw [closeConnection_eq]
  cases close <;> cases hk : s.keepAlive <;> simp_all

theorem read_closing (s : Srv) : s.read.1.closing = s.closing ∧ Act.asyncAccept ∉ s.read.2 := by
  unfold Srv.read
  dsimp only
  split <;> split <;> simp

theorem onRead_closing (s : Srv) (hc : s.closing = true) (ec : Ec) (data : Bytes) :
    (s.onRead ec data).1.closing = true ∧ Act.asyncAccept ∉ (s.onRead ec data).2 := by
  unfold Srv.onRead
  simp only [closeConnection_eq, closeActs]
  split
  · simp [hc]
  · split
    · simp [hc]
    · split
      · simp [hc]
      · split
        · have := read_closing { s with buf := s.buf.take s.used ++ data ++ s.buf.drop (s.used + data.length), used := s.used + data.length }
          simp [hc] at this ⊢
          exact this
        · split
          · simp [hc]
          · simp [hc]
          · split
            · simp [hc]
            · split <;> simp [hc]
theorem onAccept_closing (s : Srv) (hc : s.closing = true) (ec : Ec) :
    (s.onAccept ec).1.closing = true ∧ Act.asyncAccept ∉ (s.onAccept ec).2 := by
  unfold Srv.onAccept
  split
  · simp [closeConnection_eq, closeActs, hc]
  · have := read_closing s
    simp [hc] at this ⊢
    exact this

theorem onWrite_closing (s : Srv) (hc : s.closing = true) (ec : Ec) (c : Bool) :
    (s.onWrite ec c).1.closing = true ∧ Act.asyncAccept ∉ (s.onWrite ec c).2 := by
  unfold Srv.onWrite
  split
  · simp [closeConnection_eq, closeActs, hc]
  · split
    · simp [hc]
    · simp [closeConnection_eq, closeActs, hc]

theorem onRead_err (s : Srv) (ec : Ec) (data : Bytes) (h : ec ≠ .ok) :
    s.onRead ec data = ({ s with buf := [], used := 0 }, closeActs s) := by
  unfold Srv.onRead
  rw [if_pos (by simpa using h), closeConnection_eq]

theorem onWrite_err (s : Srv) (ec : Ec) (c : Bool) (h : ec ≠ .ok) :
    s.onWrite ec c = ({ s with buf := [], used := 0 }, closeActs s) := by
  unfold Srv.onWrite
  rw [if_pos (by simpa using h), closeConnection_eq]

theorem onAccept_err (s : Srv) (ec : Ec) (h : ec ≠ .ok) :
    s.onAccept ec = ({ s with buf := [], used := 0 }, closeActs s) := by
  unfold Srv.onAccept
  rw [if_pos (by simpa using h), closeConnection_eq]

end SimVerif.HttpServer
