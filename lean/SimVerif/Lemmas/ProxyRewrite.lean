/-
  SimVerif.Lemmas.ProxyRewrite — `rewrite` (the std::string part of `http_proxy::forward_request`)
  computes the expected host / port / outgoing request for every well-formed absolute `http://` target.
-/
import SimVerif.HttpProxy

namespace SimVerif.HttpProxy

open SimVerif.Http

/-- an absolute `http://` target as written on the wire: host (brackets included), optional port digits, path -/
structure Target where
  host : Bytes
  port : Option Bytes
  path : Bytes
  deriving Repr, DecidableEq

def Target.render (t : Target) : Bytes :=
  HTTP_PFX ++ t.host ++ (match t.port with | some ds => 58 :: ds | none => []) ++ t.path

/-- well-formed authority: non-empty host without '/', whose ':' (if any) all lie before a final ']' (bracketed IPv6 literal);
    port = non-empty decimal digits with value < 65536; path empty or starting with '/' -/
def Target.wf (t : Target) : Prop :=
  t.host ≠ [] ∧ 47 ∉ t.host ∧ (58 ∉ t.host ∨ t.host.getLast? = some 93) ∧
  (t.path = [] ∨ t.path.head? = some 47) ∧
  (∀ ds, t.port = some ds → ds ≠ [] ∧ (∀ c ∈ ds, isDigit c = true) ∧ digitsVal 0 ds < 65536)

def Target.portVal (t : Target) : Int := match t.port with | some ds => (digitsVal 0 ds : Int) | none => 80

/-- what `forward_request` must compute for method `m`, target `t`, parsed headers `hs` -/
def expectedRewrite (m : Bytes) (t : Target) (hs : HMap) : Rewritten :=
  { host := stripBrackets t.host, port := t.portVal,
    out := m ++ [32] ++ (if t.path = [] then [47] else t.path) ++ HTTP11 ++ headerLines hs
           ++ (if hs.any (fun h => h.1 == HOST_KEY) then [] else HOST_HDR ++ stripBrackets t.host ++ CRLF) ++ CRLF }

/-! ### `findFirst` -/

theorem findFirst_notMem {c : UInt8} {l : Bytes} (h : c ∉ l) : findFirst c l = none := by
  induction l with
  | nil => rfl
  | cons x t ih =>
    simp only [List.mem_cons, not_or] at h
    simp [findFirst, ih h.2, Ne.symm h.1]

theorem findFirst_append_hit {c : UInt8} {a b : Bytes} (h : c ∉ a) :
    findFirst c (a ++ c :: b) = some a.length := by
  induction a with
  | nil => simp [findFirst]
  | cons x t ih =>
    simp only [List.mem_cons, not_or] at h
    simp [findFirst, ih h.2, Ne.symm h.1]

/-! ### `findLast` -/

theorem findLast_append (a b : Bytes) (c : UInt8) :
    findLast (a ++ b) c = match findLast b c with
      | some i => some (a.length + i)
      | none => findLast a c := by
  induction a with
  | nil => cases h : findLast b c <;> simp [findLast, h]
  | cons x t ih =>
    simp only [List.cons_append, findLast, ih]
    cases findLast b c <;> simp <;> omega

theorem findLast_notMem {c : UInt8} {l : Bytes} (h : c ∉ l) : findLast l c = none := by
  induction l with
  | nil => rfl
  | cons x t ih =>
    simp only [List.mem_cons, not_or] at h
    simp [findLast, ih h.2, Ne.symm h.1]

theorem findLast_lt {c : UInt8} {l : Bytes} {i : Nat} (h : findLast l c = some i) : i < l.length := by
  induction l generalizing i with
  | nil => simp [findLast] at h
  | cons x t ih =>
    simp only [findLast] at h
    cases h' : findLast t c with
    | some j =>
      have := ih h'
      simp [h'] at h
      simp; omega
    | none =>
      simp [h'] at h
      simp; omega

/-! ### `atoi` on a digit string -/

theorem digit_facts (d : UInt8) (h : isDigit d = true) : isSpace d = false ∧ d ≠ 45 ∧ d ≠ 43 := by
  simp only [isDigit, isSpace, Bool.and_eq_true, decide_eq_true_eq, UInt8.le_iff_toNat_le] at *
  simp at h
  refine ⟨?_, ?_, ?_⟩
  · simp [← UInt8.toNat_inj]; omega
  · intro h'; subst h'; simp at h
  · intro h'; subst h'; simp at h

theorem digitsVal_append (ds rest : Bytes) (acc : Nat) (hd : ∀ c ∈ ds, isDigit c = true)
    (hr : rest = [] ∨ rest.head? = some 47) : digitsVal acc (ds ++ rest) = digitsVal acc ds := by
  induction ds generalizing acc with
  | nil =>
    rcases hr with rfl | hr
    · rfl
    · cases rest with
      | nil => rfl
      | cons x r =>
        simp at hr; subst hr
        simp [digitsVal, isDigit]
  | cons d ds ih =>
    have h1 := hd d (by simp)
    simp only [List.cons_append, digitsVal, h1, if_true]
    exact ih _ (fun c hc => hd c (by simp [hc]))

theorem toInt32_small (v : Int) (h0 : 0 ≤ v) (h1 : v < 65536) : toInt32 v = v := by
  unfold toInt32
  dsimp only
  split <;> omega

theorem atoi_cons (d : UInt8) (s : Bytes) (hs : isSpace d = false) (h45 : d ≠ 45) (h43 : d ≠ 43) :
    atoi (d :: s) = toInt32 (if digitsVal 0 (d :: s) > 9223372036854775807 then 9223372036854775807
                             else (digitsVal 0 (d :: s) : Int)) := by
  unfold atoi
  simp only [List.dropWhile_cons, hs, Bool.false_eq_true, if_false]
  split
  · rename_i h; simp at h; exact absurd h.1 h45
  · rename_i h; simp at h; exact absurd h.1 h43
  · simp

theorem atoi_digits (ds rest : Bytes) (hne : ds ≠ []) (hd : ∀ c ∈ ds, isDigit c = true)
    (hr : rest = [] ∨ rest.head? = some 47) (hv : digitsVal 0 ds < 65536) :
    atoi (ds ++ rest) = (digitsVal 0 ds : Int) := by
  cases ds with
  | nil => exact absurd rfl hne
  | cons d ds' =>
    obtain ⟨hs, h45, h43⟩ := digit_facts d (hd d (by simp))
    have hdv := digitsVal_append (d :: ds') rest 0 hd hr
    rw [List.cons_append] at hdv ⊢
    rw [atoi_cons d _ hs h45 h43, hdv, if_neg (by omega)]
    exact toInt32_small _ (by omega) (by omega)

/-! ### the pieces of `rewrite` on a rendered target -/

theorem digit_ne (d : UInt8) (h : isDigit d = true) : d ≠ 47 ∧ d ≠ 58 ∧ d ≠ 93 := by
  refine ⟨?_, ?_, ?_⟩ <;> (intro h'; subst h'; revert h; decide)

theorem digits_notMem (ds : Bytes) (hd : ∀ c ∈ ds, isDigit c = true) : 47 ∉ ds ∧ 58 ∉ ds ∧ 93 ∉ ds := by
  refine ⟨?_, ?_, ?_⟩ <;> (intro h'; have := digit_ne _ (hd _ h'); simp at this)

theorem take7 (x : Bytes) : (HTTP_PFX ++ x).take 7 = HTTP_PFX := by simp [HTTP_PFX]

theorem drop7 (x : Bytes) : (HTTP_PFX ++ x).drop 7 = x := by simp [HTTP_PFX]

theorem pathStart_eq (a path : Bytes) (h47 : 47 ∉ a) (hp : path = [] ∨ path.head? = some 47) :
    findFirstFrom (HTTP_PFX ++ a ++ path) 47 7 = if path = [] then none else some (HTTP_PFX ++ a).length := by
  unfold findFirstFrom
  rw [List.append_assoc, drop7]
  cases path with
  | nil => simp [findFirst_notMem h47]
  | cons x p =>
    simp at hp; subst hp
    simp [findFirst_append_hit h47, HTTP_PFX]

theorem take_head (path : Bytes) (n : Nat) (hp : path = [] ∨ path.head? = some 47) :
    path.take n = [] ∨ (path.take n).head? = some 47 := by
  cases path with
  | nil => simp
  | cons x p => cases n <;> simp_all

theorem hostTake (host rest : Bytes) :
    ((HTTP_PFX ++ host ++ rest).drop 7).take (7 + host.length - 7) = host := by
  rw [List.append_assoc, drop7]; simp

theorem portDrop (host ds rest : Bytes) :
    (HTTP_PFX ++ host ++ 58 :: ds ++ rest).drop (7 + host.length + 1) = ds ++ rest := by
  have : HTTP_PFX ++ host ++ 58 :: ds ++ rest = (HTTP_PFX ++ host ++ [58]) ++ (ds ++ rest) := by simp
  rw [this]
  have hlen : 7 + host.length + 1 = (HTTP_PFX ++ host ++ [58]).length := by simp [HTTP_PFX]; omega
  rw [hlen, List.drop_left]

theorem rewrite_port (m p' host ds path : Bytes) (hs : HMap) (hne : host ≠ []) (h47 : 47 ∉ host)
    (hp : path = [] ∨ path.head? = some 47) (hdne : ds ≠ []) (hd : ∀ c ∈ ds, isDigit c = true)
    (hv : digitsVal 0 ds < 65536) :
    rewrite { method := m, req := HTTP_PFX ++ host ++ 58 :: ds ++ path, path := p', headers := hs } =
      .ok { host := stripBrackets host, port := (digitsVal 0 ds : Int), out := m ++ [32] ++ (if path = [] then [47] else path) ++ HTTP11 ++ headerLines hs ++ (if hs.any (fun h => h.1 == HOST_KEY) then [] else HOST_HDR ++ stripBrackets host ++ CRLF) ++ CRLF } := by
  obtain ⟨d47, d58, d93⟩ := digits_notMem ds hd
  have hl : 0 < host.length := List.length_pos_iff.mpr hne
  have hgt : 7 + host.length > 7 := by omega
  have hL58 : findLast (HTTP_PFX ++ host ++ 58 :: ds) 58 = some (7 + host.length) := by
    rw [findLast_append]
    simp [findLast, findLast_notMem d58, HTTP_PFX]; omega
  have hL93 : findLast (HTTP_PFX ++ host ++ 58 :: ds) 93 = none ∨
      ∃ b, findLast (HTTP_PFX ++ host ++ 58 :: ds) 93 = some b ∧ b < 7 + host.length := by
    rw [findLast_append]
    simp only [findLast, findLast_notMem d93]
    cases h : findLast (HTTP_PFX ++ host) 93 with
    | none => left; simp
    | some b => right; have := findLast_lt h; simp [HTTP_PFX] at this ⊢; omega
  have hps := pathStart_eq (host ++ 58 :: ds) path (by simp [h47, d47]) hp
  rw [← List.append_assoc] at hps
  have ht7 : (HTTP_PFX ++ host ++ 58 :: ds ++ path).take 7 = HTTP_PFX := by
    rw [List.append_assoc, List.append_assoc, take7]
  have hT := hostTake host (58 :: ds ++ path)
  have hD := portDrop host ds path
  rw [← List.append_assoc] at hT
  have hport : ¬ ((digitsVal 0 ds : Int) < 0 ∨ (digitsVal 0 ds : Int) > 65535) := by omega
  unfold rewrite reqPort
  simp only [ht7, ne_eq, not_true_eq_false, if_false, hps]
  by_cases hpe : path = []
  · subst hpe
    have hA := atoi_digits ds [] hdne hd (Or.inl rfl) hv
    simp only [List.append_nil] at hT hD hA
    simp only [if_true, List.append_nil, hL58]
    rcases hL93 with h93 | ⟨b, h93, hb⟩
    · simp only [h93, hgt, if_true, hT, hD, hA, hport, if_false]
    · have hnb : ¬ (7 + host.length < b) := by omega
      simp only [h93, hnb, hgt, if_true, if_false, hT, hD, hA, hport]
  · simp only [hpe, if_false, List.take_left, List.drop_left, hL58]
    have hA := atoi_digits ds (path.take ((HTTP_PFX ++ host ++ 58 :: ds).length - ds.length)) hdne hd
      (take_head _ _ hp) hv
    have hle : ds.length ≤ (HTTP_PFX ++ host ++ 58 :: ds).length := by simp; omega
    have hTA : (ds ++ path).take (HTTP_PFX ++ host ++ 58 :: ds).length
        = ds ++ path.take ((HTTP_PFX ++ host ++ 58 :: ds).length - ds.length) := by
      rw [List.take_append, List.take_of_length_le hle]
    rcases hL93 with h93 | ⟨b, h93, hb⟩
    · simp only [h93, hgt, if_true, hT, hD, hTA, hA, hport, if_false]
    · have hnb : ¬ (7 + host.length < b) := by omega
      simp only [h93, hnb, hgt, if_true, if_false, hT, hD, hTA, hA, hport]

theorem rewrite_noport (m p' host path : Bytes) (hs : HMap) (hne : host ≠ []) (h47 : 47 ∉ host)
    (hb : 58 ∉ host ∨ host.getLast? = some 93) (hp : path = [] ∨ path.head? = some 47) :
    rewrite { method := m, req := HTTP_PFX ++ host ++ path, path := p', headers := hs } =
      .ok { host := stripBrackets host, port := 80, out := m ++ [32] ++ (if path = [] then [47] else path) ++ HTTP11 ++ headerLines hs ++ (if hs.any (fun h => h.1 == HOST_KEY) then [] else HOST_HDR ++ stripBrackets host ++ CRLF) ++ CRLF } := by
  have hps := pathStart_eq host path h47 hp
  have ht7 : (HTTP_PFX ++ host ++ path).take 7 = HTTP_PFX := by rw [List.append_assoc, take7]
  have hD : (HTTP_PFX ++ host ++ path).drop 7 = host ++ path := by rw [List.append_assoc, drop7]
  have hD' : (HTTP_PFX ++ host).drop 7 = host := drop7 host
  have hlen : (HTTP_PFX ++ host).length - 7 = host.length := by simp [HTTP_PFX]
  -- the `:` / `]` positions in the authority
  have key : (∃ he, findLast (HTTP_PFX ++ host) 58 = some he ∧ he ≤ 7 ∧
                (findLast (HTTP_PFX ++ host) 93 = none ∨ ∃ b, findLast (HTTP_PFX ++ host) 93 = some b)) ∨
             (∃ b, findLast (HTTP_PFX ++ host) 93 = some b ∧
                (findLast (HTTP_PFX ++ host) 58 = none ∨ ∃ he, findLast (HTTP_PFX ++ host) 58 = some he ∧ he < b)) := by
    rcases hb with hb | hb
    · left
      refine ⟨4, ?_, by omega, ?_⟩
      · rw [findLast_append, findLast_notMem hb]; rfl
      · cases findLast (HTTP_PFX ++ host) 93 <;> simp
    · right
      obtain ⟨init, rfl⟩ := List.getLast?_eq_some_iff.mp hb
      refine ⟨(HTTP_PFX ++ init).length, ?_, ?_⟩
      · rw [← List.append_assoc, findLast_append]; simp [findLast]
      · rw [← List.append_assoc, findLast_append]
        simp only [findLast, show ((93 : UInt8) = 58) = False by decide, if_false]
        cases h : findLast (HTTP_PFX ++ init) 58 with
        | none => left; rfl
        | some he => right; exact ⟨he, rfl, findLast_lt h⟩
  have h80 : ¬ ((80 : Int) < 0 ∨ (80 : Int) > 65535) := by omega
  unfold rewrite reqPort
  simp only [ht7, ne_eq, not_true_eq_false, if_false, hps]
  by_cases hpe : path = []
  · subst hpe
    simp only [if_true, List.append_nil]
    rcases key with ⟨he, h58, hle, h93 | ⟨b, h93⟩⟩ | ⟨b, h93, h58 | ⟨he, h58, hlt⟩⟩
    · have : ¬ he > 7 := by omega
      simp only [h58, h93, this, if_false, hD', h80]
    · have : ¬ he > 7 := by omega
      by_cases hc : he < b <;> simp only [h58, h93, hc, this, if_true, if_false, hD', h80]
    · simp only [h58, h93, hD', h80, if_false]
    · simp only [h58, h93, hlt, if_true, hD', h80, if_false]
  · simp only [hpe, if_false, List.take_left, List.drop_left, hD, hlen]
    rcases key with ⟨he, h58, hle, h93 | ⟨b, h93⟩⟩ | ⟨b, h93, h58 | ⟨he, h58, hlt⟩⟩
    · have : ¬ he > 7 := by omega
      simp only [h58, h93, this, if_false, h80]
    · have : ¬ he > 7 := by omega
      by_cases hc : he < b <;> simp only [h58, h93, hc, this, if_true, if_false, h80]
    · simp only [h58, h93, h80, if_false]
    · simp only [h58, h93, hlt, if_true, h80, if_false]

/-! ### the theorem -/

theorem rewrite_wf (m path' : Bytes) (t : Target) (hs : HMap) (h : t.wf) :
    rewrite { method := m, req := t.render, path := path', headers := hs } = .ok (expectedRewrite m t hs) := by
  obtain ⟨host, port, path⟩ := t
  obtain ⟨hne, h47, hb, hp, hport⟩ := h
  cases port with
  | none =>
    simpa [Target.render, expectedRewrite, Target.portVal] using rewrite_noport m path' host path hs hne h47 hb hp
  | some ds =>
    obtain ⟨hdne, hd, hv⟩ := hport ds rfl
    simpa [Target.render, expectedRewrite, Target.portVal] using
      rewrite_port m path' host ds path hs hne h47 hp hdne hd hv

/-! ### `Target.wf` is decidable; concrete instances -/

/-- the port clause of `Target.wf`, by cases on the port -/
def portOk : Option Bytes → Prop
  | some ds => ds ≠ [] ∧ (∀ c ∈ ds, isDigit c = true) ∧ digitsVal 0 ds < 65536
  | none => True

instance : (p : Option Bytes) → Decidable (portOk p)
  | some ds => inferInstanceAs (Decidable (ds ≠ [] ∧ (∀ c ∈ ds, isDigit c = true) ∧ digitsVal 0 ds < 65536))
  | none => inferInstanceAs (Decidable True)

theorem portOk_iff (p : Option Bytes) :
    portOk p ↔ ∀ ds, p = some ds → ds ≠ [] ∧ (∀ c ∈ ds, isDigit c = true) ∧ digitsVal 0 ds < 65536 := by
  cases p with
  | none => simp [portOk]
  | some ds => simp [portOk]

instance (t : Target) : Decidable t.wf :=
  decidable_of_iff (t.host ≠ [] ∧ 47 ∉ t.host ∧ (58 ∉ t.host ∨ t.host.getLast? = some 93) ∧
    (t.path = [] ∨ t.path.head? = some 47) ∧ portOk t.port) (by unfold Target.wf; rw [portOk_iff])

/-- `GET http://10.0.0.3:8080/a/b?c=d` -/
example : rewrite { method := [71, 69, 84], req := Target.render { host := [49, 48, 46, 48, 46, 48, 46, 51], port := some [56, 48, 56, 48], path := [47, 97, 47, 98, 63, 99, 61, 100] }, path := [], headers := [] } = .ok (expectedRewrite [71, 69, 84] { host := [49, 48, 46, 48, 46, 48, 46, 51], port := some [56, 48, 56, 48], path := [47, 97, 47, 98, 63, 99, 61, 100] } []) :=
  rewrite_wf _ _ _ _ (by decide)

/-- `GET http://[2001:db8::3]` (bracketed IPv6 literal, no port, empty path), with a `host` header already present -/
example : rewrite { method := [71, 69, 84], req := Target.render { host := [91, 50, 48, 48, 49, 58, 100, 98, 56, 58, 58, 51, 93], port := none, path := [] }, path := [], headers := [(HOST_KEY, [120])] } = .ok (expectedRewrite [71, 69, 84] { host := [91, 50, 48, 48, 49, 58, 100, 98, 56, 58, 58, 51, 93], port := none, path := [] } [(HOST_KEY, [120])]) :=
  rewrite_wf _ _ _ _ (by decide)

/-- `GET http://example.com:65535` (largest port, empty path) -/
example : rewrite { method := [71, 69, 84], req := Target.render { host := [101, 120, 97, 109, 112, 108, 101, 46, 99, 111, 109], port := some [54, 53, 53, 51, 53], path := [] }, path := [], headers := [] } = .ok (expectedRewrite [71, 69, 84] { host := [101, 120, 97, 109, 112, 108, 101, 46, 99, 111, 109], port := some [54, 53, 53, 51, 53], path := [] } []) :=
  rewrite_wf _ _ _ _ (by decide)

/-- what the expected result is, concretely: brackets stripped, default port, `/` as path, `host:` header added -/
example : expectedRewrite [71, 69, 84] { host := [91, 58, 58, 49, 93], port := none, path := [] } [] = { host := [58, 58, 49], port := 80, out := [71, 69, 84, 32, 47, 32, 72, 84, 84, 80, 47, 49, 46, 49, 13, 10, 104, 111, 115, 116, 58, 32, 58, 58, 49, 13, 10, 13, 10] } := by
  decide

end SimVerif.HttpProxy
