/-
  SimVerif.Lemmas.ProxyMem — the checked memory of the proxy model: what a buffer holds in its
  first `n` bytes (`view`), and how `memRead` / `memWrite` act on it.
-/
import SimVerif.HttpProxy

namespace SimVerif.HttpProxy

open SimVerif.Http

/-- the first `n` bytes of the array whose initialised prefix is `m` -/
def view (m : Bytes) (n : Nat) : Bytes := (padTo m n).take n

/-- the array after `d` was copied to offset `off` -/
def written (m : Bytes) (off : Nat) (d : Bytes) : Bytes :=
  (padTo m off).take off ++ d ++ m.drop (off + d.length)

theorem padTo_length (m : Bytes) (n : Nat) : (padTo m n).length = max m.length n := by
  simp [padTo]; omega

@[simp] theorem view_length (m : Bytes) (n : Nat) : (view m n).length = n := by
  simp [view, padTo]; omega

@[simp] theorem view_zero (m : Bytes) : view m 0 = [] := by simp [view]

theorem memRead_zero (m : Bytes) (n : Nat) (h : n ≤ BUF) : memRead m 0 n = .ok (view m n) := by
  simp [memRead, view, h]

theorem memRead_ok (m : Bytes) (off n : Nat) (h : off + n ≤ BUF) :
    memRead m off n = .ok ((view m (off + n)).drop off) := by
  simp only [memRead, h, if_true, view]
  congr 1
  rw [List.drop_take]
  congr 1
  omega

theorem memWrite_ok (m : Bytes) (off : Nat) (d : Bytes) (h : off + d.length ≤ BUF) :
    memWrite m off d = .ok (written m off d) := by
  simp [memWrite, written, h]

theorem memWrite_oob (m : Bytes) (off : Nat) (d : Bytes) (h : ¬ off + d.length ≤ BUF) :
    memWrite m off d = .error .oob := by
  simp [memWrite, h]

theorem take_padTo (m : Bytes) (off : Nat) : ((padTo m off).take off).length = off := by
  simp [padTo]; omega

/-- after copying `d` to `off`, the first `off + |d|` bytes are the old first `off` bytes, then `d` -/
theorem view_written (m : Bytes) (off : Nat) (d : Bytes) :
    view (written m off d) (off + d.length) = view m off ++ d := by
  have hl : ((padTo m off).take off).length = off := take_padTo m off
  unfold view written
  have : (padTo ((padTo m off).take off ++ d ++ m.drop (off + d.length)) (off + d.length))
      = (padTo m off).take off ++ d ++ m.drop (off + d.length) := by
    unfold padTo
    have : off + d.length - ((m ++ List.replicate (off - m.length) 0).take off ++ d ++ m.drop (off + d.length)).length = 0 := by
      simp; omega
    rw [this]; simp
  rw [this, List.append_assoc, List.take_append, List.take_append]
  simp [hl]
  exact List.take_of_length_le (by omega)

theorem view_written_zero (m d : Bytes) : view (written m 0 d) d.length = d := by
  have := view_written m 0 d
  simpa using this

/-- the view is cut consistently: a shorter view is a prefix of a longer one -/
theorem view_take (m : Bytes) (a b : Nat) (h : a ≤ b) : (view m b).take a = view m a := by
  unfold view padTo
  rw [List.take_take, Nat.min_eq_left h]
  by_cases hm : m.length ≥ a
  · rw [List.take_append_of_le_length (by omega), List.take_append_of_le_length (by omega)]
  · have hm' : m.length < a := by omega
    rw [List.take_append, List.take_append]
    simp
    omega

end SimVerif.HttpProxy
