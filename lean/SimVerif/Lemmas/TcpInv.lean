/-
  SimVerif.Lemmas.TcpInv — the safety invariant of the open system SimVerif/StreamSys.lean
  (DESIGN.md Appendix A.3) and its preservation by every label.

  The invariant does not speak about the congestion window, the in-flight account or the
  retransmission timer state at all: whatever they do, what reaches the reader is right.
-/
import SimVerif.Lemmas.TcpBasic

namespace SimVerif

/-- a data-carrying packet is what the ghost says: a payload packet with sequence number k
    carries `segs[k]`; the only error packet is the end-of-stream marker, numbered after the
    last segment, created by close -/
def DataOk (segs : List (List UInt8)) (closed : Bool) (p : Pkt) : Prop :=
  (p.ty = .payload ∧ segs[p.id]? = some p.payload) ∨
  (p.ty = .err ∧ closed = true ∧ p.id = segs.length ∧ p.payload = [] ∧ p.hasDrop = false)

def s5_PktOk (segs : List (List UInt8)) (closed : Bool) (p : Pkt) : Prop :=
  DataOk segs closed p ∨ (p.ty = .ack ∧ p.hasDrop = false)

/-- packets in the incoming queue: the head may have been read partially, so only the number -/
def QOk (segs : List (List UInt8)) (closed : Bool) (p : Pkt) : Prop :=
  (p.ty = .payload ∧ p.id < segs.length) ∨
  (p.ty = .err ∧ closed = true ∧ p.id = segs.length ∧ p.payload = [])

/-- the reader side: reorder buffer, incoming queue, next expected number, bytes delivered.
    The reorder buffer may hold stale entries (numbers below `nx`: first insertion wins, never
    erased) — they only have to be genuine. -/
structure BQ (segs : List (List UInt8)) (closed : Bool) (dl : List UInt8) (nx : Nat)
    (ro : List (Nat × Pkt)) (q : List Pkt) : Prop where
  ro : ∀ e ∈ ro, e.1 = e.2.id ∧ DataOk segs closed e.2
  qok : ∀ p ∈ q, p.id < nx ∧ QOk segs closed p
  sorted : (q.map (·.id)).Pairwise (· < ·)
  bytes : dl ++ bytesOf q = (segs.take nx).flatten
  bound : nx ≤ segs.length + (if closed then 1 else 0)

theorem DataOk.qok {segs closed p} (h : DataOk segs closed p) : QOk segs closed p := by
  rcases h with ⟨h1, h2⟩ | ⟨h1, h2, h3, h4, _⟩
  · left; refine ⟨h1, ?_⟩
    have := List.getElem?_eq_some_iff.mp h2
    exact this.1
  · right; exact ⟨h1, h2, h3, h4⟩

theorem DataOk.mono_seg {segs closed p} (x : List UInt8) (hc : closed = false) (h : DataOk segs closed p) :
    DataOk (segs ++ [x]) closed p := by
  rcases h with ⟨h1, h2⟩ | ⟨_, h2, _⟩
  · left; refine ⟨h1, ?_⟩
    have hlt := (List.getElem?_eq_some_iff.mp h2).1
    rw [List.getElem?_append_left hlt]; exact h2
  · simp [hc] at h2

theorem DataOk.close {segs closed p} (h : DataOk segs closed p) : DataOk segs true p := by
  rcases h with h | ⟨h1, _, h3⟩
  · left; exact h
  · right; exact ⟨h1, rfl, h3⟩

theorem s5_PktOk.mono_seg {segs closed p} (x : List UInt8) (hc : closed = false) (h : s5_PktOk segs closed p) :
    s5_PktOk (segs ++ [x]) closed p := by
  rcases h with h | h
  · left; exact h.mono_seg x hc
  · right; exact h

theorem s5_PktOk.close {segs closed p} (h : s5_PktOk segs closed p) : s5_PktOk segs true p := by
  rcases h with h | h
  · left; exact h.close
  · right; exact h

theorem QOk.mono_seg {segs closed p} (x : List UInt8) (hc : closed = false) (h : QOk segs closed p) :
    QOk (segs ++ [x]) closed p := by
  rcases h with ⟨h1, h2⟩ | ⟨_, h2, _⟩
  · left; exact ⟨h1, by simp; omega⟩
  · simp [hc] at h2

theorem QOk.close {segs closed p} (h : QOk segs closed p) : QOk segs true p := by
  rcases h with h | ⟨h1, _, h3⟩
  · left; exact h
  · right; exact ⟨h1, rfl, h3⟩

theorem BQ.mono_seg {segs closed dl nx ro q} (x : List UInt8) (hc : closed = false)
    (h : BQ segs closed dl nx ro q) : BQ (segs ++ [x]) closed dl nx ro q := by
  have hb := h.bound
  simp [hc] at hb
  refine ⟨fun e he => ⟨(h.ro e he).1, (h.ro e he).2.mono_seg x hc⟩,
    fun p hp => ⟨(h.qok p hp).1, (h.qok p hp).2.mono_seg x hc⟩, h.sorted, ?_, ?_⟩
  · rw [h.bytes, List.take_append_of_le_length hb]
  · simp [hc]; omega

theorem BQ.close {segs closed dl nx ro q} (h : BQ segs closed dl nx ro q) : BQ segs true dl nx ro q := by
  refine ⟨fun e he => ⟨(h.ro e he).1, (h.ro e he).2.close⟩,
    fun p hp => ⟨(h.qok p hp).1, (h.qok p hp).2.close⟩, h.sorted, h.bytes, ?_⟩
  have := h.bound
  split at this <;> simp <;> omega

theorem flatten_take_prefix (segs : List (List UInt8)) (k : Nat) : (segs.take k).flatten <+: segs.flatten := by
  conv => rhs; rw [← List.take_append_drop k segs]
  rw [List.flatten_append]
  exact List.prefix_append _ _

/-- **the prefix property**, from the reader-side invariant alone -/
theorem BQ.isPrefix {segs closed dl nx ro q} (h : BQ segs closed dl nx ro q) : dl <+: segs.flatten :=
  List.IsPrefix.trans (h.bytes ▸ List.prefix_append dl (bytesOf q)) (flatten_take_prefix segs nx)

theorem mem_of_lookup {α : Type} (l : List (Nat × α)) (k : Nat) (v : α) (h : l.lookup k = some v) : (k, v) ∈ l := by
  induction l with
  | nil => simp at h
  | cons e rest ih =>
    obtain ⟨a, b⟩ := e
    rw [List.lookup_cons] at h
    split at h
    · rename_i hk
      have : k = a := by simpa using hk
      simp at h; subst h; subst this; simp
    · exact List.mem_cons_of_mem _ (ih h)

/-- accepting the packet with the expected number -/
theorem BQ.push {segs closed dl nx ro q} (p : Pkt) (h : BQ segs closed dl nx ro q)
    (hp : DataOk segs closed p) (hid : p.id = nx) : BQ segs closed dl (nx + 1) ro (q ++ [p]) := by
  refine ⟨h.ro, ?_, ?_, ?_, ?_⟩
  · intro x hx
    simp only [List.mem_append, List.mem_singleton] at hx
    rcases hx with hx | rfl
    · exact ⟨Nat.lt_succ_of_lt (h.qok x hx).1, (h.qok x hx).2⟩
    · exact ⟨by omega, hp.qok⟩
  · simp only [List.map_append, List.map_cons, List.map_nil]
    rw [List.pairwise_append]
    refine ⟨h.sorted, by simp, ?_⟩
    intro a ha b hb
    simp only [List.mem_map] at ha
    obtain ⟨x, hx, rfl⟩ := ha
    simp only [List.mem_singleton] at hb
    subst hb
    have := (h.qok x hx).1
    omega
  · rw [bytesOf_append, ← List.append_assoc, h.bytes]
    rcases hp with ⟨_, h2⟩ | ⟨_, _, h3, h4, _⟩
    · rw [hid] at h2
      rw [List.take_add_one, h2]; simp
    · rw [hid] at h3
      simp [h4, h3, List.take_of_length_le]
  · rcases hp with ⟨_, h2⟩ | ⟨_, hc, h3, _⟩
    · have := (List.getElem?_eq_some_iff.mp h2).1
      split <;> omega
    · simp [hc]; omega

theorem BQ.ro_sub {segs closed dl nx ro ro' q} (h : BQ segs closed dl nx ro q)
    (hs : ∀ e ∈ ro', e ∈ ro) : BQ segs closed dl nx ro' q :=
  ⟨fun e he => h.ro e (hs e he), h.qok, h.sorted, h.bytes, h.bound⟩

theorem BQ.ro_add {segs closed dl nx ro q} (p : Pkt) (h : BQ segs closed dl nx ro q)
    (hp : DataOk segs closed p) : BQ segs closed dl nx (ro ++ [(p.id, p)]) q := by
  refine ⟨?_, h.qok, h.sorted, h.bytes, h.bound⟩
  intro e he
  simp only [List.mem_append, List.mem_singleton] at he
  rcases he with he | rfl
  · exact h.ro e he
  · exact ⟨rfl, hp⟩

theorem BQ.drain {segs closed dl} : ∀ (f nx : Nat) (ro : List (Nat × Pkt)) (q : List Pkt),
    BQ segs closed dl nx ro q →
      BQ segs closed dl (drainReorder f nx ro q).1 (drainReorder f nx ro q).2.1 (drainReorder f nx ro q).2.2 := by
  intro f
  induction f with
  | zero => intro nx ro q h; simpa [drainReorder] using h
  | succ f ih =>
    intro nx ro q h
    unfold drainReorder
    split
    · exact h
    · rename_i p hl
      have hm := mem_of_lookup ro nx p hl
      have hr := h.ro _ hm
      apply ih
      apply BQ.ro_sub (h.push p hr.2 hr.1.symm)
      intro e he
      exact (List.mem_filter.mp he).1


/-- an error packet with no byte queued before it: what makes a read / wait report it -/
def EofHead (q : List Pkt) : Prop := ∃ pre p rest, q = pre ++ p :: rest ∧ p.ty = .err ∧ bytesOf pre = []

/-- the queue is untouched, or a leading error packet was consumed -/
def QDrop (q q' : List Pkt) : Prop := q' = q ∨ ∃ p rest, q = p :: rest ∧ p.ty = .err ∧ q' = rest

/-- how the reader's queue may change together with what the reader is told -/
def RdOk (q : List Pkt) (ev : Option RdEv) (q' : List Pkt) : Prop :=
  match ev with
  | some (.data d) => d ++ bytesOf q' = bytesOf q ∧ TqRel q' q
  | some (.err e) => QDrop q q' ∧ (e = .eof → EofHead q)
  | none => QDrop q q'

def dlNote (dl : List UInt8) : Option RdEv → List UInt8
  | some (.data d) => dl ++ d
  | _ => dl

theorem BQ.qdrop {segs closed dl nx ro q q'} (h : BQ segs closed dl nx ro q) (hq : QDrop q q') :
    BQ segs closed dl nx ro q' := by
  rcases hq with rfl | ⟨p, rest, rfl, hty, rfl⟩
  · exact h
  · have hp := h.qok p (by simp)
    have hpl : p.payload = [] := by
      rcases hp.2 with ⟨a, _⟩ | ⟨_, _, _, d⟩
      · rw [hty] at a; cases a
      · exact d
    refine ⟨h.ro, fun x hx => h.qok x (List.mem_cons_of_mem _ hx), ?_, ?_, h.bound⟩
    · have := h.sorted; simp only [List.map_cons, List.pairwise_cons] at this; exact this.2
    · have := h.bytes; simpa [hpl] using this

theorem BQ.rd {segs closed dl nx ro q ev q'} (h : BQ segs closed dl nx ro q) (hr : RdOk q ev q') :
    BQ segs closed (dlNote dl ev) nx ro q' := by
  match ev, hr with
  | none, hr => exact h.qdrop hr
  | some (.data d), hr =>
    obtain ⟨hb, hs, hm⟩ := hr
    refine ⟨h.ro, ?_, h.sorted.sublist hs, ?_, h.bound⟩
    · intro p' hp'
      obtain ⟨p, hp, h1, h2, h3⟩ := hm p' hp'
      have := h.qok p hp
      refine ⟨by omega, ?_⟩
      rcases this.2 with ⟨a, b⟩ | ⟨a, b, c, d⟩
      · left; exact ⟨by rw [h2, a], by omega⟩
      · right; exact ⟨by rw [h2, a], b, by omega, by rw [h3 (by rw [h2, a]), d]⟩
    · simp only [dlNote]; rw [List.append_assoc, hb, h.bytes]
  | some (.err e), hr => exact h.qdrop hr.1

theorem BQ.eof {segs closed dl nx ro q} (h : BQ segs closed dl nx ro q) (he : EofHead q) :
    dl = segs.flatten ∧ closed = true := by
  obtain ⟨pre, p, rest, rfl, hty, hpre⟩ := he
  have hp := h.qok p (by simp)
  rcases hp.2 with ⟨a, _⟩ | ⟨_, hc, hid, hpl⟩
  · rw [hty] at a; cases a
  · refine ⟨?_, hc⟩
    have hrest : rest = [] := by
      cases rest with
      | nil => rfl
      | cons x xs =>
        exfalso
        have hs := h.sorted
        simp only [List.map_append, List.map_cons, List.pairwise_append, List.pairwise_cons] at hs
        have hlt := hs.2.1.1 x.id (by simp)
        have hx := (h.qok x (by simp)).2
        rcases hx with ⟨_, b⟩ | ⟨_, _, b, _⟩ <;> omega
    have hb := h.bytes
    subst hrest
    simp only [bytesOf_append, bytesOf_cons, hpre, hpl, bytesOf_nil, List.append_nil] at hb
    rw [hb, List.take_of_length_le (by omega)]

theorem QDrop.refl (q : List Pkt) : QDrop q q := Or.inl rfl

theorem s5_readSome_spec (s : TcpSock) (hc : Bool) (caps : List Nat) :
    (s.readSome hc caps).1.nextIn = s.nextIn ∧ (s.readSome hc caps).1.reorder = s.reorder ∧
    RdOk s.inq (rdEvOf (s.readSome hc caps).2) (s.readSome hc caps).1.inq := by
  unfold TcpSock.readSome
  split
  · exact ⟨rfl, rfl, QDrop.refl _, by intro h; cases h⟩
  · split
    · exact ⟨rfl, rfl, QDrop.refl _, by intro h; cases h⟩
    · split
      · exact ⟨rfl, rfl, QDrop.refl _⟩
      · split
        · exact ⟨rfl, rfl, QDrop.refl _⟩
        · rename_i p rest hq
          split
          · rename_i hty
            have hty' : p.ty = .err := by simpa using hty
            refine ⟨rfl, rfl, ?_⟩
            have hd : QDrop s.inq rest := Or.inr ⟨p, rest, hq, hty', rfl⟩
            dsimp only
            cases hec : p.ec <;> simp only [rdEvOf, RdOk] <;> first | exact hd | refine ⟨hd, ?_⟩
            all_goals (intro _; exact ⟨[], p, rest, by simpa using hq, hty', rfl⟩)
          · dsimp only
            refine ⟨rfl, rfl, ?_⟩
            have := takeQueued_spec (s.inq.length + 1) (caps.foldl (· + ·) 0) s.inq
            simp only [rdEvOf, RdOk]
            exact this


theorem s5_asyncReadImpl_spec (s : TcpSock) (op : ReadOp) :
    (s.asyncReadImpl op).1.nextIn = s.nextIn ∧ (s.asyncReadImpl op).1.reorder = s.reorder ∧
    RdOk s.inq (rdEvOf (s.readSome s.chan.isSome op.caps).2) (s.asyncReadImpl op).1.inq ∧
    s5_fwdsOf (s.asyncReadImpl op).2 = [] := by
  have h := s5_readSome_spec s s.chan.isSome op.caps
  unfold TcpSock.asyncReadImpl
  generalize s.readSome s.chan.isSome op.caps = r at h ⊢
  obtain ⟨s1, res⟩ := r
  dsimp only at h ⊢
  cases res with
  | ok d => exact ⟨h.1, h.2.1, h.2.2, rfl⟩
  | error e =>
    cases e <;> first | exact ⟨h.1, h.2.1, h.2.2, rfl⟩ | exact ⟨rfl, rfl, QDrop.refl _, rfl⟩

theorem available_go_spec : ∀ (q : List Pkt) (acc : Nat) (e : Ec),
    TcpSock.available.go q acc = .error e → acc = 0 ∧ EofHead q := by
  intro q
  induction q with
  | nil => intro acc e h; simp [TcpSock.available.go] at h
  | cons p rest ih =>
    intro acc e h
    unfold TcpSock.available.go at h
    split at h
    · rename_i hty
      split at h
      · cases h
      · exact ⟨by omega, [], p, rest, rfl, by simpa using hty, rfl⟩
    · obtain ⟨h0, pre, x, r, hq, hx, hp⟩ := ih _ e h
      have hl : p.payload = [] := List.eq_nil_of_length_eq_zero (by omega)
      exact ⟨by omega, p :: pre, x, r, by simp [hq], hx, by simp [hl, hp]⟩

theorem available_spec (s : TcpSock) (hc : Bool) (e : Ec) (h : s.available hc = .error e) :
    e = .eof → EofHead s.inq := by
  unfold TcpSock.available at h
  split at h
  · cases h; intro h; cases h
  · split at h
    · cases h; intro h; cases h
    · intro _; exact (available_go_spec _ _ _ h).2

theorem s5_asyncWaitReadImpl_spec (s : TcpSock) (h : Nat) :
    (s.asyncWaitReadImpl h).1.nextIn = s.nextIn ∧ (s.asyncWaitReadImpl h).1.reorder = s.reorder ∧
    (s.asyncWaitReadImpl h).1.inq = s.inq ∧ s5_fwdsOf (s.asyncWaitReadImpl h).2 = [] := by
  unfold TcpSock.asyncWaitReadImpl
  split
  · exact ⟨rfl, rfl, rfl, rfl⟩
  · split <;> exact ⟨rfl, rfl, rfl, rfl⟩

theorem s5_abortRecv_spec (s : TcpSock) :
    s.abortRecv.1.nextIn = s.nextIn ∧ s.abortRecv.1.reorder = s.reorder ∧ s.abortRecv.1.inq = s.inq ∧
    s.abortRecv.1.isOpen = s.isOpen ∧ s.abortRecv.1.chan = s.chan ∧ s.abortRecv.1.connectH = s.connectH ∧
    s5_fwdsOf s.abortRecv.2 = [] := by
  unfold TcpSock.abortRecv
  refine ⟨rfl, rfl, rfl, rfl, rfl, rfl, ?_⟩
  dsimp only
  cases s.recvH <;> cases s.waitRecvH <;> rfl

/-- `readSome` looks at `isOpen`, `connectH` and the queue only -/
theorem readSome_congr (s t : TcpSock) (hc : Bool) (caps : List Nat)
    (h1 : t.isOpen = s.isOpen) (h2 : t.connectH = s.connectH) (h3 : t.inq = s.inq) :
    (t.readSome hc caps).2 = (s.readSome hc caps).2 ∧ (t.readSome hc caps).1.inq = (s.readSome hc caps).1.inq := by
  unfold TcpSock.readSome
  rw [h1, h2, h3]
  split
  · exact ⟨rfl, h3⟩
  · split
    · exact ⟨rfl, h3⟩
    · split
      · exact ⟨rfl, h3⟩
      · split
        · exact ⟨rfl, h3⟩
        · split
          · exact ⟨rfl, rfl⟩
          · exact ⟨rfl, rfl⟩

theorem available_congr (s t : TcpSock) (hc : Bool) (h1 : t.isOpen = s.isOpen) (h3 : t.inq = s.inq) :
    t.available hc = s.available hc := by
  unfold TcpSock.available
  rw [h1, h3]

theorem s5_maybeWakeupReader_spec (tp : TParams) (s : TcpSock) :
    (s.maybeWakeupReader tp).1.nextIn = s.nextIn ∧ (s.maybeWakeupReader tp).1.reorder = s.reorder ∧
    RdOk s.inq (s.wakeRead tp) (s.maybeWakeupReader tp).1.inq ∧
    s5_fwdsOf (s.maybeWakeupReader tp).2 = [] := by
  unfold TcpSock.maybeWakeupReader TcpSock.wakeRead
  dsimp only
  generalize (if tp.wakeReaderFixed = true then s.inq.isEmpty else s.inq.length != 1) = skip
  split
  · exact ⟨rfl, rfl, QDrop.refl _, rfl⟩
  · split
    · cases hw : s.waitRecvH with
      | none => exact ⟨rfl, rfl, QDrop.refl _, rfl⟩
      | some h =>
        dsimp only
        have hs := s5_asyncWaitReadImpl_spec { s with waitRecvH := none } h
        refine ⟨hs.1, hs.2.1, ?_, hs.2.2.2⟩
        rw [hs.2.2.1]
        cases ha : s.available s.chan.isSome with
        | ok k => exact QDrop.refl _
        | error e => exact ⟨QDrop.refl _, available_spec s _ e ha⟩
    · cases ho : s.recvH with
      | none => exact ⟨rfl, rfl, QDrop.refl _, rfl⟩
      | some op =>
        dsimp only
        have hs := s5_asyncReadImpl_spec { s with recvH := none } op
        have hc := readSome_congr s { s with recvH := none } s.chan.isSome op.caps rfl rfl rfl
        refine ⟨hs.1, hs.2.1, ?_, hs.2.2.2⟩
        have := hs.2.2.1
        dsimp only at this
        rw [hc.1] at this
        exact this

/-! ### writer-side actions: what they do to the fields the invariant speaks about -/

/-- equal up to window accounting and handler slots -/
structure WEq (s s' : TcpSock) : Prop where
  isOpen : s'.isOpen = s.isOpen
  mss : s'.mss = s.mss
  nextOut : s'.nextOut = s.nextOut
  resend : s'.resend = s.resend
  chan : s'.chan = s.chan

theorem WEq.rfl' (s : TcpSock) : WEq s s := ⟨rfl, rfl, rfl, rfl, rfl⟩
theorem WEq.trans {a b c : TcpSock} (h1 : WEq a b) (h2 : WEq b c) : WEq a c :=
  ⟨h2.isOpen.trans h1.isOpen, h2.mss.trans h1.mss, h2.nextOut.trans h1.nextOut, h2.resend.trans h1.resend,
   h2.chan.trans h1.chan⟩

/-- action on socket `name`: the socket stays, related by `f`; every other socket is untouched -/
def AStep (n n' : NetSt) (name : String) (f : TcpSock → TcpSock → Prop) : Prop :=
  (∀ s, n.tcp? name = some s → ∃ s', n'.tcp? name = some s' ∧ f s s')
  ∧ (∀ k, k ≠ name → n'.tcp? k = n.tcp? k)

theorem AStep.refl (n : NetSt) (name : String) : AStep n n name WEq :=
  ⟨fun s h => ⟨s, h, WEq.rfl' s⟩, fun _ _ => rfl⟩

theorem AStep.set {n : NetSt} {name : String} {s s' : TcpSock} {f : TcpSock → TcpSock → Prop}
    (hs : n.tcp? name = some s) (h : f s s') : AStep n (n.setTcp name s') name f :=
  ⟨fun t ht => by rw [hs] at ht; cases ht; exact ⟨s', tcp?_setTcp_same _ _ _, h⟩,
   fun k hk => tcp?_setTcp_other _ _ _ _ hk⟩

theorem AStep.ite {n A B : NetSt} {name : String} {f : TcpSock → TcpSock → Prop} (c : Prop) [Decidable c]
    (h1 : AStep n A name f) (h2 : AStep n B name f) : AStep n (if c then A else B) name f := by
  split <;> assumption

theorem fwdsOf_if_pcapTcp (c : Prop) [Decidable c] (t : Int) (a b : Ep) (sq : Nat) (pl : List UInt8) :
    s5_fwdsOf (if c then [NEff.pcapTcp t a b sq pl] else []) = [] := by split <;> rfl

theorem tcpSendPacket_spec (n : NetSt) (now : Int) (name : String) (p : Pkt) :
    AStep n (n.tcpSendPacket now name p).1 name WEq ∧
    ∀ q ∈ s5_fwdsOf (n.tcpSendPacket now name p).2,
      q.id = p.id ∧ q.ty = p.ty ∧ q.payload = p.payload ∧ q.hasDrop = p.hasDrop := by
  unfold NetSt.tcpSendPacket
  split
  · exact ⟨AStep.refl _ _, by simp⟩
  · rename_i s hs
    split
    · exact ⟨AStep.refl _ _, by simp⟩
    · rename_i ch hch
      dsimp only
      constructor
      · refine ⟨?_, ?_⟩
        · intro t ht; rw [hs] at ht; cases ht
          exact ⟨_, tcp?_setTcp_same _ _ _, ⟨rfl, rfl, rfl, rfl, rfl⟩⟩
        · intro k hk; rw [tcp?_setTcp_other _ _ _ _ hk]; rfl
      · intro q hq
        rw [s5_fwdsOf_append, fwdsOf_if_pcapTcp] at hq
        simp only [s5_fwdsOf, List.nil_append, List.mem_singleton] at hq
        subst hq
        exact ⟨rfl, rfl, rfl, rfl⟩


theorem tcpSendSeg_spec (n : NetSt) (now : Int) (name : String) (hops : List String) (seg : List UInt8)
    (s : TcpSock) (hs : n.tcp? name = some s) :
    AStep n (n.tcpSendSeg now name hops seg).1 name (fun s s' => WEq { s with nextOut := s.nextOut + 1 } s') ∧
    ∀ q ∈ s5_fwdsOf (n.tcpSendSeg now name hops seg).2,
      q.id = s.nextOut ∧ q.ty = .payload ∧ q.payload = seg ∧ q.hasDrop = true := by
  unfold NetSt.tcpSendSeg
  rw [hs]
  dsimp only
  have h := tcpSendPacket_spec (n.setTcp name { s with nextOut := s.nextOut + 1 }) now name
    { id := s.nextOut, ty := .payload, len := seg.length, ovh := 40, hops := hops,
      src := s.bound.toString, payload := seg, hasDrop := true, dropFwd := s.fwd }
  refine ⟨⟨?_, ?_⟩, ?_⟩
  · intro t ht; rw [hs] at ht; cases ht
    exact h.1.1 _ (tcp?_setTcp_same _ _ _)
  · intro k hk; rw [h.1.2 k hk, tcp?_setTcp_other _ _ _ _ hk]
  · intro q hq; exact h.2 q hq

theorem tcpSendSeg_none (n : NetSt) (now : Int) (name : String) (hops : List String) (seg : List UInt8)
    (hs : n.tcp? name = none) : n.tcpSendSeg now name hops seg = (n, []) := by
  unfold NetSt.tcpSendSeg; rw [hs]

theorem tcpResendOne_spec (n : NetSt) (now : Int) (name : String) (r : NetSt × List NEff)
    (h : n.tcpResendOne now name = some r) :
    ∃ s p rest, n.tcp? name = some s ∧ s.resend = p :: rest ∧
      AStep n r.1 name (fun s s' => WEq { s with resend := rest } s') ∧
      ∀ q ∈ s5_fwdsOf r.2, q.id = p.id ∧ q.ty = p.ty ∧ q.payload = p.payload ∧ q.hasDrop = p.hasDrop := by
  unfold NetSt.tcpResendOne at h
  split at h
  · cases h
  · rename_i s hs
    split at h
    · cases h
    · rename_i p rest hr
      split at h
      · cases h
      · split at h
        · cases h
          have hp := tcpSendPacket_spec (n.setTcp name { s with resend := rest }) now name p
          refine ⟨s, p, rest, hs, hr, ⟨?_, ?_⟩, hp.2⟩
          · intro t ht; rw [hs] at ht; cases ht
            exact hp.1.1 _ (tcp?_setTcp_same _ _ _)
          · intro k hk; rw [hp.1.2 k hk, tcp?_setTcp_other _ _ _ _ hk]
        · cases h

theorem tcpAckPost_spec (tp : TParams) (n : NetSt) (name : String) (wb : Bool) (acked : Nat) :
    AStep n (n.tcpAckPost tp name wb acked).1 name WEq := by
  unfold NetSt.tcpAckPost
  split
  · exact AStep.refl _ _
  · rename_i s hs
    exact AStep.set hs ⟨rfl, rfl, rfl, rfl, rfl⟩

theorem tcpPacketDropped_spec (tp : TParams) (n : NetSt) (name : String) (p : Pkt) :
    AStep n (n.tcpPacketDropped tp name p) name (fun s s' =>
      WEq s s' ∨ ∃ p', WEq { s with resend := s.resend ++ [p'] } s' ∧ p'.id = p.id ∧ p'.ty = p.ty ∧ p'.payload = p.payload) := by
  unfold NetSt.tcpPacketDropped
  split
  · exact ⟨fun s h => ⟨s, h, Or.inl (WEq.rfl' s)⟩, fun _ _ => rfl⟩
  · rename_i s hs
    split
    · exact ⟨fun s h => ⟨s, h, Or.inl (WEq.rfl' s)⟩, fun _ _ => rfl⟩
    · rename_i ch hch
      dsimp only
      cases hrel : tp.releaseOnDrop <;> simp only [Bool.false_eq_true, ↓reduceIte] <;> apply AStep.ite <;>
        (apply AStep.set hs; right; exact ⟨_, ⟨rfl, rfl, rfl, rfl, rfl⟩, rfl, rfl, rfl⟩)

theorem tcpIncoming_ack_spec (tp : TParams) (n : NetSt) (now : Int) (name : String) (p : Pkt) (hp : p.ty = .ack) :
    AStep n (n.tcpIncoming tp now name p).1 name WEq ∧ s5_fwdsOf (n.tcpIncoming tp now name p).2 = []
      ∧ postsOf (n.tcpIncoming tp now name p).2 = [] := by
  unfold NetSt.tcpIncoming
  split
  · exact ⟨AStep.refl _ _, rfl, rfl⟩
  · rename_i s hs
    simp only [hp]
    exact ⟨AStep.set hs ⟨rfl, rfl, rfl, rfl, rfl⟩, rfl, rfl⟩

theorem tcpWriteFinish_spec (n : NetSt) (name : String) (op : WriteOp) (r : Except Ec Nat) :
    AStep n (n.tcpWriteFinish name op r).1 name WEq ∧ s5_fwdsOf (n.tcpWriteFinish name op r).2 = [] := by
  unfold NetSt.tcpWriteFinish
  split
  · exact ⟨AStep.refl _ _, rfl⟩
  · rename_i s hs
    split <;> exact ⟨AStep.set hs ⟨rfl, rfl, rfl, rfl, rfl⟩, rfl⟩

theorem abortSend_spec (s : TcpSock) : WEq s s.abortSend.1 ∧ s5_fwdsOf s.abortSend.2 = [] := by
  unfold TcpSock.abortSend
  refine ⟨⟨rfl, rfl, rfl, rfl, rfl⟩, ?_⟩
  dsimp only
  cases s.sendH <;> rfl

theorem tcpAsyncWrite_spec (n : NetSt) (name : String) (op : WriteOp) :
    AStep n (n.tcpAsyncWrite name op).1 name WEq ∧ s5_fwdsOf (n.tcpAsyncWrite name op).2 = [] := by
  unfold NetSt.tcpAsyncWrite
  split
  · exact ⟨AStep.refl _ _, rfl⟩
  · rename_i s hs
    have h := abortSend_spec s
    generalize s.abortSend = r at h
    obtain ⟨s1, e⟩ := r
    dsimp only at h ⊢
    refine ⟨AStep.set hs ⟨h.1.isOpen, h.1.mss, h.1.nextOut, h.1.resend, h.1.chan⟩, ?_⟩
    rw [s5_fwdsOf_append, h.2]; rfl

theorem tcpWritePrep_spec (n : NetSt) (name : String) (bufs : List (List UInt8)) (hops : List String)
    (segs : List (List UInt8)) (h : n.tcpWritePrep name bufs = .ok (hops, segs)) :
    ∃ s, n.tcp? name = some s ∧ s.isOpen = true ∧ segs.flatten = bufs.flatten ∧
      (0 < s.mss → ∀ x ∈ segs, x ≠ [] ∧ x.length ≤ s.mss) := by
  unfold NetSt.tcpWritePrep at h
  split at h
  · cases h
  · rename_i s hs
    split at h
    · cases h
    · rename_i hop
      split at h
      · cases h
      · split at h
        · cases h
        · dsimp only at h
          split at h
          · cases h
          · split at h
            · cases h
            · simp only [Except.ok.injEq, Prod.mk.injEq] at h
              obtain ⟨_, rfl⟩ := h
              refine ⟨s, hs, by simpa using hop, ?_, ?_⟩
              · clear hs
                induction bufs with
                | nil => rfl
                | cons b rest ih =>
                  simp only [List.map_cons, List.flatten_cons, List.flatten_append, ih,
                    cutBuf_flatten s.mss (b.length + 1) b (by omega)]
              · intro hm x hx
                simp only [List.mem_flatten, List.mem_map] at hx
                obtain ⟨l, ⟨b, _, rfl⟩, hxl⟩ := hx
                exact cutBuf_bound s.mss hm _ b x hxl

theorem abortRecv_weq (s : TcpSock) : WEq s s.abortRecv.1 := by
  unfold TcpSock.abortRecv; exact ⟨rfl, rfl, rfl, rfl, rfl⟩

theorem cancel_spec (s : TcpSock) : WEq s s.cancel.1 ∧ s5_fwdsOf s.cancel.2 = [] := by
  unfold TcpSock.cancel
  have h1 := s5_abortRecv_spec s
  have w1 := abortRecv_weq s
  generalize s.abortRecv = r1 at h1 w1 ⊢
  obtain ⟨s1, e1⟩ := r1
  dsimp only at h1 w1 ⊢
  have h2 := abortSend_spec s1
  generalize s1.abortSend = r2 at h2 ⊢
  obtain ⟨s2, e2⟩ := r2
  dsimp only at h2 ⊢
  have w := w1.trans h2.1
  split
  · refine ⟨⟨w.isOpen, w.mss, w.nextOut, w.resend, w.chan⟩, ?_⟩
    simp [s5_fwdsOf_append, h1.2.2.2.2.2.2, h2.2, s5_fwdsOf]
  · exact ⟨w, by simp [s5_fwdsOf_append, h1.2.2.2.2.2.2, h2.2]⟩

/-- the two halves of `tcpClose` (verbatim), to reason about them separately -/
def closeHead (n : NetSt) (now : Int) (name : String) (s0 : TcpSock) : NetSt × List NEff :=
  match s0.chan.bind n.chan? with
  | none => (n, [])
  | some ch =>
    let hops := ch.hops (ch.remoteIdx s0.bound)
    if !hops.isEmpty && s0.connectH.isNone then
      let p : Pkt := { id := s0.nextOut, ty := .err, ec := .eof, len := 0, ovh := 40, hops := hops,
                       src := s0.bound.toString }
      let n := n.setTcp name { s0 with nextOut := s0.nextOut + 1 }
      n.tcpSendPacket now name p
    else (n, [])

def closeTail (n : NetSt) (name : String) (e0 : List NEff) : NetSt × List NEff :=
  match n.tcp? name with
  | none => (n, e0)
  | some s =>
    let n := if !s.bound.isDefault then { n with reg := { n.reg with tcp := simUnbind n.reg.tcp name s.bound } } else n
    let n := match s.fwd with | some f => n.setFwd f none | none => n
    let s := { s with chan := none, bound := {}, isOpen := false, fwd := none,
                      mss := 1475, cwnd := 2950, inFlight := 0, outstanding := [],
                      inq := [], reorder := [], resend := [], recvNull := false,
                      nextIn := 0, nextOut := 0, lastDrop := 0 }
    let (s, e1) := s.cancel
    (n.setTcp name s, e0 ++ e1)

theorem tcpClose_eq (n : NetSt) (now : Int) (name : String) (s0 : TcpSock) (hs : n.tcp? name = some s0) :
    n.tcpClose now name = closeTail (closeHead n now name s0).1 name (closeHead n now name s0).2 := by
  unfold NetSt.tcpClose closeHead closeTail
  rw [hs]
  rfl

theorem closeHead_spec (n : NetSt) (now : Int) (name : String) (s0 : TcpSock) (hs : n.tcp? name = some s0) :
    (∃ s1, (closeHead n now name s0).1.tcp? name = some s1)
    ∧ (∀ k, k ≠ name → (closeHead n now name s0).1.tcp? k = n.tcp? k)
    ∧ (∀ q ∈ s5_fwdsOf (closeHead n now name s0).2,
        q.ty = .err ∧ q.id = s0.nextOut ∧ q.payload = [] ∧ q.hasDrop = false)
    ∧ (s0.chan = none → s5_fwdsOf (closeHead n now name s0).2 = []) := by
  unfold closeHead
  split
  · exact ⟨⟨s0, hs⟩, fun _ _ => rfl, by simp, fun _ => rfl⟩
  · rename_i ch hch
    have hcn : s0.chan ≠ none := by intro h; rw [h] at hch; simp at hch
    dsimp only
    split
    · have hp := tcpSendPacket_spec (n.setTcp name { s0 with nextOut := s0.nextOut + 1 }) now name
        { id := s0.nextOut, ty := .err, ec := .eof, len := 0, ovh := 40,
          hops := ch.hops (ch.remoteIdx s0.bound), src := s0.bound.toString }
      refine ⟨?_, ?_, ?_, fun h => absurd h hcn⟩
      · obtain ⟨s', h', _⟩ := hp.1.1 _ (tcp?_setTcp_same _ _ _)
        exact ⟨s', h'⟩
      · intro k hk; rw [hp.1.2 k hk, tcp?_setTcp_other _ _ _ _ hk]
      · intro q hq
        obtain ⟨a, b, c, d⟩ := hp.2 q hq
        exact ⟨b, a, c, d⟩
    · exact ⟨⟨s0, hs⟩, fun _ _ => rfl, by simp, fun _ => rfl⟩

theorem closeTail_spec (n : NetSt) (name : String) (e0 : List NEff) (s1 : TcpSock) (hs : n.tcp? name = some s1) :
    (∃ s', (closeTail n name e0).1.tcp? name = some s' ∧ s'.isOpen = false ∧ s'.resend = [] ∧ s'.chan = none)
    ∧ (∀ k, k ≠ name → (closeTail n name e0).1.tcp? k = n.tcp? k)
    ∧ s5_fwdsOf (closeTail n name e0).2 = s5_fwdsOf e0 := by
  unfold closeTail
  rw [hs]
  dsimp only
  have hcs := cancel_spec ({ s1 with chan := none, bound := {}, isOpen := false, fwd := none, mss := 1475, cwnd := 2950, inFlight := 0, outstanding := [], inq := [], reorder := [], resend := [], recvNull := false, nextIn := 0, nextOut := 0, lastDrop := 0 })
  generalize TcpSock.cancel _ = c at hcs ⊢
  obtain ⟨c1, c2⟩ := c
  dsimp only at hcs ⊢
  refine ⟨⟨c1, tcp?_setTcp_same _ _ _, hcs.1.isOpen, hcs.1.resend, hcs.1.chan⟩, ?_, ?_⟩
  · intro k hk
    rw [tcp?_setTcp_other _ _ _ _ hk]
    cases s1.fwd <;> dsimp only <;> (try rw [s5_tcp?_setFwd]) <;> split <;> rfl
  · rw [s5_fwdsOf_append, hcs.2, List.append_nil]

theorem tcpClose_spec (n : NetSt) (now : Int) (name : String) (s0 : TcpSock) (hs : n.tcp? name = some s0) :
    (∃ s', (n.tcpClose now name).1.tcp? name = some s' ∧ s'.isOpen = false ∧ s'.resend = [] ∧ s'.chan = none)
    ∧ (∀ k, k ≠ name → (n.tcpClose now name).1.tcp? k = n.tcp? k)
    ∧ (∀ q ∈ s5_fwdsOf (n.tcpClose now name).2,
        q.ty = .err ∧ q.id = s0.nextOut ∧ q.payload = [] ∧ q.hasDrop = false)
    ∧ (s0.chan = none → s5_fwdsOf (n.tcpClose now name).2 = []) := by
  rw [tcpClose_eq n now name s0 hs]
  obtain ⟨⟨s1, hs1⟩, hoth, hfw, hno⟩ := closeHead_spec n now name s0 hs
  obtain ⟨h1, h2, h3⟩ := closeTail_spec _ name (closeHead n now name s0).2 s1 hs1
  refine ⟨h1, fun k hk => (h2 k hk).trans (hoth k hk), ?_, ?_⟩
  · rw [h3]; exact hfw
  · rw [h3]; exact hno

/-! ### reader-side actions on the network state -/

/-- outcome of a reader-side action on socket `name` that tells the reader `ev` -/
def BStep (segs : List (List UInt8)) (closed : Bool) (dl : List UInt8) (n n' : NetSt) (name : String)
    (ev : Option RdEv) : Prop :=
  (∃ s', n'.tcp? name = some s' ∧ BQ segs closed (dlNote dl ev) s'.nextIn s'.reorder s'.inq)
  ∧ (ev = some (.err .eof) → dl = segs.flatten ∧ closed = true)
  ∧ (∀ k, k ≠ name → n'.tcp? k = n.tcp? k)

theorem BStep.of_rd {segs closed dl} {n : NetSt} {name : String} {s s' : TcpSock} {ev : Option RdEv}
    (hq : BQ segs closed dl s.nextIn s.reorder s.inq)
    (h1 : s'.nextIn = s.nextIn) (h2 : s'.reorder = s.reorder) (h3 : RdOk s.inq ev s'.inq) :
    BStep segs closed dl n (n.setTcp name s') name ev := by
  refine ⟨⟨s', tcp?_setTcp_same _ _ _, ?_⟩, ?_, fun k hk => tcp?_setTcp_other _ _ _ _ hk⟩
  · rw [h1, h2]; exact hq.rd h3
  · intro he; subst he
    exact hq.eof (h3.2 rfl)

theorem tcpReadNb_spec {segs closed dl} (n : NetSt) (name : String) (caps : List Nat) (s : TcpSock)
    (hs : n.tcp? name = some s) (hq : BQ segs closed dl s.nextIn s.reorder s.inq) :
    BStep segs closed dl n (n.tcpReadNb name caps).1 name (rdEvOf (n.tcpReadNb name caps).2) := by
  unfold NetSt.tcpReadNb
  rw [hs]
  have h := s5_readSome_spec s s.chan.isSome caps
  exact BStep.of_rd hq h.1 h.2.1 h.2.2

theorem tcpAsyncRead_spec {segs closed dl} (n : NetSt) (name : String) (op : ReadOp) (s : TcpSock)
    (hs : n.tcp? name = some s) (hq : BQ segs closed dl s.nextIn s.reorder s.inq) :
    BStep segs closed dl n (n.tcpAsyncRead name op).1 name (rdEvOf (s.readSome s.chan.isSome op.caps).2)
    ∧ s5_fwdsOf (n.tcpAsyncRead name op).2 = [] := by
  unfold NetSt.tcpAsyncRead
  rw [hs]
  dsimp only
  have ha := s5_abortRecv_spec s
  generalize s.abortRecv = r1 at ha ⊢
  obtain ⟨s1, e1⟩ := r1
  dsimp only at ha ⊢
  have hi := s5_asyncReadImpl_spec s1 op
  have hc := readSome_congr s s1 s.chan.isSome op.caps ha.2.2.2.1 ha.2.2.2.2.2.1 ha.2.2.1
  generalize s1.asyncReadImpl op = r2 at hi ⊢
  obtain ⟨s2, e2⟩ := r2
  dsimp only at hi ⊢
  refine ⟨?_, by rw [s5_fwdsOf_append, ha.2.2.2.2.2.2, hi.2.2.2]; rfl⟩
  apply BStep.of_rd hq (hi.1.trans ha.1) (hi.2.1.trans ha.2.1)
  have := hi.2.2.1
  rw [ha.2.2.1, ha.2.2.2.2.1, hc.1] at this
  exact this

theorem tcpWaitRead_spec {segs closed dl} (n : NetSt) (name : String) (h : Nat) (s : TcpSock)
    (hs : n.tcp? name = some s) (hq : BQ segs closed dl s.nextIn s.reorder s.inq) :
    BStep segs closed dl n (n.tcpWaitRead name h).1 name
      (match s.available s.chan.isSome with | .error e => some (RdEv.err e) | .ok _ => none)
    ∧ s5_fwdsOf (n.tcpWaitRead name h).2 = [] := by
  unfold NetSt.tcpWaitRead
  rw [hs]
  dsimp only
  have ha := s5_abortRecv_spec s
  generalize s.abortRecv = r1 at ha ⊢
  obtain ⟨s1, e1⟩ := r1
  dsimp only at ha ⊢
  have hi := s5_asyncWaitReadImpl_spec s1 h
  generalize s1.asyncWaitReadImpl h = r2 at hi ⊢
  obtain ⟨s2, e2⟩ := r2
  dsimp only at hi ⊢
  refine ⟨?_, by rw [s5_fwdsOf_append, ha.2.2.2.2.2.2, hi.2.2.2]; rfl⟩
  apply BStep.of_rd hq (hi.1.trans ha.1) (hi.2.1.trans ha.2.1)
  rw [hi.2.2.1, ha.2.2.1]
  cases hav : s.available s.chan.isSome with
  | ok k => exact QDrop.refl _
  | error e => exact ⟨QDrop.refl _, available_spec s _ e hav⟩


theorem BStep.same {segs closed dl} {n : NetSt} {name : String} {s : TcpSock}
    (hs : n.tcp? name = some s) (hq : BQ segs closed dl s.nextIn s.reorder s.inq) :
    BStep segs closed dl n n name none :=
  ⟨⟨s, hs, hq⟩, (by intro h; cases h), fun _ _ => rfl⟩

theorem tcpIncoming_data_spec {segs closed dl} (tp : TParams) (n : NetSt) (now : Int) (name : String)
    (p : Pkt) (s : TcpSock) (hs : n.tcp? name = some s) (hty : p.ty = .payload ∨ p.ty = .err)
    (hp : DataOk segs closed p) (hq : BQ segs closed dl s.nextIn s.reorder s.inq) :
    BStep segs closed dl n (n.tcpIncoming tp now name p).1 name ((n.tcpPreWake name p).bind (·.wakeRead tp))
    ∧ ∀ q ∈ s5_fwdsOf (n.tcpIncoming tp now name p).2, q.ty = .ack ∧ q.hasDrop = false := by
  have key : ∀ (r : NetSt × List NEff),
      r = (match s.chan.bind n.chan? with
        | none => (n, [])
        | some ch =>
          let ack : Pkt := { id := p.id, ty := .ack, len := 0, ovh := 20, hops := ch.hops (ch.remoteIdx s.bound),
                             src := "0.0.0.0:0" }
          if p.id != s.nextIn then
            let ro := if (s.reorder.lookup p.id).isSome then s.reorder else s.reorder ++ [(p.id, p)]
            (n.setTcp name { s with reorder := ro }, [.forward ack])
          else
            let (nx, ro, q) := drainReorder (s.reorder.length + 1) (s.nextIn + 1) s.reorder (s.inq ++ [p])
            let s := { s with nextIn := nx, reorder := ro, inq := q }
            let (s, e2) := s.maybeWakeupReader tp
            (n.setTcp name s, [.forward ack] ++ e2)) →
      BStep segs closed dl n r.1 name ((n.tcpPreWake name p).bind (·.wakeRead tp))
      ∧ ∀ q ∈ s5_fwdsOf r.2, q.ty = .ack ∧ q.hasDrop = false := by
    intro r hr
    subst hr
    unfold NetSt.tcpPreWake
    rw [hs]
    dsimp only
    cases hch : s.chan.bind n.chan? with
    | none => exact ⟨BStep.same hs hq, by simp⟩
    | some ch =>
      dsimp only
      split
      · rename_i hne
        simp only [Option.bind_none]
        refine ⟨⟨⟨_, tcp?_setTcp_same _ _ _, ?_⟩, (by intro h; cases h), fun k hk => tcp?_setTcp_other _ _ _ _ hk⟩, ?_⟩
        · dsimp only [dlNote]
          split
          · exact hq
          · exact hq.ro_add p hp
        · intro q hq'; simp [s5_fwdsOf] at hq'; subst hq'; exact ⟨rfl, rfl⟩
      · rename_i heq
        have hid : p.id = s.nextIn := by simpa using heq
        have hd := ((hq.push p hp hid).drain (s.reorder.length + 1) (s.nextIn + 1) s.reorder (s.inq ++ [p]))
        generalize drainReorder (s.reorder.length + 1) (s.nextIn + 1) s.reorder (s.inq ++ [p]) = d at hd ⊢
        obtain ⟨nx, ro, q⟩ := d
        dsimp only at hd ⊢
        simp only [Option.bind_some]
        have hm := s5_maybeWakeupReader_spec tp { s with nextIn := nx, reorder := ro, inq := q }
        generalize TcpSock.maybeWakeupReader tp _ = m at hm ⊢
        obtain ⟨s2, e2⟩ := m
        dsimp only at hm ⊢
        refine ⟨BStep.of_rd (s := { s with nextIn := nx, reorder := ro, inq := q }) hd hm.1 hm.2.1 hm.2.2.1, ?_⟩
        intro q' hq'
        rw [s5_fwdsOf_append, hm.2.2.2] at hq'
        simp [s5_fwdsOf] at hq'; subst hq'; exact ⟨rfl, rfl⟩
  apply key
  unfold NetSt.tcpIncoming
  rw [hs]
  rcases hty with h | h <;> simp only [h] <;> rfl

end SimVerif
