/-
  SimVerif.Lemmas.TcpView — what the handshake properties (C07, C13) can see of the network
  state: per socket (open, bound endpoint, forwarder, channel, pending connect, acceptor
  state), per channel (routes, real and visible endpoints), the forwarder table, the
  registry. One "summary" per mechanism function: the view after the call in terms of the
  view before (projection lemmas, see Lemmas/KernelInv.lean for the pattern).
-/
import SimVerif.Lemmas.NetTables
import SimVerif.AcceptSys

namespace SimVerif
namespace Hs

structure SockV where
  isOpen   : Bool
  bound    : Ep
  fwd      : Option Nat
  chan     : Option Nat
  connectH : Option Nat
  acc      : Option AccState

def _root_.SimVerif.TcpSock.hview (s : TcpSock) : SockV := ⟨s.isOpen, s.bound, s.fwd, s.chan, s.connectH, s.acc⟩

structure ChanV where
  hops0 : List String
  hops1 : List String
  ep0   : Ep
  ep1   : Ep
  vis0  : Ep
  vis1  : Ep

def _root_.SimVerif.Chan.hview (c : Chan) : ChanV := ⟨c.hops0, c.hops1, c.ep0, c.ep1, c.vis0, c.vis1⟩

def _root_.SimVerif.NetSt.sv (n : NetSt) (o : String) : Option SockV := (n.tcp? o).map TcpSock.hview
def _root_.SimVerif.NetSt.cv (n : NetSt) (c : Nat) : Option ChanV := (n.chan? c).map Chan.hview

@[simp] theorem fwdPkts_nil : fwdPkts [] = [] := rfl
@[simp] theorem okPosts_nil : okPosts [] = [] := rfl
@[simp] theorem fwdPkts_append (a b : List NEff) : fwdPkts (a ++ b) = fwdPkts a ++ fwdPkts b := by
  simp [fwdPkts, List.filterMap_append]
@[simp] theorem okPosts_append (a b : List NEff) : okPosts (a ++ b) = okPosts a ++ okPosts b := by
  simp [okPosts, List.filterMap_append]

theorem fwdPkts_ite_single (b : Prop) [Decidable b] (e : NEff) (h : ∀ p, e ≠ .forward p) :
    fwdPkts (if b then [e] else []) = [] := by
  split
  · cases e <;> simp_all [fwdPkts]
  · rfl

theorem okPosts_ite_single (b : Prop) [Decidable b] (e : NEff) (h : ∀ c, e ≠ .post c) :
    okPosts (if b then [e] else []) = [] := by
  split
  · cases e <;> simp_all [okPosts]
  · rfl

theorem sv_setTcp (n : NetSt) (name o : String) (t : TcpSock) :
    (n.setTcp name t).sv o = if o = name then some t.hview else n.sv o := by
  simp only [NetSt.sv, tcp?_setTcp]; split <;> simp

@[simp] theorem sv_setChan (n : NetSt) (c : Nat) (ch : Chan) (o : String) : (n.setChan c ch).sv o = n.sv o := rfl
@[simp] theorem sv_setFwd (n : NetSt) (f : Nat) (t : Option String) (o : String) : (n.setFwd f t).sv o = n.sv o := rfl
@[simp] theorem sv_newFwd (n : NetSt) (name o : String) : (n.newFwd name).1.sv o = n.sv o := rfl
@[simp] theorem cv_setTcp (n : NetSt) (name : String) (t : TcpSock) (c : Nat) : (n.setTcp name t).cv c = n.cv c := rfl
@[simp] theorem cv_setFwd (n : NetSt) (f : Nat) (t : Option String) (c : Nat) : (n.setFwd f t).cv c = n.cv c := rfl
@[simp] theorem cv_newFwd (n : NetSt) (name : String) (c : Nat) : (n.newFwd name).1.cv c = n.cv c := rfl

theorem cv_setChan (n : NetSt) (c d : Nat) (ch : Chan) :
    (n.setChan c ch).cv d = if d = c then (n.cv d).map (fun _ => ch.hview) else n.cv d := by
  simp only [NetSt.cv, chan?_setChan]; split
  · cases n.chan? d <;> simp
  · rfl

theorem sv_some {n : NetSt} {o : String} {v : SockV} (h : n.sv o = some v) :
    ∃ s, n.tcp? o = some s ∧ s.hview = v := by
  simp only [NetSt.sv, Option.map_eq_some_iff] at h; exact h

/-! ### `send_packet` -/

theorem tcpSendPacket_sum (n : NetSt) (now : Int) (name : String) (p : Pkt) :
    let r := n.tcpSendPacket now name p
    r.1.cfg = n.cfg ∧ r.1.reg = n.reg ∧ r.1.fwds = n.fwds ∧ r.1.chans.length = n.chans.length
    ∧ (∀ o, r.1.sv o = n.sv o) ∧ (∀ c, r.1.cv c = n.cv c)
    ∧ okPosts r.2 = []
    ∧ (∀ q ∈ fwdPkts r.2, q.ty = p.ty ∧ q.chan = p.chan ∧ q.hops = p.hops) := by
  unfold NetSt.tcpSendPacket
  cases hs : n.tcp? name with
  | none => simp
  | some s =>
    cases hc : s.chan.bind n.chan? with
    | none => simp [hc]
    | some ch =>
      simp only [hc]
      refine ⟨rfl, rfl, rfl, by simp, ?_, ?_, ?_, ?_⟩
      · intro o
        rw [sv_setTcp]; split
        · rename_i h; subst h; simp [NetSt.sv, hs, TcpSock.hview]
        · simp
      · intro c
        rw [cv_setTcp, cv_setChan]
        split
        · rename_i h; subst h
          have : n.chan? (s.chan.getD 0) = some ch := by
            cases hcc : s.chan with
            | none => simp [hcc] at hc
            | some c0 => simpa [hcc] using hc
          simp only [NetSt.cv, this, Option.map_some]
          split <;> rfl
        · rfl
      · rw [okPosts_append, okPosts_ite_single _ _ (by intro c h; cases h)]; simp [okPosts]
      · intro q hq
        rw [fwdPkts_append, fwdPkts_ite_single _ _ (by intro c h; cases h)] at hq
        simp [fwdPkts] at hq; subst hq; simp

/-! ### `cancel`, `close`, `open` -/

theorem abortRecv_sum (s : TcpSock) :
    (s.abortRecv).1.hview = s.hview ∧ okPosts (s.abortRecv).2 = [] ∧ fwdPkts (s.abortRecv).2 = [] := by
  unfold TcpSock.abortRecv
  refine ⟨rfl, ?_, ?_⟩ <;> (cases s.recvH <;> cases s.waitRecvH <;> simp [okPosts, fwdPkts])

theorem abortSend_sum (s : TcpSock) :
    (s.abortSend).1.hview = s.hview ∧ okPosts (s.abortSend).2 = [] ∧ fwdPkts (s.abortSend).2 = [] := by
  unfold TcpSock.abortSend
  refine ⟨rfl, ?_, ?_⟩ <;> (cases s.sendH <;> simp [okPosts, fwdPkts])

theorem cancel_sum (s : TcpSock) :
    (s.cancel).1.hview = { s.hview with connectH := none } ∧ okPosts (s.cancel).2 = [] ∧ fwdPkts (s.cancel).2 = [] := by
  unfold TcpSock.cancel
  obtain ⟨h1, h2, h3⟩ := abortRecv_sum s
  obtain ⟨h4, h5, h6⟩ := abortSend_sum s.abortRecv.1
  simp only
  cases hc : s.abortRecv.1.abortSend.1.connectH with
  | none =>
    simp only [hc, okPosts_append, fwdPkts_append, h2, h3, h5, h6]
    refine ⟨?_, by simp, by simp⟩
    have := h4.trans h1
    simp only [TcpSock.hview] at this ⊢
    simp_all
  | some h =>
    simp only [hc, okPosts_append, fwdPkts_append, h2, h3, h5, h6]
    refine ⟨?_, by simp [okPosts], by simp [fwdPkts]⟩
    have := h4.trans h1
    simp only [TcpSock.hview] at this ⊢
    simp_all

/-- the part of `close` after the optional end-of-stream packet (same text as in
    `NetSt.tcpClose`; `tcpClose_eq` checks that by `rfl`) -/
def tcpCloseTail (n1 : NetSt) (name : String) (e0 : List NEff) : NetSt × List NEff :=
  match n1.tcp? name with
  | none => (n1, e0)
  | some s =>
    let n2 := if !s.bound.isDefault then { n1 with reg := { n1.reg with tcp := simUnbind n1.reg.tcp name s.bound } } else n1
    let n3 := match s.fwd with | some f => n2.setFwd f none | none => n2
    let s := { s with chan := none, bound := {}, isOpen := false, fwd := none, mss := 1475, cwnd := 2950, inFlight := 0, outstanding := [], inq := [], reorder := [], resend := [], recvNull := false, nextIn := 0, nextOut := 0, lastDrop := 0 }
    let (s, e1) := s.cancel
    (n3.setTcp name s, e0 ++ e1)

def tcpCloseEof (n : NetSt) (now : Int) (name : String) (s0 : TcpSock) : NetSt × List NEff :=
  match s0.chan.bind n.chan? with
  | none => (n, [])
  | some ch =>
    let hops := ch.hops (ch.remoteIdx s0.bound)
    if !hops.isEmpty && s0.connectH.isNone then
      let p : Pkt := { id := s0.nextOut, ty := .err, ec := .eof, len := 0, ovh := 40, hops := hops,
                       src := s0.bound.toString }
      let n := n.setTcp name { s0 with nextOut := s0.nextOut + 1 }
      n.tcpSendPacket now name p
    else (n, [])

theorem tcpClose_eq (n : NetSt) (now : Int) (name : String) :
    n.tcpClose now name = match n.tcp? name with
      | none => (n, [])
      | some s0 => tcpCloseTail (tcpCloseEof n now name s0).1 name (tcpCloseEof n now name s0).2 := by
  unfold NetSt.tcpClose tcpCloseTail tcpCloseEof
  rfl

theorem tcpCloseTail_sum (n : NetSt) (name : String) (v : SockV) (hv : n.sv name = some v)
    (n1 : NetSt) (e0 : List NEff)
    (hcfg : n1.cfg = n.cfg) (hreg : n1.reg = n.reg) (hfw : n1.fwds = n.fwds) (hcl : n1.chans.length = n.chans.length)
    (hsv : ∀ o, n1.sv o = n.sv o) (hcv : ∀ c, n1.cv c = n.cv c) (hok : okPosts e0 = [])
    (hfwd : ∀ q ∈ fwdPkts e0, q.ty = .err) :
    let r := tcpCloseTail n1 name e0
    r.1.cfg = n.cfg ∧ r.1.fwds.length = n.fwds.length ∧ r.1.chans.length = n.chans.length
    ∧ r.1.reg.tcp = (if v.bound.isDefault then n.reg.tcp else simUnbind n.reg.tcp name v.bound)
    ∧ (∀ o, r.1.sv o = if o = name then some ⟨false, {}, none, none, none, v.acc⟩ else n.sv o)
    ∧ (∀ c, r.1.cv c = n.cv c)
    ∧ (∀ g, r.1.fwdTarget g = if v.fwd = some g then none else n.fwdTarget g)
    ∧ okPosts r.2 = [] ∧ (∀ q ∈ fwdPkts r.2, q.ty = .err) := by
  unfold tcpCloseTail
  have h1 := hsv name
  rw [hv] at h1
  obtain ⟨s, hs, hsv1⟩ := sv_some h1
  simp only [hs]
  obtain ⟨c1, c2, c3⟩ := cancel_sum { s with chan := none, bound := {}, isOpen := false, fwd := none, mss := 1475, cwnd := 2950, inFlight := 0, outstanding := [], inq := [], reorder := [], resend := [], recvNull := false, nextIn := 0, nextOut := 0, lastDrop := 0 }
  have hb : s.bound = v.bound := by rw [← hsv1]; rfl
  have hf : s.fwd = v.fwd := by rw [← hsv1]; rfl
  have ha : s.acc = v.acc := by rw [← hsv1]; rfl
  have hft : ∀ m : NetSt, m.fwds = n.fwds → ∀ g, m.fwdTarget g = n.fwdTarget g := by
    intro m hm g; simp [NetSt.fwdTarget, hm]
  have hfin : ∀ (n2 : NetSt), n2.cfg = n.cfg → n2.fwds = n.fwds → n2.chans.length = n.chans.length →
      n2.reg.tcp = (if v.bound.isDefault then n.reg.tcp else simUnbind n.reg.tcp name v.bound) →
      (∀ o, n2.sv o = n.sv o) → (∀ c, n2.cv c = n.cv c) →
      let n3 := match s.fwd with | some f => n2.setFwd f none | none => n2
      n3.cfg = n.cfg ∧ n3.fwds.length = n.fwds.length ∧ n3.chans.length = n.chans.length
      ∧ n3.reg.tcp = (if v.bound.isDefault then n.reg.tcp else simUnbind n.reg.tcp name v.bound)
      ∧ (∀ o, n3.sv o = n.sv o) ∧ (∀ c, n3.cv c = n.cv c)
      ∧ (∀ g, n3.fwdTarget g = if v.fwd = some g then none else n.fwdTarget g) := by
    intro n2 a1 a2 a3 a4 a5 a6
    rw [← hf]
    cases hsf : s.fwd with
    | none => exact ⟨a1, by rw [a2], a3, a4, a5, a6, fun g => by simpa using hft n2 a2 g⟩
    | some f =>
      refine ⟨a1, by simp [a2], a3, a4, a5, a6, ?_⟩
      intro g
      simp only [fwdTarget_setFwd, Option.some.injEq]
      by_cases hgf : g = f
      · subst hgf
        by_cases hlt : g < n2.fwds.length
        · simp [hlt]
        · simp only [hlt, and_false, if_false, if_true]
          exact fwdTarget_none_of_ge _ _ (by omega)
      · have : ¬ (f = g) := fun h => hgf h.symm
        simp only [hgf, false_and, if_false, this]
        exact hft n2 a2 g
  have hn2 : ∀ (n2 : NetSt), n2.cfg = n.cfg → n2.fwds = n.fwds → n2.chans.length = n.chans.length →
      n2.reg.tcp = (if v.bound.isDefault then n.reg.tcp else simUnbind n.reg.tcp name v.bound) →
      (∀ o, n2.sv o = n.sv o) → (∀ c, n2.cv c = n.cv c) →
      let r : NetSt × List NEff := ((match s.fwd with | some f => n2.setFwd f none | none => n2).setTcp name
                ({ s with chan := none, bound := {}, isOpen := false, fwd := none, mss := 1475, cwnd := 2950, inFlight := 0, outstanding := [], inq := [], reorder := [], resend := [], recvNull := false, nextIn := 0, nextOut := 0, lastDrop := 0 } : TcpSock).cancel.1,
              e0 ++ ({ s with chan := none, bound := {}, isOpen := false, fwd := none, mss := 1475, cwnd := 2950, inFlight := 0, outstanding := [], inq := [], reorder := [], resend := [], recvNull := false, nextIn := 0, nextOut := 0, lastDrop := 0 } : TcpSock).cancel.2)
      r.1.cfg = n.cfg ∧ r.1.fwds.length = n.fwds.length ∧ r.1.chans.length = n.chans.length
      ∧ r.1.reg.tcp = (if v.bound.isDefault then n.reg.tcp else simUnbind n.reg.tcp name v.bound)
      ∧ (∀ o, r.1.sv o = if o = name then some ⟨false, {}, none, none, none, v.acc⟩ else n.sv o)
      ∧ (∀ c, r.1.cv c = n.cv c)
      ∧ (∀ g, r.1.fwdTarget g = if v.fwd = some g then none else n.fwdTarget g)
      ∧ okPosts r.2 = [] ∧ (∀ q ∈ fwdPkts r.2, q.ty = .err) := by
    intro n2 a1 a2 a3 a4 a5 a6
    obtain ⟨b1, b2, b3, b4, b5, b6, b7⟩ := hfin n2 a1 a2 a3 a4 a5 a6
    refine ⟨b1, b2, b3, b4, ?_, b6, b7, ?_, ?_⟩
    · intro o
      rw [sv_setTcp]
      split
      · rw [c1]; simp [TcpSock.hview, ha]
      · exact b5 o
    · rw [okPosts_append, hok, c2]; rfl
    · intro q hq
      rw [fwdPkts_append, c3, List.append_nil] at hq
      exact hfwd q hq
  cases hd : s.bound.isDefault with
  | true =>
    have hd' : v.bound.isDefault = true := by rw [← hb]; exact hd
    simp only [Bool.not_true, Bool.false_eq_true, if_false]
    exact hn2 n1 hcfg hfw hcl (by simp [hd', hreg]) hsv hcv
  | false =>
    have hd' : v.bound.isDefault = false := by rw [← hb]; exact hd
    simp only [Bool.not_false, if_true]
    exact hn2 _ hcfg hfw hcl (by simp [hd', hreg, hb]) hsv hcv

theorem tcpClose_sum (n : NetSt) (now : Int) (name : String) (v : SockV) (hv : n.sv name = some v) :
    let r := n.tcpClose now name
    r.1.cfg = n.cfg ∧ r.1.fwds.length = n.fwds.length ∧ r.1.chans.length = n.chans.length
    ∧ r.1.reg.tcp = (if v.bound.isDefault then n.reg.tcp else simUnbind n.reg.tcp name v.bound)
    ∧ (∀ o, r.1.sv o = if o = name then some ⟨false, {}, none, none, none, v.acc⟩ else n.sv o)
    ∧ (∀ c, r.1.cv c = n.cv c)
    ∧ (∀ g, r.1.fwdTarget g = if v.fwd = some g then none else n.fwdTarget g)
    ∧ okPosts r.2 = [] ∧ (∀ q ∈ fwdPkts r.2, q.ty = .err) := by
  obtain ⟨s0, hs0, hv0⟩ := sv_some hv
  rw [tcpClose_eq]
  simp only [hs0]
  apply tcpCloseTail_sum n name v hv
  all_goals unfold tcpCloseEof
  all_goals cases hc : s0.chan.bind n.chan? with
    | none => simp
    | some ch =>
      simp only
      split
      · obtain ⟨t1, t2, t3, t4, t5, t6, t7, t8⟩ := tcpSendPacket_sum (n.setTcp name { s0 with nextOut := s0.nextOut + 1 }) now name
          { id := s0.nextOut, ty := .err, ec := .eof, len := 0, ovh := 40, hops := ch.hops (ch.remoteIdx s0.bound), src := s0.bound.toString }
        first
          | (rw [t1]; rfl) | (rw [t2]; rfl) | (rw [t3]; rfl) | (rw [t4]; rfl) | exact t7
          | (intro c; rw [t6]; rfl)
          | (intro q hq; exact (t8 q hq).1)
          | (intro o
             rw [t5, sv_setTcp]
             split
             · rename_i h; subst h; simp [NetSt.sv, hs0, TcpSock.hview]
             · rfl)
      · simp

theorem tcpOpen_sum (n : NetSt) (now : Int) (name : String) (v4 : Bool) (v : SockV) (hv : n.sv name = some v) :
    let r := n.tcpOpen now name v4
    r.1.cfg = n.cfg ∧ r.1.fwds.length = n.fwds.length + 1 ∧ r.1.chans.length = n.chans.length
    ∧ r.1.reg.tcp = (if v.bound.isDefault then n.reg.tcp else simUnbind n.reg.tcp name v.bound)
    ∧ (∀ o, r.1.sv o = if o = name then some ⟨true, {}, some n.fwds.length, none, none, v.acc⟩ else n.sv o)
    ∧ (∀ c, r.1.cv c = n.cv c)
    ∧ (∀ g, r.1.fwdTarget g = if g = n.fwds.length then some name else if v.fwd = some g then none else n.fwdTarget g)
    ∧ okPosts r.2 = [] ∧ (∀ q ∈ fwdPkts r.2, q.ty = .err) := by
  obtain ⟨c1, c2, c3, c4, c5, c6, c7, c8, c9⟩ := tcpClose_sum n now name v hv
  unfold NetSt.tcpOpen
  generalize n.tcpClose now name = r at *
  obtain ⟨n1, e⟩ := r
  simp only at c1 c2 c3 c4 c5 c6 c7 c8 c9 ⊢
  have h1 := c5 name
  simp only [if_true] at h1
  obtain ⟨s1, hs1, hv1⟩ := sv_some h1
  simp only [hs1]
  refine ⟨by simp [c1], by simp [c2], by simp [c3], by simp [c4], ?_, ?_, ?_, c8, c9⟩
  · intro o
    rw [sv_setTcp]
    split
    · have ha : s1.acc = v.acc := congrArg SockV.acc hv1
      have hb : s1.bound = {} := congrArg SockV.bound hv1
      have hc : s1.chan = none := congrArg SockV.chan hv1
      have hd : s1.connectH = none := congrArg SockV.connectH hv1
      simp [TcpSock.hview, c2, ha, hb, hc, hd]
    · rename_i h; simp [c5 o, h]
  · intro c; simp [c6 c]
  · intro g
    rw [setTcp_fwdTarget, fwdTarget_newFwd, c2, c7 g]

theorem cv_some {n : NetSt} {c : Nat} {v : ChanV} (h : n.cv c = some v) :
    ∃ ch, n.chan? c = some ch ∧ ch.hview = v := by
  simp only [NetSt.cv, Option.map_eq_some_iff] at h; exact h

/-! ### `tcp::socket::internal_connect` (attach an incoming connection) -/

theorem tcpAttach_sum (n : NetSt) (now : Int) (peer : String) (bindEp : Ep) (cid : Nat) (v : SockV) (cv0 : ChanV)
    (hv : n.sv peer = some v) (hc : n.cv cid = some cv0) :
    let r := n.tcpAttach now peer bindEp cid
    r.1.cfg = n.cfg ∧ r.1.fwds.length = n.fwds.length + 1 ∧ r.1.chans.length = n.chans.length
    ∧ r.1.reg.tcp = (if v.bound.isDefault then n.reg.tcp else simUnbind n.reg.tcp peer v.bound)
    ∧ (∀ o, r.1.sv o = if o = peer then some ⟨true, bindEp, some n.fwds.length, some cid, none, v.acc⟩ else n.sv o)
    ∧ (∀ d, r.1.cv d = if d = cid then some { cv0 with hops1 := cv0.hops1.dropLast ++ [fwdHop n.fwds.length] } else n.cv d)
    ∧ (∀ g, r.1.fwdTarget g = if g = n.fwds.length then some peer else if v.fwd = some g then none else n.fwdTarget g)
    ∧ okPosts r.2 = [] ∧ (∀ q ∈ fwdPkts r.2, q.ty = .err) := by
  obtain ⟨p0, hp0, _⟩ := sv_some hv
  obtain ⟨c1, c2, c3, c4, c5, c6, c7, c8, c9⟩ := tcpOpen_sum n now peer p0.isV4 v hv
  unfold NetSt.tcpAttach
  simp only [hp0]
  generalize n.tcpOpen now peer p0.isV4 = r at *
  obtain ⟨n1, e⟩ := r
  simp only at c1 c2 c3 c4 c5 c6 c7 c8 c9 ⊢
  have h1 := c5 peer
  simp only [if_true] at h1
  obtain ⟨p, hp, hpv⟩ := sv_some h1
  have h2 := c6 cid
  rw [hc] at h2
  obtain ⟨ch, hch, hchv⟩ := cv_some h2
  simp only [hp, hch]
  have hf : p.fwd = some n.fwds.length := congrArg SockV.fwd hpv
  have ha : p.acc = v.acc := congrArg SockV.acc hpv
  have hh : ch.hops1 = cv0.hops1 := congrArg ChanV.hops1 hchv
  refine ⟨by simp [c1], by simp [c2], by simp [c3], by simp [c4], ?_, ?_, ?_, c8, c9⟩
  · intro o
    rw [sv_setChan, sv_setTcp]
    split
    · have hd : p.connectH = none := congrArg SockV.connectH hpv
      have ho : p.isOpen = true := congrArg SockV.isOpen hpv
      simp [TcpSock.hview, hf, ha, hd, ho]
    · rename_i h; simp [c5 o, h]
  · intro d
    rw [cv_setChan, cv_setTcp]
    split
    · rename_i h; subst h
      rw [h2]
      simp only [Option.map_some, hf, Chan.hview, hh, Option.some.injEq]
      rw [← hchv]; rfl
    · exact c6 d
  · intro g
    rw [setChan_fwdTarget, setTcp_fwdTarget, c7 g]

/-! ### the acceptor -/

theorem abortAccept_sum (s : TcpSock) :
    (s.abortAccept).1.hview = { s.hview with acc := s.acc.map (fun a => { a with acceptOp := none }) }
    ∧ okPosts (s.abortAccept).2 = [] ∧ fwdPkts (s.abortAccept).2 = [] := by
  unfold TcpSock.abortAccept
  cases ha : s.acc with
  | none => simp [TcpSock.hview, ha]
  | some a =>
    cases hop : a.acceptOp with
    | none =>
      simp only [Option.map_some, hop]
      refine ⟨?_, rfl, rfl⟩
      simp only [TcpSock.hview, ha, ← hop]
    | some op =>
      simp only [Option.map_some, hop]
      refine ⟨rfl, ?_, ?_⟩
      · cases op <;> simp [okPosts, acceptAbortEff]
      · cases op <;> simp [fwdPkts, acceptAbortEff]

/-- nothing to hand over: no accept outstanding, or no connection queued -/
theorem accCheckQueue_idle (n : NetSt) (now : Int) (a : String) (va : SockV) (ac : AccState)
    (hv : n.sv a = some va) (hac : va.acc = some ac) (ho : va.isOpen = true)
    (hidle : ac.acceptOp = none ∨ ac.conns = []) :
    n.accCheckQueue now a = (n, []) := by
  obtain ⟨s0, hs0, hv0⟩ := sv_some hv
  have h1 : s0.acc = some ac := by rw [← hac, ← hv0]; rfl
  have h2 : s0.isOpen = true := by rw [← ho, ← hv0]; rfl
  unfold NetSt.accCheckQueue
  simp only [hs0, h1, h2, Bool.not_true, Bool.false_eq_true, if_false]
  rcases hidle with h | h
  · simp [h]
  · cases hop : ac.acceptOp <;> simp [h]

/-- a closed acceptor resets whatever is queued and aborts the accept -/
theorem accCheckQueue_closed (n : NetSt) (now : Int) (a : String) (va : SockV) (ac : AccState)
    (hv : n.sv a = some va) (hac : va.acc = some ac) (ho : va.isOpen = false) :
    let r := n.accCheckQueue now a
    r.1.cfg = n.cfg ∧ r.1.fwds = n.fwds ∧ r.1.chans = n.chans ∧ r.1.reg = n.reg
    ∧ (∀ o, r.1.sv o = if o = a then some { va with acc := some { ac with conns := [], acceptOp := none } } else n.sv o)
    ∧ okPosts r.2 = [] ∧ (∀ q ∈ fwdPkts r.2, q.ty = .err) := by
  obtain ⟨s0, hs0, hv0⟩ := sv_some hv
  have h1 : s0.acc = some ac := by rw [← hac, ← hv0]; rfl
  have h2 : s0.isOpen = false := by rw [← ho, ← hv0]; rfl
  obtain ⟨b1, b2, b3⟩ := abortAccept_sum { s0 with acc := some { ac with conns := [] } }
  unfold NetSt.accCheckQueue
  simp only [hs0, h1]
  rw [if_pos (by simp [h2])]
  generalize ({ s0 with acc := some { ac with conns := [] } } : TcpSock).abortAccept = ab at *
  obtain ⟨s1, e1⟩ := ab
  simp only at b1 b2 b3 ⊢
  have hacc : s1.acc = some { ac with conns := [], acceptOp := none } := by
    have := congrArg SockV.acc b1
    simpa [TcpSock.hview] using this
  simp only [tcp?_setTcp_same, hacc]
  refine ⟨rfl, rfl, rfl, rfl, ?_, ?_, ?_⟩
  · intro o
    rw [sv_setTcp]
    split
    · rw [b1, ← hv0]; simp [TcpSock.hview]
    · rfl
  · rw [okPosts_append, b2]
    simp [okPosts, List.filterMap_filterMap]
  · intro q hq
    rw [fwdPkts_append, b3] at hq
    simp [fwdPkts, List.filterMap_filterMap] at hq
    obtain ⟨c, _, hq⟩ := hq
    cases hcc : n.chan? c with
    | none => simp [hcc] at hq
    | some ch => simp [hcc] at hq; subst hq; rfl

/-- the hand-over: the oldest queued connection goes to the outstanding accept -/
theorem accCheckQueue_pop (n : NetSt) (now : Int) (a : String) (va : SockV) (ac : AccState)
    (op : AcceptOp) (c : Nat) (rest : List Nat) (vp : SockV) (cv0 : ChanV)
    (hv : n.sv a = some va) (hac : va.acc = some ac) (ho : va.isOpen = true)
    (hop : ac.acceptOp = some op) (hconns : ac.conns = c :: rest)
    (hpa : op.peer ≠ a) (hvp : n.sv op.peer = some vp) (hcv : n.cv c = some cv0) :
    let r := n.accCheckQueue now a
    r.1.cfg = n.cfg ∧ r.1.fwds.length = n.fwds.length + 1 ∧ r.1.chans.length = n.chans.length
    ∧ r.1.reg.tcp = (if vp.bound.isDefault then n.reg.tcp else simUnbind n.reg.tcp op.peer vp.bound)
    ∧ (∀ o, r.1.sv o = if o = op.peer then some ⟨true, va.bound, some n.fwds.length, some c, none, vp.acc⟩
                      else if o = a then some { va with acc := some { ac with conns := rest, acceptOp := none } }
                      else n.sv o)
    ∧ (∀ d, r.1.cv d = if d = c then some { cv0 with hops1 := cv0.hops1.dropLast ++ [fwdHop n.fwds.length] } else n.cv d)
    ∧ (∀ g, r.1.fwdTarget g = if g = n.fwds.length then some op.peer else if vp.fwd = some g then none else n.fwdTarget g)
    ∧ okPosts r.2 = [{ h := op.h, ec := .ok, extra := if op.withEp then "ep=" ++ cv0.vis0.toString else "" }]
    ∧ (∀ q ∈ fwdPkts r.2, q.ty = .err ∨ (q.ty = .synack ∧ q.chan = some c ∧ q.hops = cv0.hops0)) := by
  obtain ⟨s0, hs0, hv0⟩ := sv_some hv
  have h1 : s0.acc = some ac := by rw [← hac, ← hv0]; rfl
  have h2 : s0.isOpen = true := by rw [← ho, ← hv0]; rfl
  have hb : s0.bound = va.bound := by rw [← hv0]; rfl
  obtain ⟨ch0, hch0, hchv0⟩ := cv_some hcv
  unfold NetSt.accCheckQueue
  simp only [hs0, h1]
  rw [if_neg (by simp [h2])]
  simp only [hs0, h1, hop, hconns]
  -- the state handed to `tcpAttach`
  generalize hn1 : n.setTcp a { s0 with acc := some { ac with conns := rest, acceptOp := none } } = n1
  have e1 : ∀ o, n1.sv o = if o = a then some { va with acc := some { ac with conns := rest, acceptOp := none } } else n.sv o := by
    intro o; rw [← hn1, sv_setTcp]; split
    · rw [← hv0]; rfl
    · rfl
  have e2 : n1.sv op.peer = some vp := by rw [e1, if_neg hpa, hvp]
  have e3 : n1.cv c = some cv0 := by rw [← hn1]; exact hcv
  have e4 : n1.fwds.length = n.fwds.length := by rw [← hn1]; rfl
  have e5 : n1.chans.length = n.chans.length := by rw [← hn1]; rfl
  have e6 : n1.reg = n.reg := by rw [← hn1]; rfl
  have e7 : ∀ g, n1.fwdTarget g = n.fwdTarget g := by intro g; rw [← hn1]; rfl
  have e8 : ∀ d, n1.cv d = n.cv d := by intro d; rw [← hn1]; rfl
  have e9 : n1.cfg = n.cfg := by rw [← hn1]; rfl
  have e10 : n1.chan? c = some ch0 := by rw [← hn1]; exact hch0
  cases op <;>
  ( simp only [AcceptOp.peer] at hpa hvp e2 ⊢
    obtain ⟨c1, c2, c3, c4, c5, c6, c7, c8, c9⟩ := tcpAttach_sum n1 now _ s0.bound c vp cv0 e2 e3
    generalize n1.tcpAttach now _ s0.bound c = r at *
    obtain ⟨n2, e⟩ := r
    simp only at c1 c2 c3 c4 c5 c6 c7 c8 c9 ⊢
    have h6 := c6 c
    simp only [if_true] at h6
    obtain ⟨ch2, hch2, hchv2⟩ := cv_some h6
    simp only [hch2, e10, Option.map_some, Option.getD_some]
    refine ⟨by rw [c1, e9], by rw [c2, e4], by rw [c3, e5], by rw [c4, e6], ?_, ?_, ?_, ?_, ?_⟩
    · intro o
      rw [c5 o, e4, hb]
      split
      · rename_i h; simp [h]
      · rename_i h; simp [h, e1 o]
    · intro d
      rw [c6 d, e4]
      split
      · rename_i h; simp [h]
      · rename_i h; simp [h, e8 d]
    · intro g
      rw [c7 g, e4, e7]
    · have hvis : ch0.vis0 = cv0.vis0 := congrArg ChanV.vis0 hchv0
      simp only [okPosts_append, c8, List.nil_append, okPosts_nil]
      simp [okPosts, AcceptOp.h, AcceptOp.withEp, hvis]
      try (rename_i w; cases w <;> rfl)
    · intro q hq
      simp only [fwdPkts_append, List.mem_append, fwdPkts_nil, List.not_mem_nil, false_or] at hq
      rcases hq with hq | hq
      · exact Or.inl (c9 q hq)
      · right
        have hh : ch2.hops0 = cv0.hops0 := congrArg ChanV.hops0 hchv2
        simp [fwdPkts] at hq; subst hq; simp [hh] )

/-! ### `simulation::internal_connect` -/

def SockV.listening (v : SockV) : Bool :=
  match v.acc with
  | some a => decide (0 < a.queueLimit)
  | none => false

theorem isListening_view (s : TcpSock) : s.isListening = s.hview.listening := rfl

/-- the dialled endpoint is owned by a listening socket -/
def _root_.SimVerif.NetSt.Listening (n : NetSt) (target : Ep) : Prop :=
  ∃ rname rs, n.reg.tcp.lookup target = some rname ∧ n.tcp? rname = some rs ∧ rs.isListening = true

theorem internalConnect_refused (n : NetSt) (name : String) (target : Ep) (h : ¬ n.Listening target) :
    n.internalConnect name target = (n, [], none) := by
  unfold NetSt.internalConnect
  cases hs : n.tcp? name with
  | none => rfl
  | some s =>
    simp only
    cases hl : n.reg.tcp.lookup target with
    | none => rfl
    | some rname =>
      simp only
      cases hr : n.tcp? rname with
      | none => rfl
      | some r =>
        simp only
        cases hli : r.isListening with
        | false => simp
        | true => exact absurd ⟨rname, r, hl, hr, hli⟩ h

theorem internalConnect_ok (n : NetSt) (name : String) (target : Ep) (v : SockV) (rname : String) (rv : SockV)
    (hv : n.sv name = some v) (hl : n.reg.tcp.lookup target = some rname) (hr : n.sv rname = some rv)
    (hli : rv.listening = true) :
    let r := n.internalConnect name target
    let net := n.cfg.netRoute v.bound.addr target.addr
    let h0 := n.cfg.outRoute rv.bound.addr ++ net ++ n.incomingRoute v.bound v.fwd
    let h1 := n.cfg.outRoute v.bound.addr ++ net ++ n.incomingRoute rv.bound rv.fwd
    r.2.2 = some n.chans.length
    ∧ r.1.cfg = n.cfg ∧ r.1.reg = n.reg ∧ r.1.fwds = n.fwds ∧ (∀ o, r.1.tcp? o = n.tcp? o)
    ∧ r.1.chans.length = n.chans.length + 1
    ∧ (∀ d, r.1.cv d = if d = n.chans.length then some ⟨h0, h1, v.bound, rv.bound, v.bound, rv.bound⟩ else n.cv d)
    ∧ (∃ syn : Pkt, r.2.1 = [.forward syn] ∧ syn.ty = .syn ∧ syn.chan = some n.chans.length ∧ syn.hops = h1
         ∧ syn.src = v.bound.toString) := by
  obtain ⟨s, hs, hsv⟩ := sv_some hv
  obtain ⟨r, hr', hrv⟩ := sv_some hr
  have hli' : r.isListening = true := by rw [isListening_view, hrv]; exact hli
  have e1 : s.bound = v.bound := congrArg SockV.bound hsv
  have e2 : s.fwd = v.fwd := congrArg SockV.fwd hsv
  have e3 : r.bound = rv.bound := congrArg SockV.bound hrv
  have e4 : r.fwd = rv.fwd := congrArg SockV.fwd hrv
  unfold NetSt.internalConnect
  simp only [hs, hl, hr', hli', Bool.not_true, Bool.false_eq_true, if_false, e1, e2, e3, e4]
  refine ⟨?a1, ?a2, ?a3, ?a4, ?a5, ?a6, ?a7, ?a8⟩
  case a7 =>
    intro d
    simp only [NetSt.cv, NetSt.chan?]
    by_cases hd : d = n.chans.length
    · subst hd; simp [Chan.hview, NetSt.incomingRoute]
    · simp only [hd, if_false]
      by_cases hlt : d < n.chans.length
      · rw [List.getElem?_append_left hlt]
      · have h1 : n.chans.length ≤ d := by omega
        rw [List.getElem?_eq_none (by simpa using (by omega : n.chans.length + 1 ≤ d)), List.getElem?_eq_none h1]
  case a8 => exact ⟨_, rfl, rfl, rfl, rfl, rfl⟩
  all_goals first | rfl | trivial | (intro _; rfl) | simp

/-! ### `acceptor::close`, `listen`, `incoming_packet`, `async_accept` -/

theorem accClose_sum (n : NetSt) (now : Int) (a : String) (va : SockV) (ac : AccState)
    (hv : n.sv a = some va) (hac : va.acc = some ac) :
    let r := n.accClose now a
    r.1.cfg = n.cfg ∧ r.1.fwds.length = n.fwds.length ∧ r.1.chans.length = n.chans.length
    ∧ r.1.reg.tcp = (if va.bound.isDefault then n.reg.tcp else simUnbind n.reg.tcp a va.bound)
    ∧ (∀ o, r.1.sv o = if o = a then some ⟨false, {}, none, none, none, some { ac with queueLimit := -1, conns := [], acceptOp := none }⟩ else n.sv o)
    ∧ (∀ c, r.1.cv c = n.cv c)
    ∧ (∀ g, r.1.fwdTarget g = if va.fwd = some g then none else n.fwdTarget g)
    ∧ okPosts r.2 = [] ∧ (∀ q ∈ fwdPkts r.2, q.ty = .err) := by
  obtain ⟨s0, hs0, hv0⟩ := sv_some hv
  have h1 : s0.acc = some ac := by rw [← hac, ← hv0]; rfl
  unfold NetSt.accClose
  simp only [hs0, h1]
  obtain ⟨b1, b2, b3⟩ := abortAccept_sum { s0 with acc := some { ac with queueLimit := -1 } }
  generalize ({ s0 with acc := some { ac with queueLimit := -1 } } : TcpSock).abortAccept = ab at *
  obtain ⟨s1, e1⟩ := ab
  simp only at b1 b2 b3 ⊢
  have hv1 : (n.setTcp a s1).sv a = some { va with acc := some { ac with queueLimit := -1, acceptOp := none } } := by
    rw [sv_setTcp, if_pos rfl, b1, ← hv0]; rfl
  obtain ⟨c1, c2, c3, c4, c5, c6, c7, c8, c9⟩ := tcpClose_sum (n.setTcp a s1) now a _ hv1
  generalize (n.setTcp a s1).tcpClose now a = r at *
  obtain ⟨n2, e2⟩ := r
  simp only at c1 c2 c3 c4 c5 c6 c7 c8 c9 ⊢
  have hv2 : n2.sv a = some ⟨false, {}, none, none, none, some { ac with queueLimit := -1, acceptOp := none }⟩ := by
    rw [c5 a, if_pos rfl]
  obtain ⟨d1, d2, d3, d4, d5, d6, d7⟩ := accCheckQueue_closed n2 now a _ _ hv2 rfl rfl
  generalize n2.accCheckQueue now a = r at *
  obtain ⟨n3, e3⟩ := r
  simp only at d1 d2 d3 d4 d5 d6 d7 ⊢
  refine ⟨by rw [d1, c1]; rfl, by rw [d2, c2]; rfl, by rw [d3, c3]; rfl, by rw [d4, c4]; rfl, ?_, ?_, ?_, ?_, ?_⟩
  · intro o
    rw [d5 o]
    split
    · rfl
    · rename_i h; rw [c5 o, if_neg h, sv_setTcp, if_neg h]
  · intro c; simp only [NetSt.cv, NetSt.chan?, d3] ; exact c6 c
  · intro g; simp only [NetSt.fwdTarget, d2]; exact c7 g
  · rw [okPosts_append, okPosts_append, b2, c8, d6]; rfl
  · intro q hq
    rw [fwdPkts_append, fwdPkts_append, b3, List.nil_append] at hq
    rcases List.mem_append.mp hq with hq | hq
    · exact c9 q hq
    · exact d7 q hq

theorem accListen_sum (n : NetSt) (a : String) (qs : Int) (va : SockV) (ac : AccState)
    (hv : n.sv a = some va) (hac : va.acc = some ac) :
    (n.accListen a qs).1 = n ∨
    (va.isOpen = true ∧ va.bound.isDefault = false ∧ ∃ s0, n.tcp? a = some s0 ∧
      (n.accListen a qs).1 = n.setTcp a { s0 with acc := some { ac with queueLimit := if qs = -1 then 20 else qs } }) := by
  obtain ⟨s0, hs0, hv0⟩ := sv_some hv
  have h1 : s0.acc = some ac := by rw [← hac, ← hv0]; rfl
  have h2 : s0.isOpen = va.isOpen := by rw [← hv0]; rfl
  unfold NetSt.accListen
  simp only [hs0, h1]
  cases ho : s0.isOpen with
  | false => left; simp
  | true =>
    simp only [Bool.not_true, Bool.false_eq_true, if_false]
    cases hb : s0.bound.isDefault with
    | true => left; simp
    | false => right; exact ⟨by rw [← h2, ho], by rw [← hb, ← hv0]; rfl, s0, rfl, by simp [ho]⟩

theorem accIncoming_syn (n : NetSt) (now : Int) (a : String) (pk : Pkt) (c : Nat) (s0 : TcpSock) (ac : AccState)
    (hs : n.tcp? a = some s0) (hac : s0.acc = some ac) (hty : pk.ty = .syn) (hc : pk.chan = some c) :
    n.accIncoming now a pk
      = (n.setTcp a { s0 with acc := some { ac with conns := ac.conns ++ [c] } }).accCheckQueue now a := by
  unfold NetSt.accIncoming
  simp only [hs, hty, hc, hac]

theorem tcpIncoming_synack (tp : TParams) (n : NetSt) (now : Int) (name : String) (pk : Pkt) (v : SockV)
    (hv : n.sv name = some v) (hty : pk.ty = .synack) :
    (v.connectH = none → n.tcpIncoming tp now name pk = (n, []))
    ∧ (∀ hh, v.connectH = some hh → ∃ s0, n.tcp? name = some s0 ∧ s0.hview = v ∧
        n.tcpIncoming tp now name pk
          = (n.setTcp name { s0 with connectH := none }, [.post { h := hh, ec := .ok }, .tcpWake name])) := by
  obtain ⟨s0, hs0, hv0⟩ := sv_some hv
  have hc : s0.connectH = v.connectH := congrArg SockV.connectH hv0
  constructor
  · intro hn
    unfold NetSt.tcpIncoming
    simp only [hs0, hty, hc, hn]
  · intro hh hn
    refine ⟨s0, hs0, hv0, ?_⟩
    unfold NetSt.tcpIncoming
    simp only [hs0, hty, hc, hn]

/-! ### `async_connect` in stages (same text as `NetSt.tcpConnect`; `tcpConnect_eq` checks it) -/

/-- the implicit bind to the wildcard of the target's family, ephemeral port -/
def connBind (n : NetSt) (name : String) (s : TcpSock) (target : Ep) : NetSt × Ec :=
  if s.bound.addr == "0.0.0.0" then
    let anyEp : Ep := { addr := if target.isV4 then "0.0.0.0" else "::", port := 0 }
    match ioResolve (n.cfg.ipsOf s.node) anyEp with
    | .error e => (n, e)
    | .ok ep1 =>
      let (tbl, np, r) := simBind n.reg.tcp n.reg.nextPort name ep1
      let n := { n with reg := { n.reg with tcp := tbl, nextPort := np } }
      match r with
      | .error e => (n, e)
      | .ok ep2 => (n.setTcp name { s with bound := ep2 }, .ok)
  else (n, .ok)

/-- the family check, `internal_connect`, and what becomes of the handler -/
def connDial (n : NetSt) (name : String) (target : Ep) (h : Nat) (e0 : List NEff) : NetSt × List NEff :=
  match n.tcp? name with
  | none => (n, e0)
  | some s =>
    if s.bound.isV4 != target.isV4 then (n, e0 ++ [.post { h := h, ec := .afNoSupport }])
    else
      let (n, e1, cid) := n.internalConnect name target
      let mss := n.cfg.pathMtu s.bound.addr target.addr
      match n.tcp? name with
      | none => (n, e0)
      | some s =>
        let s := { s with mss := mss, cwnd := mss * 2 }
        match cid with
        | none =>
          (n.setTcp name { s with chan := none },
            e0 ++ e1 ++ [.armAfter name 0 50000000 (.tcpConnectRefused name h)])
        | some c => (n.setTcp name { s with chan := some c, connectH := some h }, e0 ++ e1)

theorem tcpConnect_eq (n : NetSt) (now : Int) (name : String) (target : Ep) (h : Nat) (s0 : TcpSock)
    (hs0 : n.tcp? name = some s0) :
    n.tcpConnect now name target h =
      (match (if !s0.isOpen then n.tcpOpen now name target.isV4 else (n, [])) with
       | (n1, e0) =>
         match n1.tcp? name with
         | none => (n1, e0)
         | some s =>
           match connBind n1 name s target with
           | (n2, ecb) =>
             if ecb != .ok then (n2, e0 ++ [.post { h := h, ec := ecb }]) else connDial n2 name target h e0) := by
  unfold NetSt.tcpConnect connBind connDial
  simp only [hs0]
  rfl

theorem probePort_free (tbl : List (Ep × String)) (addr : String) :
    ∀ fuel port p, probePort tbl addr fuel port = some p → tbl.lookup { addr := addr, port := p } = none := by
  intro fuel
  induction fuel with
  | zero => intro port p h; simp [probePort] at h
  | succ f ih =>
    intro port p h
    unfold probePort at h
    split at h
    · split at h
      · cases h
      · exact ih _ _ h
    · rename_i hn
      cases h
      cases hl : tbl.lookup { addr := addr, port := port } with
      | none => rfl
      | some x => simp [hl] at hn

theorem simBind_sum (tbl : List (Ep × String)) (np : Nat) (name : String) (ep : Ep) :
    (∀ e, (simBind tbl np name ep).2.2 = .error e → (simBind tbl np name ep).1 = tbl)
    ∧ (∀ ep2, (simBind tbl np name ep).2.2 = .ok ep2 →
        tbl.lookup ep2 = none ∧ (simBind tbl np name ep).1 = tbl ++ [(ep2, name)]) := by
  unfold simBind
  split
  · exact ⟨fun _ _ => rfl, fun _ h => by cases h⟩
  · split
    · cases hp : probePort tbl ep.addr 65536 np with
      | none => exact ⟨fun _ _ => rfl, fun _ h => by cases h⟩
      | some port =>
        refine ⟨fun _ h => (by cases h), fun ep2 h => ?_⟩
        simp only [Except.ok.injEq] at h; subst h
        exact ⟨probePort_free tbl ep.addr _ _ _ hp, rfl⟩
    · split
      · exact ⟨fun _ _ => rfl, fun _ h => by cases h⟩
      · rename_i hn
        refine ⟨fun _ h => (by cases h), fun ep2 h => ?_⟩
        simp only [Except.ok.injEq] at h; subst h
        refine ⟨?_, rfl⟩
        cases hl : tbl.lookup ep with
        | none => rfl
        | some x => simp [hl] at hn

theorem connBind_sum (n : NetSt) (name : String) (s : TcpSock) (target : Ep) :
    let r := connBind n name s target
    r.1.cfg = n.cfg ∧ r.1.fwds = n.fwds ∧ r.1.chans = n.chans ∧
    ((r.1.reg.tcp = n.reg.tcp ∧ (∀ o, r.1.tcp? o = n.tcp? o))
     ∨ (r.2 = .ok ∧ ∃ ep2, n.reg.tcp.lookup ep2 = none ∧ r.1.reg.tcp = n.reg.tcp ++ [(ep2, name)]
          ∧ ∀ o, r.1.tcp? o = if o = name then some { s with bound := ep2 } else n.tcp? o)) := by
  unfold connBind
  split
  · simp only
    cases hio : ioResolve (n.cfg.ipsOf s.node) { addr := if target.isV4 = true then "0.0.0.0" else "::", port := 0 } with
    | error e => exact ⟨rfl, rfl, rfl, Or.inl ⟨rfl, fun _ => rfl⟩⟩
    | ok ep1 =>
      simp only
      obtain ⟨b1, b2⟩ := simBind_sum n.reg.tcp n.reg.nextPort name ep1
      generalize simBind n.reg.tcp n.reg.nextPort name ep1 = sb at *
      obtain ⟨tbl, np, r⟩ := sb
      simp only at b1 b2 ⊢
      cases r with
      | error e =>
        have := b1 e rfl; subst this
        exact ⟨rfl, rfl, rfl, Or.inl ⟨rfl, fun _ => rfl⟩⟩
      | ok ep2 =>
        obtain ⟨c1, c2⟩ := b2 ep2 rfl
        subst c2
        exact ⟨rfl, rfl, rfl, Or.inr ⟨rfl, ep2, c1, rfl, fun o => by rw [tcp?_setTcp]; rfl⟩⟩
  · exact ⟨rfl, rfl, rfl, Or.inl ⟨rfl, fun _ => rfl⟩⟩

theorem connDial_sum (n : NetSt) (name : String) (target : Ep) (h : Nat) (e0 : List NEff) (s : TcpSock)
    (hs : n.tcp? name = some s) :
    let r := connDial n name target h e0
    (s.bound.isV4 ≠ target.isV4 ∧ r.1 = n ∧ r.2 = e0 ++ [.post { h := h, ec := .afNoSupport }])
    ∨ (¬ n.Listening target
        ∧ r.1 = n.setTcp name { s with mss := n.cfg.pathMtu s.bound.addr target.addr,
                                       cwnd := n.cfg.pathMtu s.bound.addr target.addr * 2, chan := none }
        ∧ r.2 = e0 ++ [.armAfter name 0 50000000 (.tcpConnectRefused name h)])
    ∨ (n.Listening target
        ∧ r.1 = (n.internalConnect name target).1.setTcp name
                  { s with mss := n.cfg.pathMtu s.bound.addr target.addr,
                           cwnd := n.cfg.pathMtu s.bound.addr target.addr * 2,
                           chan := some n.chans.length, connectH := some h }
        ∧ r.2 = e0 ++ (n.internalConnect name target).2.1) := by
  unfold connDial
  simp only [hs]
  split
  · rename_i hfam
    exact Or.inl ⟨by simpa using hfam, rfl, rfl⟩
  · right
    by_cases hl : n.Listening target
    · right
      obtain ⟨rname, rs, l1, l2, l3⟩ := hl
      obtain ⟨c1, c2, _, _, c5, _, _, _⟩ := internalConnect_ok n name target s.hview rname rs.hview
        (by simp [NetSt.sv, hs]) l1 (by simp [NetSt.sv, l2]) (by rw [← isListening_view]; exact l3)
      generalize n.internalConnect name target = r at *
      obtain ⟨n1, e1, cid⟩ := r
      simp only at c1 c2 c5 ⊢
      subst c1
      rw [c5 name, hs]
      simp only [c2]
      exact ⟨⟨rname, rs, l1, l2, l3⟩, trivial, trivial⟩
    · left
      rw [internalConnect_refused n name target hl]
      simp only [hs, List.append_nil]
      exact ⟨hl, trivial, trivial⟩

/-! ### `bind`, `cancel` (socket and acceptor), an error packet at the acceptor -/

theorem lookup_append_none {α β : Type} [BEq α] [LawfulBEq α] (l : List (α × β)) (k : α) (v : β)
    (h : l.lookup k = none) : (l ++ [(k, v)]).lookup k = some v := by
  induction l with
  | nil => simp [List.lookup]
  | cons y ys ih =>
    obtain ⟨k₀, v₀⟩ := y
    simp only [List.cons_append, List.lookup_cons] at h ⊢
    cases hk : (k == k₀)
    · simp only [hk] at h; exact ih h
    · simp only [hk] at h; cases h

theorem tcpBind_sum (n : NetSt) (name : String) (ep : Ep) (s0 : TcpSock) (hs0 : n.tcp? name = some s0) :
    let r := n.tcpBind name ep
    r.1.cfg = n.cfg ∧ r.1.fwds = n.fwds ∧ r.1.chans = n.chans ∧
    ((r.1.reg.tcp = n.reg.tcp ∧ (∀ o, r.1.tcp? o = n.tcp? o))
     ∨ (s0.isOpen = true ∧ s0.bound.isDefault = true ∧ r.2 = .ok
          ∧ ∃ ep2, n.reg.tcp.lookup ep2 = none ∧ r.1.reg.tcp = n.reg.tcp ++ [(ep2, name)]
          ∧ ∀ o, r.1.tcp? o = if o = name then some { s0 with bound := ep2 } else n.tcp? o)) := by
  unfold NetSt.tcpBind
  simp only [hs0]
  cases ho : s0.isOpen with
  | false => exact ⟨rfl, rfl, rfl, Or.inl ⟨rfl, fun _ => rfl⟩⟩
  | true =>
    simp only [Bool.not_true, Bool.false_eq_true, if_false]
    split
    · exact ⟨rfl, rfl, rfl, Or.inl ⟨rfl, fun _ => rfl⟩⟩
    · cases hb : s0.bound.isDefault with
      | false => exact ⟨rfl, rfl, rfl, Or.inl ⟨rfl, fun _ => rfl⟩⟩
      | true =>
        simp only [Bool.not_true, Bool.false_eq_true, if_false]
        cases hio : ioResolve (n.cfg.ipsOf s0.node) ep with
        | error e => exact ⟨rfl, rfl, rfl, Or.inl ⟨rfl, fun _ => rfl⟩⟩
        | ok ep1 =>
          simp only
          obtain ⟨b1, b2⟩ := simBind_sum n.reg.tcp n.reg.nextPort name ep1
          generalize simBind n.reg.tcp n.reg.nextPort name ep1 = sb at *
          obtain ⟨tbl, np, r⟩ := sb
          simp only at b1 b2 ⊢
          cases r with
          | error e =>
            have := b1 e rfl; subst this
            exact ⟨rfl, rfl, rfl, Or.inl ⟨rfl, fun _ => rfl⟩⟩
          | ok ep2 =>
            obtain ⟨c1, c2⟩ := b2 ep2 rfl
            subst c2
            exact ⟨rfl, rfl, rfl, Or.inr ⟨trivial, trivial, rfl, ep2, c1, rfl, fun o => by rw [tcp?_setTcp]; rfl⟩⟩

theorem tcpCancel_eq (n : NetSt) (o : String) (s0 : TcpSock) (hs0 : n.tcp? o = some s0) :
    n.tcpCancel o = (n.setTcp o s0.cancel.1, s0.cancel.2) := by
  unfold NetSt.tcpCancel; simp only [hs0]

theorem accCancel_eq (n : NetSt) (a : String) (s0 : TcpSock) (hs0 : n.tcp? a = some s0) :
    n.accCancel a = (n.setTcp a s0.abortAccept.1, s0.abortAccept.2) := by
  unfold NetSt.accCancel; simp only [hs0]

theorem accIncoming_err (n : NetSt) (now : Int) (a : String) (pk : Pkt) (s0 : TcpSock)
    (hs : n.tcp? a = some s0) (hty : pk.ty = .err) :
    n.accIncoming now a pk = (n.setTcp a s0.abortAccept.1, s0.abortAccept.2) := by
  unfold NetSt.accIncoming
  simp only [hs, hty]

/-- a pending connect is completed with operation_aborted by `cancel` (hence by `close`) -/
theorem cancel_posts_aborted (s : TcpSock) (h : Nat) (hc : s.connectH = some h) :
    NEff.post { h := h, ec := .aborted } ∈ s.cancel.2 ∧ s.cancel.1.connectH = none := by
  unfold TcpSock.cancel
  have h1 : s.abortRecv.1.abortSend.1.connectH = some h := by
    unfold TcpSock.abortSend TcpSock.abortRecv; exact hc
  simp only [h1]
  exact ⟨by simp, trivial⟩


/-! ### the ephemeral-port counter stays positive, bound endpoints are never `0.0.0.0:0` -/

theorem probePort_ge (tbl : List (Ep × String)) (addr : String) :
    ∀ fuel port p, probePort tbl addr fuel port = some p → port ≤ p := by
  intro fuel
  induction fuel with
  | zero => intro port p h; simp [probePort] at h
  | succ f ih =>
    intro port p h
    unfold probePort at h
    split at h
    · split at h
      · cases h
      · have := ih _ _ h; omega
    · cases h; exact Nat.le_refl _

theorem simBind_np (tbl : List (Ep × String)) (np : Nat) (name : String) (ep : Ep) (h : 0 < np) :
    0 < (simBind tbl np name ep).2.1
    ∧ ∀ ep2, (simBind tbl np name ep).2.2 = .ok ep2 → ep2.isDefault = false := by
  unfold simBind
  split
  · exact ⟨h, fun _ hh => by cases hh⟩
  · split
    · cases hp : probePort tbl ep.addr 65536 np with
      | none => exact ⟨by simp only; split <;> omega, fun _ hh => by cases hh⟩
      | some port =>
        refine ⟨by simp only; split <;> omega, fun ep2 hh => ?_⟩
        simp only [Except.ok.injEq] at hh; subst hh
        have := probePort_ge tbl ep.addr _ _ _ hp
        have hne : port ≠ 0 := by omega
        simp [Ep.isDefault, hne]
    · split
      · exact ⟨h, fun _ hh => by cases hh⟩
      · rename_i hp0 _
        refine ⟨h, fun ep2 hh => ?_⟩
        simp only [Except.ok.injEq] at hh; subst hh
        simp [Ep.isDefault, hp0]

theorem tcpSendPacket_reg (n : NetSt) (now : Int) (name : String) (p : Pkt) :
    (n.tcpSendPacket now name p).1.reg = n.reg := (tcpSendPacket_sum n now name p).2.1

theorem tcpClose_np (n : NetSt) (now : Int) (name : String) :
    (n.tcpClose now name).1.reg.nextPort = n.reg.nextPort := by
  rw [tcpClose_eq]
  cases hs : n.tcp? name with
  | none => rfl
  | some s0 =>
    simp only
    have h1 : (tcpCloseEof n now name s0).1.reg = n.reg := by
      unfold tcpCloseEof
      split
      · rfl
      · dsimp only
        split
        · rw [tcpSendPacket_reg]; rfl
        · rfl
    unfold tcpCloseTail
    generalize (tcpCloseEof n now name s0) = r at *
    cases r.1.tcp? name with
    | none => simp only; rw [h1]
    | some s =>
      simp only
      cases s.fwd <;> (simp only; split <;> simp [NetSt.setFwd, NetSt.setTcp, h1])

theorem tcpOpen_np (n : NetSt) (now : Int) (name : String) (v4 : Bool) :
    (n.tcpOpen now name v4).1.reg.nextPort = n.reg.nextPort := by
  have := tcpClose_np n now name
  unfold NetSt.tcpOpen
  generalize n.tcpClose now name = r at *
  obtain ⟨n1, e⟩ := r
  simp only at this ⊢
  cases n1.tcp? name <;> simpa using this

theorem tcpAttach_np (n : NetSt) (now : Int) (peer : String) (bindEp : Ep) (cid : Nat) :
    (n.tcpAttach now peer bindEp cid).1.reg.nextPort = n.reg.nextPort := by
  unfold NetSt.tcpAttach
  cases n.tcp? peer with
  | none => rfl
  | some p0 =>
    simp only
    have := tcpOpen_np n now peer p0.isV4
    generalize n.tcpOpen now peer p0.isV4 = r at *
    obtain ⟨n1, e⟩ := r
    simp only at this ⊢
    cases n1.tcp? peer <;> cases n1.chan? cid <;> simpa using this

theorem accCheckQueue_np (n : NetSt) (now : Int) (name : String) :
    (n.accCheckQueue now name).1.reg.nextPort = n.reg.nextPort := by
  unfold NetSt.accCheckQueue
  cases n.tcp? name with
  | none => rfl
  | some s0 =>
    simp only
    cases s0.acc with
    | none => rfl
    | some a0 =>
      simp only
      -- the first stage keeps the registry
      generalize hst : (if (!s0.isOpen) = true then
          ((n.setTcp name ({ s0 with acc := some { a0 with conns := [] } } : TcpSock).abortAccept.1),
            List.filterMap (fun c => Option.map (fun ch => NEff.forward { id := 0, ty := PType.err, ec := Ec.reset, len := 0, ovh := 28, hops := ch.hops0, src := s0.bound.toString }) (n.chan? c)) a0.conns
              ++ ({ s0 with acc := some { a0 with conns := [] } } : TcpSock).abortAccept.2)
        else (n, [])) = st
      have h1 : st.1.reg = n.reg := by
        rw [← hst]; split <;> rfl
      obtain ⟨n1, e0⟩ := st
      simp only at h1 ⊢
      cases n1.tcp? name with
      | none => simp only; rw [h1]
      | some s =>
        simp only
        cases s.acc with
        | none => simp only; rw [h1]
        | some a =>
          simp only
          cases a.acceptOp with
          | none => simp only; rw [h1]
          | some op =>
            cases a.conns with
            | nil => simp only; rw [h1]
            | cons c rest =>
              simp only
              split <;> (rw [tcpAttach_np]; exact congrArg Registry.nextPort h1)

theorem accClose_np (n : NetSt) (now : Int) (a : String) :
    (n.accClose now a).1.reg.nextPort = n.reg.nextPort := by
  unfold NetSt.accClose
  cases n.tcp? a with
  | none => rfl
  | some s =>
    simp only
    rw [accCheckQueue_np, tcpClose_np]; rfl

theorem accIncoming_np (n : NetSt) (now : Int) (a : String) (pk : Pkt) :
    (n.accIncoming now a pk).1.reg.nextPort = n.reg.nextPort := by
  unfold NetSt.accIncoming
  split
  · split
    · rw [accCheckQueue_np]; rfl
    · rfl
  · rfl
  · rfl


theorem tcpBind_np (n : NetSt) (name : String) (ep : Ep) (h : 0 < n.reg.nextPort) :
    0 < (n.tcpBind name ep).1.reg.nextPort
    ∧ ∀ e ∈ (n.tcpBind name ep).1.reg.tcp, e ∈ n.reg.tcp ∨ e.1.isDefault = false := by
  unfold NetSt.tcpBind
  cases n.tcp? name with
  | none => exact ⟨h, fun e he => Or.inl he⟩
  | some s =>
    simp only
    split
    · exact ⟨h, fun e he => Or.inl he⟩
    · split
      · exact ⟨h, fun e he => Or.inl he⟩
      · split
        · exact ⟨h, fun e he => Or.inl he⟩
        · cases hio : ioResolve (n.cfg.ipsOf s.node) ep with
          | error e => exact ⟨h, fun e he => Or.inl he⟩
          | ok ep1 =>
            simp only
            obtain ⟨b1, b2⟩ := simBind_sum n.reg.tcp n.reg.nextPort name ep1
            obtain ⟨b3, b4⟩ := simBind_np n.reg.tcp n.reg.nextPort name ep1 h
            generalize simBind n.reg.tcp n.reg.nextPort name ep1 = sb at *
            obtain ⟨tbl, np, r⟩ := sb
            simp only at b1 b2 b3 b4 ⊢
            cases r with
            | error e =>
              have := b1 e rfl; subst this
              exact ⟨b3, fun e he => Or.inl he⟩
            | ok ep2 =>
              obtain ⟨_, c2⟩ := b2 ep2 rfl
              subst c2
              refine ⟨b3, fun e he => ?_⟩
              rcases List.mem_append.mp he with he | he
              · exact Or.inl he
              · rw [List.mem_singleton] at he; subst he; exact Or.inr (b4 ep2 rfl)

theorem connBind_np (n : NetSt) (name : String) (s : TcpSock) (target : Ep) (h : 0 < n.reg.nextPort) :
    0 < (connBind n name s target).1.reg.nextPort
    ∧ ∀ e ∈ (connBind n name s target).1.reg.tcp, e ∈ n.reg.tcp ∨ e.1.isDefault = false := by
  unfold connBind
  split
  · simp only
    cases hio : ioResolve (n.cfg.ipsOf s.node) { addr := if target.isV4 = true then "0.0.0.0" else "::", port := 0 } with
    | error e => exact ⟨h, fun e he => Or.inl he⟩
    | ok ep1 =>
      simp only
      obtain ⟨b1, b2⟩ := simBind_sum n.reg.tcp n.reg.nextPort name ep1
      obtain ⟨b3, b4⟩ := simBind_np n.reg.tcp n.reg.nextPort name ep1 h
      generalize simBind n.reg.tcp n.reg.nextPort name ep1 = sb at *
      obtain ⟨tbl, np, r⟩ := sb
      simp only at b1 b2 b3 b4 ⊢
      cases r with
      | error e =>
        have := b1 e rfl; subst this
        exact ⟨b3, fun e he => Or.inl he⟩
      | ok ep2 =>
        obtain ⟨_, c2⟩ := b2 ep2 rfl
        subst c2
        refine ⟨b3, fun e he => ?_⟩
        rcases List.mem_append.mp he with he | he
        · exact Or.inl he
        · rw [List.mem_singleton] at he; subst he; exact Or.inr (b4 ep2 rfl)
  · exact ⟨h, fun e he => Or.inl he⟩


end Hs
end SimVerif
