/-
  SimVerif.Lemmas.TcpMtu — helper lemmas for property C20 (path MTU):
    * generic `NetSt` lemmas (`setAssoc` / `List.lookup`, `setTcp` / `setUdp` / `setChan` /
      `newFwd` / `setFwd` against the projections `tcp?`, `udp?`, `chan?`, `cfg`);
    * `cfg` / `chans` frame lemmas of `tcpSendPacket`, `tcpClose`, `tcpOpen`, `internalConnect`;
    * `cutBuf`;
    * `tcpSendPacket` effect shape.
-/
import SimVerif.Tcp

namespace SimVerif

/-! ### generic NetSt lemmas -/

section GenericNetSt

theorem lookup_map_same {α : Type} (l : List (String × α)) (k : String) (v : α)
    (h : (l.lookup k).isSome) :
    (l.map (fun e => if e.1 == k then (k, v) else e)).lookup k = some v := by
  induction l with
  | nil => simp at h
  | cons a l ih =>
    obtain ⟨a1, a2⟩ := a
    by_cases hk : a1 = k
    · subst hk; simp only [List.map_cons, BEq.rfl, if_true, List.lookup_cons]
    · have hk' : (k == a1) = false := by simpa using (fun h => hk h.symm)
      have hk'' : (a1 == k) = false := by simpa using hk
      simp only [List.lookup_cons, hk'] at h
      simp only [List.map_cons, hk'', Bool.false_eq_true, if_false, List.lookup_cons, hk']
      exact ih h

theorem lookup_map_other {α : Type} (l : List (String × α)) (k k' : String) (v : α)
    (hne : k' ≠ k) :
    (l.map (fun e => if e.1 == k then (k, v) else e)).lookup k' = l.lookup k' := by
  induction l with
  | nil => rfl
  | cons a l ih =>
    obtain ⟨a1, a2⟩ := a
    by_cases h1 : a1 = k
    · subst h1
      have : (k' == a1) = false := by simpa using hne
      simp only [List.map_cons, BEq.rfl, if_true, List.lookup_cons, this]; exact ih
    · have h1' : (a1 == k) = false := by simpa using h1
      simp only [List.map_cons, h1', Bool.false_eq_true, if_false, List.lookup_cons]
      rw [ih]

theorem s5_lookup_append_single {α : Type} (l : List (String × α)) (k k' : String) (v : α) :
    (l ++ [(k, v)]).lookup k' =
      match l.lookup k' with
      | some x => some x
      | none => if k' == k then some v else none := by
  induction l with
  | nil => simp only [List.nil_append, List.lookup_cons, List.lookup_nil]; cases (k' == k) <;> rfl
  | cons a l ih =>
    obtain ⟨a1, a2⟩ := a
    simp only [List.cons_append, List.lookup_cons]
    cases hk : (k' == a1)
    · exact ih
    · rfl

theorem lookup_setAssoc_same {α : Type} (l : List (String × α)) (k : String) (v : α) :
    (setAssoc l k v).lookup k = some v := by
  unfold setAssoc
  split
  · rename_i h; exact lookup_map_same l k v h
  · rename_i h
    rw [s5_lookup_append_single]
    cases hl : l.lookup k with
    | some x => simp [hl] at h
    | none => simp

theorem lookup_setAssoc_other {α : Type} (l : List (String × α)) (k k' : String) (v : α)
    (hne : k' ≠ k) : (setAssoc l k v).lookup k' = l.lookup k' := by
  unfold setAssoc
  split
  · exact lookup_map_other l k k' v hne
  · rw [s5_lookup_append_single]
    have : (k' == k) = false := by simpa using hne
    cases hl : l.lookup k' <;> simp [this]

/-! `setTcp` -/
@[simp] theorem tcp?_setTcp_same (n : NetSt) (k : String) (v : TcpSock) :
    (n.setTcp k v).tcp? k = some v := lookup_setAssoc_same _ _ _
theorem tcp?_setTcp_other (n : NetSt) (k k' : String) (v : TcpSock) (h : k' ≠ k) :
    (n.setTcp k v).tcp? k' = n.tcp? k' := lookup_setAssoc_other _ _ _ _ h
@[simp] theorem s5_udp?_setTcp (n : NetSt) (k k' : String) (v : TcpSock) :
    (n.setTcp k v).udp? k' = n.udp? k' := rfl
@[simp] theorem chan?_setTcp (n : NetSt) (k : String) (v : TcpSock) (c : Nat) :
    (n.setTcp k v).chan? c = n.chan? c := rfl
@[simp] theorem s5_cfg_setTcp (n : NetSt) (k : String) (v : TcpSock) : (n.setTcp k v).cfg = n.cfg := rfl
@[simp] theorem s5_chans_setTcp (n : NetSt) (k : String) (v : TcpSock) : (n.setTcp k v).chans = n.chans := rfl
@[simp] theorem s5_reg_setTcp (n : NetSt) (k : String) (v : TcpSock) : (n.setTcp k v).reg = n.reg := rfl
@[simp] theorem s5_fwds_setTcp (n : NetSt) (k : String) (v : TcpSock) : (n.setTcp k v).fwds = n.fwds := rfl
@[simp] theorem udps_setTcp (n : NetSt) (k : String) (v : TcpSock) : (n.setTcp k v).udps = n.udps := rfl

/-! `setUdp` -/
@[simp] theorem udp?_setUdp_same (n : NetSt) (k : String) (v : UdpSock) :
    (n.setUdp k v).udp? k = some v := lookup_setAssoc_same _ _ _
theorem udp?_setUdp_other (n : NetSt) (k k' : String) (v : UdpSock) (h : k' ≠ k) :
    (n.setUdp k v).udp? k' = n.udp? k' := lookup_setAssoc_other _ _ _ _ h
@[simp] theorem s5_tcp?_setUdp (n : NetSt) (k k' : String) (v : UdpSock) :
    (n.setUdp k v).tcp? k' = n.tcp? k' := rfl
@[simp] theorem chan?_setUdp (n : NetSt) (k : String) (v : UdpSock) (c : Nat) :
    (n.setUdp k v).chan? c = n.chan? c := rfl
@[simp] theorem s5_cfg_setUdp (n : NetSt) (k : String) (v : UdpSock) : (n.setUdp k v).cfg = n.cfg := rfl
@[simp] theorem s5_chans_setUdp (n : NetSt) (k : String) (v : UdpSock) : (n.setUdp k v).chans = n.chans := rfl
@[simp] theorem s5_reg_setUdp (n : NetSt) (k : String) (v : UdpSock) : (n.setUdp k v).reg = n.reg := rfl
@[simp] theorem s5_fwds_setUdp (n : NetSt) (k : String) (v : UdpSock) : (n.setUdp k v).fwds = n.fwds := rfl
@[simp] theorem tcps_setUdp (n : NetSt) (k : String) (v : UdpSock) : (n.setUdp k v).tcps = n.tcps := rfl

/-! `setChan` -/
@[simp] theorem s5_tcp?_setChan (n : NetSt) (c : Nat) (ch : Chan) (k : String) :
    (n.setChan c ch).tcp? k = n.tcp? k := rfl
@[simp] theorem s5_udp?_setChan (n : NetSt) (c : Nat) (ch : Chan) (k : String) :
    (n.setChan c ch).udp? k = n.udp? k := rfl
@[simp] theorem s5_cfg_setChan (n : NetSt) (c : Nat) (ch : Chan) : (n.setChan c ch).cfg = n.cfg := rfl
@[simp] theorem s5_reg_setChan (n : NetSt) (c : Nat) (ch : Chan) : (n.setChan c ch).reg = n.reg := rfl
@[simp] theorem s5_fwds_setChan (n : NetSt) (c : Nat) (ch : Chan) : (n.setChan c ch).fwds = n.fwds := rfl
theorem chan?_setChan_same (n : NetSt) (c : Nat) (ch : Chan) (h : (n.chan? c).isSome) :
    (n.setChan c ch).chan? c = some ch := by
  unfold NetSt.chan? NetSt.setChan at *
  simp only [List.getElem?_mapIdx]
  cases hc : n.chans[c]? with
  | none => simp [hc] at h
  | some x => simp
theorem chan?_setChan_other (n : NetSt) (c c' : Nat) (ch : Chan) (h : c' ≠ c) :
    (n.setChan c ch).chan? c' = n.chan? c' := by
  unfold NetSt.chan? NetSt.setChan
  simp only [List.getElem?_mapIdx]
  cases n.chans[c']? <;> simp [h]
theorem chan?_setChan_isSome (n : NetSt) (c c' : Nat) (ch : Chan) :
    ((n.setChan c ch).chan? c').isSome = (n.chan? c').isSome := by
  unfold NetSt.chan? NetSt.setChan
  simp only [List.getElem?_mapIdx]
  cases n.chans[c']? <;> simp

/-! `newFwd` / `setFwd` -/
@[simp] theorem s5_cfg_newFwd (n : NetSt) (k : String) : (n.newFwd k).1.cfg = n.cfg := rfl
@[simp] theorem s5_tcp?_newFwd (n : NetSt) (k k' : String) : (n.newFwd k).1.tcp? k' = n.tcp? k' := rfl
@[simp] theorem s5_udp?_newFwd (n : NetSt) (k k' : String) : (n.newFwd k).1.udp? k' = n.udp? k' := rfl
@[simp] theorem chan?_newFwd (n : NetSt) (k : String) (c : Nat) : (n.newFwd k).1.chan? c = n.chan? c := rfl
@[simp] theorem s5_chans_newFwd (n : NetSt) (k : String) : (n.newFwd k).1.chans = n.chans := rfl
@[simp] theorem s5_cfg_setFwd (n : NetSt) (f : Nat) (t : Option String) : (n.setFwd f t).cfg = n.cfg := rfl
@[simp] theorem s5_tcp?_setFwd (n : NetSt) (f : Nat) (t : Option String) (k : String) :
    (n.setFwd f t).tcp? k = n.tcp? k := rfl
@[simp] theorem s5_udp?_setFwd (n : NetSt) (f : Nat) (t : Option String) (k : String) :
    (n.setFwd f t).udp? k = n.udp? k := rfl
@[simp] theorem chan?_setFwd (n : NetSt) (f : Nat) (t : Option String) (c : Nat) :
    (n.setFwd f t).chan? c = n.chan? c := rfl
@[simp] theorem s5_chans_setFwd (n : NetSt) (f : Nat) (t : Option String) : (n.setFwd f t).chans = n.chans := rfl

end GenericNetSt

/-! ### effect lists, `tcpSendPacket` -/

/-- the `.forward` packets of an effect list, in order -/
def NEff.fwd? : NEff → Option Pkt
  | .forward p => some p
  | _ => none
def s5_forwards (l : List NEff) : List Pkt := l.filterMap NEff.fwd?

theorem mem_forwards (l : List NEff) (p : Pkt) : p ∈ s5_forwards l ↔ NEff.forward p ∈ l := by
  unfold s5_forwards
  rw [List.mem_filterMap]
  constructor
  · rintro ⟨e, he, hp⟩
    cases e <;> simp [NEff.fwd?] at hp
    subst hp; exact he
  · intro h; exact ⟨_, h, rfl⟩

@[simp] theorem s5_forwards_append (a b : List NEff) : s5_forwards (a ++ b) = s5_forwards a ++ s5_forwards b := by
  simp [s5_forwards]
@[simp] theorem forwards_nil : s5_forwards [] = [] := rfl
@[simp] theorem forwards_forward (p : Pkt) (l : List NEff) : s5_forwards (.forward p :: l) = p :: s5_forwards l := rfl

/-- the channel record without its two byte counters (the only part `send_packet` updates) -/
def Chan.static (c : Chan) : Chan := { c with sent0 := 0, sent1 := 0 }

theorem chan?_setChan_static (n : NetSt) (c c' : Nat) (ch ch0 : Chan) (h0 : n.chan? c = some ch0)
    (hs : ch.static = ch0.static) :
    ((n.setChan c ch).chan? c').map Chan.static = (n.chan? c').map Chan.static := by
  by_cases hc : c' = c
  · subst hc; rw [chan?_setChan_same _ _ _ (by simp [h0]), h0]; simp [hs]
  · rw [chan?_setChan_other _ _ _ _ hc]

theorem mtu_tcpSendPacket_spec (n : NetSt) (now : Int) (name : String) (p : Pkt) (s : TcpSock)
    (hs : n.tcp? name = some s) :
    (n.tcpSendPacket now name p).1.cfg = n.cfg
    ∧ (∀ c, ((n.tcpSendPacket now name p).1.chan? c).map Chan.static = (n.chan? c).map Chan.static)
    ∧ (∀ k, k ≠ name → (n.tcpSendPacket now name p).1.tcp? k = n.tcp? k)
    ∧ (∃ s', (n.tcpSendPacket now name p).1.tcp? name = some s'
        ∧ s' = { s with inFlight := s'.inFlight, outstanding := s'.outstanding })
    ∧ ((s.chan.bind n.chan? = none ∧ n.tcpSendPacket now name p = (n, []))
       ∨ ((s.chan.bind n.chan?).isSome ∧ ∃ bc, s5_forwards (n.tcpSendPacket now name p).2 = [{ p with bc := bc }])) := by
  unfold NetSt.tcpSendPacket
  rw [hs]; dsimp only
  split
  · rename_i hc
    refine ⟨rfl, fun _ => rfl, fun _ _ => rfl, ⟨s, hs, rfl⟩, .inl ⟨hc, rfl⟩⟩
  · rename_i ch hc
    refine ⟨rfl, ?_, ?_, ?_, .inr ⟨by simp [hc], ?_⟩⟩
    · intro c
      simp only [chan?_setTcp]
      cases hch : s.chan with
      | none => simp [hch] at hc
      | some cid =>
        simp only [hch, Option.bind_some] at hc
        simp only [Option.getD_some]
        apply chan?_setChan_static _ _ _ _ _ hc
        split <;> rfl
    · intro k hk; rw [tcp?_setTcp_other _ _ _ _ hk]; rfl
    · exact ⟨_, tcp?_setTcp_same _ _ _, rfl⟩
    · refine ⟨if ch.selfIdx s.bound = 0 then ch.sent0 else ch.sent1, ?_⟩
      simp only [s5_forwards_append, forwards_forward, forwards_nil]
      split <;> simp [s5_forwards, NEff.fwd?]

/-! ### `tcpClose` / `tcpOpen` -/

/-- first half of `tcpClose`: an established connection announces the end of the stream -/
def NetSt.tcpCloseEof (n : NetSt) (now : Int) (name : String) (s0 : TcpSock) : NetSt × List NEff :=
  match s0.chan.bind n.chan? with
  | none => (n, [])
  | some ch =>
    let hops := ch.hops (ch.remoteIdx s0.bound)
    if !hops.isEmpty && s0.connectH.isNone then
      let p : Pkt := { id := s0.nextOut, ty := .err, ec := .eof, len := 0, ovh := 40, hops := hops,
                       src := s0.bound.toString }
      let n := n.setTcp name { s0 with nextOut := s0.nextOut + 1 }
      n.tcpSendPacket now name p
    else (n, [])

/-- second half of `tcpClose`: unbind, detach the forwarder, reset the socket, cancel -/
def NetSt.tcpCloseReset (n : NetSt) (name : String) (e0 : List NEff) : NetSt × List NEff :=
  match n.tcp? name with
  | none => (n, e0)
  | some s =>
    let n := if !s.bound.isDefault then { n with reg := { n.reg with tcp := simUnbind n.reg.tcp name s.bound } } else n
    let n := match s.fwd with | some f => n.setFwd f none | none => n
    let s := { s with chan := none, bound := {}, isOpen := false, fwd := none,
                      mss := 1475, cwnd := 2950, inFlight := 0, outstanding := [],
                      inq := [], reorder := [], resend := [], recvNull := false,
                      nextIn := 0, nextOut := 0, lastDrop := 0 }
    let (s, e1) := s.cancel
    (n.setTcp name s, e0 ++ e1)

theorem mtu_tcpClose_eq (n : NetSt) (now : Int) (name : String) (s0 : TcpSock) (hs : n.tcp? name = some s0) :
    n.tcpClose now name =
      (n.tcpCloseEof now name s0).1.tcpCloseReset name (n.tcpCloseEof now name s0).2 := by
  unfold NetSt.tcpClose; rw [hs]; rfl

theorem tcpCloseEof_spec (n : NetSt) (now : Int) (name : String) (s0 : TcpSock)
    (hs : n.tcp? name = some s0) :
    (n.tcpCloseEof now name s0).1.cfg = n.cfg
    ∧ (∀ c, ((n.tcpCloseEof now name s0).1.chan? c).map Chan.static = (n.chan? c).map Chan.static)
    ∧ (∀ k, k ≠ name → (n.tcpCloseEof now name s0).1.tcp? k = n.tcp? k)
    ∧ ((n.tcpCloseEof now name s0).1.tcp? name).isSome := by
  unfold NetSt.tcpCloseEof
  split
  · simp [hs]
  · dsimp only
    split
    · have h := mtu_tcpSendPacket_spec (n.setTcp name { s0 with nextOut := s0.nextOut + 1 }) now name
        { id := s0.nextOut, ty := .err, ec := .eof, len := 0, ovh := 40,
          hops := (‹Chan›).hops ((‹Chan›).remoteIdx s0.bound), src := s0.bound.toString } _
        (tcp?_setTcp_same _ _ _)
      obtain ⟨h1, h2, h3, ⟨s', h4, _⟩, _⟩ := h
      refine ⟨by rw [h1]; rfl, fun c => by rw [h2]; rfl, fun k hk => ?_, by simp [h4]⟩
      rw [h3 k hk, tcp?_setTcp_other _ _ _ _ hk]
    · simp [hs]

theorem TcpSock.cancel_connectH (s : TcpSock) : s.cancel.1.connectH = none := by
  unfold TcpSock.cancel; dsimp only
  split
  · rfl
  · rename_i h; simpa [TcpSock.abortSend, TcpSock.abortRecv] using h

theorem tcpCloseReset_spec (n : NetSt) (name : String) (e0 : List NEff)
    (hs : (n.tcp? name).isSome) :
    (n.tcpCloseReset name e0).1.cfg = n.cfg
    ∧ (n.tcpCloseReset name e0).1.chans = n.chans
    ∧ (∀ k, k ≠ name → (n.tcpCloseReset name e0).1.tcp? k = n.tcp? k)
    ∧ (∃ s', (n.tcpCloseReset name e0).1.tcp? name = some s' ∧ s'.connectH = none) := by
  unfold NetSt.tcpCloseReset
  split
  · rename_i h; simp [h] at hs
  · dsimp only
    refine ⟨?_, ?_, ?_, ?_⟩
    · simp only [s5_cfg_setTcp]; split <;> split <;> rfl
    · simp only [s5_chans_setTcp]; split <;> split <;> rfl
    · intro k hk; rw [tcp?_setTcp_other _ _ _ _ hk]; split <;> split <;> rfl
    · exact ⟨_, tcp?_setTcp_same _ _ _, TcpSock.cancel_connectH _⟩

theorem mtu_tcpClose_spec (n : NetSt) (now : Int) (name : String) (hs : (n.tcp? name).isSome) :
    (n.tcpClose now name).1.cfg = n.cfg
    ∧ (∀ c, ((n.tcpClose now name).1.chan? c).map Chan.static = (n.chan? c).map Chan.static)
    ∧ (∀ k, k ≠ name → (n.tcpClose now name).1.tcp? k = n.tcp? k)
    ∧ (∃ s', (n.tcpClose now name).1.tcp? name = some s' ∧ s'.connectH = none) := by
  cases h0 : n.tcp? name with
  | none => simp [h0] at hs
  | some s0 =>
    rw [mtu_tcpClose_eq n now name s0 h0]
    obtain ⟨a1, a2, a3, a4⟩ := tcpCloseEof_spec n now name s0 h0
    obtain ⟨b1, b2, b3, b4⟩ := tcpCloseReset_spec (n.tcpCloseEof now name s0).1 name
      (n.tcpCloseEof now name s0).2 a4
    refine ⟨by rw [b1, a1], fun c => ?_, fun k hk => by rw [b3 k hk, a3 k hk], b4⟩
    rw [← a2 c]; unfold NetSt.chan?; rw [b2]

theorem tcpOpen_spec (n : NetSt) (now : Int) (name : String) (v4 : Bool) (hs : (n.tcp? name).isSome) :
    (n.tcpOpen now name v4).1.cfg = n.cfg
    ∧ (∀ c, ((n.tcpOpen now name v4).1.chan? c).map Chan.static = (n.chan? c).map Chan.static)
    ∧ (∀ k, k ≠ name → (n.tcpOpen now name v4).1.tcp? k = n.tcp? k)
    ∧ (∃ s', (n.tcpOpen now name v4).1.tcp? name = some s' ∧ s'.connectH = none) := by
  obtain ⟨a1, a2, a3, s1, a4, a5⟩ := mtu_tcpClose_spec n now name hs
  unfold NetSt.tcpOpen
  dsimp only
  rw [a4]; dsimp only
  refine ⟨a1, a2, fun k hk => ?_, ⟨_, tcp?_setTcp_same _ _ _, a5⟩⟩
  rw [tcp?_setTcp_other _ _ _ _ hk]; exact a3 k hk

/-! ### `cutBuf` -/

theorem cutBuf_spec (mss : Nat) (h : 0 < mss) (f : Nat) (b : List UInt8) (hf : b.length < f) :
    (cutBuf mss f b).flatten = b
    ∧ (∀ x ∈ cutBuf mss f b, x ≠ [] ∧ x.length ≤ mss)
    ∧ (∀ x ∈ (cutBuf mss f b).dropLast, x.length = mss) := by
  induction f generalizing b with
  | zero => omega
  | succ f ih =>
    unfold cutBuf
    split
    · rename_i hb; simp at hb; subst hb; simp
    · rename_i hb
      have hb' : b ≠ [] := by simpa using hb
      have hlen : 0 < b.length := List.length_pos_iff.mpr hb'
      have hk : (if mss = 0 then 1 else mss) = mss := by simp; omega
      dsimp only
      simp only [hk]
      have hd : (b.drop mss).length < f := by simp; omega
      obtain ⟨i1, i2, i3⟩ := ih (b.drop mss) hd
      refine ⟨?_, ?_, ?_⟩
      · simp [i1]
      · intro x hx
        rcases List.mem_cons.mp hx with rfl | hx
        · refine ⟨?_, by simp; omega⟩
          intro h0; rcases List.take_eq_nil_iff.mp h0 with h1 | h1
          · omega
          · exact hb' h1
        · exact i2 x hx
      · intro x hx
        cases hc : cutBuf mss f (b.drop mss) with
        | nil => simp [hc] at hx
        | cons y ys =>
          rw [hc, List.dropLast_cons_cons] at hx
          rcases List.mem_cons.mp hx with rfl | hx
          · -- the rest is non-empty, so `b` is longer than mss
            have hne : b.drop mss ≠ [] := by
              intro h0; rw [h0] at hc
              cases f <;> simp [cutBuf] at hc
            have : mss < b.length := by
              have := List.length_pos_iff.mpr hne; simp at this; omega
            simp; omega
          · apply i3; rw [hc]; exact hx

/-! ### `internalConnect` -/

theorem internalConnect_spec (n : NetSt) (name : String) (target : Ep) :
    (n.internalConnect name target).1.cfg = n.cfg
    ∧ (n.internalConnect name target).1.tcps = n.tcps
    ∧ (n.internalConnect name target).1.reg = n.reg
    ∧ (∀ c ch, n.chan? c = some ch → (n.internalConnect name target).1.chan? c = some ch)
    ∧ (∀ c, (n.internalConnect name target).2.2 = some c →
        ∃ s, n.tcp? name = some s ∧ n.chan? c = none
          ∧ ((n.internalConnect name target).1.chan? c).map Chan.ep0 = some s.bound) := by
  unfold NetSt.internalConnect
  split
  · simp
  · split
    · simp
    · split
      · simp
      · split
        · simp
        · rename_i s hs _ _ _ _ _ _ _
          dsimp only
          refine ⟨rfl, rfl, rfl, ?_, ?_⟩
          · intro c ch hc
            unfold NetSt.chan? at hc ⊢
            dsimp only
            rw [List.getElem?_append_left]; exact hc
            exact (List.getElem?_eq_some_iff.mp hc).1
          · intro c hc
            simp only [Option.some.injEq] at hc
            subst hc
            refine ⟨s, hs, ?_, ?_⟩
            · unfold NetSt.chan?; simp
            · unfold NetSt.chan?; simp

/-! ### `tcpConnect` in three phases -/

/-- the implicit bind of `async_connect` -/
def NetSt.tcpConnectBindM (n : NetSt) (name : String) (target : Ep) (s : TcpSock) : NetSt × Ec :=
  if s.bound.addr == "0.0.0.0" then
    let anyEp : Ep := { addr := if target.isV4 then "0.0.0.0" else "::", port := 0 }
    match ioResolve (n.cfg.ipsOf s.node) anyEp with
    | .error e => (n, e)
    | .ok ep1 =>
      let (tbl, np, r) := simBind n.reg.tcp n.reg.nextPort name ep1
      let n := { n with reg := { n.reg with tcp := tbl, nextPort := np } }
      match r with
      | .error e => (n, e)
      | .ok ep2 => (n.setTcp name { s with bound := ep2 }, .ok)
  else (n, .ok)

/-- `async_connect` from the family check on -/
def NetSt.tcpConnectFinish (n : NetSt) (name : String) (target : Ep) (h : Nat) (e0 : List NEff) :
    NetSt × List NEff :=
  match n.tcp? name with
  | none => (n, e0)
  | some s =>
    if s.bound.isV4 != target.isV4 then (n, e0 ++ [.post { h := h, ec := .afNoSupport }])
    else
      let (n, e1, cid) := n.internalConnect name target
      let mss := n.cfg.pathMtu s.bound.addr target.addr
      match n.tcp? name with
      | none => (n, e0)
      | some s =>
        let s := { s with mss := mss, cwnd := mss * 2 }
        match cid with
        | none =>
          (n.setTcp name { s with chan := none },
            e0 ++ e1 ++ [.armAfter name 0 50000000 (.tcpConnectRefused name h)])
        | some c => (n.setTcp name { s with chan := some c, connectH := some h }, e0 ++ e1)

def NetSt.tcpConnectOpen (n : NetSt) (now : Int) (name : String) (target : Ep) (s0 : TcpSock) :
    NetSt × List NEff :=
  if !s0.isOpen then n.tcpOpen now name target.isV4 else (n, [])

theorem tcpConnect_eq (n : NetSt) (now : Int) (name : String) (target : Ep) (h : Nat) (s0 : TcpSock)
    (hs : n.tcp? name = some s0) :
    n.tcpConnect now name target h =
      match (n.tcpConnectOpen now name target s0).1.tcp? name with
      | none => n.tcpConnectOpen now name target s0
      | some s =>
        let r := (n.tcpConnectOpen now name target s0).1.tcpConnectBindM name target s
        if r.2 != .ok then (r.1, (n.tcpConnectOpen now name target s0).2 ++ [.post { h := h, ec := r.2 }])
        else r.1.tcpConnectFinish name target h (n.tcpConnectOpen now name target s0).2 := by
  unfold NetSt.tcpConnect; rw [hs]; rfl

theorem tcpConnectOpen_spec (n : NetSt) (now : Int) (name : String) (target : Ep) (s0 : TcpSock)
    (hs : n.tcp? name = some s0) :
    (n.tcpConnectOpen now name target s0).1.cfg = n.cfg
    ∧ ∃ s, (n.tcpConnectOpen now name target s0).1.tcp? name = some s
        ∧ (s0.connectH = none → s.connectH = none) := by
  unfold NetSt.tcpConnectOpen
  split
  · obtain ⟨a1, _, _, s, a4, a5⟩ := tcpOpen_spec n now name target.isV4 (by simp [hs])
    exact ⟨a1, s, a4, fun _ => a5⟩
  · exact ⟨rfl, s0, hs, id⟩

theorem tcpConnectBind_spec (n : NetSt) (name : String) (target : Ep) (s : TcpSock)
    (hs : n.tcp? name = some s) :
    (n.tcpConnectBindM name target s).1.cfg = n.cfg
    ∧ (n.tcpConnectBindM name target s).1.chans = n.chans
    ∧ ∃ s', (n.tcpConnectBindM name target s).1.tcp? name = some s' ∧ s'.connectH = s.connectH := by
  unfold NetSt.tcpConnectBindM
  split
  · dsimp only
    split
    · exact ⟨rfl, rfl, s, hs, rfl⟩
    · split
      · exact ⟨rfl, rfl, s, hs, rfl⟩
      · exact ⟨rfl, rfl, _, tcp?_setTcp_same _ _ _, rfl⟩
  · exact ⟨rfl, rfl, s, hs, rfl⟩

theorem tcpConnectFinish_spec (n : NetSt) (name : String) (target : Ep) (h : Nat) (e0 : List NEff)
    (s : TcpSock) (hs : n.tcp? name = some s) :
    (n.tcpConnectFinish name target h e0).1.cfg = n.cfg
    ∧ ((n.tcpConnectFinish name target h e0 = (n, e0 ++ [.post { h := h, ec := .afNoSupport }]))
      ∨ ∃ s', (n.tcpConnectFinish name target h e0).1.tcp? name = some s'
          ∧ s'.bound = s.bound
          ∧ s'.mss = n.cfg.pathMtu s.bound.addr target.addr ∧ s'.cwnd = s'.mss * 2
          ∧ ((∃ c, s'.chan = some c ∧ s'.connectH = some h
                ∧ ((n.tcpConnectFinish name target h e0).1.chan? c).map Chan.ep0 = some s.bound)
             ∨ (s'.chan = none ∧ s'.connectH = s.connectH
                ∧ (n.tcpConnectFinish name target h e0).2.getLast?
                    = some (.armAfter name 0 50000000 (.tcpConnectRefused name h))))) := by
  unfold NetSt.tcpConnectFinish
  rw [hs]; dsimp only
  split
  · exact ⟨rfl, .inl rfl⟩
  · obtain ⟨a1, a2, a3, a4, a5⟩ := internalConnect_spec n name target
    have ht : (n.internalConnect name target).1.tcp? name = some s := by
      unfold NetSt.tcp?; rw [a2]; exact hs
    rw [ht]; dsimp only
    split
    · rename_i hc
      refine ⟨by simp [a1], .inr ⟨_, tcp?_setTcp_same _ _ _, rfl, by simp [a1], rfl, .inr ⟨rfl, rfl, ?_⟩⟩⟩
      simp
    · rename_i c hc
      obtain ⟨s1, b1, b2, b3⟩ := a5 c hc
      rw [hs] at b1; cases b1
      refine ⟨by simp [a1], .inr ⟨_, tcp?_setTcp_same _ _ _, rfl, by simp [a1], rfl, .inl ⟨c, rfl, rfl, ?_⟩⟩⟩
      simpa using b3

/-- every way `async_connect` can end -/
theorem tcpConnect_cases (n : NetSt) (now : Int) (name : String) (target : Ep) (h : Nat)
    (s0 : TcpSock) (hs : n.tcp? name = some s0) :
    (n.tcpConnect now name target h).1.cfg = n.cfg
    ∧ ∃ s', (n.tcpConnect now name target h).1.tcp? name = some s'
      ∧ ((∃ ec, ec ≠ Ec.ok ∧ (n.tcpConnect now name target h).2.getLast? = some (.post { h := h, ec := ec })
            ∧ (s0.connectH = none → s'.connectH = none))
         ∨ (s'.mss = n.cfg.pathMtu s'.bound.addr target.addr ∧ s'.cwnd = s'.mss * 2
            ∧ ((∃ c, s'.chan = some c ∧ s'.connectH = some h
                  ∧ ((n.tcpConnect now name target h).1.chan? c).map Chan.ep0 = some s'.bound)
               ∨ (s'.chan = none ∧ (s0.connectH = none → s'.connectH = none)
                  ∧ (n.tcpConnect now name target h).2.getLast?
                      = some (.armAfter name 0 50000000 (.tcpConnectRefused name h)))))) := by
  rw [tcpConnect_eq n now name target h s0 hs]
  obtain ⟨a1, s1, a2, a3⟩ := tcpConnectOpen_spec n now name target s0 hs
  rw [a2]; dsimp only
  obtain ⟨b1, _, s2, b2, b3⟩ := tcpConnectBind_spec _ name target s1 a2
  split
  · rename_i hec
    refine ⟨by rw [b1, a1], s2, b2, .inl ⟨_, by simpa using hec, by simp, fun h0 => ?_⟩⟩
    rw [b3]; exact a3 h0
  · obtain ⟨c1, c2⟩ := tcpConnectFinish_spec _ name target h (n.tcpConnectOpen now name target s0).2 s2 b2
    refine ⟨by rw [c1, b1, a1], ?_⟩
    rcases c2 with c2 | ⟨s3, d1, d2, d3, d4, d5⟩
    · rw [c2]
      exact ⟨s2, b2, .inl ⟨Ec.afNoSupport, by decide, by simp, fun h0 => by rw [b3]; exact a3 h0⟩⟩
    · refine ⟨s3, d1, .inr ⟨?_, d4, ?_⟩⟩
      · rw [d3, d2, b1, a1]
      · rcases d5 with ⟨c, e1, e2, e3⟩ | ⟨e1, e2, e3⟩
        · exact .inl ⟨c, e1, e2, by rw [d2]; exact e3⟩
        · exact .inr ⟨e1, fun h0 => by rw [e2, b3]; exact a3 h0, e3⟩

/-! ### `tcpAttach` -/

theorem s5_tcpAttach_spec (n : NetSt) (now : Int) (peer : String) (bindEp : Ep) (cid : Nat)
    (p0 : TcpSock) (ch : Chan) (hp : n.tcp? peer = some p0) (hc : n.chan? cid = some ch) :
    (n.tcpAttach now peer bindEp cid).1.cfg = n.cfg
    ∧ (∀ c, ((n.tcpAttach now peer bindEp cid).1.chan? c).map Chan.ep0 = (n.chan? c).map Chan.ep0)
    ∧ ∃ s', (n.tcpAttach now peer bindEp cid).1.tcp? peer = some s'
        ∧ s'.mss = n.cfg.pathMtu bindEp.addr ch.ep0.addr ∧ s'.cwnd = s'.mss * 2
        ∧ s'.bound = bindEp ∧ s'.chan = some cid ∧ s'.connectH = none := by
  unfold NetSt.tcpAttach
  rw [hp]; dsimp only
  obtain ⟨a1, a2, _, s1, a4, a5⟩ := tcpOpen_spec n now peer p0.isV4 (by simp [hp])
  have hc' := a2 cid
  rw [hc] at hc'
  cases hch : (n.tcpOpen now peer p0.isV4).1.chan? cid with
  | none => simp [hch] at hc'
  | some ch1 =>
    rw [a4]; dsimp only
    rw [hch] at hc'
    have he : ch1.ep0 = ch.ep0 := by
      have := congrArg (Option.map Chan.ep0) hc'
      simpa [Chan.static] using this
    refine ⟨by simp [a1], fun c => ?_, ⟨_, tcp?_setTcp_same (n.tcpOpen now peer p0.isV4).1 peer _, ?_, rfl, rfl, rfl, a5⟩⟩
    · have h2 := congrArg (Option.map Chan.ep0) (a2 c)
      simp only [Option.map_map] at h2
      have hst : Chan.ep0 ∘ Chan.static = Chan.ep0 := rfl
      rw [hst] at h2
      rw [← h2]
      by_cases hcc : c = cid
      · subst hcc
        rw [chan?_setChan_same _ _ _ (by simp [hch])]
        simp [hch]
      · rw [chan?_setChan_other _ _ _ _ hcc]; rfl
    · simp [a1, he]

/-! ### `tcpPacketDropped`, `tcpResendOne` -/

theorem mtu_tcpPacketDropped_spec (tp : TParams) (n : NetSt) (name : String) (p : Pkt) (s : TcpSock)
    (hs : n.tcp? name = some s) :
    (s.chan.bind n.chan? = none ∧ n.tcpPacketDropped tp name p = n)
    ∨ ∃ ch s', s.chan.bind n.chan? = some ch ∧ n.tcpPacketDropped tp name p = n.setTcp name s'
        ∧ s'.resend = s.resend ++ [{ p with hops := ch.hops (ch.remoteIdx s.bound), hasDrop := tp.rearmDrop,
                                            dropFwd := if tp.rearmDrop then s.fwd else none }]
        ∧ s'.mss = s.mss ∧ s'.nextOut = s.nextOut ∧ s'.bound = s.bound ∧ s'.chan = s.chan := by
  unfold NetSt.tcpPacketDropped
  rw [hs]; dsimp only
  split
  · rename_i hc; exact .inl ⟨hc, rfl⟩
  · rename_i ch hc
    refine .inr ⟨ch, ?_⟩
    rw [← apply_ite (n.setTcp name)]
    refine ⟨_, hc, rfl, ?_, ?_, ?_, ?_, ?_⟩ <;> cases tp.releaseOnDrop <;>
      simp only [Bool.false_eq_true, if_false, if_true, apply_ite TcpSock.resend, apply_ite TcpSock.mss,
        apply_ite TcpSock.nextOut, apply_ite TcpSock.bound, apply_ite TcpSock.chan, ite_self]

theorem mtu_tcpResendOne_spec (n : NetSt) (now : Int) (name : String) (s : TcpSock) (n' : NetSt)
    (effs : List NEff) (hs : n.tcp? name = some s) (h : n.tcpResendOne now name = some (n', effs)) :
    ∃ p rest, s.resend = p :: rest
      ∧ (∃ s', n'.tcp? name = some s' ∧ s'.resend = rest ∧ s'.mss = s.mss ∧ s'.nextOut = s.nextOut)
      ∧ (∀ q, NEff.forward q ∈ effs → q = { p with bc := q.bc })
      ∧ (s5_forwards effs).length ≤ 1
      ∧ ((s.chan.bind n.chan?).isSome → (s5_forwards effs).length = 1) := by
  unfold NetSt.tcpResendOne at h
  rw [hs] at h; dsimp only at h
  split at h
  · cases h
  · rename_i p rest hr
    split at h
    · cases h
    · split at h
      · simp only [Option.some.injEq] at h
        obtain ⟨_, _, _, ⟨s', h4, h4'⟩, h5⟩ := mtu_tcpSendPacket_spec (n.setTcp name { s with resend := rest }) now name p _
          (tcp?_setTcp_same _ _ _)
        rw [h] at h4 h5
        dsimp only at h4 h5
        refine ⟨p, rest, hr, ⟨s', h4, by rw [h4'], by rw [h4'], by rw [h4']⟩, ?_⟩
        rcases h5 with ⟨h5, h6⟩ | ⟨h5, bc, h6⟩
        · have h7 : effs = [] := by injection h6
          subst h7
          refine ⟨by simp, by simp, ?_⟩
          intro hc
          have h5' : s.chan.bind n.chan? = none := h5
          simp [h5'] at hc
        · refine ⟨?_, by rw [h6]; simp, fun _ => by rw [h6]; rfl⟩
          intro q hq
          rw [← mem_forwards, h6] at hq
          simp only [List.mem_singleton] at hq
          subst hq; rfl
      · cases h

/-! ### `udpSendTo` -/

/-- replacing a UDP socket by one with the same bound endpoint and forwarder does not change
    any UDP route -/
theorem udpRoute_setUdp (n : NetSt) (name : String) (u u' : UdpSock) (hs : n.udp? name = some u)
    (hb : u'.bound = u.bound) (hf : u'.fwd = u.fwd) (a b : Ep) :
    (n.setUdp name u').udpRoute a b = n.udpRoute a b := by
  unfold NetSt.udpRoute
  simp only [s5_reg_setUdp, s5_cfg_setUdp]
  split
  · rfl
  · rename_i tgt _
    by_cases ht : tgt = name
    · subst ht
      rw [udp?_setUdp_same, hs]; dsimp only
      unfold NetSt.incomingRoute
      rw [hb, hf]; rfl
    · rw [udp?_setUdp_other _ _ _ _ ht]
      split <;> rfl

/-- `send_to` on a socket that is already bound, evaluated: the socket after
    `abort_send_handlers()` is `u` without its wait-for-write handler -/
theorem s5_udpSendTo_bound (n : NetSt) (now : Int) (name : String) (dst : Ep) (payload : List UInt8)
    (u : UdpSock) (hs : n.udp? name = some u) (hb : u.bound.isDefault = false) :
    n.udpSendTo now name dst payload =
      let u1 : UdpSock := { u with waitSendH := none }
      let e0 := (u.abortSend name).2
      let n1 := n.setUdp name u1
      let ret := payload.length
      if ret = 0 then (n1, e0, .invalid, 0)
      else if ret > 65535 then (n1, e0, .msgSize, 0)
      else if u.df && ret > n.cfg.pathMtu u.bound.addr dst.addr then (n1, e0, .ok, ret)
      else if u.nextSend - now > u.sendQueueTime then (n1, e0, .wouldBlock, 0)
      else match n.udpRoute u.bound dst with
        | none => (n1, e0, .ok, ret)
        | some hops =>
          (n1.setUdp name { u1 with nextSend := (if now ≤ u.nextSend then u.nextSend else now) + 10 * (ret + 28) },
            e0 ++ (if n.cfg.pcap then [NEff.pcapUdp now u.bound dst payload] else [])
              ++ [.forward { id := 0, ty := .payload, len := ret, ovh := 28, hops := hops,
                             src := u.bound.toString, payload := payload }], .ok, ret) := by
  unfold NetSt.udpSendTo
  rw [hs]
  simp only [UdpSock.abortSend, hb, Bool.false_eq_true, if_false, udp?_setUdp_same, s5_cfg_setUdp,
    bne_self_eq_false]
  rw [udpRoute_setUdp n name u { u with waitSendH := none } hs rfl rfl]
  rfl


/-! ### example states for the non-vacuity examples of Props/C20 -/

/-- two nodes; the path MTU is 100 from A to B and 3000 from B to A -/
def c20Cfg : NetCfg :=
  { nodes := [("A", ["10.0.0.1"]), ("B", ["10.0.0.2"])],
    routeNet := [("*", ["q"])],
    mtu := [("10.0.0.1>10.0.0.2", 100), ("10.0.0.2>10.0.0.1", 3000)] }

/-- a fresh socket `c` on A, a listening acceptor `a` on B, a fresh socket `p` on B -/
def c20Listen : NetSt :=
  { cfg := c20Cfg,
    reg := { tcp := [({ addr := "10.0.0.2", port := 8080 }, "a")] },
    tcps := [("c", { node := "A" }),
             ("a", { node := "B", isOpen := true, bound := { addr := "10.0.0.2", port := 8080 },
                     acc := some { queueLimit := 20 } }),
             ("p", { node := "B" })] }

theorem c20Probe : probePort [({ addr := "10.0.0.2", port := 8080 }, "a")] "10.0.0.1" 65536 2000 = some 2000 := by
  show probePort _ "10.0.0.1" (65535 + 1) 2000 = some 2000
  unfold probePort
  have : (List.lookup ({ addr := "10.0.0.1", port := 2000 } : Ep) [({ addr := "10.0.0.2", port := 8080 }, "a")]).isSome = false := by decide
  simp [this]

/-- the state after `c` connected to `a` (channel 0 pending), as `tcpConnect` leaves it up to routes -/
def c20Pending : NetSt :=
  { cfg := c20Cfg,
    reg := { tcp := [({ addr := "10.0.0.2", port := 8080 }, "a"), ({ addr := "10.0.0.1", port := 2000 }, "c")],
             nextPort := 2001 },
    fwds := [some "c"],
    chans := [{ hops0 := ["q", "@0"], hops1 := ["q"], ep0 := { addr := "10.0.0.1", port := 2000 },
                ep1 := { addr := "10.0.0.2", port := 8080 }, vis0 := { addr := "10.0.0.1", port := 2000 },
                vis1 := { addr := "10.0.0.2", port := 8080 } }],
    tcps := [("c", { node := "A", isOpen := true, bound := { addr := "10.0.0.1", port := 2000 }, fwd := some 0,
                     chan := some 0, connectH := none, mss := 100, cwnd := 200 }),
             ("a", { node := "B", isOpen := true, bound := { addr := "10.0.0.2", port := 8080 },
                     acc := some { queueLimit := 20 } }),
             ("p", { node := "B" })] }

/-- `c20Pending` with the connector's MSS set to 3 -/
def c20Mss3 : NetSt :=
  c20Pending.setTcp "c" { node := "A", isOpen := true, bound := { addr := "10.0.0.1", port := 2000 },
                          chan := some 0, mss := 3, cwnd := 6 }

/-- a socket that is already connecting (handler 7), unbound, on a node without addresses -/
def c20NoAddr : NetSt :=
  { cfg := { nodes := [("A", [])], mtu := [("*", 100)] },
    tcps := [("c", { node := "A", isOpen := true, connectH := some 7 })] }

def c20Buf250 : List UInt8 := List.replicate 250 7

/-- UDP: `u` on A (don't-fragment as given), `v` on B -/
def c20Udp (df : Bool) : NetSt :=
  { cfg := c20Cfg,
    reg := { udp := [({ addr := "10.0.0.1", port := 3000 }, "u"), ({ addr := "10.0.0.2", port := 4000 }, "v")] },
    udps := [("u", { node := "A", isOpen := true, bound := { addr := "10.0.0.1", port := 3000 }, df := df }),
             ("v", { node := "B", isOpen := true, bound := { addr := "10.0.0.2", port := 4000 } })] }


end SimVerif
