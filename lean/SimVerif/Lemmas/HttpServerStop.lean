/-
  SimVerif.Lemmas.HttpServerStop — what `stop()`'s `m_listen_socket.close()` (the acceptor's
  close: `NetSt.accClose`, SimVerif/Tcp.lean) does to the listen socket and to the registry of
  bound endpoints: the socket is closed, no longer listening, unbound, and its registry entry is
  gone — so a later connect to the old endpoint cannot reach it (refused unless somebody else
  listens there) and the port can be bound again.

  The three registry theorems carry the hypothesis `hb : s.bound.isDefault = false` (the acceptor
  is bound): `tcp::socket::close` only calls `unbind_socket` for a bound socket (`tcpClose`:
  `if !s.bound.isDefault`), so for an unbound socket the registry is left alone, and a registry
  that (for whatever reason) maps the default endpoint 0.0.0.0:0 to this socket's name would keep
  that entry — see `accClose_unbound_counterexample` at the end of the file.
-/
import SimVerif.Tcp

namespace SimVerif

/-! ### generic lemmas: `setAssoc`, field projections of the setters -/
theorem lookup_setAssoc_self {α : Type} (l : List (String × α)) (k : String) (v : α) :
    (setAssoc l k v).lookup k = some v := by
  unfold setAssoc
  split
  · rename_i h
    induction l with
    | nil => simp at h
    | cons e l ih =>
      obtain ⟨a, b⟩ := e
      by_cases hk : a = k
      · simp [hk]
      · have hk' : (k == a) = false := by simp; exact fun h => hk h.symm
        simp only [List.lookup_cons, hk'] at h
        simp only [List.map_cons, beq_iff_eq, hk, if_false, List.lookup_cons, hk']
        simpa using ih h
  · rename_i h
    have h' : l.lookup k = none := by
      cases hh : l.lookup k with
      | none => rfl
      | some x => simp [hh] at h
    simp [List.lookup_append, h']

theorem setTcp_tcp?_self (n : NetSt) (name : String) (t : TcpSock) :
    (n.setTcp name t).tcp? name = some t := by
  simp [NetSt.setTcp, NetSt.tcp?, lookup_setAssoc_self]

theorem setTcp_reg (n : NetSt) (name : String) (t : TcpSock) : (n.setTcp name t).reg = n.reg := rfl
theorem setTcp_chan? (n : NetSt) (name : String) (t : TcpSock) (c : Nat) : (n.setTcp name t).chan? c = n.chan? c := rfl
theorem setChan_reg (n : NetSt) (c : Nat) (ch : Chan) : (n.setChan c ch).reg = n.reg := rfl
theorem setChan_tcp? (n : NetSt) (c : Nat) (ch : Chan) (name : String) : (n.setChan c ch).tcp? name = n.tcp? name := rfl
theorem setFwd_reg (n : NetSt) (f : Nat) (t : Option String) : (n.setFwd f t).reg = n.reg := rfl
theorem setFwd_tcp? (n : NetSt) (f : Nat) (t : Option String) (name : String) : (n.setFwd f t).tcp? name = n.tcp? name := rfl

/-! ### `tcpSendPacket`, `cancel`, `abortAccept`, `tcpClose` -/

theorem srv_tcpSendPacket_spec (n : NetSt) (now : Int) (name : String) (p : Pkt) (s : TcpSock)
    (hs : n.tcp? name = some s) :
    (n.tcpSendPacket now name p).1.reg = n.reg ∧
    ∃ s', (n.tcpSendPacket now name p).1.tcp? name = some s' ∧ s'.bound = s.bound ∧ s'.acc = s.acc := by
  unfold NetSt.tcpSendPacket
  simp only [hs]
  split
  · exact ⟨rfl, s, hs, rfl, rfl⟩
  · dsimp only
    exact ⟨rfl, _, setTcp_tcp?_self _ _ _, rfl, rfl⟩

theorem srv_cancel_spec (s : TcpSock) :
    (s.cancel).1.isOpen = s.isOpen ∧ (s.cancel).1.bound = s.bound ∧ (s.cancel).1.acc = s.acc := by
  unfold TcpSock.cancel TcpSock.abortRecv TcpSock.abortSend
  dsimp only
  split <;> exact ⟨rfl, rfl, rfl⟩

theorem abortAccept_spec (s : TcpSock) :
    (s.abortAccept).1.isOpen = s.isOpen ∧ (s.abortAccept).1.bound = s.bound ∧
    (s.abortAccept).1.isListening = s.isListening ∧
    (∀ a, (s.abortAccept).1.acc = some a → a.acceptOp = none) := by
  unfold TcpSock.abortAccept
  split
  · rename_i h; exact ⟨rfl, rfl, rfl, fun a ha => by simp [h] at ha⟩
  · rename_i a h
    split
    · rename_i h2
      refine ⟨rfl, rfl, rfl, fun a' ha' => ?_⟩
      dsimp only at ha'
      rw [h] at ha'
      cases ha'
      exact h2
    · refine ⟨rfl, rfl, ?_, fun a' ha' => ?_⟩
      · simp [TcpSock.isListening, h]
      · dsimp only at ha'
        cases ha'
        rfl

/-- first phase of `tcpClose`: the EOF announcement -/
def tcpCloseA (n : NetSt) (now : Int) (name : String) (s0 : TcpSock) : NetSt × List NEff :=
  match s0.chan.bind n.chan? with
  | none => (n, [])
  | some ch =>
    let hops := ch.hops (ch.remoteIdx s0.bound)
    if !hops.isEmpty && s0.connectH.isNone then
      let p : Pkt := { id := s0.nextOut, ty := .err, ec := .eof, len := 0, ovh := 40, hops := hops,
                       src := s0.bound.toString }
      let n := n.setTcp name { s0 with nextOut := s0.nextOut + 1 }
      n.tcpSendPacket now name p
    else (n, [])

/-- second phase of `tcpClose` -/
def tcpCloseB (n : NetSt) (name : String) (e0 : List NEff) : NetSt × List NEff :=
  match n.tcp? name with
  | none => (n, e0)
  | some s =>
    let n := if !s.bound.isDefault then { n with reg := { n.reg with tcp := simUnbind n.reg.tcp name s.bound } } else n
    let n := match s.fwd with | some f => n.setFwd f none | none => n
    let s := { s with chan := none, bound := {}, isOpen := false, fwd := none,
                      mss := 1475, cwnd := 2950, inFlight := 0, outstanding := [],
                      inq := [], reorder := [], resend := [], recvNull := false,
                      nextIn := 0, nextOut := 0, lastDrop := 0 }
    let (s, e1) := s.cancel
    (n.setTcp name s, e0 ++ e1)

theorem srv_tcpClose_eq (n : NetSt) (now : Int) (name : String) (s0 : TcpSock) (hs : n.tcp? name = some s0) :
    n.tcpClose now name = tcpCloseB (tcpCloseA n now name s0).1 name (tcpCloseA n now name s0).2 := by
  unfold NetSt.tcpClose
  simp only [hs]
  rfl

theorem tcpCloseA_spec (n : NetSt) (now : Int) (name : String) (s0 : TcpSock) (hs : n.tcp? name = some s0) :
    (tcpCloseA n now name s0).1.reg = n.reg ∧
    ∃ s', (tcpCloseA n now name s0).1.tcp? name = some s' ∧ s'.bound = s0.bound ∧ s'.acc = s0.acc := by
  unfold tcpCloseA
  split
  · exact ⟨rfl, s0, hs, rfl, rfl⟩
  · dsimp only
    split
    · have h := srv_tcpSendPacket_spec (n.setTcp name { s0 with nextOut := s0.nextOut + 1 }) now name
        { id := s0.nextOut, ty := .err, ec := .eof, len := 0, ovh := 40, hops := (by assumption : Chan).hops ((by assumption : Chan).remoteIdx s0.bound), src := s0.bound.toString }
        _ (setTcp_tcp?_self _ _ _)
      exact h
    · exact ⟨rfl, s0, hs, rfl, rfl⟩

theorem tcpCloseB_spec (n : NetSt) (name : String) (e0 : List NEff) (s : TcpSock) (hs : n.tcp? name = some s) :
    (tcpCloseB n name e0).1.reg = (if !s.bound.isDefault then { n.reg with tcp := simUnbind n.reg.tcp name s.bound } else n.reg) ∧
    ∃ s', (tcpCloseB n name e0).1.tcp? name = some s' ∧ s'.isOpen = false ∧ s'.bound = {} ∧ s'.acc = s.acc := by
  unfold tcpCloseB
  simp only [hs]
  refine ⟨?_, _, setTcp_tcp?_self _ _ _, ?_⟩
  · rw [setTcp_reg]
    cases s.fwd <;> dsimp only <;> (try rw [setFwd_reg]) <;> split <;> rfl
  · have h := srv_cancel_spec { s with chan := none, bound := {}, isOpen := false, fwd := none, mss := 1475, cwnd := 2950, inFlight := 0, outstanding := [], inq := [], reorder := [], resend := [], recvNull := false, nextIn := 0, nextOut := 0, lastDrop := 0 }
    exact ⟨h.1, h.2.1, h.2.2⟩
theorem srv_tcpClose_spec (n : NetSt) (now : Int) (name : String) (s0 : TcpSock) (hs : n.tcp? name = some s0) :
    (n.tcpClose now name).1.reg = (if !s0.bound.isDefault then { n.reg with tcp := simUnbind n.reg.tcp name s0.bound } else n.reg) ∧
    ∃ s', (n.tcpClose now name).1.tcp? name = some s' ∧ s'.isOpen = false ∧ s'.bound = {} ∧ s'.acc = s0.acc := by
  rw [srv_tcpClose_eq n now name s0 hs]
  obtain ⟨hreg, s1, hs1, hb1, ha1⟩ := tcpCloseA_spec n now name s0 hs
  obtain ⟨hreg2, s2, hs2, ho2, hb2, ha2⟩ := tcpCloseB_spec (tcpCloseA n now name s0).1 name (tcpCloseA n now name s0).2 s1 hs1
  refine ⟨?_, s2, hs2, ho2, hb2, ha2.trans ha1⟩
  rw [hreg2, hreg, hb1]

/-! ### `accCheckQueue` on a closed acceptor, `accClose` -/

/-- first phase of `accCheckQueue` -/
def accCheckA (n : NetSt) (name : String) (s0 : TcpSock) (a0 : AccState) : NetSt × List NEff :=
  if !s0.isOpen then
    let rsts := a0.conns.filterMap (fun c => (n.chan? c).map (fun ch =>
      NEff.forward { id := 0, ty := .err, ec := .reset, len := 0, ovh := 28, hops := ch.hops0, src := s0.bound.toString }))
    let s := { s0 with acc := some { a0 with conns := [] } }
    let (s, ea) := s.abortAccept
    (n.setTcp name s, rsts ++ ea)
  else (n, [])

/-- second phase of `accCheckQueue` -/
def accCheckB (n : NetSt) (now : Int) (name : String) (e0 : List NEff) : NetSt × List NEff :=
  match n.tcp? name with
  | none => (n, e0)
  | some s =>
    match s.acc with
    | none => (n, e0)
    | some a =>
      match a.acceptOp, a.conns with
      | none, _ => (n, e0)
      | _, [] => (n, e0)
      | some op, c :: rest =>
        let n := n.setTcp name { s with acc := some { a with conns := rest, acceptOp := none } }
        let peer := match op with | .into _ pn _ => pn | .fresh _ nn => nn
        let vis := ((n.chan? c).map (·.vis0)).getD {}
        let (n, e1) := n.tcpAttach now peer s.bound c
        match n.chan? c with
        | none => (n, e0 ++ e1)
        | some ch =>
          let synack : Pkt := { id := 0, ty := .synack, len := 0, ovh := 28, hops := ch.hops0,
                                src := s.bound.toString, chan := some c }
          let done := match op with
            | .into h _ withEp => NEff.post { h := h, ec := .ok, extra := if withEp then "ep=" ++ vis.toString else "" }
            | .fresh h _ => NEff.post { h := h, ec := .ok }
          (n, e0 ++ e1 ++ [.forward synack, done])

theorem accCheckQueue_eq (n : NetSt) (now : Int) (name : String) (s0 : TcpSock) (a0 : AccState)
    (hs : n.tcp? name = some s0) (ha : s0.acc = some a0) :
    n.accCheckQueue now name = accCheckB (accCheckA n name s0 a0).1 now name (accCheckA n name s0 a0).2 := by
  unfold NetSt.accCheckQueue
  simp only [hs, ha]
  rfl

theorem accCheckB_noop (n : NetSt) (now : Int) (name : String) (e0 : List NEff) (s : TcpSock)
    (hs : n.tcp? name = some s) (hop : ∀ a, s.acc = some a → a.acceptOp = none) :
    accCheckB n now name e0 = (n, e0) := by
  unfold accCheckB
  simp only [hs]
  split
  · rfl
  · rename_i a ha
    have := hop a ha
    split
    · rfl
    · rfl
    · rename_i hop' _
      rw [this] at hop'
      cases hop'

theorem srv_accCheckQueue_closed (n : NetSt) (now : Int) (name : String) (s : TcpSock)
    (hs : n.tcp? name = some s) (ho : s.isOpen = false) :
    (n.accCheckQueue now name).1.reg = n.reg ∧
    ∃ s', (n.accCheckQueue now name).1.tcp? name = some s' ∧ s'.isOpen = false ∧ s'.bound = s.bound ∧
      s'.isListening = s.isListening := by
  cases ha : s.acc with
  | none =>
    have : n.accCheckQueue now name = (n, []) := by
      unfold NetSt.accCheckQueue
      simp only [hs, ha]
    rw [this]
    exact ⟨rfl, s, hs, ho, rfl, rfl⟩
  | some a0 =>
    rw [accCheckQueue_eq n now name s a0 hs ha]
    obtain ⟨h1, h2, h3, h4⟩ := abortAccept_spec { s with acc := some { a0 with conns := [] } }
    have hA : (accCheckA n name s a0).1 = n.setTcp name ({ s with acc := some { a0 with conns := [] } } : TcpSock).abortAccept.1 := by
      unfold accCheckA
      simp only [ho]
      rfl
    have hs' : (accCheckA n name s a0).1.tcp? name = some ({ s with acc := some { a0 with conns := [] } } : TcpSock).abortAccept.1 := by
      rw [hA]; exact setTcp_tcp?_self _ _ _
    rw [accCheckB_noop _ now name _ _ hs' h4]
    refine ⟨by rw [hA]; rfl, _, hs', by rw [h1]; exact ho, by rw [h2], ?_⟩
    rw [h3]
    simp [TcpSock.isListening, ha]

theorem accClose_spec (n : NetSt) (now : Int) (name : String) (s : TcpSock) (hs : n.tcp? name = some s) :
    (n.accClose now name).1.reg = (if !s.bound.isDefault then { n.reg with tcp := simUnbind n.reg.tcp name s.bound } else n.reg) ∧
    ∃ s', (n.accClose now name).1.tcp? name = some s' ∧ s'.isOpen = false ∧ s'.isListening = false ∧
      s'.bound = {} := by
  -- the socket handed to `tcpClose`
  let s1 : TcpSock := match s.acc with | some a => { s with acc := some { a with queueLimit := -1 } } | none => s
  have hs1b : s1.bound = s.bound := by
    show (match s.acc with | some a => { s with acc := some { a with queueLimit := -1 } } | none => s : TcpSock).bound = s.bound
    split <;> rfl
  have hs1l : s1.isListening = false := by
    show (match s.acc with | some a => { s with acc := some { a with queueLimit := -1 } } | none => s : TcpSock).isListening = false
    split
    · simp [TcpSock.isListening]
    · rename_i h; simp [TcpSock.isListening, h]
  have hE : (n.accClose now name).1 = (((n.setTcp name s1.abortAccept.1).tcpClose now name).1.accCheckQueue now name).1 := by
    unfold NetSt.accClose
    simp only [hs]
    rfl
  obtain ⟨_, h2, h3, _⟩ := abortAccept_spec s1
  obtain ⟨hreg, s3, hs3, ho3, hb3, ha3⟩ := srv_tcpClose_spec (n.setTcp name s1.abortAccept.1) now name _ (setTcp_tcp?_self _ _ _)
  obtain ⟨hreg4, s4, hs4, ho4, hb4, hl4⟩ := srv_accCheckQueue_closed _ now name s3 hs3 ho3
  rw [hE]
  refine ⟨?_, s4, hs4, ho4, ?_, hb4.trans hb3⟩
  · rw [hreg4, hreg, h2, hs1b]; rfl
  · rw [hl4]
    have : s3.isListening = s1.abortAccept.1.isListening := by
      simp only [TcpSock.isListening, ha3]
    rw [this, h3, hs1l]
/-! ### `simUnbind`, `internalConnect`, `simBind` -/

theorem mem_simUnbind (tbl : List (Ep × String)) (name : String) (ep : Ep) (e : Ep × String) :
    e ∈ simUnbind tbl name ep ↔ e ∈ tbl ∧ ¬(e.1 = ep ∧ e.2 = name) := by
  simp only [simUnbind, List.mem_filter, Bool.not_eq_true', Bool.and_eq_false_iff, beq_eq_false_iff_ne, ne_eq]
  by_cases h : e.1 = ep <;> simp [h]

theorem lookup_simUnbind_ne (tbl : List (Ep × String)) (name : String) (ep : Ep) :
    (simUnbind tbl name ep).lookup ep ≠ some name := by
  intro h
  obtain ⟨l1, l2, hl, _⟩ := List.lookup_eq_some_iff.mp h
  have : (ep, name) ∈ simUnbind tbl name ep := by rw [hl]; simp
  rw [mem_simUnbind] at this
  exact this.2 ⟨rfl, rfl⟩

theorem lookup_simUnbind_none (tbl : List (Ep × String)) (name : String) (ep : Ep)
    (honly : ∀ e ∈ tbl, e.1 = ep → e.2 = name) :
    (simUnbind tbl name ep).lookup ep = none := by
  rw [List.lookup_eq_none_iff]
  intro p hp
  rw [mem_simUnbind] at hp
  simp only [bne_iff_ne, ne_eq]
  intro h
  exact hp.2 ⟨h.symm, honly p hp.1 h.symm⟩

theorem internalConnect_none (n : NetSt) (c : String) (target : Ep) (h : n.reg.tcp.lookup target = none) :
    (n.internalConnect c target).2.2 = none := by
  unfold NetSt.internalConnect
  split
  · rfl
  · simp only [h]

theorem simBind_free (tbl : List (Ep × String)) (np : Nat) (name : String) (ep : Ep)
    (hp : 1024 ≤ ep.port) (h : tbl.lookup ep = none) :
    (simBind tbl np name ep).2.2 = .ok ep := by
  unfold simBind
  have h1 : (decide (0 < ep.port) && decide (ep.port < 1024)) = false := by
    simp; omega
  have h2 : ¬ ep.port = 0 := by omega
  simp [h1, h2, h]

/-! ### the four theorems -/

/-- after `acceptor::close()` the socket is closed, unbound, not listening -/
theorem accClose_socket (n : NetSt) (now : Int) (name : String) (s : TcpSock) (hs : n.tcp? name = some s) :
    ∃ s', (n.accClose now name).1.tcp? name = some s' ∧ s'.isOpen = false ∧ s'.isListening = false ∧
      s'.bound = {} :=
  (accClose_spec n now name s hs).2

/-- the registry after `acceptor::close()` of a bound acceptor -/
theorem accClose_reg_bound (n : NetSt) (now : Int) (name : String) (s : TcpSock) (hs : n.tcp? name = some s)
    (hb : s.bound.isDefault = false) :
    (n.accClose now name).1.reg = { n.reg with tcp := simUnbind n.reg.tcp name s.bound } := by
  rw [(accClose_spec n now name s hs).1]
  simp [hb]

/-- … its registry entry is removed and no entry is added -/
theorem accClose_registry (n : NetSt) (now : Int) (name : String) (s : TcpSock) (hs : n.tcp? name = some s)
    (hb : s.bound.isDefault = false) :
    (∀ e ∈ (n.accClose now name).1.reg.tcp, e ∈ n.reg.tcp ∧ ¬(e.1 = s.bound ∧ e.2 = name)) ∧
    (n.accClose now name).1.reg.nextPort = n.reg.nextPort := by
  rw [accClose_reg_bound n now name s hs hb]
  exact ⟨fun e he => (mem_simUnbind _ _ _ e).mp he, rfl⟩

/-- … so a connect to the old endpoint is never routed to this socket again -/
theorem accClose_lookup (n : NetSt) (now : Int) (name : String) (s : TcpSock) (hs : n.tcp? name = some s)
    (hb : s.bound.isDefault = false) :
    (n.accClose now name).1.reg.tcp.lookup s.bound ≠ some name := by
  rw [accClose_reg_bound n now name s hs hb]
  exact lookup_simUnbind_ne _ _ _

/-- … and if this socket was the only holder of the endpoint, the endpoint is free: a connect
    to it is refused (`internalConnect` finds no listener) and `simBind` accepts it again -/
theorem accClose_port_free (n : NetSt) (now : Int) (name : String) (s : TcpSock) (hs : n.tcp? name = some s)
    (hb : s.bound.isDefault = false)
    (honly : ∀ e ∈ n.reg.tcp, e.1 = s.bound → e.2 = name) :
    (n.accClose now name).1.reg.tcp.lookup s.bound = none ∧
    (∀ (c : String), ((n.accClose now name).1.internalConnect c s.bound).2.2 = none) ∧
    (∀ (other : String), 1024 ≤ s.bound.port →
      (simBind (n.accClose now name).1.reg.tcp (n.accClose now name).1.reg.nextPort other s.bound).2.2 = .ok s.bound) := by
  have hl : (n.accClose now name).1.reg.tcp.lookup s.bound = none := by
    rw [accClose_reg_bound n now name s hs hb]
    exact lookup_simUnbind_none _ _ _ honly
  exact ⟨hl, fun c => internalConnect_none _ c _ hl, fun other hp => simBind_free _ _ other _ hp hl⟩

/-- Why `hb` is needed: an unbound acceptor "a" whose name sits in the registry under the default
    endpoint keeps that entry (`tcpClose` unbinds only a bound socket), which refutes
    `accClose_registry`, `accClose_lookup` and the first two parts of `accClose_port_free`
    without `hb` (`honly` holds here: the entry is the only one). -/
theorem accClose_unbound_counterexample :
    let n : NetSt := { reg := { tcp := [({}, "a")] }, tcps := [("a", { node := "x", acc := some {} })] }
    let s : TcpSock := { node := "x", acc := some {} }
    n.tcp? "a" = some s ∧ (n.accClose 0 "a").1.reg.tcp.lookup s.bound = some "a" :=
  ⟨rfl, by decide⟩

end SimVerif
