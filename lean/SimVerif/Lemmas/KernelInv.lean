/-
  The kernel/timer invariant and its preservation by every transition.
-/
import SimVerif.Lemmas.KernelBasic

namespace SimVerif

/-- `max` on `Int` spelled with `if` so that `omega`/`grind` see through it. -/
def imax (a b : Int) : Int := if a ≤ b then b else a

structure KInv (k : K) : Prop where
  sorted : SortedTq k.tq
  nodup  : (k.tq.map Prod.snd).Nodup
  agree  : ∀ e i, (e, i) ∈ k.tq → (k.timers i).expiry = e ∧ (k.timers i).expired = false
  queued : ∀ i, (k.timers i).expired = false → ((k.timers i).expiry, i) ∈ k.tq
  pend   : ∀ i h, (k.timers i).handler = some h →
            (k.timers i).expired = false ∧ (k.timers i).armedAt ≤ (k.timers i).startedAt
              ∧ (k.timers i).startedAt ≤ k.now
  armed  : ∀ i, (k.timers i).armedAt ≤ k.now
  noOver : ∀ e i, (e, i) ∈ k.tq → e < k.now → (k.timers i).armedAt = k.now
  readyT : ∀ t, t ∈ k.ready → t.tm = true → t.ec = .ok → imax t.exp t.st = k.now
  readyP : ∀ t, t ∈ k.ready → t.tm = false → t.st = k.now
  ranT   : ∀ t c, (t, c) ∈ k.ran → t.tm = true → t.ec = .ok → c = imax t.exp t.st
  ranP   : ∀ t c, (t, c) ∈ k.ran → t.tm = false → c = t.st

theorem KInv_init : KInv ({} : K) := by
  constructor <;> simp [SortedTq]

/-! #### fire -/

theorem fire_now (k : K) (i : Nat) (ec : Ec) : (fire k i ec).now = k.now := by
  unfold fire; dsimp only; split <;> rfl
theorem fire_tq (k : K) (i : Nat) (ec : Ec) : (fire k i ec).tq = k.tq := by
  unfold fire; dsimp only; split <;> rfl
theorem fire_ran (k : K) (i : Nat) (ec : Ec) : (fire k i ec).ran = k.ran := by
  unfold fire; dsimp only; split <;> rfl
theorem fire_stopped (k : K) (i : Nat) (ec : Ec) : (fire k i ec).stopped = k.stopped := by
  unfold fire; dsimp only; split <;> rfl
theorem fire_timers_other (k : K) (i j : Nat) (ec : Ec) (h : j ≠ i) :
    (fire k i ec).timers j = k.timers j := by
  unfold fire; dsimp only; split <;> simp [h]
theorem fire_timers_same (k : K) (i : Nat) (ec : Ec) :
    (fire k i ec).timers i = { k.timers i with expired := true, handler := none } := by
  unfold fire; dsimp only; split <;> simp_all
theorem fire_ready (k : K) (i : Nat) (ec : Ec) :
    (fire k i ec).ready = match (k.timers i).handler with
      | none => k.ready
      | some h => k.ready ++ [{ h := h, ec := ec, tm := true, exp := (k.timers i).expiry,
                                st := (k.timers i).startedAt }] := by
  unfold fire; dsimp only; split <;> simp_all

/-! #### cancel -/

theorem cancel_now (k : K) (i : Nat) : (cancel k i).1.now = k.now := by
  unfold cancel; dsimp only; split <;> (try split) <;> simp [fire_now]
theorem cancel_ran (k : K) (i : Nat) : (cancel k i).1.ran = k.ran := by
  unfold cancel; dsimp only; split <;> (try split) <;> simp [fire_ran]
theorem cancel_stopped (k : K) (i : Nat) : (cancel k i).1.stopped = k.stopped := by
  unfold cancel; dsimp only; split <;> (try split) <;> simp [fire_stopped]
theorem cancel_tq (k : K) (i : Nat) :
    (cancel k i).1.tq = if (k.timers i).expired then k.tq
                        else k.tq.erase ((k.timers i).expiry, i) := by
  unfold cancel; dsimp only; split <;> (try split) <;> simp [fire_tq]
theorem cancel_timers_other (k : K) (i j : Nat) (h : j ≠ i) :
    (cancel k i).1.timers j = k.timers j := by
  unfold cancel; dsimp only; split <;> (try split) <;> simp [fire_timers_other, h]
theorem cancel_timers_same (k : K) (i : Nat) :
    ((cancel k i).1.timers i).expired = true
    ∧ ((cancel k i).1.timers i).expiry = (k.timers i).expiry
    ∧ ((cancel k i).1.timers i).armedAt = (k.timers i).armedAt
    ∧ ((cancel k i).1.timers i).startedAt = (k.timers i).startedAt
    ∧ ((cancel k i).1.timers i).handler = if (k.timers i).expired then (k.timers i).handler else none := by
  unfold cancel; dsimp only; split <;> (try split) <;> simp_all [fire_timers_same]
theorem cancel_ready (k : K) (i : Nat) :
    (cancel k i).1.ready =
      if (k.timers i).expired then k.ready else
      match (k.timers i).handler with
      | none => k.ready
      | some h => k.ready ++ [{ h := h, ec := .aborted, tm := true, exp := (k.timers i).expiry,
                                st := (k.timers i).startedAt }] := by
  unfold cancel; dsimp only; split <;> (try split) <;> simp_all [fire_ready]
/-- Return value: 1 iff a wait was pending. -/
theorem cancel_ret (k : K) (i : Nat) :
    (cancel k i).2 = if (k.timers i).expired then 0 else
      match (k.timers i).handler with | none => 0 | some _ => 1 := by
  unfold cancel; dsimp only; split <;> (try split) <;> simp_all

theorem mem_erase_of_nodup_snd {l : List (Int × Nat)} {e e' : Int} {i j : Nat}
    (hn : (l.map Prod.snd).Nodup) (hi : (e, i) ∈ l) :
    (e', j) ∈ l.erase (e, i) ↔ (e', j) ∈ l ∧ j ≠ i := by
  induction l with
  | nil => simp at hi
  | cons a rest ih =>
    obtain ⟨ea, ja⟩ := a
    simp only [List.map_cons, List.nodup_cons, List.mem_map] at hn
    by_cases hhead : (ea, ja) = (e, i)
    · simp only [Prod.mk.injEq] at hhead
      obtain ⟨h1, h2⟩ := hhead
      subst h1; subst h2
      rw [List.erase_cons_head]
      constructor
      · intro hm
        refine ⟨List.mem_cons_of_mem _ hm, ?_⟩
        intro hji; subst hji
        exact hn.1 ⟨(e', j), hm, rfl⟩
      · intro ⟨hm, hne⟩
        rw [List.mem_cons] at hm
        rcases hm with hm | hm
        · simp only [Prod.mk.injEq] at hm; omega
        · exact hm
    · rw [List.erase_cons_tail (by simpa using hhead)]
      have hi' : (e, i) ∈ rest := by
        rw [List.mem_cons] at hi
        rcases hi with hi | hi
        · exact absurd hi.symm hhead
        · exact hi
      have := ih hn.2 hi'
      simp only [List.mem_cons, this]
      constructor
      · rintro (h | h)
        · simp only [Prod.mk.injEq] at h
          refine ⟨Or.inl (by simp [h]), ?_⟩
          intro hji
          apply hn.1
          exact ⟨(e, i), hi', by simp only; omega⟩
        · exact ⟨Or.inr h.1, h.2⟩
      · rintro ⟨h | h, hne⟩
        · exact Or.inl h
        · exact Or.inr ⟨h, hne⟩

theorem nodup_snd_erase {l : List (Int × Nat)} (x : Int × Nat)
    (hn : (l.map Prod.snd).Nodup) : ((l.erase x).map Prod.snd).Nodup :=
  List.Nodup.sublist (List.Sublist.map _ List.erase_sublist) hn

theorem KInv_cancel (k : K) (i : Nat) (hk : KInv k) : KInv (cancel k i).1 := by
  by_cases hexp : (k.timers i).expired = true
  · have hs : (cancel k i).1 = k := by unfold cancel; simp [hexp]
    rw [hs]; exact hk
  · have hexp' : (k.timers i).expired = false := by simpa using hexp
    have hq := hk.queued i hexp'
    have hsame := cancel_timers_same k i
    have hoth := fun j (h : j ≠ i) => cancel_timers_other k i j h
    constructor
    · rw [cancel_tq]; simp only [hexp', Bool.false_eq_true, if_false]
      exact sorted_erase _ _ hk.sorted
    · rw [cancel_tq]; simp only [hexp', Bool.false_eq_true, if_false]
      exact nodup_snd_erase _ hk.nodup
    · intro e j hj
      rw [cancel_tq] at hj; simp only [hexp', Bool.false_eq_true, if_false] at hj
      rw [mem_erase_of_nodup_snd hk.nodup hq] at hj
      rw [hoth j hj.2]; exact hk.agree e j hj.1
    · intro j hj
      by_cases hji : j = i
      · subst hji; rw [hsame.1] at hj; cases hj
      · rw [hoth j hji] at hj ⊢
        rw [cancel_tq]; simp only [hexp', Bool.false_eq_true, if_false]
        rw [mem_erase_of_nodup_snd hk.nodup hq]
        exact ⟨hk.queued j hj, hji⟩
    · intro j h hj
      by_cases hji : j = i
      · subst hji; rw [hsame.2.2.2.2] at hj; simp [hexp'] at hj
      · rw [hoth j hji] at hj ⊢; rw [cancel_now]; exact hk.pend j h hj
    · intro j
      rw [cancel_now]
      by_cases hji : j = i
      · subst hji; rw [hsame.2.2.1]; exact hk.armed j
      · rw [hoth j hji]; exact hk.armed j
    · intro e j hj hlt
      rw [cancel_tq] at hj; simp only [hexp', Bool.false_eq_true, if_false] at hj
      rw [mem_erase_of_nodup_snd hk.nodup hq] at hj
      rw [cancel_now] at hlt ⊢
      rw [hoth j hj.2]; exact hk.noOver e j hj.1 hlt
    · intro t ht htm hec
      rw [cancel_now]
      rw [cancel_ready] at ht; simp only [hexp', Bool.false_eq_true, if_false] at ht
      split at ht
      · exact hk.readyT t ht htm hec
      · rw [List.mem_append] at ht
        rcases ht with ht | ht
        · exact hk.readyT t ht htm hec
        · simp at ht; subst ht; simp at hec
    · intro t ht htm
      rw [cancel_now]
      rw [cancel_ready] at ht; simp only [hexp', Bool.false_eq_true, if_false] at ht
      split at ht
      · exact hk.readyP t ht htm
      · rw [List.mem_append] at ht
        rcases ht with ht | ht
        · exact hk.readyP t ht htm
        · simp at ht; subst ht; simp at htm
    · intro t c h; rw [cancel_ran] at h; exact hk.ranT t c h
    · intro t c h; rw [cancel_ran] at h; exact hk.ranP t c h

/-! #### expires_at / expires_after -/

theorem expiresAt_ret (k : K) (i : Nat) (e : Int) : (expiresAt k i e).2 = (cancel k i).2 := rfl

/-- Arming an expired timer (the state `cancel` leaves) keeps the invariant. -/
theorem KInv_arm (k : K) (i : Nat) (e : Int) (hk : KInv k) (hexp : (k.timers i).expired = true) :
    KInv (arm k i e) := by
  unfold arm
  have hnotin : ∀ e', (e', i) ∉ k.tq := by
    intro e' hm; have := (hk.agree e' i hm).2; rw [hexp] at this; cases this
  have hnoh : (k.timers i).handler = none := by
    cases hh : (k.timers i).handler with
    | none => rfl
    | some h => have := (hk.pend i h hh).1; rw [hexp] at this; cases this
  constructor
  · exact sorted_insertUB e i _ hk.sorted
  · -- nodup of ids
    dsimp only
    have : ∀ (l : List (Int × Nat)), (l.map Prod.snd).Nodup → (∀ e', (e', i) ∉ l) →
        ((insertUB e i l).map Prod.snd).Nodup := by
      intro l; induction l with
      | nil => intro _ _; simp [insertUB]
      | cons a rest ih =>
        obtain ⟨ea, ja⟩ := a
        intro hn hni
        have hja : ja ≠ i := by intro h; subst h; exact hni ea (by simp)
        have hni' : ∀ e', (e', i) ∉ rest := fun e' hm => hni e' (List.mem_cons_of_mem _ hm)
        unfold insertUB
        simp only [List.map_cons, List.nodup_cons, List.mem_map] at hn
        split
        · simp only [List.map_cons, List.nodup_cons, List.mem_cons, List.mem_map]
          refine ⟨?_, ?_, hn.2⟩
          · rintro (h | ⟨a, ha, hai⟩)
            · exact hja h.symm
            · obtain ⟨ea', ja'⟩ := a; simp only at hai; subst hai; exact hni' ea' ha
          · exact hn.1
        · simp only [List.map_cons, List.nodup_cons, List.mem_map]
          refine ⟨?_, ih hn.2 hni'⟩
          rintro ⟨a, ha, hai⟩
          rw [mem_insertUB] at ha
          rcases ha with ha | ha
          · subst ha; exact hja hai.symm
          · exact hn.1 ⟨a, ha, hai⟩
    exact this k.tq hk.nodup hnotin
  · intro e' j hj
    dsimp only at hj ⊢
    rw [mem_insertUB] at hj
    by_cases hji : j = i
    · subst hji
      rcases hj with hj | hj
      · simp only [Prod.mk.injEq] at hj; simp [hj.1]
      · exact absurd hj (hnotin e')
    · rw [setF_other _ _ _ _ hji]
      rcases hj with hj | hj
      · simp only [Prod.mk.injEq] at hj; exact absurd hj.2 hji
      · exact hk.agree e' j hj
  · intro j hj
    dsimp only at hj ⊢
    rw [mem_insertUB]
    by_cases hji : j = i
    · subst hji; simp
    · rw [setF_other _ _ _ _ hji] at hj ⊢; exact Or.inr (hk.queued j hj)
  · intro j h hj
    dsimp only at hj ⊢
    by_cases hji : j = i
    · subst hji; simp [hnoh] at hj
    · rw [setF_other _ _ _ _ hji] at hj ⊢; exact hk.pend j h hj
  · intro j
    dsimp only
    by_cases hji : j = i
    · subst hji; simp
    · rw [setF_other _ _ _ _ hji]; exact hk.armed j
  · intro e' j hj hlt
    dsimp only at hj hlt ⊢
    rw [mem_insertUB] at hj
    by_cases hji : j = i
    · subst hji; simp
    · rw [setF_other _ _ _ _ hji]
      rcases hj with hj | hj
      · simp only [Prod.mk.injEq] at hj; exact absurd hj.2 hji
      · exact hk.noOver e' j hj hlt
  · exact hk.readyT
  · exact hk.readyP
  · exact hk.ranT
  · exact hk.ranP

theorem KInv_expiresAt (k : K) (i : Nat) (e : Int) (hk : KInv k) : KInv (expiresAt k i e).1 := by
  exact KInv_arm _ i e (KInv_cancel k i hk) (cancel_timers_same k i).1

theorem KInv_expiresAfter (k : K) (i : Nat) (d : Int) (hk : KInv k) :
    KInv (expiresAfter k i d).1 := KInv_expiresAt k i _ hk

/-! #### post / exec / stop / restart -/

theorem KInv_post (k : K) (h : Nat) (hk : KInv k) : KInv (postTask k h) := by
  unfold postTask
  constructor
  · exact hk.sorted
  · exact hk.nodup
  · exact hk.agree
  · exact hk.queued
  · exact hk.pend
  · exact hk.armed
  · exact hk.noOver
  · intro t ht htm hec
    dsimp only at ht ⊢
    rw [List.mem_append] at ht
    rcases ht with ht | ht
    · exact hk.readyT t ht htm hec
    · simp at ht; subst ht; simp at htm
  · intro t ht htm
    dsimp only at ht ⊢
    rw [List.mem_append] at ht
    rcases ht with ht | ht
    · exact hk.readyP t ht htm
    · simp at ht; subst ht; rfl
  · exact hk.ranT
  · exact hk.ranP

theorem KInv_exec (k : K) (hk : KInv k) : KInv (exec k).1 := by
  unfold exec
  split
  · exact hk
  · rename_i t rest hr
    constructor
    · exact hk.sorted
    · exact hk.nodup
    · exact hk.agree
    · exact hk.queued
    · exact hk.pend
    · exact hk.armed
    · exact hk.noOver
    · intro t' ht'; exact hk.readyT t' (by rw [hr]; exact List.mem_cons_of_mem _ ht')
    · intro t' ht'; exact hk.readyP t' (by rw [hr]; exact List.mem_cons_of_mem _ ht')
    · intro t' c h htm hec
      dsimp only at h
      rw [List.mem_append] at h
      rcases h with h | h
      · exact hk.ranT t' c h htm hec
      · simp at h; obtain ⟨h1, h2⟩ := h; subst h1; subst h2
        exact (hk.readyT t' (by rw [hr]; simp) htm hec).symm
    · intro t' c h htm
      dsimp only at h
      rw [List.mem_append] at h
      rcases h with h | h
      · exact hk.ranP t' c h htm
      · simp at h; obtain ⟨h1, h2⟩ := h; subst h1; subst h2
        exact (hk.readyP t' (by rw [hr]; simp) htm).symm

theorem KInv_setStopped (k : K) (b : Bool) (hk : KInv k) : KInv { k with stopped := b } := by
  constructor
  · exact hk.sorted
  · exact hk.nodup
  · exact hk.agree
  · exact hk.queued
  · exact hk.pend
  · exact hk.armed
  · exact hk.noOver
  · exact hk.readyT
  · exact hk.readyP
  · exact hk.ranT
  · exact hk.ranP

/-! #### async_wait -/

/-- Storing a handler on a queued (non-expired) timer. -/
theorem KInv_setHandler (k : K) (i h : Nat) (hk : KInv k) (hne : (k.timers i).expired = false) :
    KInv (setHandler k i h) := by
  unfold setHandler
  constructor
  · exact hk.sorted
  · exact hk.nodup
  · intro e j hj; dsimp only at hj ⊢
    by_cases hji : j = i
    · subst hji; simpa using hk.agree e j hj
    · rw [setF_other _ _ _ _ hji]; exact hk.agree e j hj
  · intro j hj; dsimp only at hj ⊢
    by_cases hji : j = i
    · subst hji; simp only [setF_same] at hj ⊢; exact hk.queued j hne
    · rw [setF_other _ _ _ _ hji] at hj ⊢; exact hk.queued j hj
  · intro j h' hj; dsimp only at hj ⊢
    by_cases hji : j = i
    · subst hji; simp only [setF_same]; exact ⟨hne, hk.armed j, Int.le_refl _⟩
    · rw [setF_other _ _ _ _ hji] at hj ⊢; exact hk.pend j h' hj
  · intro j; dsimp only
    by_cases hji : j = i
    · subst hji; simp only [setF_same]; exact hk.armed j
    · rw [setF_other _ _ _ _ hji]; exact hk.armed j
  · intro e j hj hlt; dsimp only at hj hlt ⊢
    by_cases hji : j = i
    · subst hji; simp only [setF_same]; exact hk.noOver e j hj hlt
    · rw [setF_other _ _ _ _ hji]; exact hk.noOver e j hj hlt
  · exact hk.readyT
  · exact hk.readyP
  · exact hk.ranT
  · exact hk.ranP

/-- Waiting on an expired timer whose expiry is not in the future: immediate success. -/
theorem KInv_waitNow (k : K) (i h : Nat) (hk : KInv k) (hexp : (k.timers i).expired = true)
    (hdue : (k.timers i).expiry ≤ k.now) : KInv (fire (setHandler k i h) i .ok) := by
  have hnotin : ∀ e', (e', i) ∉ k.tq := by
    intro e' hm; have := (hk.agree e' i hm).2; rw [hexp] at this; cases this
  have hsame := fire_timers_same (setHandler k i h) i .ok
  have hoth : ∀ j, j ≠ i → (fire (setHandler k i h) i .ok).timers j = k.timers j := by
    intro j hji; rw [fire_timers_other _ _ _ _ hji]; unfold setHandler; simp [hji]
  have hsh : (setHandler k i h).timers i = { k.timers i with handler := some h, startedAt := k.now } := by
    unfold setHandler; simp
  have hnow : (fire (setHandler k i h) i .ok).now = k.now := by rw [fire_now]; rfl
  have htq : (fire (setHandler k i h) i .ok).tq = k.tq := by rw [fire_tq]; rfl
  have hran : (fire (setHandler k i h) i .ok).ran = k.ran := by rw [fire_ran]; rfl
  have hready : (fire (setHandler k i h) i .ok).ready =
      k.ready ++ [{ h := h, ec := .ok, tm := true, exp := (k.timers i).expiry, st := k.now }] := by
    rw [fire_ready, hsh]; rfl
  constructor
  · rw [htq]; exact hk.sorted
  · rw [htq]; exact hk.nodup
  · intro e j hj; rw [htq] at hj
    have hji : j ≠ i := by intro h'; subst h'; exact hnotin e hj
    rw [hoth j hji]; exact hk.agree e j hj
  · intro j hj
    by_cases hji : j = i
    · subst hji; rw [hsame] at hj; simp at hj
    · rw [hoth j hji] at hj ⊢; rw [htq]; exact hk.queued j hj
  · intro j h' hj
    by_cases hji : j = i
    · subst hji; rw [hsame] at hj; simp at hj
    · rw [hoth j hji] at hj ⊢; rw [hnow]; exact hk.pend j h' hj
  · intro j; rw [hnow]
    by_cases hji : j = i
    · subst hji; rw [hsame, hsh]; exact hk.armed j
    · rw [hoth j hji]; exact hk.armed j
  · intro e j hj hlt; rw [htq] at hj; rw [hnow] at hlt ⊢
    have hji : j ≠ i := by intro h'; subst h'; exact hnotin e hj
    rw [hoth j hji]; exact hk.noOver e j hj hlt
  · intro t ht htm hec; rw [hnow]; rw [hready, List.mem_append] at ht
    rcases ht with ht | ht
    · exact hk.readyT t ht htm hec
    · simp at ht; subst ht; simp only [imax]; split <;> omega
  · intro t ht htm; rw [hnow]; rw [hready, List.mem_append] at ht
    rcases ht with ht | ht
    · exact hk.readyP t ht htm
    · simp at ht; subst ht; simp at htm
  · rw [hran]; exact hk.ranT
  · rw [hran]; exact hk.ranP

theorem arm_timers_same (k : K) (i : Nat) (e : Int) :
    (arm k i e).timers i =
      { k.timers i with expiry := e, expired := false, armedAt := k.now, armSeq := k.nextSeq } := by
  unfold arm; simp

theorem KInv_asyncWait (p : KParams) (hp : p.waitRequeue = true) (k : K) (i h : Nat) (hk : KInv k) :
    KInv (asyncWait p k i h) := by
  unfold asyncWait
  by_cases hexp : (k.timers i).expired = true
  · simp only [hexp, if_true, hp, Bool.true_and, decide_eq_true_eq]
    split
    · apply KInv_setHandler _ _ _ (KInv_arm k i _ hk hexp)
      rw [arm_timers_same]
    · exact KInv_waitNow k i h hk hexp (by omega)
  · have : (k.timers i).expired = false := by simpa using hexp
    simp only [this, Bool.false_eq_true, if_false]
    exact KInv_setHandler k i h hk this

/-! #### the timer loop and the clock step -/

theorem fireDue_now (l : List (Int × Nat)) (k : K) : (fireDue l k).1.now = k.now := by
  induction l generalizing k with
  | nil => simp [fireDue]
  | cons a rest ih =>
    obtain ⟨e, i⟩ := a
    unfold fireDue
    split
    · simp only; rw [ih, fire_now]
    · rfl

/-- Popping the due head of the queue and firing it keeps the invariant. -/
theorem KInv_popFire (k : K) (e : Int) (i : Nat) (rest : List (Int × Nat)) (hk : KInv k)
    (htq : k.tq = (e, i) :: rest) (hdue : e ≤ k.now) :
    KInv (fire { k with tq := rest } i .ok) := by
  have hmem : (e, i) ∈ k.tq := by rw [htq]; simp
  have hag := hk.agree e i hmem
  have hnd := hk.nodup; rw [htq] at hnd
  simp only [List.map_cons, List.nodup_cons, List.mem_map] at hnd
  have hnotin : ∀ e', (e', i) ∉ rest := fun e' hm => hnd.1 ⟨(e', i), hm, rfl⟩
  have hsub : ∀ x, x ∈ rest → x ∈ k.tq := fun x hx => by rw [htq]; exact List.mem_cons_of_mem _ hx
  have hsame := fire_timers_same { k with tq := rest } i .ok
  have hoth : ∀ j, j ≠ i → (fire { k with tq := rest } i .ok).timers j = k.timers j :=
    fun j hji => fire_timers_other _ _ _ _ hji
  have hnow : (fire { k with tq := rest } i .ok).now = k.now := fire_now _ _ _
  have htq' : (fire { k with tq := rest } i .ok).tq = rest := fire_tq _ _ _
  have hran : (fire { k with tq := rest } i .ok).ran = k.ran := fire_ran _ _ _
  have hready := fire_ready { k with tq := rest } i .ok
  constructor
  · rw [htq']; have := hk.sorted; rw [htq] at this; exact (List.pairwise_cons.mp this).2
  · rw [htq']; exact hnd.2
  · intro e' j hj; rw [htq'] at hj
    have hji : j ≠ i := by intro h'; subst h'; exact hnotin e' hj
    rw [hoth j hji]; exact hk.agree e' j (hsub _ hj)
  · intro j hj
    by_cases hji : j = i
    · subst hji; rw [hsame] at hj; simp at hj
    · rw [hoth j hji] at hj ⊢; rw [htq']
      have := hk.queued j hj; rw [htq, List.mem_cons] at this
      rcases this with h' | h'
      · simp only [Prod.mk.injEq] at h'; exact absurd h'.2 hji
      · exact h'
  · intro j h' hj
    by_cases hji : j = i
    · subst hji; rw [hsame] at hj; simp at hj
    · rw [hoth j hji] at hj ⊢; rw [hnow]; exact hk.pend j h' hj
  · intro j; rw [hnow]
    by_cases hji : j = i
    · subst hji; rw [hsame]; exact hk.armed j
    · rw [hoth j hji]; exact hk.armed j
  · intro e' j hj hlt; rw [htq'] at hj; rw [hnow] at hlt ⊢
    have hji : j ≠ i := by intro h'; subst h'; exact hnotin e' hj
    rw [hoth j hji]; exact hk.noOver e' j (hsub _ hj) hlt
  · intro t ht htm hec; rw [hnow]; rw [hready] at ht
    dsimp only at ht
    split at ht
    · exact hk.readyT t ht htm hec
    · rename_i h' hh
      rw [List.mem_append] at ht
      rcases ht with ht | ht
      · exact hk.readyT t ht htm hec
      · simp at ht; subst ht
        have hp := hk.pend i h' hh
        simp only [imax, hag.1]
        by_cases hlt : e < k.now
        · have := hk.noOver e i hmem hlt; split <;> omega
        · split <;> omega
  · intro t ht htm; rw [hnow]; rw [hready] at ht
    dsimp only at ht
    split at ht
    · exact hk.readyP t ht htm
    · rw [List.mem_append] at ht
      rcases ht with ht | ht
      · exact hk.readyP t ht htm
      · simp at ht; subst ht; simp at htm
  · rw [hran]; exact hk.ranT
  · rw [hran]; exact hk.ranP

theorem KInv_fireDue (l : List (Int × Nat)) (k : K) (hk : KInv k) (htq : k.tq = l) :
    KInv (fireDue l k).1 := by
  induction l generalizing k with
  | nil => simpa [fireDue] using hk
  | cons a rest ih =>
    obtain ⟨e, i⟩ := a
    unfold fireDue
    split
    · rename_i hdue
      simp only
      exact ih _ (KInv_popFire k e i rest hk htq hdue) (fire_tq _ _ _)
    · exact hk

/-- After the timer loop nothing that is due is left in the queue. -/
theorem fireDue_none_due (l : List (Int × Nat)) (k : K) (hs : SortedTq l) (htq : k.tq = l) :
    ∀ e i, (e, i) ∈ (fireDue l k).1.tq → k.now < e := by
  induction l generalizing k with
  | nil => intro e i h; simp [fireDue, htq] at h
  | cons a rest ih =>
    obtain ⟨e0, i0⟩ := a
    unfold fireDue
    split
    · simp only
      intro e i h
      have := ih (fire { k with tq := rest } i0 .ok) (List.pairwise_cons.mp hs).2 (fire_tq _ _ _) e i h
      rwa [fire_now] at this
    · rename_i hnd
      intro e i h
      rw [htq, List.mem_cons] at h
      rcases h with h | h
      · simp only [Prod.mk.injEq] at h; omega
      · have := (List.pairwise_cons.mp hs).1 (e, i) h; simp at this; omega

theorem KInv_setNow (k : K) (n : Int) (hk : KInv k) (hr : k.ready = []) (hmono : k.now ≤ n)
    (hover : ∀ e i, (e, i) ∈ k.tq → e < n → n = k.now) : KInv { k with now := n } := by
  constructor
  · exact hk.sorted
  · exact hk.nodup
  · exact hk.agree
  · exact hk.queued
  · intro i h hh; have := hk.pend i h hh; dsimp only; exact ⟨this.1, this.2.1, by omega⟩
  · intro i; have := hk.armed i; dsimp only; omega
  · intro e i hm hlt; dsimp only at hlt ⊢
    have := hover e i hm hlt; subst this; exact hk.noOver e i hm hlt
  · intro t ht; rw [hr] at ht; cases ht
  · intro t ht; rw [hr] at ht; cases ht
  · exact hk.ranT
  · exact hk.ranP

theorem KInv_advance (p : KParams) (hp : p.advanceGuard = true) (k : K) (hk : KInv k)
    (hr : k.ready = []) : KInv (advance p k).1 := by
  unfold advance
  split
  · exact hk
  · rename_i e i rest htq
    simp only [hp, if_true]
    apply KInv_fireDue
    · apply KInv_setNow k _ hk hr
      · split <;> omega
      · intro e' i' hm hlt
        have hs := hk.sorted; rw [htq] at hs
        rw [htq, List.mem_cons] at hm
        split at hlt <;> rename_i hc
        · rcases hm with hm | hm
          · simp only [Prod.mk.injEq] at hm; omega
          · have := (List.pairwise_cons.mp hs).1 _ hm; simp at this; omega
        · split <;> omega
    · rfl

theorem advance_now_ge (p : KParams) (hp : p.advanceGuard = true) (k : K) :
    k.now ≤ (advance p k).1.now := by
  unfold advance
  split
  · exact Int.le_refl _
  · simp only [hp, if_true]; rw [fireDue_now]; dsimp only; split <;> omega

/-- Every transition of the labelled system keeps the invariant (repaired parameters). -/
theorem KInv_step (p : KParams) (hp1 : p.advanceGuard = true) (hp2 : p.waitRequeue = true)
    (k : K) (l : Lbl) (hk : KInv k) : KInv (step p k l) := by
  cases l with
  | expiresAt i e => exact KInv_expiresAt k i e hk
  | expiresAfter i d => exact KInv_expiresAfter k i d hk
  | wait i h => exact KInv_asyncWait p hp2 k i h hk
  | cancel i => exact KInv_cancel k i hk
  | post h => exact KInv_post k h hk
  | stop => exact KInv_setStopped k true hk
  | restart => exact KInv_setStopped k false hk
  | exec => exact KInv_exec k hk
  | advance =>
    simp only [step]
    split
    · rename_i hr; exact KInv_advance p hp1 k hk hr
    · exact hk

theorem KInv_run (p : KParams) (hp1 : p.advanceGuard = true) (hp2 : p.waitRequeue = true)
    (ls : List Lbl) (k : K) (hk : KInv k) : KInv (runLbls p k ls) := by
  induction ls generalizing k with
  | nil => exact hk
  | cons l rest ih => exact ih _ (KInv_step p hp1 hp2 k l hk)

/-! #### the stop flag is read by no transition -/

def K.withStop (k : K) (b : Bool) : K := { k with stopped := b }

@[simp] theorem withStop_withStop (k : K) (a b : Bool) : (k.withStop a).withStop b = k.withStop b := rfl

theorem fire_withStop (k : K) (b : Bool) (i : Nat) (ec : Ec) :
    fire (k.withStop b) i ec = (fire k i ec).withStop b := by
  unfold fire K.withStop; dsimp only; split <;> rfl

theorem cancel_withStop (k : K) (b : Bool) (i : Nat) :
    cancel (k.withStop b) i = ((cancel k i).1.withStop b, (cancel k i).2) := by
  cases k with
  | mk now ready tq timers stopped ran started nextSeq =>
  simp only [cancel, K.withStop]
  by_cases h : (timers i).expired = true
  · simp [h]
  · cases hh : (timers i).handler with
    | none => simp [h]
    | some v => simp [h, fire]

theorem arm_withStop (k : K) (b : Bool) (i : Nat) (e : Int) :
    arm (k.withStop b) i e = (arm k i e).withStop b := rfl

theorem setHandler_withStop (k : K) (b : Bool) (i h : Nat) :
    setHandler (k.withStop b) i h = (setHandler k i h).withStop b := rfl

theorem fireDue_withStop (l : List (Int × Nat)) (k : K) (b : Bool) :
    fireDue l (k.withStop b) = ((fireDue l k).1.withStop b, (fireDue l k).2) := by
  induction l generalizing k with
  | nil => rfl
  | cons a rest ih =>
    obtain ⟨e, i⟩ := a
    cases k with
    | mk now ready tq timers stopped ran started nextSeq =>
    simp only [fireDue, K.withStop]
    by_cases h : e ≤ now
    · have := fire_withStop { now := now, ready := ready, tq := rest, timers := timers,
                              stopped := stopped, ran := ran, started := started, nextSeq := nextSeq } b i .ok
      simp only [K.withStop] at this ih
      simp only [h, if_true]
      rw [this, ih]
    · simp [h]

theorem advance_withStop (p : KParams) (k : K) (b : Bool) :
    (advance p (k.withStop b)).1 = (advance p k).1.withStop b := by
  cases k with
  | mk now ready tq timers stopped ran started nextSeq =>
  cases tq with
  | nil => rfl
  | cons a rest =>
    obtain ⟨e, i⟩ := a
    simp only [advance, K.withStop]
    have := fireDue_withStop ((e, i) :: rest)
      { now := (if p.advanceGuard = true then (if now < e then e else now) else e), ready := ready,
        tq := (e, i) :: rest, timers := timers, stopped := stopped, ran := ran, started := started, nextSeq := nextSeq } b
    simp only [K.withStop] at this
    exact congrArg Prod.fst this

theorem step_withStop (p : KParams) (k : K) (b : Bool) (l : Lbl)
    (hl : (l matches .stop | .restart) = false) :
    step p (k.withStop b) l = (step p k l).withStop b := by
  cases l with
  | stop => simp at hl
  | restart => simp at hl
  | expiresAt i e => simp only [step, expiresAt, cancel_withStop, arm_withStop]
  | expiresAfter i d =>
    simp only [step, expiresAfter, expiresAt, cancel_withStop, arm_withStop]; rfl
  | wait i h =>
    simp only [step, asyncWait]
    have h1 : (k.withStop b).timers = k.timers := rfl
    have h2 : (k.withStop b).now = k.now := rfl
    rw [h1, h2]
    split
    · split
      · rw [arm_withStop, setHandler_withStop]
      · rw [setHandler_withStop, fire_withStop]
    · rw [setHandler_withStop]
  | cancel i => simp only [step, cancel_withStop]
  | post h => rfl
  | exec => simp only [step, exec]; unfold K.withStop; dsimp only; split <;> rfl
  | advance =>
    simp only [step]
    have h1 : (k.withStop b).ready = k.ready := rfl
    rw [h1]
    split
    · exact advance_withStop p k b
    · rfl

theorem run_withStop_irrel (p : KParams) (ls : List Lbl) (k : K) (b : Bool) :
    (runLbls p (k.withStop b) ls).withStop false = (runLbls p k ls).withStop false := by
  induction ls generalizing k b with
  | nil => rfl
  | cons l rest ih =>
    simp only [runLbls, List.foldl_cons] at ih ⊢
    by_cases hl : (l matches .stop | .restart) = true
    · have : step p (k.withStop b) l = step p k l := by
        cases l <;> simp at hl <;> rfl
      rw [this]
    · rw [step_withStop p k b l (by simpa using hl)]
      exact ih _ b

end SimVerif
