/-
  Helper lemmas for the HTTP parser model: checked reads and `find`.
-/
import SimVerif.Http

namespace SimVerif.Http

/-- The `n`-byte window at offset `p`. -/
def win (bs : Bytes) (p n : Nat) : Bytes := (bs.drop p).take n

theorem readN_ok (bs : Bytes) (off n : Nat) (h : off + n ≤ bs.length) :
    readN bs off n = .ok (win bs off n) := by
  simp [readN, h, win]

theorem readN_ne_parseFailed (bs : Bytes) (off n : Nat) : readN bs off n ≠ .error .parseFailed := by
  unfold readN; split <;> simp

theorem findLoop_spec (bs : Bytes) (off : Nat) (needle : Bytes) :
    ∀ (r i : Nat), (r = 0 ∨ off + i + r + needle.length ≤ bs.length + 1) →
      (findLoop bs off needle r i = .ok none ∧
        ∀ j, i ≤ j → j < i + r → win bs (off + j) needle.length ≠ needle) ∨
      (∃ j, i ≤ j ∧ j < i + r ∧ findLoop bs off needle r i = .ok (some (off + j)) ∧
        win bs (off + j) needle.length = needle ∧
        ∀ k, i ≤ k → k < j → win bs (off + k) needle.length ≠ needle) := by
  intro r
  induction r with
  | zero =>
    intro i _
    left
    refine ⟨by simp [findLoop], ?_⟩
    intro j h1 h2; omega
  | succ r ih =>
    intro i hb
    have hb' : off + i + needle.length ≤ bs.length := by omega
    unfold findLoop
    rw [readN_ok bs (off + i) needle.length hb']
    dsimp only
    by_cases hw : win bs (off + i) needle.length = needle
    · right
      refine ⟨i, Nat.le_refl _, by omega, by simp [hw], hw, ?_⟩
      intro k h1 h2; omega
    · rw [if_neg hw]
      have hb2 : r = 0 ∨ off + (i + 1) + r + needle.length ≤ bs.length + 1 := by omega
      rcases ih (i + 1) hb2 with ⟨h1, h2⟩ | ⟨j, h1, h2, h3, h4, h5⟩
      · left
        refine ⟨h1, ?_⟩
        intro j hj1 hj2
        by_cases hji : j = i
        · subst hji; exact hw
        · exact h2 j (by omega) (by omega)
      · right
        refine ⟨j, by omega, by omega, h3, h4, ?_⟩
        intro k hk1 hk2
        by_cases hki : k = i
        · subst hki; exact hw
        · exact h5 k (by omega) hk2

/-- Characterisation of `find` on an in-bounds haystack `[off, off + hsize)`. -/
theorem find_spec (bs : Bytes) (off : Nat) (hsize : Int) (needle : Bytes)
    (hb : (off : Int) + hsize ≤ bs.length) :
    (find bs off hsize needle = .ok none ∧
      ∀ p : Nat, off ≤ p → (p : Int) + needle.length ≤ off + hsize →
        win bs p needle.length ≠ needle) ∨
    (∃ p : Nat, find bs off hsize needle = .ok (some p) ∧ off ≤ p ∧
      (p : Int) + needle.length ≤ off + hsize ∧ win bs p needle.length = needle ∧
      ∀ k : Nat, off ≤ k → k < p → win bs k needle.length ≠ needle) := by
  unfold find
  have hr : ((hsize - (needle.length : Int) + 1).toNat = 0 ∨
      off + 0 + (hsize - (needle.length : Int) + 1).toNat + needle.length ≤ bs.length + 1) := by
    omega
  rcases findLoop_spec bs off needle _ 0 hr with ⟨h1, h2⟩ | ⟨j, _, h2, h3, h4, h5⟩
  · left
    refine ⟨h1, ?_⟩
    intro p hp1 hp2
    have := h2 (p - off) (by omega) (by omega)
    rwa [show off + (p - off) = p by omega] at this
  · right
    refine ⟨off + j, h3, by omega, by omega, h4, ?_⟩
    intro k hk1 hk2
    have := h5 (k - off) (by omega) (by omega)
    rwa [show off + (k - off) = k by omega] at this

theorem find_ne_oob (bs : Bytes) (off : Nat) (hsize : Int) (needle : Bytes)
    (hb : (off : Int) + hsize ≤ bs.length) : find bs off hsize needle ≠ .error .oob := by
  rcases find_spec bs off hsize needle hb with ⟨h, _⟩ | ⟨p, h, _⟩ <;> rw [h] <;> simp

/-- `find` is determined by the first matching window. -/
theorem find_eq_some (bs : Bytes) (off : Nat) (hsize : Int) (needle : Bytes) (p : Nat)
    (hb : (off : Int) + hsize ≤ bs.length) (h1 : off ≤ p)
    (h2 : (p : Int) + needle.length ≤ off + hsize)
    (h3 : win bs p needle.length = needle)
    (h4 : ∀ k : Nat, off ≤ k → k < p → win bs k needle.length ≠ needle) :
    find bs off hsize needle = .ok (some p) := by
  rcases find_spec bs off hsize needle hb with ⟨_, hn⟩ | ⟨q, hq, hq1, hq2, hq3, hq4⟩
  · exact absurd h3 (hn p h1 h2)
  · have : q = p := by
      rcases Nat.lt_trichotomy q p with h | h | h
      · exact absurd hq3 (h4 q hq1 h)
      · exact h
      · exact absurd h3 (hq4 p h1 h)
    rw [hq, this]

theorem find_eq_none (bs : Bytes) (off : Nat) (hsize : Int) (needle : Bytes)
    (hb : (off : Int) + hsize ≤ bs.length)
    (h : ∀ p : Nat, off ≤ p → (p : Int) + needle.length ≤ off + hsize →
        win bs p needle.length ≠ needle) :
    find bs off hsize needle = .ok none := by
  rcases find_spec bs off hsize needle hb with ⟨hn, _⟩ | ⟨q, _, hq1, hq2, hq3, _⟩
  · exact hn
  · exact absurd hq3 (h q hq1 hq2)

/-- `memchr` on an in-bounds range `[off, off + n)`. -/
theorem memchr_spec (bs : Bytes) (off : Nat) (c : UInt8) (n : Int) (hn : 0 ≤ n)
    (hb : (off : Int) + n ≤ bs.length) :
    (memchr bs off c n = .ok none ∧
      ∀ p : Nat, off ≤ p → (p : Int) < off + n → win bs p 1 ≠ [c]) ∨
    (∃ p : Nat, memchr bs off c n = .ok (some p) ∧ off ≤ p ∧ (p : Int) < off + n ∧
      win bs p 1 = [c] ∧ ∀ k : Nat, off ≤ k → k < p → win bs k 1 ≠ [c]) := by
  have hm : memchr bs off c n = find bs off n [c] := by
    unfold memchr find
    rw [if_neg (by omega)]
    simp
  rw [hm]
  rcases find_spec bs off n [c] hb with ⟨h1, h2⟩ | ⟨p, h1, h2, h3, h4, h5⟩
  · left
    refine ⟨h1, ?_⟩
    intro p hp1 hp2
    exact h2 p hp1 (by simp; omega)
  · right
    simp at h3
    exact ⟨p, h1, h2, by omega, h4, h5⟩

end SimVerif.Http
