/-
  SimVerif.Lemmas.ResolverInv — projection lemmas for the resolver mechanism
  (SimVerif/Resolver.lean), the open system `RS` (SimVerif/ResolverSys.lean), and the
  invariant `RInv` that holds after every well-timed history (`RS.okRun`) of the repaired
  tree (`RParams.fixed`).

  Structure of the invariant:
    * `RCore`   — everything about queue, logs and the pending wait that also holds in the
                  middle of `on_lookup` (between the pop and the re-arm);
    * `FrontOK` — the front entry is not overdue, unless the current instant is the deadline
                  of some address literal;
    * `Armed`   — a non-empty queue has the timer armed for the front entry's completion, or
                  `on_lookup` is posted.
-/
import SimVerif.ResolverSys

namespace SimVerif

/-! ### list helpers -/

theorem count_map_ofEntry (t : Int) (il : Bool) (ec : Ec) (l : List REntry) (h : Nat) :
    ((l.map (RComp.ofEntry t il ec)).map RComp.h).count h = (l.map REntry.h).count h := by
  induction l with
  | nil => rfl
  | cons a l ih => simp [List.count_cons, RComp.ofEntry] at ih ⊢; omega

theorem filter_map_ofEntry (t : Int) (il : Bool) (ec : Ec) (l : List REntry) :
    ((l.map (RComp.ofEntry t il ec)).filter (fun c => !c.literal)).map RComp.h
      = (l.filter (fun e => !e.literal)).map REntry.h := by
  induction l with
  | nil => rfl
  | cons a l ih =>
    cases ha : a.literal <;> simp [RComp.ofEntry, ha] at ih ⊢ <;> exact ih

/-- the queue is "literals, then host names with non-decreasing completion" -/
def QRel (x y : REntry) : Prop :=
  x.literal = false → y.literal = false ∧ x.completion ≤ y.completion

theorem rs_pair_last {l : List REntry} {b : REntry} (hp : l.Pairwise QRel)
    (hb : l.getLast? = some b) :
    ∀ x ∈ l, x.literal = false → b.literal = false ∧ x.completion ≤ b.completion := by
  obtain ⟨ys, rfl⟩ := List.getLast?_eq_some_iff.mp hb
  intro x hx hl
  rw [List.pairwise_append] at hp
  rcases List.mem_append.mp hx with hx | hx
  · exact hp.2.2 x hx b (by simp) hl
  · simp at hx; subst hx; exact ⟨hl, Int.le_refl _⟩

theorem LitDl_mono {l l' : List RReq} {a : Int} (h : LitDl l a) : LitDl (l ++ l') a := by
  obtain ⟨q, hq, h1, h2⟩ := h
  exact ⟨q, List.mem_append_left _ hq, h1, h2⟩

/-- how far a host-name entry's `completion_time` may exceed its nominal completion: one
    microsecond once an address literal has been requested, nothing before -/
def litSlack (reqLog : List RReq) : Int := if reqLog.any (fun q => q.literal) then 1000 else 0

theorem litSlack_nonneg (l : List RReq) : 0 ≤ litSlack l := by unfold litSlack; split <;> omega
theorem litSlack_le (l : List RReq) : litSlack l ≤ 1000 := by unfold litSlack; split <;> omega

theorem litSlack_of_lit {l : List RReq} {q : RReq} (hq : q ∈ l) (hl : q.literal = true) :
    litSlack l = 1000 := by
  unfold litSlack
  have : l.any (fun q => q.literal) = true := List.any_eq_true.mpr ⟨q, hq, hl⟩
  simp [this]

theorem litSlack_mono (l l' : List RReq) : litSlack l ≤ litSlack (l ++ l') := by
  by_cases h : ∃ q ∈ l, q.literal = true
  · obtain ⟨q, hq, hl⟩ := h
    rw [litSlack_of_lit hq hl, litSlack_of_lit (List.mem_append_left l' hq) hl]
    omega
  · have : litSlack l = 0 := by
      unfold litSlack
      have : l.any (fun q => q.literal) = false := by
        rw [List.any_eq_false]; intro q hq hl; exact h ⟨q, hq, hl⟩
      simp [this]
    have := litSlack_nonneg (l ++ l')
    omega

theorem litSlack_nolit {l : List RReq} (h : ∀ q ∈ l, q.literal = false) : litSlack l = 0 := by
  unfold litSlack
  have : l.any (fun q => q.literal) = false := by
    rw [List.any_eq_false]; intro q hq; simp [h q hq]
  simp [this]

/-! ### mechanism projections -/

theorem rs_applyEff_armFront (s : RS) (r : R) (z : REntry) (h : r.queue.head? = some z) :
    s.applyEff r.armFront = { s with timer := some (z.completion, s.now) } := by
  unfold R.armFront
  cases hq : r.queue with
  | nil => simp [hq] at h
  | cons f rest =>
    simp [hq] at h; subst h
    rfl

theorem rs_applyEff_posts (s : RS) (l : List REntry) :
    s.applyEff (l.map (fun e => REff.post e.h .aborted e.res)) = s := by
  induction l with
  | nil => rfl
  | cons a l ih => simpa [RS.applyEff] using ih

theorem startTime_nil (p : RParams) (now : Int) (r : R) (h : r.queue = []) :
    r.startTime p now = now := by
  unfold R.startTime; simp [h]

theorem startTime_fixed (now : Int) (r : R) (b : REntry) (h : r.queue.getLast? = some b) :
    r.startTime .fixed now = max now b.completion := by
  unfold R.startTime
  cases hq : r.queue with
  | nil => simp [hq] at h
  | cons f rest =>
    rw [hq] at h
    simp [h, RParams.fixed]

/-- the entry `async_resolve` of a host name appends -/
def RS.nameEntry (p : RParams) (s : RS) (err : Ec) (ips : List String) (lat : Int) (port h : Nat) :
    REntry :=
  { completion := s.r.startTime p s.now + lat, err := err, ips := ips, port := port, h := h
    literal := false }

/-- the entry `async_resolve` of a literal inserts -/
def RS.litEntry (s : RS) (addr : String) (port h : Nat) : REntry :=
  { completion := s.now + 1000, err := .ok, ips := [addr], port := port, h := h, literal := true }

theorem doLit_eq (s : RS) (addr : String) (port h : Nat) :
    s.doLit addr port h =
      { s with r := { queue := s.litEntry addr port h :: s.r.queue }
               reqLog := s.reqLog ++ [RReq.ofLit s.now addr port h]
               timer := some (s.now + 1000, s.now) } := rfl

theorem doName_eq (p : RParams) (s : RS) (err : Ec) (ips : List String) (lat : Int) (port h : Nat)
    (z : REntry) (hz : (s.r.queue ++ [s.nameEntry p err ips lat port h]).head? = some z) :
    s.doName p err ips lat port h =
      { s with r := { queue := s.r.queue ++ [s.nameEntry p err ips lat port h] }
               reqLog := s.reqLog ++ [RReq.ofName s.now err ips lat port h (s.nominal lat)]
               lastNom := some (s.nominal lat)
               timer := some (z.completion, s.now) } := by
  unfold RS.doName R.resolveName
  dsimp only
  exact rs_applyEff_armFront _ { queue := s.r.queue ++ [s.nameEntry p err ips lat port h] } z hz

theorem doCancel_eq (s : RS) :
    s.doCancel =
      { s with r := { queue := [] }
               compLog := s.compLog ++ s.r.queue.map (RComp.ofEntry s.now false .aborted)
               lastNom := none } := by
  unfold RS.doCancel R.cancel
  dsimp only
  rw [rs_applyEff_posts]

/-! ### the invariant -/

/-- a queue entry carries what its request says -/
def Matches (k : Int) (e : REntry) (q : RReq) : Prop :=
  q.h = e.h ∧ q.literal = e.literal ∧ (e.err, e.res) = q.expected
  ∧ (e.literal = true → e.completion = q.t + 1000)
  ∧ (e.literal = false → q.nominal ≤ e.completion ∧ e.completion ≤ q.nominal + k)

theorem Matches.mono {k k' : Int} {e : REntry} {q : RReq} (h : Matches k e q) (hk : k ≤ k') :
    Matches k' e q := by
  obtain ⟨h1, h2, h3, h4, h5⟩ := h
  exact ⟨h1, h2, h3, h4, fun hl => ⟨(h5 hl).1, by have := (h5 hl).2; omega⟩⟩

/-- a logged completion agrees with its request; timing for the ones `on_lookup` made -/
def CompOk (reqLog : List RReq) (c : RComp) : Prop :=
  ∃ q ∈ reqLog, q.h = c.h ∧ q.literal = c.literal
    ∧ (c.inline = false → c.ec = .aborted)
    ∧ (c.inline = true →
        (c.ec, c.res) = q.expected
        ∧ (c.literal = true → c.sched = q.t + 1000)
        ∧ (c.literal = false → q.nominal ≤ c.sched ∧ c.sched ≤ q.nominal + litSlack reqLog)
        ∧ c.sched ≤ c.t ∧ (c.t = c.sched ∨ LitDl reqLog c.t))

theorem CompOk_mono {l l' : List RReq} {c : RComp} (h : CompOk l c) : CompOk (l ++ l') c := by
  obtain ⟨q, hq, h1, h2, h3, h4⟩ := h
  refine ⟨q, List.mem_append_left _ hq, h1, h2, h3, fun hi => ?_⟩
  obtain ⟨a, b, c', d, e⟩ := h4 hi
  exact ⟨a, b, fun hl => ⟨(c' hl).1, by have := (c' hl).2; have := litSlack_mono l l'; omega⟩, d,
    e.imp id LitDl_mono⟩

structure RCore (s : RS) : Prop where
  ub      : s.ub = false
  cnt     : ∀ h, (s.reqLog.map RReq.h).count h
              = (s.compLog.map RComp.h).count h + (s.r.queue.map REntry.h).count h
  pair    : s.r.queue.Pairwise QRel
  match_q : ∀ e ∈ s.r.queue, ∃ q ∈ s.reqLog, Matches (litSlack s.reqLog) e q
  match_c : ∀ c ∈ s.compLog, CompOk s.reqLog c
  fifo    : (s.reqLog.filter (fun q => !q.literal)).map RReq.h
              = (s.compLog.filter (fun c => !c.literal)).map RComp.h
                ++ (s.r.queue.filter (fun e => !e.literal)).map REntry.h
  back_nm : ∀ b, s.r.queue.getLast? = some b → b.literal = false →
              ∃ n, s.lastNom = some n ∧ n ≤ b.completion ∧ b.completion ≤ n + litSlack s.reqLog
  back_id : (∀ b, s.r.queue.getLast? = some b → b.literal = true) →
              ∀ n, s.lastNom = some n → n ≤ s.now
  litdl   : ∀ e ∈ s.r.queue, e.literal = true → e.completion ≤ s.now + 1000
  tmr     : ∀ e a, s.timer = some (e, a) → a ≤ s.now ∧ (a ≤ e ∨ LitDl s.reqLog a)
  reqwf   : ∀ q ∈ s.reqLog, q.literal = true → q.err = .ok ∧ ∃ addr, q.ips = [addr]

def FrontOK (s : RS) : Prop :=
  ∀ z, s.r.queue.head? = some z → s.now ≤ z.completion ∨ LitDl s.reqLog s.now

def Armed (s : RS) : Prop :=
  ∀ z, s.r.queue.head? = some z → (∃ a, s.timer = some (z.completion, a)) ∨ s.posted = true

structure RInv (s : RS) : Prop where
  core  : RCore s
  front : FrontOK s
  armed : Armed s

theorem RInv.init : RInv {} := by
  refine ⟨⟨rfl, ?_, ?_, ?_, ?_, rfl, ?_, ?_, ?_, ?_, ?_⟩, ?_, ?_⟩ <;> simp [FrontOK, Armed]

/-! ### time passes -/

theorem RInv.tick {s : RS} (hI : RInv s) {t : Int} (h1 : s.now ≤ t) (h2 : s.notAfterDue t) :
    RInv { s with now := t } := by
  obtain ⟨hc, hf, ha⟩ := hI
  refine ⟨⟨hc.ub, hc.cnt, hc.pair, hc.match_q, hc.match_c, hc.fifo, hc.back_nm, ?_, ?_, ?_,
    hc.reqwf⟩, ?_, ha⟩
  · intro hb n hn
    have := hc.back_id hb n hn
    show n ≤ t
    omega
  · intro e he hl
    have := hc.litdl e he hl
    show e.completion ≤ t + 1000
    omega
  · intro e a hta
    have := hc.tmr e a hta
    exact ⟨by show a ≤ t; omega, this.2⟩
  · intro z hz
    show t ≤ z.completion ∨ LitDl s.reqLog t
    rcases ha z hz with ⟨a, hta⟩ | hp
    · have ht := hc.tmr _ _ hta
      have h2' := h2.1
      rw [hta] at h2'
      dsimp only at h2'
      by_cases hle : t ≤ z.completion
      · exact Or.inl hle
      · have hta' : t = a := by omega
        rcases ht.2 with h | h
        · omega
        · exact Or.inr (hta' ▸ h)
    · rw [h2.2 hp]; exact hf z hz

/-! ### `async_resolve` of a literal -/

theorem rs_getLast?_cons {α : Type} (v : α) {l : List α} {b : α} (h : l.getLast? = some b) :
    (v :: l).getLast? = some b := by
  cases l with
  | nil => simp at h
  | cons a l => rw [List.getLast?_cons_cons]; exact h

theorem RInv.doLit {s : RS} (hc : RCore s) (addr : String) (port h : Nat) :
    RInv (s.doLit addr port h) := by
  rw [doLit_eq]
  have hsl := litSlack_mono s.reqLog [RReq.ofLit s.now addr port h]
  refine ⟨⟨hc.ub, ?_, ?_, ?_, ?_, ?_, ?_, ?_, ?_, ?_, ?_⟩, ?_, ?_⟩
  · intro h'
    have := hc.cnt h'
    simp only [List.map_append, List.map_cons, List.map_nil, List.count_append, List.count_cons,
      List.count_nil, RS.litEntry, RReq.ofLit] at this ⊢
    omega
  · exact List.pairwise_cons.mpr ⟨fun y _ hl => by simp [RS.litEntry] at hl, hc.pair⟩
  · intro e he
    rcases List.mem_cons.mp he with he | he
    · subst he
      refine ⟨RReq.ofLit s.now addr port h, by simp, rfl, rfl, rfl, fun _ => rfl, fun hl => ?_⟩
      simp [RS.litEntry] at hl
    · obtain ⟨q, hq, hm⟩ := hc.match_q e he
      exact ⟨q, List.mem_append_left _ hq, hm.mono hsl⟩
  · intro c hc'
    exact CompOk_mono (hc.match_c c hc')
  · have := hc.fifo
    simp only [List.filter_append, List.filter_cons, List.filter_nil, RReq.ofLit, RS.litEntry,
      Bool.not_true] at this ⊢
    simpa using this
  · intro b hb hl
    cases hq : s.r.queue with
    | nil =>
      dsimp only at hb; rw [hq] at hb; simp at hb; subst hb; simp [RS.litEntry] at hl
    | cons f rest =>
      dsimp only at hb; rw [hq, List.getLast?_cons_cons, ← hq] at hb
      obtain ⟨n, h1, h2, h3⟩ := hc.back_nm b hb hl
      exact ⟨n, h1, h2, by dsimp only; omega⟩
  · intro hb n hn
    apply hc.back_id ?_ n hn
    intro b hb'
    exact hb b (rs_getLast?_cons _ hb')
  · intro e he hl
    rcases List.mem_cons.mp he with he | he
    · subst he; show s.now + 1000 ≤ s.now + 1000; omega
    · exact hc.litdl e he hl
  · intro e a hta
    dsimp only at hta
    simp only [Option.some.injEq, Prod.mk.injEq] at hta
    obtain ⟨rfl, rfl⟩ := hta
    exact ⟨Int.le_refl _, Or.inl (by omega)⟩
  · intro q hq hl
    rcases List.mem_append.mp hq with hq | hq
    · exact hc.reqwf q hq hl
    · simp at hq; subst hq; exact ⟨rfl, addr, rfl⟩
  · intro z hz
    simp at hz; subst hz
    left; show s.now ≤ s.now + 1000; omega
  · intro z hz
    simp at hz; subst hz
    exact Or.inl ⟨s.now, rfl⟩

/-! ### `async_resolve` of a host name (repaired chaining) -/

theorem rs_nominal_eq (s : RS) (lat : Int) :
    s.nominal lat = max s.now (s.lastNom.getD s.now) + lat := rfl

theorem nameEntry_facts {s : RS} (hc : RCore s) (err : Ec) (ips : List String) (lat : Int)
    (port h : Nat) (hlat : 0 ≤ lat) :
    s.now ≤ (s.nameEntry .fixed err ips lat port h).completion
    ∧ s.nominal lat ≤ (s.nameEntry .fixed err ips lat port h).completion
    ∧ (s.nameEntry .fixed err ips lat port h).completion ≤ s.nominal lat + litSlack s.reqLog
    ∧ ∀ x ∈ s.r.queue, x.literal = false →
        x.completion ≤ (s.nameEntry .fixed err ips lat port h).completion := by
  show s.now ≤ s.r.startTime .fixed s.now + lat ∧ s.nominal lat ≤ s.r.startTime .fixed s.now + lat
    ∧ s.r.startTime .fixed s.now + lat ≤ s.nominal lat + litSlack s.reqLog
    ∧ ∀ x ∈ s.r.queue, x.literal = false → x.completion ≤ s.r.startTime .fixed s.now + lat
  rw [rs_nominal_eq]
  have hs0 := litSlack_nonneg s.reqLog
  cases hb : s.r.queue.getLast? with
  | none =>
    have hq : s.r.queue = [] := List.getLast?_eq_none_iff.mp hb
    rw [startTime_nil _ _ _ hq]
    have hid := hc.back_id (by intro b hb'; rw [hb] at hb'; cases hb')
    refine ⟨by omega, ?_, ?_, by simp [hq]⟩
    · cases hn : s.lastNom with
      | none => simp only [Option.getD_none]; omega
      | some n => have := hid n hn; simp only [Option.getD_some]; omega
    · cases hn : s.lastNom with
      | none => simp only [Option.getD_none]; omega
      | some n => have := hid n hn; simp only [Option.getD_some]; omega
  | some b =>
    rw [startTime_fixed _ _ b hb]
    have hbm : b ∈ s.r.queue := List.mem_of_getLast? hb
    cases hbl : b.literal with
    | false =>
      obtain ⟨n, hn, h1, h2⟩ := hc.back_nm b hb hbl
      rw [hn]
      refine ⟨by omega, by simp only [Option.getD_some]; omega, by simp only [Option.getD_some]; omega, ?_⟩
      intro x hx hxl
      have := (rs_pair_last hc.pair hb x hx hxl).2
      omega
    | true =>
      have hid := hc.back_id (by intro b' hb'; rw [hb] at hb'; cases hb'; exact hbl)
      have hld := hc.litdl b hbm hbl
      obtain ⟨qb, hqb, hmb⟩ := hc.match_q b hbm
      have hs1 : litSlack s.reqLog = 1000 := litSlack_of_lit hqb (by rw [hmb.2.1]; exact hbl)
      refine ⟨by omega, ?_, ?_, ?_⟩
      · cases hn : s.lastNom with
        | none => simp only [Option.getD_none]; omega
        | some n => have := hid n hn; simp only [Option.getD_some]; omega
      · cases hn : s.lastNom with
        | none => simp only [Option.getD_none]; omega
        | some n => have := hid n hn; simp only [Option.getD_some]; omega
      · intro x hx hxl
        have := (rs_pair_last hc.pair hb x hx hxl).1
        rw [hbl] at this; cases this

theorem RInv.doName {s : RS} (hc : RCore s) (hf : FrontOK s) (err : Ec) (ips : List String)
    (lat : Int) (port h : Nat) (hlat : 0 ≤ lat) :
    RInv (s.doName .fixed err ips lat port h) := by
  obtain ⟨hF1, hF2, hF3, hF4⟩ := nameEntry_facts hc err ips lat port h hlat
  have hEl : (s.nameEntry .fixed err ips lat port h).literal = false := rfl
  generalize hE : s.nameEntry .fixed err ips lat port h = E at hF1 hF2 hF3 hF4 hEl
  -- the front after the append
  have hfront : ∃ z, (s.r.queue ++ [E]).head? = some z
      ∧ (s.now ≤ z.completion ∨ LitDl s.reqLog s.now) := by
    cases hq : s.r.queue with
    | nil => exact ⟨E, by simp, Or.inl hF1⟩
    | cons f rest => exact ⟨f, by simp, hf f (by simp [hq])⟩
  obtain ⟨z, hz, hzf⟩ := hfront
  rw [doName_eq .fixed s err ips lat port h z (hE ▸ hz), hE]
  have hsl := litSlack_mono s.reqLog [RReq.ofName s.now err ips lat port h (s.nominal lat)]
  have hzf' : s.now ≤ z.completion
      ∨ LitDl (s.reqLog ++ [RReq.ofName s.now err ips lat port h (s.nominal lat)]) s.now :=
    hzf.imp id LitDl_mono
  refine ⟨⟨hc.ub, ?_, ?_, ?_, ?_, ?_, ?_, ?_, ?_, ?_, ?_⟩, ?_, ?_⟩
  · intro h'
    have := hc.cnt h'
    subst hE
    simp only [List.map_append, List.map_cons, List.map_nil, List.count_append, List.count_cons,
      List.count_nil, RS.nameEntry, RReq.ofName] at this ⊢
    omega
  · refine List.pairwise_append.mpr ⟨hc.pair, List.pairwise_singleton _ _, ?_⟩
    intro x hx y hy hxl
    simp at hy; subst hy
    exact ⟨hEl, hF4 x hx hxl⟩
  · intro e he
    rcases List.mem_append.mp he with he | he
    · obtain ⟨q, hq, hm⟩ := hc.match_q e he
      exact ⟨q, List.mem_append_left _ hq, hm.mono hsl⟩
    · simp at he; subst he
      refine ⟨RReq.ofName s.now err ips lat port h (s.nominal lat), by simp, ?_, ?_, ?_, ?_, ?_⟩
      · subst hE; rfl
      · subst hE; rfl
      · subst hE; rfl
      · intro hl; rw [hEl] at hl; cases hl
      · intro _; exact ⟨hF2, by
          show e.completion ≤ s.nominal lat
            + litSlack (s.reqLog ++ [RReq.ofName s.now err ips lat port h (s.nominal lat)])
          omega⟩
  · intro c hc'
    exact CompOk_mono (hc.match_c c hc')
  · have := hc.fifo
    subst hE
    simp only [List.filter_append, List.filter_cons, List.filter_nil, RReq.ofName, RS.nameEntry,
      Bool.not_false, List.map_append, List.map_cons, List.map_nil, ite_true] at this ⊢
    rw [this, List.append_assoc]
  · intro b hb _
    dsimp only at hb
    rw [List.getLast?_concat] at hb
    cases hb
    exact ⟨s.nominal lat, rfl, hF2, by dsimp only; omega⟩
  · intro hb n _
    have := hb E (by dsimp only; rw [List.getLast?_concat])
    rw [hEl] at this; cases this
  · intro e he hl
    rcases List.mem_append.mp he with he | he
    · exact hc.litdl e he hl
    · simp at he; subst he; rw [hEl] at hl; cases hl
  · intro e a hta
    dsimp only at hta
    simp only [Option.some.injEq, Prod.mk.injEq] at hta
    obtain ⟨rfl, rfl⟩ := hta
    exact ⟨Int.le_refl _, hzf'⟩
  · intro q hq hl
    rcases List.mem_append.mp hq with hq | hq
    · exact hc.reqwf q hq hl
    · simp at hq; subst hq; cases hl
  · intro z' hz'
    dsimp only at hz'
    rw [hz] at hz'; cases hz'
    exact hzf'
  · intro z' hz'
    dsimp only at hz'
    rw [hz] at hz'; cases hz'
    exact Or.inl ⟨s.now, rfl⟩

/-! ### `cancel()` -/

theorem RInv.doCancel {s : RS} (hc : RCore s) : RInv s.doCancel := by
  rw [doCancel_eq]
  refine ⟨⟨hc.ub, ?_, ?_, ?_, ?_, ?_, ?_, ?_, ?_, hc.tmr, hc.reqwf⟩, ?_, ?_⟩
  · intro h'
    have := hc.cnt h'
    simp only [List.map_append, List.count_append, count_map_ofEntry, List.map_nil,
      List.count_nil] at this ⊢
    omega
  · exact List.Pairwise.nil
  · intro e he; cases he
  · intro c hc'
    rcases List.mem_append.mp hc' with hc' | hc'
    · exact hc.match_c c hc'
    · obtain ⟨e, he, rfl⟩ := List.mem_map.mp hc'
      obtain ⟨q, hq, hm⟩ := hc.match_q e he
      exact ⟨q, hq, hm.1, hm.2.1, fun _ => rfl, fun hi => by cases hi⟩
  · have := hc.fifo
    simp only [List.filter_append, List.map_append, filter_map_ofEntry, List.filter_nil,
      List.map_nil, List.append_nil] at this ⊢
    exact this
  · intro b hb; cases hb
  · intro _ n hn; cases hn
  · intro e he; cases he
  · intro z hz; cases hz
  · intro z hz; cases hz

theorem RInv.doCall {s : RS} (hc : RCore s) (hf : FrontOK s) (c : RCall) (hok : c.ok) :
    RInv (s.doCall .fixed c) := by
  cases c with
  | lit addr port h => exact RInv.doLit hc addr port h
  | name err ips lat port h => exact RInv.doName hc hf err ips lat port h hok
  | cancel => exact RInv.doCancel hc

/-! ### `on_lookup` -/

/-- between the pop and the re-arm of `on_lookup`: either some call of the handler armed the
    timer, or it is idle and `empty` was read as false -/
def MidArmed (empty : Bool) (s : RS) : Prop := Armed s ∨ empty = false

theorem rs_mid_fold (empty : Bool) (re : List RCall) (hok : ∀ c ∈ re, c.ok) {s : RS}
    (h1 : RCore s) (h2 : FrontOK s) (h3 : MidArmed empty s) :
    RCore (re.foldl (RS.doCall .fixed) s) ∧ FrontOK (re.foldl (RS.doCall .fixed) s)
      ∧ MidArmed empty (re.foldl (RS.doCall .fixed) s) := by
  induction re generalizing s with
  | nil => exact ⟨h1, h2, h3⟩
  | cons c re ih =>
    have hI := RInv.doCall h1 h2 c (hok c (by simp))
    exact ih (fun c' hc' => hok c' (by simp [hc'])) hI.core hI.front (Or.inl hI.armed)

theorem onLookupFinish_fst (p : RParams) (e : Bool) (r : R) : (r.onLookupFinish p e).1 = r := by
  unfold R.onLookupFinish; split <;> rfl

theorem rs_finish_inv (empty : Bool) {s : RS} (h1 : RCore s) (h2 : FrontOK s) (h3 : MidArmed empty s) :
    RInv (({ s with r := (s.r.onLookupFinish .fixed empty).1 }).applyEff
      (s.r.onLookupFinish .fixed empty).2) := by
  rw [onLookupFinish_fst]
  show RInv (s.applyEff (s.r.onLookupFinish .fixed empty).2)
  unfold R.onLookupFinish
  cases hq : s.r.queue with
  | nil =>
    simp [RParams.fixed, RS.applyEff]
    exact ⟨h1, h2, fun z hz => by simp [hq] at hz⟩
  | cons f rest =>
    cases empty with
    | true =>
      simp [RS.applyEff]
      rcases h3 with h3 | h3
      · exact ⟨h1, h2, h3⟩
      · cases h3
    | false =>
      simp [RParams.fixed]
      rw [rs_applyEff_armFront s s.r f (by simp [hq])]
      have hff := h2 f (by simp [hq])
      refine ⟨⟨h1.ub, h1.cnt, h1.pair, h1.match_q, h1.match_c, h1.fifo, h1.back_nm, h1.back_id,
        h1.litdl, ?_, h1.reqwf⟩, h2, ?_⟩
      · intro e a hta
        dsimp only at hta
        simp only [Option.some.injEq, Prod.mk.injEq] at hta
        obtain ⟨rfl, rfl⟩ := hta
        exact ⟨Int.le_refl _, hff⟩
      · intro z hz
        dsimp only at hz
        rw [hq] at hz; simp at hz; subst hz
        exact Or.inl ⟨s.now, rfl⟩

/-- the state of `on_lookup` right after the pop, when the handler is being invoked -/
def RS.popped (s : RS) (v : REntry) (rest : List REntry) : RS :=
  { s with posted := false, r := { queue := rest },
           compLog := s.compLog ++ [RComp.ofEntry s.now true v.err v] }

theorem onLookupGuard_nil (p : RParams) (now : Int) (r : R) (h : r.queue = []) :
    r.onLookupGuard p now = none := by
  unfold R.onLookupGuard; simp [h]

theorem onLookupGuard_notdue (now : Int) (r : R) (f : REntry) (rest : List REntry)
    (h : r.queue = f :: rest) (hd : now < f.completion) :
    r.onLookupGuard .fixed now = some r.armFront := by
  unfold R.onLookupGuard; simp [h, hd, RParams.fixed]

theorem onLookupGuard_due (p : RParams) (now : Int) (r : R) (f : REntry) (rest : List REntry)
    (h : r.queue = f :: rest) (hd : ¬ now < f.completion) :
    r.onLookupGuard p now = none := by
  unfold R.onLookupGuard; simp [h, hd]

theorem doFire_nil (p : RParams) (s : RS) (re : List RCall) (hq : s.r.queue = []) :
    s.doFire p re = { s with posted := false } := by
  unfold RS.doFire
  simp only [onLookupGuard_nil p s.now s.r hq, R.onLookupPop, hq]

theorem doFire_notdue (s : RS) (re : List RCall) (v : REntry) (rest : List REntry)
    (hq : s.r.queue = v :: rest) (hd : s.now < v.completion) :
    s.doFire .fixed re = { s with posted := false, timer := some (v.completion, s.now) } := by
  unfold RS.doFire
  simp only [onLookupGuard_notdue s.now s.r v rest hq hd]
  exact rs_applyEff_armFront _ s.r v (by rw [hq]; rfl)

theorem doFire_guard (p : RParams) (s : RS) (re : List RCall) (effs : List REff)
    (hg : s.r.onLookupGuard p s.now = some effs) :
    s.doFire p re = ({ s with posted := false } : RS).applyEff effs := by
  unfold RS.doFire
  simp only [hg]

theorem doFire_pop (p : RParams) (s : RS) (re : List RCall) (v : REntry) (rest : List REntry)
    (hq : s.r.queue = v :: rest) (hg : s.r.onLookupGuard p s.now = none) :
    s.doFire p re =
      ({ (re.foldl (RS.doCall p) (s.popped v rest)) with
          r := ((re.foldl (RS.doCall p) (s.popped v rest)).r.onLookupFinish p rest.isEmpty).1 }).applyEff
        ((re.foldl (RS.doCall p) (s.popped v rest)).r.onLookupFinish p rest.isEmpty).2 := by
  unfold RS.doFire
  simp only [hg, R.onLookupPop, hq]
  rfl

theorem doFire_due (p : RParams) (s : RS) (re : List RCall) (v : REntry) (rest : List REntry)
    (hq : s.r.queue = v :: rest) (hd : ¬ s.now < v.completion) :
    s.doFire p re =
      ({ (re.foldl (RS.doCall p) (s.popped v rest)) with
          r := ((re.foldl (RS.doCall p) (s.popped v rest)).r.onLookupFinish p rest.isEmpty).1 }).applyEff
        ((re.foldl (RS.doCall p) (s.popped v rest)).r.onLookupFinish p rest.isEmpty).2 :=
  doFire_pop p s re v rest hq (onLookupGuard_due p s.now s.r v rest hq hd)

theorem RInv.doFire {s : RS} (hI : RInv s) (re : List RCall)
    (hok : ∀ c ∈ re, c.ok) : RInv (s.doFire .fixed re) := by
  obtain ⟨hc, hf, ha⟩ := hI
  cases hq : s.r.queue with
  | nil =>
    rw [doFire_nil _ _ _ hq]
    refine ⟨⟨hc.ub, hc.cnt, hc.pair, hc.match_q, hc.match_c, hc.fifo, hc.back_nm, hc.back_id,
      hc.litdl, hc.tmr, hc.reqwf⟩, hf, ?_⟩
    intro z hz; dsimp only at hz; rw [hq] at hz; cases hz
  | cons v rest =>
    by_cases hdue : s.now < v.completion
    · rw [doFire_notdue _ _ v rest hq hdue]
      refine ⟨⟨hc.ub, hc.cnt, hc.pair, hc.match_q, hc.match_c, hc.fifo, hc.back_nm, hc.back_id,
        hc.litdl, ?_, hc.reqwf⟩, hf, ?_⟩
      · intro e a hta
        dsimp only at hta
        simp only [Option.some.injEq, Prod.mk.injEq] at hta
        obtain ⟨rfl, rfl⟩ := hta
        exact ⟨Int.le_refl _, Or.inl (by omega)⟩
      · intro z hz
        dsimp only at hz
        rw [hq] at hz; simp at hz; subst hz
        exact Or.inl ⟨s.now, rfl⟩
    rw [doFire_due _ _ _ v rest hq hdue]
    -- facts about the popped entry
    have hvm : v ∈ s.r.queue := by simp [hq]
    have hvt : v.completion ≤ s.now := by omega
    have hvf := hf v (by simp [hq])
    obtain ⟨q, hqm, hm⟩ := hc.match_q v hvm
    have hpair := List.pairwise_cons.mp (hq ▸ hc.pair)
    have hcnt := hc.cnt
    have hfifo := hc.fifo
    rw [hq] at hcnt hfifo
    have h1 : RCore (s.popped v rest) := by
      unfold RS.popped
      refine ⟨hc.ub, ?_, hpair.2, ?_, ?_, ?_, ?_, ?_, ?_, ?_, hc.reqwf⟩
      · intro h'
        have := hcnt h'
        simp only [List.map_append, List.map_cons, List.map_nil, List.count_append, List.count_cons,
          List.count_nil, RComp.ofEntry] at this ⊢
        omega
      · intro e he
        exact hc.match_q e (by rw [hq]; exact List.mem_cons_of_mem _ he)
      · intro c hc'
        rcases List.mem_append.mp hc' with hc' | hc'
        · exact hc.match_c c hc'
        · simp at hc'; subst hc'
          refine ⟨q, hqm, hm.1, hm.2.1, fun hi => (by cases hi), fun _ => ⟨hm.2.2.1, hm.2.2.2.1, hm.2.2.2.2, hvt, ?_⟩⟩
          show s.now = v.completion ∨ LitDl s.reqLog s.now
          rcases hvf with h | h
          · left; omega
          · exact Or.inr h
      · cases hvl : v.literal <;>
          simp only [List.filter_append, List.filter_cons, List.filter_nil, RComp.ofEntry, hvl,
            Bool.not_true, Bool.not_false, List.map_append, List.map_cons, List.map_nil, ite_true] at hfifo ⊢
        · rw [hfifo]; simp
        · simpa using hfifo
      · intro b hb hl
        exact hc.back_nm b (by rw [hq]; exact rs_getLast?_cons _ hb) hl
      · intro hb n hn
        cases hr : rest with
        | nil =>
          cases hvl : v.literal with
          | true =>
            apply hc.back_id ?_ n hn
            intro b hb'; rw [hq, hr] at hb'; simp at hb'; subst hb'; exact hvl
          | false =>
            obtain ⟨n', hn', h1, _⟩ := hc.back_nm v (by rw [hq, hr]; rfl) hvl
            rw [hn] at hn'; cases hn'
            show n ≤ s.now
            omega
        | cons f rest' =>
          apply hc.back_id ?_ n hn
          intro b hb'
          rw [hq, hr, List.getLast?_cons_cons, ← hr] at hb'
          exact hb b hb'
      · intro e he hl
        exact hc.litdl e (by rw [hq]; exact List.mem_cons_of_mem _ he) hl
      · exact hc.tmr
    have h2 : FrontOK (s.popped v rest) := by
      unfold RS.popped
      intro z hz
      show s.now ≤ z.completion ∨ LitDl s.reqLog s.now
      rcases hvf with h | h
      · cases hvl : v.literal with
        | true =>
          right
          exact ⟨q, hqm, by rw [hm.2.1]; exact hvl, by have := hm.2.2.2.1 hvl; omega⟩
        | false =>
          left
          have hzm : z ∈ rest := List.mem_of_head? hz
          have := (hpair.1 z hzm hvl).2
          omega
      · exact Or.inr h
    have h3 : MidArmed rest.isEmpty (s.popped v rest) := by
      unfold RS.popped
      cases hr : rest with
      | nil => left; intro z hz; cases hz
      | cons f rest' => right; rfl
    obtain ⟨g1, g2, g3⟩ := rs_mid_fold rest.isEmpty re hok h1 h2 h3
    exact rs_finish_inv rest.isEmpty g1 g2 g3

/-! ### every well-timed history -/

theorem RInv.step {s : RS} (hI : RInv s) (l : RLbl) (hok : s.ok l) : RInv (s.step .fixed l) := by
  cases l with
  | resolveLit t addr port h =>
    obtain ⟨h1, h2⟩ := hok
    exact RInv.doLit (hI.tick h1 h2).core addr port h
  | resolveName t err ips lat port h =>
    obtain ⟨h1, h2, h3⟩ := hok
    exact RInv.doName (hI.tick h1 h2).core (hI.tick h1 h2).front err ips lat port h h3
  | cancel t =>
    obtain ⟨h1, h2⟩ := hok
    exact RInv.doCancel (hI.tick h1 h2).core
  | timerExpires t =>
    obtain ⟨h1, h2, h3⟩ := hok
    have hnd : s.notAfterDue t := by
      unfold RS.dueAt at h2; unfold RS.notAfterDue
      refine ⟨?_, fun hp => by rw [h3] at hp; cases hp⟩
      split <;> simp_all
    obtain ⟨hc, hf, _⟩ := hI.tick h1 hnd
    refine ⟨⟨hc.ub, hc.cnt, hc.pair, hc.match_q, hc.match_c, hc.fifo, hc.back_nm, hc.back_id,
      hc.litdl, ?_, hc.reqwf⟩, hf, fun z _ => Or.inr rfl⟩
    intro e a hta; cases hta
  | timerFires t re =>
    obtain ⟨rfl, _, h3⟩ := hok
    exact RInv.doFire hI re h3

theorem RInv.run {s : RS} (hI : RInv s) (ls : List RLbl) (h : RS.okRun .fixed s ls) :
    RInv (RS.run .fixed s ls) := by
  induction ls generalizing s with
  | nil => exact hI
  | cons l ls ih => exact ih (hI.step l h.1) h.2

theorem RInv.run_init (ls : List RLbl) (h : RS.okRun .fixed {} ls) : RInv (RS.run .fixed {} ls) :=
  RInv.init.run ls h

theorem rs_run_append (p : RParams) (s : RS) (l₁ l₂ : List RLbl) :
    RS.run p s (l₁ ++ l₂) = RS.run p (RS.run p s l₁) l₂ := by
  simp [RS.run, List.foldl_append]

theorem rs_okRun_append {p : RParams} {s : RS} {l₁ l₂ : List RLbl} (h : RS.okRun p s (l₁ ++ l₂)) :
    RS.okRun p s l₁ ∧ RS.okRun p (RS.run p s l₁) l₂ := by
  induction l₁ generalizing s with
  | nil => exact ⟨trivial, h⟩
  | cons l l₁ ih =>
    obtain ⟨h1, h2⟩ := h
    exact ⟨⟨h1, (ih h2).1⟩, (ih h2).2⟩

/-! ### the completion log only grows -/

theorem rs_applyEff_compLog (s : RS) (l : List REff) : (s.applyEff l).compLog = s.compLog := by
  induction l generalizing s with
  | nil => rfl
  | cons e l ih => cases e <;> simp [RS.applyEff, ih]

theorem rs_applyEff_r (s : RS) (l : List REff) : (s.applyEff l).r = s.r := by
  induction l generalizing s with
  | nil => rfl
  | cons e l ih => cases e <;> simp [RS.applyEff, ih]

theorem doCall_compLog (p : RParams) (s : RS) (c : RCall) :
    ∃ ext, (s.doCall p c).compLog = s.compLog ++ ext := by
  cases c with
  | lit addr port h => exact ⟨[], by simp [RS.doCall, RS.doLit, rs_applyEff_compLog]⟩
  | name err ips lat port h => exact ⟨[], by simp [RS.doCall, RS.doName, rs_applyEff_compLog]⟩
  | cancel => exact ⟨_, by simp only [RS.doCall]; rw [doCancel_eq]⟩

theorem rs_fold_compLog (p : RParams) (re : List RCall) (s : RS) :
    ∃ ext, (re.foldl (RS.doCall p) s).compLog = s.compLog ++ ext := by
  induction re generalizing s with
  | nil => exact ⟨[], by simp⟩
  | cons c re ih =>
    obtain ⟨e1, h1⟩ := doCall_compLog p s c
    obtain ⟨e2, h2⟩ := ih (s.doCall p c)
    exact ⟨e1 ++ e2, by simp only [List.foldl_cons]; rw [h2, h1, List.append_assoc]⟩

theorem doFire_compLog (p : RParams) (s : RS) (re : List RCall) :
    ∃ ext, (s.doFire p re).compLog = s.compLog ++ ext := by
  cases hg : s.r.onLookupGuard p s.now with
  | some effs => exact ⟨[], by rw [doFire_guard p s re effs hg, rs_applyEff_compLog]; simp⟩
  | none =>
    cases hq : s.r.queue with
    | nil => exact ⟨[], by rw [doFire_nil _ _ _ hq]; simp⟩
    | cons v rest =>
      rw [doFire_pop p s re v rest hq hg, rs_applyEff_compLog]
      obtain ⟨e, he⟩ := rs_fold_compLog p re (s.popped v rest)
      exact ⟨RComp.ofEntry s.now true v.err v :: e, by
        dsimp only at he ⊢; rw [he]; simp [RS.popped]⟩

theorem rs_step_compLog (p : RParams) (s : RS) (l : RLbl) :
    ∃ ext, (s.step p l).compLog = s.compLog ++ ext := by
  cases l with
  | resolveLit t addr port h => exact ⟨[], by simp [RS.step, RS.doLit, rs_applyEff_compLog]⟩
  | resolveName t err ips lat port h => exact ⟨[], by simp [RS.step, RS.doName, rs_applyEff_compLog]⟩
  | cancel t => exact ⟨_, by simp only [RS.step]; rw [doCancel_eq]⟩
  | timerExpires t => exact ⟨[], by simp [RS.step]⟩
  | timerFires t re => exact doFire_compLog p { s with now := t } re

theorem rs_run_compLog (p : RParams) (ls : List RLbl) (s : RS) :
    ∃ ext, (RS.run p s ls).compLog = s.compLog ++ ext := by
  induction ls generalizing s with
  | nil => exact ⟨[], by simp [RS.run]⟩
  | cons l ls ih =>
    obtain ⟨e1, h1⟩ := rs_step_compLog p s l
    obtain ⟨e2, h2⟩ := ih (s.step p l)
    exact ⟨e1 ++ e2, by
      show (RS.run p (s.step p l) ls).compLog = _
      rw [h2, h1, List.append_assoc]⟩

/-! ### the logged completions are the handler effects of the mechanism functions -/

theorem cancel_logs_effects (s : RS) :
    ∃ ext, s.doCancel.compLog = s.compLog ++ ext ∧ ext.map RComp.eff = s.r.cancel.2 := by
  refine ⟨_, by rw [doCancel_eq], ?_⟩
  simp [R.cancel, RComp.eff, RComp.ofEntry, Function.comp_def]

theorem fire_logs_effects (p : RParams) (s : RS) (v : REntry) (rest : List REntry)
    (hq : s.r.queue = v :: rest) (hd : ¬ s.now < v.completion) :
    (s.doFire p []).compLog = s.compLog ++ [RComp.ofEntry s.now true v.err v]
    ∧ (s.r.onLookup p s.now false).2.head? = some (RComp.ofEntry s.now true v.err v).eff
    ∧ (s.doFire p []).r = (s.r.onLookup p s.now false).1 := by
  rw [doFire_due p s [] v rest hq hd]
  unfold R.onLookup
  simp [onLookupGuard_due p s.now s.r v rest hq hd, R.onLookupPop, hq, rs_applyEff_compLog,
    rs_applyEff_r, RComp.eff, RComp.ofEntry, onLookupFinish_fst, RS.popped]

/-! ### concrete histories for the witnesses and non-vacuity examples of Props/C14 -/

namespace REx

def ms (n : Int) : Int := n * 1000000

/-- three host names at 0 with latencies 100 ms, 100 ms, 10 ms — pinned tree: the third is
    scheduled for 0 + 100 + 10 = 110 ms but sits behind the second, whose pop re-arms the timer
    with that past expiry -/
def overlapPinned : List RLbl :=
  [.resolveName 0 .ok ["1.2.3.4"] (ms 100) 80 0, .resolveName 0 .ok ["1.2.3.5"] (ms 100) 80 1,
   .resolveName 0 .ok ["1.2.3.6"] (ms 10) 80 2,
   .timerExpires (ms 100), .timerFires (ms 100) [], .timerExpires (ms 200), .timerFires (ms 200) [], .timerExpires (ms 200), .timerFires (ms 200) []]

def overlapFixed : List RLbl :=
  [.resolveName 0 .ok ["1.2.3.4"] (ms 100) 80 0, .resolveName 0 .ok ["1.2.3.5"] (ms 100) 80 1,
   .resolveName 0 .ok ["1.2.3.6"] (ms 10) 80 2,
   .timerExpires (ms 100), .timerFires (ms 100) [], .timerExpires (ms 200), .timerFires (ms 200) [], .timerExpires (ms 210), .timerFires (ms 210) []]

/-- literals 999 ns apart: each re-arms the timer to its own deadline and is popped first -/
def chain : List RLbl :=
  [.resolveName 0 .ok ["1.2.3.4"] 500 80 0, .resolveLit 0 "1.1.1.1" 80 1,
   .resolveLit 999 "1.1.1.2" 80 2, .resolveLit 1998 "::1" 80 3,
   .timerExpires 2998, .timerFires 2998 [], .timerExpires 2998, .timerFires 2998 [], .timerExpires 2998, .timerFires 2998 [], .timerExpires 2998, .timerFires 2998 []]

/-- one literal pending when the host name is requested (+1 µs on its schedule), another
    requested 1 ns before it is due (+999 ns): 1999 ns after the nominal completion -/
def two : List RLbl :=
  [.resolveLit 0 "1.1.1.1" 80 0, .resolveName 0 .ok ["1.2.3.4"] 5000 80 1, .timerExpires 1000, .timerFires 1000 [],
   .resolveLit 5999 "1.1.1.2" 80 2, .timerExpires 6999, .timerFires 6999 [], .timerExpires 6999, .timerFires 6999 []]

/-- a host name requested while an overdue entry waits behind a literal -/
def early : List RLbl :=
  [.resolveLit 0 "1.1.1.1" 80 0, .resolveLit 999 "1.1.1.2" 80 1,
   .resolveName 1500 .ok ["1.2.3.4"] 600 80 2,
   .timerExpires 1999, .timerFires 1999 [], .timerExpires 1999, .timerFires 1999 [], .timerExpires 1999, .timerFires 1999 []]

def earlyFixed : List RLbl :=
  [.resolveLit 0 "1.1.1.1" 80 0, .resolveLit 999 "1.1.1.2" 80 1,
   .resolveName 1500 .ok ["1.2.3.4"] 600 80 2,
   .timerExpires 1999, .timerFires 1999 [], .timerExpires 1999, .timerFires 1999 [], .timerExpires 2100, .timerFires 2100 []]

/-- the first handler calls `cancel()` while a second lookup is queued -/
def recancel : List RLbl :=
  [.resolveName 0 .ok ["1.2.3.4"] 1000 80 0, .resolveName 0 .ok ["1.2.3.5"] 1000 80 1,
   .timerExpires 1000, .timerFires 1000 [.cancel]]

/-- a bit of everything: results, errors, a literal, a lookup issued later, a handler that
    cancels and issues an IPv6 literal from inside `on_lookup` -/
def mixed : List RLbl :=
  [.resolveName 0 .ok ["1.2.3.4", "5.6.7.8"] (ms 100) 80 0, .resolveLit 0 "10.9.8.7" 8080 1,
   .timerExpires 1000, .timerFires 1000 [], .resolveName (ms 30) .hostNotFound [] (ms 50) 81 3,
   .timerExpires (ms 100), .timerFires (ms 100) [.cancel, .lit "::1" 0 4, .name .ok ["9.9.9.9"] (ms 50) 65535 5],
   .timerExpires (ms 100 + 1000), .timerFires (ms 100 + 1000) [], .timerExpires (ms 150 + 1000), .timerFires (ms 150 + 1000) []]

/-- a wait `cancel()` left armed expires at the instant another handler queues a lookup: the
    posted `on_lookup` finds that lookup at the front -/
def stale : List RLbl :=
  [.resolveLit 0 "127.0.0.1" 0 0, .cancel 500, .timerExpires 1000,
   .resolveName 1000 .ok ["1.2.3.4"] (ms 50) 80 1, .timerFires 1000 []]

def staleFixed : List RLbl :=
  stale ++ [.timerExpires (ms 50 + 1000), .timerFires (ms 50 + 1000) []]

/-- the timer expires for a due host name; a handler due at the same instant runs first and
    requests a literal, which is inserted at the front -/
def race : List RLbl :=
  [.resolveName 1000 .ok ["3.3.3.3"] 500 80 0, .timerExpires 1500, .resolveLit 1500 "10.9.8.7" 80 1,
   .timerFires 1500 []]

def raceFixed : List RLbl :=
  race ++ [.timerExpires 2500, .timerFires 2500 [], .timerExpires 2500, .timerFires 2500 []]

end REx

end SimVerif
