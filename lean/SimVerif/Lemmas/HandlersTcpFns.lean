/-
  Per-function facts about the TCP / acceptor functions of SimVerif/Tcp.lean on a network
  state: no inline invocation (`ni_*`), no completion at all (`silent_*`), conservation of
  handler ids over the whole object table (`tcons_*`), and the explicit effect lists of the
  abort paths.
-/
import SimVerif.Lemmas.HandlersTcpNet

namespace SimVerif

open HL

theorem TCons.silent_of {n n' : NetSt} {effs : List NEff} (h : TCons n n' [] []) (hs : silent effs) :
    TCons n n' effs [] :=
  h.congr (by rw [effIds_silent hs]; rfl) rfl

namespace HL

/-! ### send_packet and its callers -/

theorem silent_tcpSendPacket (n : NetSt) (now : Int) (name : String) (p : Pkt) :
    silent (n.tcpSendPacket now name p).2 := by
  unfold NetSt.tcpSendPacket
  (repeat' split) <;> simp [NEff.isSilent]

theorem tcons_tcpSendPacket (n : NetSt) (now : Int) (name : String) (p : Pkt) :
    TCons n (n.tcpSendPacket now name p).1 (n.tcpSendPacket now name p).2 [] := by
  refine TCons.silent_of ?_ (silent_tcpSendPacket n now name p)
  unfold NetSt.tcpSendPacket
  split
  · exact TCons.refl n
  · rename_i s hs
    split
    · exact TCons.refl n
    · dsimp only
      exact TCons.setTcp_same_slots' hs rfl rfl rfl rfl rfl rfl

/-- `send_packet` does not touch any handler slot: the object `b` keeps its slots -/
theorem tcpSendPacket_slots (n : NetSt) (now : Int) (name : String) (p : Pkt) (b : String) (t : TcpSock)
    (hb : n.tcp? b = some t) :
    ∃ t', (n.tcpSendPacket now name p).1.tcp? b = some t' ∧ t'.recvH = t.recvH ∧ t'.waitRecvH = t.waitRecvH
      ∧ t'.sendH = t.sendH ∧ t'.connectH = t.connectH ∧ t'.acc = t.acc ∧ t'.fwd = t.fwd
      ∧ t'.isOpen = t.isOpen ∧ t'.bound = t.bound ∧ t'.chan = t.chan ∧ t'.node = t.node := by
  unfold NetSt.tcpSendPacket
  split
  · exact ⟨t, hb, rfl, rfl, rfl, rfl, rfl, rfl, rfl, rfl, rfl, rfl⟩
  · rename_i s hs
    split
    · exact ⟨t, hb, rfl, rfl, rfl, rfl, rfl, rfl, rfl, rfl, rfl, rfl⟩
    · dsimp only
      by_cases hbn : b = name
      · subst hbn
        rw [hb] at hs; cases hs
        exact ⟨_, setTcp_tcp_same _ _ _, rfl, rfl, rfl, rfl, rfl, rfl, rfl, rfl, rfl, rfl⟩
      · exact ⟨t, by rw [setTcp_tcp_other _ _ _ _ hbn]; exact hb, rfl, rfl, rfl, rfl, rfl, rfl, rfl, rfl, rfl, rfl⟩

theorem silent_tcpSendSeg (n : NetSt) (now : Int) (name : String) (hops : List String) (seg : List UInt8) :
    silent (n.tcpSendSeg now name hops seg).2 := by
  unfold NetSt.tcpSendSeg
  split
  · simp
  · exact silent_tcpSendPacket _ _ _ _

theorem tcons_tcpSendSeg (n : NetSt) (now : Int) (name : String) (hops : List String) (seg : List UInt8) :
    TCons n (n.tcpSendSeg now name hops seg).1 (n.tcpSendSeg now name hops seg).2 [] := by
  unfold NetSt.tcpSendSeg
  split
  · exact TCons.refl n
  · rename_i s hs
    dsimp only
    exact TCons.setTcp_then hs (tcons_tcpSendPacket _ _ _ _) rfl rfl rfl rfl rfl

theorem silent_tcpResendOne (n : NetSt) (now : Int) (name : String) (r : NetSt × List NEff)
    (h : n.tcpResendOne now name = some r) : silent r.2 := by
  unfold NetSt.tcpResendOne at h
  (repeat' split at h) <;> first
    | (simp only [Option.some.injEq] at h; subst h; exact silent_tcpSendPacket _ _ _ _)
    | cases h

theorem tcons_tcpResendOne (n : NetSt) (now : Int) (name : String) (r : NetSt × List NEff)
    (h : n.tcpResendOne now name = some r) : TCons n r.1 r.2 [] := by
  unfold NetSt.tcpResendOne at h
  split at h
  · cases h
  · rename_i s hs
    (repeat' split at h) <;> first
      | (simp only [Option.some.injEq] at h; subst h
         exact TCons.setTcp_then hs (tcons_tcpSendPacket _ _ _ _) rfl rfl rfl rfl rfl)
      | cases h

theorem tcons_tcpAckPost (tp : TParams) (n : NetSt) (name : String) (wb : Bool) (acked : Nat) :
    TCons n (n.tcpAckPost tp name wb acked).1 [] [] := by
  unfold NetSt.tcpAckPost
  split
  · exact TCons.refl n
  · rename_i s hs
    exact TCons.setTcp_same_slots (s := s) hs rfl rfl rfl rfl rfl

theorem tcons_tcpPacketDropped (tp : TParams) (n : NetSt) (name : String) (p : Pkt) :
    TCons n (n.tcpPacketDropped tp name p) [] [] := by
  unfold NetSt.tcpPacketDropped
  split
  · exact TCons.refl n
  · rename_i s hs
    split
    · exact TCons.refl n
    · dsimp only
      (repeat' split) <;> exact TCons.setTcp_same_slots (s := s) hs rfl rfl rfl rfl rfl

/-! ### close / open / cancel -/

/-- first half of `close()`: an established connection announces the end of the stream -/
def _root_.SimVerif.tcpCloseEof (n : NetSt) (now : Int) (name : String) (s0 : TcpSock) : NetSt × List NEff :=
  match s0.chan.bind n.chan? with
  | none => (n, [])
  | some ch =>
    let hops := ch.hops (ch.remoteIdx s0.bound)
    if !hops.isEmpty && s0.connectH.isNone then
      let p : Pkt := { id := s0.nextOut, ty := .err, ec := .eof, len := 0, ovh := 40, hops := hops,
                       src := s0.bound.toString }
      let n := n.setTcp name { s0 with nextOut := s0.nextOut + 1 }
      n.tcpSendPacket now name p
    else (n, [])

/-- second half of `close()`: unbind, detach the forwarder, reset the connection state, `cancel()` -/
def _root_.SimVerif.tcpCloseFin (n : NetSt) (name : String) (e0 : List NEff) : NetSt × List NEff :=
  match n.tcp? name with
  | none => (n, e0)
  | some s =>
    let n := if !s.bound.isDefault then { n with reg := { n.reg with tcp := simUnbind n.reg.tcp name s.bound } } else n
    let n := match s.fwd with | some f => n.setFwd f none | none => n
    let s := { s with chan := none, bound := {}, isOpen := false, fwd := none,
                      mss := 1475, cwnd := 2950, inFlight := 0, outstanding := [],
                      inq := [], reorder := [], resend := [], recvNull := false,
                      nextIn := 0, nextOut := 0, lastDrop := 0 }
    let (s, e1) := s.cancel
    (n.setTcp name s, e0 ++ e1)

theorem tcpClose_eq (n : NetSt) (now : Int) (name : String) :
    n.tcpClose now name = match n.tcp? name with
      | none => (n, [])
      | some s0 => tcpCloseFin (tcpCloseEof n now name s0).1 name (tcpCloseEof n now name s0).2 := by
  unfold NetSt.tcpClose tcpCloseFin tcpCloseEof
  rfl

theorem silent_tcpCloseEof (n : NetSt) (now : Int) (name : String) (s0 : TcpSock) :
    silent (tcpCloseEof n now name s0).2 := by
  unfold tcpCloseEof
  splits <;> first | simp | exact silent_tcpSendPacket _ _ _ _

theorem tcons_tcpCloseEof (n : NetSt) (now : Int) (name : String) (s0 : TcpSock) (h : n.tcp? name = some s0) :
    TCons n (tcpCloseEof n now name s0).1 (tcpCloseEof n now name s0).2 [] := by
  unfold tcpCloseEof
  splits <;> first
    | exact TCons.refl n
    | exact TCons.setTcp_then h (tcons_tcpSendPacket _ _ _ _) rfl rfl rfl rfl rfl

/-- the EOF announcement touches no handler slot, forwarder, binding or channel reference of any object -/
theorem tcpCloseEof_slots (n : NetSt) (now : Int) (name : String) (s0 : TcpSock) (h : n.tcp? name = some s0)
    (b : String) (t : TcpSock) (hb : n.tcp? b = some t) :
    ∃ t', (tcpCloseEof n now name s0).1.tcp? b = some t' ∧ t'.recvH = t.recvH ∧ t'.waitRecvH = t.waitRecvH
      ∧ t'.sendH = t.sendH ∧ t'.connectH = t.connectH ∧ t'.acc = t.acc ∧ t'.fwd = t.fwd
      ∧ t'.isOpen = t.isOpen ∧ t'.bound = t.bound ∧ t'.chan = t.chan ∧ t'.node = t.node := by
  unfold tcpCloseEof
  splits <;> first
    | exact ⟨t, hb, rfl, rfl, rfl, rfl, rfl, rfl, rfl, rfl, rfl, rfl⟩
    | (by_cases hbn : b = name
       · subst hbn
         rw [h] at hb; cases hb
         exact tcpSendPacket_slots _ now b _ b { s0 with nextOut := s0.nextOut + 1 } (setTcp_tcp_same _ _ _)
       · exact tcpSendPacket_slots _ now name _ b t (by rw [setTcp_tcp_other _ _ _ _ hbn]; exact hb))

/-- `cancel()` effects of the socket in explicit form -/
def _root_.SimVerif.tcpCancelEffs (s : TcpSock) : List NEff := tcpAbortRecvEffs s ++ tcpAbortSendEffs s ++ tcpAbortConnEffs s

theorem tcpCloseFin_some (n : NetSt) (name : String) (e0 : List NEff) (s : TcpSock) (h : n.tcp? name = some s) :
    (tcpCloseFin n name e0).2 = e0 ++ tcpCancelEffs s
    ∧ ∃ s', (tcpCloseFin n name e0).1.tcp? name = some s'
        ∧ s'.recvH = none ∧ s'.waitRecvH = none ∧ s'.sendH = none ∧ s'.connectH = none ∧ s'.acc = s.acc
        ∧ s'.isOpen = false ∧ s'.fwd = none ∧ s'.chan = none ∧ s'.bound = {} ∧ s'.node = s.node := by
  unfold tcpCloseFin
  rw [h]; dsimp only
  rw [tcp_cancel_eq]; dsimp only
  exact ⟨rfl, _, setTcp_tcp_same _ _ _, rfl, rfl, rfl, rfl, rfl, rfl, rfl, rfl, rfl, rfl⟩

/-- the connection state `close()` leaves behind, before `cancel()` -/
def _root_.SimVerif.TcpSock.closedState (s : TcpSock) : TcpSock :=
  { s with chan := none, bound := {}, isOpen := false, fwd := none,
           mss := 1475, cwnd := 2950, inFlight := 0, outstanding := [],
           inq := [], reorder := [], resend := [], recvNull := false,
           nextIn := 0, nextOut := 0, lastDrop := 0 }

theorem tcons_tcpCloseFin (n : NetSt) (name : String) (e0 : List NEff) (he : silent e0) :
    TCons n (tcpCloseFin n name e0).1 (tcpCloseFin n name e0).2 [] := by
  unfold tcpCloseFin
  split
  · exact TCons.silent_of (TCons.refl n) he
  · rename_i s hs
    dsimp only
    have hc := tcp_conserve_cancel s.closedState
    refine TCons.setTcp_present' hs ?_ (fun _ => ⟨?_, hc.2⟩)
    · splits <;> rfl
    · rw [effIds_append, effIds_silent he, List.nil_append, List.append_nil]; exact hc.1

theorem tcons_tcpClose (n : NetSt) (now : Int) (name : String) :
    TCons n (n.tcpClose now name).1 (n.tcpClose now name).2 [] := by
  rw [tcpClose_eq]
  split
  · exact TCons.refl n
  · rename_i s0 hs0
    exact ((tcons_tcpCloseEof n now name s0 hs0).trans
      (tcons_tcpCloseFin _ name _ (silent_tcpCloseEof n now name s0))).congr
        (by rw [effIds_append, effIds_silent (silent_tcpCloseEof n now name s0)]; rfl) rfl

theorem ni_tcpClose (n : NetSt) (now : Int) (name : String) : noInvoke (n.tcpClose now name).2 := by
  rw [tcpClose_eq]
  split
  · simp
  · rename_i s0 hs0
    obtain ⟨t', ht', _⟩ := tcpCloseEof_slots n now name s0 hs0 name s0 hs0
    rw [(tcpCloseFin_some _ name _ t' ht').1]
    simp [silent_noInvoke (silent_tcpCloseEof n now name s0), tcpCancelEffs,
      (posts_tcpAbortRecvEffs t').2.2, (posts_tcpAbortSendEffs t').2.2, (posts_tcpAbortConnEffs t').2.2]

theorem tcons_tcpOpen (n : NetSt) (now : Int) (name : String) (v4 : Bool) :
    TCons n (n.tcpOpen now name v4).1 (n.tcpOpen now name v4).2 [] := by
  unfold NetSt.tcpOpen
  dsimp only
  split
  · exact tcons_tcpClose n now name
  · rename_i s hs
    refine ((tcons_tcpClose n now name).trans (n2 := _) (e2 := []) (new2 := []) ?_).congr (by simp) rfl
    exact TCons.setTcp_same_slots' hs rfl rfl rfl rfl rfl rfl

theorem ni_tcpOpen (n : NetSt) (now : Int) (name : String) (v4 : Bool) : noInvoke (n.tcpOpen now name v4).2 := by
  unfold NetSt.tcpOpen; dsimp only; split <;> exact ni_tcpClose _ _ _

theorem ni_tcpOpen' {n n' : NetSt} {now : Int} {name : String} {v4 : Bool} {e : List NEff}
    (h : n.tcpOpen now name v4 = (n', e)) : noInvoke e := by
  have := ni_tcpOpen n now name v4
  rw [h] at this; exact this

theorem tcons_tcpBind (n : NetSt) (name : String) (ep : Ep) : TCons n (n.tcpBind name ep).1 [] [] := by
  unfold NetSt.tcpBind
  split
  · exact TCons.refl n
  · rename_i s hs
    splits <;> first
      | exact TCons.refl n
      | exact TCons.of_tcps_eq rfl rfl
      | exact TCons.setTcp_same_slots' hs rfl rfl rfl rfl rfl rfl

theorem tcons_tcpCancel (n : NetSt) (name : String) : TCons n (n.tcpCancel name).1 (n.tcpCancel name).2 [] := by
  unfold NetSt.tcpCancel
  split
  · exact TCons.refl n
  · rename_i s hs
    exact TCons.setTcp_present hs (fun _ => by simpa using tcp_conserve_cancel s)

theorem ni_tcpCancel (n : NetSt) (name : String) : noInvoke (n.tcpCancel name).2 := by
  unfold NetSt.tcpCancel; split
  · simp
  · exact ni_tcp_cancel _

theorem tcons_tcpAsyncRead (n : NetSt) (name : String) (op : ReadOp) (hex : (n.tcp? name).isSome) :
    TCons n (n.tcpAsyncRead name op).1 (n.tcpAsyncRead name op).2 [op.h] := by
  unfold NetSt.tcpAsyncRead
  split
  · rename_i h; rw [h] at hex; cases hex
  · rename_i s hs
    dsimp only
    refine TCons.setTcp_present hs (fun _ => ⟨?_, tcp_asyncReadImpl_excl _ op rfl⟩)
    have h1 := (tcp_conserve_abortRecv s).1
    have h2 := tcp_conserve_asyncReadImpl s.abortRecv.1 op rfl
    rw [effIds_append]
    perm_omega h1 h2

theorem ni_tcpAsyncRead (n : NetSt) (name : String) (op : ReadOp) : noInvoke (n.tcpAsyncRead name op).2 := by
  unfold NetSt.tcpAsyncRead; split
  · simp
  · simp [ni_tcp_abortRecv, ni_tcp_asyncReadImpl]

theorem tcons_tcpWaitRead (n : NetSt) (name : String) (h : Nat) (hex : (n.tcp? name).isSome) :
    TCons n (n.tcpWaitRead name h).1 (n.tcpWaitRead name h).2 [h] := by
  unfold NetSt.tcpWaitRead
  split
  · rename_i h; rw [h] at hex; cases hex
  · rename_i s hs
    dsimp only
    refine TCons.setTcp_present hs (fun _ => ⟨?_, tcp_asyncWaitReadImpl_excl _ h rfl⟩)
    have h1 := (tcp_conserve_abortRecv s).1
    have h2 := tcp_conserve_asyncWaitReadImpl s.abortRecv.1 h rfl rfl
    rw [effIds_append]
    perm_omega h1 h2

theorem ni_tcpWaitRead (n : NetSt) (name : String) (h : Nat) : noInvoke (n.tcpWaitRead name h).2 := by
  unfold NetSt.tcpWaitRead; split
  · simp
  · simp [ni_tcp_abortRecv, ni_tcp_asyncWaitReadImpl]

theorem tcons_tcpReadNb (n : NetSt) (name : String) (caps : List Nat) : TCons n (n.tcpReadNb name caps).1 [] [] := by
  unfold NetSt.tcpReadNb
  split
  · exact TCons.refl n
  · rename_i s hs
    obtain ⟨h1, h2, h3, h4, h5⟩ := tcp_readSome_slots s s.chan.isSome caps
    exact TCons.setTcp_same_slots hs h1 h2 h3 h4 (acceptOp_congr h5)

theorem tcons_tcpAsyncWrite (n : NetSt) (name : String) (op : WriteOp) (hex : (n.tcp? name).isSome) :
    TCons n (n.tcpAsyncWrite name op).1 (n.tcpAsyncWrite name op).2 [op.h] := by
  unfold NetSt.tcpAsyncWrite
  split
  · rename_i h; rw [h] at hex; cases hex
  · rename_i s hs
    dsimp only
    refine TCons.setTcp_present hs (fun hx => ⟨?_, hx⟩)
    have h1 := tcp_conserve_abortSend s
    rw [tcp_abortSend_eq] at h1 ⊢
    dsimp only at h1 ⊢
    rw [effIds_append]
    unfold TcpSock.slotIds TcpSock.acceptOp at h1 ⊢
    dsimp only at h1 ⊢
    simp only [effIds, Option.map_some, Option.toList_some, Option.map_none, Option.toList_none] at h1 ⊢
    perm_omega h1

theorem ni_tcpAsyncWrite (n : NetSt) (name : String) (op : WriteOp) : noInvoke (n.tcpAsyncWrite name op).2 := by
  unfold NetSt.tcpAsyncWrite; split
  · simp
  · simp [ni_tcp_abortSend, NEff.isInvoke]

/-- `async_write_some_impl` after `write_some_impl` returned: the operation (taken out of its slot
    before) is parked again or completed with exactly one post -/
theorem tcons_tcpWriteFinish (n : NetSt) (name : String) (op : WriteOp) (r : Except Ec Nat) (s : TcpSock)
    (hs : n.tcp? name = some s) (hfree : s.sendH = none) :
    TCons n (n.tcpWriteFinish name op r).1 (n.tcpWriteFinish name op r).2 [op.h] := by
  unfold NetSt.tcpWriteFinish
  rw [hs]; dsimp only
  splits <;>
    (refine TCons.setTcp_present hs (fun hx => ⟨?_, hx⟩)
     unfold TcpSock.slotIds TcpSock.acceptOp
     dsimp only
     rw [hfree]
     simp only [effIds, Option.map_some, Option.toList_some, Option.map_none, Option.toList_none]
     perm_omega)

theorem ni_tcpWriteFinish (n : NetSt) (name : String) (op : WriteOp) (r : Except Ec Nat) :
    noInvoke (n.tcpWriteFinish name op r).2 := by
  unfold NetSt.tcpWriteFinish
  splits <;> simp [NEff.isInvoke]

/-- the cases of `tcpWriteFinish`: parked (`would_block`) or exactly one post for this handler, slot empty -/
theorem tcpWriteFinish_cases (n : NetSt) (name : String) (op : WriteOp) (r : Except Ec Nat) (s : TcpSock)
    (hs : n.tcp? name = some s) :
    (∃ s', (n.tcpWriteFinish name op r).1.tcp? name = some s' ∧ s'.sendH = some op
        ∧ (n.tcpWriteFinish name op r).2 = [])
    ∨ (∃ s' c, (n.tcpWriteFinish name op r).1.tcp? name = some s' ∧ s'.sendH = none
        ∧ (n.tcpWriteFinish name op r).2 = [.post c] ∧ c.h = op.h) := by
  unfold NetSt.tcpWriteFinish
  rw [hs]; dsimp only
  splits
  · exact Or.inl ⟨_, setTcp_tcp_same _ _ _, rfl, rfl⟩
  · exact Or.inr ⟨_, _, setTcp_tcp_same _ _ _, rfl, rfl, rfl⟩
  · exact Or.inr ⟨_, _, setTcp_tcp_same _ _ _, rfl, rfl, rfl⟩

/-! ### connect -/

theorem parkedOf_append (a b : List NEff) : parkedOf (a ++ b) = parkedOf a ++ parkedOf b := by
  induction a with
  | nil => rfl
  | cons e rest ih =>
    cases e with
    | armAfter o sl d cb => cases cb <;> simp [parkedOf, ih]
    | armTimer o sl d cb => cases cb <;> simp [parkedOf, ih]
    | _ => simp [parkedOf, ih]

theorem silent_internalConnect (n : NetSt) (name : String) (target : Ep) :
    silent (n.internalConnect name target).2.1 ∧ (n.internalConnect name target).1.tcps = n.tcps
    ∧ parkedOf (n.internalConnect name target).2.1 = [] := by
  unfold NetSt.internalConnect
  splits <;> simp [NEff.isSilent, parkedOf]

theorem silent_internalConnect' {n n' : NetSt} {name : String} {target : Ep} {e1 : List NEff} {cid : Option Nat}
    (h : n.internalConnect name target = (n', e1, cid)) : silent e1 := by
  have := (silent_internalConnect n name target).1
  rw [h] at this; exact this

/-- the implicit bind of `async_connect` -/
def _root_.SimVerif.tcpConnectBind (n : NetSt) (name : String) (s : TcpSock) (target : Ep) : NetSt × Ec :=
  if s.bound.addr == "0.0.0.0" then
    let anyEp : Ep := { addr := if target.isV4 then "0.0.0.0" else "::", port := 0 }
    match ioResolve (n.cfg.ipsOf s.node) anyEp with
    | .error e => (n, e)
    | .ok ep1 =>
      let (tbl, np, r) := simBind n.reg.tcp n.reg.nextPort name ep1
      let n := { n with reg := { n.reg with tcp := tbl, nextPort := np } }
      match r with
      | .error e => (n, e)
      | .ok ep2 => (n.setTcp name { s with bound := ep2 }, .ok)
  else (n, .ok)

/-- `async_connect` once the socket is open and bound -/
def _root_.SimVerif.tcpConnectFin (n : NetSt) (name : String) (target : Ep) (h : Nat) (e0 : List NEff) (ecb : Ec) :
    NetSt × List NEff :=
  if ecb != .ok then (n, e0 ++ [.post { h := h, ec := ecb }]) else
  match n.tcp? name with
  | none => (n, e0)
  | some s =>
    if s.bound.isV4 != target.isV4 then (n, e0 ++ [.post { h := h, ec := .afNoSupport }])
    else
      let (n, e1, cid) := n.internalConnect name target
      let mss := n.cfg.pathMtu s.bound.addr target.addr
      match n.tcp? name with
      | none => (n, e0)
      | some s =>
        let s := { s with mss := mss, cwnd := mss * 2 }
        match cid with
        | none =>
          (n.setTcp name { s with chan := none },
            e0 ++ e1 ++ [.armAfter name 0 50000000 (.tcpConnectRefused name h)])
        | some c => (n.setTcp name { s with chan := some c, connectH := some h }, e0 ++ e1)

theorem tcpConnect_eq (n : NetSt) (now : Int) (name : String) (target : Ep) (h : Nat) :
    n.tcpConnect now name target h = match n.tcp? name with
      | none => (n, [])
      | some s0 =>
        let a := if !s0.isOpen then n.tcpOpen now name target.isV4 else (n, [])
        match a.1.tcp? name with
        | none => (a.1, a.2)
        | some s =>
          let b := tcpConnectBind a.1 name s target
          tcpConnectFin b.1 name target h a.2 b.2 := by
  unfold NetSt.tcpConnect tcpConnectBind tcpConnectFin
  rfl

theorem tcpConnectBind_props (n : NetSt) (name : String) (s : TcpSock) (target : Ep) (hs : n.tcp? name = some s) :
    TCons n (tcpConnectBind n name s target).1 [] []
    ∧ ∃ s', (tcpConnectBind n name s target).1.tcp? name = some s' ∧ s'.recvH = s.recvH
        ∧ s'.waitRecvH = s.waitRecvH ∧ s'.sendH = s.sendH ∧ s'.connectH = s.connectH ∧ s'.acc = s.acc := by
  unfold tcpConnectBind
  splits <;> first
    | exact ⟨TCons.refl n, s, hs, rfl, rfl, rfl, rfl, rfl⟩
    | exact ⟨TCons.of_tcps_eq rfl rfl, s, hs, rfl, rfl, rfl, rfl, rfl⟩
    | exact ⟨TCons.setTcp_same_slots' hs rfl rfl rfl rfl rfl rfl, _, setTcp_tcp_same _ _ _, rfl, rfl, rfl, rfl, rfl⟩

theorem tcons_tcpConnectFin (n : NetSt) (name : String) (target : Ep) (h : Nat) (e0 : List NEff) (ecb : Ec)
    (s : TcpSock) (hs : n.tcp? name = some s) (hc : s.connectH = none) (he0 : parkedOf e0 = []) :
    ∃ new, TCons n (tcpConnectFin n name target h e0 ecb).1
        (List.drop e0.length (tcpConnectFin n name target h e0 ecb).2) new
      ∧ (tcpConnectFin n name target h e0 ecb).2 = e0 ++ List.drop e0.length (tcpConnectFin n name target h e0 ecb).2
      ∧ (new ++ parkedOf (tcpConnectFin n name target h e0 ecb).2).Perm [h] := by
  unfold tcpConnectFin
  split
  · exact ⟨[h], by simpa [effIds] using (⟨id, fun _ z => by simp [effIds]⟩ : TCons n n [.post { h := h, ec := ecb }] [h]),
      by simp, by simp [parkedOf_append, he0, parkedOf]⟩
  · rw [hs]; dsimp only
    split
    · exact ⟨[h], by simpa [effIds] using (⟨id, fun _ z => by simp [effIds]⟩ : TCons n n [.post { h := h, ec := .afNoSupport }] [h]),
        by simp, by simp [parkedOf_append, he0, parkedOf]⟩
    · obtain ⟨hsil, htc, hpk⟩ := silent_internalConnect n name target
      have hs1 : (n.internalConnect name target).1.tcp? name = some s := by
        unfold NetSt.tcp? at hs ⊢; rw [htc]; exact hs
      rw [hs1]; dsimp only
      split
      · refine ⟨[], ?_, by simp, by simp [parkedOf_append, he0, hpk, parkedOf]⟩
        simp only [List.append_assoc, List.drop_left]
        refine TCons.congr (e := []) (TCons.setTcp_present' hs htc (fun hx => ⟨?_, hx⟩)) ?_ rfl
        · unfold TcpSock.slotIds TcpSock.acceptOp; dsimp only; simp
        · rw [effIds_append, effIds_silent hsil]; rfl
      · refine ⟨[h], ?_, by simp, by simp [parkedOf_append, he0, hpk]⟩
        simp only [List.drop_left]
        refine TCons.congr (e := []) (TCons.setTcp_present' hs htc (fun hx => ⟨?_, hx⟩)) ?_ rfl
        · unfold TcpSock.slotIds TcpSock.acceptOp; dsimp only; rw [hc]
          simp only [Option.toList_some, Option.toList_none, effIds_nil]
          perm_omega
        · rw [effIds_silent hsil]; rfl

theorem tcpCancelEffs_congr {s s' : TcpSock} (h1 : s'.recvH = s.recvH) (h2 : s'.waitRecvH = s.waitRecvH)
    (h3 : s'.sendH = s.sendH) (h4 : s'.connectH = s.connectH) : tcpCancelEffs s' = tcpCancelEffs s := by
  unfold tcpCancelEffs tcpAbortRecvEffs tcpAbortSendEffs tcpAbortConnEffs
  rw [h1, h2, h3, h4]

/-- **`close()` in explicit form**: the effects are the (silent) EOF announcement followed by the
    aborts of the four slots in slot order; the socket is left closed, unbound, detached,
    unconnected, with all four slots empty (an acceptor keeps its accept state). -/
theorem tcpClose_some (n : NetSt) (now : Int) (name : String) (s0 : TcpSock) (h : n.tcp? name = some s0) :
    (n.tcpClose now name).2 = (tcpCloseEof n now name s0).2 ++ tcpCancelEffs s0
    ∧ ∃ s', (n.tcpClose now name).1.tcp? name = some s'
        ∧ s'.recvH = none ∧ s'.waitRecvH = none ∧ s'.sendH = none ∧ s'.connectH = none ∧ s'.acc = s0.acc
        ∧ s'.isOpen = false ∧ s'.fwd = none ∧ s'.chan = none ∧ s'.bound = {} ∧ s'.node = s0.node := by
  rw [tcpClose_eq, h]; dsimp only
  obtain ⟨t', ht', a1, a2, a3, a4, a5, _, _, _, _, a10⟩ := tcpCloseEof_slots n now name s0 h name s0 h
  obtain ⟨e, s', hs', b⟩ := tcpCloseFin_some _ name (tcpCloseEof n now name s0).2 t' ht'
  rw [e, tcpCancelEffs_congr a1 a2 a3 a4]
  refine ⟨rfl, s', hs', b.1, b.2.1, b.2.2.1, b.2.2.2.1, by rw [b.2.2.2.2.1, a5], b.2.2.2.2.2.1,
    b.2.2.2.2.2.2.1, b.2.2.2.2.2.2.2.1, b.2.2.2.2.2.2.2.2.1, by rw [b.2.2.2.2.2.2.2.2.2, a10]⟩

theorem tcpOpen_some (n : NetSt) (now : Int) (name : String) (v4 : Bool) (s0 : TcpSock) (h : n.tcp? name = some s0) :
    (n.tcpOpen now name v4).2 = (n.tcpClose now name).2
    ∧ ∃ s', (n.tcpOpen now name v4).1.tcp? name = some s'
        ∧ s'.recvH = none ∧ s'.waitRecvH = none ∧ s'.sendH = none ∧ s'.connectH = none ∧ s'.acc = s0.acc
        ∧ s'.isOpen = true ∧ s'.fwd = some (n.tcpClose now name).1.fwds.length ∧ s'.chan = none
        ∧ s'.bound = {} ∧ s'.node = s0.node := by
  obtain ⟨_, s1, hs1, b⟩ := tcpClose_some n now name s0 h
  unfold NetSt.tcpOpen
  dsimp only
  rw [hs1]; dsimp only
  exact ⟨rfl, _, setTcp_tcp_same _ _ _, b.1, b.2.1, b.2.2.1, b.2.2.2.1, b.2.2.2.2.1, rfl, rfl,
    b.2.2.2.2.2.2.2.1, b.2.2.2.2.2.2.2.2.1, b.2.2.2.2.2.2.2.2.2⟩

theorem parkedOf_tcpSendPacket (n : NetSt) (now : Int) (name : String) (p : Pkt) :
    parkedOf (n.tcpSendPacket now name p).2 = [] := by
  unfold NetSt.tcpSendPacket
  splits <;> simp [parkedOf, parkedOf_append]

theorem parkedOf_tcpCancelEffs (s : TcpSock) : parkedOf (tcpCancelEffs s) = [] := by
  unfold tcpCancelEffs tcpAbortRecvEffs tcpAbortSendEffs tcpAbortConnEffs
  cases s.recvH <;> cases s.waitRecvH <;> cases s.sendH <;> cases s.connectH <;> simp [parkedOf]

theorem parkedOf_tcpClose (n : NetSt) (now : Int) (name : String) : parkedOf (n.tcpClose now name).2 = [] := by
  cases h : n.tcp? name with
  | none => rw [tcpClose_eq, h]; rfl
  | some s0 =>
    rw [(tcpClose_some n now name s0 h).1, parkedOf_append, parkedOf_tcpCancelEffs]
    unfold tcpCloseEof
    splits <;> simp [parkedOf, parkedOf_tcpSendPacket]

/-- **`async_connect`** conserves handler ids: the new handler is posted at once (bind error /
    wrong family), parked in the connect slot, or bound into the connect timer (refused).
    Preconditions of the code: the socket exists; `assert(!m_connect_handler)` when it is open. -/
theorem tcons_tcpConnect (n : NetSt) (now : Int) (name : String) (target : Ep) (h : Nat) (s0 : TcpSock)
    (hs0 : n.tcp? name = some s0) (hpre : s0.isOpen = true → s0.connectH = none) :
    ∃ new, TCons n (n.tcpConnect now name target h).1 (n.tcpConnect now name target h).2 new
      ∧ (new ++ parkedOf (n.tcpConnect now name target h).2).Perm [h] := by
  rw [tcpConnect_eq, hs0]; dsimp only
  -- phase A: open if necessary
  have hA : ∀ a : NetSt × List NEff, a = (if (!s0.isOpen) = true then n.tcpOpen now name target.isV4 else (n, [])) →
      ∃ s, a.1.tcp? name = some s ∧ s.connectH = none ∧ TCons n a.1 a.2 [] ∧ parkedOf a.2 = [] := by
    intro a ha
    split at ha
    · subst ha
      obtain ⟨he, s', hs', b⟩ := tcpOpen_some n now name target.isV4 s0 hs0
      exact ⟨s', hs', b.2.2.2.1, tcons_tcpOpen _ _ _ _, by rw [he, parkedOf_tcpClose]⟩
    · rename_i ho
      subst ha
      exact ⟨s0, hs0, hpre (by simpa using ho), TCons.refl n, rfl⟩
  generalize (if (!s0.isOpen) = true then n.tcpOpen now name target.isV4 else (n, [])) = a at hA
  obtain ⟨s, hs, hc, hta, hpa⟩ := hA a rfl
  rw [hs]; dsimp only
  -- phase B: implicit bind
  obtain ⟨htb, s', hs', _, _, _, hc', _⟩ := tcpConnectBind_props a.1 name s target hs
  -- phase C
  obtain ⟨new, htc, hsplit, hperm⟩ :=
    tcons_tcpConnectFin (tcpConnectBind a.1 name s target).1 name target h a.2
      (tcpConnectBind a.1 name s target).2 s' hs' (by rw [hc', hc]) hpa
  refine ⟨new, ?_, hperm⟩
  rw [hsplit]
  exact ((hta.trans htb).trans htc).congr (by simp) (by simp)

theorem ni_tcpConnect (n : NetSt) (now : Int) (name : String) (target : Ep) (h : Nat) :
    noInvoke (n.tcpConnect now name target h).2 := by
  rw [tcpConnect_eq]
  split
  · simp
  · rename_i s0 hs0
    have hA : noInvoke (if (!s0.isOpen) = true then n.tcpOpen now name target.isV4 else (n, [])).2 := by
      split
      · exact ni_tcpOpen _ _ _ _
      · simp
    generalize (if (!s0.isOpen) = true then n.tcpOpen now name target.isV4 else (n, [])) = a at hA
    dsimp only
    split
    · exact hA
    · unfold tcpConnectFin
      splits <;> (try simp [hA, NEff.isInvoke]) <;>
        (rename_i hq; exact silent_noInvoke (silent_internalConnect' hq))

/-! ### incoming packets -/

theorem tcons_tcpIncoming (tp : TParams) (n : NetSt) (now : Int) (name : String) (p : Pkt) :
    TCons n (n.tcpIncoming tp now name p).1 (n.tcpIncoming tp now name p).2 [] := by
  unfold NetSt.tcpIncoming
  split
  · exact TCons.refl n
  · rename_i s hs
    split
    · exact TCons.refl n
    · exact TCons.refl n
    · dsimp only
      exact TCons.silent_of (TCons.setTcp_same_slots hs rfl rfl rfl rfl rfl) (by simp [NEff.isSilent])
    · split
      · exact TCons.refl n
      · rename_i h hc
        refine TCons.setTcp_present hs (fun hx => ⟨?_, hx⟩)
        unfold TcpSock.slotIds TcpSock.acceptOp; dsimp only; rw [hc]
        simp only [effIds, Option.toList_some, Option.toList_none]
        perm_omega
    · split
      · exact TCons.refl n
      · dsimp only
        split
        · exact TCons.silent_of (TCons.setTcp_same_slots hs rfl rfl rfl rfl rfl) (by simp [NEff.isSilent])
        · dsimp only
          refine TCons.setTcp_present hs (fun hx => ?_)
          have := tcp_conserve_maybeWakeupReader tp
            { s with nextIn := (drainReorder (s.reorder.length + 1) (s.nextIn + 1) s.reorder (s.inq ++ [p])).1,
                     reorder := (drainReorder (s.reorder.length + 1) (s.nextIn + 1) s.reorder (s.inq ++ [p])).2.1,
                     inq := (drainReorder (s.reorder.length + 1) (s.nextIn + 1) s.reorder (s.inq ++ [p])).2.2 } hx
          refine ⟨?_, this.2⟩
          simp only [List.singleton_append, effIds, List.append_nil]
          exact this.1

theorem ni_tcpIncoming (tp : TParams) (n : NetSt) (now : Int) (name : String) (p : Pkt) :
    noInvoke (n.tcpIncoming tp now name p).2 := by
  unfold NetSt.tcpIncoming
  splits <;> simp [NEff.isInvoke, ni_tcp_maybeWakeupReader]

/-- SYN-ACK: the connect handler is taken out of its slot in the step that posts it; with no
    connect outstanding (cancelled meanwhile) nothing happens -/
theorem tcpIncoming_synack (tp : TParams) (n : NetSt) (now : Int) (name : String) (p : Pkt) (s : TcpSock)
    (hs : n.tcp? name = some s) (hp : p.ty = .synack) :
    (∀ h, s.connectH = some h →
        (n.tcpIncoming tp now name p).2 = [.post { h := h, ec := .ok }, .tcpWake name]
        ∧ ∃ s', (n.tcpIncoming tp now name p).1.tcp? name = some s' ∧ s'.connectH = none)
    ∧ (s.connectH = none → n.tcpIncoming tp now name p = (n, [])) := by
  unfold NetSt.tcpIncoming
  rw [hs]; dsimp only; rw [hp]; dsimp only
  constructor
  · intro h hc; rw [hc]; dsimp only
    exact ⟨rfl, _, setTcp_tcp_same _ _ _, rfl⟩
  · intro hc; rw [hc]

/-! ### acceptor -/

theorem tcons_accCancel (n : NetSt) (name : String) : TCons n (n.accCancel name).1 (n.accCancel name).2 [] := by
  unfold NetSt.accCancel
  split
  · exact TCons.refl n
  · rename_i s hs
    dsimp only
    refine TCons.setTcp_present hs (fun hx => ⟨by simpa using tcp_conserve_abortAccept s, ?_⟩)
    obtain ⟨_, h1, h2, _⟩ := tcp_abortAccept_slots s
    unfold TcpSock.recvExcl at *; rw [h1, h2]; exact hx

theorem ni_accCancel (n : NetSt) (name : String) : noInvoke (n.accCancel name).2 := by
  unfold NetSt.accCancel; split
  · simp
  · exact ni_tcp_abortAccept _

theorem tcons_accListen (n : NetSt) (name : String) (qs : Int) : TCons n (n.accListen name qs).1 [] [] := by
  unfold NetSt.accListen
  split
  · exact TCons.refl n
  · rename_i s hs
    splits <;> first
      | exact TCons.refl n
      | (rename_i a ha
         exact TCons.setTcp_same_slots hs rfl rfl rfl rfl (by unfold TcpSock.acceptOp; simp [ha]))

theorem tcons_tcpAttach (n : NetSt) (now : Int) (peer : String) (bindEp : Ep) (cid : Nat) :
    TCons n (n.tcpAttach now peer bindEp cid).1 (n.tcpAttach now peer bindEp cid).2 [] := by
  unfold NetSt.tcpAttach
  split
  · exact TCons.refl n
  · rename_i p0 hp0
    dsimp only
    split
    · rename_i p ch hp hch
      refine ((tcons_tcpOpen n now peer p0.isV4).trans (n2 := _) (e2 := []) (new2 := []) ?_).congr (by simp) rfl
      exact TCons.setTcp_then hp (TCons.of_tcps_eq rfl rfl) rfl rfl rfl rfl rfl
    · exact tcons_tcpOpen n now peer p0.isV4

theorem ni_tcpAttach (n : NetSt) (now : Int) (peer : String) (bindEp : Ep) (cid : Nat) :
    noInvoke (n.tcpAttach now peer bindEp cid).2 := by
  unfold NetSt.tcpAttach
  split
  · simp
  · dsimp only
    split <;> exact ni_tcpOpen _ _ _ _

/-! ### check_accept_queue -/

/-- first half of `check_accept_queue()`: a closed acceptor resets whatever is queued and aborts the accept -/
def _root_.SimVerif.accResetClosed (n : NetSt) (name : String) (s0 : TcpSock) (a0 : AccState) : NetSt × List NEff :=
  if !s0.isOpen then
    let rsts := a0.conns.filterMap (fun c => (n.chan? c).map (fun ch =>
      NEff.forward { id := 0, ty := .err, ec := .reset, len := 0, ovh := 28, hops := ch.hops0, src := s0.bound.toString }))
    let s := { s0 with acc := some { a0 with conns := [] } }
    let (s, ea) := s.abortAccept
    (n.setTcp name s, rsts ++ ea)
  else (n, [])

/-- second half: hand the oldest queued connection to the outstanding accept -/
def _root_.SimVerif.accTryAccept (n : NetSt) (now : Int) (name : String) : NetSt × List NEff :=
  match n.tcp? name with
  | none => (n, [])
  | some s =>
    match s.acc with
    | none => (n, [])
    | some a =>
      match a.acceptOp, a.conns with
      | none, _ => (n, [])
      | _, [] => (n, [])
      | some op, c :: rest =>
        let n := n.setTcp name { s with acc := some { a with conns := rest, acceptOp := none } }
        let peer := match op with | .into _ pn _ => pn | .fresh _ nn => nn
        let vis := ((n.chan? c).map (·.vis0)).getD {}
        let (n, e1) := n.tcpAttach now peer s.bound c
        match n.chan? c with
        | none => (n, e1)
        | some ch =>
          let synack : Pkt := { id := 0, ty := .synack, len := 0, ovh := 28, hops := ch.hops0,
                                src := s.bound.toString, chan := some c }
          let done := match op with
            | .into h _ withEp => NEff.post { h := h, ec := .ok, extra := if withEp then "ep=" ++ vis.toString else "" }
            | .fresh h _ => NEff.post { h := h, ec := .ok }
          (n, e1 ++ [.forward synack, done])

theorem accCheckQueue_eq (n : NetSt) (now : Int) (name : String) :
    n.accCheckQueue now name = match n.tcp? name with
      | none => (n, [])
      | some s0 =>
        match s0.acc with
        | none => (n, [])
        | some a0 =>
          ((accTryAccept (accResetClosed n name s0 a0).1 now name).1,
            (accResetClosed n name s0 a0).2 ++ (accTryAccept (accResetClosed n name s0 a0).1 now name).2) := by
  unfold NetSt.accCheckQueue
  cases hs0 : n.tcp? name with
  | none => rfl
  | some s0 =>
    dsimp only
    cases ha0 : s0.acc with
    | none => rfl
    | some a0 =>
      dsimp only
      have hfold : (if (!s0.isOpen) = true then
            (n.setTcp name (TcpSock.abortAccept { s0 with acc := some { a0 with conns := [] } }).1,
              a0.conns.filterMap (fun c => (n.chan? c).map (fun ch =>
                NEff.forward { id := 0, ty := .err, ec := .reset, len := 0, ovh := 28, hops := ch.hops0,
                               src := s0.bound.toString }))
                ++ (TcpSock.abortAccept { s0 with acc := some { a0 with conns := [] } }).2)
          else (n, [])) = accResetClosed n name s0 a0 := rfl
      rw [hfold]
      generalize accResetClosed n name s0 a0 = r
      clear hfold
      unfold accTryAccept
      cases h1 : r.1.tcp? name with
      | none => simp
      | some s =>
        dsimp only
        cases h2 : s.acc with
        | none => simp
        | some a =>
          dsimp only
          cases h3 : a.acceptOp with
          | none => simp
          | some op =>
            cases h4 : a.conns with
            | nil => simp
            | cons c rest =>
              dsimp only
              generalize NetSt.tcpAttach _ _ _ _ _ = x
              cases h5 : x.1.chan? c <;> simp <;> (cases op <;> rfl)

/-! #### channel ids stay valid -/

theorem setChan_length (n : NetSt) (c : Nat) (ch : Chan) : (n.setChan c ch).chans.length = n.chans.length := by
  simp [NetSt.setChan]

theorem chanLen_tcpSendPacket (n : NetSt) (now : Int) (name : String) (p : Pkt) :
    (n.tcpSendPacket now name p).1.chans.length = n.chans.length := by
  unfold NetSt.tcpSendPacket
  splits <;> simp [setChan_length]

theorem chanLen_tcpClose (n : NetSt) (now : Int) (name : String) :
    (n.tcpClose now name).1.chans.length = n.chans.length := by
  rw [tcpClose_eq]
  split
  · rfl
  · have h1 : ∀ s0, (tcpCloseEof n now name s0).1.chans.length = n.chans.length := by
      intro s0; unfold tcpCloseEof
      splits <;> simp [chanLen_tcpSendPacket]
    have h2 : ∀ (m : NetSt) e0, (tcpCloseFin m name e0).1.chans.length = m.chans.length := by
      intro m e0; unfold tcpCloseFin
      splits <;> simp [NetSt.setFwd]
    rw [h2, h1]

theorem chanLen_tcpOpen (n : NetSt) (now : Int) (name : String) (v4 : Bool) :
    (n.tcpOpen now name v4).1.chans.length = n.chans.length := by
  unfold NetSt.tcpOpen
  dsimp only
  split <;> simp [chanLen_tcpClose, NetSt.newFwd]

theorem chanLen_tcpAttach (n : NetSt) (now : Int) (peer : String) (bindEp : Ep) (cid : Nat) :
    (n.tcpAttach now peer bindEp cid).1.chans.length = n.chans.length := by
  unfold NetSt.tcpAttach
  split
  · rfl
  · dsimp only
    split <;> simp [chanLen_tcpOpen, setChan_length]

theorem chan?_isSome_iff (n : NetSt) (c : Nat) : (n.chan? c).isSome ↔ c < n.chans.length := by
  unfold NetSt.chan?; simp

theorem silent_rsts (n : NetSt) (l : List Nat) (src : String) :
    silent (l.filterMap (fun c => (n.chan? c).map (fun ch =>
      NEff.forward { id := 0, ty := .err, ec := .reset, len := 0, ovh := 28, hops := ch.hops0, src := src }))) := by
  induction l with
  | nil => simp
  | cons c rest ih =>
    simp only [List.filterMap_cons]
    cases n.chan? c <;> simp [ih, NEff.isSilent]

theorem tcons_accResetClosed (n : NetSt) (name : String) (s0 : TcpSock) (a0 : AccState)
    (hs : n.tcp? name = some s0) (ha : s0.acc = some a0) :
    TCons n (accResetClosed n name s0 a0).1 (accResetClosed n name s0 a0).2 [] := by
  unfold accResetClosed
  split
  · dsimp only
    refine TCons.setTcp_present hs (fun hx => ⟨?_, ?_⟩)
    · have h1 := tcp_conserve_abortAccept { s0 with acc := some { a0 with conns := [] } }
      have h2 : ({ s0 with acc := some { a0 with conns := [] } } : TcpSock).slotIds = s0.slotIds :=
        tcp_slotIds_congr rfl rfl rfl rfl (by unfold TcpSock.acceptOp; simp [ha])
      rw [h2] at h1
      rw [effIds_append, effIds_silent (silent_rsts n a0.conns s0.bound.toString)]
      simpa using h1
    · obtain ⟨_, h1, h2, _⟩ := tcp_abortAccept_slots { s0 with acc := some { a0 with conns := [] } }
      unfold TcpSock.recvExcl at *; rw [h1, h2]; exact hx
  · exact TCons.refl n

theorem ni_accResetClosed (n : NetSt) (name : String) (s0 : TcpSock) (a0 : AccState) :
    noInvoke (accResetClosed n name s0 a0).2 := by
  unfold accResetClosed
  split
  · dsimp only
    simp [silent_noInvoke (silent_rsts n a0.conns s0.bound.toString), ni_tcp_abortAccept]
  · simp

theorem tcons_accTryAccept (n : NetSt) (now : Int) (name : String) (hv : accConnsOk n name) :
    TCons n (accTryAccept n now name).1 (accTryAccept n now name).2 [] := by
  unfold accTryAccept
  cases hs : n.tcp? name with
  | none => exact TCons.refl n
  | some s =>
    dsimp only
    cases ha : s.acc with
    | none => exact TCons.refl n
    | some a =>
      dsimp only
      cases hop : a.acceptOp with
      | none => exact TCons.refl n
      | some op =>
        cases hc : a.conns with
        | nil => exact TCons.refl n
        | cons c rest =>
          dsimp only
          have hcv : c < n.chans.length := hv s a hs ha c (by rw [hc]; exact List.mem_cons_self)
          generalize hpeer : (match op with | AcceptOp.into _ pn _ => pn | AcceptOp.fresh _ nn => nn) = peer
          have hlen := chanLen_tcpAttach
            (n.setTcp name { s with acc := some { a with conns := rest, acceptOp := none } }) now peer s.bound c
          have hat := tcons_tcpAttach
            (n.setTcp name { s with acc := some { a with conns := rest, acceptOp := none } }) now peer s.bound c
          generalize NetSt.tcpAttach _ now peer s.bound c = x at hlen hat ⊢
          have hsome : (x.1.chan? c).isSome := by
            rw [chan?_isSome_iff, hlen]; simpa using hcv
          cases hch : x.1.chan? c with
          | none => rw [hch] at hsome; cases hsome
          | some ch =>
            dsimp only
            -- the accept handler leaves its slot and is posted
            have h1 : TCons n (n.setTcp name { s with acc := some { a with conns := rest, acceptOp := none } })
                [NEff.post { h := op.h, ec := .ok }] [] := by
              refine TCons.setTcp_present hs (fun hx => ⟨?_, hx⟩)
              unfold TcpSock.slotIds TcpSock.acceptOp; dsimp only; rw [ha]
              simp only [Option.bind_some, hop, Option.map_some, Option.toList_some, Option.map_none,
                Option.toList_none, effIds]
              perm_omega
            refine (h1.trans hat).congr_perm ?_ (by simp)
            cases op <;> (simp only [effIds_append, effIds, AcceptOp.h]; perm_omega)

theorem ni_accTryAccept (n : NetSt) (now : Int) (name : String) : noInvoke (accTryAccept n now name).2 := by
  unfold accTryAccept
  cases hs : n.tcp? name with
  | none => simp
  | some s =>
    dsimp only
    cases ha : s.acc with
    | none => simp
    | some a =>
      dsimp only
      cases hop : a.acceptOp with
      | none => simp
      | some op =>
        cases hc : a.conns with
        | nil => simp
        | cons c rest =>
          dsimp only
          generalize hpeer : (match op with | AcceptOp.into _ pn _ => pn | AcceptOp.fresh _ nn => nn) = peer
          have hat := ni_tcpAttach
            (n.setTcp name { s with acc := some { a with conns := rest, acceptOp := none } }) now peer s.bound c
          generalize NetSt.tcpAttach _ now peer s.bound c = x at hat ⊢
          cases hch : x.1.chan? c with
          | none => exact hat
          | some ch =>
            dsimp only
            simp only [noInvoke_append, hat, true_and, noInvoke_cons, NEff.isInvoke, noInvoke_nil, and_true]
            cases op <;> rfl

theorem accConnsOk_mono {n n' : NetSt} {name : String} (hv : accConnsOk n name)
    (h : ∀ s' a', n'.tcp? name = some s' → s'.acc = some a' →
      ∃ s a, n.tcp? name = some s ∧ s.acc = some a ∧ ∀ c ∈ a'.conns, c ∈ a.conns)
    (hl : n.chans.length ≤ n'.chans.length) : accConnsOk n' name := by
  intro s' a' hs' ha' c hc
  obtain ⟨s, a, hs, ha, hsub⟩ := h s' a' hs' ha'
  exact Nat.lt_of_lt_of_le (hv s a hs ha c (hsub c hc)) hl

theorem accResetClosed_ok (n : NetSt) (name : String) (s0 : TcpSock) (a0 : AccState)
    (hs : n.tcp? name = some s0) (ha : s0.acc = some a0) (hv : accConnsOk n name) :
    accConnsOk (accResetClosed n name s0 a0).1 name := by
  unfold accResetClosed
  split
  · dsimp only
    intro s' a' hs' ha' c hc
    rw [setTcp_tcp_same] at hs'
    cases hs'
    have := (tcp_abortAccept_frame { s0 with acc := some { a0 with conns := [] } }).2.2.2.2.2.2.1
    rw [ha'] at this
    simp at this
    rw [this] at hc; cases hc
  · exact hv

theorem tcons_accCheckQueue (n : NetSt) (now : Int) (name : String) (hv : accConnsOk n name) :
    TCons n (n.accCheckQueue now name).1 (n.accCheckQueue now name).2 [] := by
  rw [accCheckQueue_eq]
  cases hs : n.tcp? name with
  | none => exact TCons.refl n
  | some s0 =>
    dsimp only
    cases ha : s0.acc with
    | none => exact TCons.refl n
    | some a0 =>
      dsimp only
      exact ((tcons_accResetClosed n name s0 a0 hs ha).trans
        (tcons_accTryAccept _ now name (accResetClosed_ok n name s0 a0 hs ha hv))).congr rfl rfl

theorem ni_accCheckQueue (n : NetSt) (now : Int) (name : String) : noInvoke (n.accCheckQueue now name).2 := by
  rw [accCheckQueue_eq]
  splits <;> simp [ni_accResetClosed, ni_accTryAccept]

/-- `close()` keeps every object in the table and its accept state -/
theorem tcpClose_acc (n : NetSt) (now : Int) (name : String) (b : String) (t : TcpSock) (hb : n.tcp? b = some t) :
    ∃ t', (n.tcpClose now name).1.tcp? b = some t' ∧ t'.acc = t.acc := by
  rw [tcpClose_eq]
  cases hs : n.tcp? name with
  | none => exact ⟨t, hb, rfl⟩
  | some s0 =>
    dsimp only
    obtain ⟨t1, ht1, _, _, _, _, a5, _⟩ := tcpCloseEof_slots n now name s0 hs b t hb
    by_cases hbn : b = name
    · subst hbn
      obtain ⟨_, s', hs', _, _, _, _, a, _⟩ := tcpCloseFin_some _ b (tcpCloseEof n now b s0).2 t1 ht1
      exact ⟨s', hs', by rw [a, a5]⟩
    · refine ⟨t1, ?_, a5⟩
      unfold tcpCloseFin
      split
      · exact ht1
      · dsimp only
        rw [setTcp_tcp_other _ _ _ _ hbn]
        unfold NetSt.tcp? at ht1 ⊢
        splits <;> exact ht1

/-! ### acceptor entry points -/

theorem tcons_accIncoming (n : NetSt) (now : Int) (name : String) (p : Pkt) (hv : accConnsOk n name)
    (hp : ∀ c, p.chan = some c → c < n.chans.length) :
    TCons n (n.accIncoming now name p).1 (n.accIncoming now name p).2 [] := by
  unfold NetSt.accIncoming
  split
  · rename_i s c hs hty hch
    split
    · rename_i a ha
      refine TCons.setTcp_then hs (tcons_accCheckQueue _ now name ?_) rfl rfl rfl rfl
        (by unfold TcpSock.acceptOp; simp [ha])
      intro s' a' hs' ha' x hx
      rw [setTcp_tcp_same] at hs'; cases hs'
      simp only [Option.some.injEq] at ha'; subst ha'
      simp only [List.mem_append, List.mem_singleton] at hx
      rcases hx with hx | hx
      · exact hv s a hs ha x hx
      · subst hx; exact hp x hch
    · exact TCons.refl n
  · rename_i s hs hty
    dsimp only
    refine TCons.setTcp_present hs (fun hx => ⟨by simpa using tcp_conserve_abortAccept s, ?_⟩)
    obtain ⟨_, h1, h2, _⟩ := tcp_abortAccept_slots s
    unfold TcpSock.recvExcl at *; rw [h1, h2]; exact hx
  · exact TCons.refl n

theorem ni_accIncoming (n : NetSt) (now : Int) (name : String) (p : Pkt) : noInvoke (n.accIncoming now name p).2 := by
  unfold NetSt.accIncoming
  split
  · split <;> simp [ni_accCheckQueue]
  · dsimp only; exact ni_tcp_abortAccept _
  · simp

/-- phase 0 of `async_accept`: close the peer socket / create the socket to be returned -/
def _root_.SimVerif.accAcceptPrep (n : NetSt) (now : Int) (name : String) (op : AcceptOp) : NetSt × List NEff :=
  match op with
  | .into _ peer _ =>
    (match n.tcp? peer with
     | some p => if p.isOpen then n.tcpClose now peer else (n, [])
     | none => (n, []))
  | .fresh _ nn =>
    (match n.tcp? name with
     | some s => (n.setTcp nn { node := s.node }, [])
     | none => (n, []))

theorem accAsyncAccept_eq (n : NetSt) (now : Int) (name : String) (op : AcceptOp) :
    n.accAsyncAccept now name op =
      match (accAcceptPrep n now name op).1.tcp? name with
      | none => ((accAcceptPrep n now name op).1, (accAcceptPrep n now name op).2)
      | some s =>
        match s.abortAccept.1.acc with
        | none => ((accAcceptPrep n now name op).1, (accAcceptPrep n now name op).2 ++ s.abortAccept.2)
        | some a =>
          ((((accAcceptPrep n now name op).1.setTcp name
              { s.abortAccept.1 with acc := some { a with acceptOp := some op } }).accCheckQueue now name).1,
            (accAcceptPrep n now name op).2 ++ s.abortAccept.2 ++
            (((accAcceptPrep n now name op).1.setTcp name
              { s.abortAccept.1 with acc := some { a with acceptOp := some op } }).accCheckQueue now name).2) := by
  unfold NetSt.accAsyncAccept accAcceptPrep
  rfl

/-- what phase 0 of `async_accept` guarantees: ids conserved, the acceptor still there with the
    same accept state, its queued connections still valid -/
theorem accAcceptPrep_props (n : NetSt) (now : Int) (name : String) (op : AcceptOp) (s : TcpSock)
    (hs : n.tcp? name = some s)
    (hfresh : ∀ h nn, op = .fresh h nn → n.tcp? nn = none) (hv : accConnsOk n name) :
    TCons n (accAcceptPrep n now name op).1 (accAcceptPrep n now name op).2 []
    ∧ (∃ s', (accAcceptPrep n now name op).1.tcp? name = some s' ∧ s'.acc = s.acc)
    ∧ accConnsOk (accAcceptPrep n now name op).1 name
    ∧ noInvoke (accAcceptPrep n now name op).2 := by
  unfold accAcceptPrep
  cases op with
  | into h peer we =>
    dsimp only
    cases hp : n.tcp? peer with
    | none => exact ⟨TCons.refl n, ⟨s, hs, rfl⟩, hv, by simp⟩
    | some p =>
      dsimp only
      split
      · obtain ⟨t', ht', ha'⟩ := tcpClose_acc n now peer name s hs
        refine ⟨tcons_tcpClose n now peer, ⟨t', ht', ha'⟩, ?_, ni_tcpClose _ _ _⟩
        refine accConnsOk_mono hv ?_ (by rw [chanLen_tcpClose]; exact Nat.le_refl _)
        intro s' a' hs' hacc
        rw [ht'] at hs'; cases hs'
        exact ⟨s, a', hs, by rw [← ha', hacc], fun c hc => hc⟩
      · exact ⟨TCons.refl n, ⟨s, hs, rfl⟩, hv, by simp⟩
  | fresh h nn =>
    dsimp only
    rw [hs]; dsimp only
    have hnn := hfresh h nn rfl
    have hne : name ≠ nn := by intro e; subst e; rw [hs] at hnn; cases hnn
    refine ⟨TCons.setTcp_absent hnn rfl (Or.inl rfl), ⟨s, by rw [setTcp_tcp_other _ _ _ _ hne]; exact hs, rfl⟩, ?_, by simp⟩
    refine accConnsOk_mono hv ?_ (Nat.le_refl _)
    intro s' a' hs' hacc
    rw [setTcp_tcp_other _ _ _ _ hne] at hs'
    exact ⟨s', a', hs', hacc, fun c hc => hc⟩

/-- **`async_accept` (three overloads)** conserves handler ids. Preconditions: the object is an
    acceptor; the socket a socket-returning accept creates does not exist yet; queued
    connections are valid channels. -/
theorem tcons_accAsyncAccept (n : NetSt) (now : Int) (name : String) (op : AcceptOp) (s : TcpSock)
    (hs : n.tcp? name = some s) (hacc : s.acc.isSome)
    (hfresh : ∀ h nn, op = .fresh h nn → n.tcp? nn = none) (hv : accConnsOk n name) :
    TCons n (n.accAsyncAccept now name op).1 (n.accAsyncAccept now name op).2 [op.h] := by
  rw [accAsyncAccept_eq]
  obtain ⟨h0, ⟨s', hs', ha'⟩, hv', _⟩ := accAcceptPrep_props n now name op s hs hfresh hv
  rw [hs']; dsimp only
  obtain ⟨f1, f2, f3, f4, f5, f6, f7, f8⟩ := tcp_abortAccept_frame s'
  obtain ⟨g0, g1, g2, g3, g4⟩ := tcp_abortAccept_slots s'
  cases ha2 : s'.abortAccept.1.acc with
  | none =>
    rw [ha2] at f6; rw [ha'] at f6; rw [← f6] at hacc; cases hacc
  | some a =>
    dsimp only
    -- the old accept is aborted, the new one parked
    have h1 : TCons (accAcceptPrep n now name op).1
        ((accAcceptPrep n now name op).1.setTcp name
          { s'.abortAccept.1 with acc := some { a with acceptOp := some op } }) s'.abortAccept.2 [op.h] := by
      refine TCons.setTcp_present hs' (fun hx => ⟨?_, ?_⟩)
      · have hc := tcp_conserve_abortAccept s'
        unfold TcpSock.slotIds at hc ⊢
        rw [g0, g1, g2, g3, g4] at hc
        unfold TcpSock.acceptOp at hc ⊢
        dsimp only at hc ⊢
        rw [g1, g2, g3, g4]
        simp only [Option.bind_some, Option.map_some, Option.toList_some, Option.map_none, Option.toList_none] at hc ⊢
        perm_omega hc
      · unfold TcpSock.recvExcl at *; dsimp only; rw [g1, g2]; exact hx
    have hv2 : accConnsOk ((accAcceptPrep n now name op).1.setTcp name
          { s'.abortAccept.1 with acc := some { a with acceptOp := some op } }) name := by
      refine accConnsOk_mono hv' ?_ (Nat.le_refl _)
      intro s2 a2 hs2 hacc2
      rw [setTcp_tcp_same] at hs2; cases hs2
      simp only [Option.some.injEq] at hacc2; subst hacc2
      cases hsa : s'.acc with
      | none => rw [hsa] at f7; rw [ha2] at f7; simp at f7
      | some a0 =>
        rw [hsa, ha2] at f7
        simp only [Option.map_some, Option.some.injEq] at f7
        exact ⟨s', a0, hs', hsa, fun c hc => by rw [← f7]; exact hc⟩
    exact ((h0.trans h1).trans (tcons_accCheckQueue _ now name hv2)).congr (by simp) (by simp)

theorem ni_accAsyncAccept (n : NetSt) (now : Int) (name : String) (op : AcceptOp) :
    noInvoke (n.accAsyncAccept now name op).2 := by
  rw [accAsyncAccept_eq]
  have h0 : noInvoke (accAcceptPrep n now name op).2 := by
    unfold accAcceptPrep
    splits <;> first | simp | exact ni_tcpClose _ _ _
  splits <;> simp [h0, ni_tcp_abortAccept, ni_accCheckQueue]

/-- **`acceptor::close()`** conserves handler ids (queued connections valid) -/
theorem tcons_accClose (n : NetSt) (now : Int) (name : String) (hv : accConnsOk n name) :
    TCons n (n.accClose now name).1 (n.accClose now name).2 [] := by
  unfold NetSt.accClose
  cases hs : n.tcp? name with
  | none => exact TCons.refl n
  | some s =>
    dsimp only
    generalize hs1 : (match s.acc with
      | some a => ({ s with acc := some { a with queueLimit := -1 } } : TcpSock)
      | none => s) = s1
    have hslots : s1.recvH = s.recvH ∧ s1.waitRecvH = s.waitRecvH ∧ s1.sendH = s.sendH
        ∧ s1.connectH = s.connectH ∧ s1.acceptOp = s.acceptOp
        ∧ s1.acc.map (·.conns) = s.acc.map (·.conns) := by
      subst hs1
      cases ha : s.acc <;> simp [TcpSock.acceptOp, ha]
    obtain ⟨e1, e2, e3, e4, e5, e6⟩ := hslots
    obtain ⟨g0, g1, g2, g3, g4⟩ := tcp_abortAccept_slots s1
    have h1 : TCons n (n.setTcp name s1.abortAccept.1) s1.abortAccept.2 [] := by
      refine TCons.setTcp_present hs (fun hx => ⟨?_, ?_⟩)
      · rw [List.append_nil, ← tcp_slotIds_congr e1 e2 e3 e4 e5]
        exact tcp_conserve_abortAccept s1
      · unfold TcpSock.recvExcl at *; rw [g1, g2, e1, e2]; exact hx
    have h2 := tcons_tcpClose (n.setTcp name s1.abortAccept.1) now name
    have hv2 : accConnsOk ((n.setTcp name s1.abortAccept.1).tcpClose now name).1 name := by
      refine accConnsOk_mono hv ?_ (by rw [chanLen_tcpClose]; exact Nat.le_refl _)
      intro s2 a2 hs2 hacc2
      obtain ⟨t', ht', hta⟩ := tcpClose_acc (n.setTcp name s1.abortAccept.1) now name name _ (setTcp_tcp_same _ _ _)
      rw [ht'] at hs2; cases hs2
      have f7 := (tcp_abortAccept_frame s1).2.2.2.2.2.2.1
      rw [← hta, hacc2, e6] at f7
      cases hsa : s.acc with
      | none => rw [hsa] at f7; simp at f7
      | some a0 =>
        rw [hsa] at f7
        simp only [Option.map_some, Option.some.injEq] at f7
        exact ⟨s, a0, hs, hsa, fun c hc => by rw [← f7]; exact hc⟩
    subst hs1
    have h3 := (h1.trans h2).trans (tcons_accCheckQueue _ now name hv2)
    refine TCons.congr h3 ?_ ?_
    · simp only [effIds_append, List.append_assoc]; rfl
    · rfl

theorem ni_accClose (n : NetSt) (now : Int) (name : String) : noInvoke (n.accClose now name).2 := by
  unfold NetSt.accClose
  split
  · simp
  · dsimp only
    simp [ni_tcp_abortAccept, ni_tcpClose, ni_accCheckQueue]

end HL

end SimVerif
