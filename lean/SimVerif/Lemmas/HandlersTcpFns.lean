/-
  Per-function facts about the TCP / acceptor functions of SimVerif/Tcp.lean on a network
  state: no inline invocation (`ni_*`), no completion at all (`silent_*`), conservation of
  handler ids over the whole object table (`tcons_*`), and the explicit effect lists of the
  abort paths.
-/
import SimVerif.Lemmas.HandlersTcpNet

namespace SimVerif

open HL

theorem TCons.silent_of {n n' : NetSt} {effs : List NEff} (h : TCons n n' [] []) (hs : silent effs) :
    TCons n n' effs [] :=
  h.congr (by rw [effIds_silent hs]; rfl) rfl

namespace HL

/-! ### send_packet and its callers -/

theorem silent_tcpSendPacket (n : NetSt) (now : Int) (name : String) (p : Pkt) :
    silent (n.tcpSendPacket now name p).2 := by
  unfold NetSt.tcpSendPacket
  (repeat' split) <;> simp [NEff.isSilent]

theorem tcons_tcpSendPacket (n : NetSt) (now : Int) (name : String) (p : Pkt) :
    TCons n (n.tcpSendPacket now name p).1 (n.tcpSendPacket now name p).2 [] := by
  refine TCons.silent_of ?_ (silent_tcpSendPacket n now name p)
  unfold NetSt.tcpSendPacket
  split
  · exact TCons.refl n
  · rename_i s hs
    split
    · exact TCons.refl n
    · dsimp only
      exact TCons.setTcp_same_slots' hs rfl rfl rfl rfl rfl rfl

/-- `send_packet` does not touch any handler slot: the object `b` keeps its slots -/
theorem tcpSendPacket_slots (n : NetSt) (now : Int) (name : String) (p : Pkt) (b : String) (t : TcpSock)
    (hb : n.tcp? b = some t) :
    ∃ t', (n.tcpSendPacket now name p).1.tcp? b = some t' ∧ t'.recvH = t.recvH ∧ t'.waitRecvH = t.waitRecvH
      ∧ t'.sendH = t.sendH ∧ t'.connectH = t.connectH ∧ t'.acc = t.acc ∧ t'.fwd = t.fwd
      ∧ t'.isOpen = t.isOpen ∧ t'.bound = t.bound ∧ t'.chan = t.chan ∧ t'.node = t.node := by
  unfold NetSt.tcpSendPacket
  split
  · exact ⟨t, hb, rfl, rfl, rfl, rfl, rfl, rfl, rfl, rfl, rfl, rfl⟩
  · rename_i s hs
    split
    · exact ⟨t, hb, rfl, rfl, rfl, rfl, rfl, rfl, rfl, rfl, rfl, rfl⟩
    · dsimp only
      by_cases hbn : b = name
      · subst hbn
        rw [hb] at hs; cases hs
        exact ⟨_, setTcp_tcp_same _ _ _, rfl, rfl, rfl, rfl, rfl, rfl, rfl, rfl, rfl, rfl⟩
      · exact ⟨t, by rw [setTcp_tcp_other _ _ _ _ hbn]; exact hb, rfl, rfl, rfl, rfl, rfl, rfl, rfl, rfl, rfl, rfl⟩

theorem silent_tcpSendSeg (n : NetSt) (now : Int) (name : String) (hops : List String) (seg : List UInt8) :
    silent (n.tcpSendSeg now name hops seg).2 := by
  unfold NetSt.tcpSendSeg
  split
  · simp
  · exact silent_tcpSendPacket _ _ _ _

theorem tcons_tcpSendSeg (n : NetSt) (now : Int) (name : String) (hops : List String) (seg : List UInt8) :
    TCons n (n.tcpSendSeg now name hops seg).1 (n.tcpSendSeg now name hops seg).2 [] := by
  unfold NetSt.tcpSendSeg
  split
  · exact TCons.refl n
  · rename_i s hs
    dsimp only
    exact TCons.setTcp_then hs (tcons_tcpSendPacket _ _ _ _) rfl rfl rfl rfl rfl

theorem silent_tcpResendOne (n : NetSt) (now : Int) (name : String) (r : NetSt × List NEff)
    (h : n.tcpResendOne now name = some r) : silent r.2 := by
  unfold NetSt.tcpResendOne at h
  (repeat' split at h) <;> first
    | (simp only [Option.some.injEq] at h; subst h; exact silent_tcpSendPacket _ _ _ _)
    | cases h

theorem tcons_tcpResendOne (n : NetSt) (now : Int) (name : String) (r : NetSt × List NEff)
    (h : n.tcpResendOne now name = some r) : TCons n r.1 r.2 [] := by
  unfold NetSt.tcpResendOne at h
  split at h
  · cases h
  · rename_i s hs
    (repeat' split at h) <;> first
      | (simp only [Option.some.injEq] at h; subst h
         exact TCons.setTcp_then hs (tcons_tcpSendPacket _ _ _ _) rfl rfl rfl rfl rfl)
      | cases h

theorem tcons_tcpAckPost (tp : TParams) (n : NetSt) (name : String) (wb : Bool) (acked : Nat) :
    TCons n (n.tcpAckPost tp name wb acked).1 [] [] := by
  unfold NetSt.tcpAckPost
  split
  · exact TCons.refl n
  · rename_i s hs
    exact TCons.setTcp_same_slots (s := s) hs rfl rfl rfl rfl rfl

theorem tcons_tcpPacketDropped (tp : TParams) (n : NetSt) (name : String) (p : Pkt) :
    TCons n (n.tcpPacketDropped tp name p) [] [] := by
  unfold NetSt.tcpPacketDropped
  split
  · exact TCons.refl n
  · rename_i s hs
    split
    · exact TCons.refl n
    · dsimp only
      (repeat' split) <;> exact TCons.setTcp_same_slots (s := s) hs rfl rfl rfl rfl rfl

/-! ### close / open / cancel -/

/-- first half of `close()`: an established connection announces the end of the stream -/
def _root_.SimVerif.tcpCloseEof (n : NetSt) (now : Int) (name : String) (s0 : TcpSock) : NetSt × List NEff :=
  match s0.chan.bind n.chan? with
  | none => (n, [])
  | some ch =>
    let hops := ch.hops (ch.remoteIdx s0.bound)
    if !hops.isEmpty && s0.connectH.isNone then
      let p : Pkt := { id := s0.nextOut, ty := .err, ec := .eof, len := 0, ovh := 40, hops := hops,
                       src := s0.bound.toString }
      let n := n.setTcp name { s0 with nextOut := s0.nextOut + 1 }
      n.tcpSendPacket now name p
    else (n, [])

/-- second half of `close()`: unbind, detach the forwarder, reset the connection state, `cancel()` -/
def _root_.SimVerif.tcpCloseFin (n : NetSt) (name : String) (e0 : List NEff) : NetSt × List NEff :=
  match n.tcp? name with
  | none => (n, e0)
  | some s =>
    let n := if !s.bound.isDefault then { n with reg := { n.reg with tcp := simUnbind n.reg.tcp name s.bound } } else n
    let n := match s.fwd with | some f => n.setFwd f none | none => n
    let s := { s with chan := none, bound := {}, isOpen := false, fwd := none,
                      mss := 1475, cwnd := 2950, inFlight := 0, outstanding := [],
                      inq := [], reorder := [], resend := [], recvNull := false,
                      nextIn := 0, nextOut := 0, lastDrop := 0 }
    let (s, e1) := s.cancel
    (n.setTcp name s, e0 ++ e1)

theorem tcpClose_eq (n : NetSt) (now : Int) (name : String) :
    n.tcpClose now name = match n.tcp? name with
      | none => (n, [])
      | some s0 => tcpCloseFin (tcpCloseEof n now name s0).1 name (tcpCloseEof n now name s0).2 := by
  unfold NetSt.tcpClose tcpCloseFin tcpCloseEof
  rfl

theorem silent_tcpCloseEof (n : NetSt) (now : Int) (name : String) (s0 : TcpSock) :
    silent (tcpCloseEof n now name s0).2 := by
  unfold tcpCloseEof
  splits <;> first | simp | exact silent_tcpSendPacket _ _ _ _

theorem tcons_tcpCloseEof (n : NetSt) (now : Int) (name : String) (s0 : TcpSock) (h : n.tcp? name = some s0) :
    TCons n (tcpCloseEof n now name s0).1 (tcpCloseEof n now name s0).2 [] := by
  unfold tcpCloseEof
  splits <;> first
    | exact TCons.refl n
    | exact TCons.setTcp_then h (tcons_tcpSendPacket _ _ _ _) rfl rfl rfl rfl rfl

/-- the EOF announcement touches no handler slot, forwarder, binding or channel reference of any object -/
theorem tcpCloseEof_slots (n : NetSt) (now : Int) (name : String) (s0 : TcpSock) (h : n.tcp? name = some s0)
    (b : String) (t : TcpSock) (hb : n.tcp? b = some t) :
    ∃ t', (tcpCloseEof n now name s0).1.tcp? b = some t' ∧ t'.recvH = t.recvH ∧ t'.waitRecvH = t.waitRecvH
      ∧ t'.sendH = t.sendH ∧ t'.connectH = t.connectH ∧ t'.acc = t.acc ∧ t'.fwd = t.fwd
      ∧ t'.isOpen = t.isOpen ∧ t'.bound = t.bound ∧ t'.chan = t.chan ∧ t'.node = t.node := by
  unfold tcpCloseEof
  splits <;> first
    | exact ⟨t, hb, rfl, rfl, rfl, rfl, rfl, rfl, rfl, rfl, rfl, rfl⟩
    | (by_cases hbn : b = name
       · subst hbn
         rw [h] at hb; cases hb
         exact tcpSendPacket_slots _ now b _ b { s0 with nextOut := s0.nextOut + 1 } (setTcp_tcp_same _ _ _)
       · exact tcpSendPacket_slots _ now name _ b t (by rw [setTcp_tcp_other _ _ _ _ hbn]; exact hb))

/-- `cancel()` effects of the socket in explicit form -/
def _root_.SimVerif.tcpCancelEffs (s : TcpSock) : List NEff := tcpAbortRecvEffs s ++ tcpAbortSendEffs s ++ tcpAbortConnEffs s

theorem tcpCloseFin_some (n : NetSt) (name : String) (e0 : List NEff) (s : TcpSock) (h : n.tcp? name = some s) :
    (tcpCloseFin n name e0).2 = e0 ++ tcpCancelEffs s
    ∧ ∃ s', (tcpCloseFin n name e0).1.tcp? name = some s'
        ∧ s'.recvH = none ∧ s'.waitRecvH = none ∧ s'.sendH = none ∧ s'.connectH = none ∧ s'.acc = s.acc
        ∧ s'.isOpen = false ∧ s'.fwd = none ∧ s'.chan = none ∧ s'.bound = {} ∧ s'.node = s.node := by
  unfold tcpCloseFin
  rw [h]; dsimp only
  rw [tcp_cancel_eq]; dsimp only
  exact ⟨rfl, _, setTcp_tcp_same _ _ _, rfl, rfl, rfl, rfl, rfl, rfl, rfl, rfl, rfl, rfl⟩

/-- the connection state `close()` leaves behind, before `cancel()` -/
def _root_.SimVerif.TcpSock.closedState (s : TcpSock) : TcpSock :=
  { s with chan := none, bound := {}, isOpen := false, fwd := none,
           mss := 1475, cwnd := 2950, inFlight := 0, outstanding := [],
           inq := [], reorder := [], resend := [], recvNull := false,
           nextIn := 0, nextOut := 0, lastDrop := 0 }

theorem tcons_tcpCloseFin (n : NetSt) (name : String) (e0 : List NEff) (he : silent e0) :
    TCons n (tcpCloseFin n name e0).1 (tcpCloseFin n name e0).2 [] := by
  unfold tcpCloseFin
  split
  · exact TCons.silent_of (TCons.refl n) he
  · rename_i s hs
    dsimp only
    have hc := tcp_conserve_cancel s.closedState
    refine TCons.setTcp_present' hs ?_ (fun _ => ⟨?_, hc.2⟩)
    · splits <;> rfl
    · rw [effIds_append, effIds_silent he, List.nil_append, List.append_nil]; exact hc.1

theorem tcons_tcpClose (n : NetSt) (now : Int) (name : String) :
    TCons n (n.tcpClose now name).1 (n.tcpClose now name).2 [] := by
  rw [tcpClose_eq]
  split
  · exact TCons.refl n
  · rename_i s0 hs0
    exact ((tcons_tcpCloseEof n now name s0 hs0).trans
      (tcons_tcpCloseFin _ name _ (silent_tcpCloseEof n now name s0))).congr
        (by rw [effIds_append, effIds_silent (silent_tcpCloseEof n now name s0)]; rfl) rfl

theorem ni_tcpClose (n : NetSt) (now : Int) (name : String) : noInvoke (n.tcpClose now name).2 := by
  rw [tcpClose_eq]
  split
  · simp
  · rename_i s0 hs0
    obtain ⟨t', ht', _⟩ := tcpCloseEof_slots n now name s0 hs0 name s0 hs0
    rw [(tcpCloseFin_some _ name _ t' ht').1]
    simp [silent_noInvoke (silent_tcpCloseEof n now name s0), tcpCancelEffs,
      (posts_tcpAbortRecvEffs t').2.2, (posts_tcpAbortSendEffs t').2.2, (posts_tcpAbortConnEffs t').2.2]

theorem tcons_tcpOpen (n : NetSt) (now : Int) (name : String) (v4 : Bool) :
    TCons n (n.tcpOpen now name v4).1 (n.tcpOpen now name v4).2 [] := by
  unfold NetSt.tcpOpen
  dsimp only
  split
  · exact tcons_tcpClose n now name
  · rename_i s hs
    refine ((tcons_tcpClose n now name).trans (n2 := _) (e2 := []) (new2 := []) ?_).congr (by simp) rfl
    exact TCons.setTcp_same_slots' hs rfl rfl rfl rfl rfl rfl

theorem ni_tcpOpen (n : NetSt) (now : Int) (name : String) (v4 : Bool) : noInvoke (n.tcpOpen now name v4).2 := by
  unfold NetSt.tcpOpen; dsimp only; split <;> exact ni_tcpClose _ _ _

theorem tcons_tcpBind (n : NetSt) (name : String) (ep : Ep) : TCons n (n.tcpBind name ep).1 [] [] := by
  unfold NetSt.tcpBind
  split
  · exact TCons.refl n
  · rename_i s hs
    splits <;> first
      | exact TCons.refl n
      | exact TCons.of_tcps_eq rfl rfl
      | exact TCons.setTcp_same_slots' hs rfl rfl rfl rfl rfl rfl

theorem tcons_tcpCancel (n : NetSt) (name : String) : TCons n (n.tcpCancel name).1 (n.tcpCancel name).2 [] := by
  unfold NetSt.tcpCancel
  split
  · exact TCons.refl n
  · rename_i s hs
    exact TCons.setTcp_present hs (fun _ => by simpa using tcp_conserve_cancel s)

theorem ni_tcpCancel (n : NetSt) (name : String) : noInvoke (n.tcpCancel name).2 := by
  unfold NetSt.tcpCancel; split
  · simp
  · exact ni_tcp_cancel _

theorem tcons_tcpAsyncRead (n : NetSt) (name : String) (op : ReadOp) (hex : (n.tcp? name).isSome) :
    TCons n (n.tcpAsyncRead name op).1 (n.tcpAsyncRead name op).2 [op.h] := by
  unfold NetSt.tcpAsyncRead
  split
  · rename_i h; rw [h] at hex; cases hex
  · rename_i s hs
    dsimp only
    refine TCons.setTcp_present hs (fun _ => ⟨?_, tcp_asyncReadImpl_excl _ op rfl⟩)
    have h1 := (tcp_conserve_abortRecv s).1
    have h2 := tcp_conserve_asyncReadImpl s.abortRecv.1 op rfl
    rw [effIds_append]
    perm_omega h1 h2

theorem ni_tcpAsyncRead (n : NetSt) (name : String) (op : ReadOp) : noInvoke (n.tcpAsyncRead name op).2 := by
  unfold NetSt.tcpAsyncRead; split
  · simp
  · simp [ni_tcp_abortRecv, ni_tcp_asyncReadImpl]

theorem tcons_tcpWaitRead (n : NetSt) (name : String) (h : Nat) (hex : (n.tcp? name).isSome) :
    TCons n (n.tcpWaitRead name h).1 (n.tcpWaitRead name h).2 [h] := by
  unfold NetSt.tcpWaitRead
  split
  · rename_i h; rw [h] at hex; cases hex
  · rename_i s hs
    dsimp only
    refine TCons.setTcp_present hs (fun _ => ⟨?_, tcp_asyncWaitReadImpl_excl _ h rfl⟩)
    have h1 := (tcp_conserve_abortRecv s).1
    have h2 := tcp_conserve_asyncWaitReadImpl s.abortRecv.1 h rfl rfl
    rw [effIds_append]
    perm_omega h1 h2

theorem ni_tcpWaitRead (n : NetSt) (name : String) (h : Nat) : noInvoke (n.tcpWaitRead name h).2 := by
  unfold NetSt.tcpWaitRead; split
  · simp
  · simp [ni_tcp_abortRecv, ni_tcp_asyncWaitReadImpl]

theorem tcons_tcpReadNb (n : NetSt) (name : String) (caps : List Nat) : TCons n (n.tcpReadNb name caps).1 [] [] := by
  unfold NetSt.tcpReadNb
  split
  · exact TCons.refl n
  · rename_i s hs
    obtain ⟨h1, h2, h3, h4, h5⟩ := tcp_readSome_slots s s.chan.isSome caps
    exact TCons.setTcp_same_slots hs h1 h2 h3 h4 (acceptOp_congr h5)

theorem tcons_tcpAsyncWrite (n : NetSt) (name : String) (op : WriteOp) (hex : (n.tcp? name).isSome) :
    TCons n (n.tcpAsyncWrite name op).1 (n.tcpAsyncWrite name op).2 [op.h] := by
  unfold NetSt.tcpAsyncWrite
  split
  · rename_i h; rw [h] at hex; cases hex
  · rename_i s hs
    dsimp only
    refine TCons.setTcp_present hs (fun hx => ⟨?_, hx⟩)
    have h1 := tcp_conserve_abortSend s
    rw [tcp_abortSend_eq] at h1 ⊢
    dsimp only at h1 ⊢
    rw [effIds_append]
    unfold TcpSock.slotIds TcpSock.acceptOp at h1 ⊢
    dsimp only at h1 ⊢
    simp only [effIds, Option.map_some, Option.toList_some, Option.map_none, Option.toList_none] at h1 ⊢
    perm_omega h1

theorem ni_tcpAsyncWrite (n : NetSt) (name : String) (op : WriteOp) : noInvoke (n.tcpAsyncWrite name op).2 := by
  unfold NetSt.tcpAsyncWrite; split
  · simp
  · simp [ni_tcp_abortSend, NEff.isInvoke]

/-- `async_write_some_impl` after `write_some_impl` returned: the operation (taken out of its slot
    before) is parked again or completed with exactly one post -/
theorem tcons_tcpWriteFinish (n : NetSt) (name : String) (op : WriteOp) (r : Except Ec Nat) (s : TcpSock)
    (hs : n.tcp? name = some s) (hfree : s.sendH = none) :
    TCons n (n.tcpWriteFinish name op r).1 (n.tcpWriteFinish name op r).2 [op.h] := by
  unfold NetSt.tcpWriteFinish
  rw [hs]; dsimp only
  splits <;>
    (refine TCons.setTcp_present hs (fun hx => ⟨?_, hx⟩)
     unfold TcpSock.slotIds TcpSock.acceptOp
     dsimp only
     rw [hfree]
     simp only [effIds, Option.map_some, Option.toList_some, Option.map_none, Option.toList_none]
     perm_omega)

theorem ni_tcpWriteFinish (n : NetSt) (name : String) (op : WriteOp) (r : Except Ec Nat) :
    noInvoke (n.tcpWriteFinish name op r).2 := by
  unfold NetSt.tcpWriteFinish
  splits <;> simp [NEff.isInvoke]

/-- the cases of `tcpWriteFinish`: parked (`would_block`) or exactly one post for this handler, slot empty -/
theorem tcpWriteFinish_cases (n : NetSt) (name : String) (op : WriteOp) (r : Except Ec Nat) (s : TcpSock)
    (hs : n.tcp? name = some s) :
    (∃ s', (n.tcpWriteFinish name op r).1.tcp? name = some s' ∧ s'.sendH = some op
        ∧ (n.tcpWriteFinish name op r).2 = [])
    ∨ (∃ s' c, (n.tcpWriteFinish name op r).1.tcp? name = some s' ∧ s'.sendH = none
        ∧ (n.tcpWriteFinish name op r).2 = [.post c] ∧ c.h = op.h) := by
  unfold NetSt.tcpWriteFinish
  rw [hs]; dsimp only
  splits
  · exact Or.inl ⟨_, setTcp_tcp_same _ _ _, rfl, rfl⟩
  · exact Or.inr ⟨_, _, setTcp_tcp_same _ _ _, rfl, rfl, rfl⟩
  · exact Or.inr ⟨_, _, setTcp_tcp_same _ _ _, rfl, rfl, rfl⟩

/-! ### connect -/

/-- handler ids an effect list binds into a connect timer's callback (a refused connect: the
    handler leaves the socket and will be invoked by the timer) -/
def _root_.SimVerif.parkIds : List NEff → List Nat
  | [] => []
  | .armAfter _ _ _ (.tcpConnectRefused _ h) :: rest => h :: parkIds rest
  | .armTimer _ _ _ (.tcpConnectRefused _ h) :: rest => h :: parkIds rest
  | _ :: rest => parkIds rest

theorem parkIds_append (a b : List NEff) : parkIds (a ++ b) = parkIds a ++ parkIds b := by
  induction a with
  | nil => rfl
  | cons e rest ih =>
    cases e with
    | armAfter o sl d cb => cases cb <;> simp [parkIds, ih]
    | armTimer o sl d cb => cases cb <;> simp [parkIds, ih]
    | _ => simp [parkIds, ih]

theorem silent_internalConnect (n : NetSt) (name : String) (target : Ep) :
    silent (n.internalConnect name target).2.1 ∧ (n.internalConnect name target).1.tcps = n.tcps
    ∧ parkIds (n.internalConnect name target).2.1 = [] := by
  unfold NetSt.internalConnect
  splits <;> simp [NEff.isSilent, parkIds]

theorem silent_internalConnect' {n n' : NetSt} {name : String} {target : Ep} {e1 : List NEff} {cid : Option Nat}
    (h : n.internalConnect name target = (n', e1, cid)) : silent e1 := by
  have := (silent_internalConnect n name target).1
  rw [h] at this; exact this

/-- the implicit bind of `async_connect` -/
def _root_.SimVerif.tcpConnectBind (n : NetSt) (name : String) (s : TcpSock) (target : Ep) : NetSt × Ec :=
  if s.bound.addr == "0.0.0.0" then
    let anyEp : Ep := { addr := if target.isV4 then "0.0.0.0" else "::", port := 0 }
    match ioResolve (n.cfg.ipsOf s.node) anyEp with
    | .error e => (n, e)
    | .ok ep1 =>
      let (tbl, np, r) := simBind n.reg.tcp n.reg.nextPort name ep1
      let n := { n with reg := { n.reg with tcp := tbl, nextPort := np } }
      match r with
      | .error e => (n, e)
      | .ok ep2 => (n.setTcp name { s with bound := ep2 }, .ok)
  else (n, .ok)

/-- `async_connect` once the socket is open and bound -/
def _root_.SimVerif.tcpConnectFin (n : NetSt) (name : String) (target : Ep) (h : Nat) (e0 : List NEff) (ecb : Ec) :
    NetSt × List NEff :=
  if ecb != .ok then (n, e0 ++ [.post { h := h, ec := ecb }]) else
  match n.tcp? name with
  | none => (n, e0)
  | some s =>
    if s.bound.isV4 != target.isV4 then (n, e0 ++ [.post { h := h, ec := .afNoSupport }])
    else
      let (n, e1, cid) := n.internalConnect name target
      let mss := n.cfg.pathMtu s.bound.addr target.addr
      match n.tcp? name with
      | none => (n, e0)
      | some s =>
        let s := { s with mss := mss, cwnd := mss * 2 }
        match cid with
        | none =>
          (n.setTcp name { s with chan := none },
            e0 ++ e1 ++ [.armAfter name 0 50000000 (.tcpConnectRefused name h)])
        | some c => (n.setTcp name { s with chan := some c, connectH := some h }, e0 ++ e1)

theorem tcpConnect_eq (n : NetSt) (now : Int) (name : String) (target : Ep) (h : Nat) :
    n.tcpConnect now name target h = match n.tcp? name with
      | none => (n, [])
      | some s0 =>
        let a := if !s0.isOpen then n.tcpOpen now name target.isV4 else (n, [])
        match a.1.tcp? name with
        | none => (a.1, a.2)
        | some s =>
          let b := tcpConnectBind a.1 name s target
          tcpConnectFin b.1 name target h a.2 b.2 := by
  unfold NetSt.tcpConnect tcpConnectBind tcpConnectFin
  rfl

theorem tcpConnectBind_props (n : NetSt) (name : String) (s : TcpSock) (target : Ep) (hs : n.tcp? name = some s) :
    TCons n (tcpConnectBind n name s target).1 [] []
    ∧ ∃ s', (tcpConnectBind n name s target).1.tcp? name = some s' ∧ s'.recvH = s.recvH
        ∧ s'.waitRecvH = s.waitRecvH ∧ s'.sendH = s.sendH ∧ s'.connectH = s.connectH ∧ s'.acc = s.acc := by
  unfold tcpConnectBind
  splits <;> first
    | exact ⟨TCons.refl n, s, hs, rfl, rfl, rfl, rfl, rfl⟩
    | exact ⟨TCons.of_tcps_eq rfl rfl, s, hs, rfl, rfl, rfl, rfl, rfl⟩
    | exact ⟨TCons.setTcp_same_slots' hs rfl rfl rfl rfl rfl rfl, _, setTcp_tcp_same _ _ _, rfl, rfl, rfl, rfl, rfl⟩

theorem tcons_tcpConnectFin (n : NetSt) (name : String) (target : Ep) (h : Nat) (e0 : List NEff) (ecb : Ec)
    (s : TcpSock) (hs : n.tcp? name = some s) (hc : s.connectH = none) (he0 : parkIds e0 = []) :
    ∃ new, TCons n (tcpConnectFin n name target h e0 ecb).1
        (List.drop e0.length (tcpConnectFin n name target h e0 ecb).2) new
      ∧ (tcpConnectFin n name target h e0 ecb).2 = e0 ++ List.drop e0.length (tcpConnectFin n name target h e0 ecb).2
      ∧ (new ++ parkIds (tcpConnectFin n name target h e0 ecb).2).Perm [h] := by
  unfold tcpConnectFin
  split
  · exact ⟨[h], by simpa [effIds] using (⟨id, fun _ z => by simp [effIds]⟩ : TCons n n [.post { h := h, ec := ecb }] [h]),
      by simp, by simp [parkIds_append, he0, parkIds]⟩
  · rw [hs]; dsimp only
    split
    · exact ⟨[h], by simpa [effIds] using (⟨id, fun _ z => by simp [effIds]⟩ : TCons n n [.post { h := h, ec := .afNoSupport }] [h]),
        by simp, by simp [parkIds_append, he0, parkIds]⟩
    · obtain ⟨hsil, htc, hpk⟩ := silent_internalConnect n name target
      have hs1 : (n.internalConnect name target).1.tcp? name = some s := by
        unfold NetSt.tcp? at hs ⊢; rw [htc]; exact hs
      rw [hs1]; dsimp only
      split
      · refine ⟨[], ?_, by simp, by simp [parkIds_append, he0, hpk, parkIds]⟩
        simp only [List.append_assoc, List.drop_left]
        refine TCons.congr (e := []) (TCons.setTcp_present' hs htc (fun hx => ⟨?_, hx⟩)) ?_ rfl
        · unfold TcpSock.slotIds TcpSock.acceptOp; dsimp only; simp
        · rw [effIds_append, effIds_silent hsil]; rfl
      · refine ⟨[h], ?_, by simp, by simp [parkIds_append, he0, hpk]⟩
        simp only [List.drop_left]
        refine TCons.congr (e := []) (TCons.setTcp_present' hs htc (fun hx => ⟨?_, hx⟩)) ?_ rfl
        · unfold TcpSock.slotIds TcpSock.acceptOp; dsimp only; rw [hc]
          simp only [Option.toList_some, Option.toList_none, effIds_nil]
          perm_omega
        · rw [effIds_silent hsil]; rfl

theorem tcpCancelEffs_congr {s s' : TcpSock} (h1 : s'.recvH = s.recvH) (h2 : s'.waitRecvH = s.waitRecvH)
    (h3 : s'.sendH = s.sendH) (h4 : s'.connectH = s.connectH) : tcpCancelEffs s' = tcpCancelEffs s := by
  unfold tcpCancelEffs tcpAbortRecvEffs tcpAbortSendEffs tcpAbortConnEffs
  rw [h1, h2, h3, h4]

/-- **`close()` in explicit form**: the effects are the (silent) EOF announcement followed by the
    aborts of the four slots in slot order; the socket is left closed, unbound, detached,
    unconnected, with all four slots empty (an acceptor keeps its accept state). -/
theorem tcpClose_some (n : NetSt) (now : Int) (name : String) (s0 : TcpSock) (h : n.tcp? name = some s0) :
    (n.tcpClose now name).2 = (tcpCloseEof n now name s0).2 ++ tcpCancelEffs s0
    ∧ ∃ s', (n.tcpClose now name).1.tcp? name = some s'
        ∧ s'.recvH = none ∧ s'.waitRecvH = none ∧ s'.sendH = none ∧ s'.connectH = none ∧ s'.acc = s0.acc
        ∧ s'.isOpen = false ∧ s'.fwd = none ∧ s'.chan = none ∧ s'.bound = {} ∧ s'.node = s0.node := by
  rw [tcpClose_eq, h]; dsimp only
  obtain ⟨t', ht', a1, a2, a3, a4, a5, _, _, _, _, a10⟩ := tcpCloseEof_slots n now name s0 h name s0 h
  obtain ⟨e, s', hs', b⟩ := tcpCloseFin_some _ name (tcpCloseEof n now name s0).2 t' ht'
  rw [e, tcpCancelEffs_congr a1 a2 a3 a4]
  refine ⟨rfl, s', hs', b.1, b.2.1, b.2.2.1, b.2.2.2.1, by rw [b.2.2.2.2.1, a5], b.2.2.2.2.2.1,
    b.2.2.2.2.2.2.1, b.2.2.2.2.2.2.2.1, b.2.2.2.2.2.2.2.2.1, by rw [b.2.2.2.2.2.2.2.2.2, a10]⟩

theorem tcpOpen_some (n : NetSt) (now : Int) (name : String) (v4 : Bool) (s0 : TcpSock) (h : n.tcp? name = some s0) :
    (n.tcpOpen now name v4).2 = (n.tcpClose now name).2
    ∧ ∃ s', (n.tcpOpen now name v4).1.tcp? name = some s'
        ∧ s'.recvH = none ∧ s'.waitRecvH = none ∧ s'.sendH = none ∧ s'.connectH = none ∧ s'.acc = s0.acc
        ∧ s'.isOpen = true ∧ s'.fwd = some (n.tcpClose now name).1.fwds.length ∧ s'.chan = none
        ∧ s'.bound = {} ∧ s'.node = s0.node := by
  obtain ⟨_, s1, hs1, b⟩ := tcpClose_some n now name s0 h
  unfold NetSt.tcpOpen
  dsimp only
  rw [hs1]; dsimp only
  exact ⟨rfl, _, setTcp_tcp_same _ _ _, b.1, b.2.1, b.2.2.1, b.2.2.2.1, b.2.2.2.2.1, rfl, rfl,
    b.2.2.2.2.2.2.2.1, b.2.2.2.2.2.2.2.2.1, b.2.2.2.2.2.2.2.2.2⟩

theorem parkIds_tcpSendPacket (n : NetSt) (now : Int) (name : String) (p : Pkt) :
    parkIds (n.tcpSendPacket now name p).2 = [] := by
  unfold NetSt.tcpSendPacket
  splits <;> simp [parkIds, parkIds_append]

theorem parkIds_tcpCancelEffs (s : TcpSock) : parkIds (tcpCancelEffs s) = [] := by
  unfold tcpCancelEffs tcpAbortRecvEffs tcpAbortSendEffs tcpAbortConnEffs
  cases s.recvH <;> cases s.waitRecvH <;> cases s.sendH <;> cases s.connectH <;> simp [parkIds]

theorem parkIds_tcpClose (n : NetSt) (now : Int) (name : String) : parkIds (n.tcpClose now name).2 = [] := by
  cases h : n.tcp? name with
  | none => rw [tcpClose_eq, h]; rfl
  | some s0 =>
    rw [(tcpClose_some n now name s0 h).1, parkIds_append, parkIds_tcpCancelEffs]
    unfold tcpCloseEof
    splits <;> simp [parkIds, parkIds_tcpSendPacket]

/-- **`async_connect`** conserves handler ids: the new handler is posted at once (bind error /
    wrong family), parked in the connect slot, or bound into the connect timer (refused).
    Preconditions of the code: the socket exists; `assert(!m_connect_handler)` when it is open. -/
theorem tcons_tcpConnect (n : NetSt) (now : Int) (name : String) (target : Ep) (h : Nat) (s0 : TcpSock)
    (hs0 : n.tcp? name = some s0) (hpre : s0.isOpen = true → s0.connectH = none) :
    ∃ new, TCons n (n.tcpConnect now name target h).1 (n.tcpConnect now name target h).2 new
      ∧ (new ++ parkIds (n.tcpConnect now name target h).2).Perm [h] := by
  rw [tcpConnect_eq, hs0]; dsimp only
  -- phase A: open if necessary
  have hA : ∀ a : NetSt × List NEff, a = (if (!s0.isOpen) = true then n.tcpOpen now name target.isV4 else (n, [])) →
      ∃ s, a.1.tcp? name = some s ∧ s.connectH = none ∧ TCons n a.1 a.2 [] ∧ parkIds a.2 = [] := by
    intro a ha
    split at ha
    · subst ha
      obtain ⟨he, s', hs', b⟩ := tcpOpen_some n now name target.isV4 s0 hs0
      exact ⟨s', hs', b.2.2.2.1, tcons_tcpOpen _ _ _ _, by rw [he, parkIds_tcpClose]⟩
    · rename_i ho
      subst ha
      exact ⟨s0, hs0, hpre (by simpa using ho), TCons.refl n, rfl⟩
  generalize (if (!s0.isOpen) = true then n.tcpOpen now name target.isV4 else (n, [])) = a at hA
  obtain ⟨s, hs, hc, hta, hpa⟩ := hA a rfl
  rw [hs]; dsimp only
  -- phase B: implicit bind
  obtain ⟨htb, s', hs', _, _, _, hc', _⟩ := tcpConnectBind_props a.1 name s target hs
  -- phase C
  obtain ⟨new, htc, hsplit, hperm⟩ :=
    tcons_tcpConnectFin (tcpConnectBind a.1 name s target).1 name target h a.2
      (tcpConnectBind a.1 name s target).2 s' hs' (by rw [hc', hc]) hpa
  refine ⟨new, ?_, hperm⟩
  rw [hsplit]
  exact ((hta.trans htb).trans htc).congr (by simp) (by simp)

theorem ni_tcpConnect (n : NetSt) (now : Int) (name : String) (target : Ep) (h : Nat) :
    noInvoke (n.tcpConnect now name target h).2 := by
  rw [tcpConnect_eq]
  split
  · simp
  · rename_i s0 hs0
    have hA : noInvoke (if (!s0.isOpen) = true then n.tcpOpen now name target.isV4 else (n, [])).2 := by
      split
      · exact ni_tcpOpen _ _ _ _
      · simp
    generalize (if (!s0.isOpen) = true then n.tcpOpen now name target.isV4 else (n, [])) = a at hA
    dsimp only
    split
    · exact hA
    · unfold tcpConnectFin
      splits <;> (try simp [hA, NEff.isInvoke]) <;>
        (rename_i hq; exact silent_noInvoke (silent_internalConnect' hq))

end HL

end SimVerif
