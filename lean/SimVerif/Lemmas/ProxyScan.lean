/-
  Lemmas about the specification-level reading `scan` of a client byte stream
  (SimVerif/HttpProxySys.lean): fuel independence, the shape of the incomplete rest, and
  segmentation independence (`scan_append`).
-/
import SimVerif.HttpProxySys
import SimVerif.Lemmas.HttpPrefix
import SimVerif.Lemmas.HttpBasic

namespace SimVerif.HttpProxy

open SimVerif.Http

/-! ### windows of `b ++ c` that lie inside `b` -/

theorem win_append_left (b c : Bytes) (p n : Nat) (h : p + n ≤ b.length) :
    win (b ++ c) p n = win b p n := by
  unfold win
  rw [List.drop_append_of_le_length (by omega), List.take_append_of_le_length (by simp; omega)]

/-! ### `find_request_len` on a whole buffer -/

/-- first-occurrence characterisation of `findRequestLen b b.length` -/
theorem findRequestLen_spec (b : Bytes) :
    (findRequestLen b b.length = .ok (-1) ∧
      ∀ p : Nat, p + 4 ≤ b.length → win b p 4 ≠ CRLFCRLF) ∨
    (∃ p : Nat, findRequestLen b b.length = .ok ((p + 4 : Nat) : Int) ∧ p + 4 ≤ b.length ∧
      win b p 4 = CRLFCRLF ∧ ∀ k : Nat, k < p → win b k 4 ≠ CRLFCRLF) := by
  unfold findRequestLen
  rcases find_spec b 0 (b.length : Int) CRLFCRLF (by omega) with ⟨hf, hn⟩ | ⟨p, hf, _, hp2, hp3, hp4⟩
  · left
    rw [hf]
    refine ⟨rfl, ?_⟩
    intro p hp
    have := hn p (by omega) (by simp [CRLFCRLF]; omega)
    simpa [CRLFCRLF] using this
  · right
    have hl : CRLFCRLF.length = 4 := rfl
    rw [hl] at hp2 hp3 hp4
    refine ⟨p, ?_, by omega, hp3, fun k hk => hp4 k (by omega) hk⟩
    rw [hf]
    dsimp only
    congr 1 <;> omega

/-- `find_request_len` on a whole buffer: -1, or the length of the first complete request (at least 4, at most the buffer) -/
theorem findRequestLen_cases (b : Bytes) :
    findRequestLen b b.length = .ok (-1) ∨ ∃ n : Nat, findRequestLen b b.length = .ok (n : Int) ∧ 4 ≤ n ∧ n ≤ b.length := by
  rcases findRequestLen_spec b with ⟨h, _⟩ | ⟨p, h, hp, _, _⟩
  · exact .inl h
  · exact .inr ⟨p + 4, h, by omega, hp⟩

/-- a natural-number result is `p + 4` for the first window `p` equal to CR LF CR LF -/
theorem findRequestLen_nat (b : Bytes) (n : Nat) (h : findRequestLen b b.length = .ok (n : Int)) :
    ∃ p : Nat, n = p + 4 ∧ p + 4 ≤ b.length ∧ win b p 4 = CRLFCRLF ∧
      ∀ k : Nat, k < p → win b k 4 ≠ CRLFCRLF := by
  rcases findRequestLen_spec b with ⟨h', _⟩ | ⟨p, h', hp, hw, hk⟩
  · rw [h'] at h
    injection h with h
    omega
  · rw [h'] at h
    injection h with h
    exact ⟨p, by omega, hp, hw, hk⟩

theorem findRequestLen_bounds (b : Bytes) (n : Nat) (h : findRequestLen b b.length = .ok (n : Int)) :
    4 ≤ n ∧ n ≤ b.length := by
  obtain ⟨p, h1, h2, _, _⟩ := findRequestLen_nat b n h
  omega

/-- the first complete request stays the first when more bytes follow -/
theorem findRequestLen_append (b c : Bytes) (n : Nat) (h : findRequestLen b b.length = .ok (n : Int)) :
    findRequestLen (b ++ c) (b ++ c).length = .ok (n : Int) := by
  obtain ⟨p, hn, hp, hw, hk⟩ := findRequestLen_nat b n h
  have hl : CRLFCRLF.length = 4 := rfl
  have hf : find (b ++ c) 0 ((b ++ c).length : Int) CRLFCRLF = .ok (some p) := by
    apply find_eq_some
    · omega
    · omega
    · rw [hl]; simp; omega
    · rw [hl, win_append_left b c p 4 hp]; exact hw
    · intro k _ hkp
      rw [hl, win_append_left b c k 4 (by omega)]
      exact hk k hkp
  unfold findRequestLen
  rw [hf]
  dsimp only
  congr 1
  omega

/-- the parser reads only the request it is given -/
theorem parseRequest_append (b c : Bytes) (n : Nat) (h : n ≤ b.length) : parseRequest (b ++ c) n = parseRequest b n := by
  rw [← parseRequest_take (b ++ c) n (by simp; omega), ← parseRequest_take b n h,
    List.take_append_of_le_length h]

/-! ### one step of `scan` -/

theorem scan_succ_more (f : Nat) (b : Bytes) (h : findRequestLen b b.length = .ok (-1)) :
    scan (f + 1) b = ([], some b) := by
  unfold scan
  rw [h]
  simp

theorem scan_succ_req (f : Nat) (b : Bytes) (n : Nat) (req : Request) (rw : Rewritten)
    (h1 : findRequestLen b b.length = .ok (n : Int)) (h2 : parseRequest b n = .ok req)
    (h3 : rewrite req = .ok rw) :
    scan (f + 1) b = (rw :: (scan f (b.drop n)).1, (scan f (b.drop n)).2) := by
  conv => lhs; unfold scan
  rw [h1]
  dsimp only
  rw [if_neg (by omega), Int.toNat_natCast, h2]
  dsimp only
  rw [h3]

theorem scan_succ_bad_parse (f : Nat) (b : Bytes) (n : Nat)
    (h1 : findRequestLen b b.length = .ok (n : Int)) (h2 : ∀ req, parseRequest b n ≠ .ok req) :
    scan (f + 1) b = ([], none) := by
  unfold scan
  rw [h1]
  dsimp only
  rw [if_neg (by omega), Int.toNat_natCast]
  split
  · rename_i req hreq
    exact absurd hreq (h2 req)
  · rfl

theorem scan_succ_bad_rewrite (f : Nat) (b : Bytes) (n : Nat) (req : Request)
    (h1 : findRequestLen b b.length = .ok (n : Int)) (h2 : parseRequest b n = .ok req)
    (h3 : rewrite req = .error ()) : scan (f + 1) b = ([], none) := by
  unfold scan
  rw [h1]
  dsimp only
  rw [if_neg (by omega), Int.toNat_natCast, h2]
  dsimp only
  rw [h3]

/-- the case analysis every proof below performs -/
theorem scan_cases (b : Bytes) :
    findRequestLen b b.length = .ok (-1) ∨
    (∃ n : Nat, findRequestLen b b.length = .ok (n : Int) ∧ 4 ≤ n ∧ n ≤ b.length ∧
      ((∀ req, parseRequest b n ≠ .ok req) ∨
       (∃ req, parseRequest b n = .ok req ∧
         (rewrite req = .error () ∨ ∃ rw, rewrite req = .ok rw)))) := by
  rcases findRequestLen_cases b with h | ⟨n, h, h4, hn⟩
  · exact .inl h
  · right
    refine ⟨n, h, h4, hn, ?_⟩
    cases hp : parseRequest b n with
    | ok req =>
      right
      refine ⟨req, rfl, ?_⟩
      cases hr : rewrite req with
      | ok rw => exact .inr ⟨rw, rfl⟩
      | error e => exact .inl rfl
    | parseFailed => left; intro req hc; cases hc
    | oob => left; intro req hc; cases hc

/-! ### fuel -/

theorem scan_fuel_eq : ∀ (f g : Nat) (b : Bytes), b.length + 1 ≤ f → b.length + 1 ≤ g →
    scan f b = scan g b := by
  intro f
  induction f with
  | zero => intro g b h; omega
  | succ f ih =>
    intro g b hf hg
    obtain ⟨g, rfl⟩ : ∃ g', g = g' + 1 := ⟨g - 1, by omega⟩
    rcases scan_cases b with h | ⟨n, h1, h4, hn, hbad | ⟨req, h2, h3 | ⟨rw, h3⟩⟩⟩
    · rw [scan_succ_more f b h, scan_succ_more g b h]
    · rw [scan_succ_bad_parse f b n h1 hbad, scan_succ_bad_parse g b n h1 hbad]
    · rw [scan_succ_bad_rewrite f b n req h1 h2 h3, scan_succ_bad_rewrite g b n req h1 h2 h3]
    · rw [scan_succ_req f b n req rw h1 h2 h3, scan_succ_req g b n req rw h1 h2 h3]
      have hl : (b.drop n).length = b.length - n := by simp
      rw [ih g (b.drop n) (by omega) (by omega)]

/-- more fuel than bytes changes nothing -/
theorem scan_fuel (f : Nat) (b : Bytes) (h : b.length + 1 ≤ f) : scan f b = scan (b.length + 1) b :=
  scan_fuel_eq f (b.length + 1) b h (Nat.le_refl _)

/-! ### one step of the scan, as the proxy's loop performs it -/

theorem scan_step_more (b : Bytes) (h : findRequestLen b b.length = .ok (-1)) : scan (b.length + 1) b = ([], some b) :=
  scan_succ_more _ b h

theorem scan_step_req (b : Bytes) (n : Nat) (req : Request) (rw : Rewritten)
    (h1 : findRequestLen b b.length = .ok (n : Int)) (h2 : parseRequest b n = .ok req) (h3 : rewrite req = .ok rw) :
    scan (b.length + 1) b = (rw :: (scan ((b.drop n).length + 1) (b.drop n)).1, (scan ((b.drop n).length + 1) (b.drop n)).2) := by
  have hb := findRequestLen_bounds b n h1
  have hl : (b.drop n).length = b.length - n := by simp
  rw [scan_succ_req _ b n req rw h1 h2 h3, scan_fuel b.length (b.drop n) (by omega)]

theorem scan_step_bad_parse (b : Bytes) (n : Nat) (h1 : findRequestLen b b.length = .ok (n : Int))
    (h2 : ∀ req, parseRequest b n ≠ .ok req) : scan (b.length + 1) b = ([], none) :=
  scan_succ_bad_parse _ b n h1 h2

theorem scan_step_bad_rewrite (b : Bytes) (n : Nat) (req : Request) (h1 : findRequestLen b b.length = .ok (n : Int))
    (h2 : parseRequest b n = .ok req) (h3 : rewrite req = .error ()) : scan (b.length + 1) b = ([], none) :=
  scan_succ_bad_rewrite _ b n req h1 h2 h3

/-! ### the incomplete rest -/

theorem scan_tail_aux : ∀ (k : Nat) (b t : Bytes) (l : List Rewritten), b.length ≤ k →
    scan (b.length + 1) b = (l, some t) →
    findRequestLen t t.length = .ok (-1) ∧ ∃ pre, b = pre ++ t := by
  intro k
  induction k with
  | zero =>
    intro b t l hk h
    rcases scan_cases b with h0 | ⟨n, h1, h4, hn, _⟩
    · rw [scan_step_more b h0] at h
      simp only [Prod.mk.injEq, Option.some.injEq] at h
      obtain ⟨_, rfl⟩ := h
      exact ⟨h0, [], rfl⟩
    · omega
  | succ k ih =>
    intro b t l hk h
    rcases scan_cases b with h0 | ⟨n, h1, h4, hn, hbad | ⟨req, h2, h3 | ⟨rw, h3⟩⟩⟩
    · rw [scan_step_more b h0] at h
      simp only [Prod.mk.injEq, Option.some.injEq] at h
      obtain ⟨_, rfl⟩ := h
      exact ⟨h0, [], rfl⟩
    · rw [scan_step_bad_parse b n h1 hbad] at h
      simp at h
    · rw [scan_step_bad_rewrite b n req h1 h2 h3] at h
      simp at h
    · rw [scan_step_req b n req rw h1 h2 h3] at h
      simp only [Prod.mk.injEq] at h
      obtain ⟨_, ht⟩ := h
      have hl : (b.drop n).length = b.length - n := by simp
      obtain ⟨hA, pre, hpre⟩ := ih (b.drop n) t _ (by omega) (Prod.ext rfl ht)
      refine ⟨hA, b.take n ++ pre, ?_⟩
      rw [List.append_assoc, ← hpre, List.take_append_drop]

/-- the incomplete rest has no complete request in it, and it is a suffix of the input -/
theorem scan_tail (f : Nat) (b t : Bytes) (l : List Rewritten) (hf : b.length + 1 ≤ f) (h : scan f b = (l, some t)) :
    findRequestLen t t.length = .ok (-1) ∧ ∃ pre, b = pre ++ t := by
  rw [scan_fuel f b hf] at h
  exact scan_tail_aux b.length b t l (Nat.le_refl _) h

/-! ### segmentation independence -/

theorem scan_append_aux : ∀ (k : Nat) (b c t : Bytes) (l : List Rewritten), b.length ≤ k →
    scan (b.length + 1) b = (l, some t) →
    scan ((b ++ c).length + 1) (b ++ c) =
      (l ++ (scan ((t ++ c).length + 1) (t ++ c)).1, (scan ((t ++ c).length + 1) (t ++ c)).2) := by
  intro k
  induction k with
  | zero =>
    intro b c t l hk h
    rcases scan_cases b with h0 | ⟨n, h1, h4, hn, _⟩
    · rw [scan_step_more b h0] at h
      simp only [Prod.mk.injEq, Option.some.injEq] at h
      obtain ⟨rfl, rfl⟩ := h
      rfl
    · omega
  | succ k ih =>
    intro b c t l hk h
    rcases scan_cases b with h0 | ⟨n, h1, h4, hn, hbad | ⟨req, h2, h3 | ⟨rw, h3⟩⟩⟩
    · rw [scan_step_more b h0] at h
      simp only [Prod.mk.injEq, Option.some.injEq] at h
      obtain ⟨rfl, rfl⟩ := h
      rfl
    · rw [scan_step_bad_parse b n h1 hbad] at h
      simp at h
    · rw [scan_step_bad_rewrite b n req h1 h2 h3] at h
      simp at h
    · rw [scan_step_req b n req rw h1 h2 h3] at h
      simp only [Prod.mk.injEq] at h
      obtain ⟨hl1, ht⟩ := h
      have hl : (b.drop n).length = b.length - n := by simp
      have hrec := ih (b.drop n) c t _ (by omega) (Prod.ext rfl ht)
      have h1' := findRequestLen_append b c n h1
      have h2' : parseRequest (b ++ c) n = .ok req := by rw [parseRequest_append b c n hn]; exact h2
      rw [scan_step_req (b ++ c) n req rw h1' h2' h3, List.drop_append_of_le_length hn, hrec, ← hl1]
      rfl

/-- SEGMENTATION INDEPENDENCE of the reading: scanning `b ++ c` = scanning `b`, then scanning (rest of b) ++ c -/
theorem scan_append (b c t : Bytes) (l : List Rewritten) (h : scan (b.length + 1) b = (l, some t)) :
    scan ((b ++ c).length + 1) (b ++ c) = (l ++ (scan ((t ++ c).length + 1) (t ++ c)).1, (scan ((t ++ c).length + 1) (t ++ c)).2) :=
  scan_append_aux b.length b c t l (Nat.le_refl _) h

end SimVerif.HttpProxy

section
open SimVerif.HttpProxy
end
