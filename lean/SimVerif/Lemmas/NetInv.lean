/-
  SimVerif.Lemmas.NetInv — the registry invariant of one protocol (`PInv`: one endpoint table
  against the open/bound state of that protocol's sockets) and the forwarder invariant
  (`FInv`: the forwarder table against the forwarder ids the sockets of both protocols hold),
  with one preservation lemma per elementary change (close, open, bind, new, remove, move,
  attach). Everything here is about plain tables and functions; the mechanism functions are
  connected to these changes in Lemmas/NetRun.lean.
-/
import SimVerif.Lemmas.NetBasic

namespace SimVerif

/-- `tbl` : endpoint ↦ name; `sv name` : (is open, bound endpoint) of the live sockets;
    `att` : names whose endpoint was handed to them by an accept (no entry of their own). -/
structure PInv (tbl : List (Ep × String)) (sv : String → Option (Bool × Ep)) (att : List String) : Prop where
  nodup    : (tbl.map Prod.fst).Nodup
  sound    : ∀ ep nm, (ep, nm) ∈ tbl → sv nm = some (true, ep) ∧ ep.isDefault = false
  complete : ∀ nm ep, sv nm = some (true, ep) → ep.isDefault = false → nm ∉ att → (ep, nm) ∈ tbl
  att_none : ∀ nm, nm ∈ att → ∀ ep, (ep, nm) ∉ tbl
  att_bound : ∀ nm, nm ∈ att → ∃ ep, sv nm = some (true, ep) ∧ ep.isDefault = false
  closed   : ∀ nm ep, sv nm = some (false, ep) → ep = {}
  addr     : ∀ nm o ep, sv nm = some (o, ep) → ep.isDefault = false → ep.addr ≠ "0.0.0.0"

theorem Ep.default_isDefault : ({} : Ep).isDefault = true := by decide

theorem PInv.init : PInv [] (fun _ => none) [] := by
  constructor <;> simp

theorem PInv.close {tbl sv att} (h : PInv tbl sv att) (nm : String) (o : Bool) (b : Ep)
    (hs : sv nm = some (o, b)) :
    PInv (if b.isDefault then tbl else simUnbind tbl nm b) (setS sv nm (some (false, {})))
      (att.filter (· != nm)) := by
  have hsub : ∀ e, e ∈ (if b.isDefault then tbl else simUnbind tbl nm b) →
      e ∈ tbl ∧ (b.isDefault = false → ¬(e.1 = b ∧ e.2 = nm)) := by
    intro e he
    split at he
    · exact ⟨he, by simp_all⟩
    · rw [mem_simUnbind] at he; exact ⟨he.1, fun _ => he.2⟩
  constructor
  · split
    · exact h.nodup
    · exact keys_nodup_simUnbind _ _ _ h.nodup
  · intro ep x hx
    obtain ⟨h1, h2⟩ := hsub _ hx
    have hs1 := h.sound ep x h1
    refine ⟨?_, hs1.2⟩
    by_cases hxn : x = nm
    · subst hxn
      rw [hs] at hs1
      simp only [Option.some.injEq, Prod.mk.injEq] at hs1
      obtain ⟨⟨_, hb⟩, hd⟩ := hs1
      subst hb
      exact absurd ⟨rfl, rfl⟩ (h2 hd)
    · rw [setS_other _ _ _ _ hxn]; exact hs1.1
  · intro x ep hx hd hatt
    by_cases hxn : x = nm
    · subst hxn; simp at hx
    · rw [setS_other _ _ _ _ hxn] at hx
      have hatt' : x ∉ att := by
        intro hc; apply hatt; simp [List.mem_filter, hc, hxn]
      have := h.complete x ep hx hd hatt'
      split
      · exact this
      · rw [mem_simUnbind]; exact ⟨this, by simp [hxn]⟩
  · intro x hx ep hm
    simp only [List.mem_filter] at hx
    exact h.att_none x hx.1 ep (hsub _ hm).1
  · intro x hx
    simp only [List.mem_filter, bne_iff_ne, ne_eq] at hx
    obtain ⟨ep, h1, h2⟩ := h.att_bound x hx.1
    exact ⟨ep, by rw [setS_other _ _ _ _ hx.2]; exact h1, h2⟩
  · intro x ep hx
    by_cases hxn : x = nm
    · subst hxn; simp at hx; exact hx.symm
    · rw [setS_other _ _ _ _ hxn] at hx; exact h.closed x ep hx
  · intro x o' ep hx hd
    by_cases hxn : x = nm
    · subst hxn; simp at hx; rw [← hx.2] at hd; simp [Ep.default_isDefault] at hd
    · rw [setS_other _ _ _ _ hxn] at hx; exact h.addr x o' ep hx hd

/-- `ft` : forwarder id ↦ the socket it reaches (`none`: detached or not allocated);
    `flen` : number of forwarders allocated so far; `su` / `st` : (is open, forwarder id held)
    of the live UDP / TCP objects. -/
structure FInv (ft : Nat → Option String) (flen : Nat)
    (su st : String → Option (Bool × Option Nat)) : Prop where
  lt    : ∀ g x, ft g = some x → g < flen
  fu    : ∀ x o f, su x = some (o, some f) → ft f = some x
  ftc   : ∀ x o f, st x = some (o, some f) → ft f = some x
  back  : ∀ f x, ft f = some x → (∃ o, su x = some (o, some f)) ∨ (∃ o, st x = some (o, some f))
  openU : ∀ x o f, su x = some (o, f) → o = f.isSome
  openT : ∀ x o f, st x = some (o, f) → o = f.isSome
  disj  : ∀ x, su x ≠ none → st x = none

theorem FInv.init : FInv (fun _ => none) 0 (fun _ => none) (fun _ => none) := by
  constructor <;> simp

/-- the two protocols play symmetric roles -/
theorem FInv.swap {ft flen su st} (h : FInv ft flen su st) : FInv ft flen st su := by
  obtain ⟨h1, h2, h3, h4, h5, h6, h7⟩ := h
  constructor
  · exact h1
  · exact h3
  · exact h2
  · intro f x hx; exact (h4 f x hx).symm
  · exact h6
  · exact h5
  · intro x hx
    cases hu : su x with
    | none => rfl
    | some v => exact absurd (h7 x (by simp [hu])) hx

end SimVerif
