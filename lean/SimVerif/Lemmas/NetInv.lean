/-
  SimVerif.Lemmas.NetInv — the registry invariant of one protocol (`PInv`: one endpoint table
  against the open/bound state of that protocol's sockets) and the forwarder invariant
  (`FInv`: the forwarder table against the forwarder ids the sockets of both protocols hold),
  with one preservation lemma per elementary change (close, open, bind, new, remove, move,
  attach). Everything here is about plain tables and functions; the mechanism functions are
  connected to these changes in Lemmas/NetRun.lean.
-/
import SimVerif.Lemmas.NetBasic

namespace SimVerif

/-- `tbl` : endpoint ↦ name; `sv name` : (is open, bound endpoint) of the live sockets;
    `att` : names whose endpoint was handed to them by an accept (no entry of their own). -/
structure PInv (tbl : List (Ep × String)) (sv : String → Option (Bool × Ep)) (att : List String) : Prop where
  nodup    : (tbl.map Prod.fst).Nodup
  sound    : ∀ ep nm, (ep, nm) ∈ tbl → sv nm = some (true, ep) ∧ ep.isDefault = false
  complete : ∀ nm ep, sv nm = some (true, ep) → ep.isDefault = false → nm ∉ att → (ep, nm) ∈ tbl
  att_none : ∀ nm, nm ∈ att → ∀ ep, (ep, nm) ∉ tbl
  att_bound : ∀ nm, nm ∈ att → ∃ ep, sv nm = some (true, ep) ∧ ep.isDefault = false
  closed   : ∀ nm ep, sv nm = some (false, ep) → ep = {}
  addr     : ∀ nm o ep, sv nm = some (o, ep) → ep.isDefault = false → ep.addr ≠ "0.0.0.0"
  ports    : ∀ ep nm, (ep, nm) ∈ tbl → 1024 ≤ ep.port

theorem Ep.default_isDefault : ({} : Ep).isDefault = true := by decide

theorem PInv.init : PInv [] (fun _ => none) [] := by
  constructor <;> simp

theorem PInv.close {tbl sv att} (h : PInv tbl sv att) (nm : String) (o : Bool) (b : Ep)
    (hs : sv nm = some (o, b)) :
    PInv (if b.isDefault then tbl else simUnbind tbl nm b) (setS sv nm (some (false, {})))
      (att.filter (· != nm)) := by
  have hsub : ∀ e, e ∈ (if b.isDefault then tbl else simUnbind tbl nm b) →
      e ∈ tbl ∧ (b.isDefault = false → ¬(e.1 = b ∧ e.2 = nm)) := by
    intro e he
    split at he
    · exact ⟨he, by simp_all⟩
    · rw [mem_simUnbind] at he; exact ⟨he.1, fun _ => he.2⟩
  constructor
  · split
    · exact h.nodup
    · exact keys_nodup_simUnbind _ _ _ h.nodup
  · intro ep x hx
    obtain ⟨h1, h2⟩ := hsub _ hx
    have hs1 := h.sound ep x h1
    refine ⟨?_, hs1.2⟩
    by_cases hxn : x = nm
    · subst hxn
      rw [hs] at hs1
      simp only [Option.some.injEq, Prod.mk.injEq] at hs1
      obtain ⟨⟨_, hb⟩, hd⟩ := hs1
      subst hb
      exact absurd ⟨rfl, rfl⟩ (h2 hd)
    · rw [setS_other _ _ _ _ hxn]; exact hs1.1
  · intro x ep hx hd hatt
    by_cases hxn : x = nm
    · subst hxn; simp at hx
    · rw [setS_other _ _ _ _ hxn] at hx
      have hatt' : x ∉ att := by
        intro hc; apply hatt; simp [List.mem_filter, hc, hxn]
      have := h.complete x ep hx hd hatt'
      split
      · exact this
      · rw [mem_simUnbind]; exact ⟨this, by simp [hxn]⟩
  · intro x hx ep hm
    simp only [List.mem_filter] at hx
    exact h.att_none x hx.1 ep (hsub _ hm).1
  · intro x hx
    simp only [List.mem_filter, bne_iff_ne, ne_eq] at hx
    obtain ⟨ep, h1, h2⟩ := h.att_bound x hx.1
    exact ⟨ep, by rw [setS_other _ _ _ _ hx.2]; exact h1, h2⟩
  · intro x ep hx
    by_cases hxn : x = nm
    · subst hxn; simp at hx; exact hx.symm
    · rw [setS_other _ _ _ _ hxn] at hx; exact h.closed x ep hx
  · intro x o' ep hx hd
    by_cases hxn : x = nm
    · subst hxn; simp at hx; rw [← hx.2] at hd; simp [Ep.default_isDefault] at hd
    · rw [setS_other _ _ _ _ hxn] at hx; exact h.addr x o' ep hx hd
  · intro ep x hx; exact h.ports ep x (hsub _ hx).1

theorem PInv.opened {tbl sv att} (h : PInv tbl sv att) (nm : String) (b : Ep)
    (hs : sv nm = some (false, b)) :
    PInv tbl (setS sv nm (some (true, {}))) att := by
  have hd := Ep.default_isDefault
  obtain ⟨h1, h2, h3, h4, h5, h6, h7, h8⟩ := h
  constructor
  · exact h1
  · intro ep x hx; have := h2 ep x hx; grind [setS]
  · intro x ep hx; grind [setS]
  · exact h4
  · intro x hx; have := h5 x hx; grind [setS]
  · intro x ep hx; grind [setS]
  · intro x o ep hx; grind [setS]
  · exact h8

/-- a successful bind: a free, concrete, non-default endpoint is appended -/
theorem PInv.bind {tbl sv att} (h : PInv tbl sv att) (nm : String) (b ep : Ep)
    (hs : sv nm = some (true, b)) (hb : b.isDefault = true) (hfree : tbl.lookup ep = none)
    (hnd : ep.isDefault = false) (haddr : ep.addr ≠ "0.0.0.0") (hport : 1024 ≤ ep.port) :
    PInv (tbl ++ [(ep, nm)]) (setS sv nm (some (true, ep))) att := by
  obtain ⟨h1, h2, h3, h4, h5, h6, h7, h8⟩ := h
  have hfree' := (lookup_none_iff tbl ep).mp hfree
  have hnatt : nm ∉ att := by
    intro hc; obtain ⟨e, he1, he2⟩ := h5 nm hc; grind
  constructor
  · rw [List.map_append, List.nodup_append]
    refine ⟨h1, by simp, ?_⟩
    intro a ha b' hb'
    simp at hb'; subst hb'
    intro hab; subst hab
    obtain ⟨⟨a1, a2⟩, hm, rfl⟩ := List.mem_map.mp ha
    exact hfree' a2 hm
  · intro e x hx
    rw [List.mem_append] at hx
    rcases hx with hx | hx
    · have := h2 e x hx; grind [setS]
    · simp at hx; grind [setS]
  · intro x e hx hd hatt
    rw [List.mem_append]
    by_cases hxn : x = nm
    · right; grind [setS]
    · left; grind [setS]
  · intro x hx e hm
    rw [List.mem_append] at hm
    rcases hm with hm | hm
    · exact h4 x hx e hm
    · simp at hm; grind
  · intro x hx; have := h5 x hx; grind [setS]
  · intro x e hx; grind [setS]
  · intro x o e hx; grind [setS]
  · intro e x hx
    rw [List.mem_append] at hx
    rcases hx with hx | hx
    · exact h8 e x hx
    · simp at hx; rw [hx.1]; exact hport

theorem PInv.remove {tbl sv att} (h : PInv tbl sv att) (nm : String) (b : Ep)
    (hs : sv nm = some (false, b)) : PInv tbl (setS sv nm none) att := by
  obtain ⟨h1, h2, h3, h4, h5, h6, h7, h8⟩ := h
  constructor
  · exact h1
  · intro ep x hx; have := h2 ep x hx; grind [setS]
  · intro x ep hx; grind [setS]
  · exact h4
  · intro x hx; have := h5 x hx; grind [setS]
  · intro x ep hx; grind [setS]
  · intro x o ep hx; grind [setS]
  · exact h8

theorem PInv.new {tbl sv att} (h : PInv tbl sv att) (nm : String)
    (hs : sv nm = none) : PInv tbl (setS sv nm (some (false, {}))) att := by
  have hd := Ep.default_isDefault
  obtain ⟨h1, h2, h3, h4, h5, h6, h7, h8⟩ := h
  constructor
  · exact h1
  · intro ep x hx; have := h2 ep x hx; grind [setS]
  · intro x ep hx; grind [setS]
  · exact h4
  · intro x hx; have := h5 x hx; grind [setS]
  · intro x ep hx; grind [setS]
  · intro x o ep hx; grind [setS]
  · exact h8

/-- an accepted socket receives the acceptor's endpoint without an entry -/
theorem PInv.attach {tbl sv att att'} (h : PInv tbl sv att) (nm : String) (b ep : Ep)
    (hs : sv nm = some (true, b)) (hb : b.isDefault = true)
    (hnd : ep.isDefault = false) (haddr : ep.addr ≠ "0.0.0.0")
    (hatt : ∀ x, x ∈ att' ↔ x = nm ∨ x ∈ att) :
    PInv tbl (setS sv nm (some (true, ep))) att' := by
  obtain ⟨h1, h2, h3, h4, h5, h6, h7, h8⟩ := h
  have hnone : ∀ e, (e, nm) ∉ tbl := by
    intro e hm; have := h2 e nm hm; grind
  constructor
  · exact h1
  · intro e x hx; have := h2 e x hx; grind [setS]
  · intro x e hx hd hx'; have := hatt x; grind [setS]
  · intro x hx e hm; have := hatt x; grind
  · intro x hx; have := hatt x
    by_cases hxn : x = nm
    · exact ⟨ep, by grind [setS], hnd⟩
    · have := h5 x (by grind); grind [setS]
  · intro x e hx; grind [setS]
  · intro x o e hx; grind [setS]
  · exact h8

def rebind (tbl : List (Ep × String)) (b : Ep) (src dst : String) : List (Ep × String) :=
  tbl.map (fun e => if e.1 == b && e.2 == src then (e.1, dst) else e)

theorem rebind_keys (tbl : List (Ep × String)) (b : Ep) (src dst : String) :
    (rebind tbl b src dst).map Prod.fst = tbl.map Prod.fst := by
  unfold rebind
  rw [List.map_map]
  apply List.map_congr_left
  intro e _
  simp only [Function.comp]
  split <;> rfl

theorem mem_rebind (tbl : List (Ep × String)) (b : Ep) (src dst : String) (ep : Ep) (x : String) :
    (ep, x) ∈ rebind tbl b src dst ↔
      ((ep, x) ∈ tbl ∧ ¬(ep = b ∧ x = src)) ∨ (ep = b ∧ x = dst ∧ (b, src) ∈ tbl) := by
  unfold rebind
  rw [List.mem_map]
  constructor
  · rintro ⟨⟨e1, e2⟩, hm, he⟩
    by_cases hc : e1 = b ∧ e2 = src
    · obtain ⟨rfl, rfl⟩ := hc
      simp at he
      right; exact ⟨he.1.symm, he.2.symm, hm⟩
    · have : (e1 == b && e2 == src) = false := by
        simp only [Bool.and_eq_false_iff, beq_eq_false_iff_ne]
        by_cases h1 : e1 = b
        · right; exact fun h2 => hc ⟨h1, h2⟩
        · left; exact h1
      simp [this] at he
      obtain ⟨rfl, rfl⟩ := he
      left; exact ⟨hm, hc⟩
  · rintro (⟨hm, hc⟩ | ⟨rfl, rfl, hm⟩)
    · refine ⟨(ep, x), hm, ?_⟩
      have : (ep == b && x == src) = false := by
        simp only [Bool.and_eq_false_iff, beq_eq_false_iff_ne]
        by_cases h1 : ep = b
        · right; exact fun h2 => hc ⟨h1, h2⟩
        · left; exact h1
      simp [this]
    · exact ⟨(ep, src), hm, by simp⟩

theorem PInv.move {tbl sv att} (h : PInv tbl sv att) (src dst : String) (o : Bool) (b : Ep)
    (hs : sv src = some (o, b)) (hd : sv dst = none) :
    PInv (if b.isDefault then tbl else rebind tbl b src dst)
      (setS (setS sv dst (some (o, b))) src (some (false, {})))
      (att.map (fun x => if x = src then dst else x)) := by
  have hdef := Ep.default_isDefault
  obtain ⟨h1, h2, h3, h4, h5, h6, h7, h8⟩ := h
  have hne : src ≠ dst := by intro hc; subst hc; simp [hs] at hd
  have hdatt : dst ∉ att := by
    intro hc; obtain ⟨e, he1, _⟩ := h5 dst hc; simp [hd] at he1
  have hdtbl : ∀ e, (e, dst) ∉ tbl := by
    intro e hm; have := h2 e dst hm; simp [hd] at this
  have hmem : ∀ ep x, (ep, x) ∈ (if b.isDefault then tbl else rebind tbl b src dst) ↔
      (b.isDefault = true ∧ (ep, x) ∈ tbl) ∨ (b.isDefault = false ∧
        (((ep, x) ∈ tbl ∧ ¬(ep = b ∧ x = src)) ∨ (ep = b ∧ x = dst ∧ (b, src) ∈ tbl))) := by
    intro ep x
    split
    · simp_all
    · rw [mem_rebind]; simp_all
  have hattm : ∀ x, x ∈ att.map (fun x => if x = src then dst else x) ↔
      (x ≠ src ∧ x ∈ att) ∨ (x = dst ∧ src ∈ att) := by
    intro x
    rw [List.mem_map]
    constructor
    · rintro ⟨y, hy, rfl⟩
      by_cases hys : y = src
      · subst hys; simp [hy]
      · simp [hys, hy]
    · rintro (⟨hx, hm⟩ | ⟨rfl, hm⟩)
      · exact ⟨x, hm, by simp [hx]⟩
      · exact ⟨src, hm, by simp⟩
  constructor
  · split
    · exact h1
    · rw [rebind_keys]; exact h1
  · intro ep x hx
    rw [hmem] at hx
    rcases hx with ⟨hbd, hx⟩ | ⟨hbd, ⟨hx, hc⟩ | ⟨rfl, rfl, hx⟩⟩
    · have := h2 ep x hx; grind [setS]
    · have := h2 ep x hx; have := hdtbl ep; grind [setS]
    · have := h2 _ _ hx; grind [setS]
  · intro x ep hx hnd hxatt
    rw [hmem]; rw [hattm] at hxatt
    by_cases hbd : b.isDefault = true
    · left; refine ⟨hbd, ?_⟩
      by_cases hxd : x = dst
      · subst hxd; grind [setS]
      · have := h3 x ep; grind [setS]
    · right
      have hbd' : b.isDefault = false := by simpa using hbd
      refine ⟨hbd', ?_⟩
      by_cases hxd : x = dst
      · subst hxd; right
        have := h3 src b; grind [setS]
      · left
        have := h3 x ep; grind [setS]
  · intro x hx ep hm
    rw [hattm] at hx; rw [hmem] at hm
    have := h4 x; have := h4 src; have := h2 ep x; grind
  · intro x hx
    rw [hattm] at hx
    rcases hx with ⟨hxs, hx⟩ | ⟨rfl, hx⟩
    · obtain ⟨e, he1, he2⟩ := h5 x hx
      exact ⟨e, by grind [setS], he2⟩
    · obtain ⟨e, he1, he2⟩ := h5 src hx
      exact ⟨e, by grind [setS], he2⟩
  · intro x ep hx
    have := h6 x ep; have := h6 src b; grind [setS]
  · intro x o' ep hx
    have := h7 x o' ep; have := h7 src o b; grind [setS]
  · intro ep x hx
    rw [hmem] at hx
    rcases hx with ⟨_, hx⟩ | ⟨_, ⟨hx, _⟩ | ⟨rfl, _, hx⟩⟩
    · exact h8 ep x hx
    · exact h8 ep x hx
    · exact h8 _ _ hx

/-- `ft` : forwarder id ↦ the socket it reaches (`none`: detached or not allocated);
    `flen` : number of forwarders allocated so far; `su` / `st` : (is open, forwarder id held)
    of the live UDP / TCP objects. -/
structure FInv (ft : Nat → Option String) (flen : Nat)
    (su st : String → Option (Bool × Option Nat)) : Prop where
  lt    : ∀ g x, ft g = some x → g < flen
  fu    : ∀ x o f, su x = some (o, some f) → ft f = some x
  ftc   : ∀ x o f, st x = some (o, some f) → ft f = some x
  back  : ∀ f x, ft f = some x → (∃ o, su x = some (o, some f)) ∨ (∃ o, st x = some (o, some f))
  openU : ∀ x o f, su x = some (o, f) → o = f.isSome
  openT : ∀ x o f, st x = some (o, f) → o = f.isSome
  disj  : ∀ x, su x ≠ none → st x = none

theorem FInv.init : FInv (fun _ => none) 0 (fun _ => none) (fun _ => none) := by
  constructor <;> simp

/-- the two protocols play symmetric roles -/
theorem FInv.swap {ft flen su st} (h : FInv ft flen su st) : FInv ft flen st su := by
  obtain ⟨h1, h2, h3, h4, h5, h6, h7⟩ := h
  constructor
  · exact h1
  · exact h3
  · exact h2
  · intro f x hx; exact (h4 f x hx).symm
  · exact h6
  · exact h5
  · intro x hx
    cases hu : su x with
    | none => rfl
    | some v => exact absurd (h7 x (by simp [hu])) hx

/-- update of the forwarder a socket holds, if it holds one -/
def setFo {α : Type} (ft : Nat → α) (f : Option Nat) (v : α) : Nat → α :=
  match f with
  | some g => setF ft g v
  | none => ft

@[simp] theorem setFo_none {α : Type} (ft : Nat → α) (v : α) : setFo ft none v = ft := rfl
@[simp] theorem setFo_some {α : Type} (ft : Nat → α) (g : Nat) (v : α) : setFo ft (some g) v = setF ft g v := rfl

theorem FInv.close {ft flen su st} (h : FInv ft flen su st) (x : String) (o : Bool) (f : Option Nat)
    (hs : su x = some (o, f)) :
    FInv (setFo ft f none) flen (setS su x (some (false, none))) st := by
  obtain ⟨h1, h2, h3, h4, h5, h6, h7⟩ := h
  cases f with
  | none =>
    rw [setFo_none]
    constructor
    · exact h1
    · intro y o' g hy; have := h2 y o' g; grind [setS]
    · exact h3
    · intro g y hy; have := h4 g y hy; grind [setS]
    · intro y o' g hy; have := h5 y o' g; grind [setS]
    · exact h6
    · intro y hy; have := h7 y; have := h7 x; grind [setS]
  | some f0 =>
    have hx := h2 x o f0 hs
    rw [setFo_some]
    constructor
    · intro g y hy; have := h1 g y; grind [setF]
    · intro y o' g hy; have := h2 y o' g; grind [setS, setF]
    · intro y o' g hy; have := h3 y o' g; have := h7 x; grind [setS, setF]
    · intro g y hy; have := h4 g y; grind [setS, setF]
    · intro y o' g hy; have := h5 y o' g; grind [setS]
    · exact h6
    · intro y hy; have := h7 y; have := h7 x; grind [setS]

theorem FInv.opened {ft flen su st} (h : FInv ft flen su st) (x : String)
    (hs : su x = some (false, none)) :
    FInv (setF ft flen (some x)) (flen + 1) (setS su x (some (true, some flen))) st := by
  obtain ⟨h1, h2, h3, h4, h5, h6, h7⟩ := h
  have hfresh : ft flen = none := by
    cases hh : ft flen with
    | none => rfl
    | some y => have := h1 flen y hh; omega
  constructor
  · intro g y hy; have := h1 g y; grind [setF]
  · intro y o' g hy; have := h2 y o' g; grind [setS, setF]
  · intro y o' g hy; have := h3 y o' g; have := h7 x; grind [setS, setF]
  · intro g y hy
    by_cases hg : g = flen
    · subst hg; simp [setF] at hy; subst hy; left; exact ⟨true, by simp⟩
    · have := h4 g y; grind [setS, setF]
  · intro y o' g hy; have := h5 y o' g; grind [setS]
  · exact h6
  · intro y hy; have := h7 y; have := h7 x; grind [setS]

theorem FInv.remove {ft flen su st} (h : FInv ft flen su st) (x : String)
    (hs : su x = some (false, none)) : FInv ft flen (setS su x none) st := by
  obtain ⟨h1, h2, h3, h4, h5, h6, h7⟩ := h
  constructor
  · exact h1
  · intro y o' g hy; have := h2 y o' g; grind [setS]
  · exact h3
  · intro g y hy; have := h4 g y hy; grind [setS]
  · intro y o' g hy; have := h5 y o' g; grind [setS]
  · exact h6
  · intro y hy; have := h7 y; grind [setS]

theorem FInv.new {ft flen su st} (h : FInv ft flen su st) (x : String)
    (hs : su x = none) (ht : st x = none) : FInv ft flen (setS su x (some (false, none))) st := by
  obtain ⟨h1, h2, h3, h4, h5, h6, h7⟩ := h
  constructor
  · exact h1
  · intro y o' g hy; have := h2 y o' g; grind [setS]
  · exact h3
  · intro g y hy; have := h4 g y hy; grind [setS]
  · intro y o' g hy; have := h5 y o' g; grind [setS]
  · exact h6
  · intro y hy; have := h7 y; grind [setS]

theorem FInv.move {ft flen su st} (h : FInv ft flen su st) (src dst : String) (o : Bool) (f : Option Nat)
    (hs : su src = some (o, f)) (hd : su dst = none) (hdt : st dst = none) :
    FInv (setFo ft f (some dst)) flen
      (setS (setS su dst (some (o, f))) src (some (false, none))) st := by
  obtain ⟨h1, h2, h3, h4, h5, h6, h7⟩ := h
  have hne : src ≠ dst := by intro hc; subst hc; simp [hs] at hd
  cases f with
  | none =>
    rw [setFo_none]
    constructor
    · exact h1
    · intro y o' g hy; have := h2 y o' g; grind [setS]
    · exact h3
    · intro g y hy; have := h4 g y hy; grind [setS]
    · intro y o' g hy; have := h5 y o' g; have := h5 src o none; grind [setS]
    · exact h6
    · intro y hy; have := h7 y; grind [setS]
  | some f0 =>
    have hx := h2 src o f0 hs
    rw [setFo_some]
    constructor
    · intro g y hy; have := h1 g y; have := h1 f0 src; grind [setF]
    · intro y o' g hy; have := h2 y o' g; grind [setS, setF]
    · intro y o' g hy; have := h3 y o' g; have := h7 src; grind [setS, setF]
    · intro g y hy; have := h4 g y; grind [setS, setF]
    · intro y o' g hy; have := h5 y o' g; have := h5 src o (some f0); grind [setS]
    · exact h6
    · intro y hy; have := h7 y; grind [setS]

/-- a change of the objects that keeps every (is open, forwarder) pair -/
theorem FInv.congr {ft ft' flen su su' st st'} (h : FInv ft flen su st)
    (h1 : ft' = ft) (h2 : su' = su) (h3 : st' = st) : FInv ft' flen su' st' := by
  subst h1 h2 h3; exact h

end SimVerif
