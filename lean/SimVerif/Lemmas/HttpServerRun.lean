/-
  SimVerif.Lemmas.HttpServerRun — the mechanism (`on_read` / `on_write` / `read` /
  `close_connection` of SimVerif/HttpServer.lean, run by `serve`) refines the reference
  `specStream` for EVERY chunking of the client's byte stream.
-/
import SimVerif.HttpServerSys
import SimVerif.Lemmas.HttpServerBasic

namespace SimVerif.HttpServer

open SimVerif.Http

/-! ### the buffer after the transport stored the received bytes -/

/-- the state after the transport stored `data` at `&buf[used]` -/
def merged (s : Srv) (data : Bytes) : Srv :=
  { s with buf := s.buf.take s.used ++ data ++ s.buf.drop (s.used + data.length), used := s.used + data.length }

/-- the state after `erase(begin, begin + n); used -= n` -/
def erased (s : Srv) (n : Nat) : Srv := { s with buf := s.buf.drop n, used := s.used - n }

theorem pend_length (s : Srv) (hwf : s.wf) : s.pend.length = s.used := by
  unfold Srv.pend Srv.wf at *
  simp; omega

theorem merged_length (s : Srv) (data : Bytes) (hfit : s.used + data.length ≤ s.buf.length) :
    (merged s data).buf.length = s.buf.length := by
  simp [merged]; omega

theorem merged_take (s : Srv) (data : Bytes) (hfit : s.used + data.length ≤ s.buf.length) :
    (merged s data).buf.take (s.used + data.length) = s.pend ++ data := by
  have h1 : (s.buf.take s.used ++ data).length = s.used + data.length := by simp; omega
  simp only [merged, Srv.pend]
  rw [List.take_append_of_le_length (by omega), ← h1, List.take_length]

theorem firstBlank_none_frl (b : Bytes) (h : firstBlank b = none) :
    ∃ v, findRequestLen b (b.length : Int) = .ok v ∧ v < 0 := by
  obtain ⟨v, hv⟩ := C15_find_request_len_in_bounds b (b.length : Int) (by omega)
  unfold firstBlank at h
  rw [hv] at h
  simp at h
  exact ⟨v, hv, h⟩

theorem firstBlank_some_frl (b : Bytes) (n : Nat) (h : firstBlank b = some n) :
    findRequestLen b (b.length : Int) = .ok (n : Int) := by
  obtain ⟨v, hv⟩ := C15_find_request_len_in_bounds b (b.length : Int) (by omega)
  unfold firstBlank at h
  rw [hv] at h
  simp at h
  rw [hv]
  congr 1
  omega

theorem frl_merged (s : Srv) (data : Bytes) (hwf : s.wf) (hfit : s.used + data.length ≤ s.buf.length) :
    findRequestLen (merged s data).buf ((s.used + data.length : Nat) : Int)
      = findRequestLen (s.pend ++ data) ((s.pend ++ data).length : Int) := by
  rw [C15_find_request_len_reads_only_prefix _ _ (by rw [merged_length s data hfit]; exact hfit),
    merged_take s data hfit]
  have : (s.pend ++ data).length = s.used + data.length := by simp [pend_length s hwf]
  rw [this]

/-! ### `on_read` unfolded along `firstBlank` / `parseRequest` / `answer` -/

theorem onRead_none (s : Srv) (data : Bytes) (hwf : s.wf) (hfit : s.used + data.length ≤ s.buf.length)
    (hfb : firstBlank (s.pend ++ data) = none) :
    s.onRead .ok data = (merged s data).read := by
  obtain ⟨v, hv, hneg⟩ := firstBlank_none_frl _ hfb
  have h1 := frl_merged s data hwf hfit
  rw [hv] at h1
  unfold Srv.onRead
  rw [if_neg (by decide), if_neg (by omega)]
  simp only [merged] at h1 ⊢
  rw [h1]
  simp only
  rw [if_pos hneg]

theorem parse_merged (s : Srv) (data : Bytes) (n : Nat) (hwf : s.wf)
    (hfit : s.used + data.length ≤ s.buf.length) (hn : n ≤ s.used + data.length) :
    parseRequest (merged s data).buf n = parseRequest (s.pend ++ data) n := by
  have h : (merged s data).buf = (s.pend ++ data) ++ (merged s data).buf.drop (s.used + data.length) := by
    rw [← merged_take s data hfit, List.take_append_drop]
  rw [h, parseRequest_append _ _ _ (by simp [pend_length s hwf]; omega)]

theorem onRead_some (s : Srv) (data : Bytes) (n : Nat) (hwf : s.wf)
    (hfit : s.used + data.length ≤ s.buf.length)
    (hfb : firstBlank (s.pend ++ data) = some n) :
    s.onRead .ok data =
      match parseRequest (s.pend ++ data) n with
      | .oob => (merged s data, [.ub])
      | .parseFailed => (merged s data).closeConnection
      | .ok req =>
        match answer s req with
        | .stall => (erased (merged s data) n, [])
        | .fail => (erased (merged s data) n).closeConnection
        | .ub => (erased (merged s data) n, [.ub])
        | .respond r c => ({ erased (merged s data) n with sendBuf := r }, [.asyncWrite r c]) := by
  have hv := firstBlank_some_frl _ _ hfb
  have hb := firstBlank_bounds _ _ hfb
  have hlen : (s.pend ++ data).length = s.used + data.length := by simp [pend_length s hwf]
  rw [hlen] at hb
  have h1 := frl_merged s data hwf hfit
  rw [hv] at h1
  have h2 := parse_merged s data n hwf hfit hb.2
  have h3 := merged_length s data hfit
  unfold Srv.onRead
  rw [if_neg (by decide), if_neg (by omega)]
  simp only [merged, erased] at h1 h2 h3 ⊢
  rw [h1]
  simp only
  rw [if_neg (by omega)]
  simp only [Int.toNat_natCast]
  rw [h2]
  cases parseRequest (s.pend ++ data) n with
  | oob => rfl
  | parseFailed => rfl
  | ok req =>
    simp only
    rw [if_neg (by omega)]
    rw [answer_congr _ s (by simp [Srv.sameCfg])]
    rfl

theorem erased_pend (s : Srv) (data : Bytes) (n : Nat)
    (hfit : s.used + data.length ≤ s.buf.length) :
    (erased (merged s data) n).pend = (s.pend ++ data).drop n := by
  rw [← merged_take s data hfit]
  simp only [Srv.pend, erased, merged, List.drop_take]

theorem erased_wf (s : Srv) (data : Bytes) (n : Nat) 
    (hfit : s.used + data.length ≤ s.buf.length) :
    (erased (merged s data) n).wf := by
  have := merged_length s data hfit
  simp only [Srv.wf, erased, merged, List.length_drop] at this ⊢
  omega

/-! ### `read()` -/

theorem resize_length (b : Bytes) (n : Nat) : (resize b n).length = n := by
  simp [resize]; omega

theorem resize_take (b : Bytes) (n k : Nat) (h1 : k ≤ b.length) (h2 : k ≤ n) :
    (resize b n).take k = b.take k := by
  unfold resize
  rw [List.take_append_of_le_length (by simp; omega), List.take_take, Nat.min_eq_left h2]

theorem read_spec (t : Srv) (hwf : t.wf) :
    ∃ s', t.read = (s', [.asyncReadSome (s'.buf.length - s'.used)]) ∧
      s'.used < s'.buf.length ∧ s'.pend = t.pend ∧ t.sameCfg s' := by
  unfold Srv.wf at hwf
  unfold Srv.read
  dsimp only
  split
  · rename_i hge
    dsimp only
    rw [if_neg (by rw [resize_length]; omega)]
    refine ⟨_, rfl, ?_, ?_, ?_⟩
    · dsimp only; rw [resize_length]; omega
    · simp only [Srv.pend]
      exact resize_take _ _ _ hwf (by omega)
    · simp [Srv.sameCfg]
  · rename_i hlt
    rw [if_neg (by omega)]
    refine ⟨_, rfl, ?_, rfl, ?_⟩
    · omega
    · simp [Srv.sameCfg]

/-! ### one `on_read` = one `reqStep` on the pending bytes -/

theorem merged_wf (s : Srv) (data : Bytes) (hfit : s.used + data.length ≤ s.buf.length) :
    (merged s data).wf := by
  have := merged_length s data hfit
  simp only [Srv.wf, merged] at this ⊢
  omega

theorem merged_pend (s : Srv) (data : Bytes) (hfit : s.used + data.length ≤ s.buf.length) :
    (merged s data).pend = s.pend ++ data := by
  rw [← merged_take s data hfit]; rfl

theorem closeConnection_eq (t : Srv) :
    t.closeConnection = ({ t with buf := [], used := 0 }, closeActs t) := by
  simp only [Srv.closeConnection, closeActs]
  cases t.closing <;> simp

/-- no complete request: the bytes are kept and another read is started, with room for at
    least one byte -/
theorem onRead_more (s : Srv) (data : Bytes) (hwf : s.wf) (hfit : s.used + data.length ≤ s.buf.length)
    (h : reqStep s (s.pend ++ data) = .more) :
    ∃ s', s.onRead .ok data = (s', [.asyncReadSome (s'.buf.length - s'.used)]) ∧
      s'.used < s'.buf.length ∧ s'.pend = s.pend ++ data ∧ s.sameCfg s' := by
  have hfb : firstBlank (s.pend ++ data) = none := by
    unfold reqStep at h
    split at h
    · assumption
    · split at h
      · simp at h
      · simp at h
      · split at h <;> simp at h
  rw [onRead_none s data hwf hfit hfb]
  obtain ⟨s', h1, h2, h3, h4⟩ := read_spec (merged s data) (merged_wf s data hfit)
  refine ⟨s', h1, h2, by rw [h3, merged_pend s data hfit], ?_⟩
  simpa [Srv.sameCfg, merged] using h4

/-- parse failure or handler exception: `close_connection()`, nothing else -/
theorem onRead_fail (s : Srv) (data : Bytes) (hwf : s.wf) (hfit : s.used + data.length ≤ s.buf.length)
    (h : reqStep s (s.pend ++ data) = .fail) :
    s.onRead .ok data = ({ s with buf := [], used := 0 }, closeActs s) := by
  unfold reqStep at h
  split at h
  · simp at h
  · rename_i n hfb
    rw [onRead_some s data n hwf hfit hfb]
    generalize parseRequest (s.pend ++ data) n = p at h ⊢
    cases p with
    | oob => simp at h
    | parseFailed => rw [closeConnection_eq]; rfl
    | ok req =>
      simp only at h ⊢
      generalize answer s req = a at h ⊢
      cases a <;> simp at h
      simp only
      rw [closeConnection_eq]; rfl

/-- stalled path: the request is consumed, NO action at all -/
theorem onRead_stall (s : Srv) (data : Bytes) (rest : Bytes) (hwf : s.wf)
    (hfit : s.used + data.length ≤ s.buf.length)
    (h : reqStep s (s.pend ++ data) = .stall rest) :
    ∃ s', s.onRead .ok data = (s', []) ∧ s'.wf ∧ s'.pend = rest ∧ s.sameCfg s' := by
  unfold reqStep at h
  split at h
  · simp at h
  · rename_i n hfb
    rw [onRead_some s data n hwf hfit hfb]
    generalize parseRequest (s.pend ++ data) n = p at h ⊢
    cases p with
    | oob => simp at h
    | parseFailed => simp at h
    | ok req =>
      simp only at h ⊢
      generalize answer s req = a at h ⊢
      cases a <;> simp at h
      subst h
      exact ⟨_, rfl, erased_wf s data n hfit, erased_pend s data n hfit, by simp [Srv.sameCfg, erased, merged]⟩

/-- a response: the request is consumed, exactly one `async_write` of exactly the answer -/
theorem onRead_respond (s : Srv) (data : Bytes) (r : Bytes) (c : Bool) (rest : Bytes) (hwf : s.wf)
    (hfit : s.used + data.length ≤ s.buf.length)
    (h : reqStep s (s.pend ++ data) = .respond r c rest) :
    ∃ s', s.onRead .ok data = (s', [.asyncWrite r c]) ∧ s'.wf ∧ s'.pend = rest ∧ s.sameCfg s' := by
  unfold reqStep at h
  split at h
  · simp at h
  · rename_i n hfb
    rw [onRead_some s data n hwf hfit hfb]
    generalize parseRequest (s.pend ++ data) n = p at h ⊢
    cases p with
    | oob => simp at h
    | parseFailed => simp at h
    | ok req =>
      simp only at h ⊢
      generalize answer s req = a at h ⊢
      cases a <;> simp at h
      obtain ⟨rfl, rfl, rfl⟩ := h
      exact ⟨_, rfl, erased_wf s data n hfit, erased_pend s data n hfit, by simp [Srv.sameCfg, erased, merged]⟩

/-- undefined behaviour only where the reference has it (signed overflow in a handler) -/
theorem onRead_ub (s : Srv) (data : Bytes) (hwf : s.wf) (hfit : s.used + data.length ≤ s.buf.length)
    (h : reqStep s (s.pend ++ data) = .ub) :
    ∃ s', s.onRead .ok data = (s', [.ub]) := by
  unfold reqStep at h
  split at h
  · simp at h
  · rename_i n hfb
    rw [onRead_some s data n hwf hfit hfb]
    generalize parseRequest (s.pend ++ data) n = p at h ⊢
    cases p with
    | oob => exact ⟨_, rfl⟩
    | parseFailed => simp at h
    | ok req =>
      simp only at h ⊢
      generalize answer s req = a at h ⊢
      cases a <;> simp at h
      exact ⟨_, rfl⟩

/-! ### the run -/

theorem specStream_congr (a b : Srv) (h : a.sameCfg b) (x : Bytes) : specStream a x = specStream b x := by
  induction hn : x.length using Nat.strongRecOn generalizing x with
  | _ n ih =>
    rw [specStream_eq a x, specStream_eq b x, reqStep_congr a b h x]
    obtain ⟨hc, hk, _, _⟩ := h
    cases hs : reqStep b x with
    | more => rfl
    | fail => simp [hc]
    | stall r => rfl
    | ub => rfl
    | respond r c rest =>
      simp only
      have := reqStep_respond_lt b x r c rest hs
      rw [ih rest.length (by omega) rest rfl, hc, hk]

/-! ### `serve`: one step -/

theorem serve_read_nil (f : Nat) (s : Srv) (cap : Nat) :
    serve (f + 1) (s, [.asyncReadSome cap]) [] = ⟨[], .waiting⟩ := by
  simp [serve]

theorem serve_read_cons (f : Nat) (s : Srv) (cap : Nat) (c : Bytes) (rest : List Bytes) :
    serve (f + 1) (s, [.asyncReadSome cap]) (c :: rest) =
      if c = [] then serve f (s, [.asyncReadSome cap]) rest
      else if cap = 0 then ⟨[], .ub⟩
      else serve f (s.onRead .ok (c.take cap)) (if c.length ≤ cap then rest else c.drop cap :: rest) := by
  simp [serve]

theorem serve_write (f : Nat) (s : Srv) (r : Bytes) (c : Bool) (chunks : List Bytes) :
    serve (f + 1) (s, [.asyncWrite r c]) chunks = (serve f (s.onWrite .ok c) chunks).cons r := by
  simp [serve]

theorem serve_post (f : Nat) (s : Srv) (chunks : List Bytes) :
    serve (f + 1) (s, [.postOnRead]) chunks = serve f (s.onRead .ok []) chunks := by
  simp [serve]

theorem serve_stalled (f : Nat) (s : Srv) (chunks : List Bytes) :
    serve (f + 1) (s, []) chunks = ⟨[], .stalled⟩ := by
  simp [serve]

theorem serve_ub (f : Nat) (s : Srv) (chunks : List Bytes) :
    serve (f + 1) (s, [.ub]) chunks = ⟨[], .ub⟩ := by
  simp [serve]

theorem serve_close (f : Nat) (s t : Srv) (chunks : List Bytes) :
    serve (f + 1) (s, closeActs t) chunks = ⟨[], .closed (!t.closing)⟩ := by
  unfold closeActs
  cases t.closing <;> simp [serve]

/-- internal fuel bound: a delivery moves `k ≥ 1` bytes from `total` to `used` (net `-k`), a
    request removes at least one byte from `used` (net `≤ -2`), an empty chunk costs `2`. -/
def bnd (u : Nat) (chunks : List Bytes) : Nat := 2 * u + 3 * total chunks + 2 * chunks.length + 2

theorem total_cons (c : Bytes) (rest : List Bytes) : total (c :: rest) = c.length + total rest := by
  simp [total]

theorem serve_both (fuel : Nat) :
    (∀ (s : Srv) (chunks : List Bytes), s.wf → s.used < s.buf.length → reqStep s s.pend = .more →
      bnd s.used chunks ≤ fuel →
      serve fuel (s, [.asyncReadSome (s.buf.length - s.used)]) chunks
        = specStream s (s.pend ++ chunks.flatten)) ∧
    (∀ (s : Srv) (data : Bytes) (chunks : List Bytes), s.wf → s.used + data.length ≤ s.buf.length →
      bnd (s.used + data.length) chunks ≤ fuel →
      serve fuel (s.onRead .ok data) chunks = specStream s (s.pend ++ data ++ chunks.flatten)) := by
  induction fuel using Nat.strongRecOn with
  | _ fuel ih =>
    have hR : ∀ (s : Srv) (chunks : List Bytes), s.wf → s.used < s.buf.length →
        reqStep s s.pend = .more → bnd s.used chunks ≤ fuel →
        serve fuel (s, [.asyncReadSome (s.buf.length - s.used)]) chunks
          = specStream s (s.pend ++ chunks.flatten) := by
      intro s chunks hwf hcap hmore hfuel
      obtain ⟨f, rfl⟩ : ∃ f, fuel = f + 1 := ⟨fuel - 1, by unfold bnd at hfuel; omega⟩
      cases chunks with
      | nil =>
        rw [serve_read_nil, specStream_eq]
        simp only [List.flatten_nil, List.append_nil]
        rw [hmore]
      | cons c rest =>
        rw [serve_read_cons]
        by_cases hc : c = []
        · subst hc
          rw [if_pos rfl]
          rw [(ih f (by omega)).1 s rest hwf hcap hmore (by unfold bnd at hfuel ⊢; rw [total_cons] at hfuel; simp at hfuel; omega)]
          simp
        · rw [if_neg hc, if_neg (by omega)]
          have hcl : 0 < c.length := List.length_pos_iff.mpr hc
          have hwf' : s.used ≤ s.buf.length := hwf
          rw [(ih f (by omega)).2 s (c.take (s.buf.length - s.used)) _ hwf (by simp; omega) ?_]
          · congr 1
            split
            · rename_i hle
              rw [List.take_of_length_le hle]
              simp
            · simp only [List.flatten_cons, List.append_assoc]
              rw [← List.append_assoc (c.take _), List.take_append_drop]
          · unfold bnd at hfuel ⊢
            rw [total_cons] at hfuel
            split
            · rename_i hle
              simp [Nat.min_eq_right hle] at hfuel ⊢
              omega
            · rename_i hle
              rw [total_cons]
              simp [Nat.min_eq_left (Nat.le_of_lt (Nat.lt_of_not_le hle))] at hfuel ⊢
              omega
    refine ⟨hR, ?_⟩
    intro s data chunks hwf hfit hfuel
    obtain ⟨f, rfl⟩ : ∃ f, fuel = f + 1 := ⟨fuel - 1, by unfold bnd at hfuel; omega⟩
    have hap := reqStep_append s (s.pend ++ data) chunks.flatten
    cases hs : reqStep s (s.pend ++ data) with
    | more =>
      obtain ⟨s', h1, h2, h3, h4⟩ := onRead_more s data hwf hfit hs
      have hu : s'.used = s.used + data.length := by
        have := pend_length s' (Nat.le_of_lt h2)
        rw [h3] at this
        simp [pend_length s hwf] at this
        omega
      rw [h1, hR s' chunks (Nat.le_of_lt h2) h2 (by rw [h3, ← reqStep_congr s s' h4]; exact hs)
        (by rw [hu]; exact hfuel)]
      rw [h3, specStream_congr s s' h4]
    | fail =>
      rw [hs] at hap
      rw [onRead_fail s data hwf hfit hs, serve_close, specStream_eq, hap]
    | stall rest =>
      rw [hs] at hap
      obtain ⟨s', h1, _, _, _⟩ := onRead_stall s data rest hwf hfit hs
      rw [h1, serve_stalled, specStream_eq, hap]
    | ub =>
      rw [hs] at hap
      obtain ⟨s', h1⟩ := onRead_ub s data hwf hfit hs
      rw [h1, serve_ub, specStream_eq, hap]
    | respond r c rest =>
      rw [hs] at hap
      obtain ⟨s', h1, h2, h3, h4⟩ := onRead_respond s data r c rest hwf hfit hs
      have hlt := reqStep_respond_lt s _ r c rest hs
      have hu : s'.used = rest.length := by rw [← h3, pend_length s' h2]
      have hlen : (s.pend ++ data).length = s.used + data.length := by simp [pend_length s hwf]
      obtain ⟨f', rfl⟩ : ∃ f', f = f' + 1 := ⟨f - 1, by unfold bnd at hfuel; omega⟩
      rw [h1, serve_write, specStream_eq, hap]
      simp only
      unfold Srv.onWrite
      rw [if_neg (by decide)]
      obtain ⟨hc, hk, _, _⟩ := h4
      rw [← hk]
      by_cases hkeep : (!c && s.keepAlive) = true
      · rw [if_pos hkeep, if_pos hkeep, serve_post]
        rw [(ih f' (by omega)).2 s' [] chunks h2 (by simp; exact h2) (by unfold bnd at hfuel ⊢; simp; omega)]
        rw [h3, specStream_congr s s' ⟨hc, hk, by assumption, by assumption⟩]
        simp
      · rw [if_neg hkeep, if_neg hkeep, closeConnection_eq, serve_close, ← hc]
        rfl

/-- MAIN LEMMA. With a read outstanding and no complete request pending, serving ANY chunking of
    the remaining stream yields what the reference says about pending ++ stream. -/
theorem serve_read_eq_spec (chunks : List Bytes) (s : Srv) (fuel : Nat) (hwf : s.wf)
    (hcap : s.used < s.buf.length) (hmore : reqStep s s.pend = .more)
    (hfuel : need s.used chunks ≤ fuel) :
    serve fuel (s, [.asyncReadSome (s.buf.length - s.used)]) chunks
      = specStream s (s.pend ++ chunks.flatten) :=
  (serve_both fuel).1 s chunks hwf hcap hmore (by unfold need at hfuel; unfold bnd; omega)

theorem firstBlank_nil : firstBlank [] = none := by
  cases h : firstBlank [] with
  | none => rfl
  | some n =>
    have := firstBlank_bounds [] n h
    simp at this
    omega

theorem run_eq_spec (cfg : Srv) (chunks : List Bytes) : run cfg chunks = specStream cfg chunks.flatten := by
  have hwf : cfg.fresh.wf := by simp [Srv.wf, Srv.fresh]
  obtain ⟨s', h1, h2, h3, h4⟩ := read_spec cfg.fresh hwf
  have hp : s'.pend = [] := by rw [h3]; simp [Srv.pend, Srv.fresh]
  have hu : s'.used = 0 := by
    have := pend_length s' (Nat.le_of_lt h2)
    rw [hp] at this
    simpa using this.symm
  have hcfg : cfg.sameCfg s' := by
    obtain ⟨a, b, c, d⟩ := h4
    exact ⟨a, b, c, d⟩
  unfold run Srv.onAccept
  rw [if_neg (by decide), h1]
  rw [serve_read_eq_spec chunks s' _ (Nat.le_of_lt h2) h2
    (by rw [hp]; unfold reqStep; rw [firstBlank_nil]) (by rw [hu]; exact Nat.le_refl _)]
  rw [hp, specStream_congr cfg s' hcfg]
  rfl

end SimVerif.HttpServer
