/-
  `normalize`: the pointer loop over `c_str()` stays inside the C string and computes the
  functional specification `normSpec` (split at '/', fold the segments over a stack).
-/
import SimVerif.HttpSpec

namespace SimVerif.Http

/-! ### C-string scanning -/

theorem getElem_mid (pre : Bytes) (x : UInt8) (post : Bytes) (h : pre.length < (pre ++ x :: post).length) :
    (pre ++ x :: post)[pre.length] = x := by
  simp

theorem strchr_spec (c : UInt8) (seg : Bytes) : ∀ (pre : Bytes) (x : UInt8) (post : Bytes),
    (∀ y ∈ seg, y ≠ c ∧ y ≠ 0) → (x = c ∨ x = 0) →
    strchr (pre ++ seg ++ x :: post) c pre.length
      = .ok (if x = c then some (pre.length + seg.length) else none) := by
  induction seg with
  | nil =>
    intro pre x post _ hx
    unfold strchr
    simp only [List.append_nil]
    rw [dif_pos (by simp)]
    rw [getElem_mid]
    by_cases hxc : x = c
    · simp [hxc]
    · have : x = 0 := by rcases hx with h | h; exact absurd h hxc; exact h
      subst this
      rw [if_neg hxc, if_pos rfl, if_neg hxc]
  | cons a t ih =>
    intro pre x post hseg hx
    unfold strchr
    have h1 : pre ++ a :: t ++ x :: post = pre ++ a :: (t ++ x :: post) := by simp
    rw [dif_pos (by simp)]
    simp only [h1, getElem_mid]
    have ha := hseg a (by simp)
    rw [if_neg ha.1, if_neg ha.2]
    have := ih (pre ++ [a]) x post (fun y hy => hseg y (by simp [hy])) hx
    have h2 : (pre ++ [a]) ++ t ++ x :: post = pre ++ a :: (t ++ x :: post) := by simp
    have h3 : (pre ++ [a]).length = pre.length + 1 := by simp
    rw [h2, h3] at this
    rw [this]
    simp only [List.length_cons]
    congr 1
    split
    · congr 1; omega
    · rfl

theorem cstr_spec (seg : Bytes) : ∀ (pre post : Bytes), (∀ y ∈ seg, y ≠ 0) →
    cstr (pre ++ seg ++ 0 :: post) pre.length = .ok seg := by
  induction seg with
  | nil =>
    intro pre post _
    unfold cstr
    simp only [List.append_nil]
    rw [dif_pos (by simp), getElem_mid]
    simp
  | cons a t ih =>
    intro pre post hseg
    unfold cstr
    have h1 : pre ++ a :: t ++ 0 :: post = pre ++ a :: (t ++ 0 :: post) := by simp
    rw [dif_pos (by simp)]
    simp only [h1, getElem_mid]
    rw [if_neg (hseg a (by simp))]
    have := ih (pre ++ [a]) post (fun y hy => hseg y (by simp [hy]))
    have h2 : (pre ++ [a]) ++ t ++ 0 :: post = pre ++ a :: (t ++ 0 :: post) := by simp
    have h3 : (pre ++ [a]).length = pre.length + 1 := by simp
    rw [h2, h3] at this
    rw [this]

/-! ### unfolding the loop -/

theorem normLoop_none (mem : Bytes) (start : Nat) (st : List Bytes)
    (h : strchr mem 47 start = .ok none) : normLoop mem start st = .ok (start, st) := by
  rw [normLoop]
  split
  · rename_i e he; rw [h] at he; simp at he
  · rfl
  · rename_i sl he; rw [h] at he; simp at he

theorem normLoop_some (mem : Bytes) (start sl : Nat) (st : List Bytes) (el : Bytes)
    (h : strchr mem 47 start = .ok (some sl)) (hr : readRange mem start sl = .ok el) :
    normLoop mem start st = normLoop mem (sl + 1) (stackStep st el) := by
  rw [normLoop]
  split
  · rename_i e he; rw [h] at he; simp at he
  · rename_i he; rw [h] at he; simp at he
  · rename_i sl' he
    rw [h] at he
    simp at he
    subst he
    rw [hr]
    dsimp only
    congr 1
    unfold stackStep
    by_cases hel : el = [46, 46]
    · simp [hel]
      intro h; simp [h]
    · simp [hel]

/-! ### `splitOn` -/

theorem splitOn_ne_nil (c : UInt8) (l : Bytes) : splitOn c l ≠ [] := by
  cases l with
  | nil => simp [splitOn]
  | cons a t =>
    unfold splitOn
    split
    · simp
    · split <;> simp

theorem splitOn_noSep (c : UInt8) (seg : Bytes) (h : ∀ y ∈ seg, y ≠ c) : splitOn c seg = [seg] := by
  induction seg with
  | nil => rfl
  | cons a t ih =>
    unfold splitOn
    rw [if_neg (h a (by simp)), ih (fun y hy => h y (by simp [hy]))]

theorem splitOn_sep (c : UInt8) (seg rest : Bytes) (h : ∀ y ∈ seg, y ≠ c) :
    splitOn c (seg ++ c :: rest) = seg :: splitOn c rest := by
  induction seg with
  | nil => simp [splitOn]
  | cons a t ih =>
    simp only [List.cons_append]
    conv => lhs; unfold splitOn
    rw [if_neg (h a (by simp)), ih (fun y hy => h y (by simp [hy]))]

/-- Every list either has no `c` or splits at its first `c`. -/
theorem split_first (c : UInt8) (l : Bytes) :
    (∀ y ∈ l, y ≠ c) ∨ ∃ seg rest, l = seg ++ c :: rest ∧ ∀ y ∈ seg, y ≠ c := by
  induction l with
  | nil => left; simp
  | cons a t ih =>
    by_cases ha : a = c
    · right; exact ⟨[], t, by simp [ha], by simp⟩
    · rcases ih with h | ⟨seg, rest, h1, h2⟩
      · left
        intro y hy
        simp at hy
        rcases hy with rfl | hy
        · exact ha
        · exact h y hy
      · right
        refine ⟨a :: seg, rest, by simp [h1], ?_⟩
        intro y hy
        simp at hy
        rcases hy with rfl | hy
        · exact ha
        · exact h2 y hy

/-! ### the loop computes the stack fold -/

/-- The segments run over the stack; the last one is appended verbatim. -/
def normSegs (st : List Bytes) : List Bytes → List Bytes
  | [] => st
  | [e] => st ++ [e]
  | e :: e' :: es => normSegs (stackStep st e) (e' :: es)

theorem normSegs_eq (segs : List Bytes) : ∀ st, segs ≠ [] →
    normSegs st segs = segs.dropLast.foldl stackStep st ++ [segs.getLastD []] := by
  induction segs with
  | nil => intro st h; exact absurd rfl h
  | cons e es ih =>
    intro st _
    cases es with
    | nil => simp [normSegs]
    | cons e' es' =>
      rw [normSegs, ih (stackStep st e) (by simp)]
      simp [List.dropLast, List.getLastD]

/-- `normLoop` followed by `elements.push_back(start)`. -/
def normTail (mem : Bytes) (start : Nat) (st : List Bytes) : Except Err (List Bytes) :=
  match normLoop mem start st with
  | .error e => .error e
  | .ok (start', elements) =>
    match cstr mem start' with
    | .error e => .error e
    | .ok last => .ok (elements ++ [last])

theorem readRange_mid (pre seg post : Bytes) :
    readRange (pre ++ seg ++ post) pre.length (pre.length + seg.length) = .ok seg := by
  unfold readRange
  rw [if_pos (by simp)]
  simp

theorem normTail_spec : ∀ (n : Nat) (rest : Bytes), rest.length ≤ n →
    ∀ (pre post : Bytes) (st : List Bytes), (∀ y ∈ rest, y ≠ 0) →
    normTail (pre ++ rest ++ 0 :: post) pre.length st = .ok (normSegs st (splitOn 47 rest)) := by
  intro n
  induction n with
  | zero =>
    intro rest hlen pre post st _
    have : rest = [] := List.eq_nil_of_length_eq_zero (by omega)
    subst this
    have h := strchr_spec 47 [] pre 0 post (by simp) (Or.inr rfl)
    rw [if_neg (by decide)] at h
    unfold normTail
    rw [normLoop_none _ _ _ h]
    dsimp only
    rw [cstr_spec [] pre post (by simp)]
    simp [splitOn, normSegs]
  | succ n ih =>
    intro rest hlen pre post st hnul
    rcases split_first 47 rest with hno | ⟨seg, rest', hrest, hseg⟩
    · have h := strchr_spec 47 rest pre 0 post (fun y hy => ⟨hno y hy, hnul y hy⟩) (Or.inr rfl)
      rw [if_neg (by decide)] at h
      unfold normTail
      rw [normLoop_none _ _ _ h]
      dsimp only
      rw [cstr_spec rest pre post hnul]
      rw [splitOn_noSep 47 rest hno]
      simp [normSegs]
    · subst hrest
      have hseg0 : ∀ y ∈ seg, y ≠ 0 := fun y hy => hnul y (by simp [hy])
      have hrest0 : ∀ y ∈ rest', y ≠ 0 := fun y hy => hnul y (by simp [hy])
      have hm : pre ++ (seg ++ 47 :: rest') ++ 0 :: post = pre ++ seg ++ 47 :: (rest' ++ 0 :: post) := by
        simp
      have h := strchr_spec 47 seg pre 47 (rest' ++ 0 :: post)
        (fun y hy => ⟨hseg y hy, hseg0 y hy⟩) (Or.inl rfl)
      rw [if_pos rfl] at h
      have hr := readRange_mid pre seg (47 :: (rest' ++ 0 :: post))
      unfold normTail
      rw [hm, normLoop_some _ _ _ _ _ h hr]
      have hm2 : pre ++ seg ++ 47 :: (rest' ++ 0 :: post) = (pre ++ seg ++ [47]) ++ rest' ++ 0 :: post := by
        simp
      have hl2 : pre.length + seg.length + 1 = (pre ++ seg ++ [47]).length := by simp; omega
      have := ih rest' (by simp at hlen; omega) (pre ++ seg ++ [47]) post (stackStep st seg) hrest0
      unfold normTail at this
      rw [hm2, hl2, this, splitOn_sep 47 seg rest' hseg]
      have hne := splitOn_ne_nil 47 rest'
      cases hsp : splitOn 47 rest' with
      | nil => exact absurd hsp hne
      | cons e es => rw [normSegs]

/-! ### `normalize` = `normSpec` -/

theorem joinSlash_eq (els : List Bytes) (h : els ≠ []) :
    joinSlash els = 47 :: [47].intercalate els := by
  induction els with
  | nil => exact absurd rfl h
  | cons e es ih =>
    cases es with
    | nil => simp [joinSlash, List.intercalate]
    | cons e' es' =>
      rw [joinSlash, ih (by simp)]
      simp [List.intercalate, List.intersperse]

theorem cstr_mem_split (s : Bytes) :
    ∃ junk, s ++ [0] = s.takeWhile (· != 0) ++ 0 :: junk := by
  induction s with
  | nil => exact ⟨[], by simp⟩
  | cons a t ih =>
    by_cases ha : a = 0
    · exact ⟨t ++ [0], by simp [ha]⟩
    · obtain ⟨junk, hj⟩ := ih
      refine ⟨junk, ?_⟩
      simp [ha]
      exact hj

theorem takeWhile_ne_zero (s : Bytes) : ∀ y ∈ s.takeWhile (· != 0), y ≠ 0 := by
  induction s with
  | nil => simp
  | cons a t ih =>
    intro y hy
    by_cases ha : a = 0
    · simp [ha] at hy
    · simp [ha] at hy
      rcases hy with rfl | hy
      · exact ha
      · exact ih y (by simpa using hy)

theorem normalize_eq_normTail (s : Bytes) :
    normalize s =
      match normTail (s ++ [0]) (if (s ++ [0]).take 1 = [47] then 1 else 0) [] with
      | .error e => .error e
      | .ok els => .ok (joinSlash els) := by
  unfold normalize normTail
  dsimp only
  rw [readN]
  rw [if_pos (by simp)]
  simp only [List.drop_zero]
  split <;> rename_i h1
  · simp [h1]
  · rename_i st els
    rw [h1]
    dsimp only
    cases cstr (s ++ [0]) st <;> rfl

theorem normalize_eq_spec (s : Bytes) : normalize s = .ok (normSpec s) := by
  rw [normalize_eq_normTail]
  obtain ⟨junk, hj⟩ := cstr_mem_split s
  have hnul := takeWhile_ne_zero s
  unfold normSpec
  dsimp only
  generalize htd : s.takeWhile (· != 0) = t at hj hnul
  rw [hj]
  have hfin : ∀ u : Bytes, (47 :: [47].intercalate
        ((splitOn 47 u).dropLast.foldl stackStep [] ++ [(splitOn 47 u).getLastD []]))
      = joinSlash (normSegs [] (splitOn 47 u)) := by
    intro u
    rw [normSegs_eq _ _ (splitOn_ne_nil 47 u), joinSlash_eq _ (by simp)]
  cases t with
  | nil =>
    have h := normTail_spec 0 [] (by simp) [] junk [] (by simp)
    simp only [List.nil_append, List.length_nil] at h
    have hstart : (if List.take 1 ([] ++ (0 : UInt8) :: junk) = [47] then 1 else 0) = 0 := by simp
    rw [hstart]
    simp only [List.nil_append]
    rw [h]
    dsimp only
    rw [← hfin]
  | cons a r =>
    by_cases ha : a = 47
    · subst ha
      have h := normTail_spec r.length r (Nat.le_refl _) [47] junk []
        (fun y hy => hnul y (by simp [hy]))
      simp only [List.length_cons, List.length_nil, Nat.zero_add] at h
      have hstart : (if List.take 1 ((47 : UInt8) :: r ++ 0 :: junk) = [47] then 1 else 0) = 1 := by
        simp
      rw [hstart]
      have hm : 47 :: r ++ 0 :: junk = [47] ++ r ++ 0 :: junk := by simp
      rw [hm, h]
      dsimp only
      rw [← hfin]
      simp
    · have h := normTail_spec (a :: r).length (a :: r) (Nat.le_refl _) [] junk [] hnul
      simp only [List.nil_append, List.length_nil] at h
      have hstart : (if List.take 1 (a :: r ++ 0 :: junk) = [47] then 1 else 0) = 0 := by
        simp [ha]
      rw [hstart, h]
      dsimp only
      rw [← hfin]
      split
      · rename_i r' heq
        simp at heq
        exact absurd heq.1 ha
      · rfl

theorem takeWhile_ne_zero_self (s : Bytes) (h : 0 ∉ s) : s.takeWhile (· != 0) = s := by
  induction s with
  | nil => rfl
  | cons a t ih =>
    have ha : a ≠ 0 := fun h' => h (by simp [h'])
    simp [ha]
    exact ih (fun h' => h (by simp [h']))

theorem normalize_ne_oob (s : Bytes) : normalize s ≠ .error .oob := by
  rw [normalize_eq_spec]; simp

end SimVerif.Http
