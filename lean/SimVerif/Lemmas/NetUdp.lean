/-
  SimVerif.Lemmas.NetUdp — projection lemmas for the UDP mechanism functions of
  SimVerif/Net.lean: what each does to the sockets, the registries and the forwarder table.
-/
import SimVerif.Lemmas.NetBasic
import SimVerif.Lemmas.NetInv

namespace SimVerif

/-- what `close(ec)` leaves of a socket -/
def UdpSock.closed (u : UdpSock) : UdpSock :=
  { u with bound := {}, isOpen := false, fwd := none, queue := [], queueSize := 0,
           recvH := none, waitRecvH := none, waitSendH := none }

theorem UdpSock.cancel_fst (name : String) (u : UdpSock) :
    (u.cancel name).1 = { u with recvH := none, waitRecvH := none, waitSendH := none } := by
  simp [UdpSock.cancel, UdpSock.abortRecv, UdpSock.abortSend]

/-! ### `udpClose` -/

theorem udpClose_none (n : NetSt) (name : String) (h : n.udp? name = none) : (n.udpClose name).1 = n := by
  simp [NetSt.udpClose, h]

/-- normal form of `close(ec)` on an existing socket -/
theorem udpClose_some (n : NetSt) (name : String) (u : UdpSock) (h : n.udp? name = some u) :
    (n.udpClose name).1 =
      ({ n with reg := { n.reg with udp := if u.bound.isDefault then n.reg.udp else simUnbind n.reg.udp name u.bound },
                fwds := match u.fwd with | some f => (n.setFwd f none).fwds | none => n.fwds }).setUdp name u.closed := by
  unfold NetSt.udpClose
  simp only [h, UdpSock.cancel_fst]
  cases u.fwd <;> cases u.bound.isDefault <;> rfl

theorem udpClose_udp? (n : NetSt) (name x : String) :
    (n.udpClose name).1.udp? x = if x = name then (n.udp? name).map UdpSock.closed else n.udp? x := by
  cases h : n.udp? name with
  | none => rw [udpClose_none n name h]; by_cases hx : x = name <;> simp [hx, h]
  | some u => rw [udpClose_some n name u h, udp?_setUdp]; rfl

theorem udpClose_tcp? (n : NetSt) (name x : String) : (n.udpClose name).1.tcp? x = n.tcp? x := by
  cases h : n.udp? name with
  | none => rw [udpClose_none n name h]
  | some u => rw [udpClose_some n name u h]; rfl

theorem udpClose_regU (n : NetSt) (name : String) :
    (n.udpClose name).1.reg.udp = match n.udp? name with
      | some u => if u.bound.isDefault then n.reg.udp else simUnbind n.reg.udp name u.bound
      | none => n.reg.udp := by
  cases h : n.udp? name with
  | none => rw [udpClose_none n name h]
  | some u => rw [udpClose_some n name u h]; rfl

theorem udpClose_regT (n : NetSt) (name : String) : (n.udpClose name).1.reg.tcp = n.reg.tcp := by
  cases h : n.udp? name with
  | none => rw [udpClose_none n name h]
  | some u => rw [udpClose_some n name u h]; rfl

theorem udpClose_nextPort (n : NetSt) (name : String) : (n.udpClose name).1.reg.nextPort = n.reg.nextPort := by
  cases h : n.udp? name with
  | none => rw [udpClose_none n name h]
  | some u => rw [udpClose_some n name u h]; rfl

theorem udpClose_cfg (n : NetSt) (name : String) : (n.udpClose name).1.cfg = n.cfg := by
  cases h : n.udp? name with
  | none => rw [udpClose_none n name h]
  | some u => rw [udpClose_some n name u h]; rfl

theorem udpClose_fwds_length (n : NetSt) (name : String) : (n.udpClose name).1.fwds.length = n.fwds.length := by
  cases h : n.udp? name with
  | none => rw [udpClose_none n name h]
  | some u => rw [udpClose_some n name u h]; cases hf : u.fwd <;> simp [NetSt.setFwd]

theorem udpClose_fwdTarget (n : NetSt) (name : String) (g : Nat) :
    (n.udpClose name).1.fwdTarget g
      = if (n.udp? name).bind (·.fwd) = some g then none else n.fwdTarget g := by
  cases h : n.udp? name with
  | none => rw [udpClose_none n name h]; simp
  | some u =>
    rw [udpClose_some n name u h]
    cases hf : u.fwd with
    | none => simp [NetSt.fwdTarget, hf]
    | some f =>
      have := fwdTarget_setFwd_none n f g
      simp only [NetSt.fwdTarget] at this ⊢
      simp only [fwds_setUdp, Option.bind_some, hf, Option.some.injEq]
      rw [this]
      by_cases hg : g = f <;> simp [hg, eq_comm]

/-! ### `udpOpen` -/

/-- what `open(protocol, ec)` makes of a socket: closed, then open with a fresh forwarder -/
def UdpSock.opened (u : UdpSock) (v4 : Bool) (fid : Nat) : UdpSock :=
  { u.closed with isOpen := true, isV4 := v4, fwd := some fid }

theorem udpOpen_none (n : NetSt) (name : String) (v4 : Bool) (h : n.udp? name = none) :
    (n.udpOpen name v4).1 = n := by
  have h2 : (n.udpClose name).1.udp? name = none := by rw [udpClose_udp?]; simp [h]
  unfold NetSt.udpOpen
  simp only [h2]
  exact udpClose_none n name h

theorem udpOpen_some (n : NetSt) (name : String) (v4 : Bool) (u : UdpSock) (h : n.udp? name = some u) :
    (n.udpOpen name v4).1
      = (((n.udpClose name).1.newFwd name).1).setUdp name (u.opened v4 n.fwds.length) := by
  have h2 : (n.udpClose name).1.udp? name = some u.closed := by rw [udpClose_udp?]; simp [h]
  unfold NetSt.udpOpen
  simp only [h2, newFwd_snd, udpClose_fwds_length]
  rfl

theorem udpOpen_udp? (n : NetSt) (name x : String) (v4 : Bool) :
    (n.udpOpen name v4).1.udp? x
      = if x = name then (n.udp? name).map (fun u => u.opened v4 n.fwds.length) else n.udp? x := by
  cases h : n.udp? name with
  | none => rw [udpOpen_none n name v4 h]; by_cases hx : x = name <;> simp [hx, h]
  | some u =>
    rw [udpOpen_some n name v4 u h, udp?_setUdp, udp?_newFwd, udpClose_udp?]
    by_cases hx : x = name <;> simp [hx]

theorem udpOpen_tcp? (n : NetSt) (name x : String) (v4 : Bool) : (n.udpOpen name v4).1.tcp? x = n.tcp? x := by
  cases h : n.udp? name with
  | none => rw [udpOpen_none n name v4 h]
  | some u => rw [udpOpen_some n name v4 u h, tcp?_setUdp, tcp?_newFwd, udpClose_tcp?]

theorem udpOpen_reg (n : NetSt) (name : String) (v4 : Bool) : (n.udpOpen name v4).1.reg = (n.udpClose name).1.reg := by
  cases h : n.udp? name with
  | none => rw [udpOpen_none n name v4 h, udpClose_none n name h]
  | some u => rw [udpOpen_some n name v4 u h, reg_setUdp, reg_newFwd]

theorem udpOpen_cfg (n : NetSt) (name : String) (v4 : Bool) : (n.udpOpen name v4).1.cfg = n.cfg := by
  cases h : n.udp? name with
  | none => rw [udpOpen_none n name v4 h]
  | some u => rw [udpOpen_some n name v4 u h, cfg_setUdp, cfg_newFwd, udpClose_cfg]

theorem udpOpen_fwdTarget (n : NetSt) (name : String) (v4 : Bool) (g : Nat) :
    (n.udpOpen name v4).1.fwdTarget g
      = if (n.udp? name).isSome ∧ g = n.fwds.length then some name else (n.udpClose name).1.fwdTarget g := by
  cases h : n.udp? name with
  | none => rw [udpOpen_none n name v4 h, udpClose_none n name h]; simp
  | some u =>
    rw [udpOpen_some n name v4 u h, fwdTarget_congr _ _ (fwds_setUdp _ _ _), fwdTarget_newFwd, udpClose_fwds_length]
    simp

theorem udpOpen_fwds_length (n : NetSt) (name : String) (v4 : Bool) :
    (n.udpOpen name v4).1.fwds.length = n.fwds.length + (if (n.udp? name).isSome then 1 else 0) := by
  cases h : n.udp? name with
  | none => rw [udpOpen_none n name v4 h]; simp
  | some u => rw [udpOpen_some n name v4 u h, fwds_setUdp, fwds_length_newFwd, udpClose_fwds_length]; simp

/-! ### `udpDestroy` -/

theorem udpDestroy_udp? (n : NetSt) (name x : String) :
    (n.udpDestroy name).1.udp? x = if x = name then none else n.udp? x := by
  have : (n.udpDestroy name).1.udp? x = ((n.udpClose name).1.udps.filter (fun e => e.1 != name)).lookup x := rfl
  rw [this, lookup_filter_ne]
  by_cases hx : x = name
  · simp [hx]
  · have := udpClose_udp? n name x
    simp only [hx, if_false] at this ⊢
    exact this

theorem udpDestroy_tcp? (n : NetSt) (name x : String) : (n.udpDestroy name).1.tcp? x = n.tcp? x :=
  udpClose_tcp? n name x
theorem udpDestroy_reg (n : NetSt) (name : String) : (n.udpDestroy name).1.reg = (n.udpClose name).1.reg := rfl
theorem udpDestroy_cfg (n : NetSt) (name : String) : (n.udpDestroy name).1.cfg = n.cfg := udpClose_cfg n name
theorem udpDestroy_fwdTarget (n : NetSt) (name : String) (g : Nat) :
    (n.udpDestroy name).1.fwdTarget g = (n.udpClose name).1.fwdTarget g := rfl
theorem udpDestroy_fwds_length (n : NetSt) (name : String) :
    (n.udpDestroy name).1.fwds.length = n.fwds.length := udpClose_fwds_length n name

/-! ### `udpBind` -/

/-- the checks `bind(ep, ec)` makes before it reaches the registry -/
def NetSt.udpBindPre (n : NetSt) (name : String) (ep : Ep) (u : UdpSock) (ep1 : Ep) : Prop :=
  n.udp? name = some u ∧ u.isOpen = true ∧ ep.isV4 = u.isV4 ∧ u.bound.isDefault = true
  ∧ ioResolve (n.cfg.ipsOf u.node) ep = .ok ep1

theorem udpBind_pre (n : NetSt) (name : String) (ep : Ep) (u : UdpSock) (ep1 : Ep)
    (h : n.udpBindPre name ep u ep1) :
    n.udpBind name ep =
      match simBind n.reg.udp n.reg.nextPort name ep1 with
      | (tbl, np, .error e) => ({ n with reg := { n.reg with udp := tbl, nextPort := np } }, e)
      | (tbl, np, .ok ep2) =>
        (({ n with reg := { n.reg with udp := tbl, nextPort := np } }).setUdp name { u with bound := ep2 }, .ok) := by
  obtain ⟨h1, h2, h3, h4, h5⟩ := h
  unfold NetSt.udpBind
  simp only [h1, h2, h3, h4, h5]
  simp only [Bool.not_true, Bool.false_eq_true, if_false, bne_self_eq_false]
  rcases hs : simBind n.reg.udp n.reg.nextPort name ep1 with ⟨tbl, np, r⟩
  cases r <;> rfl

/-- … and when one of them fails nothing changes -/
theorem udpBind_nopre (n : NetSt) (name : String) (ep : Ep)
    (h : ¬ ∃ u ep1, n.udpBindPre name ep u ep1) : (n.udpBind name ep).1 = n := by
  unfold NetSt.udpBind
  cases h1 : n.udp? name with
  | none => rfl
  | some u =>
    dsimp only
    split
    · rfl
    · split
      · rfl
      · split
        · rfl
        · cases h5 : ioResolve (n.cfg.ipsOf u.node) ep with
          | error e => rfl
          | ok ep1 =>
            exfalso; apply h
            refine ⟨u, ep1, h1, ?_, ?_, ?_, h5⟩ <;> simp_all

/-! ### the same, as the registry sees it -/

structure CloseEffU (n n' : NetSt) (name : String) : Prop where
  uv   : ∀ x, n'.uv x = if x = name then (n.uv name).map (fun _ => (false, ({} : Ep), (none : Option Nat))) else n.uv x
  regU : n'.reg.udp = match n.uv name with
          | some v => if v.2.1.isDefault then n.reg.udp else simUnbind n.reg.udp name v.2.1
          | none => n.reg.udp
  regT : n'.reg.tcp = n.reg.tcp
  port : n'.reg.nextPort = n.reg.nextPort
  cfg  : n'.cfg = n.cfg
  tcps : ∀ x, n'.tcp? x = n.tcp? x
  flen : n'.fwds.length = n.fwds.length
  ft   : ∀ g, n'.fwdTarget g = if (n.uv name).bind (·.2.2) = some g then none else n.fwdTarget g

theorem udpClose_eff (n : NetSt) (name : String) : CloseEffU n (n.udpClose name).1 name := by
  refine ⟨fun x => ?_, ?_, udpClose_regT n name, udpClose_nextPort n name, udpClose_cfg n name,
    udpClose_tcp? n name, udpClose_fwds_length n name, fun g => ?_⟩
  · simp only [NetSt.uv, udpClose_udp?]
    by_cases hx : x = name
    · simp only [hx, if_true]; cases n.udp? name <;> simp [UdpSock.closed, UdpSock.view]
    · simp [hx]
  · rw [udpClose_regU]; cases h : n.udp? name <;> simp [NetSt.uv, h, UdpSock.view]
  · rw [udpClose_fwdTarget]; cases h : n.udp? name <;> simp [NetSt.uv, h, UdpSock.view]

structure DestroyEffU (n n' : NetSt) (name : String) : Prop where
  uv   : ∀ x, n'.uv x = if x = name then none else n.uv x
  regU : n'.reg.udp = match n.uv name with
          | some v => if v.2.1.isDefault then n.reg.udp else simUnbind n.reg.udp name v.2.1
          | none => n.reg.udp
  regT : n'.reg.tcp = n.reg.tcp
  port : n'.reg.nextPort = n.reg.nextPort
  cfg  : n'.cfg = n.cfg
  tcps : ∀ x, n'.tcp? x = n.tcp? x
  flen : n'.fwds.length = n.fwds.length
  ft   : ∀ g, n'.fwdTarget g = if (n.uv name).bind (·.2.2) = some g then none else n.fwdTarget g

theorem udpDestroy_eff (n : NetSt) (name : String) : DestroyEffU n (n.udpDestroy name).1 name := by
  have e := udpClose_eff n name
  refine ⟨fun x => ?_, e.regU, e.regT, e.port, e.cfg, e.tcps, e.flen, e.ft⟩
  simp only [NetSt.uv, udpDestroy_udp?]
  by_cases hx : x = name <;> simp [hx]

/-- the part of `open` after the `close`: on a state `m` where `name` is closed (or absent) -/
structure OpenEffU (m m' : NetSt) (name : String) : Prop where
  uv   : ∀ x, m'.uv x = if x = name then (m.uv name).map (fun v => (true, v.2.1, some m.fwds.length)) else m.uv x
  reg  : m'.reg = m.reg
  cfg  : m'.cfg = m.cfg
  tcps : ∀ x, m'.tcp? x = m.tcp? x
  flen : m'.fwds.length = m.fwds.length + (if (m.uv name).isSome then 1 else 0)
  ft   : ∀ g, m'.fwdTarget g = if (m.uv name).isSome ∧ g = m.fwds.length then some name else m.fwdTarget g

theorem udpOpen_eff (n : NetSt) (name : String) (v4 : Bool) :
    OpenEffU (n.udpClose name).1 (n.udpOpen name v4).1 name := by
  have e := udpClose_eff n name
  have hsome : ((n.udpClose name).1.uv name).isSome = (n.udp? name).isSome := by
    rw [e.uv]; simp [NetSt.uv]
  refine ⟨fun x => ?_, udpOpen_reg n name v4, ?_, fun x => ?_, ?_, fun g => ?_⟩
  · simp only [NetSt.uv, udpOpen_udp?, udpClose_udp?, udpClose_fwds_length]
    by_cases hx : x = name
    · simp only [hx, if_true]; cases n.udp? name <;> simp [UdpSock.opened, UdpSock.closed, UdpSock.view]
    · simp [hx]
  · rw [udpOpen_cfg, udpClose_cfg]
  · rw [udpOpen_tcp?, udpClose_tcp?]
  · rw [udpOpen_fwds_length, udpClose_fwds_length, hsome]
  · rw [udpOpen_fwdTarget, udpClose_fwds_length, hsome]

/-! ### the data path never touches what the registry sees -/

theorem UdpSock.abortRecv_view (u : UdpSock) : u.abortRecv.1.view = u.view := rfl
theorem UdpSock.abortSend_view (name : String) (u : UdpSock) : (u.abortSend name).1.view = u.view := rfl
theorem UdpSock.cancel_view (name : String) (u : UdpSock) : (u.cancel name).1.view = u.view := rfl

theorem UdpSock.receiveFrom_view (u : UdpSock) (caps : List Nat) : (u.receiveFrom caps).1.view = u.view := by
  unfold UdpSock.receiveFrom
  split
  · rfl
  · split
    · rfl
    · split <;> rfl

theorem UdpSock.asyncReceive_view (u : UdpSock) (op : RecvOp) : (u.asyncReceive op).1.view = u.view := by
  unfold UdpSock.asyncReceive
  have h := u.receiveFrom_view op.caps
  generalize u.receiveFrom op.caps = r at h
  obtain ⟨u1, r⟩ := r
  dsimp only at h ⊢
  split
  · rfl
  · exact h
  · exact h

theorem UdpSock.asyncWaitReceive_view (u : UdpSock) (h : Nat) : (u.asyncWaitReceive h).1.view = u.view := by
  unfold UdpSock.asyncWaitReceive
  split
  · rfl
  · split
    · rfl
    · split <;> rfl

theorem UdpSock.maybeWakeup_view (u : UdpSock) : u.maybeWakeup.1.view = u.view := by
  unfold UdpSock.maybeWakeup
  split
  · rfl
  · split
    · cases u.waitRecvH with
      | none => rfl
      | some h => exact UdpSock.asyncWaitReceive_view _ h
    · cases u.recvH with
      | none => rfl
      | some op => exact UdpSock.asyncReceive_view _ op

theorem UdpSock.incoming_view (u : UdpSock) (p : Pkt) : (u.incoming p).1.view = u.view := by
  unfold UdpSock.incoming
  split
  · rfl
  · exact UdpSock.maybeWakeup_view _

/-- `n'` differs from `n` only in what the registry cannot see of UDP sockets -/
structure UFrame (n n' : NetSt) : Prop where
  uv   : ∀ x, n'.uv x = n.uv x
  reg  : n'.reg = n.reg
  fwds : n'.fwds = n.fwds
  tcps : n'.tcps = n.tcps
  cfg  : n'.cfg = n.cfg

theorem UFrame.refl (n : NetSt) : UFrame n n := ⟨fun _ => rfl, rfl, rfl, rfl, rfl⟩
theorem UFrame.trans {a b c : NetSt} (h1 : UFrame a b) (h2 : UFrame b c) : UFrame a c :=
  ⟨fun x => (h2.uv x).trans (h1.uv x), h2.reg.trans h1.reg, h2.fwds.trans h1.fwds,
   h2.tcps.trans h1.tcps, h2.cfg.trans h1.cfg⟩

theorem UFrame.setUdp (n : NetSt) (name : String) (u u' : UdpSock) (h : n.udp? name = some u)
    (hv : u'.view = u.view) : UFrame n (n.setUdp name u') := by
  refine ⟨fun x => ?_, rfl, rfl, rfl, rfl⟩
  simp only [NetSt.uv, udp?_setUdp]
  by_cases hx : x = name
  · subst hx; simp [h, hv]
  · simp [hx]

theorem udpAsyncRecv_frame (n : NetSt) (name : String) (op : RecvOp) : UFrame n (n.udpAsyncRecv name op).1 := by
  unfold NetSt.udpAsyncRecv
  cases h : n.udp? name with
  | none => exact UFrame.refl n
  | some u => exact UFrame.setUdp n name u _ h ((UdpSock.asyncReceive_view _ op).trans u.abortRecv_view)

theorem udpRecvNb_frame (n : NetSt) (name : String) (caps : List Nat) : UFrame n (n.udpRecvNb name caps).1 := by
  unfold NetSt.udpRecvNb
  cases h : n.udp? name with
  | none => exact UFrame.refl n
  | some u => exact UFrame.setUdp n name u _ h ((UdpSock.receiveFrom_view _ caps).trans u.abortRecv_view)

theorem udpWaitRead_frame (n : NetSt) (name : String) (hh : Nat) : UFrame n (n.udpWaitRead name hh).1 := by
  unfold NetSt.udpWaitRead
  cases h : n.udp? name with
  | none => exact UFrame.refl n
  | some u => exact UFrame.setUdp n name u _ h ((UdpSock.asyncWaitReceive_view _ hh).trans u.abortRecv_view)

theorem udpWaitWrite_frame (n : NetSt) (now : Int) (name : String) (hh : Nat) :
    UFrame n (n.udpWaitWrite now name hh).1 := by
  unfold NetSt.udpWaitWrite
  cases h : n.udp? name with
  | none => exact UFrame.refl n
  | some u =>
    dsimp only
    split
    · exact UFrame.setUdp n name u _ h rfl
    · exact UFrame.setUdp n name u _ h rfl

theorem udpSendWaitFired_frame (n : NetSt) (name : String) (ab : Bool) :
    UFrame n (n.udpSendWaitFired name ab).1 := by
  unfold NetSt.udpSendWaitFired
  cases h : n.udp? name with
  | none => exact UFrame.refl n
  | some u =>
    dsimp only
    split
    · exact UFrame.refl n
    · cases u.waitSendH with
      | none => exact UFrame.refl n
      | some hh => exact UFrame.setUdp n name u _ h rfl

theorem udpCancel_frame (n : NetSt) (name : String) : UFrame n (n.udpCancel name).1 := by
  unfold NetSt.udpCancel
  cases h : n.udp? name with
  | none => exact UFrame.refl n
  | some u => exact UFrame.setUdp n name u _ h rfl

/-! ### `udpMove` -/

theorem udpMove_none (n : NetSt) (src dst : String) (h : n.udp? src = none) : n.udpMove src dst = n := by
  simp [NetSt.udpMove, h]

theorem udpMove_some (n : NetSt) (src dst : String) (u : UdpSock) (h : n.udp? src = some u) :
    ∃ u' : UdpSock, u'.view = (false, ({} : Ep), (none : Option Nat)) ∧ u'.queue = [] ∧ n.udpMove src dst =
      (({ n with reg := { n.reg with udp := if u.bound.isDefault then n.reg.udp else
                            n.reg.udp.map (fun (e : Ep × String) => if e.1 == u.bound then (e.1, dst) else e) },
                 fwds := match u.fwd with | some f => (n.setFwd f (some dst)).fwds | none => n.fwds }).setUdp dst u).setUdp src u' := by
  refine ⟨{ node := u.node, isV4 := u.isV4, nextSend := u.nextSend, queueSize := u.queueSize,
            recvNull := u.recvNull, df := u.df, sendQueueTime := u.sendQueueTime }, rfl, rfl, ?_⟩
  unfold NetSt.udpMove
  simp only [h]
  cases u.fwd <;> cases u.bound.isDefault <;> rfl

/-! ### `udpSendTo` -/

/-- `send_to_impl` after the implicit bind -/
def NetSt.udpSendTo2 (n : NetSt) (now : Int) (name : String) (dst : Ep) (payload : List UInt8) (e0 : List NEff) :
    NetSt × List NEff × Ec × Nat :=
  match n.udp? name with
  | none => (n, e0, .other, 0)
  | some u =>
    let ret := payload.length
    if ret = 0 then (n, e0, .invalid, 0)
    else
      let mtu := n.cfg.pathMtu u.bound.addr dst.addr
      if ret > 65535 then (n, e0, .msgSize, 0)
      else if u.df && ret > mtu then (n, e0, .ok, ret)
      else if u.nextSend - now > u.sendQueueTime then (n, e0, .wouldBlock, 0)
      else
        match n.udpRoute u.bound dst with
        | none => (n, e0, .ok, ret)
        | some hops =>
          let ns := if now ≤ u.nextSend then u.nextSend else now
          let p : Pkt := { id := 0, ty := .payload, len := ret, ovh := 28, hops := hops,
                           src := u.bound.toString, payload := payload }
          let cap := if n.cfg.pcap then [NEff.pcapUdp now u.bound dst payload] else []
          let u := { u with nextSend := ns + 10 * (ret + 28) }
          (n.setUdp name u, e0 ++ cap ++ [.forward p], .ok, ret)

theorem udpSendTo_unfold (n : NetSt) (now : Int) (name : String) (dst : Ep) (payload : List UInt8) :
    n.udpSendTo now name dst payload = match n.udp? name with
      | none => (n, [], .other, 0)
      | some u0 =>
        let r := u0.abortSend name
        let n1 := n.setUdp name r.1
        let rb := if r.1.bound.isDefault then n1.udpBind name {} else (n1, .ok)
        if rb.2 != .ok then (rb.1, r.2, rb.2, 0) else rb.1.udpSendTo2 now name dst payload r.2 := by
  unfold NetSt.udpSendTo
  cases n.udp? name <;> rfl

theorem udpSendTo2_frame (n : NetSt) (now : Int) (name : String) (dst : Ep) (payload : List UInt8) (e0 : List NEff) :
    UFrame n (n.udpSendTo2 now name dst payload e0).1 := by
  unfold NetSt.udpSendTo2
  cases h : n.udp? name with
  | none => exact UFrame.refl n
  | some u =>
    dsimp only
    split
    · exact UFrame.refl n
    · split
      · exact UFrame.refl n
      · split
        · exact UFrame.refl n
        · split
          · exact UFrame.refl n
          · cases n.udpRoute u.bound dst with
            | none => exact UFrame.refl n
            | some hops => exact UFrame.setUdp n name u _ h rfl

/-! ### move construction, as the registry sees it -/

/-- `rebind_udp_socket`: whatever entry the endpoint has is re-pointed -/
def rebindAll (tbl : List (Ep × String)) (b : Ep) (dst : String) : List (Ep × String) :=
  tbl.map (fun e => if e.1 == b then (e.1, dst) else e)

structure MoveEffU (n n' : NetSt) (src dst : String) (v : Bool × Ep × Option Nat) : Prop where
  uv   : ∀ x, n'.uv x = if x = src then some (false, ({} : Ep), (none : Option Nat)) else if x = dst then some v else n.uv x
  regU : n'.reg.udp = if v.2.1.isDefault then n.reg.udp else rebindAll n.reg.udp v.2.1 dst
  regT : n'.reg.tcp = n.reg.tcp
  port : n'.reg.nextPort = n.reg.nextPort
  cfg  : n'.cfg = n.cfg
  tcps : ∀ x, n'.tcp? x = n.tcp? x
  flen : n'.fwds.length = n.fwds.length
  ft   : ∀ g, n'.fwdTarget g = match v.2.2 with
          | some f => if g = f ∧ f < n.fwds.length then some dst else n.fwdTarget g
          | none => n.fwdTarget g

theorem fwdTarget_setFwd_some'' (n : NetSt) (f g : Nat) (t : String) :
    (n.setFwd f (some t)).fwdTarget g = if g = f ∧ f < n.fwds.length then some t else n.fwdTarget g := by
  by_cases hf : f < n.fwds.length
  · rw [fwdTarget_setFwd_some n f g t hf]; simp [hf]
  · have h1 : (n.setFwd f (some t)).fwdTarget g = n.fwdTarget g := by
      unfold NetSt.fwdTarget NetSt.setFwd
      simp only [List.getElem?_mapIdx]
      cases hg : n.fwds[g]? with
      | none => simp
      | some v =>
        have := (List.getElem?_eq_some_iff.mp hg).1
        have hne : g ≠ f := by omega
        simp [hne]
    rw [h1]; simp [hf]

theorem udpMove_eff (n : NetSt) (src dst : String) (u : UdpSock) (h : n.udp? src = some u) :
    MoveEffU n (n.udpMove src dst) src dst u.view := by
  obtain ⟨u', hu', _, he⟩ := udpMove_some n src dst u h
  rw [he]
  refine ⟨fun x => ?_, rfl, rfl, rfl, rfl, fun _ => rfl, ?_, fun g => ?_⟩
  · simp only [NetSt.uv, udp?_setUdp]
    by_cases hx : x = src
    · simp [hx, hu']
    · by_cases hxd : x = dst
      · subst hxd; simp [hx]
      · simp only [hx, hxd, if_false]; rfl
  · simp only [fwds_setUdp]; cases u.fwd <;> simp
  · rw [fwdTarget_congr _ _ (fwds_setUdp _ _ _), fwdTarget_congr _ _ (fwds_setUdp _ _ _)]
    simp only [UdpSock.view]
    cases hf : u.fwd with
    | none => rfl
    | some f =>
      have := fwdTarget_setFwd_some'' n f g dst
      simp only [NetSt.fwdTarget] at this ⊢
      exact this

end SimVerif
