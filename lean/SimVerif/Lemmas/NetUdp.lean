/-
  SimVerif.Lemmas.NetUdp — projection lemmas for the UDP mechanism functions of
  SimVerif/Net.lean: what each does to the sockets, the registries and the forwarder table.
-/
import SimVerif.Lemmas.NetBasic

namespace SimVerif

/-- what `close(ec)` leaves of a socket -/
def UdpSock.closed (u : UdpSock) : UdpSock :=
  { u with bound := {}, isOpen := false, fwd := none, queue := [], queueSize := 0,
           recvH := none, waitRecvH := none, waitSendH := none }

theorem UdpSock.cancel_fst (name : String) (u : UdpSock) :
    (u.cancel name).1 = { u with recvH := none, waitRecvH := none, waitSendH := none } := by
  simp [UdpSock.cancel, UdpSock.abortRecv, UdpSock.abortSend]

/-! ### `udpClose` -/

theorem udpClose_none (n : NetSt) (name : String) (h : n.udp? name = none) : (n.udpClose name).1 = n := by
  simp [NetSt.udpClose, h]

/-- normal form of `close(ec)` on an existing socket -/
theorem udpClose_some (n : NetSt) (name : String) (u : UdpSock) (h : n.udp? name = some u) :
    (n.udpClose name).1 =
      ({ n with reg := { n.reg with udp := if u.bound.isDefault then n.reg.udp else simUnbind n.reg.udp name u.bound },
                fwds := match u.fwd with | some f => (n.setFwd f none).fwds | none => n.fwds }).setUdp name u.closed := by
  unfold NetSt.udpClose
  simp only [h, UdpSock.cancel_fst]
  cases u.fwd <;> cases u.bound.isDefault <;> rfl

theorem udpClose_udp? (n : NetSt) (name x : String) :
    (n.udpClose name).1.udp? x = if x = name then (n.udp? name).map UdpSock.closed else n.udp? x := by
  cases h : n.udp? name with
  | none => rw [udpClose_none n name h]; by_cases hx : x = name <;> simp [hx, h]
  | some u => rw [udpClose_some n name u h, udp?_setUdp]; rfl

theorem udpClose_tcp? (n : NetSt) (name x : String) : (n.udpClose name).1.tcp? x = n.tcp? x := by
  cases h : n.udp? name with
  | none => rw [udpClose_none n name h]
  | some u => rw [udpClose_some n name u h]; rfl

theorem udpClose_regU (n : NetSt) (name : String) :
    (n.udpClose name).1.reg.udp = match n.udp? name with
      | some u => if u.bound.isDefault then n.reg.udp else simUnbind n.reg.udp name u.bound
      | none => n.reg.udp := by
  cases h : n.udp? name with
  | none => rw [udpClose_none n name h]
  | some u => rw [udpClose_some n name u h]; rfl

theorem udpClose_regT (n : NetSt) (name : String) : (n.udpClose name).1.reg.tcp = n.reg.tcp := by
  cases h : n.udp? name with
  | none => rw [udpClose_none n name h]
  | some u => rw [udpClose_some n name u h]; rfl

theorem udpClose_nextPort (n : NetSt) (name : String) : (n.udpClose name).1.reg.nextPort = n.reg.nextPort := by
  cases h : n.udp? name with
  | none => rw [udpClose_none n name h]
  | some u => rw [udpClose_some n name u h]; rfl

theorem udpClose_cfg (n : NetSt) (name : String) : (n.udpClose name).1.cfg = n.cfg := by
  cases h : n.udp? name with
  | none => rw [udpClose_none n name h]
  | some u => rw [udpClose_some n name u h]; rfl

theorem udpClose_fwds_length (n : NetSt) (name : String) : (n.udpClose name).1.fwds.length = n.fwds.length := by
  cases h : n.udp? name with
  | none => rw [udpClose_none n name h]
  | some u => rw [udpClose_some n name u h]; cases hf : u.fwd <;> simp [NetSt.setFwd]

theorem udpClose_fwdTarget (n : NetSt) (name : String) (g : Nat) :
    (n.udpClose name).1.fwdTarget g
      = if (n.udp? name).bind (·.fwd) = some g then none else n.fwdTarget g := by
  cases h : n.udp? name with
  | none => rw [udpClose_none n name h]; simp
  | some u =>
    rw [udpClose_some n name u h]
    cases hf : u.fwd with
    | none => simp [NetSt.fwdTarget, hf]
    | some f =>
      have := fwdTarget_setFwd_none n f g
      simp only [NetSt.fwdTarget] at this ⊢
      simp only [fwds_setUdp, Option.bind_some, hf, Option.some.injEq]
      rw [this]
      by_cases hg : g = f <;> simp [hg, eq_comm]

/-! ### `udpOpen` -/

/-- what `open(protocol, ec)` makes of a socket: closed, then open with a fresh forwarder -/
def UdpSock.opened (u : UdpSock) (v4 : Bool) (fid : Nat) : UdpSock :=
  { u.closed with isOpen := true, isV4 := v4, fwd := some fid }

theorem udpOpen_none (n : NetSt) (name : String) (v4 : Bool) (h : n.udp? name = none) :
    (n.udpOpen name v4).1 = n := by
  have h2 : (n.udpClose name).1.udp? name = none := by rw [udpClose_udp?]; simp [h]
  unfold NetSt.udpOpen
  simp only [h2]
  exact udpClose_none n name h

theorem udpOpen_some (n : NetSt) (name : String) (v4 : Bool) (u : UdpSock) (h : n.udp? name = some u) :
    (n.udpOpen name v4).1
      = (((n.udpClose name).1.newFwd name).1).setUdp name (u.opened v4 n.fwds.length) := by
  have h2 : (n.udpClose name).1.udp? name = some u.closed := by rw [udpClose_udp?]; simp [h]
  unfold NetSt.udpOpen
  simp only [h2, newFwd_snd, udpClose_fwds_length]
  rfl

theorem udpOpen_udp? (n : NetSt) (name x : String) (v4 : Bool) :
    (n.udpOpen name v4).1.udp? x
      = if x = name then (n.udp? name).map (fun u => u.opened v4 n.fwds.length) else n.udp? x := by
  cases h : n.udp? name with
  | none => rw [udpOpen_none n name v4 h]; by_cases hx : x = name <;> simp [hx, h]
  | some u =>
    rw [udpOpen_some n name v4 u h, udp?_setUdp, udp?_newFwd, udpClose_udp?]
    by_cases hx : x = name <;> simp [hx]

theorem udpOpen_tcp? (n : NetSt) (name x : String) (v4 : Bool) : (n.udpOpen name v4).1.tcp? x = n.tcp? x := by
  cases h : n.udp? name with
  | none => rw [udpOpen_none n name v4 h]
  | some u => rw [udpOpen_some n name v4 u h, tcp?_setUdp, tcp?_newFwd, udpClose_tcp?]

theorem udpOpen_reg (n : NetSt) (name : String) (v4 : Bool) : (n.udpOpen name v4).1.reg = (n.udpClose name).1.reg := by
  cases h : n.udp? name with
  | none => rw [udpOpen_none n name v4 h, udpClose_none n name h]
  | some u => rw [udpOpen_some n name v4 u h, reg_setUdp, reg_newFwd]

theorem udpOpen_cfg (n : NetSt) (name : String) (v4 : Bool) : (n.udpOpen name v4).1.cfg = n.cfg := by
  cases h : n.udp? name with
  | none => rw [udpOpen_none n name v4 h]
  | some u => rw [udpOpen_some n name v4 u h, cfg_setUdp, cfg_newFwd, udpClose_cfg]

theorem udpOpen_fwdTarget (n : NetSt) (name : String) (v4 : Bool) (g : Nat) :
    (n.udpOpen name v4).1.fwdTarget g
      = if (n.udp? name).isSome ∧ g = n.fwds.length then some name else (n.udpClose name).1.fwdTarget g := by
  cases h : n.udp? name with
  | none => rw [udpOpen_none n name v4 h, udpClose_none n name h]; simp
  | some u =>
    rw [udpOpen_some n name v4 u h, fwdTarget_congr _ _ (fwds_setUdp _ _ _), fwdTarget_newFwd, udpClose_fwds_length]
    simp

theorem udpOpen_fwds_length (n : NetSt) (name : String) (v4 : Bool) :
    (n.udpOpen name v4).1.fwds.length = n.fwds.length + (if (n.udp? name).isSome then 1 else 0) := by
  cases h : n.udp? name with
  | none => rw [udpOpen_none n name v4 h]; simp
  | some u => rw [udpOpen_some n name v4 u h, fwds_setUdp, fwds_length_newFwd, udpClose_fwds_length]; simp

/-! ### `udpDestroy` -/

theorem udpDestroy_udp? (n : NetSt) (name x : String) :
    (n.udpDestroy name).1.udp? x = if x = name then none else n.udp? x := by
  have : (n.udpDestroy name).1.udp? x = ((n.udpClose name).1.udps.filter (fun e => e.1 != name)).lookup x := rfl
  rw [this, lookup_filter_ne]
  by_cases hx : x = name
  · simp [hx]
  · have := udpClose_udp? n name x
    simp only [hx, if_false] at this ⊢
    exact this

theorem udpDestroy_tcp? (n : NetSt) (name x : String) : (n.udpDestroy name).1.tcp? x = n.tcp? x :=
  udpClose_tcp? n name x
theorem udpDestroy_reg (n : NetSt) (name : String) : (n.udpDestroy name).1.reg = (n.udpClose name).1.reg := rfl
theorem udpDestroy_cfg (n : NetSt) (name : String) : (n.udpDestroy name).1.cfg = n.cfg := udpClose_cfg n name
theorem udpDestroy_fwdTarget (n : NetSt) (name : String) (g : Nat) :
    (n.udpDestroy name).1.fwdTarget g = (n.udpClose name).1.fwdTarget g := rfl
theorem udpDestroy_fwds_length (n : NetSt) (name : String) :
    (n.udpDestroy name).1.fwds.length = n.fwds.length := udpClose_fwds_length n name

/-! ### `udpBind` -/

/-- the checks `bind(ep, ec)` makes before it reaches the registry -/
def NetSt.udpBindPre (n : NetSt) (name : String) (ep : Ep) (u : UdpSock) (ep1 : Ep) : Prop :=
  n.udp? name = some u ∧ u.isOpen = true ∧ ep.isV4 = u.isV4 ∧ u.bound.isDefault = true
  ∧ ioResolve (n.cfg.ipsOf u.node) ep = .ok ep1

theorem udpBind_pre (n : NetSt) (name : String) (ep : Ep) (u : UdpSock) (ep1 : Ep)
    (h : n.udpBindPre name ep u ep1) :
    n.udpBind name ep =
      match simBind n.reg.udp n.reg.nextPort name ep1 with
      | (tbl, np, .error e) => ({ n with reg := { n.reg with udp := tbl, nextPort := np } }, e)
      | (tbl, np, .ok ep2) =>
        (({ n with reg := { n.reg with udp := tbl, nextPort := np } }).setUdp name { u with bound := ep2 }, .ok) := by
  obtain ⟨h1, h2, h3, h4, h5⟩ := h
  unfold NetSt.udpBind
  simp only [h1, h2, h3, h4, h5]
  simp only [Bool.not_true, Bool.false_eq_true, if_false, bne_self_eq_false]
  rcases hs : simBind n.reg.udp n.reg.nextPort name ep1 with ⟨tbl, np, r⟩
  cases r <;> rfl

/-- … and when one of them fails nothing changes -/
theorem udpBind_nopre (n : NetSt) (name : String) (ep : Ep)
    (h : ¬ ∃ u ep1, n.udpBindPre name ep u ep1) : (n.udpBind name ep).1 = n := by
  unfold NetSt.udpBind
  cases h1 : n.udp? name with
  | none => rfl
  | some u =>
    dsimp only
    split
    · rfl
    · split
      · rfl
      · split
        · rfl
        · cases h5 : ioResolve (n.cfg.ipsOf u.node) ep with
          | error e => rfl
          | ok ep1 =>
            exfalso; apply h
            refine ⟨u, ep1, h1, ?_, ?_, ?_, h5⟩ <;> simp_all

end SimVerif
