/-
  `parse_request`: unfolding lemmas for the header loop, the in-bounds theorem and the
  round-trip computation on rendered requests.
-/
import SimVerif.Lemmas.HttpBasic
import SimVerif.Lemmas.HttpTrim
import SimVerif.Lemmas.HttpNormalize

namespace SimVerif.Http

/-! ### unfolding `headerLoop` -/

theorem headerLoop_none (bs : Bytes) (len : Nat) (hdrs : HMap) :
    headerLoop bs len none hdrs = failParse bs len := by
  rw [headerLoop]

theorem headerLoop_exit (bs : Bytes) (len h : Nat) (hdrs : HMap) (he : (h : Int) = (len : Int) - 4) :
    headerLoop bs len (some h) hdrs = .ok hdrs := by
  rw [headerLoop, if_pos he]

/-- The body of one iteration once `next` and `value` are known. -/
def headerBody (bs : Bytes) (len h : Nat) (hdrs : HMap) (next value : Option Nat) : Except Err HMap :=
  match next, value with
  | some n, some v =>
    if v > n then failParse bs len
    else
      match readRange bs h v with
      | .error e => .error e
      | .ok rawName =>
        match readRange bs (v + 1) n with
        | .error e => .error e
        | .ok rawValue =>
          match trim rawName with
          | .error e => .error e
          | .ok tn =>
            match trim rawValue with
            | .error e => .error e
            | .ok tv => headerLoop bs len (some n) (mapInsert (lowerCase tn) tv hdrs)
  | _, _ => failParse bs len

theorem headerLoop_step (bs : Bytes) (len h : Nat) (hdrs : HMap) (next value : Option Nat)
    (hne : (h : Int) ≠ (len : Int) - 4)
    (hf : find bs (h + 2) ((len : Int) - ((h : Int) + 2 - 0)) CRLF = .ok next)
    (hm : memchr bs h 58 ((len : Int) - ((h : Int) - 0)) = .ok value) :
    headerLoop bs len (some h) hdrs = headerBody bs len h hdrs next value := by
  rw [headerLoop, if_neg hne]
  split
  · rename_i e he; rw [hf] at he; simp at he
  · rename_i next' he
    rw [hf] at he
    simp at he
    subst he
    rw [hm]
    dsimp only
    unfold headerBody
    split <;> rename_i h1
    · rfl
    · split
      · rename_i n v h2 h3
        exact absurd HEq.rfl (h1 n v h2 rfl rfl)
      · rfl

/-! ### in bounds -/

theorem failParse_eq {α : Type} (bs : Bytes) (len : Nat) (h : len ≤ bs.length) :
    (failParse bs len : Except Err α) = .error .parseFailed := by
  unfold failParse
  rw [readN_ok bs 0 len (by omega)]

theorem readRange_ok (bs : Bytes) (a b : Nat) (h1 : a ≤ b) (h2 : b ≤ bs.length) :
    readRange bs a b = .ok ((bs.drop a).take (b - a)) := by
  unfold readRange
  rw [if_pos ⟨h1, h2⟩]

theorem win_take (bs : Bytes) (p n m : Nat) (h : m ≤ n) : (win bs p n).take m = win bs p m := by
  unfold win
  rw [List.take_take, Nat.min_eq_left h]

theorem win_ne_of_crlf (bs : Bytes) (n v : Nat) (h1 : win bs n 2 = CRLF) (h2 : win bs v 1 = [58]) :
    v ≠ n := by
  intro h
  subst h
  have := win_take bs v 2 1 (by omega)
  rw [h1, h2] at this
  simp [CRLF] at this

theorem headerLoop_ne_oob (bs : Bytes) (len : Nat) (hlen : len ≤ bs.length) :
    ∀ (k h : Nat) (hdrs : HMap), len - h ≤ k → h + 2 ≤ len →
      headerLoop bs len (some h) hdrs ≠ .error .oob := by
  intro k
  induction k with
  | zero => intro h hdrs h1 h2; omega
  | succ k ih =>
    intro h hdrs hk hh
    by_cases he : (h : Int) = (len : Int) - 4
    · rw [headerLoop_exit _ _ _ _ he]; simp
    · have hb1 : ((h + 2 : Nat) : Int) + ((len : Int) - ((h : Int) + 2 - 0)) ≤ bs.length := by omega
      have hb2 : (h : Int) + ((len : Int) - ((h : Int) - 0)) ≤ bs.length := by omega
      have hfail : (failParse bs len : Except Err HMap) ≠ .error .oob := by
        rw [failParse_eq _ _ hlen]; simp
      rcases find_spec bs (h + 2) _ CRLF hb1 with ⟨hf, _⟩ | ⟨n, hf, hn1, hn2, hn3, _⟩ <;>
        rcases memchr_spec bs h 58 _ (by omega) hb2 with ⟨hm, _⟩ | ⟨v, hm, hv1, hv2, hv3, _⟩ <;>
        rw [headerLoop_step _ _ _ _ _ _ he hf hm] <;> unfold headerBody <;> try exact hfail
      dsimp only
      simp only [CRLF, List.length_cons, List.length_nil] at hn2
      split
      · exact hfail
      · rename_i hvn
        have hvn' : v ≠ n := win_ne_of_crlf bs n v hn3 hv3
        rw [readRange_ok bs h v hv1 (by omega), readRange_ok bs (v + 1) n (by omega) (by omega)]
        dsimp only
        rw [trim_eq_spec, trim_eq_spec]
        dsimp only
        exact ih n _ (by omega) (by omega)

theorem parseRequestE_ne_oob (bs : Bytes) (len : Nat) (hlen : len ≤ bs.length) :
    parseRequestE bs len ≠ .error .oob := by
  have hfail : ∀ α : Type, (failParse bs len : Except Err α) ≠ .error .oob := by
    intro α; rw [failParse_eq _ _ hlen]; simp
  unfold parseRequestE
  rcases find_spec bs 0 (len : Int) [32] (by omega) with ⟨hf, _⟩ | ⟨space, hf, _, hs2, _, _⟩
  · rw [hf]; exact hfail _
  · rw [hf]
    dsimp only
    simp only [List.length_cons, List.length_nil] at hs2
    rcases find_spec bs (space + 1) ((len : Int) - ((space : Int) - 0 + 1)) [32] (by omega) with
      ⟨hf2, _⟩ | ⟨space2, hf2, ht1, ht2, _, _⟩
    · rw [hf2]; exact hfail _
    · rw [hf2]
      dsimp only
      simp only [List.length_cons, List.length_nil] at ht2
      rw [readRange_ok bs 0 space (by omega) (by omega),
        readRange_ok bs (space + 1) space2 ht1 (by omega)]
      dsimp only
      have hpath : ∀ (m r : Bytes), ∃ p, (if m ≠ CONNECT then normalize (r.takeWhile (· != 63))
          else .ok r) = (.ok p : Except Err Bytes) := by
        intro m r
        by_cases hm : m ≠ CONNECT
        · rw [if_pos hm, normalize_eq_spec]; exact ⟨_, rfl⟩
        · rw [if_neg hm]; exact ⟨_, rfl⟩
      obtain ⟨p, hp⟩ := hpath (List.take (space - 0) (List.drop 0 bs))
        (List.take (space2 - (space + 1)) (List.drop (space + 1) bs))
      rw [hp]
      dsimp only
      rcases find_spec bs space2 ((len : Int) - ((space2 : Int) - 0)) CRLF (by omega) with
        ⟨hf3, _⟩ | ⟨h, hf3, hh1, hh2, _, _⟩
      · rw [hf3]
        dsimp only
        rw [headerLoop_none, failParse_eq _ _ hlen]
        simp
      · rw [hf3]
        dsimp only
        simp only [CRLF, List.length_cons, List.length_nil] at hh2
        have := headerLoop_ne_oob bs len hlen (len - h) h [] (Nat.le_refl _) (by omega)
        revert this
        cases headerLoop bs len (some h) [] with
        | error e => intro h; simpa using h
        | ok v => intro _; simp

theorem parseRequest_ne_oob (bs : Bytes) (len : Nat) (hlen : len ≤ bs.length) :
    parseRequest bs len ≠ .oob := by
  have := parseRequestE_ne_oob bs len hlen
  unfold parseRequest
  split <;> simp_all

/-! ### windows of structured lists -/

theorem win_append_right (pre l : Bytes) (k n : Nat) :
    win (pre ++ l) (pre.length + k) n = win l k n := by
  unfold win
  simp

theorem win_prefix (needle post : Bytes) : win (needle ++ post) 0 needle.length = needle := by
  unfold win
  simp

theorem win_cons_succ (a : UInt8) (l : Bytes) (k n : Nat) : win (a :: l) (k + 1) n = win l k n := by
  unfold win
  simp

/-- No 1-byte window inside `mid` matches `c` when `c ∉ mid`. -/
theorem noMatch_byte (c : UInt8) (mid : Bytes) (hc : c ∉ mid) : ∀ (post : Bytes) (k : Nat),
    k < mid.length → win (mid ++ post) k 1 ≠ [c] := by
  induction mid with
  | nil => intro post k hk; simp at hk
  | cons a t ih =>
    intro post k hk
    cases k with
    | zero =>
      simp [win]
      intro h; subst h; simp at hc
    | succ k' =>
      rw [List.cons_append, win_cons_succ]
      exact ih (fun h => hc (by simp [h])) post k' (by simpa using hk)

theorem hasCRLF_tail (a : UInt8) (t : Bytes) (h : hasCRLF (a :: t) = false) : hasCRLF t = false := by
  cases t with
  | nil => rfl
  | cons b t' =>
    unfold hasCRLF at h
    simp at h
    exact h.2

/-- No 2-byte window starting inside `mid` matches CR LF when `mid` has no CR LF
    (the window may straddle into the following CR LF). -/
theorem noMatch_crlf (mid : Bytes) (hm : hasCRLF mid = false) : ∀ (post : Bytes) (k : Nat),
    k < mid.length → win (mid ++ CRLF ++ post) k 2 ≠ CRLF := by
  induction mid with
  | nil => intro post k hk; simp at hk
  | cons a t ih =>
    intro post k hk
    cases k with
    | zero =>
      cases t with
      | nil => simp [win, CRLF]
      | cons b t' =>
        unfold hasCRLF at hm
        simp at hm
        simp [win, CRLF]
        intro h1 h2
        exact absurd h2 (hm.1 h1)
    | succ k' =>
      rw [List.cons_append, List.cons_append, win_cons_succ]
      exact ih (hasCRLF_tail a t hm) post k' (by simpa using hk)

theorem hasCRLF_cons_ne (a : UInt8) (t : Bytes) (ha : a ≠ 13) : hasCRLF (a :: t) = hasCRLF t := by
  cases t with
  | nil => rfl
  | cons b t' =>
    conv => lhs; unfold hasCRLF
    simp [ha]

theorem hasCRLF_append (a b : Bytes) (ha : hasCRLF a = false) (hb : hasCRLF b = false)
    (hh : b.head? ≠ some 10) : hasCRLF (a ++ b) = false := by
  induction a with
  | nil => simpa using hb
  | cons x t ih =>
    have iht := ih (hasCRLF_tail x t ha)
    cases t with
    | nil =>
      cases b with
      | nil => rfl
      | cons y b' =>
        simp only [List.cons_append, List.nil_append]
        unfold hasCRLF
        simp at hh
        simp [hh]
        simpa using hb
    | cons y t' =>
      simp only [List.cons_append] at iht ⊢
      unfold hasCRLF at ha ⊢
      simp at ha ⊢
      exact ⟨ha.1, iht⟩

/-! ### `find` / `memchr` / `readRange` on structured lists -/

theorem find_at (bs pre mid needle post : Bytes) (off : Nat) (hsize : Int)
    (hbs : bs = pre ++ mid ++ needle ++ post) (hoff : off = pre.length)
    (hsz : (off : Int) + hsize = bs.length)
    (hno : ∀ k, k < mid.length → win (mid ++ needle ++ post) k needle.length ≠ needle) :
    find bs off hsize needle = .ok (some (off + mid.length)) := by
  subst hoff
  have hlen : bs.length = pre.length + mid.length + needle.length + post.length := by
    rw [hbs]; simp; omega
  apply find_eq_some bs pre.length hsize needle (pre.length + mid.length) (by omega) (by omega)
    (by omega)
  · rw [hbs]
    have : pre ++ mid ++ needle ++ post = (pre ++ mid) ++ (needle ++ post) := by simp
    rw [this, show pre.length + mid.length = (pre ++ mid).length + 0 by simp, win_append_right,
      win_prefix]
  · intro k hk1 hk2
    rw [hbs]
    have : pre ++ mid ++ needle ++ post = pre ++ (mid ++ needle ++ post) := by simp
    rw [this, show k = pre.length + (k - pre.length) by omega, win_append_right]
    exact hno _ (by omega)

theorem memchr_eq_find (bs : Bytes) (off : Nat) (c : UInt8) (n : Int) (hn : 0 ≤ n) :
    memchr bs off c n = find bs off n [c] := by
  unfold memchr find
  rw [if_neg (by omega)]
  simp

theorem readRange_at (bs pre seg post : Bytes) (a b : Nat) (hbs : bs = pre ++ seg ++ post)
    (ha : a = pre.length) (hb : b = a + seg.length) : readRange bs a b = .ok seg := by
  subst ha hb hbs
  exact readRange_mid pre seg post

/-! ### the header loop on rendered header lines -/

theorem trimSpec_crlf (s : Bytes) : trimSpec (CRLF ++ s) = trimSpec s := by
  simp [trimSpec, CRLF, isWs]

def HeaderOK (h : Bytes × Bytes) : Prop := 58 ∉ h.1 ∧ hasCRLF h.1 = false ∧ hasCRLF h.2 = false

theorem headerLoop_render : ∀ (hs : List (Bytes × Bytes)) (pre : Bytes) (m : HMap),
    (∀ h ∈ hs, HeaderOK h) →
    headerLoop (pre ++ CRLF ++ renderHeaders hs ++ CRLF)
        (pre ++ CRLF ++ renderHeaders hs ++ CRLF).length (some pre.length) m
      = .ok (hs.foldl (fun m h => mapInsert (lowerCase (trimSpec h.1)) (trimSpec h.2) m) m) := by
  intro hs
  induction hs with
  | nil =>
    intro pre m _
    apply headerLoop_exit
    simp [renderHeaders, CRLF]
  | cons hd t ih =>
    intro pre m hok
    obtain ⟨name, value⟩ := hd
    obtain ⟨hcolon, hname, hvalue⟩ := hok (name, value) (by simp)
    simp only at hcolon hname hvalue
    -- the buffer, flattened
    have hbs : pre ++ CRLF ++ renderHeaders ((name, value) :: t) ++ CRLF
        = pre ++ CRLF ++ name ++ [58] ++ value ++ CRLF ++ (renderHeaders t ++ CRLF) := by
      simp [renderHeaders]
    rw [hbs]
    generalize hrest : renderHeaders t ++ CRLF = rest
    have hrl : 2 ≤ rest.length := by rw [← hrest]; simp [CRLF]
    generalize hbsd : pre ++ CRLF ++ name ++ [58] ++ value ++ CRLF ++ rest = bs
    have hlen : bs.length = pre.length + 2 + name.length + 1 + value.length + 2 + rest.length := by
      rw [← hbsd]; simp [CRLF]; omega
    have hne : (pre.length : Int) ≠ (bs.length : Int) - 4 := by omega
    have hf : find bs (pre.length + 2) ((bs.length : Int) - ((pre.length : Int) + 2 - 0)) CRLF
        = .ok (some (pre.length + 2 + (name ++ [58] ++ value).length)) := by
      apply find_at bs (pre ++ CRLF) (name ++ [58] ++ value) CRLF rest
      · rw [← hbsd]; simp
      · simp [CRLF]
      · omega
      · apply noMatch_crlf
        rw [List.append_assoc]
        apply hasCRLF_append _ _ hname
        · rw [List.singleton_append, hasCRLF_cons_ne _ _ (by decide)]; exact hvalue
        · simp
    have hm : memchr bs pre.length 58 ((bs.length : Int) - ((pre.length : Int) - 0))
        = .ok (some (pre.length + (CRLF ++ name).length)) := by
      rw [memchr_eq_find _ _ _ _ (by omega)]
      apply find_at bs pre (CRLF ++ name) [58] (value ++ CRLF ++ rest)
      · rw [← hbsd]; simp
      · rfl
      · omega
      · intro k hk
        rw [List.append_assoc]
        apply noMatch_byte 58 (CRLF ++ name) _ _ k hk
        simp [CRLF]
        exact hcolon
    rw [headerLoop_step _ _ _ _ _ _ hne hf hm]
    unfold headerBody
    dsimp only
    rw [if_neg (by simp [CRLF]; omega)]
    rw [readRange_at bs pre (CRLF ++ name) ([58] ++ value ++ CRLF ++ rest) _ _
      (by rw [← hbsd]; simp) rfl rfl]
    dsimp only
    rw [readRange_at bs (pre ++ CRLF ++ name ++ [58]) value (CRLF ++ rest) _ _
      (by rw [← hbsd]; simp) (by simp [CRLF]; omega) (by simp [CRLF]; omega)]
    dsimp only
    rw [trim_eq_spec, trim_eq_spec]
    dsimp only
    rw [trimSpec_crlf]
    have := ih (pre ++ CRLF ++ name ++ [58] ++ value) (mapInsert (lowerCase (trimSpec name)) (trimSpec value) m)
      (fun h hh => hok h (by simp [hh]))
    have hb2 : pre ++ CRLF ++ name ++ [58] ++ value ++ CRLF ++ renderHeaders t ++ CRLF = bs := by
      rw [← hbsd, ← hrest]; simp
    rw [hb2] at this
    have hp : (pre ++ CRLF ++ name ++ [58] ++ value).length
        = pre.length + 2 + (name ++ [58] ++ value).length := by
      simp [CRLF]; omega
    rw [hp] at this
    rw [this]
    simp

/-! ### round trip -/

theorem parseRequestE_render (r : RawRequest) (hwf : WellFormed r) :
    parseRequestE (render r) (render r).length = .ok (canon r) := by
  obtain ⟨method, target, version, hs⟩ := r
  obtain ⟨hm, ht, hv, hh⟩ := hwf
  simp only at hm ht hv hh
  have hloop := headerLoop_render hs (method ++ [32] ++ target ++ [32] ++ version) [] hh
  unfold render
  simp only
  generalize hbsd : method ++ [32] ++ target ++ [32] ++ version ++ CRLF ++ renderHeaders hs ++ CRLF = bs
    at hloop
  generalize hpost : renderHeaders hs ++ CRLF = post at *
  have hlen : bs.length = method.length + 1 + target.length + 1 + version.length + 2 + post.length := by
    rw [← hbsd, ← hpost]; simp [CRLF]; omega
  have hf1 : find bs 0 (bs.length : Int) [32] = .ok (some (0 + method.length)) := by
    apply find_at bs [] method [32] (target ++ [32] ++ version ++ CRLF ++ post)
    · rw [← hbsd, ← hpost]; simp
    · rfl
    · omega
    · intro k hk
      rw [List.append_assoc]
      exact noMatch_byte 32 method hm _ k hk
  have hf2 : find bs (0 + method.length + 1)
      ((bs.length : Int) - (((0 + method.length : Nat) : Int) - 0 + 1)) [32]
      = .ok (some (0 + method.length + 1 + target.length)) := by
    apply find_at bs (method ++ [32]) target [32] (version ++ CRLF ++ post)
    · rw [← hbsd, ← hpost]; simp
    · simp
    · omega
    · intro k hk
      rw [List.append_assoc]
      exact noMatch_byte 32 target ht _ k hk
  have hf3 : find bs (0 + method.length + 1 + target.length)
      ((bs.length : Int) - (((0 + method.length + 1 + target.length : Nat) : Int) - 0)) CRLF
      = .ok (some (0 + method.length + 1 + target.length + ([32] ++ version).length)) := by
    apply find_at bs (method ++ [32] ++ target) ([32] ++ version) CRLF post
    · rw [← hbsd, ← hpost]; simp
    · simp; omega
    · omega
    · apply noMatch_crlf
      rw [List.singleton_append, hasCRLF_cons_ne _ _ (by decide)]
      exact hv
  unfold parseRequestE
  rw [hf1]
  dsimp only
  rw [hf2]
  dsimp only
  rw [readRange_at bs [] method ([32] ++ target ++ [32] ++ version ++ CRLF ++ post) 0
    (0 + method.length) (by rw [← hbsd, ← hpost]; simp) rfl rfl]
  dsimp only
  rw [readRange_at bs (method ++ [32]) target ([32] ++ version ++ CRLF ++ post)
    (0 + method.length + 1) (0 + method.length + 1 + target.length)
    (by rw [← hbsd, ← hpost]; simp) (by simp) rfl]
  dsimp only
  rw [hf3]
  have hpos : 0 + method.length + 1 + target.length + ([32] ++ version).length
      = (method ++ [32] ++ target ++ [32] ++ version).length := by
    simp; omega
  rw [hpos]
  unfold canon canonPath canonHeaders
  simp only
  by_cases hc : method ≠ CONNECT
  · rw [if_pos hc, if_pos hc, normalize_eq_spec]
    dsimp only
    rw [hloop]
  · rw [if_neg hc, if_neg hc]
    dsimp only
    rw [hloop]

theorem parseRequest_render (r : RawRequest) (hwf : WellFormed r) :
    parseRequest (render r) (render r).length = .ok (canon r) := by
  unfold parseRequest
  rw [parseRequestE_render r hwf]


/-! ### inversion: what a successful parse says about `path` -/

theorem failParse_ne_ok {α : Type} (bs : Bytes) (len : Nat) (x : α) : failParse bs len ≠ .ok x := by
  unfold failParse; split <;> simp

theorem parseRequestE_path (bs : Bytes) (len : Nat) (r : Request) (he : parseRequestE bs len = .ok r) :
    (if r.method ≠ CONNECT then normalize (r.req.takeWhile (· != 63)) else .ok r.req) = .ok r.path := by
  unfold parseRequestE at he
  split at he
  · simp at he
  · exact absurd he (failParse_ne_ok _ _ _)
  · split at he
    · simp at he
    · exact absurd he (failParse_ne_ok _ _ _)
    · split at he
      · simp at he
      · split at he
        · simp at he
        · dsimp only at he
          split at he
          · simp at he
          · rename_i hp
            split at he
            · simp at he
            · split at he
              · simp at he
              · simp at he
                subst he
                exact hp

end SimVerif.Http
