/-
  SimVerif.Lemmas.TcpReuse — close() / open() / internal_connect leave an empty stream state
  (C05, reuse clause).
-/
import SimVerif.Lemmas.TcpSysInv
namespace SimVerif

/-- an empty stream state: nothing queued in either direction, counters at zero -/
structure TcpSock.StreamEmpty (s : TcpSock) : Prop where
  inq : s.inq = []
  reorder : s.reorder = []
  resend : s.resend = []
  nextIn : s.nextIn = 0
  nextOut : s.nextOut = 0
  inFlight : s.inFlight = 0
  outstanding : s.outstanding = []
  lastDrop : s.lastDrop = 0

theorem cancel_streamEmpty (s : TcpSock) (h : s.StreamEmpty) : s.cancel.1.StreamEmpty := by
  obtain ⟨h1, h2, h3, h4, h5, h6, h7, h8⟩ := h
  unfold TcpSock.cancel TcpSock.abortRecv TcpSock.abortSend
  dsimp only
  split <;> exact ⟨h1, h2, h3, h4, h5, h6, h7, h8⟩

theorem closeTail_streamEmpty (n : NetSt) (name : String) (e0 : List NEff) (s1 : TcpSock) (hs : n.tcp? name = some s1) :
    ∃ s', (closeTail n name e0).1.tcp? name = some s' ∧ s'.StreamEmpty ∧ s'.isOpen = false ∧ s'.chan = none := by
  obtain ⟨⟨s', h1, h2, _, h4⟩, _, _⟩ := closeTail_spec n name e0 s1 hs
  refine ⟨s', h1, ?_, h2, h4⟩
  unfold closeTail at h1
  rw [hs] at h1
  dsimp only at h1
  rw [tcp?_setTcp_same] at h1
  cases h1
  apply cancel_streamEmpty
  exact ⟨rfl, rfl, rfl, rfl, rfl, rfl, rfl, rfl⟩

theorem tcpClose_streamEmpty (n : NetSt) (now : Int) (name : String) (s0 : TcpSock) (hs : n.tcp? name = some s0) :
    ∃ s', (n.tcpClose now name).1.tcp? name = some s' ∧ s'.StreamEmpty ∧ s'.isOpen = false ∧ s'.chan = none := by
  rw [tcpClose_eq n now name s0 hs]
  obtain ⟨⟨s1, hs1⟩, _⟩ := closeHead_spec n now name s0 hs
  exact closeTail_streamEmpty _ name _ s1 hs1

theorem tcpOpen_streamEmpty (n : NetSt) (now : Int) (name : String) (v4 : Bool) (s0 : TcpSock) (hs : n.tcp? name = some s0) :
    ∃ s', (n.tcpOpen now name v4).1.tcp? name = some s' ∧ s'.StreamEmpty ∧ s'.chan = none := by
  obtain ⟨s1, h1, h2, _, h4⟩ := tcpClose_streamEmpty n now name s0 hs
  unfold NetSt.tcpOpen
  generalize n.tcpClose now name = r at h1
  obtain ⟨n1, e⟩ := r
  dsimp only at h1 ⊢
  rw [h1]
  dsimp only [NetSt.newFwd]
  exact ⟨_, tcp?_setTcp_same _ _ _, ⟨h2.1, h2.2, h2.3, h2.4, h2.5, h2.6, h2.7, h2.8⟩, h4⟩

theorem tcpAttach_streamEmpty (n : NetSt) (now : Int) (peer : String) (ep : Ep) (cid : Nat) (p0 : TcpSock)
    (hs : n.tcp? peer = some p0) :
    ∃ s', (n.tcpAttach now peer ep cid).1.tcp? peer = some s' ∧ s'.StreamEmpty := by
  obtain ⟨s1, h1, h2, _⟩ := tcpOpen_streamEmpty n now peer p0.isV4 p0 hs
  unfold NetSt.tcpAttach
  rw [hs]
  dsimp only
  generalize n.tcpOpen now peer p0.isV4 = r at h1
  obtain ⟨n1, e⟩ := r
  dsimp only at h1 ⊢
  rw [h1]
  split
  · rename_i p ch hp hch
    cases hp
    dsimp only
    rw [s5_tcp?_setChan]
    exact ⟨_, tcp?_setTcp_same _ _ _, ⟨h2.1, h2.2, h2.3, h2.4, h2.5, h2.6, h2.7, h2.8⟩⟩
  · exact ⟨s1, h1, h2⟩

end SimVerif
