/-
  SimVerif.Lemmas.SocksSafe — memory safety of the SOCKS proxy model over all histories:
  every member function, called on a connection whose arrays have their real sizes with a
  result the I/O layer can produce, returns without an out-of-bounds access and keeps the
  invariant; the pinned tree's four violations as concrete runs.
-/
import SimVerif.SocksSpec

namespace SimVerif.Socks

/-! ### checked memory: accesses inside the array succeed -/

theorem Buf.inb_of (b : Buf) (off n : Int) (h0 : 0 ≤ off) (h1 : 0 ≤ n) (h2 : off + n ≤ b.cap) :
    b.inb off n = true := by
  simp [Buf.inb, h0, h1, h2]

theorem Buf.get_of (b : Buf) (i : Int) (h0 : 0 ≤ i) (h1 : i + 1 ≤ b.cap) :
    b.get i = .ok (b.byte i.toNat) := by
  unfold Buf.get; rw [Buf.inb_of b i 1 h0 (by omega) h1]; rfl

theorem Buf.readN_of (b : Buf) (off n : Int) (h0 : 0 ≤ off) (h1 : 0 ≤ n) (h2 : off + n ≤ b.cap) :
    b.readN off n = .ok ((List.range n.toNat).map (fun j => b.byte (off.toNat + j))) := by
  unfold Buf.readN; rw [Buf.inb_of b off n h0 h1 h2]; rfl

theorem Buf.write_of (b : Buf) (off : Int) (bytes : Bytes) (h0 : 0 ≤ off) (h2 : off + bytes.length ≤ b.cap) :
    b.write off bytes = .ok (b.store off.toNat bytes) := by
  unfold Buf.write; rw [Buf.inb_of b off _ h0 (by omega) h2]; rfl

@[simp] theorem Buf.store_cap (b : Buf) (off : Nat) (bytes : Bytes) : (b.store off bytes).cap = b.cap := rfl

theorem ux_bounds (b : UInt8) : 0 ≤ ux b ∧ ux b ≤ 255 := by
  have := UInt8.toNat_lt b
  unfold ux; omega

/-! ### the invariant -/

/-- the region of a pending composed read lies inside `m_out_buffer` -/
def POp.Bnd : POp → Prop
  | .exact off need got _ => off + need ≤ 65536 ∧ got ≤ need
  | _ => True

def Act.Bnd (a : Act) : Prop := ∀ op, a.op? = some op → op.Bnd
def ActsOk (acts : List Act) : Prop := ∀ a ∈ acts, a.Bnd

/-- a member function returned normally, arrays and counters keep their sizes, regions in bounds -/
def Good : Out → Prop
  | .ok (c, cnt, acts) => c.Sized ∧ cnt.length = 3 ∧ ActsOk acts
  | .error _ => False

theorem Good_ok {c : Conn} {cnt : List Int} {acts : List Act} :
    Good (.ok (c, cnt, acts)) ↔ (c.Sized ∧ cnt.length = 3 ∧ ActsOk acts) := Iff.rfl

theorem ActsOk.nil : ActsOk [] := by intro a h; cases h
theorem ActsOk.cons {a : Act} {l : List Act} (ha : a.Bnd) (hl : ActsOk l) : ActsOk (a :: l) := by
  intro x hx
  rcases List.mem_cons.mp hx with h | h
  · subst h; exact ha
  · exact hl x h
theorem ActsOk.append {l1 l2 : List Act} (h1 : ActsOk l1) (h2 : ActsOk l2) : ActsOk (l1 ++ l2) := by
  intro x hx
  rcases List.mem_append.mp hx with h | h
  · exact h1 x h
  · exact h2 x h

theorem closeActs_ok : ActsOk closeActs := by
  simp [ActsOk, closeActs, Act.Bnd, Act.op?]

theorem closeConnection_good {c : Conn} {cnt : List Int} (hs : c.Sized) (hc : cnt.length = 3) :
    Good (closeConnection c cnt) := ⟨hs, hc, closeActs_ok⟩

theorem exactRead_good {c : Conn} {cnt : List Int} (hs : c.Sized) (hc : cnt.length = 3) (off : Nat) (n : Int)
    (k : Kind) (h0 : 0 ≤ n) (h1 : (off : Int) + n ≤ 65536) : Good (exactRead c cnt off n k) := by
  unfold exactRead
  rw [Buf.inb_of _ _ _ (by omega) h0 (by rw [hs.out]; omega)]
  refine ⟨hs, hc, ?_⟩
  simp [ActsOk, Act.Bnd, Act.op?, POp.Bnd]
  omega

theorem writeFrom_good {c : Conn} {cnt : List Int} (hs : c.Sized) (hc : cnt.length = 3) (s : Sock) (len : Int)
    (k : Kind) (h0 : 0 ≤ len) (h1 : len ≤ 65536) : Good (writeFrom c cnt s len k) := by
  unfold writeFrom
  cases s
  · dsimp only
    rw [Buf.readN_of _ _ _ (by omega) h0 (by rw [hs.inn]; omega)]
    refine ⟨hs, hc, ?_⟩
    simp [ActsOk, Act.Bnd, Act.op?, POp.Bnd]
  · dsimp only
    rw [Buf.readN_of _ _ _ (by omega) h0 (by rw [hs.out]; omega)]
    refine ⟨hs, hc, ?_⟩
    simp [ActsOk, Act.Bnd, Act.op?, POp.Bnd]

/-! ### member functions -/

section members
variable {c : Conn} {cnt : List Int}

theorem start_good (hs : c.Sized) (hc : cnt.length = 3) : Good (start c cnt) := by
  unfold start
  split
  · exact exactRead_good hs hc 0 9 _ (by omega) (by omega)
  · exact exactRead_good hs hc 0 2 _ (by omega) (by omega)

theorem onHandshake1_good (hs : c.Sized) (hc : cnt.length = 3) (ec : Ec) (n : Nat) :
    Good (onHandshake1 {} c cnt ec n) := by
  unfold onHandshake1
  rw [Buf.get_of _ 0 (by omega) (by rw [hs.out]; omega), Buf.get_of _ 1 (by omega) (by rw [hs.out]; omega)]
  dsimp only
  split
  · exact closeConnection_good hs hc
  · split
    · exact closeConnection_good hs hc
    · have := ux_bounds (c.outBuf.byte 1)
      exact exactRead_good hs hc 0 _ _ (by simp; omega) (by simp; omega)

theorem Conn.Sized.setIn (hs : c.Sized) (ib : Buf) (h : ib.cap = 65536) : ({ c with inBuf := ib } : Conn).Sized :=
  ⟨hs.out, h, hs.udp⟩
theorem Conn.Sized.setOut (hs : c.Sized) (ob : Buf) (h : ob.cap = 65536) : ({ c with outBuf := ob } : Conn).Sized :=
  ⟨h, hs.inn, hs.udp⟩
theorem Conn.Sized.setUdp (hs : c.Sized) (ub : Buf) (h : ub.cap = 1500) : ({ c with udpBuf := ub } : Conn).Sized :=
  ⟨hs.out, hs.inn, h⟩

theorem onHandshake2_good (hs : c.Sized) (hc : cnt.length = 3) (ec : Ec) (n : Nat) (hn : n ≤ 65536) :
    Good (onHandshake2 c cnt ec n) := by
  unfold onHandshake2
  rw [Buf.readN_of _ 0 n (by omega) (by omega) (by rw [hs.out]; omega),
    Buf.write_of _ 0 [5, 0] (by omega) (by rw [hs.inn]; simp)]
  dsimp only
  split
  · exact closeConnection_good hs hc
  · split
    · exact closeConnection_good hs hc
    · exact writeFrom_good (hs.setIn _ (by simp [hs.inn])) hc _ _ _ (by omega) (by omega)

theorem onHandshake3_good (hs : c.Sized) (hc : cnt.length = 3) (ec : Ec) (n : Nat) :
    Good (onHandshake3 c cnt ec n) := by
  unfold onHandshake3
  split
  · exact closeConnection_good hs hc
  · exact exactRead_good hs hc 0 10 _ (by omega) (by omega)

theorem formatResponse_ok (hs : c.Sized) (addr port response : Nat) :
    ∃ c' len, formatResponse c addr port response = .ok (c', len) ∧ c'.Sized ∧ len ≤ 10 := by
  unfold formatResponse
  dsimp only
  rw [Buf.write_of _ 0 _ (by omega) (by rw [hs.inn]; split <;> simp [addr4, port2])]
  refine ⟨_, _, rfl, hs.setIn _ (by simp [hs.inn]), ?_⟩
  split <;> simp [addr4, port2]

theorem formatHostnameResponse_ok (hs : c.Sized) (port response : Nat) :
    ∃ c' len acts, formatHostnameResponse c port response = .ok (c', len, acts) ∧ c'.Sized ∧ len ≤ 13 ∧ ActsOk acts := by
  unfold formatHostnameResponse
  split
  · exact ⟨_, _, _, rfl, hs, by omega, closeActs_ok⟩
  · dsimp only
    rw [Buf.write_of _ 0 _ (by omega) (by rw [hs.inn]; simp [port2])]
    exact ⟨_, _, _, rfl, hs.setIn _ (by simp [hs.inn]), by simp [port2], ActsOk.nil⟩

theorem onRequestDomainName_good (hs : c.Sized) (hc : cnt.length = 3) (ec : Ec) (n : Nat) :
    Good (onRequestDomainName {} c cnt ec n) := by
  unfold onRequestDomainName
  have hb := ux_bounds (c.outBuf.byte 4)
  rw [Buf.get_of _ 4 (by omega) (by rw [hs.out]; omega)]
  dsimp only
  simp only [Int.reduceToNat, if_true]
  rw [Buf.get_of _ _ (by omega) (by rw [hs.out]; omega), Buf.get_of _ _ (by omega) (by rw [hs.out]; omega),
    Buf.readN_of _ 5 _ (by omega) (by omega) (by rw [hs.out]; omega)]
  dsimp only
  split
  · exact closeConnection_good hs hc
  · refine ⟨hs, hc, ?_⟩
    simp [ActsOk, Act.Bnd, Act.op?, POp.Bnd]

theorem bump_ok (hc : cnt.length = 3) (i : Int) (h0 : 0 ≤ i) (h1 : i < 3) :
    ∃ cnt', bump cnt i = .ok cnt' ∧ cnt'.length = 3 := by
  unfold bump
  rw [if_pos (by omega)]
  exact ⟨_, rfl, by simp [hc]⟩

theorem onRequest1_good (hs : c.Sized) (hc : cnt.length = 3) (ec : Ec) (n : Nat) :
    Good (onRequest1 {} c cnt ec n) := by
  unfold onRequest1
  extract_lets expected
  split
  · exact closeConnection_good hs hc
  · have hh := Buf.readN_of c.outBuf 0 expected (by omega) (by omega) (by rw [hs.out]; unfold expected; split <;> omega)
    split
    · rename_i e he; rw [hh] at he; cases he
    · rename_i h he
      extract_lets b version command c' port addr atyp port5 len additional
      have hs' : c'.Sized := ⟨hs.out, hs.inn, hs.udp⟩
      have hb : 0 ≤ len ∧ len ≤ 255 := ux_bounds (b 4)
      have key : ∃ cnt', (if ({} : Params).cmdGuard = true then (if 1 ≤ command ∧ command ≤ 3 then bump cnt (command - 1) else .ok cnt) else bump cnt (command - 1)) = .ok cnt' ∧ cnt'.length = 3 := by
        rw [if_pos rfl]
        split
        · exact bump_ok hc _ (by omega) (by omega)
        · exact ⟨_, rfl, hc⟩
      obtain ⟨cnt', h1, h2⟩ := key
      rw [h1]
      dsimp only
      repeat' split
      all_goals first
        | exact closeConnection_good hs' h2
        | exact onRequestDomainName_good hs' h2 _ _
        | exact ⟨hs', h2, by simp [ActsOk, Act.Bnd, Act.op?, POp.Bnd]⟩
        | (rename_i hneg; simp at hneg; exact exactRead_good hs' h2 10 _ _ (by omega) (by omega))

theorem onRequestDomainLookup_good (hs : c.Sized) (hc : cnt.length = 3) (ec : Ec) (ips : List (Nat × Nat)) :
    Good (onRequestDomainLookup c cnt ec ips) := by
  unfold onRequestDomainLookup
  split
  · exact ⟨hs, hc, by simp [ActsOk, Act.Bnd, Act.op?, POp.Bnd]⟩
  · rw [Buf.write_of _ 0 _ (by omega) (by rw [hs.inn]; simp)]
    exact writeFrom_good (hs.setIn _ (by simp [hs.inn])) hc _ _ _ (by omega) (by omega)

theorem bindConnection2_good (hs : c.Sized) (hc : cnt.length = 3) (ec : Ec) (loc : Nat × Nat) :
    Good (bindConnection2 c cnt ec loc) := by
  unfold bindConnection2
  extract_lets response
  obtain ⟨c', len, h1, h2, h3⟩ := formatResponse_ok hs loc.1 loc.2 response
  rw [h1]
  exact writeFrom_good h2 hc _ _ _ (by omega) (by omega)

theorem onConnected_good (hs : c.Sized) (hc : cnt.length = 3) (ec : Ec) (remote : Option (Nat × Nat)) :
    Good (onConnected c cnt ec remote) := by
  unfold onConnected
  split
  · exact ⟨hs, hc, ActsOk.nil⟩
  · extract_lets ep response
    obtain ⟨c', len, h1, h2, h3⟩ := formatResponse_ok hs ep.1 ep.2 response
    rw [h1]
    exact writeFrom_good h2 hc _ _ _ (by omega) (by omega)

theorem udpAssociate2_good (hs : c.Sized) (hc : cnt.length = 3) (addr port : Nat) (ec : Ec) (loc : Nat × Nat) (cli : Nat) :
    Good (udpAssociate2 c cnt addr port ec loc cli) := by
  unfold udpAssociate2
  extract_lets c1 rcv response
  have hs1 : c1.Sized := ⟨hs.out, hs.inn, hs.udp⟩
  have hr : ActsOk rcv := by
    unfold rcv; split <;> simp [ActsOk, Act.Bnd, Act.op?, POp.Bnd]
  split
  · rename_i e he
    exfalso
    split at he
    · obtain ⟨c', len', acts, h1, _⟩ := formatHostnameResponse_ok hs1 loc.2 response
      rw [h1] at he; cases he
    · obtain ⟨c', len', h1, _⟩ := formatResponse_ok hs1 loc.1 loc.2 response
      rw [h1] at he; cases he
  rename_i c2 len a1 he
  obtain ⟨h2, h3, h4⟩ : c2.Sized ∧ len ≤ 13 ∧ ActsOk a1 := by
    split at he
    · obtain ⟨c', len', acts, h1, h2, h3, h4⟩ := formatHostnameResponse_ok hs1 loc.2 response
      rw [h1] at he; cases he; exact ⟨h2, h3, h4⟩
    · obtain ⟨c', len', h1, h2, h3⟩ := formatResponse_ok hs1 loc.1 loc.2 response
      rw [h1] at he; cases he; exact ⟨h2, by omega, ActsOk.nil⟩
  have hw := writeFrom_good h2 hc Sock.client (len : Int) (if ec ≠ .ok then Kind.closeAfter else Kind.waitEof) (by omega) (by omega)
  revert hw
  generalize writeFrom c2 cnt Sock.client (len : Int) (if ec ≠ .ok then Kind.closeAfter else Kind.waitEof) = w
  intro hw
  match w, hw with
  | .ok (c3, cnt3, a2), hw => exact ⟨hw.1, hw.2.1, (hr.append h4).append hw.2.2⟩

theorem waitForEof_good (hs : c.Sized) (hc : cnt.length = 3) (ec : Ec) : Good (waitForEof c cnt ec) := by
  unfold waitForEof
  split
  · exact ⟨⟨hs.out, hs.inn, hs.udp⟩, hc, by simp [ActsOk, Act.Bnd, Act.op?, POp.Bnd]⟩
  · split
    · exact ⟨hs, hc, by simp [ActsOk, Act.Bnd, Act.op?, POp.Bnd]⟩
    · exact ⟨hs, hc, by simp [ActsOk, Act.Bnd, Act.op?, POp.Bnd, readSomeAct]⟩

theorem startAccept_good (hs : c.Sized) (hc : cnt.length = 3) (ec : Ec) : Good (startAccept c cnt ec) := by
  unfold startAccept
  split
  · exact closeConnection_good hs hc
  · exact ⟨hs, hc, by simp [ActsOk, Act.Bnd, Act.op?, POp.Bnd, readSomeAct]⟩

theorem relayStart_good (hs : c.Sized) (hc : cnt.length = 3) (ec : Ec) : Good (relayStart c cnt ec) := by
  unfold relayStart
  split
  · exact ⟨hs, hc, ActsOk.nil⟩
  · exact ⟨hs, hc, by simp [ActsOk, Act.Bnd, Act.op?, POp.Bnd, readSomeAct]⟩

theorem onClientReceive_good (hs : c.Sized) (hc : cnt.length = 3) (ec : Ec) (n : Nat) (hn : n ≤ 65536) :
    Good (onClientReceive c cnt ec n) := by
  unfold onClientReceive
  split
  · exact ⟨hs, hc, ActsOk.nil⟩
  · split
    · exact closeConnection_good hs hc
    · exact writeFrom_good hs hc _ _ _ (by omega) (by omega)

theorem onClientForward_good (hs : c.Sized) (hc : cnt.length = 3) (ec : Ec) : Good (onClientForward c cnt ec) := by
  unfold onClientForward
  split
  · exact closeConnection_good hs hc
  · exact ⟨hs, hc, by simp [ActsOk, Act.Bnd, Act.op?, POp.Bnd, readSomeAct]⟩

theorem onServerReceive_good (hs : c.Sized) (hc : cnt.length = 3) (ec : Ec) (n : Nat) (hn : n ≤ 65536) :
    Good (onServerReceive c cnt ec n) := by
  unfold onServerReceive
  split
  · exact closeConnection_good hs hc
  · exact writeFrom_good hs hc _ _ _ (by omega) (by omega)

theorem onServerForward_good (hs : c.Sized) (hc : cnt.length = 3) (ec : Ec) : Good (onServerForward c cnt ec) := by
  unfold onServerForward
  split
  · exact closeConnection_good hs hc
  · exact ⟨hs, hc, by simp [ActsOk, Act.Bnd, Act.op?, POp.Bnd, readSomeAct]⟩

theorem udpResolved_good (hs : c.Sized) (hc : cnt.length = 3) (payload host : Bytes) (ec : Ec) (ips : List (Nat × Nat)) :
    Good (udpResolved c cnt payload host ec ips) := by
  unfold udpResolved
  split
  · exact ⟨hs, hc, ActsOk.nil⟩
  · split
    · refine ⟨hs, hc, ?_⟩
      intro a ha
      obtain ⟨t, _, rfl⟩ := List.mem_map.mp ha
      simp [Act.Bnd, Act.op?]
    · split
      · exact ⟨hs, hc, ActsOk.nil⟩
      · exact ⟨⟨hs.out, hs.inn, hs.udp⟩, hc, by simp [ActsOk, Act.Bnd, Act.op?, POp.Bnd]⟩

theorem onReadUdp_good (hs : c.Sized) (hc : cnt.length = 3) (ec : Ec) (n : Nat) (src : Nat × Nat) (hn : n ≤ 1500) :
    Good (onReadUdp {} c cnt ec n src) := by
  unfold onReadUdp
  split
  · exact ⟨hs, hc, ActsOk.nil⟩
  · extract_lets c1 rearm
    have hs1 : c1.Sized := by
      unfold c1; split
      · exact ⟨hs.out, hs.inn, hs.udp⟩
      · exact hs
    have hcap := hs1.udp
    have hre : ActsOk rearm := by simp [rearm, ActsOk, Act.Bnd, Act.op?, POp.Bnd]
    split
    · split
      · rename_i t l ht hl
        extract_lets atyp len
        have hb := ux_bounds l
        have hlen : len = ux l := rfl
        split
        · exact ⟨hs1, hc, hre⟩
        · rename_i hn1
          split
          · exact ⟨hs1, hc, hre⟩
          · rename_i hn2
            simp at hn1 hn2
            split
            · rename_i h3
              have := hn1 h3
              split
              · split
                · refine ⟨hs1, hc, ActsOk.append (by simp [ActsOk, Act.Bnd, Act.op?]) ?_⟩
                  split
                  · exact hre
                  · exact ActsOk.nil
                · exact ⟨hs1, hc, ActsOk.append (by simp [ActsOk, Act.Bnd, Act.op?, POp.Bnd]) hre⟩
              · rename_i hno
                exfalso
                exact hno _ _ _ _ (Buf.readN_of _ _ _ (by omega) (by omega) (by omega))
                  (Buf.get_of _ _ (by omega) (by omega)) (Buf.get_of _ _ (by omega) (by omega))
                  (Buf.readN_of _ _ _ (by omega) (by omega) (by omega))
            · split
              · rename_i h1
                have := hn2 h1
                split
                · exact ⟨hs1, hc, ActsOk.append (by simp [ActsOk, Act.Bnd, Act.op?]) hre⟩
                · rename_i hno
                  exfalso
                  exact hno _ _ (Buf.readN_of _ _ _ (by omega) (by omega) (by omega))
                    (Buf.readN_of _ _ _ (by omega) (by omega) (by omega))
              · exact ⟨hs1, hc, hre⟩
      · rename_i hno
        exfalso
        exact hno _ _ (Buf.get_of _ _ (by omega) (by omega)) (Buf.get_of _ _ (by omega) (by omega))
    · split
      · rename_i e he
        rw [Buf.readN_of _ _ _ (by omega) (by omega) (by omega)] at he
        cases he
      · exact ⟨hs1, hc, ActsOk.append (by simp [ActsOk, Act.Bnd, Act.op?]) hre⟩

theorem exactDone_good (hs : c.Sized) (hc : cnt.length = 3) (k : Kind) (ec : Ec) (total : Nat) (ht : total ≤ 65536) :
    Good (exactDone {} c cnt k ec total) := by
  unfold exactDone
  split
  · exact onHandshake1_good hs hc _ _
  · exact onHandshake2_good hs hc _ _ ht
  · exact onRequest1_good hs hc _ _
  · exact onRequestDomainName_good hs hc _ _
  · exact ⟨hs, hc, ActsOk.nil⟩

theorem onExactChunk_good (hs : c.Sized) (hc : cnt.length = 3) (off need got : Nat) (k : Kind) (ec : Ec) (data : Bytes)
    (hb : off + need ≤ 65536 ∧ got ≤ need) (hv : data.length ≤ min (need - got) 65536) :
    Good (onExactChunk {} c cnt off need got k ec data) := by
  have hd : data.length ≤ need - got := Nat.le_trans hv (Nat.min_le_left _ _)
  unfold onExactChunk exactStep
  rw [Buf.write_of _ _ _ (by omega) (by rw [hs.out]; omega)]
  dsimp only
  have hs1 := hs.setOut (c.outBuf.store ((off + got : Nat) : Int).toNat data) (by simp [hs.out])
  split
  · exact exactDone_good hs1 hc _ _ _ (by omega)
  · refine ⟨hs1, hc, ?_⟩
    simp [ActsOk, Act.Bnd, Act.op?, POp.Bnd]
    omega

theorem complete_good (hs : c.Sized) (hc : cnt.length = 3) (op : POp) (r : Res) (hb : op.Bnd) (hv : valid op r = true) :
    Good (complete {} c cnt op r) := by
  cases op with
  | exact off need got k =>
    cases r with
    | rd ec data =>
      simp [valid] at hv
      exact onExactChunk_good hs hc _ _ _ _ _ _ hb (by omega)
    | _ => simp [valid] at hv
  | readSome s k =>
    cases r with
    | rd ec data =>
      simp [valid] at hv
      unfold complete
      cases s
      · dsimp only
        rw [Buf.write_of _ 0 _ (by omega) (by rw [hs.out]; omega)]
        have hs1 := hs.setOut (c.outBuf.store (0 : Int).toNat data) (by simp [hs.out])
        dsimp only
        split
        · exact onClientReceive_good hs1 hc _ _ hv
        · exact waitForEof_good hs1 hc _
        · exact ⟨hs1, hc, ActsOk.nil⟩
      · dsimp only
        rw [Buf.write_of _ 0 _ (by omega) (by rw [hs.inn]; omega)]
        have hs1 := hs.setIn (c.inBuf.store (0 : Int).toNat data) (by simp [hs.inn])
        dsimp only
        split
        · exact onServerReceive_good hs1 hc _ _ hv
        · exact ⟨hs1, hc, ActsOk.nil⟩
    | _ => simp [valid] at hv
  | write s len k =>
    cases r with
    | wr ec n =>
      unfold complete
      dsimp only
      split
      · exact onHandshake3_good hs hc _ _
      · exact closeConnection_good hs hc
      · exact startAccept_good hs hc _
      · exact waitForEof_good hs hc _
      · exact relayStart_good hs hc _
      · exact onClientForward_good hs hc _
      · exact onServerForward_good hs hc _
      · exact ⟨hs, hc, ActsOk.nil⟩
    | _ => simp [valid] at hv
  | resolve =>
    cases r with
    | ips ec l => exact onRequestDomainLookup_good hs hc _ _
    | _ => simp [valid] at hv
  | connect =>
    cases r with
    | conn ec rem => exact onConnected_good hs hc _ _
    | _ => simp [valid] at hv
  | accept =>
    cases r with
    | conn ec rem => exact onConnected_good hs hc _ _
    | _ => simp [valid] at hv
  | bound =>
    cases r with
    | bnd ec loc cli => exact bindConnection2_good hs hc _ _
    | _ => simp [valid] at hv
  | udpBound a pt =>
    cases r with
    | bnd ec loc cli => exact udpAssociate2_good hs hc _ _ _ _ _
    | _ => simp [valid] at hv
  | udpRecv =>
    cases r with
    | dgram ec data src =>
      simp [valid] at hv
      unfold complete
      dsimp only
      rw [Buf.write_of _ 0 _ (by omega) (by rw [hs.udp]; omega)]
      exact onReadUdp_good (hs.setUdp _ (by simp [hs.udp])) hc _ _ _ hv
    | _ => simp [valid] at hv
  | udpResolve payload host =>
    cases r with
    | ips ec l => exact udpResolved_good hs hc _ _ _ _
    | _ => simp [valid] at hv

end members

/-! ### the system invariant and its preservation -/

theorem addOps_bnd (acts : List Act) : ∀ (pend : List PEnt), (∀ e ∈ pend, e.op.Bnd) → ActsOk acts →
    ∀ e ∈ addOps pend acts, e.op.Bnd := by
  induction acts with
  | nil => intro pend hp _; exact hp
  | cons a rest ih =>
    intro pend hp ha
    have ha1 : a.Bnd := ha a (List.mem_cons_self ..)
    have ha2 : ActsOk rest := fun x hx => ha x (List.mem_cons_of_mem _ hx)
    unfold addOps
    split
    · exact ih pend hp ha2
    · rename_i op hop
      dsimp only
      apply ih _ _ ha2
      intro e he
      rcases List.mem_append.mp he with h | h
      · split at h
        · obtain ⟨e0, he0, rfl⟩ := List.mem_map.mp h
          split
          · exact hp e0 he0
          · exact hp e0 he0
        · exact hp e h
      · rw [List.mem_singleton] at h
        subst h
        exact ha1 op hop

structure SSafe (s : SS) : Prop where
  cnt : s.cnt.length = 3
  sized : ∀ cs ∈ s.conns, cs.c.Sized
  pend : ∀ cs ∈ s.conns, ∀ e ∈ cs.pend, e.op.Bnd

theorem SSafe.init (ver : Int) (flags : Nat) : SSafe (SS.init ver flags) :=
  ⟨rfl, fun _ h => (by cases h), fun _ h => (by cases h)⟩

theorem SSafe.step {s : SS} (hs : SSafe s) (l : SLbl) : ∃ s', s.step {} l = .ok s' ∧ SSafe s' := by
  cases l with
  | accept =>
    unfold SS.step
    dsimp only
    have hg := start_good (c := { ver := s.ver, flags := s.flags }) (cnt := s.cnt) ⟨rfl, rfl, rfl⟩ hs.cnt
    revert hg
    generalize start { ver := s.ver, flags := s.flags } s.cnt = w
    intro hg
    match w, hg with
    | .ok (c, cnt, acts), hg =>
      refine ⟨_, rfl, hg.2.1, ?_, ?_⟩
      · intro cs hcs
        rcases List.mem_append.mp hcs with h | h
        · exact hs.sized cs h
        · rw [List.mem_singleton] at h; subst h; exact hg.1
      · intro cs hcs
        rcases List.mem_append.mp hcs with h | h
        · exact hs.pend cs h
        · rw [List.mem_singleton] at h; subst h
          exact addOps_bnd acts [] (fun _ h => by cases h) hg.2.2
  | complete ci i r =>
    unfold SS.step
    dsimp only
    split
    · exact ⟨s, rfl, hs⟩
    · rename_i cs hcs
      split
      · exact ⟨s, rfl, hs⟩
      · rename_i e he
        split
        · exact ⟨s, rfl, hs⟩
        · rename_i hok
          have hcsm : cs ∈ s.conns := List.mem_of_getElem? hcs
          have hem : e ∈ cs.pend := List.mem_of_getElem? he
          have hv : valid e.op r = true := by
            simp [PEnt.ok] at hok
            exact hok.1
          have hg := complete_good (hs.sized cs hcsm) hs.cnt e.op r (hs.pend cs hcsm e hem) hv
          revert hg
          generalize complete {} cs.c s.cnt e.op r = w
          intro hg
          match w, hg with
          | .ok (c, cnt, acts), hg =>
            refine ⟨_, rfl, hg.2.1, ?_, ?_⟩
            · intro cs' hcs'
              rcases List.mem_or_eq_of_mem_set hcs' with h | h
              · exact hs.sized cs' h
              · subst h; exact hg.1
            · intro cs' hcs'
              rcases List.mem_or_eq_of_mem_set hcs' with h | h
              · exact hs.pend cs' h
              · subst h
                exact addOps_bnd acts _ (fun e' he' => hs.pend cs hcsm e' (List.mem_of_mem_eraseIdx he')) hg.2.2

theorem SSafe.run (ls : List SLbl) : ∀ {s : SS}, SSafe s → ∃ s', s.run {} ls = .ok s' := by
  induction ls with
  | nil => intro s _; exact ⟨s, rfl⟩
  | cons l rest ih =>
    intro s hs
    obtain ⟨s1, h1, h2⟩ := hs.step l
    unfold SS.run
    rw [h1]
    exact ih h2


/-- the run of the repaired tree never faults -/
theorem no_oob_run (ver : Int) (flags : Nat) (ls : List SLbl) :
    ∃ s, (SS.init ver flags).run {} ls = .ok s :=
  SSafe.run ls (SSafe.init ver flags)

/-- a step on connection `ci` leaves every other connection untouched -/
theorem step_isolated (p : Params) (s s' : SS) (ci i : Nat) (r : Res) (cj : Nat)
    (h : s.step p (.complete ci i r) = .ok s') (hne : cj ≠ ci) : s'.conns[cj]? = s.conns[cj]? := by
  unfold SS.step at h
  dsimp only at h
  split at h
  · cases h; rfl
  · split at h
    · cases h; rfl
    · split at h
      · cases h; rfl
      · split at h
        · cases h
        · cases h
          exact List.getElem?_set_ne (Ne.symm hne)

/-- … and an accept only appends a connection -/
theorem step_accept_keeps (p : Params) (s s' : SS) (h : s.step p .accept = .ok s') (cj : Nat)
    (hlt : cj < s.conns.length) : s'.conns[cj]? = s.conns[cj]? := by
  unfold SS.step at h
  dsimp only at h
  split at h
  · cases h
  · cases h
    exact List.getElem?_append_left hlt

/-! ### the pinned tree (bb9bed4): concrete violating runs -/

/-- greeting, method list, method reply written -/
def hs5 : List SLbl :=
  [.accept, .complete 0 0 (.rd .ok [5, 1]), .complete 0 0 (.rd .ok [0]), .complete 0 0 (.wr .ok 2)]

/-- F21: command byte 0 → `++m_cmd_counts[-1]` -/
def witF21 : List SLbl := hs5 ++ [.complete 0 0 (.rd .ok [5, 0, 0, 1, 10, 0, 2, 1, 31, 144])]
/-- F22: host name of length 0 → read of `size_t(-3)` bytes at offset 10 -/
def witF22 : List SLbl := hs5 ++ [.complete 0 0 (.rd .ok [5, 1, 0, 3, 0, 97, 98, 99, 31, 144])]
/-- F37: NMETHODS = 0x80 → read of `size_t(-128)` bytes -/
def witF37 : List SLbl := [.accept, .complete 0 0 (.rd .ok [5, 0x80])]
/-- F23: UDP ASSOCIATE, then a 4-byte datagram `00 00 00 01` from the client -/
def witF23 : List SLbl :=
  hs5 ++ [.complete 0 0 (.rd .ok [5, 3, 0, 1, 10, 0, 0, 1, 15, 160]),      -- UDP ASSOCIATE 10.0.0.1:4000
          .complete 0 0 (.bnd .ok (167772417, 2048) 167772161),              -- socket bound
          .complete 0 0 (.dgram .ok [0, 0, 0, 1] (167772161, 4000))]

theorem asis_F21 : faulted ((SS.init 5 0).run Params.asIs witF21) = true := by decide
theorem asis_F22 : faulted ((SS.init 5 0).run Params.asIs witF22) = true := by decide
theorem asis_F37 : faulted ((SS.init 5 0).run Params.asIs witF37) = true := by decide
theorem asis_F23 : faulted ((SS.init 5 0).run Params.asIs witF23) = true := by decide
/-- the same four runs are clean on the repaired tree -/
theorem fixed_wits : faulted ((SS.init 5 0).run {} witF21) = false ∧ faulted ((SS.init 5 0).run {} witF22) = false
    ∧ faulted ((SS.init 5 0).run {} witF37) = false ∧ faulted ((SS.init 5 0).run {} witF23) = false := by decide

end SimVerif.Socks
