/-
  SimVerif.Lemmas.SocksSafe — memory safety of the SOCKS proxy model over all histories:
  every member function, called on a connection whose arrays have their real sizes with a
  result the I/O layer can produce, returns without an out-of-bounds access and keeps the
  invariant; the pinned tree's four violations as concrete runs.
-/
import SimVerif.SocksSpec

namespace SimVerif.Socks

/-- the run of the repaired tree never faults -/
theorem no_oob_run (ver : Int) (flags : Nat) (ls : List SLbl) :
    ∃ s, (SS.init ver flags).run {} ls = .ok s := by
  sorry

/-- a step on connection `ci` leaves every other connection untouched -/
theorem step_isolated (p : Params) (s s' : SS) (ci i : Nat) (r : Res) (cj : Nat)
    (h : s.step p (.complete ci i r) = .ok s') (hne : cj ≠ ci) : s'.conns[cj]? = s.conns[cj]? := by
  sorry

/-- … and an accept only appends a connection -/
theorem step_accept_keeps (p : Params) (s s' : SS) (h : s.step p .accept = .ok s') (cj : Nat)
    (hlt : cj < s.conns.length) : s'.conns[cj]? = s.conns[cj]? := by
  sorry

/-! ### the pinned tree (bb9bed4): concrete violating runs -/

/-- greeting, method list, method reply written -/
def hs5 : List SLbl :=
  [.accept, .complete 0 0 (.rd .ok [5, 1]), .complete 0 0 (.rd .ok [0]), .complete 0 0 (.wr .ok 2)]

/-- F21: command byte 0 → `++m_cmd_counts[-1]` -/
def witF21 : List SLbl := hs5 ++ [.complete 0 0 (.rd .ok [5, 0, 0, 1, 10, 0, 2, 1, 31, 144])]
/-- F22: host name of length 0 → read of `size_t(-3)` bytes at offset 10 -/
def witF22 : List SLbl := hs5 ++ [.complete 0 0 (.rd .ok [5, 1, 0, 3, 0, 97, 98, 99, 31, 144])]
/-- F37: NMETHODS = 0x80 → read of `size_t(-128)` bytes -/
def witF37 : List SLbl := [.accept, .complete 0 0 (.rd .ok [5, 0x80])]
/-- F23: UDP ASSOCIATE, then a 4-byte datagram `00 00 00 01` from the client -/
def witF23 : List SLbl :=
  hs5 ++ [.complete 0 0 (.rd .ok [5, 3, 0, 1, 10, 0, 0, 1, 15, 160]),      -- UDP ASSOCIATE 10.0.0.1:4000
          .complete 0 0 (.bnd .ok (167772417, 2048) 167772161),              -- socket bound
          .complete 0 0 (.dgram .ok [0, 0, 0, 1] (167772161, 4000))]

theorem asis_F21 : faulted ((SS.init 5 0).run Params.asIs witF21) = true := by sorry
theorem asis_F22 : faulted ((SS.init 5 0).run Params.asIs witF22) = true := by sorry
theorem asis_F37 : faulted ((SS.init 5 0).run Params.asIs witF37) = true := by sorry
theorem asis_F23 : faulted ((SS.init 5 0).run Params.asIs witF23) = true := by sorry
/-- the same four runs are clean on the repaired tree -/
theorem fixed_wits : faulted ((SS.init 5 0).run {} witF21) = false ∧ faulted ((SS.init 5 0).run {} witF22) = false
    ∧ faulted ((SS.init 5 0).run {} witF37) = false ∧ faulted ((SS.init 5 0).run {} witF23) = false := by sorry

end SimVerif.Socks
