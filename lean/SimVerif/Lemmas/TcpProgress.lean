/-
  SimVerif.Lemmas.TcpProgress — lemmas for the C06 open systems (SimVerif/TcpSys.lean):
  table lookups, the socket-level description of every mechanism function on an established
  socket (`Est`), the pure invariant `Core` of the sender's window account with its ghost
  bags, and its preservation by every micro-step and every label.
  Everything lives in the namespace `SimVerif.Prog`.
-/
import SimVerif.TcpSys

namespace SimVerif.Prog

/-! ### tables -/

theorem lookup_map_set {α : Type} (l : List (String × α)) (k k' : String) (v : α) :
    (l.map (fun e => if e.1 == k then (k, v) else e)).lookup k'
      = if k' = k then (l.lookup k).map (fun _ => v) else l.lookup k' := by
  induction l with
  | nil => simp [List.lookup]
  | cons x xs ih =>
    obtain ⟨k₀, v₀⟩ := x
    simp only [List.map_cons, List.lookup_cons]
    grind

theorem lookup_append_single {α : Type} (l : List (String × α)) (k k' : String) (v : α) :
    (l ++ [(k, v)]).lookup k' = match l.lookup k' with
      | some x => some x
      | none => if k' = k then some v else none := by
  induction l with
  | nil =>
    by_cases h : k' = k
    · simp [List.lookup, h]
    · have : (k' == k) = false := by simp [h]
      simp [List.lookup, h, this]
  | cons x xs ih =>
    obtain ⟨k₀, v₀⟩ := x
    simp only [List.cons_append, List.lookup_cons]
    grind

theorem lookup_setAssoc {α : Type} (l : List (String × α)) (k k' : String) (v : α) :
    (setAssoc l k v).lookup k' = if k' = k then some v else l.lookup k' := by
  unfold setAssoc
  split
  · rename_i h
    rw [lookup_map_set]
    split
    · cases hh : l.lookup k with
      | none => simp [hh] at h
      | some x => simp
    · rfl
  · rename_i h
    have hn : l.lookup k = none := by
      cases hh : l.lookup k with
      | none => rfl
      | some x => simp [hh] at h
    rw [lookup_append_single]
    by_cases h1 : k' = k
    · subst h1; simp [hn]
    · simp [h1]
      cases l.lookup k' <;> rfl

@[simp] theorem tcp_setTcp_same (n : NetSt) (name : String) (t : TcpSock) :
    (n.setTcp name t).tcp? name = some t := by
  simp [NetSt.setTcp, NetSt.tcp?, lookup_setAssoc]

theorem tcp_setTcp_other (n : NetSt) (name o : String) (t : TcpSock) (h : o ≠ name) :
    (n.setTcp name t).tcp? o = n.tcp? o := by
  simp [NetSt.setTcp, NetSt.tcp?, lookup_setAssoc, h]

@[simp] theorem tcp_setChan (n : NetSt) (c : Nat) (ch : Chan) (o : String) :
    (n.setChan c ch).tcp? o = n.tcp? o := rfl
@[simp] theorem chan_setTcp (n : NetSt) (name : String) (t : TcpSock) (c : Nat) :
    (n.setTcp name t).chan? c = n.chan? c := rfl
@[simp] theorem fwdTarget_setTcp (n : NetSt) (name : String) (t : TcpSock) (f : Nat) :
    (n.setTcp name t).fwdTarget f = n.fwdTarget f := rfl
@[simp] theorem fwdTarget_setChan (n : NetSt) (c : Nat) (ch : Chan) (f : Nat) :
    (n.setChan c ch).fwdTarget f = n.fwdTarget f := rfl

theorem chan_setChan (n : NetSt) (c d : Nat) (ch : Chan) :
    (n.setChan c ch).chan? d = if d = c then (n.chan? d).map (fun _ => ch) else n.chan? d := by
  simp only [NetSt.setChan, NetSt.chan?, List.getElem?_mapIdx]
  split
  · cases n.chans[d]? <;> simp
  · cases n.chans[d]? <;> simp [*]

/-! ### an established socket: what each mechanism function does to it -/

structure Est (n : NetSt) (t : TcpSock) : Prop where
  sock : n.tcp? sockA = some t
  isOpen : t.isOpen = true
  chanId : t.chan = some 0
  chanOk : ∃ ch, n.chan? 0 = some ch ∧ (ch.hops (ch.remoteIdx t.bound)).isEmpty = false
  fwdOk : ∃ f, t.fwd = some f ∧ n.fwdTarget f = some sockA

theorem Est.set {n : NetSt} {t : TcpSock} (h : Est n t) (t' : TcpSock) (h1 : t'.isOpen = t.isOpen)
    (h2 : t'.chan = t.chan) (h3 : t'.bound = t.bound) (h4 : t'.fwd = t.fwd) :
    Est (n.setTcp sockA t') t' := by
  refine ⟨by simp, by rw [h1, h.isOpen], by rw [h2, h.chanId], ?_, ?_⟩
  · simpa [h3] using h.chanOk
  · simpa [h4] using h.fwdOk

def sendPkt (t : TcpSock) (p : Pkt) : TcpSock :=
  { t with inFlight := t.inFlight + p.payload.length,
           outstanding := t.outstanding.filter (fun e => e.1 != p.id) ++ [(p.id, p.payload.length)] }

@[simp] theorem absorb_nil (s : TxS) : s.absorb [] = s := rfl
@[simp] theorem absorb_post (s : TxS) (c : Compl) (r : List NEff) :
    s.absorb (.post c :: r) = ({ s with posts := s.posts ++ [c] }).absorb r := rfl
@[simp] theorem absorb_forward (s : TxS) (p : Pkt) (r : List NEff) :
    s.absorb (.forward p :: r) = ({ s with bag := s.bag ++ [p] }).absorb r := rfl
@[simp] theorem absorb_pcap (s : TxS) (a : Int) (b c : Ep) (d : Nat) (e : List UInt8) (r : List NEff) :
    s.absorb (.pcapTcp a b c d e :: r) = s.absorb r := rfl

theorem sendPacket_lift {n : NetSt} {t : TcpSock} (h : Est n t) (now : Int) (p : Pkt) :
    ∃ b, Est (n.tcpSendPacket now sockA p).1 (sendPkt t p)
      ∧ ∀ s : TxS, s.absorb (n.tcpSendPacket now sockA p).2 = { s with bag := s.bag ++ [{ p with bc := b }] } := by
  obtain ⟨ch, hc, hh⟩ := h.chanOk
  obtain ⟨f, hf, hft⟩ := h.fwdOk
  have hb : t.chan.bind n.chan? = some ch := by rw [h.chanId]; exact hc
  have hg : t.chan.getD 0 = 0 := by rw [h.chanId]; rfl
  unfold NetSt.tcpSendPacket
  simp only [h.sock, hb, hg]
  refine ⟨if ch.selfIdx t.bound = 0 then ch.sent0 else ch.sent1, ⟨by simp [sendPkt], h.isOpen, h.chanId, ?_, ⟨f, hf, by simpa using hft⟩⟩, ?_⟩
  · refine ⟨_, by rw [chan_setTcp, chan_setChan]; simp [hc]; rfl, ?_⟩
    show (Chan.hops _ (Chan.remoteIdx _ t.bound)).isEmpty = false
    split <;> simpa [Chan.hops, Chan.remoteIdx] using hh
  · intro s
    split <;> simp

def segPkt (t : TcpSock) (hops : List String) (seg : List UInt8) : Pkt :=
  { id := t.nextOut, ty := .payload, len := seg.length, ovh := 40, hops := hops, src := t.bound.toString,
    payload := seg, hasDrop := true, dropFwd := t.fwd }

theorem sendSeg_lift {n : NetSt} {t : TcpSock} (h : Est n t) (now : Int) (hops : List String) (seg : List UInt8) :
    ∃ b, Est (n.tcpSendSeg now sockA hops seg).1 (sendPkt { t with nextOut := t.nextOut + 1 } (segPkt t hops seg))
      ∧ ∀ s : TxS, s.absorb (n.tcpSendSeg now sockA hops seg).2
          = { s with bag := s.bag ++ [{ segPkt t hops seg with bc := b }] } := by
  unfold NetSt.tcpSendSeg
  simp only [h.sock]
  exact sendPacket_lift (h.set { t with nextOut := t.nextOut + 1 } rfl rfl rfl rfl) now _

theorem windowFull_lift {n : NetSt} {t : TcpSock} (h : Est n t) :
    n.tcpWindowFull sockA = decide (t.inFlight + t.mss > t.cwnd) := by
  unfold NetSt.tcpWindowFull; simp only [h.sock]

def segsOf (mss : Nat) (bufs : List (List UInt8)) : List (List UInt8) :=
  (bufs.map (fun b => cutBuf mss (b.length + 1) b)).flatten

theorem writePrep_lift {n : NetSt} {t : TcpSock} (h : Est n t) (bufs : List (List UInt8)) :
    ((t.connectH.isSome = true ∨ t.inFlight + t.mss > t.cwnd) ∧ n.tcpWritePrep sockA bufs = .error .wouldBlock)
    ∨ (t.connectH = none ∧ t.inFlight + t.mss ≤ t.cwnd
        ∧ ∃ hops, n.tcpWritePrep sockA bufs = .ok (hops, segsOf t.mss bufs)) := by
  obtain ⟨ch, hc, hh⟩ := h.chanOk
  have hb : t.chan.bind n.chan? = some ch := by rw [h.chanId]; exact hc
  unfold NetSt.tcpWritePrep
  simp only [h.sock, h.isOpen, hb, hh]
  cases hcn : t.connectH with
  | some x => left; simp
  | none =>
    by_cases hw : t.inFlight + t.mss > t.cwnd
    · left; simp [hw]
    · right; refine ⟨rfl, by omega, ch.hops (ch.remoteIdx t.bound), ?_⟩; simp [hw, segsOf]

theorem writeFinish_block {n : NetSt} {t : TcpSock} (h : Est n t) (op : WriteOp) :
    n.tcpWriteFinish sockA op (.error .wouldBlock) = (n.setTcp sockA { t with sendH := some op }, []) := by
  unfold NetSt.tcpWriteFinish; simp only [h.sock]

theorem writeFinish_ok {n : NetSt} {t : TcpSock} (h : Est n t) (op : WriteOp) (k : Nat) :
    n.tcpWriteFinish sockA op (.ok k)
      = (n.setTcp sockA { t with sendH := none }, [.post { h := op.h, ec := .ok, extra := writeExtra k op }]) := by
  unfold NetSt.tcpWriteFinish; simp only [h.sock]

theorem asyncWrite_lift {n : NetSt} {t : TcpSock} (h : Est n t) (op : WriteOp) :
    ∃ e0, (∀ e ∈ e0, ∃ c, e = NEff.post c)
      ∧ n.tcpAsyncWrite sockA op = (n.setTcp sockA { t with sendH := some op }, e0 ++ [.tcpWrite sockA op.h]) := by
  unfold NetSt.tcpAsyncWrite TcpSock.abortSend
  simp only [h.sock]
  cases t.sendH with
  | none => exact ⟨[], by simp, rfl⟩
  | some o => exact ⟨[_], by simp, rfl⟩

theorem unpark_lift {s : TxS} {t : TcpSock} (h : Est s.net t) :
    s.unpark = { s with net := s.net.setTcp sockA { t with sendH := none } } := by
  unfold TxS.unpark; simp only [h.sock]

theorem incoming_ack_lift (tp : TParams) {n : NetSt} {t : TcpSock} (h : Est n t) (now : Int) (k : Nat) :
    n.tcpIncoming tp now sockA (ackPkt k)
      = (n.setTcp sockA { t with outstanding := t.outstanding.filter (fun e => e.1 != k),
                                 inFlight := t.inFlight - ((t.outstanding.lookup k).getD 0 : Nat) },
         [.tcpResend sockA, .tcpAckPost sockA (decide (t.inFlight + t.mss > t.cwnd)) ((t.outstanding.lookup k).getD 0)]) := by
  unfold NetSt.tcpIncoming; simp only [h.sock, ackPkt]

theorem incoming_synack_lift (tp : TParams) {n : NetSt} {t : TcpSock} (h : Est n t) (now : Int) :
    n.tcpIncoming tp now sockA synackPkt
      = match t.connectH with
        | none => (n, [])
        | some x => (n.setTcp sockA { t with connectH := none }, [NEff.post { h := x, ec := .ok }, .tcpWake sockA]) := by
  unfold NetSt.tcpIncoming; simp only [h.sock, synackPkt]
  cases t.connectH <;> rfl

theorem resendOne_lift {n : NetSt} {t : TcpSock} (h : Est n t) (now : Int) :
    n.tcpResendOne now sockA
      = match t.resend with
        | [] => none
        | p :: rest =>
          if t.inFlight + p.payload.length ≤ t.cwnd then
            some ((n.setTcp sockA { t with resend := rest }).tcpSendPacket now sockA p)
          else none := by
  unfold NetSt.tcpResendOne; simp only [h.sock, h.chanId]
  cases t.resend <;> simp

theorem ackPost_lift (tp : TParams) {n : NetSt} {t : TcpSock} (h : Est n t) (wb : Bool) (acked : Nat) :
    n.tcpAckPost tp sockA wb acked
      = (n.setTcp sockA { t with cwnd := t.cwnd + t.mss * acked / t.cwnd },
         if tp.wakeWriterFixed then decide (t.inFlight + (t.mss : Int) ≤ ((t.cwnd + t.mss * acked / t.cwnd : Nat) : Int))
         else !wb && decide (t.inFlight + (t.mss : Int) ≤ ((t.cwnd + t.mss * acked / t.cwnd : Nat) : Int))) := by
  unfold NetSt.tcpAckPost; simp only [h.sock]

/-- `packet_dropped`: the drop falls into the window of the previous one (no halving) -/
def dropCond (t : TcpSock) (p : Pkt) : Bool :=
  t.lastDrop > 0 && p.id < t.lastDrop + (if t.mss = 0 then 0 else t.cwnd / t.mss)

/-- `packet_dropped` on the socket alone (all four repairs in place) -/
def dropSock (t : TcpSock) (hops : List String) (p : Pkt) : TcpSock :=
  let p' := { p with hops := hops, hasDrop := true, dropFwd := t.fwd }
  let t1 := { t with inFlight := t.inFlight - ((t.outstanding.lookup p.id).getD 0 : Nat),
                     outstanding := t.outstanding.filter (fun e => e.1 != p.id),
                     resend := t.resend ++ [p'] }
  if dropCond t p then t1
  else { t1 with cwnd := if t.cwnd / 2 < t.mss then t.mss else t.cwnd / 2, lastDrop := p.id }

theorem packetDropped_lift (tp : TParams) (h1 : tp.releaseOnDrop = true) (h2 : tp.rearmDrop = true)
    {n : NetSt} {t : TcpSock} (h : Est n t) (p : Pkt) :
    ∃ hops, n.tcpPacketDropped tp sockA p = n.setTcp sockA (dropSock t hops p) := by
  obtain ⟨ch, hc, hh⟩ := h.chanOk
  have hb : t.chan.bind n.chan? = some ch := by rw [h.chanId]; exact hc
  unfold NetSt.tcpPacketDropped dropSock dropCond
  simp only [h.sock, hb, h1, h2, if_true]
  refine ⟨ch.hops (ch.remoteIdx t.bound), ?_⟩
  exact (apply_ite (n.setTcp sockA) _ _ _).symm

/-! ### the window account with its ghost bags -/

def sumSizes (l : List (Nat × Nat)) : Int := (l.map (fun e => (e.2 : Int))).sum
def keys (l : List (Nat × Nat)) : List Nat := l.map (·.1)
def ids (l : List Pkt) : List Nat := l.map (·.id)

theorem keys_filter (l : List (Nat × Nat)) (k : Nat) :
    keys (l.filter (fun e => e.1 != k)) = (keys l).filter (fun j => j != k) := by
  induction l with
  | nil => rfl
  | cons x xs ih => simp only [keys, List.filter_cons, List.map_cons] at ih ⊢; split <;> simp_all

theorem mem_keys_filter (l : List (Nat × Nat)) (k j : Nat) :
    j ∈ keys (l.filter (fun e => e.1 != k)) ↔ j ≠ k ∧ j ∈ keys l := by
  rw [keys_filter]; simp [List.mem_filter]; exact And.comm

theorem lookup_none_of_not_mem (l : List (Nat × Nat)) (k : Nat) (h : k ∉ keys l) : l.lookup k = none := by
  induction l with
  | nil => rfl
  | cons x xs ih =>
    obtain ⟨a, b⟩ := x
    simp only [keys, List.map_cons, List.mem_cons, not_or] at h
    have : (k == a) = false := by simp [h.1]
    simp only [List.lookup_cons, this]; exact ih h.2

theorem filter_of_not_mem (l : List (Nat × Nat)) (k : Nat) (h : k ∉ keys l) :
    l.filter (fun e => e.1 != k) = l := by
  rw [List.filter_eq_self]
  intro e he
  have : e.1 ≠ k := by intro hh; apply h; rw [← hh]; exact List.mem_map_of_mem he
  simp [this]

theorem sum_filter (l : List (Nat × Nat)) (k : Nat) (hnd : (keys l).Nodup) :
    sumSizes (l.filter (fun e => e.1 != k)) = sumSizes l - ((l.lookup k).getD 0 : Nat) := by
  induction l with
  | nil => simp [sumSizes]
  | cons x xs ih =>
    obtain ⟨a, b⟩ := x
    simp only [keys, List.map_cons, List.nodup_cons] at hnd
    by_cases hak : a = k
    · subst hak
      have h1 : xs.filter (fun e => e.1 != a) = xs := filter_of_not_mem xs a hnd.1
      simp [h1, sumSizes]; omega
    · have h2 : (k == a) = false := by simp; exact fun h => hak h.symm
      have := ih hnd.2
      simp only [sumSizes] at this ⊢
      simp [hak, List.lookup_cons, h2, this]; omega

theorem sumSizes_append (a b : List (Nat × Nat)) : sumSizes (a ++ b) = sumSizes a + sumSizes b := by
  simp [sumSizes]

theorem sumSizes_nonneg (l : List (Nat × Nat)) : 0 ≤ sumSizes l := by
  induction l with
  | nil => simp [sumSizes]
  | cons x xs ih => simp only [sumSizes, List.map_cons, List.sum_cons] at ih ⊢; omega


/-- The window account of the sender with its ghost bags (`bag`: segments in the network,
    `acks`: delivered, ACK pending). -/
structure Core (t : TcpSock) (bag : List Pkt) (acks : List Nat) : Prop where
  floor : t.mss ≤ t.cwnd
  acct : t.inFlight = sumSizes t.outstanding
  keysND : (keys t.outstanding).Nodup
  live : ∀ k, k ∈ keys t.outstanding ↔ (k ∈ ids bag ∨ k ∈ acks)
  bagND : (ids bag).Nodup
  acksND : acks.Nodup
  resendND : (ids t.resend).Nodup
  disjBA : ∀ k, k ∈ ids bag → k ∉ acks
  disjR : ∀ k, k ∈ ids t.resend → k ∉ ids bag ∧ k ∉ acks
  fresh : ∀ k, (k ∈ ids bag ∨ k ∈ acks ∨ k ∈ ids t.resend) → k < t.nextOut
  cb : ∀ p, (p ∈ bag ∨ p ∈ t.resend) → p.hasDrop = true ∧ p.dropFwd = t.fwd
  segLen : ∀ p, (p ∈ bag ∨ p ∈ t.resend) → 0 < t.mss → p.payload.length ≤ t.mss
  sized : ∀ p, p ∈ bag → (p.id, p.payload.length) ∈ t.outstanding

theorem mem_ids {l : List Pkt} {k : Nat} : k ∈ ids l ↔ ∃ p ∈ l, p.id = k := by simp [ids]

theorem ids_append (a b : List Pkt) : ids (a ++ b) = ids a ++ ids b := by simp [ids]

theorem ids_filter (l : List Pkt) (k : Nat) :
    ids (l.filter (fun q => q.id != k)) = (ids l).filter (fun j => j != k) := by
  induction l with
  | nil => rfl
  | cons x xs ih => simp only [ids, List.filter_cons, List.map_cons] at ih ⊢; split <;> simp_all

/-- fields of the socket `Core` speaks about -/
theorem Core.congr {t t' : TcpSock} {bag : List Pkt} {acks : List Nat} (h : Core t bag acks)
    (h1 : t'.mss = t.mss) (h2 : t'.mss ≤ t'.cwnd) (h3 : t'.inFlight = t.inFlight)
    (h4 : t'.outstanding = t.outstanding) (h5 : t'.resend = t.resend) (h6 : t'.nextOut = t.nextOut)
    (h7 : t'.fwd = t.fwd) : Core t' bag acks := by
  constructor
  · exact h2
  · rw [h3, h4]; exact h.acct
  · rw [h4]; exact h.keysND
  · rw [h4]; exact h.live
  · exact h.bagND
  · exact h.acksND
  · rw [h5]; exact h.resendND
  · exact h.disjBA
  · rw [h5]; exact h.disjR
  · rw [h5, h6]; exact h.fresh
  · rw [h5, h7]; exact h.cb
  · rw [h5, h1]; exact h.segLen
  · rw [h4]; exact h.sized

theorem Core.send {t : TcpSock} {bag : List Pkt} {acks : List Nat} (h : Core t bag acks)
    (t1 : TcpSock) (p : Pkt) (b : Nat)
    (e1 : t1.mss = t.mss) (e2 : t1.cwnd = t.cwnd) (e3 : t1.inFlight = t.inFlight)
    (e4 : t1.outstanding = t.outstanding) (e7 : t1.fwd = t.fwd)
    (hres : ∀ q, q ∈ t1.resend → q ∈ t.resend) (hresND : (ids t1.resend).Nodup)
    (hnext : t.nextOut ≤ t1.nextOut)
    (hid1 : p.id ∉ ids bag) (hid2 : p.id ∉ acks) (hid3 : p.id ∉ ids t1.resend) (hid4 : p.id < t1.nextOut)
    (hcb : p.hasDrop = true ∧ p.dropFwd = t.fwd) (hlen : 0 < t.mss → p.payload.length ≤ t.mss) :
    Core (sendPkt t1 p) (bag ++ [{ p with bc := b }]) acks := by
  have hk : p.id ∉ keys t.outstanding := by rw [h.live]; simp [hid1, hid2]
  have hf : t.outstanding.filter (fun e => e.1 != p.id) = t.outstanding := filter_of_not_mem _ _ hk
  have hri : ∀ k, k ∈ ids t1.resend → k ∈ ids t.resend := by
    intro k hk; obtain ⟨q, hq, rfl⟩ := mem_ids.mp hk; exact mem_ids.mpr ⟨q, hres q hq, rfl⟩
  constructor
  · show t1.mss ≤ t1.cwnd; rw [e1, e2]; exact h.floor
  · show t1.inFlight + _ = sumSizes (_ ++ _)
    rw [e3, e4, hf, sumSizes_append, h.acct]; simp [sumSizes]
  · show (keys (_ ++ _)).Nodup
    rw [e4, hf]; simp only [keys, List.map_append, List.map_cons, List.map_nil]
    rw [List.nodup_append]; refine ⟨h.keysND, by simp, ?_⟩
    intro a ha b hb; simp at hb; subst hb; intro hab; subst hab; exact hk ha
  · intro k; show k ∈ keys (_ ++ _) ↔ _
    rw [e4, hf, ids_append]; simp only [keys, List.map_append, List.mem_append]
    have := h.live k; simp only [keys] at this; rw [this]; simp [ids]; grind
  · rw [ids_append, List.nodup_append]; refine ⟨h.bagND, by simp [ids], ?_⟩
    intro a ha b hb; simp [ids] at hb; subst hb; intro hab; subst hab; exact hid1 ha
  · exact h.acksND
  · exact hresND
  · intro k hk; rw [ids_append, List.mem_append] at hk
    rcases hk with hk | hk
    · exact h.disjBA k hk
    · simp [ids] at hk; subst hk; exact hid2
  · intro k hk; show k ∉ ids (bag ++ _) ∧ _
    have := h.disjR k (hri k hk)
    rw [ids_append, List.mem_append]; refine ⟨?_, this.2⟩
    intro hh; rcases hh with hh | hh
    · exact this.1 hh
    · simp [ids] at hh; subst hh; exact hid3 hk
  · intro k hk; show k < t1.nextOut
    rw [ids_append, List.mem_append] at hk
    rcases hk with (hk | hk) | hk | hk
    · have := h.fresh k (Or.inl hk); omega
    · simp [ids] at hk; subst hk; exact hid4
    · have := h.fresh k (Or.inr (Or.inl hk)); omega
    · have := h.fresh k (Or.inr (Or.inr (hri k hk))); omega
  · intro q hq; show _ ∧ q.dropFwd = t1.fwd; rw [e7]
    rcases hq with hq | hq
    · rw [List.mem_append] at hq; rcases hq with hq | hq
      · exact h.cb q (Or.inl hq)
      · simp at hq; subst hq; exact hcb
    · exact h.cb q (Or.inr (hres q hq))
  · intro q hq; show 0 < t1.mss → _ ≤ t1.mss; rw [e1]
    rcases hq with hq | hq
    · rw [List.mem_append] at hq; rcases hq with hq | hq
      · exact h.segLen q (Or.inl hq)
      · simp at hq; subst hq; exact hlen
    · exact h.segLen q (Or.inr (hres q hq))
  · intro q hq; show _ ∈ List.filter _ t1.outstanding ++ _
    rw [e4, hf, List.mem_append]
    rw [List.mem_append] at hq; rcases hq with hq | hq
    · exact Or.inl (h.sized q hq)
    · simp at hq; subst hq; exact Or.inr (by simp)


theorem nodup_filter {l : List Nat} (h : l.Nodup) (f : Nat → Bool) : (l.filter f).Nodup :=
  List.Nodup.sublist List.filter_sublist h

theorem Core.ack {t : TcpSock} {bag : List Pkt} {acks : List Nat} (h : Core t bag acks) (k : Nat)
    (hk : k ∈ acks) :
    Core { t with outstanding := t.outstanding.filter (fun e => e.1 != k),
                  inFlight := t.inFlight - ((t.outstanding.lookup k).getD 0 : Nat) }
      bag (acks.filter (fun j => j != k)) := by
  have hkb : k ∉ ids bag := fun hh => h.disjBA k hh hk
  constructor
  · exact h.floor
  · show t.inFlight - _ = sumSizes (List.filter _ _); rw [sum_filter _ _ h.keysND, h.acct]
  · show (keys (List.filter _ _)).Nodup; rw [keys_filter]; exact nodup_filter h.keysND _
  · intro j; show j ∈ keys (List.filter _ _) ↔ _
    rw [mem_keys_filter, h.live j]; simp [List.mem_filter]; grind
  · exact h.bagND
  · exact nodup_filter h.acksND _
  · exact h.resendND
  · intro j hj hja; exact h.disjBA j hj (List.mem_filter.mp hja).1
  · intro j hj; have := h.disjR j hj; exact ⟨this.1, fun hh => this.2 (List.mem_filter.mp hh).1⟩
  · intro j hj; apply h.fresh j
    rcases hj with hj | hj | hj
    · exact Or.inl hj
    · exact Or.inr (Or.inl (List.mem_filter.mp hj).1)
    · exact Or.inr (Or.inr hj)
  · exact h.cb
  · exact h.segLen
  · intro q hq; show _ ∈ List.filter _ _
    rw [List.mem_filter]; refine ⟨h.sized q hq, ?_⟩
    have : q.id ≠ k := fun hh => hkb (mem_ids.mpr ⟨q, hq, hh⟩)
    simpa using this

theorem Core.deliver {t : TcpSock} {bag : List Pkt} {acks : List Nat} (h : Core t bag acks) (k : Nat)
    (hk : k ∈ ids bag) :
    Core t (bag.filter (fun q => q.id != k)) (acks ++ [k]) := by
  have hka : k ∉ acks := h.disjBA k hk
  have hsub : ∀ q, q ∈ bag.filter (fun q => q.id != k) → q ∈ bag := fun q hq => (List.mem_filter.mp hq).1
  constructor
  · exact h.floor
  · exact h.acct
  · exact h.keysND
  · intro j; rw [h.live j, ids_filter]; simp [List.mem_filter]; grind
  · rw [ids_filter]; exact nodup_filter h.bagND _
  · rw [List.nodup_append]; refine ⟨h.acksND, by simp, ?_⟩
    intro a ha b hb; simp at hb; subst hb; intro hab; subst hab; exact hka ha
  · exact h.resendND
  · intro j hj; rw [ids_filter, List.mem_filter] at hj
    have := h.disjBA j hj.1; simp at hj; simp [this, hj.2]
  · intro j hj; have := h.disjR j hj
    refine ⟨fun hh => this.1 ?_, ?_⟩
    · rw [ids_filter] at hh; exact (List.mem_filter.mp hh).1
    · simp [this.2]; intro hjk; subst hjk; exact this.1 hk
  · intro j hj; apply h.fresh j
    rcases hj with hj | hj | hj
    · rw [ids_filter] at hj; exact Or.inl (List.mem_filter.mp hj).1
    · simp at hj; rcases hj with hj | hj
      · exact Or.inr (Or.inl hj)
      · subst hj; exact Or.inl hk
    · exact Or.inr (Or.inr hj)
  · intro q hq; apply h.cb q; rcases hq with hq | hq
    · exact Or.inl (hsub q hq)
    · exact Or.inr hq
  · intro q hq; apply h.segLen q; rcases hq with hq | hq
    · exact Or.inl (hsub q hq)
    · exact Or.inr hq
  · intro q hq; exact h.sized q (hsub q hq)

theorem Core.drop {t : TcpSock} {bag : List Pkt} {acks : List Nat} (h : Core t bag acks)
    (hops : List String) (p : Pkt) (hp : p ∈ bag) :
    Core (dropSock t hops p) (bag.filter (fun q => q.id != p.id)) acks := by
  have hkb : p.id ∈ ids bag := mem_ids.mpr ⟨p, hp, rfl⟩
  have hka : p.id ∉ acks := h.disjBA _ hkb
  have hkr : p.id ∉ ids t.resend := fun hh => (h.disjR _ hh).1 hkb
  have hsub : ∀ q, q ∈ bag.filter (fun q => q.id != p.id) → q ∈ bag := fun q hq => (List.mem_filter.mp hq).1
  have hcore : Core { t with inFlight := t.inFlight - ((t.outstanding.lookup p.id).getD 0 : Nat), outstanding := t.outstanding.filter (fun e => e.1 != p.id), resend := t.resend ++ [{ p with hops := hops, hasDrop := true, dropFwd := t.fwd }] } (bag.filter (fun q => q.id != p.id)) acks := by
    constructor
    · exact h.floor
    · show t.inFlight - _ = sumSizes (List.filter _ _); rw [sum_filter _ _ h.keysND, h.acct]
    · show (keys (List.filter _ _)).Nodup; rw [keys_filter]; exact nodup_filter h.keysND _
    · intro j; show j ∈ keys (List.filter _ _) ↔ _
      rw [mem_keys_filter, h.live j, ids_filter]; simp [List.mem_filter]; grind
    · rw [ids_filter]; exact nodup_filter h.bagND _
    · exact h.acksND
    · show (ids (_ ++ _)).Nodup
      rw [ids_append, List.nodup_append]; refine ⟨h.resendND, by simp [ids], ?_⟩
      intro a ha b hb; simp [ids] at hb; subst hb; intro hab; subst hab; exact hkr ha
    · intro j hj; rw [ids_filter] at hj; exact h.disjBA j (List.mem_filter.mp hj).1
    · intro j hj; show j ∉ ids (List.filter _ _) ∧ _
      change j ∈ ids (_ ++ _) at hj
      rw [ids_append, List.mem_append] at hj
      rw [ids_filter]
      rcases hj with hj | hj
      · have := h.disjR j hj; exact ⟨fun hh => this.1 (List.mem_filter.mp hh).1, this.2⟩
      · simp [ids] at hj; subst hj; exact ⟨by simp [List.mem_filter], hka⟩
    · intro j hj; show j < t.nextOut
      rcases hj with hj | hj | hj
      · rw [ids_filter] at hj; exact h.fresh j (Or.inl (List.mem_filter.mp hj).1)
      · exact h.fresh j (Or.inr (Or.inl hj))
      · change j ∈ ids (_ ++ _) at hj
        rw [ids_append, List.mem_append] at hj
        rcases hj with hj | hj
        · exact h.fresh j (Or.inr (Or.inr hj))
        · simp [ids] at hj; subst hj; exact h.fresh _ (Or.inl hkb)
    · intro q hq; show _ ∧ q.dropFwd = t.fwd
      rcases hq with hq | hq
      · exact h.cb q (Or.inl (hsub q hq))
      · change q ∈ _ ++ _ at hq
        rw [List.mem_append] at hq; rcases hq with hq | hq
        · exact h.cb q (Or.inr hq)
        · simp at hq; subst hq; exact ⟨rfl, rfl⟩
    · intro q hq; show 0 < t.mss → _ ≤ t.mss
      rcases hq with hq | hq
      · exact h.segLen q (Or.inl (hsub q hq))
      · change q ∈ _ ++ _ at hq
        rw [List.mem_append] at hq; rcases hq with hq | hq
        · exact h.segLen q (Or.inr hq)
        · simp at hq; subst hq; exact h.segLen p (Or.inl hp)
    · intro q hq; show _ ∈ List.filter _ _
      have hq' := List.mem_filter.mp hq
      rw [List.mem_filter]; exact ⟨h.sized q hq'.1, by simpa using hq'.2⟩
  unfold dropSock
  simp only
  cases dropCond t p
  · rw [if_neg (by simp)]
    refine hcore.congr rfl ?_ rfl rfl rfl rfl rfl
    show t.mss ≤ (if t.cwnd / 2 < t.mss then t.mss else t.cwnd / 2)
    split <;> omega
  · rw [if_pos rfl]; exact hcore

/-! ### the sender system: every micro-step and every label keeps the account -/

/-- `t` is the established `sockA` of `s`, its window account agrees with the ghost bags, and no
    segment has vanished unreported -/
structure SV (s : TxS) (t : TcpSock) : Prop where
  est : Est s.net t
  core : Core t s.bag s.acks
  lost : s.lost = []

/-- what no micro-step of a write / retransmission / hand-back touches -/
structure Same (t t' : TcpSock) : Prop where
  sendH : t'.sendH = t.sendH
  connectH : t'.connectH = t.connectH
  mss : t'.mss = t.mss

theorem Same.refl (t : TcpSock) : Same t t := ⟨rfl, rfl, rfl⟩
theorem Same.trans {a b c : TcpSock} (h1 : Same a b) (h2 : Same b c) : Same a c :=
  ⟨h2.sendH.trans h1.sendH, h2.connectH.trans h1.connectH, h2.mss.trans h1.mss⟩

theorem handBack_sv (tp : TParams) (hR : tp.releaseOnDrop = true) (hA : tp.rearmDrop = true)
    {s : TxS} {t : TcpSock} (h : SV s t) (k : Nat) :
    ∃ t', SV (s.handBack tp k) t' ∧ Same t t' ∧ ((s.handBack tp k = s ∧ t' = t) ∨ t'.resend ≠ []) := by
  unfold TxS.handBack
  cases hf : s.bag.find? (fun p => p.id == k) with
  | none => exact ⟨t, h, Same.refl t, Or.inl ⟨rfl, rfl⟩⟩
  | some p =>
    have hp : p ∈ s.bag := List.mem_of_find?_eq_some hf
    have hpk : p.id = k := by have := List.find?_some hf; simpa using this
    obtain ⟨hd, hfw⟩ := h.core.cb p (Or.inl hp)
    obtain ⟨f, hf1, hf2⟩ := h.est.fwdOk
    obtain ⟨hops, hdr⟩ := packetDropped_lift tp hR hA h.est p
    simp only [hd, if_true, hfw, hf1, hf2, hdr]
    refine ⟨dropSock t hops p, ⟨?_, ?_, h.lost⟩, ?_, Or.inr ?_⟩
    · apply h.est.set <;> (unfold dropSock; simp only; split <;> rfl)
    · have := h.core.drop hops p hp; rw [hpk] at this; exact this
    · constructor <;> (unfold dropSock; simp only; split <;> rfl)
    · unfold dropSock; simp only; split <;> simp

theorem handBacks_sv (tp : TParams) (hR : tp.releaseOnDrop = true) (hA : tp.rearmDrop = true)
    (ks : List Nat) {s : TxS} {t : TcpSock} (h : SV s t) :
    ∃ t', SV (s.handBacks tp ks) t' ∧ Same t t' := by
  induction ks generalizing s t with
  | nil => exact ⟨t, h, Same.refl t⟩
  | cons k ks ih =>
    obtain ⟨t1, h1, s1, _⟩ := handBack_sv tp hR hA h k
    obtain ⟨t2, h2, s2⟩ := ih h1
    exact ⟨t2, h2, s1.trans s2⟩


theorem cutBuf_len (mss : Nat) (f : Nat) (b : List UInt8) :
    ∀ seg ∈ cutBuf mss f b, 0 < mss → seg.length ≤ mss := by
  induction f generalizing b with
  | zero => intro seg h; simp [cutBuf] at h
  | succ f ih =>
    intro seg h hm
    unfold cutBuf at h
    split at h
    · simp at h
    · simp only [List.mem_cons] at h
      rcases h with h | h
      · subst h; have : mss ≠ 0 := by omega
        simp [this, List.length_take]; omega
      · exact ih _ seg h hm

theorem cutBuf_nonempty (mss : Nat) (f : Nat) (b : List UInt8) :
    ∀ seg ∈ cutBuf mss f b, seg ≠ [] := by
  induction f generalizing b with
  | zero => intro seg h; simp [cutBuf] at h
  | succ f ih =>
    intro seg h
    unfold cutBuf at h
    split at h
    · simp at h
    · rename_i hb
      simp only [List.mem_cons] at h
      rcases h with h | h
      · subst h
        cases b with
        | nil => simp at hb
        | cons x xs => split <;> simp_all [List.take]
      · exact ih _ seg h

theorem segsOf_len (mss : Nat) (bufs : List (List UInt8)) :
    ∀ seg ∈ segsOf mss bufs, 0 < mss → seg.length ≤ mss := by
  intro seg h
  simp only [segsOf, List.mem_flatten, List.mem_map] at h
  obtain ⟨l, ⟨b, _, rfl⟩, hs⟩ := h
  exact cutBuf_len mss _ b seg hs

/-- no synchronous hand-backs: nothing joins the retransmission list and the in-flight count
    only grows -/
def Mono (ds : List (List Nat)) (t t' : TcpSock) : Prop :=
  ds = [] → t'.resend = t.resend ∧ t.inFlight ≤ t'.inFlight

theorem segLoop_sv (tp : TParams) (hR : tp.releaseOnDrop = true) (hA : tp.rearmDrop = true)
    (now : Int) (hops : List String) (segs : List (List UInt8)) (ds : List (List Nat)) (acc : Nat)
    {s : TxS} {t : TcpSock} (h : SV s t) (hl : ∀ seg ∈ segs, 0 < t.mss → seg.length ≤ t.mss) :
    ∃ t', SV (TxS.segLoop tp now hops segs ds acc s).1 t' ∧ Same t t' ∧ Mono ds t t' := by
  induction segs generalizing ds acc s t with
  | nil => exact ⟨t, h, Same.refl t, fun _ => ⟨rfl, Int.le_refl _⟩⟩
  | cons seg rest ih =>
    unfold TxS.segLoop
    obtain ⟨b, hest, hab⟩ := sendSeg_lift h.est now hops seg
    simp only [hab]
    have hsv1 : SV { net := (s.net.tcpSendSeg now sockA hops seg).1, bag := s.bag ++ [{ segPkt t hops seg with bc := b }], acks := s.acks, lost := s.lost, posts := s.posts } (sendPkt { t with nextOut := t.nextOut + 1 } (segPkt t hops seg)) := by
      refine ⟨hest, ?_, h.lost⟩
      have hfr := h.core.fresh
      apply h.core.send { t with nextOut := t.nextOut + 1 } (segPkt t hops seg) b rfl rfl rfl rfl rfl
      · exact fun q hq => hq
      · exact h.core.resendND
      · show t.nextOut ≤ t.nextOut + 1; omega
      · intro hh; have := hfr _ (Or.inl hh); simp [segPkt] at this
      · intro hh; have := hfr _ (Or.inr (Or.inl hh)); simp [segPkt] at this
      · intro hh; have := hfr _ (Or.inr (Or.inr hh)); simp [segPkt] at this
      · show t.nextOut < t.nextOut + 1; omega
      · exact ⟨rfl, rfl⟩
      · exact hl seg (by simp)
    obtain ⟨t2, hsv2, hs2⟩ := handBacks_sv tp hR hA (ds.headD []) hsv1
    have hs12 : Same t t2 := Same.trans (b := sendPkt { t with nextOut := t.nextOut + 1 } (segPkt t hops seg)) ⟨rfl, rfl, rfl⟩ hs2
    have hm12 : Mono ds t t2 := by
      intro hds; subst hds
      have : t2 = sendPkt { t with nextOut := t.nextOut + 1 } (segPkt t hops seg) := by
        have h3 := hsv2.est.sock; have h4 := hsv1.est.sock
        simp only [List.headD, TxS.handBacks, List.foldl_nil] at h3
        rw [h4] at h3; exact (Option.some.inj h3).symm
      subst this; exact ⟨rfl, by show t.inFlight ≤ t.inFlight + _; omega⟩
    split
    · exact ⟨t2, hsv2, hs12, hm12⟩
    · obtain ⟨t3, hsv3, hs3, hm3⟩ := ih ds.tail (acc + seg.length) hsv2
        (fun sg hsg => by rw [hs12.mss]; exact hl sg (by simp [hsg]))
      refine ⟨t3, hsv3, hs12.trans hs3, ?_⟩
      intro hds
      have a := hm12 hds
      have b := hm3 (by rw [hds]; rfl)
      exact ⟨b.1.trans a.1, Int.le_trans a.2 b.2⟩


/-- a parked write means: handshake not finished, or the window is full -/
def W2 (t : TcpSock) : Prop :=
  t.sendH.isSome = true → t.connectH.isSome = true ∨ t.inFlight + t.mss > t.cwnd

/-- … or segments wait for retransmission (after a hand-back) -/
def W (t : TcpSock) : Prop :=
  t.sendH.isSome = true → t.connectH.isSome = true ∨ t.inFlight + t.mss > t.cwnd ∨ t.resend ≠ []

theorem W2.toW {t : TcpSock} (h : W2 t) : W t := by
  intro hs; rcases h hs with h | h
  · exact Or.inl h
  · exact Or.inr (Or.inl h)

theorem writeRun_sv (tp : TParams) (hR : tp.releaseOnDrop = true) (hA : tp.rearmDrop = true)
    (now : Int) (op : WriteOp) (ds : List (List Nat)) {s : TxS} {t : TcpSock} (h : SV s t) :
    ∃ t', SV (TxS.writeRun tp now op ds s) t' ∧ W2 t' ∧ t'.connectH = t.connectH ∧ t'.mss = t.mss
      ∧ Mono ds t t' := by
  unfold TxS.writeRun
  rcases writePrep_lift h.est op.bufs with ⟨hw, hp⟩ | ⟨hc, hw, hops, hp⟩
  · simp only [hp, writeFinish_block h.est, absorb_nil]
    refine ⟨{ t with sendH := some op }, ⟨h.est.set _ rfl rfl rfl rfl, ?_, h.lost⟩, fun _ => hw, rfl, rfl,
      fun _ => ⟨rfl, Int.le_refl _⟩⟩
    exact h.core.congr rfl h.core.floor rfl rfl rfl rfl rfl
  · simp only [hp]
    obtain ⟨t1, h1, s1, m1⟩ := segLoop_sv tp hR hA now hops (segsOf t.mss op.bufs) ds 0 h (segsOf_len _ _)
    generalize TxS.segLoop tp now hops (segsOf t.mss op.bufs) ds 0 s = r at h1
    obtain ⟨s', acc⟩ := r
    simp only [writeFinish_ok h1.est, absorb_post, absorb_nil]
    refine ⟨{ t1 with sendH := none }, ⟨h1.est.set _ rfl rfl rfl rfl, ?_, h1.lost⟩, ?_, s1.connectH, s1.mss, m1⟩
    · exact h1.core.congr rfl h1.core.floor rfl rfl rfl rfl rfl
    · intro hh; simp at hh

theorem wake_sv (tp : TParams) (hR : tp.releaseOnDrop = true) (hA : tp.rearmDrop = true)
    (now : Int) (dw : List (List Nat)) {s : TxS} {t : TcpSock} (h : SV s t) :
    ∃ t', SV (TxS.wake tp now dw s) t' ∧ W2 t' ∧ t'.connectH = t.connectH ∧ t'.mss = t.mss
      ∧ Mono dw t t' := by
  unfold TxS.wake
  simp only [h.est.sock, Option.bind_some]
  cases hs : t.sendH with
  | none =>
    exact ⟨t, h, fun hh => by simp [hs] at hh, rfl, rfl, fun _ => ⟨rfl, Int.le_refl _⟩⟩
  | some op =>
    simp only []
    rw [unpark_lift h.est]
    have h1 : SV { s with net := s.net.setTcp sockA { t with sendH := none } } { t with sendH := none } :=
      ⟨h.est.set _ rfl rfl rfl rfl, h.core.congr rfl h.core.floor rfl rfl rfl rfl rfl, h.lost⟩
    obtain ⟨t', a, b, c, d, e⟩ := writeRun_sv tp hR hA now op dw h1
    exact ⟨t', a, b, c, d, e⟩

theorem resendLoop_sv (tp : TParams) (hR : tp.releaseOnDrop = true) (hA : tp.rearmDrop = true)
    (now : Int) (n : Nat) (ds : List (List Nat)) {s : TxS} {t : TcpSock} (h : SV s t) :
    ∃ t', SV (TxS.resendLoop tp now n ds s) t' ∧ Same t t'
      ∧ (ds = [] → t.resend.length ≤ n →
          ∀ p rest, t'.resend = p :: rest → t'.inFlight + p.payload.length > t'.cwnd) := by
  induction n generalizing ds s t with
  | zero =>
    refine ⟨t, h, Same.refl t, ?_⟩
    intro _ hl p rest hp; rw [hp] at hl; simp at hl
  | succ n ih =>
    unfold TxS.resendLoop
    rw [resendOne_lift h.est now]
    cases hr : t.resend with
    | nil => exact ⟨t, h, Same.refl t, fun _ _ p rest hp => by rw [hr] at hp; cases hp⟩
    | cons p rest =>
      simp only []
      by_cases hfit : t.inFlight + p.payload.length ≤ t.cwnd
      · simp only [hfit, if_true]
        have hest1 : Est (s.net.setTcp sockA { t with resend := rest }) { t with resend := rest } :=
          h.est.set _ rfl rfl rfl rfl
        obtain ⟨b, hest2, hab⟩ := sendPacket_lift hest1 now p
        simp only [hab]
        have hpr : p ∈ t.resend := by rw [hr]; simp
        have hnd := h.core.resendND
        rw [hr] at hnd; simp only [ids, List.map_cons, List.nodup_cons] at hnd
        have hsv1 : SV { net := ((s.net.setTcp sockA { t with resend := rest }).tcpSendPacket now sockA p).1, bag := s.bag ++ [{ p with bc := b }], acks := s.acks, lost := s.lost, posts := s.posts } (sendPkt { t with resend := rest } p) := by
          refine ⟨hest2, ?_, h.lost⟩
          have hpi : p.id ∈ ids t.resend := mem_ids.mpr ⟨p, hpr, rfl⟩
          apply h.core.send { t with resend := rest } p b rfl rfl rfl rfl rfl
          · intro q hq; rw [hr]; exact List.mem_cons_of_mem _ hq
          · exact hnd.2
          · exact Nat.le_refl _
          · exact (h.core.disjR _ hpi).1
          · exact (h.core.disjR _ hpi).2
          · exact hnd.1
          · exact h.core.fresh _ (Or.inr (Or.inr hpi))
          · exact h.core.cb p (Or.inr hpr)
          · exact h.core.segLen p (Or.inr hpr)
        obtain ⟨t2, hsv2, hs2⟩ := handBacks_sv tp hR hA (ds.headD []) hsv1
        obtain ⟨t3, hsv3, hs3, hd3⟩ := ih ds.tail hsv2
        refine ⟨t3, hsv3, Same.trans (b := t2) (Same.trans (b := sendPkt { t with resend := rest } p) ⟨rfl, rfl, rfl⟩ hs2) hs3, ?_⟩
        intro hds hl
        subst hds
        have : t2 = sendPkt { t with resend := rest } p := by
          have h3 := hsv2.est.sock; have h4 := hsv1.est.sock
          simp only [List.headD, TxS.handBacks, List.foldl_nil] at h3
          rw [h4] at h3; exact (Option.some.inj h3).symm
        apply hd3 rfl
        rw [this]; show rest.length ≤ n
        simp at hl; omega
      · simp only [hfit, if_false]
        refine ⟨t, h, Same.refl t, ?_⟩
        intro _ _ q rest' hq; rw [hr] at hq; cases hq; omega


theorem SV.posts {s : TxS} {t : TcpSock} (h : SV s t) (ps : List Compl) : SV { s with posts := ps } t :=
  ⟨h.est, h.core, h.lost⟩

theorem apply_posts (tp : TParams) (now : Int) (ds dw : List (List Nat)) (e0 rest : List NEff) (s : TxS)
    (h : ∀ e ∈ e0, ∃ c, e = NEff.post c) :
    ∃ ps, TxS.apply tp now ds dw (e0 ++ rest) s = TxS.apply tp now ds dw rest { s with posts := ps } := by
  induction e0 generalizing s with
  | nil => exact ⟨s.posts, rfl⟩
  | cons e es ih =>
    obtain ⟨c, rfl⟩ := h e (by simp)
    obtain ⟨ps, hps⟩ := ih { s with posts := s.posts ++ [c] } (fun e he => h e (by simp [he]))
    exact ⟨ps, by simp only [List.cons_append, TxS.apply]; exact hps⟩

theorem step_write (tp : TParams) (hR : tp.releaseOnDrop = true) (hA : tp.rearmDrop = true)
    (now : Int) (op : WriteOp) (ds : List (List Nat)) {s : TxS} {t : TcpSock} (h : SV s t) :
    ∃ t', SV (TxS.step tp s (.write now op ds)) t' ∧ W2 t' ∧ t'.connectH = t.connectH ∧ t'.mss = t.mss := by
  obtain ⟨e0, he0, hw⟩ := asyncWrite_lift h.est op
  simp only [TxS.step, hw]
  obtain ⟨ps, hps⟩ := apply_posts tp now [] ds e0 [.tcpWrite sockA op.h] { s with net := s.net.setTcp sockA { t with sendH := some op } } he0
  rw [hps]
  have h1 : SV { s with net := s.net.setTcp sockA { t with sendH := some op }, posts := ps } { t with sendH := some op } :=
    ⟨h.est.set _ rfl rfl rfl rfl, h.core.congr rfl h.core.floor rfl rfl rfl rfl rfl, h.lost⟩
  simp only [TxS.apply, h1.est.sock, Option.bind_some, bne_self_eq_false, Bool.false_eq_true, if_false]
  rw [unpark_lift h1.est]
  have h2 : SV { s with net := (s.net.setTcp sockA { t with sendH := some op }).setTcp sockA { t with sendH := none }, posts := ps } { t with sendH := none } :=
    ⟨h1.est.set _ rfl rfl rfl rfl, h.core.congr rfl h.core.floor rfl rfl rfl rfl rfl, h.lost⟩
  obtain ⟨t', a, b, c, d, _⟩ := writeRun_sv tp hR hA now op ds h2
  exact ⟨t', a, b, c, d⟩

theorem step_deliver (tp : TParams) (k : Nat) {s : TxS} {t : TcpSock} (h : SV s t) :
    SV (TxS.step tp s (.deliver k)) t := by
  simp only [TxS.step]
  split
  · rename_i hk
    refine ⟨h.est, h.core.deliver k ?_, h.lost⟩
    simp only [List.any_eq_true, beq_iff_eq] at hk
    exact mem_ids.mpr hk
  · exact h

theorem step_dropped (tp : TParams) (hR : tp.releaseOnDrop = true) (hA : tp.rearmDrop = true)
    (k : Nat) {s : TxS} {t : TcpSock} (h : SV s t) (hw : W t) :
    ∃ t', SV (TxS.step tp s (.dropped k)) t' ∧ W t' ∧ Same t t' := by
  obtain ⟨t', h1, hs, hc⟩ := handBack_sv tp hR hA h k
  refine ⟨t', h1, ?_, hs⟩
  rcases hc with ⟨_, rfl⟩ | hc
  · exact hw
  · exact fun _ => Or.inr (Or.inr hc)

theorem step_synack (tp : TParams) (hR : tp.releaseOnDrop = true) (hA : tp.rearmDrop = true)
    (now : Int) (dw : List (List Nat)) {s : TxS} {t : TcpSock} (h : SV s t) (hw : W t) :
    ∃ t', SV (TxS.step tp s (.synack now dw)) t' ∧ W t' ∧ t'.connectH = none ∧ t'.mss = t.mss := by
  simp only [TxS.step, incoming_synack_lift tp h.est]
  cases hc : t.connectH with
  | none =>
    refine ⟨t, h, hw, hc, rfl⟩
  | some x =>
    simp only [TxS.apply]
    have h1 : SV { s with net := s.net.setTcp sockA { t with connectH := none }, posts := s.posts ++ [{ h := x, ec := .ok }] } { t with connectH := none } :=
      ⟨h.est.set _ rfl rfl rfl rfl, h.core.congr rfl h.core.floor rfl rfl rfl rfl rfl, h.lost⟩
    obtain ⟨t', a, b, c, d, _⟩ := wake_sv tp hR hA now dw h1
    exact ⟨t', a, b.toW, c, d⟩

/-- the ACK path: retransmission loop, window growth, writer wake-up -/
theorem step_ack (tp : TParams) (hR : tp.releaseOnDrop = true) (hA : tp.rearmDrop = true)
    (hWk : tp.wakeWriterFixed = true)
    (now : Int) (k : Nat) (ds dw : List (List Nat)) {s : TxS} {t : TcpSock} (h : SV s t) (hk : k ∈ s.acks) :
    ∃ t', SV (TxS.step tp s (.ack now k ds dw)) t' ∧ W2 t' ∧ t'.connectH = t.connectH ∧ t'.mss = t.mss
      ∧ (ds = [] → dw = [] → 0 < t.mss → t'.resend ≠ [] → 0 < t'.inFlight) := by
  have hk' : s.acks.contains k = true := by simpa using hk
  simp only [TxS.step, hk', if_true]
  have hinc := incoming_ack_lift tp h.est now k
  simp only [hinc, TxS.apply]
  have h0 : SV { s with acks := s.acks.filter (fun j => j != k), net := s.net.setTcp sockA { t with outstanding := t.outstanding.filter (fun e => e.1 != k), inFlight := t.inFlight - ((t.outstanding.lookup k).getD 0 : Nat) } } { t with outstanding := t.outstanding.filter (fun e => e.1 != k), inFlight := t.inFlight - ((t.outstanding.lookup k).getD 0 : Nat) } :=
    ⟨h.est.set _ rfl rfl rfl rfl, h.core.ack k hk, h.lost⟩
  simp only [tcp_setTcp_same, Option.map_some, Option.getD_some]
  obtain ⟨t1, h1, s1, d1⟩ := resendLoop_sv tp hR hA now t.resend.length ds h0
  generalize TxS.resendLoop tp now t.resend.length ds _ = r1 at h1 ⊢
  simp only [ackPost_lift tp h1.est, hWk, if_true]
  have h2 : SV { r1 with net := r1.net.setTcp sockA { t1 with cwnd := t1.cwnd + t1.mss * ((t.outstanding.lookup k).getD 0) / t1.cwnd } } { t1 with cwnd := t1.cwnd + t1.mss * ((t.outstanding.lookup k).getD 0) / t1.cwnd } := by
    refine ⟨h1.est.set _ rfl rfl rfl rfl, h1.core.congr rfl ?_ rfl rfl rfl rfl rfl, h1.lost⟩
    have := h1.core.floor
    exact Nat.le_trans this (Nat.le_add_right _ _)
  have hdr : ds = [] → 0 < t.mss → t1.resend ≠ [] → 0 < t1.inFlight := by
    intro hds hm hne
    cases hr : t1.resend with
    | nil => exact absurd hr hne
    | cons p rest =>
      have a := d1 hds (Nat.le_refl _) p rest hr
      have b := h1.core.segLen p (Or.inr (by rw [hr]; simp)) (by rw [s1.mss]; exact hm)
      have c := h1.core.floor
      omega
  split
  · obtain ⟨t3, h3, w3, c3, m3, mo3⟩ := wake_sv tp hR hA now dw h2
    refine ⟨t3, h3, w3, c3.trans s1.connectH, m3.trans s1.mss, ?_⟩
    intro hds hdw hm hne
    obtain ⟨e1, e2⟩ := mo3 hdw
    rw [e1] at hne
    have := hdr hds hm hne
    exact Int.lt_of_lt_of_le this e2
  · rename_i hflag
    refine ⟨_, h2, ?_, s1.connectH, s1.mss, fun hds _ hm hne => hdr hds hm hne⟩
    intro _; right
    simp only [decide_eq_true_eq] at hflag
    show t1.inFlight + (t1.mss : Int) > ((t1.cwnd + t1.mss * ((t.outstanding.lookup k).getD 0) / t1.cwnd : Nat) : Int)
    omega


/-- `sockA` in the initial state -/
def sockA0 (mss : Nat) : TcpSock :=
  { node := "n0", isOpen := true, bound := epA, fwd := some 1, chan := some 0,
    connectH := some 1, mss := mss, cwnd := mss * 2 }

theorem init_sv (mss : Nat) : SV (TxS.init mss) (sockA0 mss) := by
  refine ⟨⟨rfl, rfl, rfl, ⟨chan0, rfl, by show (chan0.hops (chan0.remoteIdx epA)).isEmpty = false; decide⟩, ⟨1, rfl, rfl⟩⟩, ?_, rfl⟩
  constructor <;> simp [sockA0, TxS.init, keys, ids, sumSizes]
  omega

/-- the invariant of the sender system at label boundaries -/
def SInv (mss : Nat) (s : TxS) : Prop := ∃ t, SV s t ∧ W t ∧ t.mss = mss

theorem SInv.init (mss : Nat) : SInv mss (TxS.init mss) :=
  ⟨sockA0 mss, init_sv mss, fun h => by simp [sockA0] at h, rfl⟩

theorem SInv.step (tp : TParams) (hR : tp.releaseOnDrop = true) (hA : tp.rearmDrop = true)
    (hWk : tp.wakeWriterFixed = true) {mss : Nat} {s : TxS} (h : SInv mss s) (l : TxLbl) :
    SInv mss (TxS.step tp s l) := by
  obtain ⟨t, hsv, hw, hm⟩ := h
  cases l with
  | write now op ds =>
    obtain ⟨t', a, b, _, d⟩ := step_write tp hR hA now op ds hsv
    exact ⟨t', a, b.toW, d.trans hm⟩
  | deliver k => exact ⟨t, step_deliver tp k hsv, hw, hm⟩
  | ack now k ds dw =>
    by_cases hk : k ∈ s.acks
    · obtain ⟨t', a, b, _, d, _⟩ := step_ack tp hR hA hWk now k ds dw hsv hk
      exact ⟨t', a, b.toW, d.trans hm⟩
    · have : s.acks.contains k = false := by simpa using hk
      simp only [TxS.step, this]
      exact ⟨t, hsv, hw, hm⟩
  | dropped k =>
    obtain ⟨t', a, b, c⟩ := step_dropped tp hR hA k hsv hw
    exact ⟨t', a, b, c.mss.trans hm⟩
  | synack now dw =>
    obtain ⟨t', a, b, _, d⟩ := step_synack tp hR hA now dw hsv hw
    exact ⟨t', a, b, d.trans hm⟩

theorem SInv.run (tp : TParams) (hR : tp.releaseOnDrop = true) (hA : tp.rearmDrop = true)
    (hWk : tp.wakeWriterFixed = true) {mss : Nat} (ls : List TxLbl) {s : TxS} (h : SInv mss s) :
    SInv mss (TxS.run tp s ls) := by
  induction ls generalizing s with
  | nil => exact h
  | cons l ls ih => exact ih (h.step tp hR hA hWk l)

/-! ### the receiver system -/

/-- a queued packet is an error packet or carries at least one byte -/
def PktOk (p : Pkt) : Prop := (p.ty = .err ∧ p.ec ≠ .wouldBlock) ∨ (p.ty ≠ .err ∧ p.payload ≠ [])

/-- receiver state without the "nothing stranded" clause (holds in the middle of
    `incoming_packet`, before `maybe_wakeup_reader`) -/
structure RPre (t : TcpSock) : Prop where
  conn : t.connectH = none
  c1 : t.recvH.isSome = true → t.recvNull = false ∧ t.waitRecvH = none
  c2 : t.waitRecvH.isSome = true → t.recvNull = true ∧ t.recvH = none
  wfq : ∀ p ∈ t.inq, PktOk p
  wfr : ∀ e ∈ t.reorder, PktOk e.2

structure RCore (t : TcpSock) : Prop extends RPre t where
  pend : (t.recvH.isSome = true ∨ t.waitRecvH.isSome = true) → t.inq = []

theorem takeQueued_wf (f cap : Nat) (q : List Pkt) (h : ∀ p ∈ q, PktOk p) :
    ∀ p ∈ (takeQueued f cap q).2, PktOk p := by
  induction f generalizing cap q with
  | zero => simpa [takeQueued] using h
  | succ f ih =>
    cases cap with
    | zero => simpa [takeQueued] using h
    | succ c =>
      cases q with
      | nil => simp [takeQueued]
      | cons p rest =>
        simp only [takeQueued]
        split
        · exact h
        · rename_i hty
          split
          · exact ih _ rest (fun x hx => h x (by simp [hx]))
          · rename_i hlen
            intro x hx
            simp only [List.mem_cons] at hx
            rcases hx with hx | hx
            · subst hx; right; refine ⟨by simpa using hty, ?_⟩; simp; omega
            · exact h x (by simp [hx])

theorem drainReorder_wf (f nx : Nat) (ro : List (Nat × Pkt)) (q : List Pkt)
    (hro : ∀ e ∈ ro, PktOk e.2) (hq : ∀ p ∈ q, PktOk p) :
    (∀ e ∈ (drainReorder f nx ro q).2.1, PktOk e.2) ∧ (∀ p ∈ (drainReorder f nx ro q).2.2, PktOk p)
    ∧ (q ≠ [] → (drainReorder f nx ro q).2.2 ≠ []) := by
  induction f generalizing nx ro q with
  | zero => exact ⟨hro, hq, id⟩
  | succ f ih =>
    unfold drainReorder
    cases hl : ro.lookup nx with
    | none => exact ⟨hro, hq, id⟩
    | some p =>
      simp only
      have hp : PktOk p := by
        have : (nx, p) ∈ ro := by
          clear hro ih
          induction ro with
          | nil => simp at hl
          | cons x xs ih2 =>
            obtain ⟨a, b⟩ := x
            simp only [List.lookup_cons] at hl
            split at hl
            · rename_i hab; simp at hab; cases hl; simp [hab]
            · exact List.mem_cons_of_mem _ (ih2 hl)
        exact hro _ this
      obtain ⟨a, b, c⟩ := ih (nx + 1) (ro.filter (fun e => e.1 != nx)) (q ++ [p])
        (fun e he => hro e (List.mem_filter.mp he).1)
        (fun x hx => by
          rw [List.mem_append] at hx; rcases hx with hx | hx
          · exact hq x hx
          · simp at hx; subst hx; exact hp)
      exact ⟨a, b, fun _ => c (by simp)⟩

theorem available_go_zero (q : List Pkt) (acc : Nat) (h : ∀ p ∈ q, PktOk p)
    (hz : TcpSock.available.go q acc = .ok 0) : acc = 0 ∧ q = [] := by
  induction q generalizing acc with
  | nil => simp [TcpSock.available.go] at hz; exact ⟨hz, rfl⟩
  | cons p rest ih =>
    unfold TcpSock.available.go at hz
    split at hz
    · split at hz
      · simp at hz; omega
      · cases hz
    · rename_i hty
      have := ih _ (fun x hx => h x (by simp [hx])) hz
      have hp := h p (by simp)
      rcases hp with hp | hp
      · simp [hp.1] at hty
      · have : 0 < p.payload.length := List.length_pos_iff.mpr hp.2
        omega


/-- `read_some_impl`: what it leaves of the socket -/
theorem readSome_spec (t : TcpSock) (hc : Bool) (caps : List Nat) (hq : ∀ p ∈ t.inq, PktOk p)
    (hcn : t.connectH = none) :
    let r := t.readSome hc caps
    r.1.connectH = none ∧ r.1.recvH = t.recvH ∧ r.1.waitRecvH = t.waitRecvH
    ∧ r.1.recvNull = t.recvNull ∧ r.1.reorder = t.reorder
    ∧ (∀ p ∈ r.1.inq, PktOk p) ∧ (t.inq = [] → r.1.inq = [])
    ∧ (r.2 = .error .wouldBlock → t.inq = []) := by
  unfold TcpSock.readSome
  simp only [hcn, Option.isSome_none, Bool.false_eq_true, if_false]
  split
  · exact ⟨hcn, rfl, rfl, rfl, rfl, hq, id, fun h => by cases h⟩
  split
  · exact ⟨hcn, rfl, rfl, rfl, rfl, hq, id, fun h => by cases h⟩
  split
  · rename_i hi; exact ⟨hcn, rfl, rfl, rfl, rfl, by simp [hi], fun _ => hi, fun _ => hi⟩
  · rename_i p rest hi
    split
    · rename_i hty
      refine ⟨rfl, rfl, rfl, rfl, rfl, fun x hx => hq x (by rw [hi]; simp [hx]), fun h => by simp [hi] at h, ?_⟩
      intro h; have hp := hq p (by rw [hi]; simp)
      simp only [Except.error.injEq] at h
      rcases hp with hp | hp
      · exact absurd h hp.2
      · simp [hp.1] at hty
    · refine ⟨rfl, rfl, rfl, rfl, rfl, takeQueued_wf _ _ _ hq, fun h => by simp [hi] at h, fun h => by cases h⟩


theorem RCore.ofIdle {t : TcpSock} (h : RPre t) (h1 : t.recvH = none) (h2 : t.waitRecvH = none) : RCore t :=
  { h with pend := fun hh => by simp [h1, h2] at hh }

theorem asyncReadImpl_spec (t : TcpSock) (op : ReadOp) (h : RPre t) (_hi1 : t.recvH = none)
    (hi2 : t.waitRecvH = none) :
    RCore (t.asyncReadImpl op).1
    ∧ (t.inq ≠ [] → (t.asyncReadImpl op).1.recvH = none ∧ (t.asyncReadImpl op).1.waitRecvH = none) := by
  unfold TcpSock.asyncReadImpl
  obtain ⟨a1, a2, a3, a4, a5, a6, a7, a8⟩ := readSome_spec t t.chan.isSome op.caps h.wfq h.conn
  generalize t.readSome t.chan.isSome op.caps = r at a1 a2 a3 a4 a5 a6 a7 a8
  obtain ⟨s1, res⟩ := r
  simp only at a1 a2 a3 a4 a5 a6 a7 a8 ⊢
  split
  · have hq := a8 rfl
    refine ⟨⟨⟨h.conn, fun _ => ⟨rfl, hi2⟩, fun hh => by simp [hi2] at hh, h.wfq, h.wfr⟩, fun _ => hq⟩, fun hne => absurd hq hne⟩
  · refine ⟨RCore.ofIdle ⟨a1, fun hh => by simp at hh, fun hh => by simp [a3, hi2] at hh, a6, by rw [a5]; exact h.wfr⟩ rfl (by rw [a3, hi2]), fun _ => ⟨rfl, by rw [a3, hi2]⟩⟩
  · refine ⟨RCore.ofIdle ⟨a1, fun hh => by simp at hh, fun hh => by simp [a3, hi2] at hh, a6, by rw [a5]; exact h.wfr⟩ rfl (by rw [a3, hi2]), fun _ => ⟨rfl, by rw [a3, hi2]⟩⟩

theorem asyncWaitReadImpl_spec (t : TcpSock) (hd : Nat) (h : RPre t) (hi1 : t.recvH = none)
    (hi2 : t.waitRecvH = none) :
    RCore (t.asyncWaitReadImpl hd).1
    ∧ (t.inq ≠ [] → (t.asyncWaitReadImpl hd).1.recvH = none ∧ (t.asyncWaitReadImpl hd).1.waitRecvH = none) := by
  unfold TcpSock.asyncWaitReadImpl
  split
  · exact ⟨RCore.ofIdle ⟨h.conn, fun hh => by simp at hh, fun hh => by simp [hi2] at hh, h.wfq, h.wfr⟩ rfl hi2, fun _ => ⟨rfl, hi2⟩⟩
  · rename_i k hk
    split
    · exact ⟨RCore.ofIdle ⟨h.conn, fun hh => by simp at hh, fun hh => by simp [hi2] at hh, h.wfq, h.wfr⟩ rfl hi2, fun _ => ⟨rfl, hi2⟩⟩
    · rename_i hk0
      have hk0' : k = 0 := by omega
      subst hk0'
      have hq : t.inq = [] := by
        unfold TcpSock.available at hk
        split at hk
        · cases hk
        split at hk
        · cases hk
        · exact (available_go_zero t.inq 0 h.wfq hk).2
      exact ⟨⟨⟨h.conn, fun hh => by simp [hi1] at hh, fun _ => ⟨rfl, hi1⟩, h.wfq, h.wfr⟩, fun _ => hq⟩, fun hne => absurd hq hne⟩

theorem abortRecv_spec (t : TcpSock) (h : RPre t) :
    RPre (t.abortRecv).1 ∧ (t.abortRecv).1.recvH = none ∧ (t.abortRecv).1.waitRecvH = none
    ∧ (t.abortRecv).1.inq = t.inq :=
  ⟨⟨h.conn, fun hh => by simp [TcpSock.abortRecv] at hh, fun hh => by simp [TcpSock.abortRecv] at hh, h.wfq, h.wfr⟩, rfl, rfl, rfl⟩

/-- `maybe_wakeup_reader()` with the repair: whatever was queued, nothing is left stranded -/
theorem maybeWakeupReader_spec (tp : TParams) (hF : tp.wakeReaderFixed = true) (t : TcpSock) (h : RPre t) :
    RCore (t.maybeWakeupReader tp).1 := by
  unfold TcpSock.maybeWakeupReader
  simp only [hF, if_true]
  by_cases hq : t.inq = []
  · have : t.inq.isEmpty = true := by simp [hq]
    simp only [this, Bool.true_or, if_true]
    exact { h with pend := fun _ => hq }
  · have : t.inq.isEmpty = false := by simpa using hq
    simp only [this, Bool.false_or]
    split
    · rename_i hn
      simp only [Bool.and_eq_true, Option.isNone_iff_eq_none] at hn
      exact RCore.ofIdle h hn.1 hn.2
    · rename_i hn
      split
      · rename_i hnull
        cases hw : t.waitRecvH with
        | none =>
          -- recvNull without a wait handler: then there is no read handler either
          simp only []
          cases hr : t.recvH with
          | none => exact RCore.ofIdle h hr hw
          | some op => have := (h.c1 (by simp [hr])).1; rw [hnull] at this; cases this
        | some hd =>
          simp only []
          have hr : t.recvH = none := (h.c2 (by simp [hw])).2
          have hpre : RPre { t with waitRecvH := none } :=
            ⟨h.conn, fun hh => by simp [hr] at hh, fun hh => by simp at hh, h.wfq, h.wfr⟩
          exact (asyncWaitReadImpl_spec _ hd hpre hr rfl).1
      · rename_i hnull
        cases hr : t.recvH with
        | none =>
          simp only []
          cases hw : t.waitRecvH with
          | none => exact RCore.ofIdle h hr hw
          | some hd => have := (h.c2 (by simp [hw])).1; rw [this] at hnull; exact absurd rfl hnull
        | some op =>
          simp only []
          have hw : t.waitRecvH = none := (h.c1 (by simp [hr])).2
          have hpre : RPre { t with recvH := none } :=
            ⟨h.conn, fun hh => by simp at hh, fun hh => by simp [hw] at hh, h.wfq, h.wfr⟩
          exact (asyncReadImpl_spec _ op hpre rfl hw).1


theorem rabsorb_net (s : RxS) (e : List NEff) : (s.absorb e).net = s.net := by
  induction e generalizing s with
  | nil => rfl
  | cons x xs ih => cases x <;> simp only [RxS.absorb] <;> rw [ih]

/-- the invariant of the receiver system -/
def RInv (s : RxS) : Prop := ∃ t, s.net.tcp? sockB = some t ∧ RCore t

theorem RInv.step (tp : TParams) (hF : tp.wakeReaderFixed = true) {s : RxS} (h : RInv s) (l : RxLbl)
    (hl : l.ok) : RInv (RxS.step tp s l) := by
  obtain ⟨t, hs, hc⟩ := h
  cases l with
  | arrive now p =>
    simp only [RxS.step, RInv, rabsorb_net]
    have hpk : PktOk p := by
      rcases hl with hl | hl
      · exact Or.inl hl
      · exact Or.inr ⟨by rw [hl.1]; simp, hl.2⟩
    have key : ∃ t', (s.net.tcpIncoming tp now sockB p).1.tcp? sockB = some t' ∧ RCore t' := by
      unfold NetSt.tcpIncoming
      simp only [hs]
      have hgen : ∃ t', (match t.chan.bind s.net.chan? with
          | none => (s.net, ([] : List NEff))
          | some ch =>
            if (p.id != t.nextIn) = true then
              (s.net.setTcp sockB { t with reorder := if (t.reorder.lookup p.id).isSome = true then t.reorder else t.reorder ++ [(p.id, p)] },
                [NEff.forward { id := p.id, ty := .ack, len := 0, ovh := 20, hops := ch.hops (ch.remoteIdx t.bound), src := "0.0.0.0:0" }])
            else
              (s.net.setTcp sockB (TcpSock.maybeWakeupReader tp { t with nextIn := (drainReorder (t.reorder.length + 1) (t.nextIn + 1) t.reorder (t.inq ++ [p])).1, reorder := (drainReorder (t.reorder.length + 1) (t.nextIn + 1) t.reorder (t.inq ++ [p])).2.1, inq := (drainReorder (t.reorder.length + 1) (t.nextIn + 1) t.reorder (t.inq ++ [p])).2.2 }).1,
                [NEff.forward { id := p.id, ty := .ack, len := 0, ovh := 20, hops := ch.hops (ch.remoteIdx t.bound), src := "0.0.0.0:0" }] ++ (TcpSock.maybeWakeupReader tp { t with nextIn := (drainReorder (t.reorder.length + 1) (t.nextIn + 1) t.reorder (t.inq ++ [p])).1, reorder := (drainReorder (t.reorder.length + 1) (t.nextIn + 1) t.reorder (t.inq ++ [p])).2.1, inq := (drainReorder (t.reorder.length + 1) (t.nextIn + 1) t.reorder (t.inq ++ [p])).2.2 }).2)).1.tcp? sockB = some t' ∧ RCore t' := by
        cases t.chan.bind s.net.chan? with
        | none => exact ⟨t, hs, hc⟩
        | some ch =>
          simp only []
          split
          · refine ⟨_, tcp_setTcp_same _ _ _, ?_⟩
            refine { hc with wfr := ?_ }
            intro e he
            change e ∈ (if (t.reorder.lookup p.id).isSome = true then t.reorder else t.reorder ++ [(p.id, p)]) at he
            split at he
            · exact hc.wfr e he
            · rw [List.mem_append] at he
              rcases he with he | he
              · exact hc.wfr e he
              · simp at he; subst he; exact hpk
          · refine ⟨_, tcp_setTcp_same _ _ _, ?_⟩
            apply maybeWakeupReader_spec tp hF
            obtain ⟨d1, d2, _⟩ := drainReorder_wf (t.reorder.length + 1) (t.nextIn + 1) t.reorder (t.inq ++ [p]) hc.wfr
              (fun x hx => by
                rw [List.mem_append] at hx; rcases hx with hx | hx
                · exact hc.wfq x hx
                · simp at hx; subst hx; exact hpk)
            exact ⟨hc.conn, hc.c1, hc.c2, d2, d1⟩
      rcases hl with hl | hl <;> simp only [hl.1] <;> exact hgen
    exact key
  | read op =>
    simp only [RxS.step, RInv, rabsorb_net]
    unfold NetSt.tcpAsyncRead
    simp only [hs]
    obtain ⟨a1, a2, a3, _⟩ := abortRecv_spec t hc.toRPre
    exact ⟨_, tcp_setTcp_same _ _ _, (asyncReadImpl_spec _ op a1 a2 a3).1⟩
  | waitRead hd =>
    simp only [RxS.step, RInv, rabsorb_net]
    unfold NetSt.tcpWaitRead
    simp only [hs]
    obtain ⟨a1, a2, a3, _⟩ := abortRecv_spec t hc.toRPre
    exact ⟨_, tcp_setTcp_same _ _ _, (asyncWaitReadImpl_spec _ hd a1 a2 a3).1⟩
  | readNb caps =>
    simp only [RxS.step, RInv]
    unfold NetSt.tcpReadNb
    simp only [hs]
    obtain ⟨a1, a2, a3, a4, a5, a6, a7, _⟩ := readSome_spec t t.chan.isSome caps hc.wfq hc.conn
    refine ⟨_, tcp_setTcp_same _ _ _, ⟨⟨a1, ?_, ?_, a6, by rw [a5]; exact hc.wfr⟩, ?_⟩⟩
    · rw [a2, a3, a4]; exact hc.c1
    · rw [a2, a3, a4]; exact hc.c2
    · rw [a2, a3]; exact fun hh => a7 (hc.pend hh)

theorem RInv.run (tp : TParams) (hF : tp.wakeReaderFixed = true) (ls : List RxLbl) {s : RxS} (h : RInv s)
    (hl : RxS.okRun ls) : RInv (RxS.run tp s ls) := by
  induction ls generalizing s with
  | nil => exact h
  | cons l ls ih => exact ih (h.step tp hF l hl.1) hl.2

def sockB0 (mss : Nat) : TcpSock :=
  { node := "n1", isOpen := true, bound := epB, fwd := some 2, chan := some 0, mss := mss, cwnd := mss * 2 }

theorem RInv.init (mss : Nat) : RInv (RxS.init mss) :=
  ⟨sockB0 mss, rfl, ⟨⟨rfl, fun h => by simp [sockB0] at h, fun h => by simp [sockB0] at h,
    fun p hp => by simp [sockB0] at hp, fun e he => by simp [sockB0] at he⟩, fun _ => rfl⟩⟩

/-! ### the handshake: `check_accept_queue`, `acceptor::incoming_packet`, SYN-ACK -/

/-- the packets an effect list forwards, in order -/
def forwards (e : List NEff) : List Pkt := e.filterMap (fun x => match x with | .forward p => some p | _ => none)

theorem forwards_append (a b : List NEff) : forwards (a ++ b) = forwards a ++ forwards b := by
  simp [forwards, List.filterMap_append]

theorem forwards_cancel (t : TcpSock) : forwards (t.cancel).2 = [] := by
  unfold TcpSock.cancel TcpSock.abortRecv TcpSock.abortSend
  cases t.recvH <;> cases t.waitRecvH <;> cases t.sendH <;> cases t.connectH <;> rfl

theorem chans_setTcp (n : NetSt) (name : String) (t : TcpSock) : (n.setTcp name t).chans = n.chans := rfl

/-- closing a socket that has no channel: no packet is sent, the channel table is untouched -/
theorem tcpClose_noChan (n : NetSt) (now : Int) (peer : String) (p0 : TcpSock)
    (hs : n.tcp? peer = some p0) (hpc : p0.chan = none) :
    (n.tcpClose now peer).1.chans = n.chans ∧ (∃ p1, (n.tcpClose now peer).1.tcp? peer = some p1)
    ∧ forwards (n.tcpClose now peer).2 = []
    ∧ (∀ o, o ≠ peer → (n.tcpClose now peer).1.tcp? o = n.tcp? o) := by
  unfold NetSt.tcpClose
  simp only [hs, hpc, Option.bind_none]
  generalize hc : TcpSock.cancel _ = r
  obtain ⟨s', e1⟩ := r
  have hf : forwards e1 = [] := by
    have := forwards_cancel { p0 with chan := none, bound := {}, isOpen := false, fwd := none, mss := 1475, cwnd := 2950, inFlight := 0, outstanding := [], inq := [], reorder := [], resend := [], recvNull := false, nextIn := 0, nextOut := 0, lastDrop := 0 }
    rw [hc] at this; exact this
  refine ⟨?_, ⟨s', by simp⟩, by simpa [forwards_append] using hf, ?_⟩
  · cases p0.fwd <;> cases (!p0.bound.isDefault) <;> rfl
  · intro o ho
    rw [tcp_setTcp_other _ _ _ _ ho]
    cases p0.fwd <;> cases (!p0.bound.isDefault) <;> rfl


theorem tcpOpen_noChan (n : NetSt) (now : Int) (peer : String) (v4 : Bool) (p0 : TcpSock)
    (hs : n.tcp? peer = some p0) (hpc : p0.chan = none) :
    (n.tcpOpen now peer v4).1.chans = n.chans ∧ (∃ p1, (n.tcpOpen now peer v4).1.tcp? peer = some p1)
    ∧ forwards (n.tcpOpen now peer v4).2 = []
    ∧ (∀ o, o ≠ peer → (n.tcpOpen now peer v4).1.tcp? o = n.tcp? o) := by
  obtain ⟨c1, ⟨p1, c2⟩, c3, c4⟩ := tcpClose_noChan n now peer p0 hs hpc
  unfold NetSt.tcpOpen
  generalize n.tcpClose now peer = r at c1 c2 c3 c4
  obtain ⟨n1, e⟩ := r
  simp only at c1 c2 c3 c4 ⊢
  simp only [c2]
  refine ⟨c1, ⟨_, tcp_setTcp_same _ _ _⟩, c3, ?_⟩
  intro o ho
  rw [tcp_setTcp_other _ _ _ _ ho]
  exact c4 o ho

theorem tcpAttach_spec (n : NetSt) (now : Int) (peer : String) (bindEp : Ep) (c : Nat) (p0 : TcpSock) (ch : Chan)
    (hs : n.tcp? peer = some p0) (hpc : p0.chan = none) (hch : n.chan? c = some ch) :
    forwards (n.tcpAttach now peer bindEp c).2 = []
    ∧ (∃ ch2, (n.tcpAttach now peer bindEp c).1.chan? c = some ch2 ∧ ch2.hops0 = ch.hops0)
    ∧ (∀ o, o ≠ peer → (n.tcpAttach now peer bindEp c).1.tcp? o = n.tcp? o) := by
  obtain ⟨c1, ⟨p1, c2⟩, c3, c4⟩ := tcpOpen_noChan n now peer p0.isV4 p0 hs hpc
  unfold NetSt.tcpAttach
  simp only [hs]
  generalize n.tcpOpen now peer p0.isV4 = r at c1 c2 c3 c4
  obtain ⟨n1, e⟩ := r
  simp only at c1 c2 c3 c4 ⊢
  have hch1 : n1.chan? c = some ch := by simp only [NetSt.chan?, c1]; exact hch
  simp only [c2, hch1]
  refine ⟨c3, ⟨{ ch with hops1 := match p1.fwd with | some f => ch.hops1.dropLast ++ [fwdHop f] | none => ch.hops1 }, ?_, rfl⟩, ?_⟩
  · rw [chan_setChan]; simp [hch1]; cases p1.fwd <;> rfl
  · intro o ho
    rw [tcp_setChan, tcp_setTcp_other _ _ _ _ ho]
    exact c4 o ho

def peerOf : AcceptOp → String
  | .into _ pn _ => pn
  | .fresh _ nn => nn

/-- the completion `check_accept_queue` posts for an accepted connection -/
def acceptDone (op : AcceptOp) (vis : Ep) : NEff :=
  match op with
  | .into h _ withEp => .post { h := h, ec := .ok, extra := if withEp then "ep=" ++ vis.toString else "" }
  | .fresh h _ => .post { h := h, ec := .ok }

def synAckFor (c : Nat) (ch : Chan) (bound : Ep) : Pkt :=
  { id := 0, ty := .synack, len := 0, ovh := 28, hops := ch.hops0, src := bound.toString, chan := some c }

/-- `check_accept_queue()` on an open acceptor with an accept outstanding and a SYN queued:
    exactly one packet is forwarded, the SYN-ACK along the channel's route to the connector,
    and the accept completes with `ok`. -/
theorem accCheckQueue_accepts (n : NetSt) (now : Int) (a : String) (s : TcpSock) (ac : AccState)
    (op : AcceptOp) (c : Nat) (rest : List Nat) (ch : Chan) (p0 : TcpSock)
    (hs : n.tcp? a = some s) (hopen : s.isOpen = true) (hacc : s.acc = some ac)
    (hop : ac.acceptOp = some op) (hconns : ac.conns = c :: rest) (hch : n.chan? c = some ch)
    (hne : peerOf op ≠ a) (hpeer : n.tcp? (peerOf op) = some p0) (hpc : p0.chan = none) :
    forwards (n.accCheckQueue now a).2 = [synAckFor c ch s.bound]
    ∧ acceptDone op ch.vis0 ∈ (n.accCheckQueue now a).2
    ∧ ∃ s', (n.accCheckQueue now a).1.tcp? a = some s'
        ∧ s'.acc = some { ac with conns := rest, acceptOp := none } := by
  have hno : (!s.isOpen) = false := by simp [hopen]
  cases op with
  | into hh pn we =>
    simp only [peerOf] at hne hpeer
    unfold NetSt.accCheckQueue
    simp only [hs, hacc, hno, Bool.false_eq_true, if_false, hop, hconns]
    have hp1 : (n.setTcp a { s with acc := some { ac with conns := rest, acceptOp := none } }).tcp? pn = some p0 := by
      rw [tcp_setTcp_other _ _ _ _ hne]; exact hpeer
    obtain ⟨d1, ⟨ch2, d2, d3⟩, d4⟩ := tcpAttach_spec (n.setTcp a { s with acc := some { ac with conns := rest, acceptOp := none } }) now pn s.bound c p0 ch hp1 hpc (by rw [chan_setTcp]; exact hch)
    generalize NetSt.tcpAttach _ now pn s.bound c = r at d1 d2 d3 d4
    obtain ⟨n2, e1⟩ := r
    simp only at d1 d2 d3 d4 ⊢
    simp only [d2, chan_setTcp, hch, Option.map_some, Option.getD_some]
    refine ⟨?_, ?_, ?_⟩
    · rw [forwards_append, forwards_append, d1]
      simp [forwards, synAckFor, d3]
    · simp [acceptDone]
    · refine ⟨{ s with acc := some { ac with conns := rest, acceptOp := none } }, ?_, rfl⟩
      rw [d4 a (fun h => hne h.symm)]; exact tcp_setTcp_same _ _ _
  | fresh hh nn =>
    simp only [peerOf] at hne hpeer
    unfold NetSt.accCheckQueue
    simp only [hs, hacc, hno, Bool.false_eq_true, if_false, hop, hconns]
    have hp1 : (n.setTcp a { s with acc := some { ac with conns := rest, acceptOp := none } }).tcp? nn = some p0 := by
      rw [tcp_setTcp_other _ _ _ _ hne]; exact hpeer
    obtain ⟨d1, ⟨ch2, d2, d3⟩, d4⟩ := tcpAttach_spec (n.setTcp a { s with acc := some { ac with conns := rest, acceptOp := none } }) now nn s.bound c p0 ch hp1 hpc (by rw [chan_setTcp]; exact hch)
    generalize NetSt.tcpAttach _ now nn s.bound c = r at d1 d2 d3 d4
    obtain ⟨n2, e1⟩ := r
    simp only at d1 d2 d3 d4 ⊢
    simp only [d2]
    refine ⟨?_, ?_, ?_⟩
    · rw [forwards_append, forwards_append, d1]
      simp [forwards, synAckFor, d3]
    · simp [acceptDone]
    · refine ⟨{ s with acc := some { ac with conns := rest, acceptOp := none } }, ?_, rfl⟩
      rw [d4 a (fun h => hne h.symm)]; exact tcp_setTcp_same _ _ _


/-- a SYN for channel `c` reaches an open acceptor that has an accept outstanding -/
theorem accIncoming_syn (n : NetSt) (now : Int) (a : String) (s : TcpSock) (ac : AccState)
    (op : AcceptOp) (c : Nat) (ch : Chan) (p0 : TcpSock) (p : Pkt)
    (hs : n.tcp? a = some s) (hopen : s.isOpen = true) (hacc : s.acc = some ac)
    (hop : ac.acceptOp = some op) (hconns : ac.conns = []) (hch : n.chan? c = some ch)
    (hne : peerOf op ≠ a) (hpeer : n.tcp? (peerOf op) = some p0) (hpc : p0.chan = none)
    (hty : p.ty = .syn) (hpch : p.chan = some c) :
    forwards (n.accIncoming now a p).2 = [synAckFor c ch s.bound]
    ∧ acceptDone op ch.vis0 ∈ (n.accIncoming now a p).2 := by
  unfold NetSt.accIncoming
  simp only [hs, hty, hpch, hacc]
  have := accCheckQueue_accepts (n.setTcp a { s with acc := some { ac with conns := ac.conns ++ [c] } }) now a
    { s with acc := some { ac with conns := ac.conns ++ [c] } } { ac with conns := ac.conns ++ [c] } op c [] ch p0
    (tcp_setTcp_same _ _ _) hopen rfl hop (by simp [hconns]) (by rw [chan_setTcp]; exact hch) hne
    (by rw [tcp_setTcp_other _ _ _ _ hne]; exact hpeer) hpc
  exact ⟨this.1, this.2.1⟩

/-- `async_accept(peer, h)` on an open acceptor with a SYN already queued -/
theorem accAsyncAccept_queued (n : NetSt) (now : Int) (a : String) (s : TcpSock) (ac : AccState)
    (h : Nat) (peer : String) (withEp : Bool) (c : Nat) (rest : List Nat) (ch : Chan) (p0 : TcpSock)
    (hs : n.tcp? a = some s) (hopen : s.isOpen = true) (hacc : s.acc = some ac)
    (hop : ac.acceptOp = none) (hconns : ac.conns = c :: rest) (hch : n.chan? c = some ch)
    (hne : peer ≠ a) (hpeer : n.tcp? peer = some p0) (hpo : p0.isOpen = false) (hpc : p0.chan = none) :
    forwards (n.accAsyncAccept now a (.into h peer withEp)).2 = [synAckFor c ch s.bound]
    ∧ acceptDone (.into h peer withEp) ch.vis0 ∈ (n.accAsyncAccept now a (.into h peer withEp)).2 := by
  unfold NetSt.accAsyncAccept
  simp only [hpeer, hpo, Bool.false_eq_true, if_false, hs]
  unfold TcpSock.abortAccept
  simp only [hacc, hop, List.nil_append]
  have := accCheckQueue_accepts (n.setTcp a { s with acc := some { ac with acceptOp := some (.into h peer withEp) } }) now a
    { s with acc := some { ac with acceptOp := some (.into h peer withEp) } } { ac with acceptOp := some (.into h peer withEp) }
    (.into h peer withEp) c rest ch p0
    (tcp_setTcp_same _ _ _) hopen rfl rfl hconns (by rw [chan_setTcp]; exact hch) hne
    (by show (NetSt.setTcp _ _ _).tcp? peer = _; rw [tcp_setTcp_other _ _ _ _ hne]; exact hpeer) hpc
  exact ⟨this.1, this.2.1⟩

/-- the connector's side: the SYN-ACK completes the pending connect with `ok` (and runs a
    write parked meanwhile) -/
theorem tcpIncoming_synack (tp : TParams) (n : NetSt) (now : Int) (name : String) (t : TcpSock) (h : Nat)
    (p : Pkt) (hs : n.tcp? name = some t) (hc : t.connectH = some h) (hty : p.ty = .synack) :
    n.tcpIncoming tp now name p
      = (n.setTcp name { t with connectH := none }, [NEff.post { h := h, ec := .ok }, .tcpWake name]) := by
  unfold NetSt.tcpIncoming
  simp only [hs, hty, hc]

end SimVerif.Prog
