/-
  SimVerif.Lemmas.SocksStreamSeg — segmentation independence of the whole negotiation over an
  abstract client byte stream (SimVerif/SocksStream.lean).
-/
import SimVerif.SocksStream
import SimVerif.Lemmas.SocksBuf

namespace SimVerif.Socks

/-- **Whatever the segmentation**: after ANY schedule `ks` of read completions (each carrying
    any non-empty piece of the unread client stream), letting the negotiation run to its end
    reaches exactly the state reached by running it to its end directly — same connection state
    (buffers included), same counters, same unread rest of the stream (the payload), same log of
    actions (method reply, then close / connect / bind / UDP relay / lookup …). -/
theorem stream_segmentation (ver : Int) (flags : Nat) (cnt : List Int) (hc : cnt.length = 3)
    (bs : Bytes) (ks : List Nat) (s0 : NS) (h0 : NS.init {} ver flags cnt bs = .ok s0) :
    (match s0.feed {} ks with
     | .error e => .error e
     | .ok s1 => s1.settle {} s1.fuel) = s0.settle {} s0.fuel := by
  sorry

/-- no schedule makes the negotiation fault -/
theorem stream_no_fault (ver : Int) (flags : Nat) (cnt : List Int) (hc : cnt.length = 3)
    (bs : Bytes) (ks : List Nat) :
    ∃ s0, NS.init {} ver flags cnt bs = .ok s0 ∧ ∃ s1, s0.feed {} ks = .ok s1 := by
  sorry

end SimVerif.Socks
