/-
  SimVerif.Lemmas.SocksStreamSeg — segmentation independence of the whole negotiation over an
  abstract client byte stream (SimVerif/SocksStream.lean).
-/
import SimVerif.SocksStream
import SimVerif.Lemmas.SocksBuf
import SimVerif.Lemmas.SocksNeg
import SimVerif.Lemmas.SocksSafe

namespace SimVerif.Socks

/-! ### every composed read a member function starts has `got = 0`; a continued one is not full -/

def POp.Strict : POp → Prop
  | .exact _ need got _ => got < need ∨ got = 0
  | _ => True

def ActsStrict (acts : List Act) : Prop := ∀ a ∈ acts, ∀ op, a.op? = some op → op.Strict

def StrictO (o : Out) : Prop := ∀ c' cnt' acts, o = .ok (c', cnt', acts) → ActsStrict acts

theorem strict_error (e : Fault) : StrictO (.error e) := by intro _ _ _ h; cases h

theorem strict_ok {c : Conn} {cnt : List Int} {acts : List Act} (h : ActsStrict acts) : StrictO (.ok (c, cnt, acts)) := by
  intro _ _ _ h'; cases h'; exact h

theorem strict_close (c : Conn) (cnt : List Int) : StrictO (closeConnection c cnt) := by
  apply strict_ok; simp [ActsStrict, closeActs, Act.op?]

theorem strict_exactRead (c : Conn) (cnt : List Int) (off : Nat) (n : Int) (k : Kind) : StrictO (exactRead c cnt off n k) := by
  unfold exactRead; split
  · apply strict_ok; simp [ActsStrict, Act.op?, POp.Strict]
  · exact strict_error _

theorem strict_writeFrom (c : Conn) (cnt : List Int) (s : Sock) (len : Int) (k : Kind) : StrictO (writeFrom c cnt s len k) := by
  unfold writeFrom; split
  · exact strict_error _
  · apply strict_ok; simp [ActsStrict, Act.op?, POp.Strict]

syntax "strict_tac" : tactic
macro_rules
  | `(tactic| strict_tac) => `(tactic|
    (repeat' (first
      | exact strict_error _
      | exact strict_close _ _
      | exact strict_exactRead _ _ _ _ _
      | exact strict_writeFrom _ _ _ _ _
      | (apply strict_ok; simp [ActsStrict, Act.op?, POp.Strict]; done)
      | split)))

theorem strict_start (c : Conn) (cnt : List Int) : StrictO (start c cnt) := by
  unfold start; strict_tac

theorem strict_onHandshake1 (p : Params) (c : Conn) (cnt : List Int) (ec : Ec) (n : Nat) : StrictO (onHandshake1 p c cnt ec n) := by
  unfold onHandshake1; strict_tac

theorem strict_onHandshake2 (c : Conn) (cnt : List Int) (ec : Ec) (n : Nat) : StrictO (onHandshake2 c cnt ec n) := by
  unfold onHandshake2; strict_tac

theorem strict_onHandshake3 (c : Conn) (cnt : List Int) (ec : Ec) (n : Nat) : StrictO (onHandshake3 c cnt ec n) := by
  unfold onHandshake3; strict_tac

theorem strict_onRequestDomainName (p : Params) (c : Conn) (cnt : List Int) (ec : Ec) (n : Nat) :
    StrictO (onRequestDomainName p c cnt ec n) := by
  unfold onRequestDomainName; dsimp only; strict_tac

theorem strict_onRequest1 (p : Params) (c : Conn) (cnt : List Int) (ec : Ec) (n : Nat) : StrictO (onRequest1 p c cnt ec n) := by
  unfold onRequest1 openForwardConnection bindConnection udpAssociate; dsimp only
  by_cases hv : c.ver = 4 <;> simp only [hv, if_true, if_false] <;> repeat' (first
      | exact strict_error _
      | exact strict_close _ _
      | exact strict_exactRead _ _ _ _ _
      | exact strict_onRequestDomainName _ _ _ _ _
      | (apply strict_ok; simp [ActsStrict, Act.op?, POp.Strict]; done)
      | split)

theorem strict_exactDone (p : Params) (c : Conn) (cnt : List Int) (k : Kind) (ec : Ec) (t : Nat) : StrictO (exactDone p c cnt k ec t) := by
  unfold exactDone
  split
  · exact strict_onHandshake1 _ _ _ _ _
  · exact strict_onHandshake2 _ _ _ _
  · exact strict_onRequest1 _ _ _ _ _
  · exact strict_onRequestDomainName _ _ _ _ _
  · apply strict_ok; simp [ActsStrict]

theorem strict_onExactChunk (p : Params) (c : Conn) (cnt : List Int) (off need got : Nat) (k : Kind) (ec : Ec) (d : Bytes) :
    StrictO (onExactChunk p c cnt off need got k ec d) := by
  intro c' cnt' acts h
  rcases onExactChunk_cases p c cnt off need got k ec d c' cnt' acts h with ⟨h1, _, _, h4⟩ | ⟨_, h2⟩
  · subst h4
    simp [ActsStrict, Act.op?, POp.Strict]
    omega
  · exact strict_exactDone _ _ _ _ _ _ _ _ _ h2

/-! ### well-formed negotiation states -/

structure NS.WF (s : NS) : Prop where
  sized : s.c.Sized
  cnt : s.cnt.length = 3
  rd : ∀ off need got k, s.rd = some (off, need, got, k) → off + need ≤ 65536 ∧ got ≤ need ∧ (got < need ∨ got = 0)

theorem ActsStrict.append {l1 l2 : List Act} (h1 : ActsStrict l1) (h2 : ActsStrict l2) : ActsStrict (l1 ++ l2) := by
  intro x hx
  rcases List.mem_append.mp hx with h | h
  · exact h1 x h
  · exact h2 x h

theorem absorb_wf (f : Nat) : ∀ (s : NS) (acts : List Act), s.WF → ActsOk acts → ActsStrict acts →
    ∃ s', NS.absorb {} f s acts = .ok s' ∧ s'.WF ∧ s'.rest = s.rest := by
  induction f with
  | zero => intro s acts h _ _; exact ⟨s, by unfold NS.absorb; rfl, h, rfl⟩
  | succ f ih =>
    intro s acts h ho hst
    cases acts with
    | nil => exact ⟨s, by unfold NS.absorb; rfl, h, rfl⟩
    | cons a more =>
      have ho' : ActsOk more := fun x hx => ho x (List.mem_cons_of_mem _ hx)
      have hst' : ActsStrict more := fun x hx => hst x (List.mem_cons_of_mem _ hx)
      unfold NS.absorb
      split
      · rename_i cap off need got k
        have hb := ho _ (List.mem_cons_self ..) _ rfl
        have hs := hst _ (List.mem_cons_self ..) _ rfl
        simp only [POp.Bnd] at hb
        simp only [POp.Strict] at hs
        obtain ⟨s', e1, e2, e3⟩ := ih { s with rd := some (off, need, got, k) } more
          ⟨h.sized, h.cnt, by intro o n g k' e; simp only [Option.some.injEq, Prod.mk.injEq] at e; obtain ⟨rfl, rfl, rfl, rfl⟩ := e; exact ⟨hb.1, hb.2, hs⟩⟩ ho' hst'
        exact ⟨s', e1, e2, e3⟩
      · rename_i bytes len
        have hg := complete_good h.sized h.cnt (.write .client len .hs3) (.wr .ok len) trivial (by simp [valid])
        have hs3 : StrictO (complete {} s.c s.cnt (.write .client len .hs3) (.wr .ok len)) := strict_onHandshake3 _ _ _ _
        revert hg hs3
        generalize complete {} s.c s.cnt (.write .client len .hs3) (.wr .ok len) = w
        intro hg hs3
        match w, hg with
        | .ok (c, cnt, acts), hg =>
          dsimp only
          obtain ⟨s', e1, e2, e3⟩ := ih { s with c := c, cnt := cnt, log := s.log ++ [.write .client bytes (.write .client len .hs3)] } (acts ++ more)
            ⟨hg.1, hg.2.1, h.rd⟩ (hg.2.2.append ho') ((hs3 _ _ _ rfl).append hst')
          exact ⟨s', e1, e2, e3⟩
      · obtain ⟨s', e1, e2, e3⟩ := ih { s with log := s.log ++ [a] } more ⟨h.sized, h.cnt, h.rd⟩ ho' hst'
        exact ⟨s', e1, e2, e3⟩

/-- a member function's result, taken over by `absorb` -/
theorem absorb_out (f : Nat) (s : NS) (o : Out) (hg : Good o) (hs : StrictO o) (r : Bytes) :
    ∃ s', (match o with
           | .error e => (.error e : Except Fault NS)
           | .ok (c, cnt, acts) => NS.absorb {} f { s with c := c, cnt := cnt, rest := r, rd := none } acts) = .ok s'
      ∧ s'.WF ∧ s'.rest = r := by
  match o, hg with
  | .ok (c, cnt, acts), hg =>
    dsimp only
    exact absorb_wf f _ acts ⟨hg.1, hg.2.1, by intro _ _ _ _ e; cases e⟩ hg.2.2 (hs _ _ _ rfl)

theorem init_wf (ver : Int) (flags : Nat) (cnt : List Int) (hc : cnt.length = 3) (bs : Bytes) :
    ∃ s0, NS.init {} ver flags cnt bs = .ok s0 ∧ s0.WF := by
  unfold NS.init
  dsimp only
  have hg := start_good (c := { ver := ver, flags := flags }) (cnt := cnt) ⟨rfl, rfl, rfl⟩ hc
  have hs := strict_start { ver := ver, flags := flags } cnt
  revert hg hs
  generalize start { ver := ver, flags := flags } cnt = w
  intro hg hs
  match w, hg with
  | .ok (c, cnt', acts), hg =>
    dsimp only
    obtain ⟨s', e1, e2, _⟩ := absorb_wf 8 { c := c, cnt := cnt', rest := bs } acts ⟨hg.1, hg.2.1, by intro _ _ _ _ e; cases e⟩ hg.2.2 (hs _ _ _ rfl)
    exact ⟨s', e1, e2⟩

/-! ### one read completion carrying exactly `n` bytes -/

def NS.piece (s : NS) (off need got : Nat) (kd : Kind) (n : Nat) : Except Fault NS :=
  match onExactChunk {} s.c s.cnt off need got kd .ok (s.rest.take n) with
  | .error e => .error e
  | .ok (c, cnt, acts) => NS.absorb {} 8 { s with c := c, cnt := cnt, rest := s.rest.drop n, rd := none } acts

theorem deliver_none (s : NS) (k : Nat) (h : s.rd = none) : s.deliver {} k = .ok s := by
  unfold NS.deliver; rw [h]

theorem deliver_empty (s : NS) (k : Nat) (h : s.rest = []) : s.deliver {} k = .ok s := by
  unfold NS.deliver; split
  · rfl
  · simp [h]

theorem deliver_piece (s : NS) (off need got : Nat) (kd : Kind) (k : Nat)
    (hrd : s.rd = some (off, need, got, kd)) (hne : s.rest ≠ []) :
    s.deliver {} k = s.piece off need got kd (min (k + 1) (min (need - got) s.rest.length)) := by
  unfold NS.deliver NS.piece; rw [hrd]; simp only [hne, if_false]; rfl

/-- the state after a piece that does not fill the region -/
def NS.part (s : NS) (off need got : Nat) (kd : Kind) (n : Nat) : NS :=
  { s with c := { s.c with outBuf := s.c.outBuf.store (off + got) (s.rest.take n) }, rest := s.rest.drop n, rd := some (off, need, got + n, kd) }

theorem piece_partial (s : NS) (off need got : Nat) (kd : Kind) (n : Nat) (h : s.WF)
    (hb : off + need ≤ 65536) (h0 : 0 < n) (hn : n ≤ s.rest.length) (hlt : got + n < need) :
    s.piece off need got kd n = .ok (s.part off need got kd n) := by
  have hl : (s.rest.take n).length = n := by rw [List.length_take]; omega
  unfold NS.piece onExactChunk
  rw [exactStep_ok_neg _ _ _ _ _ _ (by rw [h.sized.out, hl]; omega)]
  simp only [hl]
  have hd : ¬ ((Ec.ok ≠ Ec.ok) ∨ n = 0 ∨ got + n ≥ need) := by
    intro h; rcases h with h | h | h
    · exact h rfl
    · omega
    · omega
  simp only [hd, decide_false]
  simp [NS.absorb, NS.part]

theorem piece_fuse (s : NS) (off need got : Nat) (kd : Kind) (n m : Nat) (h : s.WF)
    (hb : off + need ≤ 65536) (h0 : 0 < n) (hnm : n < m) (hm : m ≤ s.rest.length) (hle : got + m ≤ need) :
    (s.part off need got kd n).piece off need (got + n) kd (m - n) = s.piece off need got kd m := by
  have hl1 : (s.rest.take n).length = n := by rw [List.length_take]; omega
  have hl2 : ((s.rest.drop n).take (m - n)).length = m - n := by rw [List.length_take, List.length_drop]; omega
  have hl3 : (s.rest.take m).length = m := by rw [List.length_take]; omega
  have ht : s.rest.take n ++ (s.rest.drop n).take (m - n) = s.rest.take m := by
    rw [← List.take_add]; congr 1; omega
  have hdd : (s.rest.drop n).drop (m - n) = s.rest.drop m := by
    rw [List.drop_drop]; congr 1; omega
  unfold NS.piece onExactChunk
  rw [exactStep_ok_neg _ _ _ _ _ _ (by simp only [NS.part, Buf.store_cap]; rw [h.sized.out, hl2]; omega)]
  rw [exactStep_ok_neg _ _ _ _ _ _ (by rw [h.sized.out, hl3]; omega)]
  simp only [NS.part, hl2, hl3, hdd]
  have e1 : off + (got + n) = off + got + (s.rest.take n).length := by rw [hl1]; omega
  rw [e1, Buf.store_store, ht]
  have e2 : got + n + (m - n) = got + m := by omega
  have e3 : (m - n = 0) = False := by simp; omega
  have e4 : (m = 0) = False := by simp; omega
  simp only [e2, e3, e4]

theorem piece_step (s : NS) (off need got : Nat) (kd : Kind) (n : Nat) (h : s.WF)
    (hb : off + need ≤ 65536 ∧ got ≤ need) (hn : n ≤ s.rest.length) (hle : n ≤ need - got) :
    ∃ s', s.piece off need got kd n = .ok s' ∧ s'.WF ∧ s'.rest = s.rest.drop n := by
  have hl : (s.rest.take n).length = n := by rw [List.length_take]; omega
  unfold NS.piece
  exact absorb_out 8 s _ (onExactChunk_good h.sized h.cnt off need got kd .ok _ hb (by rw [hl]; omega))
    (strict_onExactChunk _ _ _ _ _ _ _ _ _) _

/-- a completed read of no bytes at all ends the negotiation -/
theorem exactDone_zero (c : Conn) (cnt : List Int) (k : Kind) (c' : Conn) (cnt' : List Int) (acts : List Act)
    (h : exactDone {} c cnt k .ok 0 = .ok (c', cnt', acts)) :
    acts = closeActs ∨ (∃ hn pt, acts = [.resolve hn pt .resolve]) ∨ acts = [] := by
  cases k
  case hs1 => simp [exactDone, onHandshake1, closeConnection] at h; exact .inl h.2.2.symm
  case hs2 =>
    simp only [exactDone, onHandshake2, Buf.readN, ne_eq, not_true_eq_false, if_false] at h
    cases hi : c.outBuf.inb 0 ((0 : Nat) : Int)
    · rw [hi] at h; simp at h
    · rw [hi] at h; simp [closeConnection] at h; exact .inl h.2.2.symm
  case req1 =>
    unfold exactDone onRequest1 at h
    dsimp only at h
    rw [if_pos (by right; split <;> omega)] at h
    simp [closeConnection] at h; exact .inl h.2.2.symm
  case dom =>
    simp only [exactDone, onRequestDomainName] at h
    repeat' split at h
    all_goals first
      | (exfalso; rename_i hh; exact hh rfl)
      | (cases h; done)
      | (cases h; exact .inr (.inl ⟨_, _, rfl⟩))
  all_goals (simp [exactDone] at h; exact .inr (.inr h.2.2))

theorem piece_zero (s : NS) (off : Nat) (kd : Kind) (s' : NS)
    (h : s.piece off 0 0 kd 0 = .ok s') : s'.rd = none := by
  unfold NS.piece at h
  split at h
  · cases h
  · rename_i c cnt acts ho
    rcases onExactChunk_cases _ _ _ _ _ _ _ _ _ _ _ _ ho with ⟨h1, _⟩ | ⟨_, h2⟩
    · exfalso; apply h1; right; left; simp
    · simp only [List.take_zero, List.length_nil, Nat.add_zero] at h2
      rcases exactDone_zero _ _ _ _ _ _ h2 with e | ⟨hn, pt, e⟩ | e
      all_goals (subst e; simp [NS.absorb, closeActs] at h; subst h; rfl)

/-! ### settling -/

def NS.Settled (s : NS) : Prop := s.rd = none ∨ s.rest = []

theorem deliver_settled (s : NS) (k : Nat) (h : s.Settled) : s.deliver {} k = .ok s := by
  rcases h with h | h
  · exact deliver_none s k h
  · exact deliver_empty s k h

/-- one read completion from a well-formed state: no fault, well-formed again, and progress -/
theorem deliver_step (s : NS) (k : Nat) (h : s.WF) :
    ∃ s', s.deliver {} k = .ok s' ∧ s'.WF ∧ s'.rest.length ≤ s.rest.length
      ∧ ((s.Settled ∧ s' = s) ∨ s'.rest.length < s.rest.length ∨ s'.rd = none) := by
  by_cases hs : s.Settled
  · exact ⟨s, deliver_settled s k hs, h, Nat.le_refl _, .inl ⟨hs, rfl⟩⟩
  · cases hrd : s.rd with
    | none => exact absurd (.inl hrd) hs
    | some q =>
      obtain ⟨off, need, got, kd⟩ := q
      have hne : s.rest ≠ [] := fun e => hs (.inr e)
      have hpos : 0 < s.rest.length := List.length_pos_iff.mpr hne
      obtain ⟨hb1, hb2, hb3⟩ := h.rd off need got kd hrd
      rw [deliver_piece s off need got kd k hrd hne]
      obtain ⟨s', e1, e2, e3⟩ := piece_step s off need got kd (min (k + 1) (min (need - got) s.rest.length)) h ⟨hb1, hb2⟩ (by omega) (by omega)
      refine ⟨s', e1, e2, by rw [e3, List.length_drop]; omega, ?_⟩
      by_cases hz : got < need
      · right; left; rw [e3, List.length_drop]; omega
      · right; right
        have hg : got = 0 := by omega
        have hn : need = 0 := by omega
        subst hg hn
        have : min (k + 1) (min (0 - 0) s.rest.length) = 0 := by omega
        rw [this] at e1
        exact piece_zero s off kd s' e1

theorem settle_settled (f : Nat) (s : NS) (h : s.Settled) : NS.settle {} f s = .ok s := by
  induction f with
  | zero => rfl
  | succ f ih => unfold NS.settle; rw [deliver_settled s _ h]; exact ih

theorem settle_enough (f : Nat) : ∀ (s : NS), s.WF → (s.rest.length + 1 ≤ f ∨ s.Settled) →
    ∃ t, NS.settle {} f s = .ok t ∧ t.Settled := by
  induction f with
  | zero =>
    intro s _ h
    rcases h with h | h
    · omega
    · exact ⟨s, rfl, h⟩
  | succ f ih =>
    intro s hw h
    by_cases hs : s.Settled
    · exact ⟨s, settle_settled _ s hs, hs⟩
    · have hf := h.resolve_right hs
      obtain ⟨s', e1, e2, e3, e4⟩ := deliver_step s 65535 hw
      unfold NS.settle
      rw [e1]
      rcases e4 with ⟨e4, _⟩ | e4 | e4
      · exact absurd e4 hs
      · exact ih s' e2 (.inl (by omega))
      · exact ih s' e2 (.inr (.inl e4))

theorem settle_succ (f : Nat) (s : NS) : NS.settle {} (f + 1) s =
    (match s.deliver {} 65535 with
     | .error e => .error e
     | .ok s' => NS.settle {} f s') := rfl

theorem settle_add (f g : Nat) : ∀ (s : NS), NS.settle {} (f + g) s =
    (match NS.settle {} f s with
     | .error e => .error e
     | .ok t => NS.settle {} g t) := by
  induction f with
  | zero => intro s; simp [NS.settle]
  | succ f ih =>
    intro s
    rw [Nat.succ_add, settle_succ, settle_succ]
    cases s.deliver {} 65535 with
    | error e => rfl
    | ok s' => exact ih s'

theorem settle_stable (f g : Nat) (s : NS) (hw : s.WF) (hf : s.rest.length + 1 ≤ f ∨ s.Settled)
    (hg : s.rest.length + 1 ≤ g ∨ s.Settled) : NS.settle {} f s = NS.settle {} g s := by
  obtain ⟨t, e1, e2⟩ := settle_enough f s hw hf
  obtain ⟨t', e3, e4⟩ := settle_enough g s hw hg
  have a1 := settle_add f g s
  have a2 := settle_add g f s
  rw [e1] at a1; rw [e3] at a2
  simp only [settle_settled _ _ e2, settle_settled _ _ e4] at a1 a2
  rw [Nat.add_comm, a2] at a1
  rw [e1, e3, a1]

/-! ### a piece against the maximal piece -/

/-- a completion carrying any piece either IS the completion carrying the maximal piece, or
    leaves a state from which the maximal piece gives what it gives from the start -/
theorem deliver_max (s : NS) (k : Nat) (h : s.WF) (s1 : NS) (hd : s.deliver {} k = .ok s1) :
    s.deliver {} 65535 = .ok s1 ∨ s1.deliver {} 65535 = s.deliver {} 65535 := by
  by_cases hs : s.Settled
  · rw [deliver_settled s k hs] at hd; cases hd
    exact .inl (deliver_settled s _ hs)
  · cases hrd : s.rd with
    | none => exact absurd (.inl hrd) hs
    | some q =>
      obtain ⟨off, need, got, kd⟩ := q
      have hne : s.rest ≠ [] := fun e => hs (.inr e)
      have hpos : 0 < s.rest.length := List.length_pos_iff.mpr hne
      obtain ⟨hb1, hb2, hb3⟩ := h.rd off need got kd hrd
      rw [deliver_piece s off need got kd k hrd hne] at hd
      rw [deliver_piece s off need got kd 65535 hrd hne]
      have hK : min (65535 + 1) (min (need - got) s.rest.length) = min (need - got) s.rest.length := by omega
      rw [hK]
      by_cases hk : min (k + 1) (min (need - got) s.rest.length) = min (need - got) s.rest.length
      · left; rw [← hk]; exact hd
      · right
        have hn : min (k + 1) (min (need - got) s.rest.length) = k + 1 := by omega
        rw [hn] at hd hk
        rw [piece_partial s off need got kd (k + 1) h hb1 (by omega) (by omega) (by omega)] at hd
        cases hd
        have hrd1 : (s.part off need got kd (k + 1)).rd = some (off, need, got + (k + 1), kd) := rfl
        have hrest1 : (s.part off need got kd (k + 1)).rest = s.rest.drop (k + 1) := rfl
        have hne1 : (s.part off need got kd (k + 1)).rest ≠ [] := by
          rw [hrest1]; intro e
          have := congrArg List.length e
          rw [List.length_drop] at this; simp at this; omega
        rw [deliver_piece _ off need (got + (k + 1)) kd 65535 hrd1 hne1, hrest1, List.length_drop]
        have hm : min (65535 + 1) (min (need - (got + (k + 1))) (s.rest.length - (k + 1)))
            = min (need - got) s.rest.length - (k + 1) := by omega
        rw [hm]
        exact piece_fuse s off need got kd (k + 1) _ h hb1 (by omega) (by omega) (by omega) (by omega)

/-- settling after one more read completion = settling before it -/
theorem settle_deliver (s : NS) (k : Nat) (h : s.WF) (s1 : NS) (hd : s.deliver {} k = .ok s1) :
    s1.settle {} s1.fuel = s.settle {} s.fuel := by
  obtain ⟨s1', e1, hw1, hle1, _⟩ := deliver_step s k h
  rw [hd] at e1; cases e1
  unfold NS.fuel
  rcases deliver_max s k h s1 hd with hm | hm
  · -- the piece was the maximal one
    obtain ⟨s2, e1, _, _, e4⟩ := deliver_step s 65535 h
    rw [hm] at e1; cases e1
    rcases e4 with ⟨_, e4⟩ | e4 | e4
    · rw [e4]
    · rw [settle_succ s.rest.length s, hm]
      exact settle_stable _ _ s1 hw1 (.inl (Nat.le_refl _)) (.inl (by omega))
    · rw [settle_succ s.rest.length s, hm]
      exact settle_stable _ _ s1 hw1 (.inr (.inl e4)) (.inr (.inl e4))
  · -- a partial piece: the maximal piece from here fuses with it
    obtain ⟨s2, e1, hw2, _, e4⟩ := deliver_step s1 65535 hw1
    rw [settle_succ s1.rest.length s1, settle_succ s.rest.length s, ← hm, e1]
    dsimp only
    rcases e4 with ⟨e4, e5⟩ | e4 | e4
    · subst e5
      rw [settle_settled _ _ e4, settle_settled _ _ e4]
    · exact settle_stable _ _ s2 hw2 (.inl (by omega)) (.inl (by omega))
    · exact settle_stable _ _ s2 hw2 (.inr (.inl e4)) (.inr (.inl e4))

theorem feed_wf (ks : List Nat) : ∀ (s : NS), s.WF →
    ∃ s1, s.feed {} ks = .ok s1 ∧ s1.WF ∧ s1.settle {} s1.fuel = s.settle {} s.fuel := by
  induction ks with
  | nil => intro s h; exact ⟨s, rfl, h, rfl⟩
  | cons k ks ih =>
    intro s h
    obtain ⟨s', e1, e2, _⟩ := deliver_step s k h
    obtain ⟨s1, f1, f2, f3⟩ := ih s' e2
    refine ⟨s1, ?_, f2, ?_⟩
    · unfold NS.feed; rw [e1]; exact f1
    · rw [f3]; exact settle_deliver s k h s' e1

/-! ### the theorems -/

/-- **Whatever the segmentation**: after ANY schedule `ks` of read completions (each carrying
    any non-empty piece of the unread client stream), letting the negotiation run to its end
    reaches exactly the state reached by running it to its end directly — same connection state
    (buffers included), same counters, same unread rest of the stream (the payload), same log of
    actions (method reply, then close / connect / bind / UDP relay / lookup …). -/
theorem stream_segmentation (ver : Int) (flags : Nat) (cnt : List Int) (hc : cnt.length = 3)
    (bs : Bytes) (ks : List Nat) (s0 : NS) (h0 : NS.init {} ver flags cnt bs = .ok s0) :
    (match s0.feed {} ks with
     | .error e => .error e
     | .ok s1 => s1.settle {} s1.fuel) = s0.settle {} s0.fuel := by
  obtain ⟨s0', e1, hw⟩ := init_wf ver flags cnt hc bs
  rw [h0] at e1; cases e1
  obtain ⟨s1, f1, _, f3⟩ := feed_wf ks s0 hw
  rw [f1]
  exact f3

/-- no schedule makes the negotiation fault -/
theorem stream_no_fault (ver : Int) (flags : Nat) (cnt : List Int) (hc : cnt.length = 3)
    (bs : Bytes) (ks : List Nat) :
    ∃ s0, NS.init {} ver flags cnt bs = .ok s0 ∧ ∃ s1, s0.feed {} ks = .ok s1 := by
  obtain ⟨s0, e1, hw⟩ := init_wf ver flags cnt hc bs
  obtain ⟨s1, f1, _, _⟩ := feed_wf ks s0 hw
  exact ⟨s0, e1, s1, f1⟩

/-- … and the settled state is reached without a fault, with nothing left to do: no read in
    progress or no unread byte -/
theorem stream_settles (ver : Int) (flags : Nat) (cnt : List Int) (hc : cnt.length = 3)
    (bs : Bytes) (s0 : NS) (h0 : NS.init {} ver flags cnt bs = .ok s0) :
    ∃ t, s0.settle {} s0.fuel = .ok t ∧ (t.rd = none ∨ t.rest = []) := by
  obtain ⟨s0', e1, hw⟩ := init_wf ver flags cnt hc bs
  rw [h0] at e1; cases e1
  exact settle_enough _ s0 hw (.inl (Nat.le_refl _))

/-! ### non-vacuity: SOCKS5 CONNECT 10.0.2.1:8080 followed by two payload bytes -/

def demoStream : Bytes := [5, 1, 0, 5, 1, 0, 1, 10, 0, 2, 1, 31, 144, 104, 105]

def demoSettled (ks : List Nat) : Bool :=
  match NS.init {} 5 0 [0, 0, 0] demoStream with
  | .error _ => false
  | .ok s0 =>
    match s0.feed {} ks with
    | .error _ => false
    | .ok s1 =>
      match s1.settle {} s1.fuel with
      | .error _ => false
      | .ok t => decide (t.cnt = [1, 0, 0] ∧ t.rest = [104, 105] ∧ t.rd = none
                   ∧ t.log.getLast? = some (.connect 167772673 8080 .connect))

/-- byte by byte -/
example : demoSettled [0, 0, 0, 0, 0, 0, 0, 0, 0, 0, 0, 0, 0] = true := by decide
/-- in maximal pieces -/
example : demoSettled [] = true := by decide

end SimVerif.Socks
