/-
  SimVerif.Lemmas.PcapSites — where the socket models emit capture records (C19).

  * `capsTcp` / `capsUdp`: the capture records of an effect list, in emission order.
  * function level: the exact effect list of `tcpSendPacket` (`send_packet(p)`) and of its
    callers (`tcpSendSeg`, `tcpResendOne`, `tcpClose`); `udpSendTo`.
  * system level: `TS.effsA` / `TS.effsB` re-collect the effect lists that `TS.step`
    (SimVerif/StreamSys.lean, unchanged) interprets — `TS.step_posts` / `TS.step_bag` tie them
    to what `TS.step` does with them — and `CS` wraps `TS` with two ghost logs: `log` (the
    `pcapTcp` effects of every step, in order) and `wire` (every packet the writer's functions
    forwarded, i.e. put into the bag, with the time of the step).
-/
import SimVerif.Lemmas.TcpSysInv
import SimVerif.Lemmas.UdpData
import SimVerif.Pcap

namespace SimVerif

/-! ### capture records of an effect list -/

/-- one `pcap::log_tcp` call: time, source and destination endpoint, `p.byte_counter`, bytes -/
structure CapT where
  t : Int
  src : Ep
  dst : Ep
  seq : Nat
  payload : List UInt8
  deriving DecidableEq, Repr

/-- one `pcap::log_udp` call -/
structure CapU where
  t : Int
  src : Ep
  dst : Ep
  payload : List UInt8
  deriving DecidableEq, Repr

def capsTcp (e : List NEff) : List CapT :=
  e.filterMap (fun x => match x with | .pcapTcp t s d q pl => some ⟨t, s, d, q, pl⟩ | _ => none)

def capsUdp (e : List NEff) : List CapU :=
  e.filterMap (fun x => match x with | .pcapUdp t s d pl => some ⟨t, s, d, pl⟩ | _ => none)

@[simp] theorem capsTcp_nil : capsTcp [] = [] := rfl
@[simp] theorem capsUdp_nil : capsUdp [] = [] := rfl
theorem capsTcp_append (a b : List NEff) : capsTcp (a ++ b) = capsTcp a ++ capsTcp b := by
  simp [capsTcp, List.filterMap_append]
theorem capsUdp_append (a b : List NEff) : capsUdp (a ++ b) = capsUdp a ++ capsUdp b := by
  simp [capsUdp, List.filterMap_append]

/-- effect lists made of completions / control effects only: no capture record, no packet -/
def Quiet (e : List NEff) : Prop := capsTcp e = [] ∧ capsUdp e = [] ∧ s5_fwdsOf e = []

theorem Quiet.nil : Quiet [] := ⟨rfl, rfl, rfl⟩
theorem Quiet.append {a b : List NEff} (ha : Quiet a) (hb : Quiet b) : Quiet (a ++ b) := by
  refine ⟨?_, ?_, ?_⟩
  · rw [capsTcp_append, ha.1, hb.1]; rfl
  · rw [capsUdp_append, ha.2.1, hb.2.1]; rfl
  · rw [s5_fwdsOf_append, ha.2.2, hb.2.2]; rfl
theorem Quiet.post (c : Compl) : Quiet [.post c] := ⟨rfl, rfl, rfl⟩

theorem quiet_abortRecv (s : TcpSock) : Quiet s.abortRecv.2 := by
  unfold TcpSock.abortRecv
  cases s.recvH <;> cases s.waitRecvH <;> exact ⟨rfl, rfl, rfl⟩

theorem quiet_abortSend (s : TcpSock) : Quiet s.abortSend.2 := by
  unfold TcpSock.abortSend
  cases s.sendH <;> exact ⟨rfl, rfl, rfl⟩

theorem quiet_cancel (s : TcpSock) : Quiet s.cancel.2 := by
  unfold TcpSock.cancel
  have h1 := quiet_abortRecv s
  generalize s.abortRecv = r1 at h1 ⊢
  obtain ⟨s1, e1⟩ := r1
  dsimp only at h1 ⊢
  have h2 := quiet_abortSend s1
  generalize s1.abortSend = r2 at h2 ⊢
  obtain ⟨s2, e2⟩ := r2
  dsimp only at h2 ⊢
  split
  · exact (h1.append h2).append (Quiet.post _)
  · exact h1.append h2

/-! ### `send_packet(p)` -/

/-- `bytes_sent[idx]` -/
def Chan.sent (c : Chan) (idx : Nat) : Nat := if idx = 0 then c.sent0 else c.sent1

/-- `bytes_sent[idx] += uint32(len)` -/
def Chan.bump (c : Chan) (idx len : Nat) : Chan :=
  if idx = 0 then { c with sent0 := (c.sent0 + len) % 4294967296 }
  else { c with sent1 := (c.sent1 + len) % 4294967296 }

theorem Chan.bump_ep0 (c : Chan) (i l : Nat) : (c.bump i l).ep0 = c.ep0 := by unfold Chan.bump; split <;> rfl
theorem Chan.bump_ep1 (c : Chan) (i l : Nat) : (c.bump i l).ep1 = c.ep1 := by unfold Chan.bump; split <;> rfl
theorem Chan.bump_ep (c : Chan) (i l k : Nat) : (c.bump i l).ep k = c.ep k := by
  unfold Chan.ep; rw [Chan.bump_ep0, Chan.bump_ep1]
theorem Chan.bump_remoteIdx (c : Chan) (i l : Nat) (e : Ep) : (c.bump i l).remoteIdx e = c.remoteIdx e := by
  unfold Chan.remoteIdx; rw [Chan.bump_ep0]
theorem Chan.bump_selfIdx (c : Chan) (i l : Nat) (e : Ep) : (c.bump i l).selfIdx e = c.selfIdx e := by
  unfold Chan.selfIdx; rw [Chan.bump_ep0]
theorem Chan.bump_sent_same (c : Chan) (i l : Nat) : (c.bump i l).sent i = (c.sent i + l) % 4294967296 := by
  unfold Chan.bump Chan.sent; split <;> simp_all
theorem Chan.selfIdx_le (c : Chan) (e : Ep) : c.selfIdx e = 0 ∨ c.selfIdx e = 1 := by
  unfold Chan.selfIdx; split <;> simp
theorem Chan.bump_sent_other (c : Chan) (i j l : Nat) (hi : i = 0 ∨ i = 1) (hj : j = 0 ∨ j = 1) (h : j ≠ i) :
    (c.bump i l).sent j = c.sent j := by
  unfold Chan.bump Chan.sent
  rcases hi with rfl | rfl <;> rcases hj with rfl | rfl <;> simp_all

/-- the in-flight account of `send_packet` -/
def TcpSock.sendAcct (s : TcpSock) (p : Pkt) : TcpSock :=
  { s with inFlight := s.inFlight + p.payload.length,
           outstanding := (s.outstanding.filter (fun e => e.1 != p.id)) ++ [(p.id, p.payload.length)] }

/-- what `send_packet` emits: the capture record (when capturing), then the packet -/
def sendEffs (pcap : Bool) (now : Int) (src dst : Ep) (seq : Nat) (p : Pkt) : List NEff :=
  (if pcap then [NEff.pcapTcp now src dst seq p.payload] else []) ++ [.forward { p with bc := seq }]

theorem capsTcp_sendEffs (pcap : Bool) (now : Int) (src dst : Ep) (seq : Nat) (p : Pkt) :
    capsTcp (sendEffs pcap now src dst seq p) = if pcap then [⟨now, src, dst, seq, p.payload⟩] else [] := by
  cases pcap <;> rfl
theorem capsUdp_sendEffs (pcap : Bool) (now : Int) (src dst : Ep) (seq : Nat) (p : Pkt) :
    capsUdp (sendEffs pcap now src dst seq p) = [] := by
  cases pcap <;> rfl
theorem fwdsOf_sendEffs (pcap : Bool) (now : Int) (src dst : Ep) (seq : Nat) (p : Pkt) :
    s5_fwdsOf (sendEffs pcap now src dst seq p) = [{ p with bc := seq }] := by
  cases pcap <;> rfl
theorem postsOf_sendEffs (pcap : Bool) (now : Int) (src dst : Ep) (seq : Nat) (p : Pkt) :
    postsOf (sendEffs pcap now src dst seq p) = [] := by
  cases pcap <;> rfl

/-- **`send_packet` on a connected socket**: the exact result -/
theorem tcpSendPacket_conn (n : NetSt) (now : Int) (name : String) (p : Pkt) (s : TcpSock) (cid : Nat) (ch : Chan)
    (hs : n.tcp? name = some s) (hc : s.chan = some cid) (hch : n.chan? cid = some ch) :
    n.tcpSendPacket now name p =
      ((n.setChan cid (ch.bump (ch.selfIdx s.bound) p.payload.length)).setTcp name (s.sendAcct p),
       sendEffs n.cfg.pcap now s.bound (ch.ep (ch.remoteIdx s.bound)) (ch.sent (ch.selfIdx s.bound)) p) := by
  have hb : s.chan.bind n.chan? = some ch := by rw [hc]; exact hch
  unfold NetSt.tcpSendPacket
  have hg : s.chan.getD 0 = cid := by rw [hc]; rfl
  simp only [hs, hb, hg]
  show ((n.setChan cid (ch.bump (ch.selfIdx s.bound) p.payload.length)).setTcp name (s.sendAcct p),
      (if n.cfg.pcap then [NEff.pcapTcp now s.bound
        ((ch.bump (ch.selfIdx s.bound) p.payload.length).ep ((ch.bump (ch.selfIdx s.bound) p.payload.length).remoteIdx s.bound))
        (ch.sent (ch.selfIdx s.bound)) p.payload] else []) ++ [.forward { p with bc := ch.sent (ch.selfIdx s.bound) }]) = _
  rw [Chan.bump_remoteIdx, Chan.bump_ep]
  rfl

/-- `send_packet` without a socket object / without a channel: nothing at all (in the C++ the
    latter is a null dereference: Props/C12) -/
theorem tcpSendPacket_detached (n : NetSt) (now : Int) (name : String) (p : Pkt)
    (h : ((n.tcp? name).bind (·.chan)).bind n.chan? = none) : n.tcpSendPacket now name p = (n, []) := by
  unfold NetSt.tcpSendPacket
  cases hs : n.tcp? name with
  | none => rfl
  | some s =>
    rw [hs] at h
    simp only [Option.bind_some] at h
    simp only [h]

/-! ### the callers of `send_packet` -/

/-- the segment `write_some_impl` builds -/
def segPkt (s : TcpSock) (hops : List String) (seg : List UInt8) : Pkt :=
  { id := s.nextOut, ty := .payload, len := seg.length, ovh := 40, hops := hops,
    src := s.bound.toString, payload := seg, hasDrop := true, dropFwd := s.fwd }

/-- the end-of-stream marker `close()` builds -/
def eofPkt (s : TcpSock) (hops : List String) : Pkt :=
  { id := s.nextOut, ty := .err, ec := .eof, len := 0, ovh := 40, hops := hops, src := s.bound.toString }

theorem tcpSendSeg_eq (n : NetSt) (now : Int) (name : String) (hops : List String) (seg : List UInt8)
    (s : TcpSock) (hs : n.tcp? name = some s) :
    n.tcpSendSeg now name hops seg
      = (n.setTcp name { s with nextOut := s.nextOut + 1 }).tcpSendPacket now name (segPkt s hops seg) := by
  unfold NetSt.tcpSendSeg; rw [hs]; rfl

theorem tcpResendOne_eq (n : NetSt) (now : Int) (name : String) (s : TcpSock) (hs : n.tcp? name = some s) :
    n.tcpResendOne now name =
      match s.resend with
      | [] => none
      | p :: rest =>
        if s.chan.isNone then none
        else if s.inFlight + p.payload.length ≤ s.cwnd then
          some ((n.setTcp name { s with resend := rest }).tcpSendPacket now name p)
        else none := by
  unfold NetSt.tcpResendOne; rw [hs]; rfl

theorem closeHead_eq (n : NetSt) (now : Int) (name : String) (s0 : TcpSock) (cid : Nat) (ch : Chan)
    (hc : s0.chan = some cid) (hch : n.chan? cid = some ch) :
    closeHead n now name s0 =
      if !(ch.hops (ch.remoteIdx s0.bound)).isEmpty && s0.connectH.isNone then
        (n.setTcp name { s0 with nextOut := s0.nextOut + 1 }).tcpSendPacket now name
          (eofPkt s0 (ch.hops (ch.remoteIdx s0.bound)))
      else (n, []) := by
  have hb : s0.chan.bind n.chan? = some ch := by rw [hc]; exact hch
  unfold closeHead
  simp only [hb]
  rfl

theorem closeHead_detached (n : NetSt) (now : Int) (name : String) (s0 : TcpSock)
    (h : s0.chan.bind n.chan? = none) : closeHead n now name s0 = (n, []) := by
  unfold closeHead; simp only [h]

/-- the second half of `close()`: completions only; the socket ends up detached and unbound -/
theorem closeTail_eq (n : NetSt) (name : String) (e0 : List NEff) (s : TcpSock) (hs : n.tcp? name = some s) :
    ∃ (n1 : NetSt) (s' : TcpSock) (e1 : List NEff), closeTail n name e0 = (n1.setTcp name s', e0 ++ e1) ∧ Quiet e1 ∧ s'.chan = none
      ∧ n1.chans = n.chans ∧ n1.cfg = n.cfg ∧ (∀ k, n1.tcp? k = n.tcp? k) := by
  unfold closeTail
  simp only [hs]
  generalize hx : ({ s with chan := none, bound := {}, isOpen := false, fwd := none, mss := 1475, cwnd := 2950, inFlight := 0, outstanding := [], inq := [], reorder := [], resend := [], recvNull := false, nextIn := 0, nextOut := 0, lastDrop := 0 } : TcpSock) = sx
  have hcx : sx.chan = none := by rw [← hx]
  have hq := quiet_cancel sx
  have hw := (cancel_spec sx).1.chan
  generalize sx.cancel = r at hq hw ⊢
  obtain ⟨s', e1⟩ := r
  refine ⟨_, s', e1, rfl, hq, by rw [hw]; exact hcx, ?_, ?_, ?_⟩
  · cases s.fwd <;> cases (!s.bound.isDefault) <;> rfl
  · cases s.fwd <;> cases (!s.bound.isDefault) <;> rfl
  · intro k; cases s.fwd <;> cases (!s.bound.isDefault) <;> rfl

/-! ### effect lists without capture records -/

def NoCap (e : List NEff) : Prop := capsTcp e = [] ∧ capsUdp e = []

theorem NoCap.nil : NoCap [] := ⟨rfl, rfl⟩
theorem NoCap.append {a b : List NEff} (ha : NoCap a) (hb : NoCap b) : NoCap (a ++ b) :=
  ⟨by rw [capsTcp_append, ha.1, hb.1]; rfl, by rw [capsUdp_append, ha.2, hb.2]; rfl⟩
theorem Quiet.noCap {e : List NEff} (h : Quiet e) : NoCap e := ⟨h.1, h.2.1⟩

theorem noCap_asyncReadImpl (s : TcpSock) (op : ReadOp) : NoCap (s.asyncReadImpl op).2 := by
  unfold TcpSock.asyncReadImpl
  generalize s.readSome s.chan.isSome op.caps = r
  obtain ⟨s1, x⟩ := r
  dsimp only
  split <;> exact ⟨rfl, rfl⟩

theorem noCap_asyncWaitReadImpl (s : TcpSock) (h : Nat) : NoCap (s.asyncWaitReadImpl h).2 := by
  unfold TcpSock.asyncWaitReadImpl
  split
  · exact ⟨rfl, rfl⟩
  · split <;> exact ⟨rfl, rfl⟩

theorem noCap_maybeWakeupReader (tp : TParams) (s : TcpSock) : NoCap (s.maybeWakeupReader tp).2 := by
  unfold TcpSock.maybeWakeupReader
  dsimp only
  repeat' split
  all_goals first | exact NoCap.nil | exact noCap_asyncWaitReadImpl _ _ | exact noCap_asyncReadImpl _ _

/-- `incoming_packet` never captures: ACKs go out through `forward_packet` directly -/
theorem noCap_tcpIncoming (tp : TParams) (n : NetSt) (now : Int) (name : String) (p : Pkt) :
    NoCap (n.tcpIncoming tp now name p).2 := by
  unfold NetSt.tcpIncoming
  split
  · exact NoCap.nil
  · rename_i s hs
    split
    · exact NoCap.nil
    · exact NoCap.nil
    · exact ⟨rfl, rfl⟩
    · split
      · exact NoCap.nil
      · exact ⟨rfl, rfl⟩
    · split
      · exact NoCap.nil
      · dsimp only
        split
        · exact ⟨rfl, rfl⟩
        · have := noCap_maybeWakeupReader tp
          generalize hd : drainReorder (s.reorder.length + 1) (s.nextIn + 1) s.reorder (s.inq ++ [p]) = d
          obtain ⟨nx, ro, q⟩ := d
          dsimp only
          have h2 := this { s with nextIn := nx, reorder := ro, inq := q }
          generalize TcpSock.maybeWakeupReader tp { s with nextIn := nx, reorder := ro, inq := q } = r at h2
          obtain ⟨s2, e2⟩ := r
          exact NoCap.append ⟨rfl, rfl⟩ h2

theorem noCap_tcpAsyncRead (n : NetSt) (name : String) (op : ReadOp) : NoCap (n.tcpAsyncRead name op).2 := by
  unfold NetSt.tcpAsyncRead
  split
  · exact NoCap.nil
  · rename_i s hs
    have h1 := (quiet_abortRecv s).noCap
    generalize s.abortRecv = r1 at h1 ⊢
    obtain ⟨s1, e1⟩ := r1
    dsimp only at h1 ⊢
    have h2 := noCap_asyncReadImpl s1 op
    generalize s1.asyncReadImpl op = r2 at h2 ⊢
    obtain ⟨s2, e2⟩ := r2
    exact h1.append h2

theorem noCap_tcpWaitRead (n : NetSt) (name : String) (h : Nat) : NoCap (n.tcpWaitRead name h).2 := by
  unfold NetSt.tcpWaitRead
  split
  · exact NoCap.nil
  · rename_i s hs
    have h1 := (quiet_abortRecv s).noCap
    generalize s.abortRecv = r1 at h1 ⊢
    obtain ⟨s1, e1⟩ := r1
    dsimp only at h1 ⊢
    have h2 := noCap_asyncWaitReadImpl s1 h
    generalize s1.asyncWaitReadImpl h = r2 at h2 ⊢
    obtain ⟨s2, e2⟩ := r2
    exact h1.append h2

theorem quiet_tcpWriteFinish (n : NetSt) (name : String) (op : WriteOp) (r : Except Ec Nat) :
    Quiet (n.tcpWriteFinish name op r).2 := by
  unfold NetSt.tcpWriteFinish
  split
  · exact Quiet.nil
  · split <;> exact ⟨rfl, rfl, rfl⟩

theorem noCap_tcpAsyncWrite (n : NetSt) (name : String) (op : WriteOp) :
    NoCap (n.tcpAsyncWrite name op).2 ∧ s5_fwdsOf (n.tcpAsyncWrite name op).2 = [] := by
  unfold NetSt.tcpAsyncWrite
  split
  · exact ⟨NoCap.nil, rfl⟩
  · rename_i s hs
    have h1 := quiet_abortSend s
    generalize s.abortSend = r1 at h1 ⊢
    obtain ⟨s1, e1⟩ := r1
    dsimp only at h1 ⊢
    exact ⟨h1.noCap.append ⟨rfl, rfl⟩, by rw [s5_fwdsOf_append, h1.2.2]; rfl⟩

theorem noCap_tcpIncoming_ack (tp : TParams) (n : NetSt) (now : Int) (name : String) (p : Pkt) (hp : p.ty = .ack) :
    NoCap (n.tcpIncoming tp now name p).2 ∧ s5_fwdsOf (n.tcpIncoming tp now name p).2 = [] :=
  ⟨noCap_tcpIncoming tp n now name p, (tcpIncoming_ack_spec tp n now name p hp).2.1⟩

/-! ### the writer's view of its channel -/

/-- socket `name` is connected: it holds channel `cid`, which exists; it is bound to `src`, sits
    at index `idx` of the channel (`self_idx`), the peer's endpoint in the channel
    (`ep[remote_idx]`, the REAL endpoint, not `visible_ep`) is `dst`, and the byte counter of
    its direction (`bytes_sent[idx]`) is `q` -/
def ConnAt (n : NetSt) (name : String) (cid idx : Nat) (src dst : Ep) (q : Nat) : Prop :=
  ∃ s ch, n.tcp? name = some s ∧ s.chan = some cid ∧ n.chan? cid = some ch ∧ s.bound = src
    ∧ ch.selfIdx src = idx ∧ ch.ep (ch.remoteIdx src) = dst ∧ ch.sent idx = q

/-- no socket object, no channel, or a dangling channel id: `send_packet` cannot run -/
def Detached (n : NetSt) (name : String) : Prop := ((n.tcp? name).bind (·.chan)).bind n.chan? = none

/-- same channel table, capture switch, and channel / binding of socket `a` -/
def SameCap (a : String) (n n' : NetSt) : Prop :=
  n'.chans = n.chans ∧ n'.cfg.pcap = n.cfg.pcap
  ∧ (n'.tcp? a).map (fun s => (s.chan, s.bound)) = (n.tcp? a).map (fun s => (s.chan, s.bound))

theorem SameCap.refl (a : String) (n : NetSt) : SameCap a n n := ⟨rfl, rfl, rfl⟩
theorem SameCap.trans {a : String} {n1 n2 n3 : NetSt} (h1 : SameCap a n1 n2) (h2 : SameCap a n2 n3) :
    SameCap a n1 n3 := ⟨h2.1.trans h1.1, h2.2.1.trans h1.2.1, h2.2.2.trans h1.2.2⟩

theorem SameCap.setSelf {a : String} {n : NetSt} {s s' : TcpSock} (hs : n.tcp? a = some s)
    (h1 : s'.chan = s.chan) (h2 : s'.bound = s.bound) : SameCap a n (n.setTcp a s') := by
  refine ⟨rfl, rfl, ?_⟩
  rw [tcp?_setTcp_same, hs]; simp [h1, h2]

theorem SameCap.setOther {a b : String} (n : NetSt) (s' : TcpSock) (h : a ≠ b) : SameCap a n (n.setTcp b s') := by
  refine ⟨rfl, rfl, ?_⟩
  rw [tcp?_setTcp_other _ _ _ _ h]

theorem ConnAt.same {a : String} {n n' : NetSt} {cid idx : Nat} {src dst : Ep} {q : Nat}
    (h : ConnAt n a cid idx src dst q) (hs : SameCap a n n') : ConnAt n' a cid idx src dst q := by
  obtain ⟨s, ch, h1, h2, h3, h4, h5⟩ := h
  obtain ⟨c1, _, c3⟩ := hs
  rw [h1] at c3
  cases hs' : n'.tcp? a with
  | none => rw [hs'] at c3; simp at c3
  | some s' =>
    rw [hs'] at c3
    simp only [Option.map_some, Option.some.injEq, Prod.mk.injEq] at c3
    refine ⟨s', ch, hs', by rw [c3.1]; exact h2, ?_, by rw [c3.2]; exact h4, h5⟩
    unfold NetSt.chan? at h3 ⊢
    rw [c1]; exact h3

theorem Detached.same {a : String} {n n' : NetSt} (h : Detached n a) (hs : SameCap a n n') : Detached n' a := by
  obtain ⟨c1, _, c3⟩ := hs
  unfold Detached at h ⊢
  have e1 : (n'.tcp? a).bind (·.chan) = (n.tcp? a).bind (·.chan) := by
    cases h1 : n'.tcp? a <;> cases h2 : n.tcp? a <;> rw [h1, h2] at c3 <;> simp at c3 ⊢
    exact c3.1
  have e2 : n'.chan? = n.chan? := by funext c; unfold NetSt.chan?; rw [c1]
  rw [e1, e2]; exact h

/-- the action touches socket `b` only -/
def OnlySock (b : String) (n n' : NetSt) : Prop :=
  n'.chans = n.chans ∧ n'.cfg = n.cfg ∧ ∀ k, k ≠ b → n'.tcp? k = n.tcp? k

theorem OnlySock.refl (b : String) (n : NetSt) : OnlySock b n n := ⟨rfl, rfl, fun _ _ => rfl⟩
theorem OnlySock.set (b : String) (n : NetSt) (s' : TcpSock) : OnlySock b n (n.setTcp b s') :=
  ⟨rfl, rfl, fun _ hk => tcp?_setTcp_other _ _ _ _ hk⟩
theorem OnlySock.sameCap {a b : String} {n n' : NetSt} (h : OnlySock b n n') (hab : a ≠ b) : SameCap a n n' :=
  ⟨h.1, by rw [h.2.1], by rw [h.2.2 a hab]⟩

theorem onlySock_tcpIncoming (tp : TParams) (n : NetSt) (now : Int) (name : String) (p : Pkt) :
    OnlySock name n (n.tcpIncoming tp now name p).1 := by
  unfold NetSt.tcpIncoming
  split
  · exact OnlySock.refl _ _
  · rename_i s hs
    split
    · exact OnlySock.refl _ _
    · exact OnlySock.refl _ _
    · exact OnlySock.set _ _ _
    · split
      · exact OnlySock.refl _ _
      · exact OnlySock.set _ _ _
    · split
      · exact OnlySock.refl _ _
      · dsimp only
        split
        · exact OnlySock.set _ _ _
        · generalize drainReorder (s.reorder.length + 1) (s.nextIn + 1) s.reorder (s.inq ++ [p]) = d
          obtain ⟨nx, ro, q⟩ := d
          dsimp only
          generalize TcpSock.maybeWakeupReader tp { s with nextIn := nx, reorder := ro, inq := q } = r
          obtain ⟨s2, e2⟩ := r
          exact OnlySock.set _ _ _

theorem onlySock_tcpAsyncRead (n : NetSt) (name : String) (op : ReadOp) : OnlySock name n (n.tcpAsyncRead name op).1 := by
  unfold NetSt.tcpAsyncRead
  split
  · exact OnlySock.refl _ _
  · rename_i s hs
    generalize s.abortRecv = r1
    obtain ⟨s1, e1⟩ := r1
    dsimp only
    generalize s1.asyncReadImpl op = r2
    obtain ⟨s2, e2⟩ := r2
    exact OnlySock.set _ _ _

theorem onlySock_tcpWaitRead (n : NetSt) (name : String) (h : Nat) : OnlySock name n (n.tcpWaitRead name h).1 := by
  unfold NetSt.tcpWaitRead
  split
  · exact OnlySock.refl _ _
  · rename_i s hs
    generalize s.abortRecv = r1
    obtain ⟨s1, e1⟩ := r1
    dsimp only
    generalize s1.asyncWaitReadImpl h = r2
    obtain ⟨s2, e2⟩ := r2
    exact OnlySock.set _ _ _

theorem onlySock_tcpReadNb (n : NetSt) (name : String) (caps : List Nat) : OnlySock name n (n.tcpReadNb name caps).1 := by
  unfold NetSt.tcpReadNb
  split
  · exact OnlySock.refl _ _
  · rename_i s hs
    generalize s.readSome s.chan.isSome caps = r
    obtain ⟨s1, x⟩ := r
    exact OnlySock.set _ _ _

/-! writer-side actions that keep the view -/

theorem sameCap_tcpWriteFinish (n : NetSt) (a : String) (op : WriteOp) (r : Except Ec Nat) :
    SameCap a n (n.tcpWriteFinish a op r).1 := by
  unfold NetSt.tcpWriteFinish
  split
  · exact SameCap.refl _ _
  · rename_i s hs
    split <;> exact SameCap.setSelf hs rfl rfl

theorem sameCap_tcpAsyncWrite (n : NetSt) (a : String) (op : WriteOp) : SameCap a n (n.tcpAsyncWrite a op).1 := by
  unfold NetSt.tcpAsyncWrite
  split
  · exact SameCap.refl _ _
  · rename_i s hs
    exact SameCap.setSelf hs rfl rfl

theorem sameCap_tcpAckPost (tp : TParams) (n : NetSt) (a : String) (wb : Bool) (acked : Nat) :
    SameCap a n (n.tcpAckPost tp a wb acked).1 := by
  unfold NetSt.tcpAckPost
  split
  · exact SameCap.refl _ _
  · rename_i s hs
    exact SameCap.setSelf hs rfl rfl

theorem sameCap_tcpPacketDropped (tp : TParams) (n : NetSt) (a : String) (p : Pkt) :
    SameCap a n (n.tcpPacketDropped tp a p) := by
  unfold NetSt.tcpPacketDropped
  split
  · exact SameCap.refl _ _
  · rename_i s hs
    split
    · exact SameCap.refl _ _
    · dsimp only
      repeat' split
      all_goals exact SameCap.setSelf hs rfl rfl

theorem sameCap_tcpIncoming_ack (tp : TParams) (n : NetSt) (now : Int) (a : String) (p : Pkt) (hp : p.ty = .ack) :
    SameCap a n (n.tcpIncoming tp now a p).1 := by
  unfold NetSt.tcpIncoming
  split
  · exact SameCap.refl _ _
  · rename_i s hs
    simp only [hp]
    exact SameCap.setSelf hs rfl rfl

/-! ### sending, seen through the view -/

/-- `send_packet` of a connected writer: one record (when capturing) right before the one
    packet; the record carries the time of the call, the socket's bound endpoint, the peer's
    channel endpoint, the byte counter BEFORE the send and the packet's bytes; the packet is
    stamped with the same counter value; the counter advances by the payload length -/
theorem ConnAt.sendPacket {n : NetSt} {a : String} {cid idx : Nat} {src dst : Ep} {q : Nat}
    (h : ConnAt n a cid idx src dst q) (now : Int) (p : Pkt) :
    (n.tcpSendPacket now a p).2 = sendEffs n.cfg.pcap now src dst q p
    ∧ ConnAt (n.tcpSendPacket now a p).1 a cid idx src dst ((q + p.payload.length) % 4294967296)
    ∧ (n.tcpSendPacket now a p).1.cfg.pcap = n.cfg.pcap := by
  obtain ⟨s, ch, h1, h2, h3, h4, h5, h6, h7⟩ := h
  rw [tcpSendPacket_conn n now a p s cid ch h1 h2 h3]
  subst h4
  refine ⟨by rw [h5, h6, h7], ?_, rfl⟩
  refine ⟨s.sendAcct p, ch.bump (ch.selfIdx s.bound) p.payload.length, tcp?_setTcp_same _ _ _, h2, ?_, rfl, ?_, ?_, ?_⟩
  · show (n.setChan cid (ch.bump (ch.selfIdx s.bound) p.payload.length)).chan? cid = _
    unfold NetSt.chan? NetSt.setChan
    unfold NetSt.chan? at h3
    simp [List.getElem?_mapIdx, h3]
  · rw [Chan.bump_selfIdx]; exact h5
  · rw [Chan.bump_remoteIdx, Chan.bump_ep]; exact h6
  · rw [← h5, Chan.bump_sent_same, h5, h7]

theorem Detached.sendPacket {n : NetSt} {a : String} (h : Detached n a) (now : Int) (p : Pkt) :
    n.tcpSendPacket now a p = (n, []) := tcpSendPacket_detached n now a p h

/-! ### the capture invariant of one direction -/

/-- the constants of one direction of one connection: channel id, the writer's index in it, the
    writer's bound endpoint, the peer's channel endpoint, the byte counter the direction starts
    with (0 in the repaired tree), the capture switch -/
structure CapKey where
  cid : Nat
  idx : Nat
  src : Ep
  dst : Ep
  init : Nat
  pcap : Bool
  deriving Repr

/-- the byte counter after the packets of `w`, starting from `q` (`uint32` arithmetic) -/
def wireEnd (q : Nat) : List (Int × Pkt) → Nat
  | [] => q
  | e :: r => wireEnd ((q + e.2.payload.length) % 4294967296) r

/-- every packet of `w` is stamped with the byte counter at the time it was sent -/
def WireSeq (q : Nat) : List (Int × Pkt) → Prop
  | [] => True
  | e :: r => e.2.bc = q ∧ WireSeq ((q + e.2.payload.length) % 4294967296) r

/-- the record the capture must hold for a packet put on the wire at time `e.1` -/
def recOf (k : CapKey) (e : Int × Pkt) : CapT := ⟨e.1, k.src, k.dst, e.2.bc, e.2.payload⟩

theorem wireEnd_append (q : Nat) (a b : List (Int × Pkt)) : wireEnd q (a ++ b) = wireEnd (wireEnd q a) b := by
  induction a generalizing q with
  | nil => rfl
  | cons e r ih => exact ih _

theorem WireSeq_append (q : Nat) (a b : List (Int × Pkt)) :
    WireSeq q (a ++ b) ↔ WireSeq q a ∧ WireSeq (wireEnd q a) b := by
  induction a generalizing q with
  | nil => simp [WireSeq, wireEnd]
  | cons e r ih => simp only [List.cons_append, WireSeq, wireEnd, ih, and_assoc]

structure CapOk (a : String) (k : CapKey) (n : NetSt) (wire : List (Int × Pkt)) (log : List CapT) : Prop where
  pcap : n.cfg.pcap = k.pcap
  log : log = if k.pcap then wire.map (recOf k) else []
  seq : WireSeq k.init wire
  view : Detached n a ∨ ConnAt n a k.cid k.idx k.src k.dst (wireEnd k.init wire)

/-- one writer-side action at time `t` with effect list `e`: the invariant carries over when
    the packets forwarded in `e` are appended to the wire log and the records in `e` to the
    capture log -/
def CapStep (a : String) (k : CapKey) (t : Int) (n n' : NetSt) (e : List NEff) : Prop :=
  ∀ w l, CapOk a k n w l → CapOk a k n' (w ++ (s5_fwdsOf e).map (fun p => (t, p))) (l ++ capsTcp e)

theorem CapStep.silent {a : String} {k : CapKey} {t : Int} {n n' : NetSt} {e : List NEff}
    (hs : SameCap a n n') (hc : capsTcp e = []) (hf : s5_fwdsOf e = []) : CapStep a k t n n' e := by
  intro w l h
  rw [hc, hf]
  simp only [List.map_nil, List.append_nil]
  refine ⟨hs.2.1.trans h.pcap, h.log, h.seq, ?_⟩
  rcases h.view with hv | hv
  · exact Or.inl (hv.same hs)
  · exact Or.inr (hv.same hs)

theorem CapStep.refl (a : String) (k : CapKey) (t : Int) (n : NetSt) : CapStep a k t n n [] :=
  CapStep.silent (SameCap.refl a n) rfl rfl

theorem CapStep.trans {a : String} {k : CapKey} {t : Int} {n1 n2 n3 : NetSt} {e1 e2 : List NEff}
    (h1 : CapStep a k t n1 n2 e1) (h2 : CapStep a k t n2 n3 e2) : CapStep a k t n1 n3 (e1 ++ e2) := by
  intro w l h
  have := h2 _ _ (h1 w l h)
  rw [s5_fwdsOf_append, capsTcp_append, List.map_append, ← List.append_assoc, ← List.append_assoc]
  exact this

theorem CapStep.trans_nil {a : String} {k : CapKey} {t : Int} {n1 n2 n3 : NetSt} {e2 : List NEff}
    (h1 : CapStep a k t n1 n2 []) (h2 : CapStep a k t n2 n3 e2) : CapStep a k t n1 n3 e2 := by
  have := h1.trans h2
  rwa [List.nil_append] at this

/-- an action after which the socket holds no channel -/
theorem CapStep.detach {a : String} {k : CapKey} {t : Int} {n n' : NetSt} {e : List NEff}
    (hd : Detached n' a) (hp : n'.cfg.pcap = n.cfg.pcap) (hc : capsTcp e = []) (hf : s5_fwdsOf e = []) :
    CapStep a k t n n' e := by
  intro w l h
  rw [hc, hf]
  simp only [List.map_nil, List.append_nil]
  exact ⟨hp.trans h.pcap, h.log, h.seq, Or.inl hd⟩

theorem capStep_sendPacket (a : String) (k : CapKey) (now : Int) (n : NetSt) (p : Pkt) :
    CapStep a k now n (n.tcpSendPacket now a p).1 (n.tcpSendPacket now a p).2 := by
  intro w l h
  rcases h.view with hv | hv
  · rw [hv.sendPacket now p]
    exact CapStep.refl a k now n w l h
  · obtain ⟨h1, h2, h3⟩ := hv.sendPacket now p
    rw [h1, capsTcp_sendEffs, fwdsOf_sendEffs]
    simp only [List.map_cons, List.map_nil]
    refine ⟨h3.trans h.pcap, ?_, ?_, Or.inr ?_⟩
    · rw [h.log, h.pcap]
      cases k.pcap
      · rfl
      · simp [recOf]
    · rw [WireSeq_append]
      exact ⟨h.seq, rfl, trivial⟩
    · rw [wireEnd_append]; exact h2

theorem capStep_sendSeg (a : String) (k : CapKey) (now : Int) (n : NetSt) (hops : List String) (seg : List UInt8) :
    CapStep a k now n (n.tcpSendSeg now a hops seg).1 (n.tcpSendSeg now a hops seg).2 := by
  cases hs : n.tcp? a with
  | none => rw [tcpSendSeg_none n now a hops seg hs]; exact CapStep.refl a k now n
  | some s =>
    rw [tcpSendSeg_eq n now a hops seg s hs]
    have h1 : CapStep a k now n (n.setTcp a { s with nextOut := s.nextOut + 1 }) [] :=
      CapStep.silent (SameCap.setSelf hs rfl rfl) rfl rfl
    exact h1.trans (capStep_sendPacket a k now _ _)

theorem capStep_resendOne (a : String) (k : CapKey) (now : Int) (n : NetSt) (r : NetSt × List NEff)
    (h : n.tcpResendOne now a = some r) : CapStep a k now n r.1 r.2 := by
  cases hs : n.tcp? a with
  | none => unfold NetSt.tcpResendOne at h; rw [hs] at h; cases h
  | some s =>
    rw [tcpResendOne_eq n now a s hs] at h
    split at h
    · cases h
    · rename_i p rest hr
      split at h
      · cases h
      · split at h
        · cases h
          have h1 : CapStep a k now n (n.setTcp a { s with resend := rest }) [] :=
            CapStep.silent (SameCap.setSelf hs rfl rfl) rfl rfl
          exact h1.trans (capStep_sendPacket a k now _ _)
        · cases h

theorem tcpClose_none (n : NetSt) (now : Int) (name : String) (h : n.tcp? name = none) :
    n.tcpClose now name = (n, []) := by
  unfold NetSt.tcpClose; rw [h]

theorem capStep_closeHead (a : String) (k : CapKey) (now : Int) (n : NetSt) (s0 : TcpSock) (hs : n.tcp? a = some s0) :
    CapStep a k now n (closeHead n now a s0).1 (closeHead n now a s0).2 := by
  cases hb : s0.chan.bind n.chan? with
  | none => rw [closeHead_detached n now a s0 hb]; exact CapStep.refl a k now n
  | some ch =>
    cases hc : s0.chan with
    | none => rw [hc] at hb; cases hb
    | some cid =>
      rw [hc] at hb
      rw [closeHead_eq n now a s0 cid ch hc hb]
      split
      · have h1 : CapStep a k now n (n.setTcp a { s0 with nextOut := s0.nextOut + 1 }) [] :=
          CapStep.silent (SameCap.setSelf hs rfl rfl) rfl rfl
        exact h1.trans (capStep_sendPacket a k now _ _)
      · exact CapStep.refl a k now n

/-- `close()`: at most one record (the end-of-stream marker, sent through `send_packet`), then
    completions; afterwards the socket holds no channel -/
theorem capStep_close (a : String) (k : CapKey) (now : Int) (n : NetSt) :
    CapStep a k now n (n.tcpClose now a).1 (n.tcpClose now a).2 := by
  cases hs : n.tcp? a with
  | none => rw [tcpClose_none n now a hs]; exact CapStep.refl a k now n
  | some s0 =>
    rw [tcpClose_eq n now a s0 hs]
    have h1 := capStep_closeHead a k now n s0 hs
    obtain ⟨⟨s1, hs1⟩, _⟩ := closeHead_spec n now a s0 hs
    obtain ⟨n2, s', e1, he, hq, hch, _, hcfg, _⟩ := closeTail_eq (closeHead n now a s0).1 a (closeHead n now a s0).2 s1 hs1
    rw [he]
    apply h1.trans
    apply CapStep.detach _ _ hq.1 hq.2.2
    · unfold Detached
      rw [tcp?_setTcp_same]
      simp [hch]
    · show n2.cfg.pcap = _
      rw [hcfg]

/-! ### the effect lists `TS.step` interprets, re-collected

  `TS.step` (SimVerif/StreamSys.lean) passes every effect list of a mechanism function to
  `TS.emit`, which keeps the forwards and the completions and discards everything else — the
  capture records too. The functions below follow `TS.step` case by case and return the same
  effect lists whole: `effsA` those of the writer's functions, `effsB` those of the reader's.
  `TS.step_posts` and `TS.step_bag` show that they are the lists `TS.step` interpreted. -/

def TS.finishE (c : TcpCfg) (s : TS) (op : WriteOp) (r : Except Ec Nat) : List NEff :=
  (s.net.tcpWriteFinish c.a op r).2

def TS.startWriteE (c : TcpCfg) (s : TS) (t : Int) (op : WriteOp) : List NEff :=
  match s.net.tcpWritePrep c.a op.bufs with
  | .error e => s.finishE c op (.error e)
  | .ok (_, []) => s.finishE c op (.ok 0)
  | .ok (hops, seg :: _) => (s.net.tcpSendSeg t c.a hops seg).2

def TS.wakeE (c : TcpCfg) (s : TS) (t : Int) : List NEff :=
  match s.net.tcp? c.a with
  | some sa =>
    match sa.sendH with
    | some op => ({ s with net := s.net.setTcp c.a { sa with sendH := none } }).startWriteE c t op
    | none => []
  | none => []

def TS.runCtlE (c : TcpCfg) (s : TS) (t : Int) : List NEff :=
  match s.ctl with
  | .idle => []
  | .resend (_ + 1) _ _ =>
    match s.net.tcpResendOne t c.a with
    | none => []
    | some r => r.2
  | .resend 0 wb acked =>
    let r := s.net.tcpAckPost c.tp c.a wb acked
    if r.2 then ({ s with net := r.1, ctl := .idle }).wakeE c t else []
  | .segs op hops rest acc =>
    if s.net.tcpWindowFull c.a then s.finishE c op (.ok acc)
    else
      match rest with
      | [] => s.finishE c op (.ok acc)
      | seg :: _ => (s.net.tcpSendSeg t c.a hops seg).2

/-- effects of the writer's functions in one step -/
def TS.effsA (c : TcpCfg) (s : TS) : TLbl → List NEff
  | .write t op =>
    match s.ctl with
    | .idle =>
      let r := s.net.tcpAsyncWrite c.a op
      r.2 ++ (({ s with net := r.1 }).emit r.2).wakeE c t
    | _ => []
  | .run t => s.runCtlE c t
  | .deliver t i tr =>
    match s.bag[i]? with
    | none => []
    | some p0 =>
      match (p0.inTransit tr).ty with
      | .ack => (match s.ctl with | .idle => (s.net.tcpIncoming c.tp t c.a (p0.inTransit tr)).2 | _ => [])
      | _ => []
  | .closeA t =>
    match s.ctl with
    | .idle => (s.net.tcpClose t c.a).2
    | _ => []
  | _ => []

/-- effects of the reader's functions in one step -/
def TS.effsB (c : TcpCfg) (s : TS) : TLbl → List NEff
  | .deliver t i tr =>
    match s.bag[i]? with
    | none => []
    | some p0 =>
      match (p0.inTransit tr).ty with
      | .payload | .err => (s.net.tcpIncoming c.tp t c.b (p0.inTransit tr)).2
      | _ => []
  | .read op => (s.net.tcpAsyncRead c.b op).2
  | .waitRead h => (s.net.tcpWaitRead c.b h).2
  | _ => []

/-- all effects of one step, in emission order (at most one of the two is non-empty) -/
def TS.effs (c : TcpCfg) (s : TS) (l : TLbl) : List NEff := s.effsA c l ++ s.effsB c l

/-- the virtual time of a step (labels of the reader's API carry none: they emit no packet) -/
def TLbl.time : TLbl → Int
  | .write t _ => t
  | .run t => t
  | .deliver t _ _ => t
  | .closeA t => t
  | _ => 0

@[simp] theorem postsOf_nil : postsOf [] = [] := rfl
theorem postsOf_append (a b : List NEff) : postsOf (a ++ b) = postsOf a ++ postsOf b := by
  induction a with
  | nil => rfl
  | cons e r ih => cases e <;> simp [postsOf, ih]

/-- what a sub-step of `TS.step` does with bag and completion log, given its effect list -/
def Emits (s s' : TS) (e : List NEff) : Prop :=
  s'.bag = s.bag ++ s5_fwdsOf e ∧ s'.posts = s.posts ++ postsOf e

theorem Emits.refl (s : TS) : Emits s s [] := ⟨by simp, by simp⟩
theorem Emits.trans {s1 s2 s3 : TS} {e1 e2 : List NEff} (h1 : Emits s1 s2 e1) (h2 : Emits s2 s3 e2) :
    Emits s1 s3 (e1 ++ e2) :=
  ⟨by rw [h2.1, h1.1, s5_fwdsOf_append, List.append_assoc], by rw [h2.2, h1.2, postsOf_append, List.append_assoc]⟩
theorem Emits.of_eq {s s' : TS} (hb : s'.bag = s.bag) (hp : s'.posts = s.posts) : Emits s s' [] :=
  ⟨by simp [hb], by simp [hp]⟩

theorem TS.emits_finish (c : TcpCfg) (s : TS) (op : WriteOp) (r : Except Ec Nat) :
    Emits s (s.finish c op r) (s.finishE c op r) := ⟨rfl, rfl⟩

theorem TS.emits_sendSeg (c : TcpCfg) (s : TS) (t : Int) (hops : List String) (seg : List UInt8) :
    Emits s (s.sendSeg c t hops seg) (s.net.tcpSendSeg t c.a hops seg).2 := ⟨rfl, rfl⟩

theorem TS.emits_startWrite (c : TcpCfg) (s : TS) (t : Int) (op : WriteOp) :
    Emits s (s.startWrite c t op) (s.startWriteE c t op) := by
  unfold TS.startWrite TS.startWriteE
  cases s.net.tcpWritePrep c.a op.bufs with
  | error e => exact TS.emits_finish c s op _
  | ok x =>
    obtain ⟨hops, segs⟩ := x
    cases segs with
    | nil => exact TS.emits_finish c s op _
    | cons seg rest => exact ⟨rfl, rfl⟩

theorem TS.emits_wake (c : TcpCfg) (s : TS) (t : Int) : Emits s (s.wake c t) (s.wakeE c t) := by
  unfold TS.wake TS.wakeE
  cases s.net.tcp? c.a with
  | none => exact Emits.of_eq rfl rfl
  | some sa =>
    dsimp only
    cases sa.sendH with
    | none => exact Emits.of_eq rfl rfl
    | some op => exact TS.emits_startWrite c _ t op

theorem TS.emits_runCtl (c : TcpCfg) (s : TS) (t : Int) : Emits s (s.runCtl c t) (s.runCtlE c t) := by
  unfold TS.runCtl TS.runCtlE
  cases s.ctl with
  | idle => exact Emits.refl s
  | resend n wb acked =>
    cases n with
    | zero =>
      dsimp only
      cases (s.net.tcpAckPost c.tp c.a wb acked).2 with
      | false => exact Emits.of_eq rfl rfl
      | true => exact TS.emits_wake c _ t
    | succ n =>
      dsimp only
      cases s.net.tcpResendOne t c.a with
      | none => exact Emits.of_eq rfl rfl
      | some r => exact ⟨rfl, rfl⟩
  | segs op hops rest acc =>
    dsimp only
    cases s.net.tcpWindowFull c.a with
    | true => exact TS.emits_finish c s _ _
    | false =>
      cases rest with
      | nil => exact TS.emits_finish c s _ _
      | cons seg rest' => exact ⟨rfl, rfl⟩

theorem TS.note_emits (s : TS) (ev : Option RdEv) : (s.note ev).bag = s.bag ∧ (s.note ev).posts = s.posts := by
  cases ev with
  | none => exact ⟨rfl, rfl⟩
  | some x => cases x with
    | data d => exact ⟨rfl, rfl⟩
    | err e => cases e <;> exact ⟨rfl, rfl⟩

/-- **`effs` is what `TS.step` interpreted**: the bag after the step is the bag before, minus
    the element delivered / dropped if any, plus exactly the packets forwarded in `effs`, in
    order; the completion log grows by exactly the completions of `effs` -/
theorem TS.step_emits (c : TcpCfg) (s : TS) (l : TLbl) :
    ∃ b0, (b0 = s.bag ∨ ∃ i, b0 = s.bag.eraseIdx i)
      ∧ (s.step c l).bag = b0 ++ s5_fwdsOf (s.effs c l)
      ∧ (s.step c l).posts = s.posts ++ postsOf (s.effs c l) := by
  rcases s with ⟨net, bag, ctl, segs, written, accepted, delivered, eofAt, closed, mss0, posts⟩
  cases l with
  | write t op =>
    refine ⟨bag, Or.inl rfl, ?_⟩
    cases ctl with
    | idle =>
      have h1 : Emits ⟨net, bag, .idle, segs, written, accepted, delivered, eofAt, closed, mss0, posts⟩
          ((⟨(net.tcpAsyncWrite c.a op).1, bag, .idle, segs, written, accepted, delivered, eofAt, closed, mss0, posts⟩ : TS).emit
            (net.tcpAsyncWrite c.a op).2) (net.tcpAsyncWrite c.a op).2 := ⟨rfl, rfl⟩
      have h := h1.trans (TS.emits_wake c _ t)
      simp only [TS.effs, TS.effsB, List.append_nil]
      exact h
    | resend n wb acked => simp [TS.step, TS.effs, TS.effsA, TS.effsB]
    | segs op' hops rest acc => simp [TS.step, TS.effs, TS.effsA, TS.effsB]
  | run t =>
    refine ⟨bag, Or.inl rfl, ?_⟩
    simp only [TS.effs, TS.effsB, List.append_nil]
    exact TS.emits_runCtl c _ t
  | deliver t i tr =>
    cases hb : bag[i]? with
    | none => exact ⟨bag, Or.inl rfl, by simp [TS.step, TS.effs, TS.effsA, TS.effsB, hb]⟩
    | some p0 =>
      cases hty : (p0.inTransit tr).ty with
      | ack =>
        cases ctl with
        | idle =>
          refine ⟨bag.eraseIdx i, Or.inr ⟨i, rfl⟩, ?_⟩
          simp only [TS.step, TS.effs, TS.effsA, TS.effsB, hb, hty, List.append_nil, TS.emit]
          exact ⟨trivial, trivial⟩
        | resend n wb acked => exact ⟨bag, Or.inl rfl, by simp [TS.step, TS.effs, TS.effsA, TS.effsB, hb, hty]⟩
        | segs op' hops rest acc => exact ⟨bag, Or.inl rfl, by simp [TS.step, TS.effs, TS.effsA, TS.effsB, hb, hty]⟩
      | payload =>
        refine ⟨bag.eraseIdx i, Or.inr ⟨i, rfl⟩, ?_⟩
        simp only [TS.step, TS.effs, TS.effsA, TS.effsB, hb, hty, List.nil_append]
        rw [(TS.note_emits _ _).1, (TS.note_emits _ _).2]
        exact ⟨rfl, rfl⟩
      | err =>
        refine ⟨bag.eraseIdx i, Or.inr ⟨i, rfl⟩, ?_⟩
        simp only [TS.step, TS.effs, TS.effsA, TS.effsB, hb, hty, List.nil_append]
        rw [(TS.note_emits _ _).1, (TS.note_emits _ _).2]
        exact ⟨rfl, rfl⟩
      | uninit => exact ⟨bag.eraseIdx i, Or.inr ⟨i, rfl⟩, by simp [TS.step, TS.effs, TS.effsA, TS.effsB, hb, hty]⟩
      | syn => exact ⟨bag.eraseIdx i, Or.inr ⟨i, rfl⟩, by simp [TS.step, TS.effs, TS.effsA, TS.effsB, hb, hty]⟩
      | synack => exact ⟨bag.eraseIdx i, Or.inr ⟨i, rfl⟩, by simp [TS.step, TS.effs, TS.effsA, TS.effsB, hb, hty]⟩
  | drop i tr =>
    cases hb : bag[i]? with
    | none => exact ⟨bag, Or.inl rfl, by simp [TS.step, TS.effs, TS.effsA, TS.effsB, hb]⟩
    | some p0 =>
      cases hd : (p0.inTransit tr).hasDrop with
      | false => exact ⟨bag, Or.inl rfl, by simp [TS.step, TS.effs, TS.effsA, TS.effsB, hb, hd]⟩
      | true => exact ⟨bag.eraseIdx i, Or.inr ⟨i, rfl⟩, by simp [TS.step, TS.effs, TS.effsA, TS.effsB, hb, hd]⟩
  | read op =>
    refine ⟨bag, Or.inl rfl, ?_⟩
    simp only [TS.step, TS.effs, TS.effsA, TS.effsB, List.nil_append]
    rw [(TS.note_emits _ _).1, (TS.note_emits _ _).2]
    exact ⟨rfl, rfl⟩
  | readNb caps =>
    refine ⟨bag, Or.inl rfl, ?_⟩
    simp only [TS.step, TS.effs, TS.effsA, TS.effsB, List.append_nil, fwdsOf_nil, postsOf_nil]
    rw [(TS.note_emits _ _).1, (TS.note_emits _ _).2]
    exact ⟨rfl, rfl⟩
  | waitRead h =>
    refine ⟨bag, Or.inl rfl, ?_⟩
    simp only [TS.step, TS.effs, TS.effsA, TS.effsB, List.nil_append]
    rw [(TS.note_emits _ _).1, (TS.note_emits _ _).2]
    exact ⟨rfl, rfl⟩
  | closeA t =>
    refine ⟨bag, Or.inl rfl, ?_⟩
    cases ctl with
    | idle =>
      simp only [TS.effs, TS.effsB, List.append_nil]
      exact ⟨rfl, rfl⟩
    | resend n wb acked => simp [TS.step, TS.effs, TS.effsA, TS.effsB]
    | segs op' hops rest acc => simp [TS.step, TS.effs, TS.effsA, TS.effsB]

/-! ### every step of `TS` keeps the capture invariant -/

theorem TS.cap_finish (c : TcpCfg) (k : CapKey) (t : Int) (s : TS) (op : WriteOp) (r : Except Ec Nat) :
    CapStep c.a k t s.net (s.finish c op r).net (s.finishE c op r) :=
  CapStep.silent (sameCap_tcpWriteFinish s.net c.a op r) (quiet_tcpWriteFinish s.net c.a op r).1
    (quiet_tcpWriteFinish s.net c.a op r).2.2

theorem TS.cap_startWrite (c : TcpCfg) (k : CapKey) (t : Int) (s : TS) (op : WriteOp) :
    CapStep c.a k t s.net (s.startWrite c t op).net (s.startWriteE c t op) := by
  unfold TS.startWrite TS.startWriteE
  cases s.net.tcpWritePrep c.a op.bufs with
  | error e => exact TS.cap_finish c k t s op _
  | ok x =>
    obtain ⟨hops, segs⟩ := x
    cases segs with
    | nil => exact TS.cap_finish c k t s op _
    | cons seg rest => exact capStep_sendSeg c.a k t s.net hops seg

theorem TS.cap_wake (c : TcpCfg) (k : CapKey) (t : Int) (s : TS) :
    CapStep c.a k t s.net (s.wake c t).net (s.wakeE c t) := by
  unfold TS.wake TS.wakeE
  cases hs : s.net.tcp? c.a with
  | none => exact CapStep.refl c.a k t s.net
  | some sa =>
    dsimp only
    cases sa.sendH with
    | none => exact CapStep.refl c.a k t s.net
    | some op =>
      have h1 : CapStep c.a k t s.net (s.net.setTcp c.a { sa with sendH := none }) [] :=
        CapStep.silent (SameCap.setSelf hs rfl rfl) rfl rfl
      exact h1.trans_nil (TS.cap_startWrite c k t { s with net := s.net.setTcp c.a { sa with sendH := none } } op)

theorem TS.cap_runCtl (c : TcpCfg) (k : CapKey) (t : Int) (s : TS) :
    CapStep c.a k t s.net (s.runCtl c t).net (s.runCtlE c t) := by
  unfold TS.runCtl TS.runCtlE
  cases s.ctl with
  | idle => exact CapStep.refl c.a k t s.net
  | resend n wb acked =>
    cases n with
    | zero =>
      dsimp only
      have h1 : CapStep c.a k t s.net (s.net.tcpAckPost c.tp c.a wb acked).1 [] :=
        CapStep.silent (sameCap_tcpAckPost c.tp s.net c.a wb acked) rfl rfl
      cases (s.net.tcpAckPost c.tp c.a wb acked).2 with
      | false => exact h1
      | true => exact h1.trans_nil (TS.cap_wake c k t { s with net := (s.net.tcpAckPost c.tp c.a wb acked).1, ctl := .idle })
    | succ n =>
      dsimp only
      cases hr : s.net.tcpResendOne t c.a with
      | none => exact CapStep.refl c.a k t s.net
      | some r => exact capStep_resendOne c.a k t s.net r hr
  | segs op hops rest acc =>
    dsimp only
    cases s.net.tcpWindowFull c.a with
    | true => exact TS.cap_finish c k t s _ _
    | false =>
      cases rest with
      | nil => exact TS.cap_finish c k t s _ _
      | cons seg rest' => exact capStep_sendSeg c.a k t s.net hops seg

theorem TS.note_net (s : TS) (ev : Option RdEv) : (s.note ev).net = s.net := (TS.note_rest s ev).1

/-- the reader's functions never emit a capture record -/
theorem TS.noCap_effsB (c : TcpCfg) (s : TS) (l : TLbl) : NoCap (s.effsB c l) := by
  cases l with
  | deliver t i tr =>
    simp only [TS.effsB]
    split
    · exact NoCap.nil
    · split
      · exact noCap_tcpIncoming _ _ _ _ _
      · exact noCap_tcpIncoming _ _ _ _ _
      · exact NoCap.nil
  | read op => exact noCap_tcpAsyncRead _ _ _
  | waitRead h => exact noCap_tcpWaitRead _ _ _
  | write t op => exact NoCap.nil
  | run t => exact NoCap.nil
  | drop i tr => exact NoCap.nil
  | readNb caps => exact NoCap.nil
  | closeA t => exact NoCap.nil

/-- **one step of `TS`**: appending the packets the writer's functions forwarded to the wire log
    and the capture records they emitted to the capture log keeps the invariant -/
theorem TS.step_capStep (c : TcpCfg) (hne : c.a ≠ c.b) (k : CapKey) (s : TS) (l : TLbl) :
    CapStep c.a k l.time s.net (s.step c l).net (s.effsA c l) := by
  rcases s with ⟨net, bag, ctl, segs, written, accepted, delivered, eofAt, closed, mss0, posts⟩
  cases l with
  | write t op =>
    cases ctl with
    | idle =>
      have h1 : CapStep c.a k t net (net.tcpAsyncWrite c.a op).1 (net.tcpAsyncWrite c.a op).2 :=
        CapStep.silent (sameCap_tcpAsyncWrite net c.a op) (noCap_tcpAsyncWrite net c.a op).1.1
          (noCap_tcpAsyncWrite net c.a op).2
      exact h1.trans (TS.cap_wake c k t ((⟨(net.tcpAsyncWrite c.a op).1, bag, .idle, segs, written, accepted, delivered, eofAt, closed, mss0, posts⟩ : TS).emit (net.tcpAsyncWrite c.a op).2))
    | resend n wb acked => exact CapStep.refl c.a k t net
    | segs op' hops rest acc => exact CapStep.refl c.a k t net
  | run t => exact TS.cap_runCtl c k t _
  | deliver t i tr =>
    cases hb : bag[i]? with
    | none => simp only [TS.step, TS.effsA, hb]; exact CapStep.refl c.a k _ net
    | some p0 =>
      cases hty : (p0.inTransit tr).ty with
      | ack =>
        cases ctl with
        | idle =>
          simp only [TS.step, TS.effsA, hb, hty, TS.emit]
          exact CapStep.silent (sameCap_tcpIncoming_ack c.tp net t c.a _ hty)
            (noCap_tcpIncoming_ack c.tp net t c.a _ hty).1.1 (noCap_tcpIncoming_ack c.tp net t c.a _ hty).2
        | resend n wb acked => simp only [TS.step, TS.effsA, hb, hty]; exact CapStep.refl c.a k _ net
        | segs op' hops rest acc => simp only [TS.step, TS.effsA, hb, hty]; exact CapStep.refl c.a k _ net
      | payload =>
        simp only [TS.step, TS.effsA, hb, hty, TS.note_net, TS.emit]
        exact CapStep.silent ((onlySock_tcpIncoming c.tp net t c.b _).sameCap hne) rfl rfl
      | err =>
        simp only [TS.step, TS.effsA, hb, hty, TS.note_net, TS.emit]
        exact CapStep.silent ((onlySock_tcpIncoming c.tp net t c.b _).sameCap hne) rfl rfl
      | uninit => simp only [TS.step, TS.effsA, hb, hty]; exact CapStep.refl c.a k _ net
      | syn => simp only [TS.step, TS.effsA, hb, hty]; exact CapStep.refl c.a k _ net
      | synack => simp only [TS.step, TS.effsA, hb, hty]; exact CapStep.refl c.a k _ net
  | drop i tr =>
    cases hb : bag[i]? with
    | none => simp only [TS.step, TS.effsA, hb]; exact CapStep.refl c.a k _ net
    | some p0 =>
      cases hd : (p0.inTransit tr).hasDrop with
      | false => simp [TS.step, TS.effsA, hb, hd]; exact CapStep.refl c.a k _ net
      | true =>
        simp only [TS.step, TS.effsA, hb, hd, if_true]
        exact CapStep.silent (sameCap_tcpPacketDropped c.tp net c.a _) rfl rfl
  | read op =>
    simp only [TS.step, TS.effsA, TS.note_net, TS.emit]
    exact CapStep.silent ((onlySock_tcpAsyncRead net c.b op).sameCap hne) rfl rfl
  | readNb caps =>
    simp only [TS.step, TS.effsA, TS.note_net]
    exact CapStep.silent ((onlySock_tcpReadNb net c.b caps).sameCap hne) rfl rfl
  | waitRead h =>
    simp only [TS.step, TS.effsA, TS.note_net, TS.emit]
    exact CapStep.silent ((onlySock_tcpWaitRead net c.b h).sameCap hne) rfl rfl
  | closeA t =>
    cases ctl with
    | idle => exact capStep_close c.a k t net
    | resend n wb acked => exact CapStep.refl c.a k t net
    | segs op' hops rest acc => exact CapStep.refl c.a k t net

/-! ### `TS` with the two ghost logs -/

/-- `TS` (unchanged) plus: `log` = the capture records emitted so far, in emission order
    (the `pcapTcp` effects of ALL effect lists of every step); `wire` = every packet a function
    of the writer forwarded (= put into the bag), in order, with the time of the step -/
structure CS where
  ts : TS
  log : List CapT := []
  wire : List (Int × Pkt) := []
  deriving Repr

def CS.step (c : TcpCfg) (s : CS) (l : TLbl) : CS :=
  { ts := s.ts.step c l,
    log := s.log ++ capsTcp (s.ts.effs c l),
    wire := s.wire ++ (s5_fwdsOf (s.ts.effsA c l)).map (fun p => (l.time, p)) }

def CS.run (c : TcpCfg) (s : CS) (ls : List TLbl) : CS := ls.foldl (CS.step c) s

def CS.init (c : TcpCfg) (n : NetSt) : CS := { ts := TS.init c n }

/-- the wrapper does not change the system: its `TS` component is `TS.run` -/
theorem CS.run_ts (c : TcpCfg) (s : CS) (ls : List TLbl) : (CS.run c s ls).ts = TS.run c s.ts ls := by
  induction ls generalizing s with
  | nil => rfl
  | cons l rest ih => exact ih (s.step c l)

theorem CS.init_run_ts (c : TcpCfg) (n : NetSt) (ls : List TLbl) :
    (CS.run c (CS.init c n) ls).ts = TS.run c (TS.init c n) ls := CS.run_ts c _ ls

theorem CS.run_append (c : TcpCfg) (s : CS) (l1 l2 : List TLbl) :
    CS.run c s (l1 ++ l2) = CS.run c (CS.run c s l1) l2 := by
  unfold CS.run; rw [List.foldl_append]

theorem CS.capOk_step (c : TcpCfg) (hne : c.a ≠ c.b) (k : CapKey) (s : CS) (l : TLbl)
    (h : CapOk c.a k s.ts.net s.wire s.log) : CapOk c.a k (s.step c l).ts.net (s.step c l).wire (s.step c l).log := by
  have h1 := TS.step_capStep c hne k s.ts l _ _ h
  have h2 := (TS.noCap_effsB c s.ts l).1
  show CapOk c.a k (s.ts.step c l).net _ (s.log ++ capsTcp (s.ts.effsA c l ++ s.ts.effsB c l))
  rw [capsTcp_append, h2, List.append_nil]
  exact h1

theorem CS.capOk_run (c : TcpCfg) (hne : c.a ≠ c.b) (k : CapKey) (ls : List TLbl) :
    ∀ (s : CS), CapOk c.a k s.ts.net s.wire s.log →
      CapOk c.a k (CS.run c s ls).ts.net (CS.run c s ls).wire (CS.run c s ls).log := by
  induction ls with
  | nil => intro s h; exact h
  | cons l rest ih => intro s h; exact ih _ (CS.capOk_step c hne k s l h)

/-! ### sequence numbers of the capture log -/

def capPaySum (l : List CapT) : Nat := (l.map (fun r => r.payload.length)).sum

/-- the records' sequence numbers follow the `uint32` counter discipline starting at `q` -/
def CapSeq (q : Nat) : List CapT → Prop
  | [] => True
  | r :: rest => r.seq = q ∧ CapSeq ((q + r.payload.length) % 4294967296) rest

theorem capSeq_of_wireSeq (k : CapKey) (q : Nat) (w : List (Int × Pkt)) (h : WireSeq q w) :
    CapSeq q (w.map (recOf k)) := by
  induction w generalizing q with
  | nil => trivial
  | cons e r ih => exact ⟨h.1, ih _ h.2⟩

theorem capSeq_take (q : Nat) (l : List CapT) (i : Nat) (h : CapSeq q l) : CapSeq q (l.take i) := by
  induction l generalizing q i with
  | nil => simp; trivial
  | cons r rest ih =>
    cases i with
    | zero => trivial
    | succ j => exact ⟨h.1, ih _ j h.2⟩

/-- record `i`'s sequence number is the start value plus the payload bytes of records `0..i-1`,
    modulo 2^32 (every transmission counts, retransmissions too) -/
theorem capSeq_getElem (q : Nat) (hq : q < 4294967296) (l : List CapT) (h : CapSeq q l) (i : Nat) (hi : i < l.length) :
    l[i].seq = (q + capPaySum (l.take i)) % 4294967296 := by
  induction l generalizing q i with
  | nil => simp at hi
  | cons r rest ih =>
    cases i with
    | zero => simp [capPaySum, h.1]; omega
    | succ j =>
      simp only [List.getElem_cons_succ, List.take_succ_cons]
      rw [ih ((q + r.payload.length) % 4294967296) (by omega) h.2 j (by simpa using hi)]
      simp only [capPaySum, List.map_cons, List.sum_cons]
      omega

/-! ### the capture file of a log, and the sends it stands for -/

/-- the bytes the world driver appends for one record (`Drv/Kernel.lean`: `Pcap.recordTcp` with
    the dotted-quad addresses turned into numbers by `ip`) -/
def CapT.bytes (ip : String → Nat) (r : CapT) : List UInt8 :=
  Pcap.recordTcp r.t.toNat (ip r.src.addr) (ip r.dst.addr) r.src.port r.dst.port r.seq r.payload

/-- the capture file: header, then the records in emission order -/
def capFile (ip : String → Nat) (log : List CapT) : List UInt8 :=
  Pcap.fileHeader ++ (log.map (CapT.bytes ip)).flatten

/-- a record as a `Send` of the capture specification (Props/C19.lean), direction `(conn, dir)` -/
def CapT.toSend (ip : String → Nat) (conn dir : Nat) (r : CapT) : Pcap.Send :=
  { kind := .tcp, t := r.t.toNat, srcIp := ip r.src.addr, dstIp := ip r.dst.addr,
    srcPort := r.src.port, dstPort := r.dst.port, conn := conn, dir := dir, payload := r.payload }

theorem captureBody_of_capSeq (ip : String → Nat) (conn dir : Nat) (log : List CapT) :
    ∀ (q : Nat) (c : Pcap.Ctrs), c (conn, dir) = q → CapSeq q log →
      (log.map (CapT.bytes ip)).flatten = Pcap.captureBody c (log.map (CapT.toSend ip conn dir)) := by
  induction log with
  | nil => intro q c _ _; rfl
  | cons r rest ih =>
    intro q c hc h
    simp only [List.map_cons, List.flatten_cons, Pcap.captureBody]
    have hk : (CapT.toSend ip conn dir r).key = (conn, dir) := rfl
    have he : Pcap.emit c (CapT.toSend ip conn dir r) =
        (CapT.bytes ip r, c.set (conn, dir) ((q + r.payload.length) % 4294967296)) := by
      simp only [Pcap.emit, CapT.toSend, Pcap.Send.key, Pcap.nextSeq, CapT.bytes, hc, h.1]
    rw [he]
    dsimp only
    have hset : (c.set (conn, dir) ((q + r.payload.length) % 4294967296)) (conn, dir) = (q + r.payload.length) % 4294967296 := by
      show (if (conn, dir) = (conn, dir) then _ else c (conn, dir)) = _
      rw [if_pos rfl]
    rw [ih ((q + r.payload.length) % 4294967296) _ hset h.2]

theorem capFile_eq_capture (ip : String → Nat) (conn dir : Nat) (log : List CapT) (q : Nat) (h : CapSeq q log) :
    capFile ip log = Pcap.capture (fun _ => q) (log.map (CapT.toSend ip conn dir)) := by
  unfold capFile Pcap.capture
  rw [captureBody_of_capSeq ip conn dir log q (fun _ => q) rfl h]

/-! ### the packets on the wire are genuine -/

theorem TS.fwdTy_startWriteE (c : TcpCfg) (s : TS) (t : Int) (op : WriteOp) :
    ∀ p ∈ s5_fwdsOf (s.startWriteE c t op), p.ty = .payload := by
  unfold TS.startWriteE TS.finishE
  cases s.net.tcpWritePrep c.a op.bufs with
  | error e => intro p hp; rw [(tcpWriteFinish_spec _ _ _ _).2] at hp; cases hp
  | ok x =>
    obtain ⟨hops, segs⟩ := x
    cases segs with
    | nil => intro p hp; rw [(tcpWriteFinish_spec _ _ _ _).2] at hp; cases hp
    | cons seg rest =>
      intro p hp
      dsimp only at hp
      cases hs : s.net.tcp? c.a with
      | none => rw [tcpSendSeg_none _ _ _ _ _ hs] at hp; cases hp
      | some sa => exact ((tcpSendSeg_spec _ _ _ _ _ sa hs).2 p hp).2.1

theorem TS.fwdTy_wakeE (c : TcpCfg) (s : TS) (t : Int) : ∀ p ∈ s5_fwdsOf (s.wakeE c t), p.ty = .payload := by
  unfold TS.wakeE
  cases s.net.tcp? c.a with
  | none => intro p hp; cases hp
  | some sa =>
    dsimp only
    cases sa.sendH with
    | none => intro p hp; cases hp
    | some op => exact TS.fwdTy_startWriteE c _ t op

theorem TS.fwdTy_runCtlE (c : TcpCfg) (s : TS) (t : Int)
    (hres : ∀ sa, s.net.tcp? c.a = some sa → ∀ p ∈ sa.resend, p.ty = .payload) :
    ∀ p ∈ s5_fwdsOf (s.runCtlE c t), p.ty = .payload := by
  unfold TS.runCtlE TS.finishE
  cases s.ctl with
  | idle => intro p hp; cases hp
  | resend n wb acked =>
    cases n with
    | zero =>
      dsimp only
      cases (s.net.tcpAckPost c.tp c.a wb acked).2 with
      | false => intro p hp; cases hp
      | true => exact TS.fwdTy_wakeE c _ t
    | succ n =>
      dsimp only
      cases hr : s.net.tcpResendOne t c.a with
      | none => intro p hp; cases hp
      | some r =>
        intro p hp
        obtain ⟨sa, p0, rest, hsa, hres0, _, hfw⟩ := tcpResendOne_spec _ _ _ _ hr
        rw [(hfw p hp).2.1]
        exact hres sa hsa p0 (by rw [hres0]; simp)
  | segs op hops rest acc =>
    dsimp only
    cases s.net.tcpWindowFull c.a with
    | true => intro p hp; simp only [↓reduceIte] at hp; rw [(tcpWriteFinish_spec _ _ _ _).2] at hp; cases hp
    | false =>
      cases rest with
      | nil => intro p hp; simp only [Bool.false_eq_true, ↓reduceIte] at hp; rw [(tcpWriteFinish_spec _ _ _ _).2] at hp; cases hp
      | cons seg rest' =>
        intro p hp
        simp only [Bool.false_eq_true, ↓reduceIte] at hp
        cases hs : s.net.tcp? c.a with
        | none => rw [tcpSendSeg_none _ _ _ _ _ hs] at hp; cases hp
        | some sa => exact ((tcpSendSeg_spec _ _ _ _ _ sa hs).2 p hp).2.1

/-- what the writer's functions forward is a segment or the end-of-stream marker, never an ACK -/
theorem TS.fwdTy_effsA (c : TcpCfg) (s : TS) (l : TLbl)
    (hres : ∀ sa, s.net.tcp? c.a = some sa → ∀ p ∈ sa.resend, p.ty = .payload) :
    ∀ p ∈ s5_fwdsOf (s.effsA c l), p.ty = .payload ∨ p.ty = .err := by
  rcases s with ⟨net, bag, ctl, segs, written, accepted, delivered, eofAt, closed, mss0, posts⟩
  cases l with
  | write t op =>
    cases ctl with
    | idle =>
      intro p hp
      simp only [TS.effsA, s5_fwdsOf_append, (noCap_tcpAsyncWrite net c.a op).2, List.nil_append] at hp
      exact Or.inl (TS.fwdTy_wakeE c _ t p hp)
    | resend n wb acked => intro p hp; cases hp
    | segs op' hops rest acc => intro p hp; cases hp
  | run t => intro p hp; exact Or.inl (TS.fwdTy_runCtlE c _ t hres p hp)
  | deliver t i tr =>
    cases hb : bag[i]? with
    | none => intro p hp; simp [TS.effsA, hb] at hp
    | some p0 =>
      cases hty : (p0.inTransit tr).ty with
      | ack =>
        cases ctl with
        | idle =>
          intro p hp
          simp only [TS.effsA, hb, hty, (noCap_tcpIncoming_ack c.tp net t c.a _ hty).2] at hp
          cases hp
        | resend n wb acked => intro p hp; simp [TS.effsA, hb, hty] at hp
        | segs op' hops rest acc => intro p hp; simp [TS.effsA, hb, hty] at hp
      | payload => intro p hp; simp [TS.effsA, hb, hty] at hp
      | err => intro p hp; simp [TS.effsA, hb, hty] at hp
      | uninit => intro p hp; simp [TS.effsA, hb, hty] at hp
      | syn => intro p hp; simp [TS.effsA, hb, hty] at hp
      | synack => intro p hp; simp [TS.effsA, hb, hty] at hp
  | drop i tr => intro p hp; cases hp
  | read op => intro p hp; cases hp
  | readNb caps => intro p hp; cases hp
  | waitRead h => intro p hp; cases hp
  | closeA t =>
    cases ctl with
    | idle =>
      intro p hp
      cases hs : net.tcp? c.a with
      | none =>
        have : (net.tcpClose t c.a).2 = [] := by rw [tcpClose_none net t c.a hs]
        simp only [TS.effsA, this] at hp; cases hp
      | some sa => exact Or.inr ((tcpClose_spec net t c.a sa hs).2.2.1 p hp).1
    | resend n wb acked => intro p hp; cases hp
    | segs op' hops rest acc => intro p hp; cases hp

/-- the segment log only grows -/
theorem TS.step_segs (c : TcpCfg) (s : TS) (l : TLbl) : ∃ x, (s.step c l).segs = s.segs ++ x := by
  have hfin : ∀ (s : TS) op r, (s.finish c op r).segs = s.segs := fun _ _ _ => rfl
  have hsw : ∀ (s : TS) t op, ∃ x, (s.startWrite c t op).segs = s.segs ++ x := by
    intro s t op
    unfold TS.startWrite
    cases s.net.tcpWritePrep c.a op.bufs with
    | error e => exact ⟨[], by simp [hfin]⟩
    | ok x =>
      obtain ⟨hops, segs⟩ := x
      cases segs with
      | nil => exact ⟨[], by simp [hfin]⟩
      | cons seg rest => exact ⟨[seg], rfl⟩
  have hwk : ∀ (s : TS) t, ∃ x, (s.wake c t).segs = s.segs ++ x := by
    intro s t
    unfold TS.wake
    cases s.net.tcp? c.a with
    | none => exact ⟨[], by simp⟩
    | some sa =>
      dsimp only
      cases sa.sendH with
      | none => exact ⟨[], by simp⟩
      | some op => exact hsw _ t op
  rcases s with ⟨net, bag, ctl, segs, written, accepted, delivered, eofAt, closed, mss0, posts⟩
  cases l with
  | write t op =>
    cases ctl with
    | idle => exact hwk _ t
    | resend n wb acked => exact ⟨[], by simp [TS.step]⟩
    | segs op' hops rest acc => exact ⟨[], by simp [TS.step]⟩
  | run t =>
    show ∃ x, (TS.runCtl c _ t).segs = segs ++ x
    unfold TS.runCtl
    cases ctl with
    | idle => exact ⟨[], by simp⟩
    | resend n wb acked =>
      cases n with
      | zero =>
        dsimp only
        cases (net.tcpAckPost c.tp c.a wb acked).2 with
        | false => exact ⟨[], by simp⟩
        | true => exact hwk _ t
      | succ n =>
        dsimp only
        cases net.tcpResendOne t c.a with
        | none => exact ⟨[], by simp⟩
        | some r => exact ⟨[], by simp [TS.emit]⟩
    | segs op hops rest acc =>
      dsimp only
      cases net.tcpWindowFull c.a with
      | true => exact ⟨[], by simp [hfin]⟩
      | false =>
        cases rest with
        | nil => exact ⟨[], by simp [hfin]⟩
        | cons seg rest' => exact ⟨[seg], rfl⟩
  | deliver t i tr =>
    refine ⟨[], ?_⟩
    simp only [TS.step, List.append_nil]
    split
    · rfl
    · split
      · split <;> rfl
      · exact (TS.note_rest _ _).2.2.1
      · exact (TS.note_rest _ _).2.2.1
      · rfl
  | drop i tr =>
    refine ⟨[], ?_⟩
    simp only [TS.step, List.append_nil]
    split
    · rfl
    · split <;> rfl
  | read op => exact ⟨[], by simp only [TS.step, List.append_nil]; exact (TS.note_rest _ _).2.2.1⟩
  | readNb caps => exact ⟨[], by simp only [TS.step, List.append_nil]; exact (TS.note_rest _ _).2.2.1⟩
  | waitRead h => exact ⟨[], by simp only [TS.step, List.append_nil]; exact (TS.note_rest _ _).2.2.1⟩
  | closeA t =>
    cases ctl with
    | idle => exact ⟨[], by simp [TS.step, TS.emit]⟩
    | resend n wb acked => exact ⟨[], by simp [TS.step]⟩
    | segs op' hops rest acc => exact ⟨[], by simp [TS.step]⟩

/-- every packet on the wire log is a segment carrying exactly the bytes the ghost `segs` holds
    for its sequence number, or the (empty) end-of-stream marker -/
def WireGenuine (segs : List (List UInt8)) (w : List (Int × Pkt)) : Prop :=
  ∀ e ∈ w, (e.2.ty = .payload ∧ segs[e.2.id]? = some e.2.payload) ∨ (e.2.ty = .err ∧ e.2.payload = [])

theorem CS.genuine_step (c : TcpCfg) (s : CS) (l : TLbl) (hI : TInv c s.ts)
    (h : WireGenuine s.ts.segs s.wire) : WireGenuine (s.step c l).ts.segs (s.step c l).wire := by
  have hI' : TInv c (s.ts.step c l) := hI.step l
  obtain ⟨x, hx⟩ := TS.step_segs c s.ts l
  intro e he
  show (_ ∧ (s.ts.step c l).segs[e.2.id]? = _) ∨ _
  change e ∈ s.wire ++ _ at he
  rw [List.mem_append] at he
  rcases he with he | he
  · rcases h e he with ⟨h1, h2⟩ | h2
    · left
      refine ⟨h1, ?_⟩
      rw [hx, List.getElem?_append_left (List.getElem?_eq_some_iff.mp h2).1]; exact h2
    · exact Or.inr h2
  · rw [List.mem_map] at he
    obtain ⟨p, hp, rfl⟩ := he
    have hres : ∀ sa, s.ts.net.tcp? c.a = some sa → ∀ p ∈ sa.resend, p.ty = .payload := by
      intro sa hsa q hq
      obtain ⟨sa', hsa', hao⟩ := hI.core.exA
      rw [hsa] at hsa'; cases hsa'
      exact (hao.resend q hq).1
    have hty := TS.fwdTy_effsA c s.ts l hres p hp
    obtain ⟨b0, _, hb, _⟩ := TS.step_emits c s.ts l
    have hmem : p ∈ (s.ts.step c l).bag := by
      rw [hb, TS.effs, s5_fwdsOf_append]
      exact List.mem_append_right _ (List.mem_append_left _ hp)
    rcases hI'.core.bag p hmem with (⟨h1, h2⟩ | ⟨h1, _, _, h4, _⟩) | ⟨h1, _⟩
    · exact Or.inl ⟨h1, h2⟩
    · exact Or.inr ⟨h1, h4⟩
    · rcases hty with h | h <;> rw [h1] at h <;> cases h

theorem CS.genuine_run (c : TcpCfg) (ls : List TLbl) :
    ∀ (s : CS), TInv c s.ts → WireGenuine s.ts.segs s.wire →
      WireGenuine (CS.run c s ls).ts.segs (CS.run c s ls).wire := by
  induction ls with
  | nil => intro s _ h; exact h
  | cons l rest ih => intro s hI h; exact ih _ (hI.step l) (CS.genuine_step c s l hI h)

theorem capOk_init (c : TcpCfg) (n : NetSt) (k : CapKey)
    (hk : ConnAt n c.a k.cid k.idx k.src k.dst k.init) (hp : n.cfg.pcap = k.pcap) :
    CapOk c.a k (CS.init c n).ts.net (CS.init c n).wire (CS.init c n).log :=
  ⟨hp, by show ([] : List CapT) = _; cases k.pcap <;> rfl, trivial, Or.inr hk⟩


/-- the segment size recorded at the start never changes -/
theorem TS.run_mss0 (c : TcpCfg) : ∀ (ls : List TLbl) (s : TS), (TS.run c s ls).mss0 = s.mss0 := by
  intro ls
  induction ls with
  | nil => intro s; rfl
  | cons l rest ih =>
    intro s
    show (TS.run c (s.step c l) rest).mss0 = _
    rw [ih]
    have hfin : ∀ (s : TS) op r, (s.finish c op r).mss0 = s.mss0 := fun _ _ _ => rfl
    have hsw : ∀ (s : TS) t op, (s.startWrite c t op).mss0 = s.mss0 := by
      intro s t op; unfold TS.startWrite
      cases s.net.tcpWritePrep c.a op.bufs with
      | error e => rfl
      | ok x => obtain ⟨hops, segs⟩ := x; cases segs <;> rfl
    have hwk : ∀ (s : TS) t, (s.wake c t).mss0 = s.mss0 := by
      intro s t; unfold TS.wake
      cases s.net.tcp? c.a with
      | none => rfl
      | some sa => dsimp only; cases sa.sendH with
        | none => rfl
        | some op => exact hsw _ t op
    rcases s with ⟨net, bag, ctl, segs, written, accepted, delivered, eofAt, closed, mss0, posts⟩
    cases l with
    | write t op => cases ctl with
      | idle => exact hwk _ t
      | resend a b d => rfl
      | segs a b d e => rfl
    | run t =>
      show (TS.runCtl c _ t).mss0 = mss0
      unfold TS.runCtl
      cases ctl with
      | idle => rfl
      | resend a b d => cases a with
        | zero => dsimp only; cases (net.tcpAckPost c.tp c.a b d).2 with
          | false => rfl
          | true => exact hwk _ t
        | succ a => dsimp only; cases net.tcpResendOne t c.a <;> rfl
      | segs a b d e => dsimp only; cases net.tcpWindowFull c.a with
        | true => rfl
        | false => cases d <;> rfl
    | deliver t i tr =>
      simp only [TS.step]
      split
      · rfl
      · split
        · split <;> rfl
        · exact (TS.note_rest _ _).2.2.2.2.2.1
        · exact (TS.note_rest _ _).2.2.2.2.2.1
        · rfl
    | drop i tr => simp only [TS.step]; split; rfl; split <;> rfl
    | read op => simp only [TS.step]; exact (TS.note_rest _ _).2.2.2.2.2.1
    | readNb caps => simp only [TS.step]; exact (TS.note_rest _ _).2.2.2.2.2.1
    | waitRead hh => simp only [TS.step]; exact (TS.note_rest _ _).2.2.2.2.2.1
    | closeA t => cases ctl <;> rfl

/-- `ConnAt` as a decidable check (for concrete states) -/
def connAtB (n : NetSt) (name : String) (cid idx : Nat) (src dst : Ep) (q : Nat) : Bool :=
  match n.tcp? name, n.chan? cid with
  | some s, some ch =>
    s.chan == some cid && s.bound == src && ch.selfIdx src == idx && ch.ep (ch.remoteIdx src) == dst
      && ch.sent idx == q
  | _, _ => false

theorem connAt_of_check (n : NetSt) (name : String) (cid idx : Nat) (src dst : Ep) (q : Nat)
    (h : connAtB n name cid idx src dst q = true) : ConnAt n name cid idx src dst q := by
  unfold connAtB at h
  cases hs : n.tcp? name with
  | none => rw [hs] at h; cases h
  | some s =>
    cases hc : n.chan? cid with
    | none => rw [hs, hc] at h; cases h
    | some ch =>
      rw [hs, hc] at h
      simp only [Bool.and_eq_true, beq_iff_eq] at h
      exact ⟨s, ch, hs, h.1.1.1.1, hc, h.1.1.1.2, h.1.1.2, h.1.2, h.2⟩

/-- the same label at another time -/
def TLbl.atTime (t : Int) : TLbl → TLbl
  | .write _ op => .write t op
  | .run _ => .run t
  | .deliver _ i tr => .deliver t i tr
  | .closeA _ => .closeA t
  | l => l

end SimVerif
