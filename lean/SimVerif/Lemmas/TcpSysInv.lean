/-
  SimVerif.Lemmas.TcpSysInv — the invariant of the open system `TS` (SimVerif/StreamSys.lean) and
  its preservation by every label.
-/
import SimVerif.Lemmas.TcpInv

namespace SimVerif

/-- the writer's socket: while the connection is open its next sequence number is the number of
    segments created so far and its segment size is the one it started with; what waits for
    retransmission is genuine; once closed it cannot send -/
structure AOk (segs : List (List UInt8)) (closed : Bool) (mss0 : Nat) (sa : TcpSock) : Prop where
  live : closed = false → sa.nextOut = segs.length ∧ sa.mss = mss0
  dead : closed = true → sa.isOpen = false ∧ sa.chan = none
  resend : ∀ p ∈ sa.resend, p.ty = .payload ∧ segs[p.id]? = some p.payload

theorem AOk.weq {segs closed m sa sa'} (h : AOk segs closed m sa) (w : WEq sa sa') : AOk segs closed m sa' :=
  ⟨fun hc => by rw [w.nextOut, w.mss]; exact h.live hc,
   fun hc => by rw [w.isOpen, w.chan]; exact h.dead hc,
   by rw [w.resend]; exact h.resend⟩

structure TCore (c : TcpCfg) (net : NetSt) (bag : List Pkt) (segs : List (List UInt8))
    (written delivered : List UInt8) (eofAt : Option Nat) (closed : Bool) (mss0 : Nat) : Prop where
  ne : c.a ≠ c.b
  flat : segs.flatten = written
  exA : ∃ sa, net.tcp? c.a = some sa ∧ AOk segs closed mss0 sa
  exB : ∃ sb, net.tcp? c.b = some sb ∧ BQ segs closed delivered sb.nextIn sb.reorder sb.inq
  bag : ∀ p ∈ bag, s5_PktOk segs closed p
  eof : ∀ k, eofAt = some k → k = delivered.length ∧ delivered = written ∧ closed = true
  segsB : 0 < mss0 → ∀ x ∈ segs, x ≠ [] ∧ x.length ≤ mss0

/-- a writer-side action that creates no segment -/
theorem TCore.stepA {c net bag segs w d e cl m} (h : TCore c net bag segs w d e cl m)
    {net' : NetSt} {f : TcpSock → TcpSock → Prop} (hA : AStep net net' c.a f)
    (hf : ∀ sa sa', net.tcp? c.a = some sa → AOk segs cl m sa → f sa sa' → AOk segs cl m sa')
    {bag' : List Pkt} (hb : ∀ p ∈ bag', p ∈ bag ∨ s5_PktOk segs cl p) :
    TCore c net' bag' segs w d e cl m := by
  obtain ⟨sa, hsa, hao⟩ := h.exA
  obtain ⟨sa', hsa', hff⟩ := hA.1 sa hsa
  refine ⟨h.ne, h.flat, ⟨sa', hsa', hf sa sa' hsa hao hff⟩, ?_, ?_, h.eof, h.segsB⟩
  · rw [hA.2 c.b (Ne.symm h.ne)]; exact h.exB
  · intro p hp
    rcases hb p hp with hp | hp
    · exact h.bag p hp
    · exact hp

/-- one iteration of the segmentation loop -/
theorem TCore.sendSeg {c net bag segs w d e cl m} (h : TCore c net bag segs w d e cl m) (hcl : cl = false)
    (t : Int) (hops : List String) (seg : List UInt8) (hseg : 0 < m → seg ≠ [] ∧ seg.length ≤ m) :
    TCore c (net.tcpSendSeg t c.a hops seg).1 (bag ++ s5_fwdsOf (net.tcpSendSeg t c.a hops seg).2)
      (segs ++ [seg]) (w ++ seg) d e cl m := by
  obtain ⟨sa, hsa, hao⟩ := h.exA
  obtain ⟨hst, hfw⟩ := tcpSendSeg_spec net t c.a hops seg sa hsa
  obtain ⟨sa', hsa', hw⟩ := hst.1 sa hsa
  have hlive := hao.live hcl
  refine ⟨h.ne, by rw [List.flatten_append, h.flat]; simp, ⟨sa', hsa', ?_⟩, ?_, ?_, ?_, ?_⟩
  · refine ⟨fun _ => ?_, fun hc => (by rw [hcl] at hc; cases hc), ?_⟩
    · rw [hw.nextOut, hw.mss]; simp [hlive.1, hlive.2]
    · rw [hw.resend]
      intro p hp
      obtain ⟨h1, h2⟩ := hao.resend p hp
      refine ⟨h1, ?_⟩
      have hlt := (List.getElem?_eq_some_iff.mp h2).1
      rw [List.getElem?_append_left hlt]; exact h2
  · rw [hst.2 c.b (Ne.symm h.ne)]
    obtain ⟨sb, hsb, hq⟩ := h.exB
    exact ⟨sb, hsb, hq.mono_seg seg hcl⟩
  · intro p hp
    rw [List.mem_append] at hp
    rcases hp with hp | hp
    · exact (h.bag p hp).mono_seg seg hcl
    · obtain ⟨h1, h2, h3, _⟩ := hfw p hp
      left; left
      refine ⟨h2, ?_⟩
      rw [h1, hlive.1, h3]; simp
  · intro k hk
    have := (h.eof k hk).2.2
    rw [hcl] at this; cases this
  · intro hm x hx
    rw [List.mem_append] at hx
    rcases hx with hx | hx
    · exact h.segsB hm x hx
    · simp only [List.mem_singleton] at hx; subst hx; exact hseg hm

def eofNote (e : Option Nat) (d : List UInt8) : Option RdEv → Option Nat
  | some (.err .eof) => (match e with | some k => some k | none => some d.length)
  | _ => e

theorem TS.note_delivered (s : TS) (ev : Option RdEv) : (s.note ev).delivered = dlNote s.delivered ev := by
  cases ev with
  | none => rfl
  | some x => cases x with
    | data d => rfl
    | err e => cases e <;> rfl

theorem TS.note_eofAt (s : TS) (ev : Option RdEv) : (s.note ev).eofAt = eofNote s.eofAt s.delivered ev := by
  cases ev with
  | none => rfl
  | some x => cases x with
    | data d => rfl
    | err e => cases e <;> rfl

theorem TS.note_rest (s : TS) (ev : Option RdEv) :
    (s.note ev).net = s.net ∧ (s.note ev).bag = s.bag ∧ (s.note ev).segs = s.segs ∧ (s.note ev).written = s.written
    ∧ (s.note ev).closed = s.closed ∧ (s.note ev).mss0 = s.mss0 ∧ (s.note ev).ctl = s.ctl
    ∧ (s.note ev).accepted = s.accepted := by
  cases ev with
  | none => exact ⟨rfl, rfl, rfl, rfl, rfl, rfl, rfl, rfl⟩
  | some x => cases x with
    | data d => exact ⟨rfl, rfl, rfl, rfl, rfl, rfl, rfl, rfl⟩
    | err e => cases e <;> exact ⟨rfl, rfl, rfl, rfl, rfl, rfl, rfl, rfl⟩

/-- a reader-side action -/
theorem TCore.stepB {c net bag segs w d e cl m} (h : TCore c net bag segs w d e cl m)
    {net' : NetSt} {ev : Option RdEv} (hB : BStep segs cl d net net' c.b ev)
    {bag' : List Pkt} (hb : ∀ p ∈ bag', p ∈ bag ∨ s5_PktOk segs cl p) :
    TCore c net' bag' segs w (dlNote d ev) (eofNote e d ev) cl m := by
  obtain ⟨⟨sb', hsb', hq'⟩, heof, hoth⟩ := hB
  refine ⟨h.ne, h.flat, ?_, ⟨sb', hsb', hq'⟩, ?_, ?_, h.segsB⟩
  · rw [hoth c.a h.ne]; exact h.exA
  · intro p hp
    rcases hb p hp with hp | hp
    · exact h.bag p hp
    · exact hp
  · -- end of file
    have hpre : dlNote d ev <+: w := h.flat ▸ hq'.isPrefix
    have hgrow : d <+: dlNote d ev := by
      cases ev with
      | none => exact List.prefix_refl _
      | some x => cases x with
        | data dd => exact List.prefix_append _ _
        | err _ => exact List.prefix_refl _
    have old : ∀ k, e = some k → k = (dlNote d ev).length ∧ dlNote d ev = w ∧ cl = true := by
      intro k hk
      obtain ⟨h1, h2, h3⟩ := h.eof k hk
      have hle : (dlNote d ev).length ≤ d.length := by
        have := hpre.length_le; rw [← h2] at this; exact this
      have heq : dlNote d ev = d := (List.IsPrefix.eq_of_length_le hgrow hle).symm
      rw [heq]; exact ⟨h1, h2, h3⟩
    intro k hk
    by_cases hev : ev = some (.err .eof)
    · subst hev
      cases he : e with
      | some k0 =>
        rw [he] at hk; simp only [eofNote] at hk
        exact old k (by rw [he]; exact hk)
      | none =>
        rw [he] at hk; simp only [eofNote, Option.some.injEq] at hk
        obtain ⟨h1, h2⟩ := heof rfl
        exact ⟨by rw [← hk]; rfl, by simp only [dlNote]; rw [h1, h.flat], h2⟩
    · have : eofNote e d ev = e := by
        cases ev with
        | none => rfl
        | some x => cases x with
          | data dd => rfl
          | err ee => cases ee <;> first | rfl | exact absurd rfl hev
      rw [this] at hk
      exact old k hk

/-- the writer closes -/
theorem TCore.close {c net bag segs w d e cl m} (h : TCore c net bag segs w d e cl m) (t : Int) :
    TCore c (net.tcpClose t c.a).1 (bag ++ s5_fwdsOf (net.tcpClose t c.a).2) segs w d e true m := by
  obtain ⟨sa, hsa, hao⟩ := h.exA
  obtain ⟨⟨sa', hsa', ho, hr, hch⟩, hoth, hfw, hno⟩ := tcpClose_spec net t c.a sa hsa
  refine ⟨h.ne, h.flat, ⟨sa', hsa', ?_⟩, ?_, ?_, ?_, h.segsB⟩
  · exact ⟨fun hc => (by cases hc), fun _ => ⟨ho, hch⟩, (by rw [hr]; simp)⟩
  · rw [hoth c.b (Ne.symm h.ne)]
    obtain ⟨sb, hsb, hq⟩ := h.exB
    exact ⟨sb, hsb, hq.close⟩
  · intro p hp
    rw [List.mem_append] at hp
    rcases hp with hp | hp
    · exact (h.bag p hp).close
    · cases hcl : cl with
      | true =>
        rw [hno (hao.dead hcl).2] at hp; simp at hp
      | false =>
        obtain ⟨h1, h2, h3, h4⟩ := hfw p hp
        left; right
        exact ⟨h1, rfl, by rw [h2, (hao.live hcl).1], h3, h4⟩
  · intro k hk
    obtain ⟨h1, h2, _⟩ := h.eof k hk
    exact ⟨h1, h2, rfl⟩

def CtlOk (ctl : TCtl) (written accepted : List UInt8) (closed : Bool) (mss0 : Nat) : Prop :=
  match ctl with
  | .segs op _ rest acc =>
    closed = false
    ∧ (∃ cur, written = accepted ++ cur ∧ cur ++ rest.flatten = op.bufs.flatten ∧ acc = cur.length)
    ∧ (0 < mss0 → ∀ x ∈ rest, x ≠ [] ∧ x.length ≤ mss0)
  | _ => written = accepted

/-- the invariant of the open system -/
structure TInv (c : TcpCfg) (s : TS) : Prop where
  core : TCore c s.net s.bag s.segs s.written s.delivered s.eofAt s.closed s.mss0
  ctl : CtlOk s.ctl s.written s.accepted s.closed s.mss0

theorem TInv.finish {c : TcpCfg} {s : TS}
    (hc : TCore c s.net s.bag s.segs s.written s.delivered s.eofAt s.closed s.mss0)
    (op : WriteOp) (r : Except Ec Nat)
    (hw : s.written = (match r with | .ok k => s.accepted ++ op.bufs.flatten.take k | .error _ => s.accepted)) :
    TInv c (s.finish c op r) := by
  unfold TS.finish TS.emit
  have hs := tcpWriteFinish_spec s.net c.a op r
  constructor
  · dsimp only
    apply hc.stepA hs.1 (fun sa sa' _ h w => h.weq w)
    intro p hp; rw [hs.2, List.append_nil] at hp; exact Or.inl hp
  · dsimp only [CtlOk]
    exact hw

theorem TInv.startWrite {c : TcpCfg} {s : TS}
    (hc : TCore c s.net s.bag s.segs s.written s.delivered s.eofAt s.closed s.mss0)
    (hw : s.written = s.accepted) (t : Int) (op : WriteOp) : TInv c (s.startWrite c t op) := by
  unfold TS.startWrite
  split
  · exact TInv.finish hc op _ hw
  · exact TInv.finish hc op _ (by simp [hw])
  · rename_i hops seg rest hprep
    obtain ⟨sa, hsa, hopen, hflat, hbound⟩ := tcpWritePrep_spec _ _ _ _ _ hprep
    obtain ⟨sa', hsa', hao⟩ := hc.exA
    rw [hsa] at hsa'; cases hsa'
    have hcl : s.closed = false := by
      cases h : s.closed with
      | false => rfl
      | true => have := (hao.dead h).1; rw [hopen] at this; cases this
    have hm := (hao.live hcl).2
    have hb : 0 < s.mss0 → ∀ x ∈ seg :: rest, x ≠ [] ∧ x.length ≤ s.mss0 := by
      intro h0; rw [← hm] at h0 ⊢; exact hbound h0
    unfold TS.sendSeg TS.emit
    constructor
    · dsimp only
      exact hc.sendSeg hcl t hops seg (fun h0 => hb h0 seg (by simp))
    · dsimp only [CtlOk]
      refine ⟨hcl, ⟨seg, by rw [hw], ?_, rfl⟩, fun h0 x hx => hb h0 x (List.mem_cons_of_mem _ hx)⟩
      rw [← hflat]; simp

theorem TInv.wake {c : TcpCfg} {s : TS}
    (hc : TCore c s.net s.bag s.segs s.written s.delivered s.eofAt s.closed s.mss0)
    (hw : s.written = s.accepted) (t : Int) : TInv c (s.wake c t) := by
  unfold TS.wake
  split
  · rename_i sa hsa
    split
    · apply TInv.startWrite
      · dsimp only
        apply hc.stepA (AStep.set (f := WEq) (s' := { sa with sendH := none }) hsa ⟨rfl, rfl, rfl, rfl, rfl⟩) (fun sa sa' _ h w => h.weq w)
        intro p hp; exact Or.inl hp
      · exact hw
    · exact ⟨hc, hw⟩
  · exact ⟨hc, hw⟩

theorem TInv.runCtl {c : TcpCfg} {s : TS} (h : TInv c s) (t : Int) : TInv c (s.runCtl c t) := by
  obtain ⟨hc, hctl⟩ := h
  unfold TS.runCtl
  split
  · exact ⟨hc, hctl⟩
  · -- one retransmission
    rename_i n wb acked hcs
    rw [hcs] at hctl
    split
    · exact ⟨hc, hctl⟩
    · rename_i r hr
      obtain ⟨sa, p, rest, hsa, hres, hst, hfw⟩ := tcpResendOne_spec _ _ _ _ hr
      unfold TS.emit
      refine ⟨?_, hctl⟩
      dsimp only
      obtain ⟨sa0, hsa0, hao0⟩ := hc.exA
      rw [hsa] at hsa0; cases hsa0
      have hp := hao0.resend p (by rw [hres]; simp)
      apply hc.stepA hst
      · intro x x' hx0 hx hw
        rw [hsa] at hx0; cases hx0
        have hx' : AOk s.segs s.closed s.mss0 { sa with resend := rest } :=
          ⟨hx.live, hx.dead, fun q hq => hx.resend q (by rw [hres]; exact List.mem_cons_of_mem _ hq)⟩
        exact hx'.weq hw
      · intro q hq
        rw [List.mem_append] at hq
        rcases hq with hq | hq
        · exact Or.inl hq
        · obtain ⟨h1, h2, h3, _⟩ := hfw q hq
          right; left; left
          exact ⟨by rw [h2, hp.1], by rw [h1, h3]; exact hp.2⟩
  · -- window growth, writer wake-up
    rename_i wb acked hcs
    rw [hcs] at hctl
    have hs := tcpAckPost_spec c.tp s.net c.a wb acked
    have hc' : TCore c (s.net.tcpAckPost c.tp c.a wb acked).1 s.bag s.segs s.written s.delivered s.eofAt s.closed s.mss0 :=
      hc.stepA hs (fun sa sa' _ h w => h.weq w) (fun p hp => Or.inl hp)
    dsimp only
    split
    · exact TInv.wake (s := { s with net := (s.net.tcpAckPost c.tp c.a wb acked).1, ctl := .idle }) hc' hctl t
    · exact ⟨hc', hctl⟩
  · -- segmentation loop
    rename_i op hops rest acc hcs
    rw [hcs] at hctl
    obtain ⟨hcl, ⟨cur, hw, hfl, hacc⟩, hbd⟩ := hctl
    have hfin : TInv c (s.finish c op (.ok acc)) := by
      apply TInv.finish hc
      dsimp only
      rw [hw, ← hfl, hacc]; simp
    split
    · exact hfin
    · split
      · exact hfin
      · rename_i seg rest'
        unfold TS.sendSeg TS.emit
        constructor
        · dsimp only
          exact hc.sendSeg hcl t hops seg (fun h0 => hbd h0 seg (by simp))
        · dsimp only [CtlOk]
          refine ⟨hcl, ⟨cur ++ seg, by rw [hw, List.append_assoc], ?_, by simp [hacc]⟩,
            fun h0 x hx => hbd h0 x (List.mem_cons_of_mem _ hx)⟩
          rw [← hfl]; simp

theorem s5_PktOk.inTransit {segs closed p} (tr : Option (List String × String)) (h : s5_PktOk segs closed p) :
    s5_PktOk segs closed (p.inTransit tr) := by
  cases tr with
  | none => exact h
  | some x => obtain ⟨a, b⟩ := x; exact h

theorem ctlOk_nonseg {ctl : TCtl} {w a : List UInt8} {cl : Bool} {m : Nat}
    (h : ∀ op hops rest acc, ctl ≠ .segs op hops rest acc) : CtlOk ctl w a cl m ↔ w = a := by
  cases ctl with
  | idle => exact Iff.rfl
  | resend n wb acked => exact Iff.rfl
  | segs op hops rest acc => exact absurd rfl (h op hops rest acc)

theorem TS.note_eq (s : TS) (ev : Option RdEv) :
    s.note ev = { s with delivered := dlNote s.delivered ev, eofAt := eofNote s.eofAt s.delivered ev } := by
  cases ev with
  | none => rfl
  | some x => cases x with
    | data d => rfl
    | err e => cases e <;> rfl

theorem TInv.noteB {c : TcpCfg} {s : TS}
    (hc : TCore c s.net s.bag s.segs s.written s.delivered s.eofAt s.closed s.mss0)
    (hctl : CtlOk s.ctl s.written s.accepted s.closed s.mss0)
    {n' : NetSt} {bag' : List Pkt} {posts' : List Compl} {ev : Option RdEv}
    (hB : BStep s.segs s.closed s.delivered s.net n' c.b ev)
    (hb : ∀ p ∈ bag', p ∈ s.bag ∨ s5_PktOk s.segs s.closed p) :
    TInv c (({ s with net := n', bag := bag', posts := posts' } : TS).note ev) := by
  rw [TS.note_eq]
  exact ⟨hc.stepB hB hb, hctl⟩

theorem TInv.step {c : TcpCfg} {s : TS} (h : TInv c s) (l : TLbl) : TInv c (s.step c l) := by
  obtain ⟨hc, hctl⟩ := h
  cases l with
  | write t op =>
    simp only [TS.step]
    split
    · rename_i hidle
      rw [hidle] at hctl
      have hs := tcpAsyncWrite_spec s.net c.a op
      apply TInv.wake
      · simp only [TS.emit]
        apply hc.stepA hs.1 (fun sa sa' _ h w => h.weq w)
        intro p hp; rw [hs.2, List.append_nil] at hp; exact Or.inl hp
      · exact hctl
    · exact ⟨hc, hctl⟩
  | run t => exact TInv.runCtl ⟨hc, hctl⟩ t
  | deliver t i tr =>
    simp only [TS.step]
    split
    · exact ⟨hc, hctl⟩
    · rename_i p0 hp
      have hmem : p0 ∈ s.bag := List.mem_of_getElem? hp
      have hpk := s5_PktOk.inTransit tr (hc.bag p0 hmem)
      generalize p0.inTransit tr = p at hpk ⊢
      have herase : ∀ q ∈ s.bag.eraseIdx i, q ∈ s.bag := fun q hq => List.mem_of_mem_eraseIdx hq
      split
      · -- an ACK reaches the writer
        rename_i hty
        split
        · rename_i hidle
          rw [hidle] at hctl
          have hs := tcpIncoming_ack_spec c.tp s.net t c.a p hty
          simp only [TS.emit]
          constructor
          · dsimp only
            apply hc.stepA hs.1 (fun sa sa' _ h w => h.weq w)
            intro q hq; rw [hs.2.1, List.append_nil] at hq; exact Or.inl (herase q hq)
          · dsimp only
            apply (ctlOk_nonseg _).mpr hctl
            intro op hops rest acc
            split <;> simp
        · exact ⟨hc, hctl⟩
      · -- a segment / the end-of-stream marker reaches the reader
        rename_i hty
        have hdo : DataOk s.segs s.closed p := by
          rcases hpk with h | h
          · exact h
          · rw [h.1] at hty; cases hty
        obtain ⟨sb, hsb, hq⟩ := hc.exB
        have hs := tcpIncoming_data_spec c.tp s.net t c.b p sb hsb (Or.inl hty) hdo hq
        simp only [TS.emit]
        apply TInv.noteB hc hctl hs.1
        intro q hq'
        rw [List.mem_append] at hq'
        rcases hq' with hq' | hq'
        · exact Or.inl (herase q hq')
        · exact Or.inr (Or.inr (hs.2 q hq'))
      · rename_i hty
        have hdo : DataOk s.segs s.closed p := by
          rcases hpk with h | h
          · exact h
          · rw [h.1] at hty; cases hty
        obtain ⟨sb, hsb, hq⟩ := hc.exB
        have hs := tcpIncoming_data_spec c.tp s.net t c.b p sb hsb (Or.inr hty) hdo hq
        simp only [TS.emit]
        apply TInv.noteB hc hctl hs.1
        intro q hq'
        rw [List.mem_append] at hq'
        rcases hq' with hq' | hq'
        · exact Or.inl (herase q hq')
        · exact Or.inr (Or.inr (hs.2 q hq'))
      · exact ⟨⟨hc.ne, hc.flat, hc.exA, hc.exB, fun q hq => hc.bag q (herase q hq), hc.eof, hc.segsB⟩, hctl⟩
  | drop i tr =>
    simp only [TS.step]
    split
    · exact ⟨hc, hctl⟩
    · rename_i p0 hp
      have hmem : p0 ∈ s.bag := List.mem_of_getElem? hp
      have hpk := s5_PktOk.inTransit tr (hc.bag p0 hmem)
      generalize p0.inTransit tr = p at hpk ⊢
      split
      · rename_i hdrop
        have hpl : p.ty = .payload ∧ s.segs[p.id]? = some p.payload := by
          rcases hpk with (h | h) | h
          · exact h
          · rw [h.2.2.2.2] at hdrop; cases hdrop
          · rw [h.2] at hdrop; cases hdrop
        refine ⟨?_, hctl⟩
        dsimp only
        apply hc.stepA (tcpPacketDropped_spec c.tp s.net c.a p)
        · intro sa sa' _ hao hf
          rcases hf with hw | ⟨p', hw, h1, h2, h3⟩
          · exact hao.weq hw
          · have : AOk s.segs s.closed s.mss0 { sa with resend := sa.resend ++ [p'] } := by
              refine ⟨hao.live, hao.dead, ?_⟩
              intro q hq
              simp only [List.mem_append, List.mem_singleton] at hq
              rcases hq with hq | rfl
              · exact hao.resend q hq
              · rw [h1, h2, h3]; exact hpl
            exact this.weq hw
        · intro q hq; exact Or.inl (List.mem_of_mem_eraseIdx hq)
      · exact ⟨hc, hctl⟩
  | read op =>
    simp only [TS.step]
    obtain ⟨sb, hsb, hq⟩ := hc.exB
    have hs := tcpAsyncRead_spec s.net c.b op sb hsb hq
    simp only [TS.emit, hsb, Option.bind_some]
    apply TInv.noteB hc hctl hs.1
    intro q hq'; rw [hs.2, List.append_nil] at hq'; exact Or.inl hq'
  | readNb caps =>
    simp only [TS.step]
    obtain ⟨sb, hsb, hq⟩ := hc.exB
    have hs := tcpReadNb_spec s.net c.b caps sb hsb hq
    exact TInv.noteB (bag' := s.bag) (posts' := s.posts) hc hctl hs (fun q hq' => Or.inl hq')
  | waitRead hh =>
    simp only [TS.step]
    obtain ⟨sb, hsb, hq⟩ := hc.exB
    have hs := tcpWaitRead_spec s.net c.b hh sb hsb hq
    simp only [TS.emit, hsb, Option.bind_some]
    apply TInv.noteB hc hctl hs.1
    intro q hq'; rw [hs.2, List.append_nil] at hq'; exact Or.inl hq'
  | closeA t =>
    simp only [TS.step]
    split
    · rename_i hidle
      rw [hidle] at hctl
      simp only [TS.emit]
      exact ⟨hc.close t, by dsimp only; rw [hidle]; exact hctl⟩
    · exact ⟨hc, hctl⟩


theorem TInv.run {c : TcpCfg} (ls : List TLbl) : ∀ {s : TS}, TInv c s → TInv c (TS.run c s ls) := by
  induction ls with
  | nil => intro s h; exact h
  | cons l rest ih => intro s h; exact ih (h.step l)

theorem TInv.init {c : TcpCfg} {n : NetSt} (h : TcpStart c n) : TInv c (TS.init c n) := by
  obtain ⟨sa, hsa, h1, h2, h3⟩ := h.sa
  obtain ⟨sb, hsb, h4, h5, h6⟩ := h.sb
  refine ⟨⟨h.ne, rfl, ⟨sa, hsa, ?_⟩, ⟨sb, hsb, ?_⟩, by simp [TS.init], by simp [TS.init], by simp [TS.init]⟩, rfl⟩
  · refine ⟨fun _ => ⟨by simp [TS.init, h1], by simp [TS.init, hsa]⟩, fun hc => by simp [TS.init] at hc, ?_⟩
    rw [h2]; simp
  · simp only [TS.init]
    rw [h4, h5, h6]
    exact ⟨by simp, by simp, by simp, by simp, by simp⟩

/-- every reachable state satisfies the invariant -/
theorem TInv.reach {c : TcpCfg} {n : NetSt} (h : TcpStart c n) (ls : List TLbl) :
    TInv c (TS.run c (TS.init c n) ls) := (TInv.init h).run ls


/-- `TcpStart` from decidable projections (for concrete states) -/
theorem tcpStart_of_check (c : TcpCfg) (n : NetSt) (h : c.a ≠ c.b)
    (ha : (n.tcp? c.a).map (fun s => (s.nextOut, s.resend.length, s.isOpen)) = some (0, 0, true))
    (hb : (n.tcp? c.b).map (fun s => (s.nextIn, s.reorder.length, s.inq.length)) = some (0, 0, 0)) :
    TcpStart c n := by
  refine ⟨h, ?_, ?_⟩
  · cases hs : n.tcp? c.a with
    | none => rw [hs] at ha; cases ha
    | some s =>
      rw [hs] at ha
      simp only [Option.map_some, Option.some.injEq, Prod.mk.injEq] at ha
      exact ⟨s, rfl, ha.1, List.eq_nil_of_length_eq_zero ha.2.1, ha.2.2⟩
  · cases hs : n.tcp? c.b with
    | none => rw [hs] at hb; cases hb
    | some s =>
      rw [hs] at hb
      simp only [Option.map_some, Option.some.injEq, Prod.mk.injEq] at hb
      exact ⟨s, rfl, hb.1, List.eq_nil_of_length_eq_zero hb.2.1, List.eq_nil_of_length_eq_zero hb.2.2⟩

/-- the explicitly built established state is a start state, in both directions, whatever the
    routes, endpoints and configuration -/
theorem established_start (cfg : NetCfg) (c : TcpCfg) (epA epB : Ep) (hopsAB hopsBA : List String)
    (h : c.a ≠ c.b) :
    TcpStart c (established cfg c epA epB hopsAB hopsBA)
    ∧ TcpStart { a := c.b, b := c.a, tp := c.tp } (established cfg c epA epB hopsAB hopsBA) := by
  have hba : (c.b == c.a) = false := by simpa using (Ne.symm h)
  have hab : (c.a == c.b) = false := by simpa using h
  constructor
  · apply tcpStart_of_check _ _ h
    · simp [established, NetSt.tcp?]
    · simp [established, NetSt.tcp?, List.lookup, hba]
  · apply tcpStart_of_check _ _ (Ne.symm h)
    · simp [established, NetSt.tcp?, List.lookup, hba]
    · simp [established, NetSt.tcp?]

end SimVerif
