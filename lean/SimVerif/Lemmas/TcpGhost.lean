/-
  SimVerif.Lemmas.TcpGhost — the ghost events of the open system (StreamSys.lean) and the
  completions the mechanism posts come from the same `readSome` / `available` results.
-/
import SimVerif.Lemmas.TcpSysInv
namespace SimVerif

@[simp] theorem postsOf_nil : postsOf [] = [] := rfl
@[simp] theorem postsOf_append (a b : List NEff) : postsOf (a ++ b) = postsOf a ++ postsOf b := by
  induction a with
  | nil => rfl
  | cons e r ih => cases e <;> simp [postsOf, ih]

/-- what a completed (or parked) `async_read_some` posts, as a function of the `readSome` result -/
def readCompl (h : Nat) : Except Ec (List UInt8) → List Compl
  | .ok d => [{ h := h, ec := .ok, extra := readExtra d, data := d }]
  | .error .wouldBlock => []
  | .error e => [{ h := h, ec := e, extra := "n=0 data=-" }]

def waitCompl (h : Nat) : Except Ec Nat → List Compl
  | .error e => [{ h := h, ec := e }]
  | .ok k => if k > 0 then [{ h := h, ec := .ok }] else []

theorem asyncReadImpl_posts (s : TcpSock) (op : ReadOp) :
    postsOf (s.asyncReadImpl op).2 = readCompl op.h (s.readSome s.chan.isSome op.caps).2 := by
  unfold TcpSock.asyncReadImpl
  generalize s.readSome s.chan.isSome op.caps = r
  obtain ⟨s1, res⟩ := r
  cases res with
  | ok d => rfl
  | error e => cases e <;> rfl

theorem asyncWaitReadImpl_posts (s : TcpSock) (h : Nat) :
    postsOf (s.asyncWaitReadImpl h).2 = waitCompl h (s.available s.chan.isSome) := by
  unfold TcpSock.asyncWaitReadImpl
  cases s.available s.chan.isSome with
  | error e => rfl
  | ok k =>
    dsimp only [waitCompl]
    split <;> rfl


/-- the completions `maybe_wakeup_reader()` posts (same case analysis as `wakeRead`) -/
def TcpSock.wakeCompl (tp : TParams) (s : TcpSock) : List Compl :=
  let skip := if tp.wakeReaderFixed then s.inq.isEmpty else s.inq.length != 1
  if skip || (s.recvH.isNone && s.waitRecvH.isNone) then []
  else if s.recvNull then
    match s.waitRecvH with
    | some h => waitCompl h (s.available s.chan.isSome)
    | none => []
  else
    match s.recvH with
    | some op => readCompl op.h (s.readSome s.chan.isSome op.caps).2
    | none => []

theorem maybeWakeupReader_posts (tp : TParams) (s : TcpSock) :
    postsOf (s.maybeWakeupReader tp).2 = s.wakeCompl tp := by
  unfold TcpSock.maybeWakeupReader TcpSock.wakeCompl
  dsimp only
  generalize (if tp.wakeReaderFixed = true then s.inq.isEmpty else s.inq.length != 1) = skip
  split
  · rfl
  · split
    · cases hw : s.waitRecvH with
      | none => rfl
      | some h =>
        dsimp only
        rw [asyncWaitReadImpl_posts]
        rw [available_congr s { s with waitRecvH := none } _ rfl rfl]
    · cases ho : s.recvH with
      | none => rfl
      | some op =>
        dsimp only
        rw [asyncReadImpl_posts]
        rw [(readSome_congr s { s with recvH := none } s.chan.isSome op.caps rfl rfl rfl).1]

/-- the ghost event and the posted completion come from the same `readSome` / `available` result -/
theorem wakeRead_wakeCompl (tp : TParams) (s : TcpSock) :
    (∀ d, s.wakeRead tp = some (.data d) → ∃ h, s.wakeCompl tp = [{ h := h, ec := .ok, extra := readExtra d, data := d }])
    ∧ (∀ e, s.wakeRead tp = some (.err e) → ∃ h x, s.wakeCompl tp = [{ h := h, ec := e, extra := x }])
    ∧ (s.wakeRead tp = none → ∀ c ∈ s.wakeCompl tp, c.ec = .ok ∧ c.extra = "") := by
  unfold TcpSock.wakeRead TcpSock.wakeCompl
  dsimp only
  generalize (if tp.wakeReaderFixed = true then s.inq.isEmpty else s.inq.length != 1) = skip
  split
  · simp
  · split
    · cases hw : s.waitRecvH with
      | none => simp
      | some h =>
        dsimp only
        cases s.available s.chan.isSome with
        | error e => simp [waitCompl]
        | ok k =>
          simp only [waitCompl]
          refine ⟨by simp, by simp, ?_⟩
          intro _ c hc
          split at hc
          · simp at hc; subst hc; exact ⟨rfl, rfl⟩
          · simp at hc
    · cases ho : s.recvH with
      | none => simp
      | some op =>
        dsimp only
        generalize (s.readSome s.chan.isSome op.caps).2 = r
        cases r with
        | ok d => simp [rdEvOf, readCompl]
        | error e => cases e <;> simp [rdEvOf, readCompl]


theorem tcpAsyncRead_posts (n : NetSt) (name : String) (op : ReadOp) (s : TcpSock) (hs : n.tcp? name = some s) :
    postsOf (n.tcpAsyncRead name op).2
      = postsOf s.abortRecv.2 ++ readCompl op.h (s.readSome s.chan.isSome op.caps).2 := by
  unfold NetSt.tcpAsyncRead
  rw [hs]
  dsimp only
  have ha := s5_abortRecv_spec s
  rw [postsOf_append, asyncReadImpl_posts, ha.2.2.2.2.1,
    (readSome_congr s s.abortRecv.1 s.chan.isSome op.caps ha.2.2.2.1 ha.2.2.2.2.2.1 ha.2.2.1).1]

theorem tcpWaitRead_posts (n : NetSt) (name : String) (h : Nat) (s : TcpSock) (hs : n.tcp? name = some s) :
    postsOf (n.tcpWaitRead name h).2 = postsOf s.abortRecv.2 ++ waitCompl h (s.available s.chan.isSome) := by
  unfold NetSt.tcpWaitRead
  rw [hs]
  dsimp only
  have ha := s5_abortRecv_spec s
  rw [postsOf_append, asyncWaitReadImpl_posts, ha.2.2.2.2.1,
    available_congr s s.abortRecv.1 _ ha.2.2.2.1 ha.2.2.1]

theorem tcpIncoming_posts (tp : TParams) (n : NetSt) (now : Int) (name : String) (p : Pkt)
    (hty : p.ty = .payload ∨ p.ty = .err) :
    postsOf (n.tcpIncoming tp now name p).2
      = match n.tcpPreWake name p with
        | some s1 => s1.wakeCompl tp
        | none => [] := by
  unfold NetSt.tcpIncoming NetSt.tcpPreWake
  cases hs : n.tcp? name with
  | none => rfl
  | some s =>
    dsimp only
    have key : postsOf (match s.chan.bind n.chan? with
        | none => (n, ([] : List NEff))
        | some ch =>
          let ack : Pkt := { id := p.id, ty := .ack, len := 0, ovh := 20, hops := ch.hops (ch.remoteIdx s.bound),
                             src := "0.0.0.0:0" }
          if p.id != s.nextIn then
            let ro := if (s.reorder.lookup p.id).isSome then s.reorder else s.reorder ++ [(p.id, p)]
            (n.setTcp name { s with reorder := ro }, [NEff.forward ack])
          else
            let (nx, ro, q) := drainReorder (s.reorder.length + 1) (s.nextIn + 1) s.reorder (s.inq ++ [p])
            let s := { s with nextIn := nx, reorder := ro, inq := q }
            let (s, e2) := s.maybeWakeupReader tp
            (n.setTcp name s, [NEff.forward ack] ++ e2)).2
        = match (match s.chan.bind n.chan? with
            | none => none
            | some _ =>
              if p.id != s.nextIn then none
              else
                let (nx, ro, q) := drainReorder (s.reorder.length + 1) (s.nextIn + 1) s.reorder (s.inq ++ [p])
                some { s with nextIn := nx, reorder := ro, inq := q }) with
          | some s1 => s1.wakeCompl tp
          | none => [] := by
      cases hch : s.chan.bind n.chan? with
      | none => rfl
      | some ch =>
        dsimp only
        split
        · rfl
        · dsimp only
          rw [postsOf_append, maybeWakeupReader_posts]
          rfl
    rcases hty with h | h <;> simp only [h] <;> exact key


/-- the ghost field `mss0` never changes -/
theorem TS.step_mss0 (c : TcpCfg) (s : TS) (l : TLbl) : (s.step c l).mss0 = s.mss0 := by
  have hn : ∀ (s : TS) ev, (s.note ev).mss0 = s.mss0 := fun s ev => (TS.note_rest s ev).2.2.2.2.2.1
  have hf : ∀ (s : TS) op r, (s.finish c op r).mss0 = s.mss0 := fun s op r => rfl
  have hs : ∀ (s : TS) t op, (s.startWrite c t op).mss0 = s.mss0 := by
    intro s t op
    unfold TS.startWrite
    split
    · exact hf _ _ _
    · exact hf _ _ _
    · rfl
  have hw : ∀ (s : TS) t, (s.wake c t).mss0 = s.mss0 := by
    intro s t
    unfold TS.wake
    split
    · split
      · exact hs _ _ _
      · rfl
    · rfl
  cases l with
  | write t op =>
    simp only [TS.step]
    split
    · exact hw _ _
    · rfl
  | run t =>
    simp only [TS.step, TS.runCtl]
    split
    · rfl
    · split <;> rfl
    · split
      · exact hw _ _
      · rfl
    · split
      · exact hf _ _ _
      · split
        · exact hf _ _ _
        · rfl
  | deliver t i tr =>
    simp only [TS.step]
    split
    · rfl
    · split
      · split <;> rfl
      · exact hn _ _
      · exact hn _ _
      · rfl
  | drop i tr =>
    simp only [TS.step]
    split
    · rfl
    · split <;> rfl
  | read op => simp only [TS.step]; exact hn _ _
  | readNb caps => simp only [TS.step]; exact hn _ _
  | waitRead hh => simp only [TS.step]; exact hn _ _
  | closeA t =>
    simp only [TS.step]
    split <;> rfl

theorem TS.run_mss0 (c : TcpCfg) (ls : List TLbl) : ∀ (s : TS), (TS.run c s ls).mss0 = s.mss0 := by
  induction ls with
  | nil => intro s; rfl
  | cons l rest ih => intro s; exact (ih (s.step c l)).trans (TS.step_mss0 c s l)

end SimVerif
